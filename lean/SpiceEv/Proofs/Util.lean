/-
Helper lemmas for C15 (time windows, core standing time, window series, end-of-window scan):
specification predicates and the loop lemmas behind the theorems of Properties/C15.lean.
-/
import SpiceEv.Model.Util
import Mathlib.Tactic.Linarith
import Mathlib.Tactic.Ring
set_option linter.unusedSimpArgs false
namespace SpiceEv

/-! ## specification vocabulary -/

/-- The property's window membership: `start ≤ t < end`, a window whose end lies before its start
crossing midnight.  (`start = end` is empty.) -/
def InWindow (t : Int) (w : Int × Int) : Prop :=
  (w.1 ≤ t ∧ t < w.2) ∨ (w.2 < w.1 ∧ (w.1 ≤ t ∨ t < w.2))

instance (t : Int) (w : Int × Int) : Decidable (InWindow t w) := by unfold InWindow; infer_instance

/-- `dt` lies in the season's inclusive date range -/
def Season.contains (s : Season) (dt : DateTime) : Prop := s.start ≤ dt.date ∧ dt.date ≤ s.stop

instance (s : Season) (dt : DateTime) : Decidable (s.contains dt) := by
  unfold Season.contains; infer_instance

/-- what the code's non-wrapping / wrapping branches of the core standing time test accept -/
def InCoreWindowCode (t s e : Int) : Prop :=
  (e < s ∧ (s ≤ t ∨ t < e)) ∨ (s ≤ e ∧ s ≤ t ∧ t ≤ e)

instance (t s e : Int) : Decidable (InCoreWindowCode t s e) := by
  unfold InCoreWindowCode; infer_instance

/-- every configured core window has well-formed `start`/`end` tuples -/
def CoreStandingTime.WF (c : CoreStandingTime) : Prop :=
  ∀ w ∈ c.times.getD [], ∃ p, w.parse = .ok p

def CoreWF : Option CoreStandingTime → Prop
  | none => True
  | some c => c.WF

/-- The property's core standing time (half-open reading): no configuration, a no-drive weekday, a
listed holiday, or a configured window with `start ≤ t < end` (wrapping over midnight). -/
def CoreSpec (dt : DateTime) (cst : Option CoreStandingTime) : Prop :=
  cst = none ∨ ∃ c, cst = some c ∧
    (dt.weekday ∈ c.noDriveDays.getD [] ∨ dt.date ∈ c.holidays.getD [] ∨
      ∃ w ∈ c.times.getD [], ∃ s e, w.parse = .ok (s, e) ∧ InWindow dt.time (s, e))

/-- `t` is the end instant of a configured non-wrapping window — where the code deviates (F1) -/
def AtInclusiveEnd (dt : DateTime) (cst : Option CoreStandingTime) : Prop :=
  ∃ c, cst = some c ∧ ∃ w ∈ c.times.getD [], ∃ s e, w.parse = .ok (s, e) ∧ s ≤ e ∧ dt.time = e

/-- executable form of `CoreSpec`, used for the `decide`-checked witness -/
def coreSpecB (dt : DateTime) : Option CoreStandingTime → Bool
  | none => true
  | some c =>
    (c.noDriveDays.getD []).contains dt.weekday || (c.holidays.getD []).contains dt.date ||
      (c.times.getD []).any (fun w =>
        match w.parse with
        | .ok (s, e) => decide (InWindow dt.time (s, e))
        | .error _ => false)

theorem coreSpecB_iff (dt : DateTime) (cst : Option CoreStandingTime) :
    coreSpecB dt cst = true ↔ CoreSpec dt cst := by
  cases cst with
  | none => simp [coreSpecB, CoreSpec]
  | some c =>
    simp only [coreSpecB, CoreSpec, Bool.or_eq_true, List.contains_iff_mem, List.any_eq_true,
      reduceCtorEq, false_or, Option.some.injEq, exists_eq_left']
    constructor
    · rintro ((h | h) | ⟨w, hw, h⟩)
      · exact Or.inl h
      · exact Or.inr (Or.inl h)
      · refine Or.inr (Or.inr ⟨w, hw, ?_⟩)
        split at h
        · rename_i s e hp; exact ⟨s, e, hp, of_decide_eq_true h⟩
        · exact absurd h (by simp)
    · rintro (h | h | ⟨w, hw, s, e, hp, h⟩)
      · exact Or.inl (Or.inl h)
      · exact Or.inl (Or.inr h)
      · refine Or.inr ⟨w, hw, ?_⟩
        rw [hp]; exact decide_eq_true h

/-! ## datetime_within_time_window -/

theorem windowsLoop_iff (t : Int) (ws : List (Int × Int)) :
    windowsLoop t ws = true ↔ ∃ w ∈ ws, InWindow t w := by
  induction ws with
  | nil => simp [windowsLoop]
  | cons w ws ih =>
    unfold windowsLoop
    by_cases hwrap : w.2 < w.1
    · simp only [hwrap, if_true]
      by_cases hin : t ≥ w.1 ∨ t < w.2
      · have : (decide (t ≥ w.1) || decide (t < w.2)) = true := by simpa using hin
        simp only [this, if_true, true_iff]
        exact ⟨w, List.mem_cons_self, Or.inr ⟨hwrap, hin⟩⟩
      · have : (decide (t ≥ w.1) || decide (t < w.2)) = false := by
          rw [Bool.eq_false_iff]; simpa using hin
        simp only [this, Bool.false_eq_true, if_false, ih, List.mem_cons, exists_eq_or_imp]
        constructor
        · exact fun h => Or.inr h
        · rintro (h | h)
          · exfalso; unfold InWindow at h; omega
          · exact h
    · simp only [hwrap, if_false]
      by_cases hin : w.1 ≤ t ∧ t < w.2
      · have : (decide (w.1 ≤ t) && decide (t < w.2)) = true := by simpa using hin
        simp only [this, if_true, true_iff]
        exact ⟨w, List.mem_cons_self, Or.inl hin⟩
      · have : (decide (w.1 ≤ t) && decide (t < w.2)) = false := by
          rw [Bool.eq_false_iff]; simpa using hin
        simp only [this, Bool.false_eq_true, if_false, ih, List.mem_cons, exists_eq_or_imp]
        constructor
        · exact fun h => Or.inr h
        · rintro (h | h)
          · exfalso; unfold InWindow at h; omega
          · exact h

theorem datetimeWithinTimeWindow_cons (dt : DateTime) (s : Season) (rest : List Season) (level : String) :
    datetimeWithinTimeWindow dt (s :: rest) level =
      if s.contains dt then windowsLoop dt.time (s.levelWindows level)
      else datetimeWithinTimeWindow dt rest level := by
  unfold Season.contains
  conv => lhs; unfold datetimeWithinTimeWindow
  by_cases h : s.start ≤ dt.date ∧ dt.date ≤ s.stop
  · have : (decide (s.start ≤ dt.date) && decide (dt.date ≤ s.stop)) = true := by simpa using h
    simp [this, h]
  · have : (decide (s.start ≤ dt.date) && decide (dt.date ≤ s.stop)) = false := by
      rw [Bool.eq_false_iff]; simpa using h
    simp [this, h]

/-- the code in terms of `List.find?`: the first season containing the date decides -/
theorem datetimeWithinTimeWindow_find (dt : DateTime) (seasons : List Season) (level : String) :
    datetimeWithinTimeWindow dt seasons level =
      match seasons.find? (fun s => decide (s.contains dt)) with
      | some s => windowsLoop dt.time (s.levelWindows level)
      | none => false := by
  induction seasons with
  | nil => simp [datetimeWithinTimeWindow]
  | cons s rest ih =>
    rw [datetimeWithinTimeWindow_cons, List.find?_cons]
    by_cases h : s.contains dt
    · simp [h]
    · simp [h, ih]

/-! ## dt_within_core_standing_time -/

theorem coreTimesLoop_cons_ok (t : Int) (w : CoreWindow) (ws : List CoreWindow) (s e : Int)
    (hp : w.parse = .ok (s, e)) :
    coreTimesLoop t (w :: ws) =
      if InCoreWindowCode t s e then .ok true else coreTimesLoop t ws := by
  conv => lhs; unfold coreTimesLoop
  simp only [hp, bind, Except.bind, pure, Except.pure]
  by_cases hwrap : e < s
  · simp only [hwrap, if_true]
    by_cases hin : t ≥ s ∨ t < e
    · have : (decide (t ≥ s) || decide (t < e)) = true := by simpa using hin
      have h2 : InCoreWindowCode t s e := Or.inl ⟨hwrap, hin⟩
      rw [if_pos h2]; simp only [this, if_true]
    · have : (decide (t ≥ s) || decide (t < e)) = false := by
        rw [Bool.eq_false_iff]; simpa using hin
      have h2 : ¬ InCoreWindowCode t s e := by unfold InCoreWindowCode; omega
      rw [if_neg h2]; simp only [this, Bool.false_eq_true, if_false]
  · simp only [hwrap, if_false]
    by_cases hin : s ≤ t ∧ t ≤ e
    · have : (decide (s ≤ t) && decide (t ≤ e)) = true := by simpa using hin
      have h2 : InCoreWindowCode t s e := Or.inr ⟨by omega, hin⟩
      rw [if_pos h2]; simp only [this, if_true]
    · have : (decide (s ≤ t) && decide (t ≤ e)) = false := by
        rw [Bool.eq_false_iff]; simpa using hin
      have h2 : ¬ InCoreWindowCode t s e := by unfold InCoreWindowCode; omega
      rw [if_neg h2]; simp only [this, Bool.false_eq_true, if_false]

theorem coreTimesLoop_cons_error (t : Int) (w : CoreWindow) (ws : List CoreWindow) (err : PyErr)
    (hp : w.parse = .error err) : coreTimesLoop t (w :: ws) = .error err := by
  conv => lhs; unfold coreTimesLoop
  simp only [hp, bind, Except.bind]

/-- under the well-formedness guard the loop returns a Boolean, true iff some window accepts `t` -/
theorem coreTimesLoop_ok (t : Int) (ws : List CoreWindow) (hwf : ∀ w ∈ ws, ∃ p, w.parse = .ok p) :
    ∃ b, coreTimesLoop t ws = .ok b ∧
      (b = true ↔ ∃ w ∈ ws, ∃ s e, w.parse = .ok (s, e) ∧ InCoreWindowCode t s e) := by
  induction ws with
  | nil => exact ⟨false, by simp [coreTimesLoop, pure, Except.pure], by simp⟩
  | cons w ws ih =>
    obtain ⟨⟨s, e⟩, hp⟩ := hwf w List.mem_cons_self
    obtain ⟨b, hb, hiff⟩ := ih (fun v hv => hwf v (List.mem_cons_of_mem _ hv))
    rw [coreTimesLoop_cons_ok t w ws s e hp]
    by_cases hin : InCoreWindowCode t s e
    · exact ⟨true, by simp [hin], by simp only [true_iff]; exact ⟨w, List.mem_cons_self, s, e, hp, hin⟩⟩
    · refine ⟨b, by simp [hin, hb], ?_⟩
      rw [hiff]
      constructor
      · rintro ⟨v, hv, h⟩; exact ⟨v, List.mem_cons_of_mem _ hv, h⟩
      · rintro ⟨v, hv, s', e', hp', h⟩
        rcases List.mem_cons.mp hv with rfl | hv
        · rw [hp] at hp'; cases hp'; exact absurd h hin
        · exact ⟨v, hv, s', e', hp', h⟩

/-- the loop raises exactly when a malformed window is reached before any window accepts `t` -/
theorem coreTimesLoop_error_iff (t : Int) (ws : List CoreWindow) (err : PyErr) :
    coreTimesLoop t ws = .error err ↔
      ∃ pre w post, ws = pre ++ w :: post ∧ w.parse = .error err ∧
        ∀ v ∈ pre, ∃ s e, v.parse = .ok (s, e) ∧ ¬ InCoreWindowCode t s e := by
  induction ws with
  | nil => simp [coreTimesLoop, pure, Except.pure]
  | cons w ws ih =>
    cases hp : w.parse with
    | error e0 =>
      rw [coreTimesLoop_cons_error t w ws e0 hp]
      constructor
      · intro h; cases h
        exact ⟨[], w, ws, rfl, hp, by simp⟩
      · rintro ⟨pre, v, post, heq, hv, hpre⟩
        cases pre with
        | nil => simp at heq; obtain ⟨rfl, -⟩ := heq; rw [hp] at hv; cases hv; rfl
        | cons p pre =>
          simp at heq; obtain ⟨rfl, -⟩ := heq
          obtain ⟨s, e, hpp, -⟩ := hpre w List.mem_cons_self
          rw [hp] at hpp; cases hpp
    | ok p =>
      obtain ⟨s, e⟩ := p
      rw [coreTimesLoop_cons_ok t w ws s e hp]
      by_cases hin : InCoreWindowCode t s e
      · simp only [hin, if_true]
        constructor
        · intro h; cases h
        · rintro ⟨pre, v, post, heq, hv, hpre⟩
          cases pre with
          | nil => simp at heq; obtain ⟨rfl, -⟩ := heq; rw [hp] at hv; cases hv
          | cons q pre =>
            simp at heq; obtain ⟨rfl, -⟩ := heq
            obtain ⟨s', e', hpp, hn⟩ := hpre w List.mem_cons_self
            rw [hp] at hpp; cases hpp; exact absurd hin hn
      · simp only [hin, if_false, ih]
        constructor
        · rintro ⟨pre, v, post, rfl, hv, hpre⟩
          refine ⟨w :: pre, v, post, rfl, hv, ?_⟩
          intro u hu
          rcases List.mem_cons.mp hu with rfl | hu
          · exact ⟨s, e, hp, hin⟩
          · exact hpre u hu
        · rintro ⟨pre, v, post, heq, hv, hpre⟩
          cases pre with
          | nil => simp at heq; obtain ⟨rfl, -⟩ := heq; rw [hp] at hv; cases hv
          | cons q pre =>
            simp at heq; obtain ⟨rfl, rfl⟩ := heq
            exact ⟨pre, v, post, rfl, hv, fun u hu => hpre u (List.mem_cons_of_mem _ hu)⟩

theorem dtWithinCore_some (dt : DateTime) (c : CoreStandingTime) :
    dtWithinCoreStandingTime dt (some c) =
      if dt.weekday ∈ c.noDriveDays.getD [] then .ok true
      else if dt.date ∈ c.holidays.getD [] then .ok true
      else coreTimesLoop dt.time (c.times.getD []) := by
  unfold dtWithinCoreStandingTime
  have h1 : ((c.noDriveDays.getD []).any (fun dayOff => dayOff == dt.weekday)) = true ↔
      dt.weekday ∈ c.noDriveDays.getD [] := by
    simp [List.any_eq_true]
  have h2 : ((c.holidays.getD []).contains dt.date) = true ↔ dt.date ∈ c.holidays.getD [] := by
    simp
  by_cases a : dt.weekday ∈ c.noDriveDays.getD []
  · simp only [h1.mpr a, a, if_true, pure, Except.pure]
  · have : ((c.noDriveDays.getD []).any (fun dayOff => dayOff == dt.weekday)) = false := by
      rw [Bool.eq_false_iff]; exact fun h => a (h1.mp h)
    simp only [this, a, Bool.false_eq_true, if_false]
    by_cases b : dt.date ∈ c.holidays.getD []
    · simp only [h2.mpr b, b, if_true, pure, Except.pure]
    · have : ((c.holidays.getD []).contains dt.date) = false := by
        rw [Bool.eq_false_iff]; exact fun h => b (h2.mp h)
      simp only [this, b, Bool.false_eq_true, if_false]

/-! ## the window series of get_time_windows_from_json -/

theorem ceilDiv_eq (a b : Int) (hb : 0 ≤ b) : ceilDiv a b = -((-a) / b) := by
  unfold ceilDiv
  have h : a.fdiv (-b) = (-a).fdiv b := by
    have := Int.neg_fdiv_neg (-a) b
    rwa [Int.neg_neg] at this
  rw [h, Int.fdiv_eq_ediv_of_nonneg _ hb]

/-- `ceilDiv a b` is the ceiling of `a / b`: the integer `n` with `(n - 1) * b < a ≤ n * b` -/
theorem ceilDiv_spec (a b : Int) (hb : 0 < b) :
    (ceilDiv a b - 1) * b < a ∧ a ≤ ceilDiv a b * b := by
  rw [ceilDiv_eq a b hb.le]
  have h1 := Int.emod_add_mul_ediv (-a) b
  have h2 := Int.emod_nonneg (-a) hb.ne'
  have h3 := Int.emod_lt_of_pos (-a) hb
  constructor <;> nlinarith

/-- the ceiling is the unique such integer -/
theorem ceilDiv_unique (a b n : Int) (hb : 0 < b) (h1 : (n - 1) * b < a) (h2 : a ≤ n * b) :
    ceilDiv a b = n := by
  obtain ⟨c1, c2⟩ := ceilDiv_spec a b hb
  have : ceilDiv a b < n + 1 := by
    by_contra h
    have : n + 1 ≤ ceilDiv a b := not_lt.mp h
    nlinarith
  have : n < ceilDiv a b + 1 := by
    by_contra h
    have : ceilDiv a b + 1 ≤ n := not_lt.mp h
    nlinarith
  omega

@[simp] theorem DateTime.instant_add (d : DateTime) (td : Int) : (d.add td).instant = d.instant + td := by
  unfold DateTime.add DateTime.instant; simp only; omega

@[simp] theorem DateTime.offset_add (d : DateTime) (td : Int) : (d.add td).offset = d.offset := rfl

theorem DateTime.add_add (d : DateTime) (a b : Int) : (d.add a).add b = d.add (a + b) := by
  unfold DateTime.add; simp only [Int.add_assoc]

@[simp] theorem DateTime.add_zero (d : DateTime) : d.add 0 = d := by
  unfold DateTime.add; simp

theorem DateTime.lt?_of_comparable (a b : DateTime) (h : a.comparable b) :
    a.lt? b = some (decide (a.instant < b.instant)) := by
  unfold DateTime.comparable at h
  unfold DateTime.lt? DateTime.instant
  cases ha : a.offset <;> cases hb : b.offset <;> simp_all

theorem DateTime.lt?_of_not_comparable (a b : DateTime) (h : ¬ a.comparable b) : a.lt? b = none := by
  unfold DateTime.comparable at h
  unfold DateTime.lt?
  cases ha : a.offset <;> cases hb : b.offset <;> simp_all

theorem DateTime.comparable_add (a b : DateTime) (td : Int) (h : a.comparable b) :
    (a.add td).comparable b := h

theorem seriesLength_of_not_lt (start stop : DateTime) (Δ : Int) (hΔ : 0 < Δ)
    (h : ¬ start.instant < stop.instant) : seriesLength start stop Δ = 0 := by
  unfold seriesLength
  obtain ⟨c1, -⟩ := ceilDiv_spec (stop.instant - start.instant) Δ hΔ
  apply Int.toNat_of_nonpos
  by_contra hc
  have : 1 ≤ ceilDiv (stop.instant - start.instant) Δ := by omega
  nlinarith

theorem seriesLength_of_lt (start stop : DateTime) (Δ : Int) (hΔ : 0 < Δ)
    (h : start.instant < stop.instant) :
    seriesLength start stop Δ = seriesLength (start.add Δ) stop Δ + 1 := by
  unfold seriesLength
  rw [DateTime.instant_add]
  obtain ⟨c1, c2⟩ := ceilDiv_spec (stop.instant - start.instant) Δ hΔ
  set n := ceilDiv (stop.instant - start.instant) Δ with hn
  have hpos : 1 ≤ n := by
    by_contra hc
    have : n ≤ 0 := by omega
    nlinarith
  have : ceilDiv (stop.instant - (start.instant + Δ)) Δ = n - 1 := by
    apply ceilDiv_unique _ _ _ hΔ <;> nlinarith
  rw [this]; omega

/-- the list the loop produces: `n` predicate values at `cur`, `cur + Δ`, … -/
def seriesSpec (pred : DateTime → Bool) (Δ : Int) : Nat → DateTime → List Bool
  | 0, _ => []
  | n + 1, cur => pred cur :: seriesSpec pred Δ n (cur.add Δ)

theorem seriesSpec_eq_map (pred : DateTime → Bool) (Δ : Int) (n : Nat) (cur : DateTime) :
    seriesSpec pred Δ n cur = (List.range n).map (fun (i : Nat) => pred (cur.add ((i : Int) * Δ))) := by
  induction n generalizing cur with
  | zero => simp [seriesSpec]
  | succ n ih =>
    rw [seriesSpec, ih, List.range_succ_eq_map, List.map_cons, List.map_map]
    congr 1
    · simp
    · apply List.map_congr_left
      intro i _
      simp only [Function.comp, DateTime.add_add]
      congr 2
      push_cast; ring

/-- with enough fuel the loop returns the accumulated list followed by `seriesSpec` -/
theorem seriesLoop_eq (pred : DateTime → Bool) (stop : DateTime) (Δ : Int) (hΔ : 0 < Δ) :
    ∀ (fuel : Nat) (cur : DateTime) (acc : Array Bool), cur.comparable stop →
      seriesLength cur stop Δ ≤ fuel →
      seriesLoop pred stop Δ fuel cur acc =
        .ok (acc ++ (seriesSpec pred Δ (seriesLength cur stop Δ) cur).toArray) := by
  intro fuel
  induction fuel with
  | zero =>
    intro cur acc hc hf
    unfold seriesLoop
    rw [DateTime.lt?_of_comparable _ _ hc]
    by_cases h : cur.instant < stop.instant
    · rw [seriesLength_of_lt _ _ _ hΔ h] at hf; omega
    · rw [seriesLength_of_not_lt _ _ _ hΔ h]; simp [h, seriesSpec]
  | succ f ih =>
    intro cur acc hc hf
    unfold seriesLoop
    rw [DateTime.lt?_of_comparable _ _ hc]
    by_cases h : cur.instant < stop.instant
    · rw [seriesLength_of_lt _ _ _ hΔ h] at hf ⊢
      simp only [h, decide_true]
      rw [ih (cur.add Δ) _ (DateTime.comparable_add _ _ _ hc) (by omega)]
      congr 1
      apply Array.toList_inj.mp
      simp [seriesSpec]
    · rw [seriesLength_of_not_lt _ _ _ hΔ h]; simp [h, seriesSpec]

/-- a non-positive interval with `start < stop` never leaves the loop: no fuel is enough -/
theorem seriesLoop_nonterminating (pred : DateTime → Bool) (stop : DateTime) (Δ : Int) (hΔ : Δ ≤ 0) :
    ∀ (fuel : Nat) (cur : DateTime) (acc : Array Bool), cur.comparable stop →
      cur.instant < stop.instant → seriesLoop pred stop Δ fuel cur acc = .error .fuel := by
  intro fuel
  induction fuel with
  | zero =>
    intro cur acc hc h
    unfold seriesLoop
    rw [DateTime.lt?_of_comparable _ _ hc]; simp [h]
  | succ f ih =>
    intro cur acc hc h
    unfold seriesLoop
    rw [DateTime.lt?_of_comparable _ _ hc]
    simp only [h, decide_true]
    exact ih _ _ (DateTime.comparable_add _ _ _ hc) (by rw [DateTime.instant_add]; omega)

theorem seriesLoop_typeError (pred : DateTime → Bool) (stop : DateTime) (Δ : Int) (fuel : Nat)
    (cur : DateTime) (acc : Array Bool) (hc : ¬ cur.comparable stop) :
    seriesLoop pred stop Δ fuel cur acc = .error .typeError := by
  unfold seriesLoop
  rw [DateTime.lt?_of_not_comparable _ _ hc]

/-! ### the conversion loop leaves the predicate unchanged -/

theorem lookup_dictSet_self {β : Type} (d : List (String × β)) (k : String) (v : β) :
    (dictSet d k v).lookup k = some v := by
  induction d with
  | nil => simp [dictSet, List.lookup]
  | cons kv rest ih =>
    obtain ⟨k', v'⟩ := kv
    unfold dictSet
    by_cases h : k' = k
    · subst h; simp [List.lookup]
    · have h1 : (k' == k) = false := by simpa using h
      have h2 : (k == k') = false := by simpa using fun e => h e.symm
      simp [h1, List.lookup, h2, ih]

theorem convertSeason_ok (level : String) (s s' : Season) (h : convertSeason level s = .ok s') :
    s'.start = s.start ∧ s'.stop = s.stop ∧ s'.levelWindows level = s.levelWindows level := by
  unfold convertSeason at h
  cases hw : s.windows with
  | none => rw [hw] at h; cases h
  | some w =>
    rw [hw] at h
    cases h
    refine ⟨rfl, rfl, ?_⟩
    simp [Season.levelWindows, lookup_dictSet_self, hw]

theorem convertSeason_isOk (level : String) (s : Season) (h : s.windows ≠ none) :
    ∃ s', convertSeason level s = .ok s' := by
  unfold convertSeason
  cases hw : s.windows with
  | none => exact absurd hw h
  | some w => exact ⟨_, rfl⟩

theorem mapM_convert_isOk (level : String) (seasons : List Season)
    (h : ∀ s ∈ seasons, s.windows ≠ none) : ∃ r, seasons.mapM (convertSeason level) = .ok r := by
  induction seasons with
  | nil => exact ⟨[], rfl⟩
  | cons s rest ih =>
    obtain ⟨s', hs⟩ := convertSeason_isOk level s (h s List.mem_cons_self)
    obtain ⟨r, hr⟩ := ih (fun x hx => h x (List.mem_cons_of_mem _ hx))
    exact ⟨s' :: r, by simp [List.mapM_cons, hs, hr, bind, Except.bind, pure, Except.pure]⟩

theorem mapM_convert_error (level : String) (seasons : List Season)
    (h : ∃ s ∈ seasons, s.windows = none) : seasons.mapM (convertSeason level) = .error .keyError := by
  induction seasons with
  | nil => simp at h
  | cons s rest ih =>
    rw [List.mapM_cons]
    cases hw : s.windows with
    | none => simp [convertSeason, hw, bind, Except.bind]
    | some w =>
      obtain ⟨x, hx, hxn⟩ := h
      rcases List.mem_cons.mp hx with rfl | hx
      · rw [hw] at hxn; cases hxn
      · simp [convertSeason, hw, bind, Except.bind, ih ⟨x, hx, hxn⟩]

theorem datetimeWithinTimeWindow_convert (level : String) (seasons r : List Season)
    (h : seasons.mapM (convertSeason level) = .ok r) (dt : DateTime) :
    datetimeWithinTimeWindow dt r level = datetimeWithinTimeWindow dt seasons level := by
  induction seasons generalizing r with
  | nil => simp [List.mapM_nil, pure, Except.pure] at h; subst h; rfl
  | cons s rest ih =>
    rw [List.mapM_cons] at h
    cases hs : convertSeason level s with
    | error e => simp [hs, bind, Except.bind] at h
    | ok s' =>
      cases hr : rest.mapM (convertSeason level) with
      | error e => simp [hs, hr, bind, Except.bind] at h
      | ok r' =>
        simp [hs, hr, bind, Except.bind, pure, Except.pure] at h
        subst h
        obtain ⟨h1, h2, h3⟩ := convertSeason_ok level s s' hs
        rw [datetimeWithinTimeWindow_cons, datetimeWithinTimeWindow_cons, ih r' hr]
        have hc : s'.contains dt ↔ s.contains dt := by unfold Season.contains; rw [h1, h2]
        simp only [hc, h3]

/-! ## the end-of-window scan of Schedule.dt_to_end_of_time_window -/

/-- the part of the code's predicate that depends on weekday and time of day only -/
def WeeklyInside (c : CoreStandingTime) (dt : DateTime) : Prop :=
  dt.weekday ∈ c.noDriveDays.getD [] ∨
    ∃ w ∈ c.times.getD [], ∃ s e, w.parse = .ok (s, e) ∧ InCoreWindowCode dt.time s e

/-- the configurations on which the scan started at `cur` never ends: nothing configured, or every
minute of one week (on the minute grid through `cur`) is a no-drive day or inside a window -/
def NeverLeaves (cur : DateTime) (cst : Option CoreStandingTime) : Prop :=
  cst = none ∨ ∃ c, cst = some c ∧
    ∀ r : Nat, r < minutesPerWeek → WeeklyInside c (cur.add ((r : Int) * usPerMinute))

theorem dtWithinCore_ok (dt : DateTime) (c : CoreStandingTime) (hwf : c.WF) :
    ∃ b, dtWithinCoreStandingTime dt (some c) = .ok b ∧
      (b = true ↔ WeeklyInside c dt ∨ dt.date ∈ c.holidays.getD []) := by
  rw [dtWithinCore_some]
  unfold WeeklyInside
  by_cases a : dt.weekday ∈ c.noDriveDays.getD []
  · exact ⟨true, by simp [a], by simp [a]⟩
  · by_cases b : dt.date ∈ c.holidays.getD []
    · exact ⟨true, by simp [a, b], by simp [b]⟩
    · obtain ⟨r, hr, hiff⟩ := coreTimesLoop_ok dt.time (c.times.getD []) hwf
      exact ⟨r, by simp [a, b, hr], by rw [hiff]; simp [a, b]⟩

theorem minute_shift (cur : DateTime) (k q : Nat) :
    cur.add (((k + minutesPerWeek * q : Nat) : Int) * usPerMinute) =
      (cur.add ((k : Int) * usPerMinute)).add (7 * (q : Int) * usPerDay) := by
  rw [DateTime.add_add]
  have : ((k + minutesPerWeek * q : Nat) : Int) * usPerMinute =
      (k : Int) * usPerMinute + 7 * (q : Int) * usPerDay := by
    simp only [minutesPerWeek, usPerMinute, usPerDay]
    push_cast
    omega
  rw [this]

theorem weeklyInside_periodic (c : CoreStandingTime) (cur : DateTime) (k q : Nat) :
    WeeklyInside c (cur.add (((k + minutesPerWeek * q : Nat) : Int) * usPerMinute)) ↔
      WeeklyInside c (cur.add ((k : Int) * usPerMinute)) := by
  rw [minute_shift]
  unfold WeeklyInside
  rw [DateTime.weekday_add_weeks]
  have : 7 * (q : Int) * usPerDay = (7 * (q : Int)) * usPerDay := rfl
  rw [this, DateTime.time_add_days]

theorem date_minute_shift (cur : DateTime) (k q : Nat) :
    (cur.add (((k + minutesPerWeek * q : Nat) : Int) * usPerMinute)).date =
      (cur.add ((k : Int) * usPerMinute)).date + 7 * q := by
  rw [minute_shift]
  have : 7 * (q : Int) * usPerDay = (7 * (q : Int)) * usPerDay := rfl
  rw [this, DateTime.date_add_days]

theorem date_add_nonneg (cur : DateTime) (x : Int) (hx : 0 ≤ x) : cur.date ≤ (cur.add x).date := by
  unfold DateTime.date DateTime.add
  exact Int.ediv_le_ediv usPerDay_pos (by simp only; omega)

theorem weeklyInside_all (c : CoreStandingTime) (cur : DateTime)
    (h : ∀ r : Nat, r < minutesPerWeek → WeeklyInside c (cur.add ((r : Int) * usPerMinute))) (k : Nat) :
    WeeklyInside c (cur.add ((k : Int) * usPerMinute)) := by
  have hk : k = k % minutesPerWeek + minutesPerWeek * (k / minutesPerWeek) := (Nat.mod_add_div _ _).symm
  rw [hk, weeklyInside_periodic]
  exact h _ (Nat.mod_lt _ (by decide))

theorem foldl_max_bound (l : List Int) (init : Int) :
    init ≤ l.foldl (fun m h => if m < h then h else m) init ∧
      ∀ h ∈ l, h ≤ l.foldl (fun m h => if m < h then h else m) init := by
  induction l generalizing init with
  | nil => simp
  | cons x xs ih =>
    simp only [List.foldl_cons, List.mem_cons, forall_eq_or_imp]
    obtain ⟨h1, h2⟩ := ih (if init < x then x else init)
    refine ⟨?_, ?_, h2⟩
    · by_cases hx : init < x <;> simp only [hx, if_true, if_false] at h1 ⊢ <;> omega
    · by_cases hx : init < x <;> simp only [hx, if_true, if_false] at h1 ⊢ <;> omega

/-- least counterexample below a bound -/
theorem exists_least (P : Nat → Prop) (B : Nat) (h : ∃ k, k ≤ B ∧ ¬ P k) :
    ∃ k, k ≤ B ∧ ¬ P k ∧ ∀ i, i < k → P i := by
  induction B with
  | zero =>
    obtain ⟨k, hk, hp⟩ := h
    have : k = 0 := by omega
    subst this
    exact ⟨0, Nat.le_refl _, hp, fun i hi => absurd hi (Nat.not_lt_zero _)⟩
  | succ B ih =>
    by_cases h' : ∃ k, k ≤ B ∧ ¬ P k
    · obtain ⟨k, hk, hp, hl⟩ := ih h'
      exact ⟨k, by omega, hp, hl⟩
    · obtain ⟨k, hk, hp⟩ := h
      have hkB : k = B + 1 := by
        by_contra hne
        exact h' ⟨k, by omega, hp⟩
      subst hkB
      refine ⟨B + 1, Nat.le_refl _, hp, fun i hi => ?_⟩
      by_contra hpi
      exact h' ⟨i, by omega, hpi⟩

/-- if some minute of the week is outside, the scan finds an outside minute within the driver's fuel -/
theorem exists_outside_within_fuel (cur : DateTime) (c : CoreStandingTime) (hwf : c.WF)
    (r : Nat) (hr : r < minutesPerWeek) (hout : ¬ WeeklyInside c (cur.add ((r : Int) * usPerMinute))) :
    ∃ k, k ≤ dtToEndFuel cur (some c) ∧
      dtWithinCoreStandingTime (cur.add ((k : Int) * usPerMinute)) (some c) = .ok false := by
  obtain ⟨hb1, hb2⟩ := foldl_max_bound (c.holidays.getD []) cur.date
  set last := (c.holidays.getD []).foldl (fun m h => if m < h then h else m) cur.date with hlast
  set d : Nat := (last - cur.date).toNat + 1 with hd
  refine ⟨r + minutesPerWeek * d, ?_, ?_⟩
  · show r + minutesPerWeek * d ≤ ((last - cur.date).toNat + 2) * minutesPerWeek
    rw [hd]; unfold minutesPerWeek at *; omega
  · obtain ⟨b, hb, hiff⟩ := dtWithinCore_ok (cur.add (((r + minutesPerWeek * d : Nat) : Int) * usPerMinute)) c hwf
    have hnot : ¬ (b = true) := by
      rw [hiff, weeklyInside_periodic]
      rintro (h | h)
      · exact hout h
      · rw [date_minute_shift] at h
        have h1 := hb2 _ h
        have h2 := date_add_nonneg cur ((r : Int) * usPerMinute)
          (Int.mul_nonneg (Int.natCast_nonneg _) usPerMinute_pos.le)
        have h3 : (d : Int) = (last - cur.date).toNat + 1 := by rw [hd]; push_cast; rfl
        have h4 : last - cur.date ≤ ((last - cur.date).toNat : Int) := Int.self_le_toNat _
        omega
    rw [hb]
    cases b with
    | true => exact absurd rfl hnot
    | false => rfl

theorem dtToEndLoop_ok (cur : DateTime) (cst : Option CoreStandingTime) (k : Nat)
    (hk : dtWithinCoreStandingTime (cur.add ((k : Int) * usPerMinute)) cst = .ok false) :
    ∀ (fuel j : Nat), j ≤ k → k - j ≤ fuel →
      (∀ i, j ≤ i → i < k → dtWithinCoreStandingTime (cur.add ((i : Int) * usPerMinute)) cst = .ok true) →
      dtToEndLoop cur cst fuel ((j : Int) * usPerMinute) = .ok ((k : Int) * usPerMinute) := by
  intro fuel
  induction fuel with
  | zero =>
    intro j hj hf _
    have : j = k := by omega
    subst this
    unfold dtToEndLoop
    simp [hk, bind, Except.bind, pure, Except.pure]
  | succ f ih =>
    intro j hj hf hin
    unfold dtToEndLoop
    by_cases hjk : j = k
    · subst hjk
      simp [hk, bind, Except.bind, pure, Except.pure]
    · have hlt : j < k := by omega
      simp only [hin j (Nat.le_refl _) hlt, bind, Except.bind, if_true]
      have : (j : Int) * usPerMinute + usPerMinute = ((j + 1 : Nat) : Int) * usPerMinute := by
        push_cast; ring
      rw [this]
      exact ih (j + 1) (by omega) (by omega) (fun i hi1 hi2 => hin i (by omega) hi2)

theorem dtToEndLoop_never (cur : DateTime) (cst : Option CoreStandingTime)
    (hin : ∀ i : Nat, dtWithinCoreStandingTime (cur.add ((i : Int) * usPerMinute)) cst = .ok true) :
    ∀ (fuel j : Nat), dtToEndLoop cur cst fuel ((j : Int) * usPerMinute) = .error .fuel := by
  intro fuel
  induction fuel with
  | zero =>
    intro j
    unfold dtToEndLoop
    simp [hin j, bind, Except.bind]
  | succ f ih =>
    intro j
    unfold dtToEndLoop
    simp only [hin j, bind, Except.bind, if_true]
    have : (j : Int) * usPerMinute + usPerMinute = ((j + 1 : Nat) : Int) * usPerMinute := by
      push_cast; ring
    rw [this]
    exact ih (j + 1)

end SpiceEv
