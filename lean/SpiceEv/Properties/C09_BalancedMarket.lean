/-
C09 — service guarantee, for the strategy `balanced_market`
(model: Model/StratBalancedMarket.lean, tied to the real code by harness/s_balanced_market.py).

The guarantee itself does not hold in general: known findings F2 (curves that vary between SoC and desired
SoC; mechanism: planning in price order, see the time-order theorem).  Defect BM1 — a cheap present
timestep that is planned with full power was not used when it was not the *first* entry of its price
group (`if start_idx == 0 and power[0]`) — is repaired (fixes/BM1.diff) and stated below as a theorem
and a regression example.  Also proved: the repaired counting of the remaining timesteps (M1).
-/
import SpiceEv.Proofs.StratBalancedMarket
import SpiceEv.Proofs.StratBalancedMarketToy
set_option linter.unusedSectionVars false
namespace SpiceEv
open SpiceEv.BalancedMarket

/-- **Every timestep that begins before the estimated departure is planned (partial).**
`ts_leave = -((etd − now) // −interval)` is the ceiling of the remaining standing time in timesteps,
so for every `k` with `now + k·interval < etd` the `k`-th forecast timestep is in the vehicle's
planning window `timesteps[:ts_leave]` (in particular an off-grid departure does not lose the last,
partial step).  Not proved: that the desired SoC is reached (false in general, see below and F2). -/
theorem C09_balanced_market_departure_step_planned_partial {β : Type} (ts : List β)
    (now etd interval : Int) (hi : 0 < interval) (k : Nat) (hk : now + (k : Int) * interval < etd) :
    (sliceTo ts (ceilDiv (etd - now) interval))[k]? = ts[k]? :=
  sliceTo_window ts now etd interval hi k (by linarith)

/-- **When prices never fall during the standing time, the plan is simulated in time order (partial).**
The known finding F2 for this strategy (`C09:desired_soc_missed:balanced_market:varying_curve*`) has one
mechanism: the planning loop charges the simulated battery in *price* order, so a cheap timestep that
lies later in time is simulated at the present, lower SoC, where a falling charging curve still allows
more power than it will at that time; the dearer timesteps before it are then planned too low.  If the
prices of the timesteps in which the vehicle is present are non-decreasing in time, the planning order
`sorted_ts` is exactly the time order `[(c₀,0), (c₁,1), …]` and that error cannot occur.  Not proved: that
the desired SoC is then reached (needs the battery's exact delivery, C02). -/
theorem C09_balanced_market_time_order_when_prices_never_fall_partial {α : Type} [Field α]
    [LinearOrder α] [IsStrictOrderedRing α] (vts : List (TS α)) (costs : List α)
    (hc : vts.mapM (fun t => cost1 t.cost) = .ok costs) (hmono : costs.Pairwise (· ≤ ·)) :
    sortedTs vts = .ok costs.zipIdx :=
  sortedTs_time_order vts costs hc hmono

/-- Non-vacuity: prices 0.1, 0.1, 0.3 → order (0.1,0), (0.1,1), (0.3,2). -/
example : sortedTs [(⟨1, 1, some (.fixed (1/10))⟩ : TS ℚ), ⟨1, 1, some (.fixed (1/10))⟩, ⟨1, 1, some (.fixed (3/10))⟩] =
    .ok [(1/10, 0), (1/10, 1), (3/10, 2)] := by decide +kernel

/-- Non-vacuity: 15-minute steps, departure 31 minutes from now: steps 0, 1, 2 are planned. -/
example : sliceTo [10, 11, 12, 13, 14] (ceilDiv (31 * 60000000 - 0) (15 * 60000000)) = [10, 11, 12] := by
  decide +kernel

/-- **A planned present step is used (repair BM1).** If the price group being planned contains the
current timestep (index 0) — as its first member or not: prices ≤ PRICE_THRESHOLD are merged into one
group headed by the cheapest — and the power planned for it is not zero, that pass of the planning loop
books the real charge `load(target_power = power[0])` on connector, station and commands.  (The pinned
code tested `start_idx == 0` and left a cheap, planned present step unused: fixes/BM1.diff.) -/
theorem C09_balanced_market_planned_present_is_charged {α B : Type} [Field α] [LinearOrder α]
    [IsStrictOrderedRing α] (ops : Ops α B) (env : Env α) (v : VehicleS α B)
    (ts : List (TS α)) (sorted : List (α × Nat)) (fuel : Nat) (st : VSt α B) (c0 : α) (s0 : Nat)
    (hs : sorted[st.sortedIdx]? = some (c0, s0))
    (hin : (samePrice env sorted st.sortedIdx c0 s0).1.contains 0 = true)
    (hnot : ¬ desiredAt env v c0 ≤ ops.soc st.sim)
    (pw1 : List α) (sm1 : B)
    (h1 : naivePass ops st.cs v.minChargingPower ts (samePrice env sorted st.sortedIdx c0 s0).1
      st.power st.sim = .ok (pw1, sm1))
    (p0 : α) (rest : List α) (sm2 : B)
    (h2 : (if desiredAt env v c0 ≤ ops.soc sm1 then
        bisect ops env.eps st.cs v.minChargingPower ts (samePrice env sorted st.sortedIdx c0 s0).1
          (ops.soc st.sim) (desiredAt env v c0) bisectFuel 0 (st.cs.maxPower - pymin st.cs.currentPower 0) false pw1 sm1
      else pure (pw1, sm1)) = .ok (p0 :: rest, sm2))
    (hp0 : p0 ≠ 0) (bat' : B) (avg : α)
    (hl : ops.load st.bat none none (some p0) = .ok (bat', avg)) :
    chargeLoop ops env v ts sorted (fuel + 1) st =
      .ok ({ st with sortedIdx := (samePrice env sorted st.sortedIdx c0 s0).2, power := p0 :: rest,
                     sim := sm2, bat := bat' }.book avg) :=
  chargeLoop_present_in_group ops env v ts sorted fuel st c0 s0 hs hin hnot pw1 sm1 h1 p0 rest sm2 h2
    hp0 bat' avg hl

/-- **Regression for BM1 (was: witness of the defect).** Price −0.05 now, −0.10 in the next step, 0.50
afterwards, threshold 0; the vehicle (SoC 0.1, desired 0.8, 5 kW, 10 kWh) leaves after two steps and
needs both of them.  The price group is `[1, 0]`, headed by the next, cheaper step.  The pinned code
charged nothing now (commands `[]`, SoC 0.1: the desired SoC could no longer be reached); the repaired
model charges `9437087/2097152 ≈ 4.5` kW now (SoC 0.55), and the same again in the next step. -/
example :
    (BalancedMarket.step toyOps
      ⟨1/100000, 0, 0, hourUs, 4 * hourUs, 0,
       [.signal hourUs "GC" none (some (some (.fixed (-1/10)))),
        .signal (2 * hourUs) "GC" none (some (some (.fixed (1/2))))], []⟩
      ⟨[⟨"GC", 20, some (.fixed (-1/20)), [("load", 4)]⟩], [toyCs], [toyVeh false (1/10)], []⟩).toOption.map
      (fun r => (r.2, r.1.vehicles.map (·.bat))) =
      some ([("CS1", 9437087/2097152)], [11534239/20971520]) := by decide +kernel

end SpiceEv
