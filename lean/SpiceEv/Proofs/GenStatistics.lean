/-
Invariant of the statistics generator (Model/GenStatistics.lean) and its preservation by one
vehicle step, one day, all days.  Used by Properties/C19.lean.

For every vehicle `w` the events carrying its id form a list of (departure, arrival) pairs
`T ++ [(D, A)]`; the record `w` points (through `last_arrival_idx`) at the last arrival `A`, which
is also the last event of `w` in the global list; consecutive pairs are linked (announced
departure, strict order, desired SoC of the earlier arrival computed from the later trip); the last
arrival is either still unpatched (`etd = none`, `desired = min_soc`) or patched by a trip drawn
for a day past the end.
-/
import Mathlib.Algebra.Order.Field.Basic
import Mathlib.Tactic.Linarith
import Mathlib.Tactic.Ring
import SpiceEv.Proofs.Basic
import SpiceEv.Proofs.GenList
import SpiceEv.Model.GenStatistics

set_option linter.unusedSectionVars false
set_option linter.unusedSimpArgs false
set_option linter.unusedVariables false
namespace SpiceEv.Gen
variable {α : Type} [Field α] [LinearOrder α] [IsStrictOrderedRing α]

abbrev Pair (α : Type) := VEvent α × VEvent α

/-- the event list made of (departure, arrival) pairs -/
def flatPairs (T : List (Pair α)) : List (VEvent α) := T.flatMap (fun t => [t.1, t.2])

@[simp] theorem flatPairs_append (S T : List (Pair α)) :
    flatPairs (S ++ T) = flatPairs S ++ flatPairs T := by simp [flatPairs]

@[simp] theorem flatPairs_single (t : Pair α) : flatPairs [t] = [t.1, t.2] := by simp [flatPairs]

/-- one trip of vehicle `v`: a departure announcing the arrival that follows it -/
structure TripOK (Dur : Int → Prop) (v : String) (t : Pair α) : Prop where
  dk : t.1.kind = .departure
  ak : t.2.kind = .arrival
  dv : t.1.vehicle = v
  av : t.2.vehicle = v
  eta : t.1.eta = some t.2.time
  dur : Dur (t.2.time - t.1.time)
  cs : t.2.cs = some ("CS_" ++ v)

/-- desired SoC a standing period needs for the trip `t` that follows it -/
def needOf (minSoc buffer : α) (t : Pair α) : α := max minSoc ((-t.2.socDelta) * (1 + buffer))

/-- consecutive trips `t`, `t'` of one vehicle -/
def Link (minSoc buffer : α) (t t' : Pair α) : Prop :=
  t.2.time < t'.1.time ∧ t.2.etd = some t'.1.time ∧ t.2.desired = needOf minSoc buffer t'

/-- the last arrival of a vehicle: not patched (unknown departure, minimum SoC), or patched by a
trip that was drawn for a day after the end of the scenario -/
def LastOK (minSoc : α) (a : VEvent α) : Prop :=
  (a.etd = none ∧ a.desired = minSoc) ∨ (∃ d, a.etd = some d ∧ a.time < d ∧ minSoc ≤ a.desired)

/-- index `i` holds `a`, and no later event belongs to vehicle `v` -/
def LastAt (v : String) (i : Nat) (a : VEvent α) (evs : List (VEvent α)) : Prop :=
  evs[i]? = some a ∧ ∀ j e, i < j → evs[j]? = some e → e.vehicle ≠ v

/-- invariant of one vehicle record against the global event list -/
def VInv (minSoc buffer : α) (Dur : Int → Prop) (w : VInfo α) (evs : List (VEvent α)) : Prop :=
  (w.lastArrivalIdx = none → vehicleEvents w.id evs = []) ∧
  (∀ i, w.lastArrivalIdx = some i → ∃ (T : List (Pair α)) (D A : VEvent α),
    vehicleEvents w.id evs = flatPairs (T ++ [(D, A)]) ∧ LastAt w.id i A evs ∧
    A.time = w.arrival ∧ (∀ t ∈ T ++ [(D, A)], TripOK Dur w.id t) ∧
    ChainR (Link minSoc buffer) (T ++ [(D, A)]) ∧ LastOK minSoc A ∧
    (∀ t1, (T ++ [(D, A)]).head? = some t1 →
      w.etd0 = some t1.1.time ∧
      ∃ x, w.desired0 = some x ∧ minSoc ≤ x ∧ (x = needOf minSoc buffer t1 ∨ needOf minSoc buffer t1 = 0)))

/-! ### small facts -/

theorem vehicleEvents_append (v : String) (a b : List (VEvent α)) :
    vehicleEvents v (a ++ b) = vehicleEvents v a ++ vehicleEvents v b := by
  simp [vehicleEvents]

theorem vehicleEvents_two_self (v : String) (d a : VEvent α) (hd : d.vehicle = v) (ha : a.vehicle = v) :
    vehicleEvents v [d, a] = [d, a] := by
  simp [vehicleEvents, List.filter_cons, hd, ha]

theorem vehicleEvents_two_other (v : String) (d a : VEvent α) (hd : d.vehicle ≠ v) (ha : a.vehicle ≠ v) :
    vehicleEvents v [d, a] = [] := by
  simp [vehicleEvents, List.filter_cons, hd, ha]

@[simp] theorem patchArrival_vehicle (dep : Int) (des : α) (e : VEvent α) :
    (patchArrival dep des e).vehicle = e.vehicle := rfl

theorem orDesired_some (cur : Option α) (d : α) : ∃ x, orDesired cur d = some x := by
  unfold orDesired
  cases cur with
  | none => exact ⟨d, rfl⟩
  | some c => by_cases h : isZero c = true <;> simp [h]

/-- `LastAt` of another vehicle survives a vehicle-preserving patch at an index that holds an
event of a different vehicle -/
theorem LastAt.patch_other {w v : String} {i k : Nat} {a b : VEvent α} {evs : List (VEvent α)}
    (f : VEvent α → VEvent α) (hf : ∀ e, (f e).vehicle = e.vehicle)
    (h : LastAt w i a evs) (hk : evs[k]? = some b) (haw : a.vehicle = w) (hbv : b.vehicle = v) (hwv : w ≠ v) :
    LastAt w i a (patchAt f k evs) := by
  obtain ⟨h1, h2⟩ := h
  have hik : i ≠ k := by
    rintro rfl
    rw [h1] at hk
    have : a = b := Option.some.inj hk
    subst this
    exact hwv (haw.symm.trans hbv)
  refine ⟨?_, ?_⟩
  · rw [getElem?_patchAt, if_neg hik]; exact h1
  · intro j e hj he
    rw [getElem?_patchAt] at he
    by_cases hjk : j = k
    · rw [if_pos hjk] at he
      cases h0 : evs[j]? with
      | none => rw [h0] at he; simp at he
      | some e0 =>
        rw [h0] at he
        have : e = f e0 := by simpa using he.symm
        rw [this, hf]
        exact h2 j e0 hj h0
    · rw [if_neg hjk] at he
      exact h2 j e hj he

/-- … and the appending of events of another vehicle -/
theorem LastAt.append_other {w : String} {i : Nat} {a : VEvent α} {evs new : List (VEvent α)}
    (h : LastAt w i a evs) (hn : ∀ e ∈ new, e.vehicle ≠ w) : LastAt w i a (evs ++ new) := by
  obtain ⟨h1, h2⟩ := h
  have hi : i < evs.length := by
    rcases List.getElem?_eq_some_iff.mp h1 with ⟨hi, _⟩; exact hi
  refine ⟨by rw [List.getElem?_append_left hi]; exact h1, ?_⟩
  intro j e hj he
  by_cases hjl : j < evs.length
  · rw [List.getElem?_append_left hjl] at he
    exact h2 j e hj he
  · rw [List.getElem?_append_right (by omega)] at he
    exact hn e (List.mem_of_getElem? he)

theorem head?_snoc_replace (T : List (Pair α)) (x x' : Pair α) (t1' : Pair α)
    (h : (T ++ [x']).head? = some t1') :
    ∃ t1, (T ++ [x]).head? = some t1 ∧ ((T = [] ∧ t1 = x ∧ t1' = x') ∨ (T ≠ [] ∧ t1 = t1')) := by
  cases T with
  | nil => simp at h; exact ⟨x, by simp, Or.inl ⟨rfl, rfl, h.symm⟩⟩
  | cons a r => simp at h; exact ⟨a, by simp, Or.inr ⟨by simp, h⟩⟩


/-! ### one trip applied to the vehicle it belongs to -/

/-- what the invariant needs to know about a trip computed by `mkTrip` -/
structure TripFacts (minSoc buffer : α) (Dur : Int → Prop) (t : Trip α) : Prop where
  desired : t.desired = max minSoc (t.socDelta * (1 + buffer))
  dur : Dur (t.arrival - t.departure)

theorem needOf_new (minSoc buffer : α) (vid : String) (t : Trip α) (x : VEvent α)
    (ht : t.desired = max minSoc (t.socDelta * (1 + buffer))) :
    needOf minSoc buffer (x, arrEvent minSoc vid t) = t.desired := by
  simp [needOf, arrEvent, ht]

theorem tripOK_new (minSoc : α) (Dur : Int → Prop) (vid : String) (t : Trip α)
    (hd : Dur (t.arrival - t.departure)) :
    TripOK Dur vid (depEvent vid t, arrEvent minSoc vid t) :=
  ⟨rfl, rfl, rfl, rfl, rfl, hd, rfl⟩

/-- the state after the back-patch of the last arrival (before the new trip is appended) -/
theorem patched_state (minSoc buffer : α) (Dur : Int → Prop) (vid : String) (i : Nat)
    (evs : List (VEvent α)) (T : List (Pair α)) (D A : VEvent α) (t : Trip α)
    (hf : vehicleEvents vid evs = flatPairs (T ++ [(D, A)]))
    (hl : LastAt vid i A evs)
    (hok : ∀ p ∈ T ++ [(D, A)], TripOK Dur vid p)
    (hch : ChainR (Link minSoc buffer) (T ++ [(D, A)]))
    (hlt : A.time < t.departure)
    (ht : t.desired = max minSoc (t.socDelta * (1 + buffer))) :
    vehicleEvents vid (patchAt (patchArrival t.departure t.desired) i evs)
      = flatPairs (T ++ [(D, patchArrival t.departure t.desired A)]) ∧
    LastAt vid i (patchArrival t.departure t.desired A) (patchAt (patchArrival t.departure t.desired) i evs) ∧
    (∀ p ∈ T ++ [(D, patchArrival t.departure t.desired A)], TripOK Dur vid p) ∧
    ChainR (Link minSoc buffer) (T ++ [(D, patchArrival t.departure t.desired A)]) ∧
    LastOK minSoc (patchArrival t.departure t.desired A) := by
  have hA : TripOK Dur vid (D, A) := hok (D, A) (by simp)
  have hav : A.vehicle = vid := hA.av
  have hpA : (fun e : VEvent α => e.vehicle == vid) A = true := by simp [hav]
  have hlater : ∀ j e, i < j → evs[j]? = some e → (fun e : VEvent α => e.vehicle == vid) e = false := by
    intro j e hj he
    have := hl.2 j e hj he
    simp [this]
  have h1 := filter_last_at (fun e : VEvent α => e.vehicle == vid) i evs A hl.1 hpA hlater
  have h2 : (evs.take i).filter (fun e : VEvent α => e.vehicle == vid) = flatPairs T ++ [D] := by
    have : (evs.take i).filter (fun e : VEvent α => e.vehicle == vid) ++ [A] = (flatPairs T ++ [D]) ++ [A] := by
      rw [← h1]
      have := hf
      unfold vehicleEvents at this
      rw [this]; simp
    exact List.append_cancel_right this
  have h3 := filter_patchAt_last (patchArrival t.departure t.desired)
    (fun e : VEvent α => e.vehicle == vid) i evs A hl.1 (by simp [hav]) hlater
  refine ⟨?_, ?_, ?_, ?_, ?_⟩
  · show List.filter _ _ = _
    rw [h3, h2]; simp
  · refine ⟨?_, ?_⟩
    · show (patchAt _ i evs)[i]? = _
      rw [getElem?_patchAt, if_pos rfl, hl.1]; rfl
    · intro j e hj he
      have hij : j ≠ i := by omega
      change (patchAt _ i evs)[j]? = _ at he
      rw [getElem?_patchAt, if_neg hij] at he
      exact hl.2 j e hj he
  · intro p hp
    rcases List.mem_append.mp hp with hp | hp
    · exact hok p (List.mem_append.mpr (Or.inl hp))
    · have : p = (D, patchArrival t.departure t.desired A) := by simpa using hp
      subst this
      exact ⟨hA.dk, hA.ak, hA.dv, hA.av, hA.eta, hA.dur, hA.cs⟩
  · refine chainR_replace_last _ T (D, A) (D, patchArrival t.departure t.desired A) hch ?_
    intro y hy
    exact hy
  · right
    refine ⟨t.departure, rfl, hlt, ?_⟩
    show minSoc ≤ t.desired
    rw [ht]; exact le_max_left _ _

/-- the initial-state facts survive `v_info["desired_soc"] = v_info["desired_soc"] or desired_soc` -/
theorem head_facts_orDesired (minSoc buffer : α) (etd0 : Option Int) (d0 : Option α) (t1 : Pair α) (des : α)
    (hdes : minSoc ≤ des)
    (h : etd0 = some t1.1.time ∧
      ∃ x, d0 = some x ∧ minSoc ≤ x ∧ (x = needOf minSoc buffer t1 ∨ needOf minSoc buffer t1 = 0)) :
    etd0 = some t1.1.time ∧
      ∃ x, orDesired d0 des = some x ∧ minSoc ≤ x ∧ (x = needOf minSoc buffer t1 ∨ needOf minSoc buffer t1 = 0) := by
  obtain ⟨h1, x, hx, hmx, hor⟩ := h
  refine ⟨h1, ?_⟩
  subst hx
  unfold orDesired
  by_cases hz : isZero x = true
  · have hx0 : x = 0 := (isZero_iff x).mp hz
    refine ⟨des, by simp [hz], hdes, Or.inr ?_⟩
    rcases hor with h | h
    · rw [← h]; exact hx0
    · exact h
  · exact ⟨x, by simp [hz], hmx, hor⟩

theorem applyTrip_id (P : StatParams α) (now : Int) (v : VInfo α) (evs : List (VEvent α)) (t : Trip α) :
    (applyTrip P now v evs t).1.id = v.id ∧ (applyTrip P now v evs t).1.ty = v.ty := by
  unfold applyTrip addTrip
  cases v.lastArrivalIdx with
  | none => dsimp only; split <;> exact ⟨rfl, rfl⟩
  | some i =>
    dsimp only
    split
    · exact ⟨rfl, rfl⟩
    · split <;> exact ⟨rfl, rfl⟩

theorem applyTrip_self (P : StatParams α) (Dur : Int → Prop) (now : Int) (v : VInfo α)
    (evs : List (VEvent α)) (t : Trip α) (ht : TripFacts P.minSoc P.buffer Dur t)
    (h : VInv P.minSoc P.buffer Dur v evs) :
    VInv P.minSoc P.buffer Dur (applyTrip P now v evs t).1 (applyTrip P now v evs t).2 := by
  have hdes : P.minSoc ≤ t.desired := by rw [ht.desired]; exact le_max_left _ _
  unfold applyTrip
  cases hla : v.lastArrivalIdx with
  | none =>
    dsimp only
    unfold addTrip
    dsimp only
    split
    · -- past the end: nothing appended
      refine ⟨fun _ => h.1 hla, fun i hi => ?_⟩
      simp [hla] at hi
    · refine ⟨fun hn => by simp at hn, fun i hi => ?_⟩
      have hi' : evs.length + 1 = i := by simpa using hi
      subst hi'
      refine ⟨[], depEvent v.id t, arrEvent P.minSoc v.id t, ?_, ?_, rfl, ?_, ?_, Or.inl ⟨rfl, rfl⟩, ?_⟩
      · show vehicleEvents v.id (evs ++ _) = _
        rw [vehicleEvents_append, h.1 hla, vehicleEvents_two_self v.id (depEvent v.id t) (arrEvent P.minSoc v.id t) rfl rfl]; simp
      · refine ⟨by simp, ?_⟩
        intro j e hj he
        rw [List.getElem?_eq_none (by simp; omega)] at he
        simp at he
      · intro p hp
        have : p = (depEvent v.id t, arrEvent P.minSoc v.id t) := by simpa using hp
        subst this
        exact tripOK_new P.minSoc Dur v.id t ht.dur
      · simp [ChainR]
      · intro t1 ht1
        have : t1 = (depEvent v.id t, arrEvent P.minSoc v.id t) := by simpa using ht1.symm
        subst this
        refine ⟨rfl, t.desired, rfl, hdes, Or.inl ?_⟩
        exact (needOf_new P.minSoc P.buffer v.id t _ ht.desired).symm
  | some i =>
    obtain ⟨T, D, A, hf, hl, hat, hok, hch, hlast, hhead⟩ := h.2 i hla
    dsimp only
    split
    · -- still on the last trip: discard
      refine ⟨fun hn => by simp [hla] at hn, fun k hk => ?_⟩
      have hk' : i = k := by simpa [hla] using hk
      subst hk'
      refine ⟨T, D, A, hf, hl, hat, hok, hch, hlast, ?_⟩
      intro t1 ht1
      exact head_facts_orDesired P.minSoc P.buffer _ _ t1 t.desired hdes (hhead t1 ht1)
    · rename_i hnot
      have hlt : A.time < t.departure := by rw [hat]; exact lt_of_not_ge hnot
      obtain ⟨p1, p2, p3, p4, p5⟩ := patched_state P.minSoc P.buffer Dur v.id i evs T D A t hf hl hok hch hlt ht.desired
      have hheadA' : ∀ t1, (T ++ [(D, patchArrival t.departure t.desired A)]).head? = some t1 →
          v.etd0 = some t1.1.time ∧ ∃ x, orDesired v.desired0 t.desired = some x ∧ P.minSoc ≤ x ∧
            (x = needOf P.minSoc P.buffer t1 ∨ needOf P.minSoc P.buffer t1 = 0) := by
        intro t1' ht1'
        obtain ⟨t1, ht1, hrel⟩ := head?_snoc_replace T (D, A) _ t1' ht1'
        have hh := head_facts_orDesired P.minSoc P.buffer _ _ t1 t.desired hdes (hhead t1 ht1)
        rcases hrel with ⟨_, rfl, rfl⟩ | ⟨_, rfl⟩
        · exact hh
        · exact hh
      unfold addTrip
      dsimp only
      split
      · -- past the end: patched, nothing appended
        refine ⟨fun hn => by simp [hla] at hn, fun k hk => ?_⟩
        have hk' : i = k := by simpa [hla] using hk
        subst hk'
        exact ⟨T, D, _, p1, p2, hat, p3, p4, p5, hheadA'⟩
      · refine ⟨fun hn => by simp at hn, fun k hk => ?_⟩
        have hk' : (patchAt (patchArrival t.departure t.desired) i evs).length + 1 = k := by simpa using hk
        subst hk'
        refine ⟨T ++ [(D, patchArrival t.departure t.desired A)], depEvent v.id t, arrEvent P.minSoc v.id t,
          ?_, ?_, rfl, ?_, ?_, Or.inl ⟨rfl, rfl⟩, ?_⟩
        · show vehicleEvents v.id (_ ++ _) = _
          rw [vehicleEvents_append, p1, vehicleEvents_two_self v.id (depEvent v.id t) (arrEvent P.minSoc v.id t) rfl rfl]
          simp [flatPairs]
        · refine ⟨by simp, ?_⟩
          intro j e hj he
          rw [List.getElem?_eq_none (by simp at hj ⊢; omega)] at he
          simp at he
        · intro p hp
          rcases List.mem_append.mp hp with hp | hp
          · exact p3 p hp
          · have : p = (depEvent v.id t, arrEvent P.minSoc v.id t) := by simpa using hp
            subst this
            exact tripOK_new P.minSoc Dur v.id t ht.dur
        · rw [chainR_snoc]
          refine ⟨p4, ?_⟩
          intro y hy
          have : y = (D, patchArrival t.departure t.desired A) := by simpa using hy.symm
          subst this
          refine ⟨hlt, rfl, ?_⟩
          exact (needOf_new P.minSoc P.buffer v.id t _ ht.desired).symm
        · intro t1 ht1
          have : (T ++ [(D, patchArrival t.departure t.desired A)]).head? = some t1 := by
            cases T <;> simpa using ht1
          exact hheadA' t1 this

/-! ### frame: the step of one vehicle does not disturb the invariant of another -/

theorem VInv.patch_other {minSoc buffer : α} {Dur : Int → Prop} {w : VInfo α} {evs : List (VEvent α)}
    (h : VInv minSoc buffer Dur w evs) (k : Nat) (b : VEvent α) (dep : Int) (des : α)
    (hk : evs[k]? = some b) (hb : b.vehicle ≠ w.id) :
    VInv minSoc buffer Dur w (patchAt (patchArrival dep des) k evs) := by
  have hfil : vehicleEvents w.id (patchAt (patchArrival dep des) k evs) = vehicleEvents w.id evs := by
    unfold vehicleEvents
    apply filter_patchAt_of_false
    intro e he
    rw [hk] at he
    have : b = e := Option.some.inj he
    subst this
    simp [hb]
  refine ⟨fun hn => by rw [hfil]; exact h.1 hn, fun i hi => ?_⟩
  obtain ⟨T, D, A, hf, hl, hat, hok, hch, hlast, hhead⟩ := h.2 i hi
  refine ⟨T, D, A, by rw [hfil]; exact hf, ?_, hat, hok, hch, hlast, hhead⟩
  have hA : TripOK Dur w.id (D, A) := hok (D, A) (by simp)
  exact LastAt.patch_other (v := b.vehicle) (patchArrival dep des) (fun _ => rfl) hl hk hA.av rfl
    (fun h => hb h.symm)

theorem VInv.append_other {minSoc buffer : α} {Dur : Int → Prop} {w : VInfo α} {evs : List (VEvent α)}
    (h : VInv minSoc buffer Dur w evs) (new : List (VEvent α)) (hn : ∀ e ∈ new, e.vehicle ≠ w.id) :
    VInv minSoc buffer Dur w (evs ++ new) := by
  have hfil : vehicleEvents w.id (evs ++ new) = vehicleEvents w.id evs := by
    rw [vehicleEvents_append]
    have : vehicleEvents w.id new = [] := by
      unfold vehicleEvents
      rw [List.filter_eq_nil_iff]
      intro e he
      simp [hn e he]
    rw [this]; simp
  refine ⟨fun hn' => by rw [hfil]; exact h.1 hn', fun i hi => ?_⟩
  obtain ⟨T, D, A, hf, hl, hat, hok, hch, hlast, hhead⟩ := h.2 i hi
  exact ⟨T, D, A, by rw [hfil]; exact hf, hl.append_other hn, hat, hok, hch, hlast, hhead⟩

theorem applyTrip_other (P : StatParams α) (Dur : Int → Prop) (now : Int) (v w : VInfo α)
    (evs : List (VEvent α)) (t : Trip α) (hwv : w.id ≠ v.id)
    (hv : VInv P.minSoc P.buffer Dur v evs) (hw : VInv P.minSoc P.buffer Dur w evs) :
    VInv P.minSoc P.buffer Dur w (applyTrip P now v evs t).2 := by
  have hnew : ∀ e ∈ [depEvent v.id t, arrEvent P.minSoc v.id t], e.vehicle ≠ w.id := by
    intro e he
    simp at he
    rcases he with rfl | rfl <;> exact fun h => hwv h.symm
  unfold applyTrip
  cases hla : v.lastArrivalIdx with
  | none =>
    dsimp only
    unfold addTrip
    dsimp only
    split
    · exact hw
    · exact hw.append_other _ hnew
  | some i =>
    obtain ⟨T, D, A, hf, hl, hat, hok, hch, hlast, hhead⟩ := hv.2 i hla
    have hA : TripOK Dur v.id (D, A) := hok (D, A) (by simp)
    have hAw : A.vehicle ≠ w.id := by
      have : A.vehicle = v.id := hA.av
      rw [this]; exact fun h => hwv h.symm
    dsimp only
    split
    · exact hw
    · have hw1 := hw.patch_other i A t.departure t.desired hl.1 hAw
      unfold addTrip
      dsimp only
      split
      · exact hw1
      · exact hw1.append_other _ hnew

/-! ### lifting through `vehicleStep`, `dayLoop`, `daysLoop` -/

theorem mkTrip_ok (P : StatParams α) (now : Int) (ty : StatType α) (dr : Draw α) (t : Trip α)
    (h : mkTrip P now ty dr = .ok t) :
    ty.capacity ≠ 0 ∧ t.departure = dayOf now * DAY + dr.depTod ∧
    t.arrival = t.departure + dr.duration ∧
    t.socDelta = dr.distance * (ty.mileage / 100) / ty.capacity ∧
    t.desired = max P.minSoc (t.socDelta * (1 + P.buffer)) := by
  unfold mkTrip at h
  dsimp only at h
  by_cases hc : ty.capacity = 0
  · rw [hc, pydiv_zero] at h
    simp [bind, Except.bind] at h
  · rw [pydiv_ok _ hc] at h
    simp only [bind, Except.bind, Except.ok.injEq] at h
    subst h
    exact ⟨hc, rfl, rfl, rfl, by simp⟩

theorem mkTrip_error (P : StatParams α) (now : Int) (ty : StatType α) (dr : Draw α)
    (hc : ty.capacity = 0) : mkTrip P now ty dr = .error .zeroDivision := by
  unfold mkTrip
  dsimp only
  rw [hc, pydiv_zero]; rfl

theorem mkTrip_facts (P : StatParams α) (Dur : Int → Prop) (now : Int) (ty : StatType α) (dr : Draw α)
    (t : Trip α) (h : mkTrip P now ty dr = .ok t) (hd : Dur dr.duration) :
    TripFacts P.minSoc P.buffer Dur t := by
  obtain ⟨_, _, h3, _, h5⟩ := mkTrip_ok P now ty dr t h
  refine ⟨h5, ?_⟩
  have : t.arrival - t.departure = dr.duration := by rw [h3]; omega
  rw [this]; exact hd

theorem vehicleStep_ok (P : StatParams α) (now : Int) (v v' : VInfo α) (sh sh' : Shared α)
    (h : vehicleStep P now v sh = .ok (v', sh')) :
    ∃ dr draws t, sh.draws = dr :: draws ∧ mkTrip P now v.ty dr = .ok t ∧
      v' = (applyTrip P now v sh.events t).1 ∧
      sh' = { draws := draws, events := (applyTrip P now v sh.events t).2 } := by
  unfold vehicleStep at h
  cases hd : sh.draws with
  | nil => simp [hd] at h
  | cons dr draws =>
    simp only [hd] at h
    cases ht : mkTrip P now v.ty dr with
    | error e => simp [ht, bind, Except.bind] at h
    | ok t =>
      simp only [ht, bind, Except.bind, Except.ok.injEq, Prod.mk.injEq] at h
      exact ⟨dr, draws, t, rfl, ht, h.1.symm, h.2.symm⟩

/-- invariant of a whole fleet against the global event list -/
def GInv (minSoc buffer : α) (Dur : Int → Prop) (vs : List (VInfo α)) (evs : List (VEvent α)) : Prop :=
  ∀ w ∈ vs, VInv minSoc buffer Dur w evs

theorem dayLoop_inv (P : StatParams α) (Dur : Int → Prop) (now : Int) :
    ∀ (vs vs' others : List (VInfo α)) (sh sh' : Shared α),
      dayLoop P now vs sh = .ok (vs', sh') →
      (∀ d ∈ sh.draws, Dur d.duration) →
      GInv P.minSoc P.buffer Dur vs sh.events → GInv P.minSoc P.buffer Dur others sh.events →
      (∀ w ∈ others, ∀ v ∈ vs, w.id ≠ v.id) → (vs.map (·.id)).Nodup →
      GInv P.minSoc P.buffer Dur vs' sh'.events ∧ GInv P.minSoc P.buffer Dur others sh'.events ∧
      vs'.map (·.id) = vs.map (·.id) ∧ vs'.map (·.ty) = vs.map (·.ty) ∧ (∀ d ∈ sh'.draws, Dur d.duration)
  | [], vs', others, sh, sh', h, hd, hvs, hot, _, _ => by
    simp only [dayLoop, Except.ok.injEq, Prod.mk.injEq] at h
    obtain ⟨rfl, rfl⟩ := h
    exact ⟨hvs, hot, rfl, rfl, hd⟩
  | v :: vs, vs', others, sh, sh', h, hd, hvs, hot, hdis, hnd => by
    have hv : VInv P.minSoc P.buffer Dur v sh.events := hvs v (by simp)
    have hvs0 : GInv P.minSoc P.buffer Dur vs sh.events := fun w hw => hvs w (by simp [hw])
    have hnd2 : (∀ x ∈ vs, ¬x.id = v.id) ∧ (vs.map (·.id)).Nodup := by simpa using hnd
    have hnd' : (vs.map (·.id)).Nodup := hnd2.2
    have hvnot : ∀ w ∈ vs, w.id ≠ v.id := hnd2.1
    simp only [dayLoop] at h
    split at h
    · -- no-drive day for this vehicle's type: `continue`
      cases h1 : dayLoop P now vs sh with
      | error e => simp [h1, bind, Except.bind] at h
      | ok r =>
        obtain ⟨vs1, sh1⟩ := r
        simp only [h1, bind, Except.bind, Except.ok.injEq, Prod.mk.injEq] at h
        obtain ⟨rfl, rfl⟩ := h
        have ih := dayLoop_inv P Dur now vs vs1 (v :: others) sh sh1 h1 hd hvs0
          (by intro w hw; rcases List.mem_cons.mp hw with rfl | hw
              · exact hv
              · exact hot w hw)
          (by intro w hw u hu; rcases List.mem_cons.mp hw with rfl | hw
              · exact fun h => hvnot u hu h.symm
              · exact hdis w hw u (by simp [hu]))
          hnd'
        obtain ⟨i1, i2, i3, i4, i5⟩ := ih
        refine ⟨?_, fun w hw => i2 w (by simp [hw]), by simp [i3], by simp [i4], i5⟩
        intro w hw
        rcases List.mem_cons.mp hw with rfl | hw
        · exact i2 _ (by simp)
        · exact i1 w hw
    · split at h
      · -- holiday: `break`
        simp only [Except.ok.injEq, Prod.mk.injEq] at h
        obtain ⟨rfl, rfl⟩ := h
        exact ⟨hvs, hot, rfl, rfl, hd⟩
      · cases h0 : vehicleStep P now v sh with
        | error e => simp [h0, bind, Except.bind] at h
        | ok r0 =>
          obtain ⟨v1, sh1⟩ := r0
          simp only [h0, bind, Except.bind] at h
          cases h1 : dayLoop P now vs sh1 with
          | error e => simp [h1] at h
          | ok r =>
            obtain ⟨vs1, sh2⟩ := r
            simp only [h1, Except.ok.injEq, Prod.mk.injEq] at h
            obtain ⟨rfl, rfl⟩ := h
            obtain ⟨dr, draws, t, hdr, hmk, rfl, rfl⟩ := vehicleStep_ok P now v v1 sh sh1 h0
            have hfacts := mkTrip_facts P Dur now v.ty dr t hmk (hd dr (by simp [hdr]))
            have hself := applyTrip_self P Dur now v sh.events t hfacts hv
            have hid := applyTrip_id P now v sh.events t
            have ih := dayLoop_inv P Dur now vs vs1 ((applyTrip P now v sh.events t).1 :: others)
              { draws := draws, events := (applyTrip P now v sh.events t).2 } sh2 h1
              (fun d hd' => hd d (by simp [hdr, hd']))
              (fun w hw => applyTrip_other P Dur now v w sh.events t (hvnot w hw) hv (hvs0 w hw))
              (by intro w hw; rcases List.mem_cons.mp hw with rfl | hw
                  · exact hself
                  · exact applyTrip_other P Dur now v w sh.events t (hdis w hw v (by simp)) hv (hot w hw))
              (by intro w hw u hu; rcases List.mem_cons.mp hw with rfl | hw
                  · rw [hid.1]; exact fun h => hvnot u hu h.symm
                  · exact hdis w hw u (by simp [hu]))
              hnd'
            obtain ⟨i1, i2, i3, i4, i5⟩ := ih
            refine ⟨?_, fun w hw => i2 w (by simp [hw]), by simp [i3, hid.1], by simp [i4, hid.2], i5⟩
            intro w hw
            rcases List.mem_cons.mp hw with rfl | hw
            · exact i2 _ (by simp)
            · exact i1 w hw

theorem daysLoop_inv (P : StatParams α) (Dur : Int → Prop) :
    ∀ (days : List Int) (vs vs' : List (VInfo α)) (sh sh' : Shared α),
      daysLoop P days vs sh = .ok (vs', sh') →
      (∀ d ∈ sh.draws, Dur d.duration) →
      GInv P.minSoc P.buffer Dur vs sh.events → (vs.map (·.id)).Nodup →
      GInv P.minSoc P.buffer Dur vs' sh'.events ∧ vs'.map (·.id) = vs.map (·.id) ∧
      vs'.map (·.ty) = vs.map (·.ty)
  | [], vs, vs', sh, sh', h, _, hvs, _ => by
    simp only [daysLoop, Except.ok.injEq, Prod.mk.injEq] at h
    obtain ⟨rfl, rfl⟩ := h
    exact ⟨hvs, rfl, rfl⟩
  | now :: rest, vs, vs', sh, sh', h, hd, hvs, hnd => by
    simp only [daysLoop] at h
    cases h1 : dayLoop P now vs sh with
    | error e => simp [h1, bind, Except.bind] at h
    | ok r =>
      obtain ⟨vs1, sh1⟩ := r
      simp only [h1, bind, Except.bind] at h
      obtain ⟨i1, _, i3, i4, i5⟩ := dayLoop_inv P Dur now vs vs1 [] sh sh1 h1 hd hvs
        (fun w hw => by simp at hw) (fun w hw => by simp at hw) hnd
      obtain ⟨j1, j2, j3⟩ := daysLoop_inv P Dur rest vs1 vs' sh1 sh' h i5 i1 (by rw [i3]; exact hnd)
      exact ⟨j1, by rw [j2, i3], by rw [j3, i4]⟩

/-! ### the `while` loop over the days -/

theorem whileDays_aux (stop : Int) :
    ∀ (n : Nat) (now : Int), stop + 2 * DAY ≤ now + (n : Int) * DAY →
      (0 < n → now + ((n : Int) - 1) * DAY < stop + 2 * DAY) →
      whileDays stop (n + 1) now = some ((List.range n).map (fun (k : Nat) => now + ((k : Int) + 1) * DAY))
  | 0, now, h1, _ => by
    have : ¬ now < stop + 2 * DAY := by simp only [DAY] at h1 ⊢; omega
    simp [whileDays, this]
  | n + 1, now, h1, h2 => by
    have hlt : now < stop + 2 * DAY := by
      have := h2 (by omega)
      simp only [DAY] at this ⊢; push_cast at this; omega
    have ih := whileDays_aux stop n (now + DAY)
      (by simp only [DAY] at h1 ⊢; push_cast at h1; omega)
      (by intro hn; have := h2 (by omega); simp only [DAY] at this ⊢; push_cast at this; omega)
    rw [whileDays, if_pos hlt, ih]
    simp only [Option.map_some, Option.some.injEq]
    rw [List.range_succ_eq_map]
    simp only [List.map_cons, List.map_map]
    congr 1
    apply List.map_congr_left
    intro k _
    simp only [Function.comp, DAY]; push_cast; ring

/-- the fuel handed to the `while` loop suffices, and the days visited are
`start, start + 1 d, …, start + (days + 2) d` -/
theorem whileDays_eq (start days : Int) :
    whileDays (start + days * DAY) ((days + 3).toNat + 1) (start - DAY) = some (dayList start days) := by
  rw [whileDays_aux]
  · unfold dayList
    congr 1
    apply List.map_congr_left
    intro k _
    simp only [DAY]; ring
  · simp only [DAY]; omega
  · intro hn; simp only [DAY]; omega

/-! ### consumption range: an invariant of the event list alone -/

/-- every arrival event satisfies `R` on its `soc_delta` -/
def EvRng (R : α → Prop) (evs : List (VEvent α)) : Prop :=
  ∀ e ∈ evs, e.kind = .arrival → R e.socDelta

theorem mem_patchAt (f : VEvent α → VEvent α) :
    ∀ (i : Nat) (l : List (VEvent α)) (e : VEvent α), e ∈ patchAt f i l → e ∈ l ∨ ∃ e0 ∈ l, e = f e0
  | _, [], e, h => by simp at h
  | 0, x :: xs, e, h => by
    simp only [patchAt, List.mem_cons] at h
    rcases h with rfl | h
    · exact Or.inr ⟨x, by simp, rfl⟩
    · exact Or.inl (by simp [h])
  | i + 1, x :: xs, e, h => by
    simp only [patchAt, List.mem_cons] at h
    rcases h with rfl | h
    · exact Or.inl (by simp)
    · rcases mem_patchAt f i xs e h with h | ⟨e0, h0, rfl⟩
      · exact Or.inl (by simp [h])
      · exact Or.inr ⟨e0, by simp [h0], rfl⟩

theorem applyTrip_rng (P : StatParams α) (R : α → Prop) (now : Int) (v : VInfo α)
    (evs : List (VEvent α)) (t : Trip α) (ht : R (-t.socDelta)) (h : EvRng R evs) :
    EvRng R (applyTrip P now v evs t).2 := by
  have hpatch : ∀ i, EvRng R (patchAt (patchArrival t.departure t.desired) i evs) := by
    intro i e he hk
    rcases mem_patchAt _ i evs e he with he | ⟨e0, he0, rfl⟩
    · exact h e he hk
    · exact h e0 he0 hk
  have happ : ∀ l, EvRng R l → EvRng R (l ++ [depEvent v.id t, arrEvent P.minSoc v.id t]) := by
    intro l hl e he hk
    rcases List.mem_append.mp he with he | he
    · exact hl e he hk
    · simp at he
      rcases he with rfl | rfl
      · simp [depEvent] at hk
      · exact ht
  unfold applyTrip addTrip
  cases v.lastArrivalIdx with
  | none => dsimp only; split; exact h; exact happ _ h
  | some i =>
    dsimp only
    split
    · exact h
    · split
      · exact hpatch i
      · exact happ _ (hpatch i)

/-- `soc_delta` of a trip, as a function of the draw and the vehicle type -/
def socDeltaOf (ty : StatType α) (d : Draw α) : α := d.distance * (ty.mileage / 100) / ty.capacity

theorem dayLoop_rng (P : StatParams α) (R : α → Prop) (now : Int) :
    ∀ (vs vs' : List (VInfo α)) (sh sh' : Shared α),
      dayLoop P now vs sh = .ok (vs', sh') →
      (∀ d ∈ sh.draws, ∀ v ∈ vs, R (-(socDeltaOf v.ty d))) → EvRng R sh.events →
      EvRng R sh'.events ∧ (∀ d ∈ sh'.draws, d ∈ sh.draws) ∧ vs'.map (·.ty) = vs.map (·.ty)
  | [], vs', sh, sh', h, _, he => by
    simp only [dayLoop, Except.ok.injEq, Prod.mk.injEq] at h
    obtain ⟨rfl, rfl⟩ := h
    exact ⟨he, fun d hd => hd, rfl⟩
  | v :: vs, vs', sh, sh', h, hr, he => by
    simp only [dayLoop] at h
    split at h
    · cases h1 : dayLoop P now vs sh with
      | error e => simp [h1, bind, Except.bind] at h
      | ok r =>
        obtain ⟨vs1, sh1⟩ := r
        simp only [h1, bind, Except.bind, Except.ok.injEq, Prod.mk.injEq] at h
        obtain ⟨rfl, rfl⟩ := h
        obtain ⟨i1, i2, i3⟩ := dayLoop_rng P R now vs vs1 sh sh1 h1
          (fun d hd u hu => hr d hd u (by simp [hu])) he
        exact ⟨i1, i2, by simp [i3]⟩
    · split at h
      · simp only [Except.ok.injEq, Prod.mk.injEq] at h
        obtain ⟨rfl, rfl⟩ := h
        exact ⟨he, fun d hd => hd, rfl⟩
      · cases h0 : vehicleStep P now v sh with
        | error e => simp [h0, bind, Except.bind] at h
        | ok r0 =>
          obtain ⟨v1, sh1⟩ := r0
          simp only [h0, bind, Except.bind] at h
          cases h1 : dayLoop P now vs sh1 with
          | error e => simp [h1] at h
          | ok r =>
            obtain ⟨vs1, sh2⟩ := r
            simp only [h1, Except.ok.injEq, Prod.mk.injEq] at h
            obtain ⟨rfl, rfl⟩ := h
            obtain ⟨dr, draws, t, hdr, hmk, rfl, rfl⟩ := vehicleStep_ok P now v v1 sh sh1 h0
            obtain ⟨_, _, _, hsd, _⟩ := mkTrip_ok P now v.ty dr t hmk
            have hR : R (-t.socDelta) := by
              rw [hsd]; exact hr dr (by simp [hdr]) v (by simp)
            have h2 := applyTrip_rng P R now v sh.events t hR he
            obtain ⟨i1, i2, i3⟩ := dayLoop_rng P R now vs vs1
              { draws := draws, events := (applyTrip P now v sh.events t).2 } sh2 h1
              (fun d hd u hu => hr d (by simp [hdr, hd]) u (by simp [hu])) h2
            refine ⟨i1, fun d hd => by simpa [hdr] using Or.inr (i2 d hd), ?_⟩
            simp [i3, (applyTrip_id P now v sh.events t).2]

theorem daysLoop_rng (P : StatParams α) (R : α → Prop) :
    ∀ (days : List Int) (vs vs' : List (VInfo α)) (sh sh' : Shared α),
      daysLoop P days vs sh = .ok (vs', sh') →
      (∀ d ∈ sh.draws, ∀ ty ∈ vs.map (·.ty), R (-(socDeltaOf ty d))) → EvRng R sh.events →
      EvRng R sh'.events
  | [], vs, vs', sh, sh', h, _, he => by
    simp only [daysLoop, Except.ok.injEq, Prod.mk.injEq] at h
    obtain ⟨rfl, rfl⟩ := h
    exact he
  | now :: rest, vs, vs', sh, sh', h, hr, he => by
    simp only [daysLoop] at h
    cases h1 : dayLoop P now vs sh with
    | error e => simp [h1, bind, Except.bind] at h
    | ok r =>
      obtain ⟨vs1, sh1⟩ := r
      simp only [h1, bind, Except.bind] at h
      obtain ⟨i1, i2, i3⟩ := dayLoop_rng P R now vs vs1 sh sh1 h1
        (fun d hd v hv => hr d hd v.ty (List.mem_map.mpr ⟨v, hv, rfl⟩)) he
      exact daysLoop_rng P R rest vs1 vs' sh1 sh' h
        (fun d hd ty hty => hr d (i2 d hd) ty (by rw [← i3]; exact hty)) i1

/-! ### the whole generator -/

theorem buildVehicles_fresh (types : List (StatType α × Int)) :
    ∀ v ∈ buildVehicles types, v.lastArrivalIdx = none ∧ ∃ p ∈ types, v.ty = p.1 := by
  intro v hv
  unfold buildVehicles at hv
  obtain ⟨p, hp, hv⟩ := List.mem_flatMap.mp hv
  obtain ⟨i, _, rfl⟩ := List.mem_map.mp hv
  exact ⟨rfl, p, hp, rfl⟩

/-- shape of a successful run: the fleet `vs0` built from `args.vehicles`, and the final records
`vs` / event list produced by the day loop over `dayList` -/
theorem generate_ok (P : StatParams α) (draws : List (Draw α)) (out : StatOut α)
    (h : generateFromStatistics P draws = .ok out) :
    ∃ types vs sh, buildTypes P.predefined P.vehicles = .ok types ∧
      daysLoop P (dayList P.start P.days) (buildVehicles types) { draws := draws, events := [] } = .ok (vs, sh) ∧
      out.vehicles = vs.map (VInfo.toInit P.minSoc) ∧ out.events = sh.events ∧
      out.unused = sh.draws.length := by
  unfold generateFromStatistics at h
  cases h1 : buildTypes P.predefined P.vehicles with
  | error e => simp [h1, bind, Except.bind] at h
  | ok types =>
    simp only [h1, bind, Except.bind] at h
    split at h
    · simp at h
    · rename_i stations hst
      rw [whileDays_eq] at h
      dsimp only at h
      cases h2 : daysLoop P (dayList P.start P.days) (buildVehicles types) { draws := draws, events := [] } with
      | error e => simp [h2] at h
      | ok r =>
        obtain ⟨vs, sh⟩ := r
        simp only [h2, Except.ok.injEq] at h
        subst h
        exact ⟨types, vs, sh, rfl, h2, rfl, rfl, rfl⟩

theorem generate_structure (P : StatParams α) (Dur : Int → Prop) (draws : List (Draw α))
    (out : StatOut α) (h : generateFromStatistics P draws = .ok out)
    (hd : ∀ d ∈ draws, Dur d.duration)
    (hnd : ∀ types, buildTypes P.predefined P.vehicles = .ok types →
      ((buildVehicles types).map (·.id)).Nodup) :
    ∃ vs : List (VInfo α), out.vehicles = vs.map (VInfo.toInit P.minSoc) ∧
      GInv P.minSoc P.buffer Dur vs out.events := by
  obtain ⟨types, vs, sh, h1, h2, h3, h4, _⟩ := generate_ok P draws out h
  have h0 : GInv P.minSoc P.buffer Dur (buildVehicles types) ([] : List (VEvent α)) := by
    intro w hw
    have := (buildVehicles_fresh types w hw).1
    exact ⟨fun _ => rfl, fun i hi => by rw [this] at hi; simp at hi⟩
  obtain ⟨j1, _, _⟩ := daysLoop_inv P Dur _ _ vs _ sh h2 hd h0 (hnd types h1)
  exact ⟨vs, h3, by rw [h4]; exact j1⟩

/-! ### draws that are not consumed do not matter -/

theorem vehicleStep_extra (P : StatParams α) (now : Int) (v v' : VInfo α) (sh sh' : Shared α)
    (extra : List (Draw α)) (h : vehicleStep P now v sh = .ok (v', sh')) :
    vehicleStep P now v { sh with draws := sh.draws ++ extra } =
      .ok (v', { sh' with draws := sh'.draws ++ extra }) := by
  obtain ⟨dr, draws, t, hdr, hmk, rfl, rfl⟩ := vehicleStep_ok P now v v' sh sh' h
  unfold vehicleStep
  simp only [hdr, List.cons_append, hmk, bind, Except.bind]

theorem dayLoop_extra (P : StatParams α) (now : Int) (extra : List (Draw α)) :
    ∀ (vs vs' : List (VInfo α)) (sh sh' : Shared α), dayLoop P now vs sh = .ok (vs', sh') →
      dayLoop P now vs { sh with draws := sh.draws ++ extra } =
        .ok (vs', { sh' with draws := sh'.draws ++ extra })
  | [], vs', sh, sh', h => by
    simp only [dayLoop, Except.ok.injEq, Prod.mk.injEq] at h
    obtain ⟨rfl, rfl⟩ := h
    simp [dayLoop]
  | v :: vs, vs', sh, sh', h => by
    simp only [dayLoop] at h ⊢
    split at h
    · rename_i hnd
      cases h1 : dayLoop P now vs sh with
      | error e => simp [h1, bind, Except.bind] at h
      | ok r =>
        obtain ⟨vs1, sh1⟩ := r
        simp only [h1, bind, Except.bind, Except.ok.injEq, Prod.mk.injEq] at h
        obtain ⟨rfl, rfl⟩ := h
        simp only [hnd, if_true, dayLoop_extra P now extra vs vs1 sh sh1 h1, bind, Except.bind]
    · rename_i hnd
      split at h
      · rename_i hh
        simp only [Except.ok.injEq, Prod.mk.injEq] at h
        obtain ⟨rfl, rfl⟩ := h
        simp only [hnd, hh, if_true]
        rfl
      · rename_i hh
        cases h0 : vehicleStep P now v sh with
        | error e => simp [h0, bind, Except.bind] at h
        | ok r0 =>
          obtain ⟨v1, sh1⟩ := r0
          simp only [h0, bind, Except.bind] at h
          cases h1 : dayLoop P now vs sh1 with
          | error e => simp [h1] at h
          | ok r =>
            obtain ⟨vs1, sh2⟩ := r
            simp only [h1, Except.ok.injEq, Prod.mk.injEq] at h
            obtain ⟨rfl, rfl⟩ := h
            simp only [hnd, hh, vehicleStep_extra P now v v1 sh sh1 extra h0,
              dayLoop_extra P now extra vs vs1 sh1 sh2 h1, bind, Except.bind]
            rfl

theorem daysLoop_extra (P : StatParams α) (extra : List (Draw α)) :
    ∀ (days : List Int) (vs vs' : List (VInfo α)) (sh sh' : Shared α),
      daysLoop P days vs sh = .ok (vs', sh') →
      daysLoop P days vs { sh with draws := sh.draws ++ extra } =
        .ok (vs', { sh' with draws := sh'.draws ++ extra })
  | [], vs, vs', sh, sh', h => by
    simp only [daysLoop, Except.ok.injEq, Prod.mk.injEq] at h
    obtain ⟨rfl, rfl⟩ := h
    simp [daysLoop]
  | now :: rest, vs, vs', sh, sh', h => by
    simp only [daysLoop] at h ⊢
    cases h1 : dayLoop P now vs sh with
    | error e => simp [h1, bind, Except.bind] at h
    | ok r =>
      obtain ⟨vs1, sh1⟩ := r
      simp only [h1, bind, Except.bind] at h
      simp only [dayLoop_extra P now extra vs vs1 sh sh1 h1, bind, Except.bind]
      exact daysLoop_extra P extra rest vs1 vs' sh1 sh' h

theorem generate_extra (P : StatParams α) (draws extra : List (Draw α)) (out : StatOut α)
    (h : generateFromStatistics P draws = .ok out) :
    generateFromStatistics P (draws ++ extra) = .ok { out with unused := out.unused + extra.length } := by
  obtain ⟨types, vs, sh, h1, h2, h3, h4, h5⟩ := generate_ok P draws out h
  have h2' := daysLoop_extra P extra _ _ vs _ sh h2
  unfold generateFromStatistics at h ⊢
  simp only [h1, bind, Except.bind] at h ⊢
  split at h
  · simp at h
  · rename_i stations hst
    rw [whileDays_eq] at h ⊢
    dsimp only at h ⊢
    simp only [h2] at h
    simp only [h2']
    simp only [Except.ok.injEq] at h ⊢
    subst h
    simp only [List.length_append]

/-! ### progress: with enough draws and non-zero capacities the loops do not raise -/

theorem vehicleStep_progress (P : StatParams α) (now : Int) (v : VInfo α) (sh : Shared α)
    (hc : v.ty.capacity ≠ 0) (hd : 1 ≤ sh.draws.length) :
    ∃ v' sh', vehicleStep P now v sh = .ok (v', sh') ∧ sh'.draws.length + 1 = sh.draws.length ∧
      v'.ty = v.ty := by
  unfold vehicleStep
  cases hdr : sh.draws with
  | nil => rw [hdr] at hd; simp at hd
  | cons dr draws =>
    dsimp only
    have : ∃ t, mkTrip P now v.ty dr = .ok t := by
      unfold mkTrip; dsimp only; rw [pydiv_ok _ hc]; exact ⟨_, rfl⟩
    obtain ⟨t, ht⟩ := this
    simp only [ht, bind, Except.bind]
    exact ⟨_, _, rfl, by simp, (applyTrip_id P now v sh.events t).2⟩

theorem dayLoop_progress (P : StatParams α) (now : Int) :
    ∀ (vs : List (VInfo α)) (sh : Shared α) (k : Nat), (∀ v ∈ vs, v.ty.capacity ≠ 0) →
      vs.length + k ≤ sh.draws.length →
      ∃ vs' sh', dayLoop P now vs sh = .ok (vs', sh') ∧ k ≤ sh'.draws.length ∧
        vs'.map (·.ty) = vs.map (·.ty)
  | [], sh, k, _, hk => ⟨[], sh, rfl, by simpa using hk, rfl⟩
  | v :: vs, sh, k, hc, hk => by
    simp only [dayLoop]
    have hc' : ∀ u ∈ vs, u.ty.capacity ≠ 0 := fun u hu => hc u (by simp [hu])
    simp only [List.length_cons] at hk
    split
    · obtain ⟨vs1, sh1, h1, h2, h3⟩ := dayLoop_progress P now vs sh k hc' (by omega)
      exact ⟨v :: vs1, sh1, by simp [h1, bind, Except.bind], h2, by simp [h3]⟩
    · split
      · exact ⟨v :: vs, sh, rfl, by omega, rfl⟩
      · obtain ⟨v1, sh1, g1, g2, g3⟩ := vehicleStep_progress P now v sh (hc v (by simp)) (by omega)
        obtain ⟨vs1, sh2, h1, h2, h3⟩ := dayLoop_progress P now vs sh1 k hc' (by omega)
        exact ⟨v1 :: vs1, sh2, by simp [g1, h1, bind, Except.bind], h2, by simp [h3, g3]⟩

theorem daysLoop_progress (P : StatParams α) :
    ∀ (days : List Int) (vs : List (VInfo α)) (sh : Shared α), (∀ v ∈ vs, v.ty.capacity ≠ 0) →
      days.length * vs.length ≤ sh.draws.length →
      ∃ r, daysLoop P days vs sh = .ok r
  | [], vs, sh, _, _ => ⟨(vs, sh), rfl⟩
  | now :: rest, vs, sh, hc, hk => by
    simp only [daysLoop]
    simp only [List.length_cons] at hk
    obtain ⟨vs1, sh1, h1, h2, h3⟩ := dayLoop_progress P now vs sh (rest.length * vs.length) hc
      (by have : (rest.length + 1) * vs.length = vs.length + rest.length * vs.length := by ring
          omega)
    have hlen : vs1.length = vs.length := by
      have := congrArg List.length h3; simpa using this
    have hc1 : ∀ v ∈ vs1, v.ty.capacity ≠ 0 := by
      intro v hv
      have : v.ty ∈ vs1.map (·.ty) := List.mem_map.mpr ⟨v, hv, rfl⟩
      rw [h3] at this
      obtain ⟨u, hu, hty⟩ := List.mem_map.mp this
      rw [← hty]; exact hc u hu
    obtain ⟨r, hr⟩ := daysLoop_progress P rest vs1 sh1 hc1 (by rw [hlen]; exact h2)
    exact ⟨r, by simp [h1, bind, Except.bind, hr]⟩

theorem mapM_ok_of_forall {ε β γ : Type} (f : β → Except ε γ) :
    ∀ l : List β, (∀ a ∈ l, ∃ b, f a = .ok b) → ∃ r, l.mapM f = .ok r
  | [], _ => ⟨[], by simp [pure, Except.pure]⟩
  | a :: l, h => by
    obtain ⟨b, hb⟩ := h a (by simp)
    obtain ⟨r, hr⟩ := mapM_ok_of_forall f l (fun x hx => h x (by simp [hx]))
    exact ⟨b :: r, by rw [List.mapM_cons]; simp [hb, hr, bind, Except.bind, pure, Except.pure]⟩

/-- the generator returns a scenario whenever the fleet can be built, every fleet type has a
non-empty charging curve and a non-zero capacity, and there are draws for `(days + 3)` days for
every vehicle -/
theorem generate_progress (P : StatParams α) (draws : List (Draw α)) (types : List (StatType α × Int))
    (ht : buildTypes P.predefined P.vehicles = .ok types)
    (hty : ∀ p ∈ types, p.1.capacity ≠ 0 ∧ p.1.curvePowers ≠ [])
    (hd : (P.days + 3).toNat * (buildVehicles types).length ≤ draws.length) :
    ∃ out, generateFromStatistics P draws = .ok out := by
  have hv : ∀ v ∈ buildVehicles types, v.ty.capacity ≠ 0 ∧ v.ty.curvePowers ≠ [] := by
    intro v hv
    obtain ⟨_, p, hp, hvp⟩ := buildVehicles_fresh types v hv
    rw [hvp]; exact hty p hp
  obtain ⟨stations, hst⟩ := mapM_ok_of_forall (fun v : VInfo α => do
      let p ← pyMaxList v.ty.curvePowers
      (.ok ({ id := "CS_" ++ v.id, maxPower := p } : Station α) : Py (Station α))) (buildVehicles types)
    (by
      intro v hv'
      have := (hv v hv').2
      cases hcp : v.ty.curvePowers with
      | nil => exact absurd hcp this
      | cons x xs =>
        refine ⟨{ id := "CS_" ++ v.id, maxPower := xs.foldl (fun m y => if m < y then y else m) x }, ?_⟩
        simp only [pyMaxList, bind, Except.bind])
  obtain ⟨r, hr⟩ := daysLoop_progress P (dayList P.start P.days) (buildVehicles types)
    { draws := draws, events := [] } (fun v hv' => (hv v hv').1) (by simpa [dayList] using hd)
  unfold generateFromStatistics
  simp only [ht, bind, Except.bind] at hst ⊢
  rw [hst]
  dsimp only
  rw [whileDays_eq]
  dsimp only
  rw [hr]
  exact ⟨_, rfl⟩

end SpiceEv.Gen
