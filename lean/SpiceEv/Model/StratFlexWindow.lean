/-
Model of `spice_ev/strategies/flex_window.py` (class `FlexWindow`), transliterated statement by
statement: `step` (forecast of window / available power per future timestep from
`world_state.future_events`, `gc.get_avg_fixed_load`), `distribute_balanced_vehicles`,
`distribute_balanced_batteries`, `distribute_balanced_v2g`, `distribute_surplus_to_vehicles`,
`load_surplus_to_batteries` (LOAD_STRAT balanced) and `distribute_peak_shaving_vehicles`,
`distribute_power`, `distribute_peak_shaving_v2g`, `distribute_peak_shaving_batteries`
(LOAD_STRAT greedy / needy; the surplus pass there is `Strategy.distribute_surplus_power`,
`distributeSurplus` of Model/Strategies.lean).

The code as it is, including
* Python variables that survive loop iterations (`power` in `distribute_balanced_vehicles`,
  `window` / `discharge_limit` in the V2G passes, `cur_time` in `distribute_peak_shaving_v2g`) and are
  unbound in the first iteration (`UnboundLocalError`),
* `break`s that leave the whole vehicle loop, inner `break`s that skip the remaining batteries,
* the in-place simulations on deep copies (pure functions on battery values here; a restored SoC
  is the old battery value),
* the forecast's `event.max_power or cur_max_power` (not capped by the rating).

Core Lean only.  Generic number type; the battery is `BatOps`.

The model is the behaviour of the code with the repairs fixes/FW1 … FW5 applied (marked `repair FWn` below).
-/
import SpiceEv.Py
import SpiceEv.Time
import SpiceEv.Model.StrategyUtil
import SpiceEv.Model.Strategies
namespace SpiceEv.FlexWindow
open SpiceEv

/-- exceptions of the step: the kinds of `PyErr` plus the two that only this class produces -/
inductive FErr where
  | py (e : PyErr)
  | unboundLocal          -- UnboundLocalError
  | notImplemented        -- NotImplementedError (`distribute_power` with an unknown LOAD_STRAT)
  | attributeError        -- AttributeError (`self.sort_key` does not exist for an unknown LOAD_STRAT)
  | unsupported           -- outside the model: `sorted` on keys containing `None` (see notes)
  deriving Repr, DecidableEq, Inhabited

def FErr.name : FErr → String
  | .py e => e.name
  | .unboundLocal => "UnboundLocalError"
  | .notImplemented => "NotImplementedError"
  | .attributeError => "AttributeError"
  | .unsupported => "UNSUPPORTED"

abbrev FPy := Except FErr

def liftPy {β : Type} : Py β → FPy β
  | .ok v => .ok v
  | .error e => .error (.py e)

instance : MonadLift Py FPy := ⟨liftPy⟩

inductive LoadStrat where | greedy | needy | balanced | other
  deriving Repr, DecidableEq, Inhabited

/-- the events of `world_state.future_events` as far as `step` distinguishes them -/
inductive EvKind (α : Type) where
  | gos (maxPower : Option α) (window : Option Bool)     -- GridOperatorSignal
  | gen (name : String) (value : α)                      -- LocalEnergyGeneration
  | other                                                -- FixedLoad, VehicleEvent: skipped

structure FEvent (α : Type) where
  start : Int                       -- start_time, UTC instant in µs
  kind : EvKind α

/-- one entry of `timesteps` -/
structure TS (α : Type) where
  idx : Nat                          -- "timestep_idx"
  power : α
  fixedLoad : α
  window : Option Bool
  vLoad : α
  totalLoad : α

/-- `gc.avg_fixed_load` (7 × events_per_day), losslessly encoded: entries not listed are 0 -/
structure AvgTable (α : Type) where
  slots : Nat                        -- events_per_day
  entries : List (Nat × Nat × α)     -- (weekday, timeslot, value)

structure FEnv (α : Type) where
  base : StratEnv α                  -- EPS, PRICE_THRESHOLD, ts_per_hour, current_time, interval
  horizon : Int                      -- timedelta(hours=HORIZON) in µs
  utcOffset : Int                    -- utcoffset of current_time in µs
  strat : LoadStrat
  avg : Option (AvgTable α)          -- `gc.avg_fixed_load` (None = no fixed load list)
  sum : List α → α                   -- builtin `sum` (start 0)
  fuel : Nat                         -- bound on bisection iterations (FUEL error when exceeded)

/-- world + the connector's `window` attribute + the local list `timesteps` -/
structure FState (α B : Type) where
  w : SWorld α B
  window : Option Bool
  ts : List (TS α)

/-- Python truthiness of `True / False / None` -/
@[inline] def truthy (w : Option Bool) : Bool := w == some true

section
variable {α B : Type} [Add α] [Sub α] [Mul α] [Div α] [Neg α] [LT α] [LE α]
  [DecidableLT α] [DecidableLE α] [OfNat α 0] [OfNat α 1] [NatCast α] [IntCast α]

@[inline] def two : α := ((2 : Nat) : α)

/-- `clamp_power(p, vehicle, cs)` on the model's records -/
@[inline] def clampV (p : α) (cs : StationS α) (v : VehicleS α B) : α :=
  clampPower p cs.currentPower cs.maxPower cs.minPower v.minChargingPower

/-- `while hi - lo > EPS: mid = (lo + hi) / 2; …; if <test>: hi = mid else: lo = mid`.
`body mid st = (test, st')`; the loop variables other than the bracket live in `st`. -/
def bisectM {σ : Type} (eps : α) (body : α → σ → FPy (Bool × σ)) : Nat → α → α → σ → FPy σ
  | 0, lo, hi, st => if eps < hi - lo then .error (.py .fuel) else .ok st
  | f + 1, lo, hi, st =>
    if eps < hi - lo then do
      let mid := (lo + hi) / two
      let r ← body mid st
      if r.1 then bisectM eps body f lo mid r.2 else bisectM eps body f mid hi r.2
    else .ok st

/-! ### forecast (first part of `step`) -/

/-- `gc.get_avg_fixed_load(dt, interval)`; `dt` is the UTC instant `t`, wall clock = `t + utcOffset` -/
def avgFixedLoad (env : FEnv α) (t : Int) : FPy α :=
  match env.avg with
  | none => .ok 0
  | some tab =>
    let loc := t + env.utcOffset
    let weekday := ((loc / usPerDay + 3) % 7).toNat          -- 1970-01-01 is a Thursday
    let tod := loc % usPerDay
    -- `dt.replace(hour=0, minute=0)` keeps seconds and microseconds
    let sinceMidnight := (tod / usPerMinute) * usPerMinute
    let slot := (sinceMidnight / env.base.interval).toNat   -- int(timedelta / timedelta)
    if slot < tab.slots then
      match tab.entries.find? (fun e => e.1 == weekday && e.2.1 == slot) with
      | some e => .ok e.2.2
      | none => .ok 0
    else .error (.py .indexError)

/-- forecast state: `cur_max_power`, `cur_window`, `cur_local_generation` -/
structure FcSt (α : Type) where
  curMax : α
  curWindow : Option Bool
  gen : List (String × α)

def applyEvent (st : FcSt α) (e : FEvent α) : FcSt α :=
  match e.kind with
  | .gos mp win =>
    -- `cur_max_power = event.max_power or cur_max_power`
    let cm := match mp with
      | none => st.curMax
      | some m => if m ≤ 0 ∧ 0 ≤ m then st.curMax else m
    let cw := match win with
      | none => st.curWindow
      | some b => some b
    { st with curMax := cm, curWindow := cw }
  | .gen name value => { st with gen := sdSet st.gen name value }
  | .other => st

/-- the `while True` peek loop: events with `start_time <= cur_time` are consumed -/
def consumeEvents (curTime : Int) : List (FEvent α) → FcSt α → List (FEvent α) × FcSt α
  | [], st => ([], st)
  | e :: rest, st =>
    if curTime < e.start then (e :: rest, st) else consumeEvents curTime rest (applyEvent st e)

/-- body of `for timestep_idx in range(timesteps_ahead)` -/
def forecastStep (env : FEnv α)
    (acc : List (FEvent α) × FcSt α × List (TS α)) (i : Nat) :
    FPy (List (FEvent α) × FcSt α × List (TS α)) := do
  let curTime := env.base.now + (i : Int) * env.base.interval
  let (evs, st) := consumeEvents curTime acc.1 acc.2.1
  let avgLoad ← avgFixedLoad env curTime
  let fixedLoad := avgLoad - env.sum (st.gen.map (·.2))
  .ok (evs, st, acc.2.2 ++ [⟨i, st.curMax - fixedLoad, fixedLoad, st.curWindow, 0, fixedLoad⟩])

/-- `timesteps` as built at the start of `step` -/
def forecast (env : FEnv α) (gc : GcS α) (window : Option Bool) (events : List (FEvent α)) :
    FPy (List (TS α)) := do
  -- `{k: -v for k, v in gc.current_loads.items() if v < 0}`
  let gen0 := (gc.loads.filter (fun kv => kv.2 < 0)).map (fun kv => (kv.1, -kv.2))
  let n := (env.horizon / env.base.interval).toNat
  let r ← (List.range n).foldlM (forecastStep env) (events, ⟨gc.curMax, window, gen0⟩, [])
  .ok r.2.2

/-! ### sorting -/

/-- `key(b) < key(a)` for `self.sort_key` -/
def keyLt (ops : BatOps α B) (strat : LoadStrat) (b a : VehicleS α B) : Bool :=
  let tup (b0 a0 : Bool) : Bool :=
    (!b0 && a0) || (b0 == a0 && (match b.etd, a.etd with
      | some x, some y => decide (x < y)
      | _, _ => false))
  match strat with
  | .greedy => tup (decide (b.desiredSoc ≤ ops.soc b.bat)) (decide (a.desiredSoc ≤ ops.soc a.bat))
  | .needy => decide ((b.desiredSoc - ops.soc b.bat) * ops.capacity b.bat
                        < (a.desiredSoc - ops.soc a.bat) * ops.capacity a.bat)
  | _ => tup (decide (ops.soc b.bat < b.desiredSoc)) (decide (ops.soc a.bat < a.desiredSoc))

/-- `sorted([v for v in vehicles.values() if <pred>], key=self.sort_key)` (stable).
Keys containing `None` (`estimated_time_of_departure` of a connected vehicle) with more than one
element are outside the model: which comparisons `sorted` performs decides whether Python raises. -/
def sortedVehicles (ops : BatOps α B) (strat : LoadStrat) (vs : List (VehicleS α B)) :
    FPy (List (VehicleS α B)) :=
  let usesEtd := match strat with | .needy => false | _ => true
  -- `__init__` defines `self.sort_key` only for greedy / needy / balanced
  if strat == .other then .error .attributeError
  else if usesEtd && decide (1 < vs.length) && vs.any (fun v => v.etd.isNone) then .error .unsupported
  else .ok (vs.mergeSort (fun a b => !(keyLt ops strat b a)))

/-- `list(self.world_state.grid_connectors.values())[0]` -/
def theGc (w : SWorld α B) : FPy (GcS α) :=
  match w.gcs with
  | [] => .error (.py .indexError)
  | g :: _ => .ok g

def getStation (w : SWorld α B) (id : String) : FPy (StationS α) :=
  match w.station? id with
  | none => .error (.py .keyError)
  | some cs => .ok cs

/-- `timesteps[0][field] += x` helpers -/
def addTotal0 (ts : List (TS α)) (x : α) : List (TS α) :=
  match ts with
  | [] => []
  | t :: rest => { t with totalLoad := t.totalLoad + x } :: rest
def subTotal0 (ts : List (TS α)) (x : α) : List (TS α) :=
  match ts with
  | [] => []
  | t :: rest => { t with totalLoad := t.totalLoad - x } :: rest

/-- `new_timesteps`: the rows of the filtered list whose `timestep_idx` equals their position -/
def idxPrefix : Nat → List (TS α) → List (TS α)
  | _, [] => []
  | i, t :: rest => if t.idx == i then t :: idxPrefix (i + 1) rest else []

/-! ### LOAD_STRAT balanced: vehicles -/

/-- first simulation of `distribute_balanced_vehicles`: full power in every window timestep -/
def windowPass (ops : BatOps α B) (env : FEnv α) (cs : StationS α) (v : VehicleS α B) :
    B → Int → List (TS α) → FPy B
  | bat, _, [] => .ok bat
  | bat, t, ts :: rest =>
    let t := t + env.base.interval
    match v.etd with
    | none => .error (.py .typeError)
    | some etd =>
      if etd ≤ t then .ok bat
      else if truthy ts.window then do
        let p := clampV ts.power cs v
        let r ← ops.load bat (some p) none none
        windowPass ops env cs v r.1 t rest
      else windowPass ops env cs v bat t rest

/-- the `for ts_idx, ts_info in enumerate(timesteps)` loop inside the bisection:
state (sim battery, power_vec, safe); returns (power_vec, safe) -/
def balSim (ops : BatOps α B) (env : FEnv α) (cs : StationS α) (v : VehicleS α B)
    (ciw : Bool) (power : α) (n : Nat) :
    B → Int → Nat → List (TS α) → List α → Bool → FPy (List α × Bool)
  | _, _, _, [], pv, safe => .ok (pv, safe)
  | bat, t, i, ts :: rest, pv, safe =>
    let t := t + env.base.interval
    match v.etd with
    | none => .error (.py .typeError)
    | some etd =>
      if etd ≤ t then .ok (pv, safe)
      else do
        let r ← (if ts.window == some ciw then
              ops.load bat (some (clampV (pymin power ts.power) cs v)) none none
            else if !ciw && truthy ts.window then
              ops.load bat (some (clampV ts.power cs v)) none none
            else (.ok (bat, 0) : Py (B × α)))
        let pv := pv.set i r.2
        let safe := decide (v.desiredSoc - ops.soc r.1 ≤ env.base.eps)
        if safe then .ok (pv.take (i + 1) ++ List.replicate (n - i - 1) 0, true)
        else balSim ops env cs v ciw power n r.1 t (i + 1) rest pv safe

/-- loop variables of the power bisection: `power` (Python variable, survives), `power_vec`, `safe` -/
structure BalSt (α : Type) where
  power : Option α
  pv : List α
  safe : Bool

/-- body of `for vehicle in vehicles` in `distribute_balanced_vehicles`;
`power` is the Python variable of the previous iteration (`none` = unbound) -/
def balVehicle (ops : BatOps α B) (env : FEnv α)
    (acc : FState α B × List (String × α) × Option α) (v0 : VehicleS α B) :
    FPy (FState α B × List (String × α) × Option α) := do
  let st := acc.1
  let v := (st.w.vehicle? v0.id).getD v0
  match v.cs with
  | none => .ok acc
  | some csId =>
    let cs ← getStation st.w csId
    let t0 := env.base.now - env.base.interval
    let simBat ← windowPass ops env cs v v.bat t0 st.ts
    let ciw := decide (v.desiredSoc - ops.soc simBat ≤ env.base.eps)
    let maxPower := clampV cs.maxPower cs v
    let safe0 := decide (v.desiredSoc - ops.soc v.bat ≤ env.base.eps)
    let n := st.ts.length
    let body (mid : α) (s : BalSt α) : FPy (Bool × BalSt α) := do
      let r ← balSim ops env cs v ciw mid n v.bat t0 0 st.ts s.pv s.safe
      .ok (r.2, ⟨some mid, r.1, r.2⟩)
    let fin ← bisectM env.base.eps body env.fuel 0 maxPower ⟨acc.2.2, List.replicate n 0, safe0⟩
    let gc ← theGc st.w
    let head := gc.curMax - gc.currentLoad
    match fin.power with
    | none => .error .unboundLocal
    | some pw =>
      let power := pymin head pw
      let p : α := if truthy st.window then (if ciw then power else gc.curMax - gc.currentLoad)
                   else (if ciw then 0 else power)
      let p := clampV p cs v
      let r ← ops.load v.bat (some p) none none
      let (gc', val) := gc.addLoad csId r.2
      let w := (st.w.setVehicle { v with bat := r.1 }).setGc gc'
      let w := w.setStation { cs with currentPower := cs.currentPower + r.2 }
      let ts := (st.ts.zip fin.pv).map (fun tp => { tp.1 with power := tp.1.power - tp.2 })
      .ok ({ st with w := w, ts := ts }, sdSet acc.2.1 csId val, some power)

/-- `distribute_balanced_vehicles(timesteps)` ↦ (state', commands) -/
def distributeBalancedVehicles (ops : BatOps α B) (env : FEnv α) (st : FState α B) :
    FPy (FState α B × List (String × α)) := do
  let vs ← sortedVehicles ops env.strat (st.w.vehicles.filter (fun v => v.cs.isSome))
  let r ← vs.foldlM (balVehicle ops env) (st, [], none)
  .ok (r.1, r.2.1)

/-! ### surplus passes of this class -/

/-- `distribute_surplus_to_vehicles()` -/
def surplusToVehicles (ops : BatOps α B) (env : FEnv α) (w : SWorld α B) :
    FPy (SWorld α B × List (String × α)) :=
  w.vehicles.foldlM (fun (acc : SWorld α B × List (String × α)) v0 => do
    let w := acc.1
    let v := (w.vehicle? v0.id).getD v0
    match v.cs with
    | none => .ok acc
    | some csId =>
      let cs ← getStation w csId
      match w.gc? cs.parent with
      | none => .error (.py .keyError)
      | some gc =>
        let surplus := -gc.currentLoad
        let power := clampV surplus cs v
        let r ← ops.load v.bat (some power) none none
        let (gc', val) := gc.addLoad csId r.2
        let w := (w.setVehicle { v with bat := r.1 }).setGc gc'
        let w := w.setStation { cs with currentPower := cs.currentPower + r.2 }
        .ok (w, sdSet acc.2 csId val)) (w, [])

/-- `load_surplus_to_batteries()` -/
def surplusToBatteries (ops : BatOps α B) (env : FEnv α) (w : SWorld α B) : FPy (SWorld α B) :=
  w.batteries.foldlM (fun (w : SWorld α B) b0 => do
    let b := (w.batteries.find? (·.id == b0.id)).getD b0
    match w.gc? b.parent with
    | none => .error (.py .keyError)
    | some gc =>
      let power := -gc.currentLoad
      let power := if power < b.minChargingPower then 0 else power
      let r ← ops.load b.bat (some power) none none
      .ok ((w.setBattery { b with bat := r.1 }).setGc (gc.addLoad b.id r.2).1)) w

/-! ### LOAD_STRAT balanced: stationary batteries -/

/-- `for b in sim_batteries:` of one simulated timestep (with its `break`); `bs` = batteries still
to visit, `done` = visited (reversed) -/
def balBatInner (ops : BatOps α B) (env : FEnv α) (cw : Bool) (total : α) (nb : Nat) :
    List (StatBatS α B) → List (StatBatS α B) → FPy (List (StatBatS α B))
  | done, [] => .ok done.reverse
  | done, b :: rest =>
    let stop := if cw then decide (1 - env.base.eps < ops.soc b.bat)
                else decide (ops.soc b.bat < 0 + env.base.eps)
    if stop then .ok (done.reverse ++ b :: rest)
    else
      let batPower : α := if total < b.minChargingPower then 0 else total
      if 0 < batPower then do
        let p := batPower / (nb : α)
        let r ← (if cw then ops.load b.bat (some p) none none else ops.unload b.bat (some p) none none)
        balBatInner ops env cw total nb ({ b with bat := r.1 } :: done) rest
      else balBatInner ops env cw total nb (b :: done) rest

/-- `distribute_balanced_batteries(timesteps)` -/
def distributeBalancedBatteries (ops : BatOps α B) (env : FEnv α) (st : FState α B) :
    FPy (FState α B) := do
  let gc ← theGc st.w
  let batteries := st.w.batteries
  let cw := truthy st.window
  let nb := batteries.length
  let windowTs := st.ts.filter (fun t => t.window == st.window)
  let newTs := idxPrefix 0 windowTs
  let eps := env.base.eps
  let body (mid : α) (_ : α) : FPy (Bool × α) := do
    let sim ← newTs.foldlM (fun (sim : List (StatBatS α B)) _ => balBatInner ops env cw mid nb [] sim)
      batteries
    let atLimit := if cw then sim.all (fun b => decide (1 - eps ≤ ops.soc b.bat))
                   else sim.all (fun b => decide (ops.soc b.bat ≤ 0 + eps))
    .ok (atLimit, mid)
  -- repair FW3: when discharging, `max_power = min(max_power, cur_max + load)` (feed-in headroom)
  let hi : α := if cw then gc.curMax - gc.currentLoad
                else pymin (gc.curMax - gc.currentLoad) (gc.curMax + gc.currentLoad)
  let total ← bisectM eps body env.fuel (-gc.curMax) hi (0 : α)
  -- actual charge / discharge
  batteries.foldlM (fun (st : FState α B) b0 => do
    let b := (st.w.batteries.find? (·.id == b0.id)).getD b0
    let gc ← theGc st.w
    if cw then
      let avail : α := if total < b.minChargingPower then 0 else total
      let p := avail / (nb : α)
      if 0 < avail then do
        let r ← ops.load b.bat (some p) none none
        let w := (st.w.setBattery { b with bat := r.1 }).setGc (gc.addLoad b.id r.2).1
        .ok { st with w := w, ts := addTotal0 st.ts r.2 }
      else .ok st
    else do
      let r ← (if total < 0 then (.ok (b.bat, 0) : Py (B × α))
               else ops.unload b.bat (some (total / (nb : α))) none none)
      let w := (st.w.setBattery { b with bat := r.1 }).setGc (gc.addLoad b.id (-r.2)).1
      .ok { st with w := w, ts := subTotal0 st.ts r.2 }) st

/-! ### V2G passes: shared pieces -/

/-- `for ts_info in timesteps:` collecting `connected_timesteps`; returns
(connected, window, window_change, cur_time) -/
def connectedLoop (env : FEnv α) (etd : Option Int) :
    Int → Option Bool → Nat → List (TS α) → List (TS α) → FPy (List (TS α) × Option Bool × Nat × Int)
  | t, win, wc, acc, [] => .ok (acc.reverse, win, wc, t)
  | t, win, wc, acc, ts :: rest =>
    let t := t + env.base.interval
    match etd with
    | none => .error (.py .typeError)
    | some e =>
      if e < t then .ok (acc.reverse, win, wc, t)
      else if ts.window != win then connectedLoop env etd t ts.window (wc + 1) (ts :: acc) rest
      else connectedLoop env etd t win wc (ts :: acc) rest

/-- the discharge-limit bisection (`min_soc`, `max_soc`); `chargeP ts` is the charging call's
`max_power` in a window timestep (differs between the two V2G passes) -/
def dlBisect (ops : BatOps α B) (env : FEnv α) (cs : StationS α) (v : VehicleS α B)
    (chargeP : TS α → α) (connected : List (TS α)) (dl0 : Option α) : FPy (Option α) :=
  let maxDis := ops.unloadMaxPower v.bat
  let body (mid : α) (_ : Option α) : FPy (Bool × Option α) := do
    let bat ← connected.foldlM (fun (bat : B) ts => do
      if truthy ts.window then
        let r ← ops.load bat (some (chargeP ts)) none none
        pure r.1
      else
        let r ← ops.unload bat (some (pymin cs.maxPower maxDis)) (some mid) none
        pure r.1) v.bat
    -- `if soc <= desired - EPS: min_soc = mid else: max_soc = mid`
    .ok (!(decide (ops.soc bat ≤ v.desiredSoc - env.base.eps)), some mid)
  bisectM env.base.eps body env.fuel v.dischargeLimit 1 dl0

/-- the `discharge_limit` logic in front of the power search; `none` in the result = `break` -/
def dischargeLimit (ops : BatOps α B) (env : FEnv α) (cs : StationS α) (v : VehicleS α B)
    (chargeP : TS α → α) (cw : Bool) (connected : List (TS α)) (wc : Nat) (dl : Option α) :
    FPy (Option α × Bool) := do
  let dl ← (if !cw && decide (1 ≤ wc) then dlBisect ops env cs v chargeP connected dl
            else if !cw && wc == 0 then (.ok (some v.desiredSoc) : FPy (Option α))
            else .ok dl)
  if !cw then
    match dl with
    | none => .error .unboundLocal
    | some d => .ok (dl, decide (ops.soc v.bat ≤ d))
  else .ok (dl, false)

/-! ### LOAD_STRAT balanced: V2G -/

/-- simulated timesteps of the V2G power search -/
def balV2gSim (ops : BatOps α B) (env : FEnv α) (cs : StationS α) (v : VehicleS α B)
    (cw : Bool) (dl : Option α) (total : α) : B → List (TS α) → FPy B
  | bat, [] => .ok bat
  | bat, _ :: rest =>
    let maxDis := ops.unloadMaxPower v.bat
    if cw then
      if 1 - env.base.eps ≤ ops.soc bat then .ok bat
      else if 0 < total then do
        let r ← ops.load bat (some (clampV total cs v)) none none
        balV2gSim ops env cs v cw dl total r.1 rest
      else balV2gSim ops env cs v cw dl total bat rest
    else
      match dl with
      | none => .error .unboundLocal
      | some d =>
        if ops.soc bat < d + env.base.eps then .ok bat
        else if 0 < total then do
          let power := pymin (clampV total cs v) maxDis
          let r ← ops.unload bat (some power) (some d) none
          balV2gSim ops env cs v cw dl total r.1 rest
        else balV2gSim ops env cs v cw dl total bat rest

/-- loop state of `for vehicle in vehicles` in the V2G passes -/
structure V2gAcc (α B : Type) where
  st : FState α B
  cmds : List (String × α)
  window : Option Bool          -- Python variable `window`
  dl : Option α                 -- Python variable `discharge_limit`
  curTime : Int                 -- Python variable `cur_time` (peak-shaving pass only)
  stop : Bool                   -- `break` was executed

def balV2gVehicle (ops : BatOps α B) (env : FEnv α) (curWindow : Option Bool)
    (acc : V2gAcc α B) (v0 : VehicleS α B) : FPy (V2gAcc α B) := do
  if acc.stop then return acc
  let st := acc.st
  let v := (st.w.vehicle? v0.id).getD v0
  match v.cs with
  | none => .ok acc
  | some csId =>
    let cs ← getStation st.w csId
    let cw := truthy curWindow
    let maxDis := ops.unloadMaxPower v.bat
    let (connected, win, wc, _) ←
      connectedLoop env v.etd (env.base.now - env.base.interval) acc.window 0 [] st.ts
    let chargeP (ts : TS α) : α := clampV (ts.power + ts.fixedLoad - ts.totalLoad) cs v
    let (dl, brk) ← dischargeLimit ops env cs v chargeP cw connected wc acc.dl
    if brk then return { acc with window := win, dl := dl, stop := true }
    let windowTs := connected.filter (fun t => t.window == curWindow)
    let newTs := idxPrefix 0 windowTs
    let gc ← theGc st.w
    let maxPower := if cw then pymin cs.maxPower (gc.curMax - gc.currentLoad)
                    else pymin cs.maxPower (gc.curMax + gc.currentLoad)
    let eps := env.base.eps
    let body (mid : α) (_ : α) : FPy (Bool × α) := do
      let bat ← balV2gSim ops env cs v cw dl mid v.bat newTs
      .ok (decide (1 - eps ≤ ops.soc bat), mid)
    let total ← bisectM eps body env.fuel 0 maxPower (0 : α)
    if cw then
      let r ← (if total ≤ 0 then (.ok (v.bat, 0) : Py (B × α))
               else ops.load v.bat (some (clampV total cs v)) none none)
      let (gc', val) := gc.addLoad csId r.2
      let w := (st.w.setVehicle { v with bat := r.1 }).setGc gc'
      let w := w.setStation { cs with currentPower := cs.currentPower + r.2 }
      .ok { acc with st := { st with w := w, ts := addTotal0 st.ts r.2 },
                     cmds := sdSet acc.cmds csId val, window := win, dl := dl }
    else
      match dl with
      | none => .error .unboundLocal
      | some d =>
        let r ← (if total ≤ 0 then (.ok (v.bat, 0) : Py (B × α))
                 else ops.unload v.bat (some (pymin (clampV total cs v) maxDis)) (some d) none)
        let (gc', val) := gc.addLoad csId (-r.2)
        let w := (st.w.setVehicle { v with bat := r.1 }).setGc gc'
        let w := w.setStation { cs with currentPower := cs.currentPower - r.2 }
        .ok { acc with st := { st with w := w, ts := subTotal0 st.ts r.2 },
                       cmds := sdSet acc.cmds csId val, window := win, dl := dl }

/-- `distribute_balanced_v2g(timesteps)` -/
def distributeBalancedV2g (ops : BatOps α B) (env : FEnv α) (st : FState α B) :
    FPy (FState α B × List (String × α)) := do
  let vs ← sortedVehicles ops env.strat (st.w.vehicles.filter (fun v => v.cs.isSome && v.v2g))
  match st.ts with
  | [] => .error (.py .indexError)
  | t0 :: _ =>
    let r ← vs.foldlM (balV2gVehicle ops env t0.window) ⟨st, [], t0.window, none, 0, false⟩
    .ok (r.st, r.cmds)

/-! ### LOAD_STRAT greedy / needy: vehicles -/

/-- `v.get_energy_needed(full=True)` -/
@[inline] def energyNeededFull (ops : BatOps α B) (b : B) : α :=
  pymax (1 - ops.soc b) 0 * ops.capacity b

/-- `distribute_power(vehicles, total_power, total_needed)` on a list of vehicle values; stations are
read from the world (they are not changed here).  Returns the vehicles after charging and the
commands dict. -/
def distributePower (ops : BatOps α B) (env : FEnv α) (w : SWorld α B)
    (vs : List (VehicleS α B)) (totalPower totalNeeded : α) :
    FPy (List (VehicleS α B) × List (String × α)) :=
  if totalPower ≤ 0 ∨ totalNeeded ≤ 0 then .ok (vs, [])
  else do
    -- the third component is the Python variable `total_power` (repair FW4: greedy subtracts what a vehicle took)
    let r ← vs.foldlM (fun (acc : List (VehicleS α B) × List (String × α) × α) v => do
      match v.cs with
      | none => .error (.py .keyError)          -- `charging_stations[None]`
      | some csId =>
        let cs ← getStation w csId
        let power ← (match env.strat with
          | .greedy => (.ok acc.2.2 : FPy α)
          | .needy =>
            let f : α := if 0 < totalNeeded then energyNeededFull ops v.bat / totalNeeded else 0
            .ok (f * acc.2.2)
          | _ => .error .notImplemented)
        let power := clampV power cs v
        let r ← ops.load v.bat (some power) none none
        let total' : α := if env.strat == .greedy then acc.2.2 - r.2 else acc.2.2
        .ok (acc.1 ++ [{ v with bat := r.1 }], sdSet acc.2.1 csId r.2, total')) ([], [], totalPower)
    .ok (r.1, r.2.1)

/-- put the vehicles of `upd` (matched by id) into `sim` -/
def mergeById (sim upd : List (VehicleS α B)) : List (VehicleS α B) :=
  sim.map (fun v => (upd.find? (·.id == v.id)).getD v)

/-- first look-ahead of `distribute_peak_shaving_vehicles`: all vehicles charge with the full
forecast power in window timesteps; `cur` = ids still considered -/
def psWindowPass (ops : BatOps α B) (env : FEnv α) (w : SWorld α B) :
    List (VehicleS α B) → List String → Int → List (TS α) → FPy (List (VehicleS α B))
  | sim, _, _, [] => .ok sim
  | sim, cur, t, ts :: rest => do
    let t := t + env.base.interval
    let curVs := sim.filter (fun v => cur.contains v.id)
    -- `[v for v in cur_vehicles if (v.etd > cur_time) and (v.battery.soc < v.desired_soc)]`
    let curVs ← curVs.filterM (fun v => match v.etd with
      | none => (.error (.py .typeError) : FPy Bool)
      | some e => .ok (decide (t < e) && decide (ops.soc v.bat < v.desiredSoc)))
    let needed := env.sum (curVs.map (fun v => energyNeededFull ops v.bat))
    if curVs.isEmpty || decide (needed < env.base.eps) then .ok sim
    else if truthy ts.window then do
      let r ← distributePower ops env w curVs ts.power needed
      psWindowPass ops env w (mergeById sim r.1) (curVs.map (·.id)) t rest
    else psWindowPass ops env w sim (curVs.map (·.id)) t rest

/-- `for v in cur_vehicles:` with its `elif … break` inside the power search -/
def psSelect (ops : BatOps α B) (env : FEnv α) (t : Int) :
    List (VehicleS α B) → List (VehicleS α B) → FPy (List (VehicleS α B))
  | acc, [] => .ok acc.reverse
  | acc, v :: rest =>
    match v.etd with
    | none => .error (.py .typeError)
    | some e =>
      if decide (t < e) && decide (ops.soc v.bat < v.desiredSoc) then psSelect ops env t (v :: acc) rest
      else if env.base.eps < v.desiredSoc - ops.soc v.bat then .ok acc.reverse
      else psSelect ops env t acc rest

/-- simulated timesteps of the total-power search -/
def psSim (ops : BatOps α B) (env : FEnv α) (w : SWorld α B) (total : α) :
    List (VehicleS α B) → List String → Int → List (TS α) → FPy (List (VehicleS α B))
  | sim, _, _, [] => .ok sim
  | sim, cur, t, ts :: rest => do
    let t := t + env.base.interval
    let curVs ← psSelect ops env t [] (sim.filter (fun v => cur.contains v.id))
    let needed := env.sum (curVs.map (fun v => energyNeededFull ops v.bat))
    if curVs.isEmpty || decide (needed < env.base.eps) then .ok sim
    else do
      let r ← distributePower ops env w curVs (total - ts.fixedLoad) needed
      psSim ops env w total (mergeById sim r.1) (curVs.map (·.id)) t rest

/-- `distribute_peak_shaving_vehicles(timesteps)` -/
def distributePeakShavingVehicles (ops : BatOps α B) (env : FEnv α) (st : FState α B) :
    FPy (FState α B × List (String × α)) := do
  let gc ← theGc st.w
  let vehicles ← sortedVehicles ops env.strat (st.w.vehicles.filter (fun v => v.cs.isSome))
  let t0 := env.base.now - env.base.interval
  let ids := vehicles.map (·.id)
  let sim ← psWindowPass ops env st.w vehicles ids t0 st.ts
  let eps := env.base.eps
  let ciw := sim.all (fun v => decide (v.desiredSoc - ops.soc v.bat < eps))
  let newTs := st.ts.filter (fun t => t.window == some ciw)
  let body (mid : α) (_ : Option α) : FPy (Bool × Option α) := do
    let sim ← psSim ops env st.w mid vehicles ids t0 newTs
    .ok (sim.all (fun v => decide (v.desiredSoc - ops.soc v.bat < eps)), some mid)
  let total ← bisectM eps body env.fuel (-gc.curMax) gc.curMax (none : Option α)
  let needed := env.sum (vehicles.map (fun v => energyNeededFull ops v.bat))
  let (vs', cmds) ← (if st.window == some ciw then
      match total with
      | none => (.error .unboundLocal : FPy _)
      | some tp => distributePower ops env st.w vehicles (tp - gc.currentLoad) needed
    else if !ciw && truthy st.window then
      distributePower ops env st.w vehicles (gc.curMax - gc.currentLoad) needed
    else .ok (vehicles, []))
  let w := { st.w with vehicles := mergeById st.w.vehicles vs' }
  -- `for cs_id, power in commands.items():`
  cmds.foldlM (fun (acc : FState α B × List (String × α)) kv => do
    let st := acc.1
    let cs ← getStation st.w kv.1
    let gc ← theGc st.w
    let (gc', val) := gc.addLoad kv.1 kv.2
    let ts := match st.ts with
      | [] => []
      | t :: rest => { t with vLoad := t.vLoad + kv.2, totalLoad := t.totalLoad + kv.2 } :: rest
    -- `assert commands[cs_id] == old_power`
    if !(decide (val ≤ kv.2) && decide (kv.2 ≤ val)) then .error (.py .assertion)
    else
      let w := (st.w.setGc gc').setStation { cs with currentPower := cs.currentPower + val }
      .ok ({ st with w := w, ts := ts }, sdSet acc.2 kv.1 val)) ({ st with w := w }, cmds)

/-! ### LOAD_STRAT greedy / needy: V2G -/

/-- charging search of `distribute_peak_shaving_v2g`; returns (battery, cur_time) -/
def psV2gChargeSim (ops : BatOps α B) (env : FEnv α) (cs : StationS α) (v : VehicleS α B)
    (total : α) : B → Int → List (TS α) → FPy (B × Int)
  | bat, t, [] => .ok (bat, t)
  | bat, t, ts :: rest =>
    let t := t + env.base.interval
    let avail := total - ts.totalLoad
    if 1 ≤ ops.soc bat then .ok (bat, t)
    else if 0 < avail then do
      let avail : α := if avail < v.minChargingPower then 0 else avail
      let r ← ops.load bat (some (clampV avail cs v)) none none
      psV2gChargeSim ops env cs v total r.1 t rest
    else psV2gChargeSim ops env cs v total bat t rest

/-- discharging search of `distribute_peak_shaving_v2g` -/
def psV2gDischargeSim (ops : BatOps α B) (env : FEnv α) (cs : StationS α) (v : VehicleS α B)
    (d total : α) : B → Int → List (TS α) → FPy (B × Int)
  | bat, t, [] => .ok (bat, t)
  | bat, t, ts :: rest =>
    let t := t + env.base.interval
    let needed := (ts.fixedLoad + ts.vLoad) - total
    if ops.soc bat ≤ d then .ok (bat, t)
    else if 0 < needed then do
      -- repair FW2: `min(cur_needed_power, max_discharge_power, cs.max_power)`
      let r ← ops.unload bat (some (pymin (pymin needed (ops.unloadMaxPower v.bat)) cs.maxPower)) (some d) none
      psV2gDischargeSim ops env cs v d total r.1 t rest
    else psV2gDischargeSim ops env cs v d total bat t rest

def psV2gVehicle (ops : BatOps α B) (env : FEnv α) (curWindow : Option Bool)
    (acc : V2gAcc α B) (v0 : VehicleS α B) : FPy (V2gAcc α B) := do
  if acc.stop then return acc
  let st := acc.st
  let v := (st.w.vehicle? v0.id).getD v0
  match v.cs with
  | none => .error (.py .keyError)
  | some csId =>
    let cs ← getStation st.w csId
    let cw := truthy curWindow
    let maxDis := ops.unloadMaxPower v.bat
    let (connected, _, wc, curTime) ← connectedLoop env v.etd acc.curTime curWindow 0 [] st.ts
    let chargeP (_ : TS α) : α := cs.maxPower
    let (dl, brk) ← dischargeLimit ops env cs v chargeP cw connected wc acc.dl
    if brk then return { acc with dl := dl, curTime := curTime, stop := true }
    let gc ← theGc st.w
    let eps := env.base.eps
    let t0 := env.base.now - env.base.interval
    if cw then
      let windowTs := st.ts.filter (fun t => t.window == some true)
      let body (mid : α) (s : Option α × Int) : FPy (Bool × (Option α × Int)) := do
        let r ← psV2gChargeSim ops env cs v mid v.bat t0 windowTs
        .ok (decide (1 - eps ≤ ops.soc r.1), (some mid, r.2))
      let (total, curTime) ← bisectM eps body env.fuel (-gc.curMax) gc.curMax (none, curTime)
      match total with
      | none => .error .unboundLocal
      | some tp =>
        match windowTs with
        | [] => .error (.py .indexError)
        | wt0 :: _ =>
          let avail := tp - wt0.totalLoad
          -- repair FW5: the current step is bounded by the actual headroom
          let avail := pymin avail (gc.curMax - gc.currentLoad)
          let avail : α := if avail < v.minChargingPower then 0 else avail
          -- repair FW1: `clamp_power` before charging
          let avail := clampV avail cs v
          let r ← ops.load v.bat (some avail) none none
          let (gc', val) := gc.addLoad csId r.2
          let w := (st.w.setVehicle { v with bat := r.1 }).setGc gc'
          let w := w.setStation { cs with currentPower := cs.currentPower + r.2 }
          .ok { acc with st := { st with w := w, ts := addTotal0 st.ts r.2 },
                         cmds := sdSet acc.cmds csId val, dl := dl, curTime := curTime }
    else
      match dl with
      | none => .error .unboundLocal
      | some d =>
        let noWindowTs := st.ts.filter (fun t => t.window == some false)
        let body (mid : α) (s : Option α × Int) : FPy (Bool × (Option α × Int)) := do
          let r ← psV2gDischargeSim ops env cs v d mid v.bat t0 noWindowTs
          .ok (decide (d < ops.soc r.1), (some mid, r.2))
        let (total, curTime) ← bisectM eps body env.fuel (-gc.curMax) gc.curMax (none, curTime)
        match noWindowTs with
        | [] => .error (.py .indexError)
        | nt0 :: _ =>
          match total with
          | none => .error .unboundLocal
          | some tp =>
            let needed := nt0.totalLoad - tp
            -- repair FW5: the current step is bounded by the actual feed-in headroom
            let needed := pymin needed (gc.curMax + gc.currentLoad)
            let r ← (if needed < 0 then (.ok (v.bat, 0) : Py (B × α))
                     else ops.unload v.bat (some (pymin (pymin needed maxDis) cs.maxPower)) (some d) none)
            let (gc', val) := gc.addLoad csId (-r.2)
            let w := (st.w.setVehicle { v with bat := r.1 }).setGc gc'
            let w := w.setStation { cs with currentPower := cs.currentPower - r.2 }
            .ok { acc with st := { st with w := w, ts := subTotal0 st.ts r.2 },
                           cmds := sdSet acc.cmds csId val, dl := dl, curTime := curTime }

/-- `distribute_peak_shaving_v2g(timesteps)` -/
def distributePeakShavingV2g (ops : BatOps α B) (env : FEnv α) (st : FState α B) :
    FPy (FState α B × List (String × α)) := do
  let vs ← sortedVehicles ops env.strat (st.w.vehicles.filter (fun v => v.cs.isSome && v.v2g))
  match st.ts with
  | [] => .error (.py .indexError)
  | t0 :: _ =>
    let r ← vs.foldlM (psV2gVehicle ops env t0.window)
      ⟨st, [], t0.window, none, env.base.now - env.base.interval, false⟩
    .ok (r.st, r.cmds)

/-! ### LOAD_STRAT greedy / needy: stationary batteries -/

/-- `for b in sim_batteries:` of one simulated charging timestep; `avail` is `cur_avail_power` -/
def psBatChargeInner (ops : BatOps α B) (env : FEnv α) (nb : Nat) :
    α → List (StatBatS α B) → List (StatBatS α B) → FPy (List (StatBatS α B))
  | _, done, [] => .ok done.reverse
  | avail, done, b :: rest =>
    if 1 - env.base.eps < ops.soc b.bat then .ok (done.reverse ++ b :: rest)
    else
      let avail : α := if avail < b.minChargingPower then 0 else avail
      if 0 < avail then do
        let r ← ops.load b.bat (some (avail / (nb : α))) none none
        psBatChargeInner ops env nb avail ({ b with bat := r.1 } :: done) rest
      else psBatChargeInner ops env nb avail (b :: done) rest

def psBatDischargeInner (ops : BatOps α B) (env : FEnv α) (nb : Nat) (needed : α) :
    List (StatBatS α B) → List (StatBatS α B) → FPy (List (StatBatS α B))
  | done, [] => .ok done.reverse
  | done, b :: rest =>
    if ops.soc b.bat ≤ env.base.eps then .ok (done.reverse ++ b :: rest)
    else if 0 < needed then do
      let r ← ops.unload b.bat (some (needed / (nb : α))) none none
      psBatDischargeInner ops env nb needed ({ b with bat := r.1 } :: done) rest
    else psBatDischargeInner ops env nb needed (b :: done) rest

/-- `distribute_peak_shaving_batteries(timesteps)` -/
def distributePeakShavingBatteries (ops : BatOps α B) (env : FEnv α) (st : FState α B) :
    FPy (FState α B) := do
  let batteries := st.w.batteries              -- every StationaryBattery has a parent
  let gc ← theGc st.w
  let nb := batteries.length
  let eps := env.base.eps
  if truthy st.window then
    let newTs := idxPrefix 0 (st.ts.filter (fun t => truthy t.window))
    let body (mid : α) (_ : Option α) : FPy (Bool × Option α) := do
      let sim ← newTs.foldlM (fun (sim : List (StatBatS α B)) ts =>
        psBatChargeInner ops env nb (mid - ts.totalLoad) [] sim) batteries
      .ok (sim.all (fun b => decide (1 - eps ≤ ops.soc b.bat)), some mid)
    let total ← bisectM eps body env.fuel (-gc.curMax) gc.curMax (none : Option α)
    match total, st.ts with
    | none, _ => .error .unboundLocal
    | _, [] => .error (.py .indexError)
    | some tp, t0 :: _ =>
      let r ← batteries.foldlM (fun (acc : FState α B × α) b0 => do
        let st := acc.1
        let b := (st.w.batteries.find? (·.id == b0.id)).getD b0
        let avail : α := if acc.2 < b.minChargingPower then 0 else acc.2
        if 0 < avail then
          let gc ← theGc st.w
          let r ← ops.load b.bat (some (avail / (nb : α))) none none
          let w := (st.w.setBattery { b with bat := r.1 }).setGc (gc.addLoad b.id r.2).1
          .ok ({ st with w := w, ts := addTotal0 st.ts r.2 }, avail)
        else .ok (st, avail)) (st, pymin (tp - t0.totalLoad) (gc.curMax - gc.currentLoad))
      .ok r.1
  else
    let newTs := idxPrefix 0 (st.ts.filter (fun t => !truthy t.window))
    let body (mid : α) (_ : Option α) : FPy (Bool × Option α) := do
      let sim ← newTs.foldlM (fun (sim : List (StatBatS α B)) ts =>
        psBatDischargeInner ops env nb (ts.totalLoad - mid) [] sim) batteries
      .ok (sim.all (fun b => decide (eps < ops.soc b.bat)), some mid)
    let total ← bisectM eps body env.fuel (-gc.curMax) gc.curMax (none : Option α)
    match st.ts, total with
    | [], _ => .error (.py .indexError)
    | _, none => .error .unboundLocal
    | t0 :: _, some tp =>
      let needed := pymin (t0.totalLoad - tp) (gc.curMax + gc.currentLoad)
      batteries.foldlM (fun (st : FState α B) b0 => do
        let b := (st.w.batteries.find? (·.id == b0.id)).getD b0
        let gc ← theGc st.w
        let r ← (if needed < 0 then (.ok (b.bat, 0) : Py (B × α))
                 else ops.unload b.bat (some (needed / (nb : α))) none none)
        let w := (st.w.setBattery { b with bat := r.1 }).setGc (gc.addLoad b.id (-r.2)).1
        .ok { st with w := w, ts := subTotal0 st.ts r.2 }) st

/-! ### `step` -/

/-- `FlexWindow.step()` ↦ (world', gc.window', commands) -/
def step (ops : BatOps α B) (env : FEnv α) (w : SWorld α B) (window : Option Bool)
    (events : List (FEvent α)) : FPy (SWorld α B × Option Bool × List (String × α)) := do
  let gc ← theGc w
  let w := resetStations w
  let ts ← forecast env gc window events
  match ts with
  | [] => .error (.py .indexError)            -- `timesteps[0]`
  | t0 :: _ =>
    let st : FState α B := ⟨w, t0.window, ts⟩
    let eps := env.base.eps
    if env.strat == .balanced then
      let (st, cmds) ← distributeBalancedVehicles ops env st
      let gc ← theGc st.w
      let (st, cmds, loadedV2g) ← (if eps < -gc.currentLoad then do
          let (w, c2) ← surplusToVehicles ops env st.w
          pure ({ st with w := w }, sdUpdate cmds c2, false)
        else do
          let (st, c2) ← distributeBalancedV2g ops env st
          pure (st, sdUpdate cmds c2, !c2.isEmpty) : FPy (FState α B × List (String × α) × Bool))
      let gc ← theGc st.w
      let st ← (if gc.currentLoad < 0 ∧ loadedV2g = false then do
          let w ← surplusToBatteries ops env st.w
          pure { st with w := w }
        else distributeBalancedBatteries ops env st : FPy (FState α B))
      .ok (st.w, st.window, cmds)
    else
      let (st, cmds) ← distributePeakShavingVehicles ops env st
      let gc ← theGc st.w
      let (st, cmds, loadedV2g) ← (if eps < -gc.currentLoad then do
          let (w, c2) ← liftPy (distributeSurplus ops env.base st.w)
          pure ({ st with w := w }, sdUpdate cmds c2, false)
        else do
          let (st, c2) ← distributePeakShavingV2g ops env st
          pure (st, sdUpdate cmds c2, !c2.isEmpty) : FPy (FState α B × List (String × α) × Bool))
      let gc ← theGc st.w
      let st ← (if gc.currentLoad < 0 ∧ loadedV2g = false then do
          let w ← surplusToBatteries ops env st.w
          pure { st with w := w }
        else distributePeakShavingBatteries ops env st : FPy (FState α B))
      .ok (st.w, st.window, cmds)

end
end SpiceEv.FlexWindow
