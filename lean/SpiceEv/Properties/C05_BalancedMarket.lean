/-
C05 — charging-station power limits, for the strategy `balanced_market`
(model: Model/StratBalancedMarket.lean, tied to spice_ev/strategies/balanced_market.py step by step
at the bit level by harness/s_balanced_market.py).
-/
import SpiceEv.Proofs.StratBalancedMarket
import SpiceEv.Proofs.StratBalancedMarketToy
import SpiceEv.Proofs.StratBalancedMarketStation
set_option linter.unusedSectionVars false
namespace SpiceEv
open SpiceEv.BalancedMarket
variable {α B : Type} [Field α] [LinearOrder α] [IsStrictOrderedRing α]

/-- **balanced_market never drives a station beyond its maximum, in either direction.** For any
battery obeying `BatLaw` (a call never delivers more than the power it was given, nor a negative
amount), any number of connectors, stations, vehicles (V2G or not), stationary batteries, any
future events, prices, horizon: after `BalancedMarket.step` — price-ordered planning with its
simulations and power bisection, real charge of the current timestep, V2G search with real
discharge or compensating charge, forecast update, surplus pass, battery block — every station's
accumulated power lies in `[−max_power, +max_power]` (the concurrency-scaled maximum `≥ 0`). -/
theorem C05_balanced_market_station (ops : Ops α B) (law : BatLaw ops.toBatOps) (env : Env α)
    (w w' : SWorld α B) (cmds : List (String × α))
    (hmax : ∀ s ∈ w.stations, 0 ≤ s.maxPower)
    (h : BalancedMarket.step ops env w = .ok (w', cmds)) :
    ∀ s ∈ w'.stations, -s.maxPower ≤ s.currentPower ∧ s.currentPower ≤ s.maxPower :=
  step_WInv ops law env w w' cmds hmax h

/-- the same bound for one pass of the planning loop of one vehicle, whatever the order `sorted`:
the real charge of the current timestep is a clamped power, so the station stays within its maximum -/
theorem C05_balanced_market_plan_station (ops : Ops α B) (law : BatLaw ops.toBatOps) (env : Env α)
    (v : VehicleS α B) (ts : List (TS α)) (sorted : List (α × Nat)) (fuel : Nat) (st st' : VSt α B)
    (hs : -st.cs.maxPower ≤ st.cs.currentPower ∧ st.cs.currentPower ≤ st.cs.maxPower)
    (hp : ∀ x ∈ st.power, 0 ≤ x ∧ st.cs.currentPower + x ≤ st.cs.maxPower)
    (h : chargeLoop ops env v ts sorted fuel st = .ok st') :
    -st'.cs.maxPower ≤ st'.cs.currentPower ∧ st'.cs.currentPower ≤ st'.cs.maxPower :=
  chargeLoop_SInv ops law env v ts sorted fuel st st' hs hp h

/-- the V2G search (discharge at the dearest timesteps, compensating charge at cheaper ones) keeps the
station within `[−max_power, +max_power]`: the discharge noted for the current timestep is bounded by
`−(cs.max_power + cs.current_power)`, the compensating charge is a clamped power -/
theorem C05_balanced_market_v2g_station (ops : Ops α B) (law : BatLaw ops.toBatOps) (env : Env α)
    (v : VehicleS α B) (ts : List (TS α)) (sorted : List (α × Nat)) (k : Nat) (st st' : VSt α B)
    (hs : -st.cs.maxPower ≤ st.cs.currentPower ∧ st.cs.currentPower ≤ st.cs.maxPower)
    (h : v2gLoop ops env v ts sorted k st = .ok st') :
    -st'.cs.maxPower ≤ st'.cs.currentPower ∧ st'.cs.currentPower ≤ st'.cs.maxPower :=
  v2gLoop_SInv ops law env v ts sorted k st st' hs h

/-- **Only a station with a connected vehicle carries power.** With unique vehicle ids: after
`BalancedMarket.step` a station that is not the `connected_charging_station` of any vehicle has
`current_power = 0`. -/
theorem C05_balanced_market_only_connected_stations (ops : Ops α B) (law : BatLaw ops.toBatOps)
    (env : Env α) (w w' : SWorld α B) (cmds : List (String × α))
    (hnd : (w.vehicles.map (·.id)).Nodup)
    (h : BalancedMarket.step ops env w = .ok (w', cmds)) :
    ∀ s ∈ w'.stations, (∀ v ∈ w'.vehicles, v.cs ≠ some s.id) → s.currentPower = 0 :=
  step_conn ops law env w w' cmds hnd h

/-- **Without V2G capability nothing is discharged.** If no vehicle is V2G-capable, no station
carries negative power after `BalancedMarket.step` (the V2G search is the only place that discharges a
vehicle, and it is guarded by `vehicle.vehicle_type.v2g`). -/
theorem C05_balanced_market_no_v2g_no_discharge (ops : Ops α B) (law : BatLaw ops.toBatOps)
    (env : Env α) (w w' : SWorld α B) (cmds : List (String × α))
    (hnv : ∀ v ∈ w.vehicles, v.v2g = false)
    (h : BalancedMarket.step ops env w = .ok (w', cmds)) :
    ∀ s ∈ w'.stations, 0 ≤ s.currentPower :=
  step_nn ops law env w w' cmds hnv h

/-- **No second battery call without local surplus (partial).** The known finding
`C05:above_charging_curve:balanced_market:several_battery_calls_in_one_step` needs the surplus pass to
charge a vehicle that the planning pass has already charged in the same step.  The surplus pass acts
only on feed-in: with nobody discharging and a connector load of at least `−EPS` it leaves the whole
state as it is — so a vehicle's battery then sees at most the one real call of the planning pass
(`load(target_power = power[0])`, whose average power the battery itself bounds by its curve: C01).
Not proved: the curve bound itself (it is the battery's, C01), and the case with V2G discharge. -/
theorem C05_balanced_market_surplus_pass_idle_without_surplus_partial (ops : Ops α B) (env : Env α)
    (g g' : GSt α B) (vid : String) (hdis : g.dis = []) (hload : -env.eps ≤ g.gc.currentLoad)
    (h : surplusBody ops env g vid = .ok g') : g' = g :=
  surplusBody_idle ops env g g' vid hdis hload h

/-- Non-vacuity: in the flat-price world (load 4 kW ≥ −EPS) the surplus pass changes nothing. -/
example :
    let g : GSt ℚ ℚ := ⟨toyWorld false (1/2), toyGc, [], [], []⟩
    (surplusBody toyOps (toyEnv none) g "v1").toOption.map (fun r => (r.cmds, r.gc.loads)) =
      some ([], [("load", 4)]) := by decide +kernel

/-- Non-vacuity of the two: a second, unused station stays at 0 while the connected one charges. -/
example :
    (BalancedMarket.step toyOps (toyEnv none)
      ⟨[toyGc], [toyCs, ⟨"CS2", "GC", 11, 0, 3⟩], [toyVeh false (1/2)], []⟩).toOption.map
      (fun r => r.1.stations.map (·.currentPower)) = some [1572813/1048576, 0] := by decide +kernel

/-- Non-vacuity (charging): flat price 0.30, vehicle at 0.5 wanting 0.8 within two steps on an 11 kW
station: the step charges `1572813/1048576 ≈ 1.5` kW now (balanced over both steps), within the
station maximum; the hypotheses of `C05_balanced_market_station` hold for this world. -/
example :
    (BalancedMarket.step toyOps (toyEnv none) (toyWorld false (1/2))).toOption.map
      (fun r => (r.2, r.1.stations.map (·.currentPower))) =
      some ([("CS1", 1572813/1048576)], [1572813/1048576]) := by decide +kernel

example : BatLaw toyOps.toBatOps ∧ ∀ s ∈ (toyWorld false (1/2)).stations, (0 : ℚ) ≤ s.maxPower :=
  ⟨toyLaw, by decide +kernel⟩

/-- Non-vacuity (discharging): V2G vehicle at 0.9 (desired 0.8, discharge limit 0.5), price 0.30 now
and 0.10 from the next step on: the step discharges 4 kW now (station power −4 ≥ −11). -/
example :
    (BalancedMarket.step toyOps (toyEnv (some (1/10))) (toyWorld true (9/10))).toOption.map
      (fun r => (r.2, r.1.stations.map (·.currentPower))) =
      some ([("CS1", -4)], [-4]) := by decide +kernel

end SpiceEv
