/-
MERGE-READY, NOT BUILT IN THIS WORKSPACE: needs Properties/C09_Run.lean (+ Model/StratRun.lean, Proofs/StratRun*.lean) of builder
`greedyrun` (/tmp/w3/greedyrun/verif). Verified to build, axioms propext / Classical.choice / Quot.sound only, in a scratch copy
(/tmp/w3/c14run/sub_merge/verif = this workspace + greedyrun's eight Lean files at his commit 929c611). After both are
merged: copy to lean/SpiceEv/Properties/C09_DistributedService.lean (C09's check picks it up through the `C09_*.lean` glob).

C09 for the distributed strategy — the service sentence itself, composed from
* `C09_distributed_standing_run_is_rule_run_partial` (Properties/C09_DistributedRun.lean): over a standing period the
  distributed run, seen at one connector, is `ruleStep` iterated on the connector's part of the world, and
* the service theorems of the iterated greedy / balanced step model (Properties/C09_Run.lean: `StratRun.runSteps`).
`DistRun.standSteps` and `StratRun.runSteps` are the same function (`standSteps_eq_runSteps`).
-/
import SpiceEv.Properties.C09_Run
import SpiceEv.Properties.C09_DistributedRun
set_option linter.unusedSectionVars false
set_option linter.unusedVariables false
namespace SpiceEv
open SpiceEv.Distrib SpiceEv.Frame SpiceEv.DistRun SpiceEv.StratRun
variable {α : Type} [Field α] [LinearOrder α] [IsStrictOrderedRing α]

/-- the two iterations are the same function -/
theorem C09_standSteps_eq_runSteps {B : Type} (rule : Rule) (ops : BatOps α B) :
    ∀ (ds : List (List (GcS α))) (env : StratEnv α) (w : SWorld α B),
      standSteps rule ops env w ds = runSteps rule ops env w ds := by
  intro ds
  induction ds with
  | nil => intro env w; rfl
  | cons d ds ih =>
    intro env w
    unfold standSteps runSteps
    simp only [StratRun.enter, StratRun.tick, tickEnv, ih]

/-- **Distributed at an opportunity connector: the greedy guarantee.** Over a standing period of the distributed run
(premises of `C14_distributed_run_is_delegated` for `kind = opps` and `Standing` with the greedy sub-strategy's options
`env`), for the vehicle of the connector that is served first (smallest id among the connector's vehicles), at prices
above the threshold: after the last step of the period its SoC in the DISTRIBUTED world is at least the smaller of the
desired SoC (minus the code's `EPS`) and the SoC reachable by charging at full available power throughout
(`fullGain`: per step `max(min(station maximum, curve cap, headroom of the connector), 0)`).
`_partial` as `C09_greedy_run_lower_partial`: vehicles served later, the minimum-power cut-off and cheap steps are excluded. -/
theorem C09_distributed_opps_greedy_lower_partial {B : Type} (σ : Sel) (dops : DOps α B) (law : BatLaw dops.bat)
    (top : α) (cap : B → α) (env : StratEnv α)
    (lin : LinearLoad dops.bat env.tsPerHour top cap) (heps : 0 ≤ env.eps) (ht : 0 < env.tsPerHour)
    (ins : List (StepIn α B)) (s : DState α B) (trace : List (DState α B × List (String × α)))
    (hs : StateOK σ .opps s) (hi : ∀ i ∈ ins, InOK σ i)
    (hst : Standing .opps .greedy env (ins.map (StepIn.restrict σ.g)))
    (v0 : VehicleS α B) (hveh : s.world.vehicle? v0.id = some v0) (hV : σ.V.contains v0.id = true)
    (hv : VehOk dops.bat top v0) (hvm : v0.minChargingPower = 0) (csId : String) (mx : α)
    (hcs : v0.cs = some csId) (hstn : StationIs (part σ s.world) csId σ.g mx)
    (rest : List String) (hfirst : sortedVehicleIds (part σ s.world) = v0.id :: rest)
    (hdear : ∀ i ∈ ins, Dear env (i.gcs.filter (fun x => x.id == σ.g)))
    (h : runD dops s ins = .ok trace) :
    ∃ soc, socOf dops.bat ((trace.map (fun r => r.1.world)).getLastD s.world) v0.id = some soc ∧
      min (v0.desiredSoc - env.eps)
        (dops.bat.soc v0.bat + fullGain dops.bat env.tsPerHour v0.bat mx (cap v0.bat) σ.g
          (ins.map (fun i => i.gcs.filter (fun x => x.id == σ.g)))) ≤ soc := by
  have h1 := C09_distributed_standing_run_is_rule_run_partial σ .opps .greedy dops law env ins s trace hs hi hst h
  rw [C09_standSteps_eq_runSteps] at h1
  have h2 := runLast_of_runSteps .greedy dops.bat _ env _ _ h1
  have hd : ∀ d ∈ ins.map (fun i => i.gcs.filter (fun x => x.id == σ.g)), Dear env d := by
    intro d hd
    obtain ⟨i, hi', rfl⟩ := List.mem_map.mp hd
    exact hdear i hi'
  obtain ⟨soc, hsoc, hle⟩ := C09_greedy_run_lower_partial dops.bat law top cap env lin heps ht (part σ s.world) v0
    (part_vehicle? σ _ _ _ hveh hV) hv hvm csId σ.g mx hcs hstn rest hfirst _ hd _ h2
  refine ⟨soc, ?_, hle⟩
  have hlast : (trace.map (fun r => part σ r.1.world)).getLastD (part σ s.world)
      = part σ ((trace.map (fun r => r.1.world)).getLastD s.world) := by
    have : trace.map (fun r => part σ r.1.world) = (trace.map (fun r => r.1.world)).map (part σ) := by
      rw [List.map_map]; rfl
    rw [this]
    generalize trace.map (fun r => r.1.world) = l
    generalize s.world = a
    induction l generalizing a with
    | nil => rfl
    | cons x xs ih => simp only [List.map_cons, List.getLastD_cons]; exact ih x
  rw [hlast] at hsoc
  unfold socOf at hsoc ⊢
  rw [part_vehicle?_eq σ _ _ hV] at hsoc
  exact hsoc

/-- **Distributed at a depot connector: the balanced guarantee.** Same setting with `kind = deps` and the balanced
sub-strategy: for the vehicle of the connector that is served first, with `N = ⌈(etd − now)/interval⌉ ≥ 1` remaining steps
at the beginning of the period and ample power in every step, after `k ≤ N` steps of the period its SoC in the DISTRIBUTED
world is at least `min(desired − EPS, balancedSoc desired s0 N k)`, hence `≥ desired − EPS` after all `N` steps.
`_partial` as `C09_balanced_run_reaches_partial`. -/
theorem C09_distributed_deps_balanced_reaches_partial {B : Type} (σ : Sel) (dops : DOps α B)
    (law : BatLaw dops.bat) (top : α) (cap : B → α) (env : StratEnv α)
    (lin : LinearLoad dops.bat env.tsPerHour top cap) (heps : 0 ≤ env.eps) (ht : 0 < env.tsPerHour)
    (hI : 0 < env.interval)
    (ins : List (StepIn α B)) (s : DState α B) (trace : List (DState α B × List (String × α)))
    (hs : StateOK σ .deps s) (hi : ∀ i ∈ ins, InOK σ i)
    (hst : Standing .deps .balanced env (ins.map (StepIn.restrict σ.g)))
    (v0 : VehicleS α B) (hveh : s.world.vehicle? v0.id = some v0) (hV : σ.V.contains v0.id = true)
    (hv : VehOk dops.bat top v0) (hvm : v0.minChargingPower = 0) (csId : String) (mx : α)
    (hcs : v0.cs = some csId)
    (etd : Int) (hetd : v0.etd = some etd) (N : ℕ) (hN : ceilDiv (etd - env.now) env.interval = (N : Int))
    (hNpos : 0 < N) (hs0 : dops.bat.soc v0.bat ≤ v0.desiredSoc)
    (hstn : StationIs (part σ s.world) csId σ.g mx)
    (rest : List String) (hfirst : sortedVehicleIds (part σ s.world) = v0.id :: rest)
    (hlen : ins.length ≤ N)
    (hample : ∀ i ∈ ins, Dear env (i.gcs.filter (fun x => x.id == σ.g)) ∧
      (v0.desiredSoc - dops.bat.soc v0.bat) / (N : α)
        ≤ fullPower mx (cap v0.bat) (i.gcs.filter (fun x => x.id == σ.g)) σ.g * gain dops.bat env.tsPerHour v0.bat)
    (h : runD dops s ins = .ok trace) :
    ∃ soc, socOf dops.bat ((trace.map (fun r => r.1.world)).getLastD s.world) v0.id = some soc ∧
      min (v0.desiredSoc - env.eps) (balancedSoc v0.desiredSoc (dops.bat.soc v0.bat) N ins.length) ≤ soc ∧
      (ins.length = N → v0.desiredSoc - env.eps ≤ soc) := by
  have h1 := C09_distributed_standing_run_is_rule_run_partial σ .deps .balanced dops law env ins s trace hs hi hst h
  rw [C09_standSteps_eq_runSteps] at h1
  have h2 := runLast_of_runSteps .balanced dops.bat _ env _ _ h1
  have hd : ∀ d ∈ ins.map (fun i => i.gcs.filter (fun x => x.id == σ.g)), Dear env d ∧
      (v0.desiredSoc - dops.bat.soc v0.bat) / (N : α)
        ≤ fullPower mx (cap v0.bat) d σ.g * gain dops.bat env.tsPerHour v0.bat := by
    intro d hd
    obtain ⟨i, hi', rfl⟩ := List.mem_map.mp hd
    exact hample i hi'
  obtain ⟨soc, hsoc, hle, hfin⟩ := C09_balanced_run_reaches_partial dops.bat law top cap env lin heps ht hI
    (part σ s.world) v0 (part_vehicle? σ _ _ _ hveh hV) hv hvm csId σ.g mx hcs etd hetd N hN hNpos hs0 hstn rest
    hfirst _ (by simpa using hlen) hd _ h2
  refine ⟨soc, ?_, by simpa using hle, by simpa using hfin⟩
  have hlast : (trace.map (fun r => part σ r.1.world)).getLastD (part σ s.world)
      = part σ ((trace.map (fun r => r.1.world)).getLastD s.world) := by
    have : trace.map (fun r => part σ r.1.world) = (trace.map (fun r => r.1.world)).map (part σ) := by
      rw [List.map_map]; rfl
    rw [this]
    generalize trace.map (fun r => r.1.world) = l
    generalize s.world = a
    induction l generalizing a with
    | nil => rfl
    | cons x xs ih => simp only [List.map_cons, List.getLastD_cons]; exact ih x
  rw [hlast] at hsoc
  unfold socOf at hsoc ⊢
  rw [part_vehicle?_eq σ _ _ hV] at hsoc
  exact hsoc

/-- the distributed strategy over the battery of the greedy / balanced run toy -/
theorem C09_distributed_service_toy_returns :
    (runD (⟨StratRun.toyOps, fun _ soc => .ok soc, fun _ s => s, fun _ => 5, List.sum⟩ : DOps ℚ ℚ)
      (runState 4 (1/5)) (runIns 4)).toBool = true := by decide +kernel

/-- Non-vacuity of the greedy guarantee under distributed: the two-connector toy world of C14_DistributedRun with the
capped linear battery of the run toy (10 kWh, 5 kW, `LinearLoad … 4 1 toyCap`); opportunity connector GC1 (10 kW, 4 kW fixed
load, price 0.3 above the threshold 0), vehicle v1 (SoC 1/5, desired 4/5); two standing steps.  All premises hold, the
distributed run returns, and v1 has gained at least `min(4/5 − EPS, 1/5 + fullGain)` in the distributed world. -/
example : ∃ trace soc,
    runD (⟨StratRun.toyOps, fun _ soc => .ok soc, fun _ s => s, fun _ => 5, List.sum⟩ : DOps ℚ ℚ)
      (runState 4 (1/5)) (runIns 4) = .ok trace ∧
    socOf StratRun.toyOps ((trace.map (fun r => r.1.world)).getLastD (runState 4 (1/5)).world) "v1" = some soc ∧
    min ((4/5 : ℚ) - 1/100000)
      (1/5 + fullGain StratRun.toyOps 4 (1/5 : ℚ) 11 (toyCap (1/5)) "GC1"
        ((runIns 4).map (fun i => i.gcs.filter (fun x => x.id == "GC1")))) ≤ soc := by
  obtain ⟨trace, h⟩ := toBool_ok _ C09_distributed_service_toy_returns
  have hst : Standing Kind.opps Rule.greedy ((runEnv 0).opps.env 0) ((runIns 4).map (StepIn.restrict "GC1")) := by
    refine ⟨fun _ => rfl, rfl, ?_, fun _ => rfl, rfl, ?_, trivial⟩
    · simp [StepIn.restrict, runEnv, SubStrat.env, DEnv.sub]
    · simp [StepIn.restrict, runEnv, SubStrat.env, DEnv.sub, tickEnv]
  obtain ⟨soc, h1, h2⟩ := C09_distributed_opps_greedy_lower_partial selGC1
    (⟨StratRun.toyOps, fun _ soc => .ok soc, fun _ s => s, fun _ => 5, List.sum⟩ : DOps ℚ ℚ) toy_law 1 toyCap
    ((runEnv 0).opps.env 0) toy_lin (by norm_num [runEnv, SubStrat.env]) (by norm_num [runEnv, SubStrat.env])
    (runIns 4) (runState 4 (1/5)) trace (runState_ok1 4 (1/5)) (runIns_ok selGC1 (Or.inl rfl) 4 (by norm_num)) hst
    ⟨"v1", some "CS_v1_opps", 4/5, some 3600000000, 0, false, 1/2, 1/5⟩ rfl (by decide)
    (by refine ⟨rfl, ?_, ?_, ?_⟩ <;> norm_num [StratRun.toyOps]) rfl "CS_v1_opps" 11 rfl
    (by
      intro st hst' hid
      simp only [part, runState, selGC1, List.filter_cons, List.filter_nil] at hst'
      simp at hst'
      subst hst'
      exact ⟨rfl, rfl, rfl⟩)
    [] (by
      unfold sortedVehicleIds
      simp [part, runState, selGC1])
    (by
      intro i hi
      simp only [runIns, List.mem_cons, List.not_mem_nil, or_false] at hi
      rcases hi with rfl | rfl <;>
      · intro g hg
        simp only [runGcs, selGC1, List.filter_cons, List.filter_nil] at hg
        simp at hg
        subst hg
        simp [gcCheap, runEnv, SubStrat.env, getCost])
    h
  exact ⟨trace, soc, h, h1, h2⟩

end SpiceEv
