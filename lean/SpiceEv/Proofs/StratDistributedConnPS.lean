/-
A peak_shaving sub-strategy meets the "connected" half of the contract `SubConn` (`SubConn false`): its step returns the
vehicles of the virtual world with their ids, connected stations and V2G flags — the only write to a vehicle of the world
is `{ v with bat := … }` in the surplus / apply pass (`applyVehicles`); the look-ahead works on copies (`simVehicles`).
Proved from the model (Model/StratPeakShaving.lean) directly.
-/
import SpiceEv.Proofs.StratDistributedConn
set_option linter.unusedSectionVars false
set_option linter.unusedSimpArgs false
set_option linter.unusedVariables false
namespace SpiceEv.Distrib.Conn
open SpiceEv SpiceEv.Frame SpiceEv.Distrib
variable {α B : Type} [Field α] [LinearOrder α] [IsStrictOrderedRing α]

theorem ps_applyVehicles_vk (ops : PeakShaving.Ops α B) (s0 : α) :
    ∀ (l : List (PeakShaving.VInfo α B)) (used : α) (acc acc' : PeakShaving.Acc α B),
      KeyCons (VK acc.world) → PeakShaving.applyVehicles ops s0 l used acc = .ok acc' →
      VK acc'.world = VK acc.world := by
  intro l
  induction l with
  | nil =>
    intro used acc acc' _ h
    simp only [PeakShaving.applyVehicles, Except.ok.injEq] at h
    subst h; rfl
  | cons vi rest ih =>
    intro used acc acc' hc h
    rw [PeakShaving.applyVehicles] at h
    split at h
    · exact ih _ _ _ hc h
    · split at h
      · cases h
      · split at h
        · split at h
          · cases h
          · rename_i v hv
            split at h
            · cases h
            · rename_i bat' avg _
              have e : VK (acc.world.setVehicle { v with bat := bat' }) = VK acc.world :=
                setVehicle_vk acc.world v bat' hc (vehicle?_some _ _ _ hv).1
              have := ih _ _ acc' (by rw [e]; exact hc) h
              rw [this]; exact e
        · exact ih _ _ _ hc h

theorem ps_applyPass_vk (ops : PeakShaving.Ops α B) (w : SWorld α B) (gc : GcS α) (ts : List (PeakShaving.TS α))
    (vehicles : List (PeakShaving.VInfo α B)) (acc : PeakShaving.Acc α B) (hc : KeyCons (VK w))
    (h : PeakShaving.applyPass ops w gc ts vehicles = .ok acc) : VK acc.world = VK w := by
  unfold PeakShaving.applyPass at h
  split at h
  · split at h
    · cases h
    · exact ps_applyVehicles_vk ops _ vehicles 0 ⟨w, gc, []⟩ acc hc h
  · simp only [Except.ok.injEq] at h
    subst h; rfl

theorem ps_batteryStep_vk (ops : PeakShaving.Ops α B) (env : PeakShaving.Env α) (nAhead : Int) (gcId : String)
    (st st' : PeakShaving.Acc α B × List (PeakShaving.TS α)) (b0 : StatBatS α B)
    (h : PeakShaving.batteryStep ops env nAhead gcId st b0 = .ok st') : VK st'.1.world = VK st.1.world := by
  unfold PeakShaving.batteryStep at h
  split at h
  · simp only [Except.ok.injEq] at h; subst h; rfl
  · split at h
    · simp only [Except.ok.injEq] at h; subst h; rfl
    · split at h
      · cases h
      · dsimp only at h
        split at h
        · cases h
        · split at h
          · cases h
          · simp only [Except.ok.injEq] at h; subst h; rfl

theorem ps_stepGc_vk (ops : PeakShaving.Ops α B) (env : PeakShaving.Env α) (events : List (PeakShaving.Ev α))
    (w w' : SWorld α B) (gc : GcS α) (cmds : List (String × α)) (fc : List α) (hc : KeyCons (VK w))
    (h : PeakShaving.stepGc ops env events w gc = .ok (w', cmds, fc)) : VK w' = VK w := by
  unfold PeakShaving.stepGc at h
  split at h
  · cases h
  · split at h
    · cases h
    · split at h
      · cases h
      · split at h
        · cases h
        · rename_i acc1 hap
          split at h
          · cases h
          · rename_i acc2 ts2 hfold
            simp only [Except.ok.injEq, Prod.mk.injEq] at h
            obtain ⟨rfl, _, _⟩ := h
            have h1 := ps_applyPass_vk ops w gc _ _ acc1 hc hap
            have h2 : VK acc2.world = VK acc1.world :=
              foldlM_inv (PeakShaving.batteryStep ops env _ gc.id)
                (fun (st : PeakShaving.Acc α B × List (PeakShaving.TS α)) => VK st.1.world = VK acc1.world)
                (fun st b st' hi hs => (ps_batteryStep_vk ops env _ gc.id st st' b hs).trans hi)
                w.batteries (acc1, _) (acc2, ts2) rfl hfold
            show VK acc2.world = VK w
            rw [h2, h1]

theorem ps_step_vk (ops : PeakShaving.Ops α B) (env : PeakShaving.Env α) (events : List (PeakShaving.Ev α))
    (w w' : SWorld α B) (cmds : List (String × α)) (fc : List α) (hc : KeyCons (VK w))
    (h : PeakShaving.step ops env events w = .ok (w', cmds, fc)) : VK w' = VK w := by
  unfold PeakShaving.step at h
  refine foldlM_inv _ (fun (st : SWorld α B × List (String × α) × List α) => VK st.1 = VK w) ?_ w.gcs (w, [], [])
    (w', cmds, fc) rfl h
  intro st g0 st' hi hs
  split at hs
  · simp only [Except.ok.injEq] at hs; subst hs; exact hi
  · rename_i gc _
    simp only [bind, Except.bind] at hs
    split at hs
    · cases hs
    · rename_i r hr
      obtain ⟨w1, c1, s1⟩ := r
      simp only [Except.ok.injEq] at hs
      subst hs
      exact (ps_stepGc_vk ops env events st.1 w1 gc c1 s1 (by rw [hi]; exact hc) hr).trans hi

/-- **a peak_shaving sub-strategy returns the vehicles with their keys** -/
theorem psRun_subConn (dops : DOps α B) (sub : SubStrat α) (cfg : PSCfg) (now : Int)
    (events future : List (PeakShaving.Ev α)) : SubConn false (psRun dops sub cfg now events future) := by
  intro g ss vs bs vw' cmds h hkc
  refine ⟨?_, fun hn => by cases hn⟩
  unfold psRun psStep at h
  simp only [bind, Except.bind, Except.map] at h
  split at h
  · cases h
  · rename_i r hr
    split at hr
    · cases hr
    · rename_i r2 hr2
      obtain ⟨w2, c2, f2⟩ := r2
      simp only [Except.ok.injEq] at hr
      subst hr
      simp only [Except.ok.injEq, Prod.mk.injEq] at h
      obtain ⟨rfl, _⟩ := h
      exact ps_step_vk (psOps dops) _ _ ⟨[g], ss, vs, bs⟩ w2 c2 f2 hkc hr2

/-- the "connected" half of the contract holds for a sub-strategy object that is greedy, balanced or peak_shaving -/
theorem sideConn_false_of_not_plw (dops : DOps α B) (sub : SubStrat α) (de : DEnv α) (hp : sub.plw = none) :
    SideConn false dops sub de := by
  unfold SideConn
  split
  · intro events future
    exact psRun_subConn dops sub _ de.env.now events future
  · simp only [hp]

end SpiceEv.Distrib.Conn
