/-
Refinement of the transliterated greedy/balanced step (`ruleStep`, Model/Strategies.lean) to the documented rule
(`RuleSpec.specStep`, Model/RuleSpec.lean): lemmas.  Structure:
1. a generic lemma for monadic folds that agree under an invariant,
2. list/world lemmas (replacement by key, lookups, the frame a step keeps),
3. the three per-record bodies agree (pure unfolding), and keep the frame,
4. the three passes agree, and the whole step.
-/
import SpiceEv.Proofs.Strategies
import SpiceEv.Model.RuleSpec
import Mathlib.Data.List.Nodup
import Mathlib.Data.String.Basic
set_option linter.unusedSectionVars false
set_option linter.unusedSimpArgs false
set_option linter.unusedVariables false
namespace SpiceEv.RuleSpec
open SpiceEv
variable {α B : Type} [Field α] [LinearOrder α] [IsStrictOrderedRing α]

/-! ### 1. folds that agree under an invariant -/

theorem foldlM_inv {σ β : Type} (f g : σ → β → Py σ) (Inv : σ → List β → Prop)
    (hstep : ∀ s x rest, Inv s (x :: rest) → f s x = g s x ∧ ∀ s', g s x = .ok s' → Inv s' rest) :
    ∀ (l : List β) (s : σ), Inv s l →
      l.foldlM f s = l.foldlM g s ∧ ∀ s', l.foldlM g s = .ok s' → Inv s' [] := by
  intro l
  induction l with
  | nil =>
    intro s h
    refine ⟨rfl, ?_⟩
    intro s' hs
    simp only [List.foldlM_nil, pure, Except.pure, Except.ok.injEq] at hs
    subst hs; exact h
  | cons x rest ih =>
    intro s h
    obtain ⟨heq, hinv⟩ := hstep s x rest h
    simp only [List.foldlM_cons, heq]
    cases hg : g s x with
    | error e => simp [bind, Except.bind]
    | ok s' => simp only [bind, Except.bind]; exact ih s' (hinv s' hg)

/-! ### 2. replacement by key, lookups -/

theorem find?_map_replace {γ : Type} (key : γ → String) (l : List γ) (v' : γ) (k : String) (h : k ≠ key v') :
    (l.map (fun x => if key x == key v' then v' else x)).find? (fun x => key x == k)
      = l.find? (fun x => key x == k) := by
  induction l with
  | nil => rfl
  | cons x xs ih =>
    simp only [List.map_cons, List.find?_cons]
    by_cases hx : key x = key v'
    · have h1 : (key v' == k) = false := by simpa using (Ne.symm h)
      have h2 : (key x == k) = false := by rw [hx]; exact h1
      simp only [hx, beq_self_eq_true, if_true, h1, h2]
      exact ih
    · have hb : (key x == key v') = false := by simpa using hx
      simp only [hb, Bool.false_eq_true, if_false]
      rw [ih]

theorem map_key_replace {γ : Type} (key : γ → String) (l : List γ) (v' : γ) :
    (l.map (fun x => if key x == key v' then v' else x)).map key = l.map key := by
  rw [List.map_map]
  apply List.map_congr_left
  intro x _
  simp only [Function.comp]
  by_cases hx : key x = key v'
  · simp [hx]
  · have hb : (key x == key v') = false := by simpa using hx
    simp [hb]

theorem find?_of_nodup {γ : Type} (key : γ → String) (l : List γ) (hnd : (l.map key).Nodup) (x : γ) (hx : x ∈ l) :
    l.find? (fun y => key y == key x) = some x := by
  induction l with
  | nil => cases hx
  | cons y ys ih =>
    simp only [List.map_cons, List.nodup_cons] at hnd
    simp only [List.find?_cons]
    rcases List.mem_cons.mp hx with rfl | hx'
    · simp
    · have hne : key y ≠ key x := fun he => hnd.1 (he ▸ List.mem_map_of_mem hx')
      have hb : (key y == key x) = false := by simpa using hne
      simp only [hb]
      exact ih hnd.2 hx'

/-- id and price of a connector: what a step never changes -/
def idcost (g : GcS α) : String × Option (GcCost α) := (g.id, g.cost)

theorem setGc_idcost (w : SWorld α B) (g' gc : GcS α) (hf : w.gc? g'.id = some gc) (hc : g'.cost = gc.cost)
    (hnd : (w.gcs.map (·.id)).Nodup) : (w.setGc g').gcs.map idcost = w.gcs.map idcost := by
  obtain ⟨hmem, hid⟩ := gc?_some w _ _ hf
  unfold SWorld.setGc
  simp only [List.map_map]
  apply List.map_congr_left
  intro x hx
  simp only [Function.comp]
  by_cases hxid : x.id = g'.id
  · have : x = gc := List.inj_on_of_nodup_map hnd hx hmem (by rw [hxid, hid])
    subst this
    simp [hxid, idcost, hc]
  · have hb : (x.id == g'.id) = false := by simpa using hxid
    simp [hb]

theorem idcost_ids (l l0 : List (GcS α)) (h : l.map idcost = l0.map idcost) :
    l.map (·.id) = l0.map (·.id) := by
  have := congrArg (List.map Prod.fst) h
  simp only [List.map_map] at this
  exact this

theorem gcCheap_congr (env : StratEnv α) (g g0 : GcS α) (h : g.cost = g0.cost) : gcCheap env g = gcCheap env g0 := by
  unfold gcCheap; rw [h]

/-- one row of the price table -/
def priceEntry (env : StratEnv α) (g : GcS α) : Py (String × Bool) := do let c ← gcCheap env g; pure (g.id, c)

theorem priceTable_def (env : StratEnv α) (w : SWorld α B) : priceTable env w = w.gcs.mapM (priceEntry env) := rfl

theorem priceEntry_congr (env : StratEnv α) (g g0 : GcS α) (h : idcost g = idcost g0) :
    priceEntry env g = priceEntry env g0 := by
  simp only [idcost, Prod.mk.injEq] at h
  unfold priceEntry
  rw [gcCheap_congr env g g0 h.2, h.1]

theorem priceList_congr (env : StratEnv α) : ∀ (l l0 : List (GcS α)), l.map idcost = l0.map idcost →
    l.mapM (priceEntry env) = l0.mapM (priceEntry env) := by
  intro l
  induction l with
  | nil => intro l0 h; cases l0 with
    | nil => rfl
    | cons _ _ => simp at h
  | cons g gs ih =>
    intro l0 h
    cases l0 with
    | nil => simp at h
    | cons g0 gs0 =>
      simp only [List.map_cons, List.cons.injEq] at h
      rw [List.mapM_cons, List.mapM_cons, priceEntry_congr env g g0 h.1, ih gs0 h.2]

theorem priceTable_congr (env : StratEnv α) (w w0 : SWorld α B) (h : w.gcs.map idcost = w0.gcs.map idcost) :
    priceTable env w = priceTable env w0 := priceList_congr env _ _ h

theorem priceList_get (env : StratEnv α) : ∀ (l : List (GcS α)) (t : List (String × Bool)),
    l.mapM (priceEntry env) = .ok t →
    ∀ id gc, l.find? (·.id == id) = some gc → ∃ c, gcCheap env gc = .ok c ∧ sdGet t id = some c := by
  intro l
  induction l with
  | nil => intro t _ id gc hf; simp at hf
  | cons g gs ih =>
    intro t ht id gc hf
    rw [List.mapM_cons] at ht
    cases hc : gcCheap env g with
    | error e =>
      have : priceEntry env g = .error e := by simp [priceEntry, hc, bind, Except.bind]
      rw [this] at ht; simp [bind, Except.bind] at ht
    | ok c =>
      have hpe : priceEntry env g = .ok (g.id, c) := by simp [priceEntry, hc, bind, Except.bind, pure, Except.pure]
      rw [hpe] at ht
      cases hr : gs.mapM (priceEntry env) with
      | error e => rw [hr] at ht; simp [bind, Except.bind] at ht
      | ok t' =>
        rw [hr] at ht
        simp only [bind, Except.bind, pure, Except.pure, Except.ok.injEq] at ht
        subst ht
        simp only [List.find?_cons] at hf
        by_cases hid : g.id = id
        · simp only [hid, beq_self_eq_true, Option.some.injEq] at hf
          subst hf
          exact ⟨c, hc, by simp [sdGet, hid]⟩
        · have hb : (g.id == id) = false := by simpa using hid
          simp only [hb] at hf
          obtain ⟨c', h1, h2⟩ := ih t' hr id gc hf
          exact ⟨c', h1, by simpa [sdGet, hb] using h2⟩

theorem priceList_ok (env : StratEnv α) : ∀ (l : List (GcS α)), (∀ g ∈ l, g.cost ≠ none) →
    ∃ t, l.mapM (priceEntry env) = .ok t := by
  intro l
  induction l with
  | nil => intro _; exact ⟨[], rfl⟩
  | cons g gs ih =>
    intro h
    obtain ⟨t, ht⟩ := ih (fun x hx => h x (List.mem_cons_of_mem _ hx))
    have hg := h g (List.mem_cons_self)
    cases hc : g.cost with
    | none => exact absurd hc hg
    | some c =>
      refine ⟨(g.id, decide (getCost 1 c ≤ env.priceThreshold)) :: t, ?_⟩
      have hpe : priceEntry env g = .ok (g.id, decide (getCost 1 c ≤ env.priceThreshold)) := by
        simp [priceEntry, gcCheap, hc, bind, Except.bind, pure, Except.pure]
      rw [List.mapM_cons, hpe, ht]; rfl

/-! ### 3. the per-record bodies agree -/

theorem offered_eq (rule : Rule) (ops : BatOps α B) (env : StratEnv α) (cheap : Bool) (head sup : α)
    (cs : StationS α) (v : VehicleS α B) :
    planPower rule ops env cheap head sup cs v =
      (offered rule ops env cheap head sup cs v).map (fun p => (p, !cheap && needsCharge ops env v)) := by
  unfold planPower offered needsCharge stationClamp clampPower powerNeeded remainingSteps
  cases cheap
  · by_cases hn : env.eps < v.desiredSoc - ops.soc v.bat
    · cases rule
      · simp [hn, Except.map]
      · cases v.etd with
        | none => simp [hn, Except.map, bind, Except.bind]
        | some etd =>
          by_cases hpos : 0 < ceilDiv (etd - env.now) env.interval
          · simp [hn, hpos, Except.map, bind, Except.bind]
          · simp [hn, hpos, Except.map, bind, Except.bind]
    · simp [hn, Except.map]
  · simp [Except.map]

theorem charge_eq (rule : Rule) (ops : BatOps α B) (env : StratEnv α) (cheap : Bool) (v : VehicleS α B) (p : α) :
    chargeCall rule ops env cheap v p = charge rule ops cheap (needsCharge ops env v) v p := by
  unfold chargeCall charge needsCharge
  cases rule <;> cases cheap <;> by_cases hn : env.eps < v.desiredSoc - ops.soc v.bat <;> simp [hn]

theorem allocVehicle_eq (rule : Rule) (ops : BatOps α B) (env : StratEnv α) (price : List (String × Bool))
    (st : SWorld α B × List (String × α) × List (String × α)) (vid : String) (v : VehicleS α B)
    (hv : st.1.vehicle? vid = some v)
    (hp : ∀ id gc, st.1.gc? id = some gc → gcCheap env gc = .ok (cheapAt price id)) :
    allocVehicle rule ops env st vid = allocate rule ops env price st v := by
  unfold allocVehicle allocate site
  simp only [hv]
  cases hcs : v.cs with
  | none => simp [bind, Except.bind]
  | some csId =>
    simp only []
    cases hst : st.1.station? csId with
    | none => simp [bind, Except.bind]
    | some cs =>
      simp only []
      cases hgc : st.1.gc? cs.parent with
      | none => simp [bind, Except.bind]
      | some gc =>
        simp only [bind, Except.bind, hp _ _ hgc, offered_eq, charge_eq, headroom]
        cases offered rule ops env (cheapAt price cs.parent) (gc.curMax - gc.currentLoad)
            ((sdGet st.2.2 cs.parent).getD 0) cs v with
        | error e => simp [Except.map]
        | ok p =>
          simp only [Except.map]
          cases charge rule ops (cheapAt price cs.parent) (needsCharge ops env v) v p with
          | error e => rfl
          | ok r => simp [book, hcs]

theorem surplusVehicle_eq (ops : BatOps α B) (env : StratEnv α) (price : List (String × Bool))
    (w : SWorld α B) (cmds : List (String × α)) (v : VehicleS α B) :
    surplusVehicle ops env price w cmds v = surplusOrSupport ops env price (w, cmds) v := by
  unfold surplusVehicle surplusOrSupport site
  cases hcs : v.cs with
  | none => simp [bind, Except.bind]
  | some csId =>
    simp only []
    cases hst : w.station? csId with
    | none => simp [bind, Except.bind]
    | some cs =>
      simp only []
      cases hgc : w.gc? cs.parent with
      | none => simp [bind, Except.bind]
      | some gc =>
        simp only [bind, Except.bind, cheapAt, stationClamp, clampPower, book, hcs, sub_eq_add_neg]

theorem updateBattery_eq (ops : BatOps α B) (env : StratEnv α) (price : List (String × Bool))
    (w : SWorld α B) (b : StatBatS α B)
    (hp : ∀ id gc, w.gc? id = some gc → ∃ c, sdGet price id = some c) :
    updateBattery ops env price w b = batteryPolicy ops price w b := by
  unfold updateBattery batteryPolicy
  cases hgc : w.gc? b.parent with
  | none => rfl
  | some gc =>
    obtain ⟨c, hc⟩ := hp _ _ hgc
    simp only [bind, Except.bind, hc, cheapAt, Option.getD_some, headroom]
    cases c
    · simp only [Bool.false_eq_true, if_false]
      split
      · cases ops.load b.bat none none _ with
        | error e => rfl
        | ok r => rfl
      · simp only [Functor.map, Except.map]
        cases ops.unload b.bat none none _ with
        | error e => rfl
        | ok r => rfl
    · simp only [if_true]
      rfl

/-! ### the frame every booking keeps -/

/-- what no pass of the step changes: connector ids and prices, vehicle ids, battery ids (all in order) -/
structure Frame (w0 w : SWorld α B) : Prop where
  gcs : w.gcs.map idcost = w0.gcs.map idcost
  vids : w.vehicles.map (·.id) = w0.vehicles.map (·.id)
  bids : w.batteries.map (·.id) = w0.batteries.map (·.id)

theorem Frame.refl (w : SWorld α B) : Frame w w := ⟨rfl, rfl, rfl⟩
theorem Frame.trans {w0 w1 w2 : SWorld α B} (h1 : Frame w0 w1) (h2 : Frame w1 w2) : Frame w0 w2 :=
  ⟨h2.gcs.trans h1.gcs, h2.vids.trans h1.vids, h2.bids.trans h1.bids⟩

theorem Frame.gcNodup {w0 w : SWorld α B} (h : Frame w0 w) (hn : (w0.gcs.map (·.id)).Nodup) :
    (w.gcs.map (·.id)).Nodup := by rw [idcost_ids _ _ h.gcs]; exact hn

theorem book_frame (st : SWorld α B × List (String × α)) (csId : String) (cs : StationS α) (gc : GcS α)
    (v : VehicleS α B) (bat' : B) (p : α)
    (hgc : st.1.gc? cs.parent = some gc) (hnd : (st.1.gcs.map (·.id)).Nodup) :
    Frame st.1 (book st csId cs gc v bat' p).1 ∧
    ∀ k, k ≠ v.id → (book st csId cs gc v bat' p).1.vehicle? k = st.1.vehicle? k := by
  obtain ⟨_, hid⟩ := gc?_some _ _ _ hgc
  obtain ⟨_, _, haid, hacost⟩ := addLoad_currentLoad gc csId p
  refine ⟨⟨?_, ?_, rfl⟩, ?_⟩
  · refine setGc_idcost (st.1.setVehicle { v with bat := bat' }) (gc.addLoad csId p).1 gc ?_ hacost hnd
    rw [haid, hid]; exact hgc
  · exact map_key_replace (fun x : VehicleS α B => x.id) st.1.vehicles { v with bat := bat' }
  · intro k hk
    exact find?_map_replace (fun x : VehicleS α B => x.id) st.1.vehicles { v with bat := bat' } k hk

theorem allocate_frame (rule : Rule) (ops : BatOps α B) (env : StratEnv α) (price : List (String × Bool))
    (st st' : SWorld α B × List (String × α) × List (String × α)) (v : VehicleS α B)
    (hnd : (st.1.gcs.map (·.id)).Nodup) (h : allocate rule ops env price st v = .ok st') :
    Frame st.1 st'.1 ∧ ∀ k, k ≠ v.id → st'.1.vehicle? k = st.1.vehicle? k := by
  unfold allocate site at h
  cases hcs : v.cs with
  | none =>
    simp only [hcs, bind, Except.bind, Except.ok.injEq] at h
    subst h; exact ⟨Frame.refl _, fun _ _ => rfl⟩
  | some csId =>
    simp only [hcs] at h
    cases hst : st.1.station? csId with
    | none => simp [hst, bind, Except.bind] at h
    | some cs =>
      simp only [hst] at h
      cases hgc : st.1.gc? cs.parent with
      | none => simp [hgc, bind, Except.bind] at h
      | some gc =>
        simp only [hgc, bind, Except.bind] at h
        cases ho : offered rule ops env (cheapAt price cs.parent) (headroom gc)
            ((sdGet st.2.2 cs.parent).getD 0) cs v with
        | error e => simp [ho] at h
        | ok p =>
          simp only [ho] at h
          cases hc : charge rule ops (cheapAt price cs.parent) (needsCharge ops env v) v p with
          | error e => simp [hc] at h
          | ok r =>
            simp only [hc, Except.ok.injEq] at h
            subst h
            exact book_frame (st.1, st.2.1) csId cs gc v r.1 r.2 hgc hnd

theorem surplusOrSupport_frame (ops : BatOps α B) (env : StratEnv α) (price : List (String × Bool))
    (st st' : SWorld α B × List (String × α)) (v : VehicleS α B)
    (hnd : (st.1.gcs.map (·.id)).Nodup) (h : surplusOrSupport ops env price st v = .ok st') :
    Frame st.1 st'.1 ∧ ∀ k, k ≠ v.id → st'.1.vehicle? k = st.1.vehicle? k := by
  unfold surplusOrSupport site at h
  cases hcs : v.cs with
  | none =>
    simp only [hcs, bind, Except.bind, Except.ok.injEq] at h
    subst h; exact ⟨Frame.refl _, fun _ _ => rfl⟩
  | some csId =>
    simp only [hcs] at h
    cases hst : st.1.station? csId with
    | none => simp [hst, bind, Except.bind] at h
    | some cs =>
      simp only [hst] at h
      cases hgc : st.1.gc? cs.parent with
      | none => simp [hgc, bind, Except.bind] at h
      | some gc =>
        simp only [hgc, bind, Except.bind] at h
        split at h
        · split at h
          · cases h
          · rename_i r _
            simp only [Except.ok.injEq] at h
            subst h
            exact book_frame st csId cs gc v r.1 r.2 hgc hnd
        · split at h
          · split at h
            · cases h
            · rename_i r _
              simp only [Except.ok.injEq] at h
              subst h
              exact book_frame st csId cs gc v r.1 (-r.2) hgc hnd
          · simp only [Except.ok.injEq] at h
            subst h; exact ⟨Frame.refl _, fun _ _ => rfl⟩

theorem except_bind_ok {ε σ τ : Type} (x : Except ε σ) (f : σ → Except ε τ) (y : τ) (h : x >>= f = .ok y) :
    ∃ v, x = .ok v ∧ f v = .ok y := by
  cases x with
  | error e => simp [bind, Except.bind] at h
  | ok v => exact ⟨v, rfl, h⟩

theorem batteryPolicy_frame (ops : BatOps α B) (price : List (String × Bool)) (w w' : SWorld α B)
    (b : StatBatS α B) (hnd : (w.gcs.map (·.id)).Nodup) (h : batteryPolicy ops price w b = .ok w') :
    Frame w w' ∧ ∀ k, k ≠ b.id → w'.batteries.find? (·.id == k) = w.batteries.find? (·.id == k) := by
  unfold batteryPolicy at h
  cases hgc : w.gc? b.parent with
  | none =>
    simp only [hgc, Except.ok.injEq] at h
    subst h; exact ⟨Frame.refl _, fun _ _ => rfl⟩
  | some gc =>
    simp only [hgc] at h
    obtain ⟨_, hid⟩ := gc?_some _ _ _ hgc
    have key : ∀ r : B × α, (w.setBattery { b with bat := r.1 }).setGc (gc.addLoad b.id r.2).1 = w' →
        Frame w w' ∧ ∀ k, k ≠ b.id → w'.batteries.find? (·.id == k) = w.batteries.find? (·.id == k) := by
      intro r hr
      subst hr
      obtain ⟨_, _, haid, hacost⟩ := addLoad_currentLoad gc b.id r.2
      refine ⟨⟨?_, rfl, ?_⟩, ?_⟩
      · refine setGc_idcost (w.setBattery { b with bat := r.1 }) (gc.addLoad b.id r.2).1 gc ?_ hacost hnd
        rw [haid, hid]; exact hgc
      · exact map_key_replace (fun x : StatBatS α B => x.id) w.batteries { b with bat := r.1 }
      · intro k hk
        exact find?_map_replace (fun x : StatBatS α B => x.id) w.batteries { b with bat := r.1 } k hk
    split at h
    · obtain ⟨r, _, hr⟩ := except_bind_ok _ _ _ h
      simp only [Except.ok.injEq] at hr
      exact key r hr
    · split at h
      · obtain ⟨r, _, hr⟩ := except_bind_ok _ _ _ h
        simp only [Except.ok.injEq] at hr
        exact key r hr
      · obtain ⟨r, _, hr⟩ := except_bind_ok _ _ _ h
        simp only [Except.ok.injEq] at hr
        exact key r hr

/-! ### 4. the passes agree -/

/-- well-formed world: ids unique per kind, every connector has a price -/
structure WF (w : SWorld α B) : Prop where
  gcIds : (w.gcs.map (·.id)).Nodup
  vehicleIds : (w.vehicles.map (·.id)).Nodup
  batteryIds : (w.batteries.map (·.id)).Nodup
  priced : ∀ g ∈ w.gcs, g.cost ≠ none

theorem cheap_of_frame (env : StratEnv α) (w0 w : SWorld α B) (price : List (String × Bool))
    (hF : Frame w0 w) (hprice : priceTable env w0 = .ok price) (id : String) (gc : GcS α)
    (hgc : w.gc? id = some gc) : gcCheap env gc = .ok (cheapAt price id) ∧ ∃ c, sdGet price id = some c := by
  have h1 : w.gcs.mapM (priceEntry env) = .ok price := by
    rw [← priceTable_def, priceTable_congr env w w0 hF.gcs, hprice]
  obtain ⟨c, hc1, hc2⟩ := priceList_get env w.gcs price h1 id gc hgc
  exact ⟨by rw [hc1]; simp [cheapAt, hc2], c, hc2⟩

theorem sortedIds_eq (w : SWorld α B) : sortedVehicleIds w = (vehiclesById w).map (·.id) := by
  unfold sortedVehicleIds vehiclesById
  rw [List.map_mergeSort]
  intros; rfl

/-- invariant of the two vehicle passes: the frame, and the records still to be visited are the current ones -/
def VehInv (w0 : SWorld α B) (w : SWorld α B) (rest : List (VehicleS α B)) : Prop :=
  Frame w0 w ∧ (rest.map (·.id)).Nodup ∧ ∀ x ∈ rest, w.vehicle? x.id = some x

theorem VehInv.step {w0 w w' : SWorld α B} {x : VehicleS α B} {rest : List (VehicleS α B)}
    (h : VehInv w0 w (x :: rest)) (hF : Frame w w')
    (hk : ∀ k, k ≠ x.id → w'.vehicle? k = w.vehicle? k) : VehInv w0 w' rest := by
  obtain ⟨h1, h2, h3⟩ := h
  simp only [List.map_cons, List.nodup_cons] at h2
  refine ⟨h1.trans hF, h2.2, ?_⟩
  intro y hy
  have hne : y.id ≠ x.id := fun he => h2.1 (he ▸ List.mem_map_of_mem (f := fun v : VehicleS α B => v.id) hy)
  rw [hk _ hne]
  exact h3 y (List.mem_cons_of_mem _ hy)

theorem allocPass_eq (rule : Rule) (ops : BatOps α B) (env : StratEnv α) (price : List (String × Bool))
    (w0 : SWorld α B) (hgn : (w0.gcs.map (·.id)).Nodup) (hvn : (w0.vehicles.map (·.id)).Nodup)
    (hprice : priceTable env w0 = .ok price) (sup : List (String × α)) :
    (sortedVehicleIds w0).foldlM (allocVehicle rule ops env) (w0, [], sup)
      = (vehiclesById w0).foldlM (allocate rule ops env price) (w0, [], sup) ∧
    ∀ st', (vehiclesById w0).foldlM (allocate rule ops env price) (w0, [], sup) = .ok st' → Frame w0 st'.1 := by
  rw [sortedIds_eq, List.foldlM_map]
  have := foldlM_inv (fun st (v : VehicleS α B) => allocVehicle rule ops env st v.id)
    (allocate rule ops env price) (fun st rest => VehInv w0 st.1 rest) ?_ (vehiclesById w0) (w0, [], sup) ?_
  · exact ⟨this.1, fun st' h => (this.2 st' h).1⟩
  · intro st x rest hinv
    constructor
    · exact allocVehicle_eq rule ops env price st x.id x (hinv.2.2 x List.mem_cons_self)
        (fun id gc hgc => (cheap_of_frame env w0 st.1 price hinv.1 hprice id gc hgc).1)
    · intro st' hst'
      obtain ⟨hF, hk⟩ := allocate_frame rule ops env price st st' x (hinv.1.gcNodup hgn) hst'
      exact hinv.step hF hk
  · refine ⟨Frame.refl _, ?_, ?_⟩
    · rw [← sortedIds_eq]
      unfold sortedVehicleIds
      exact (List.mergeSort_perm _ _).nodup_iff.mpr hvn
    · intro x hx
      have hx' : x ∈ w0.vehicles := by
        unfold vehiclesById at hx
        exact List.mem_mergeSort.mp hx
      exact find?_of_nodup (fun v : VehicleS α B => v.id) w0.vehicles hvn x hx'

theorem surplusPass_eq (ops : BatOps α B) (env : StratEnv α) (price : List (String × Bool))
    (w0 w1 : SWorld α B) (hF : Frame w0 w1) (hgn : (w0.gcs.map (·.id)).Nodup)
    (hvn : (w0.vehicles.map (·.id)).Nodup) (hprice : priceTable env w0 = .ok price) :
    distributeSurplus ops env w1 = w1.vehicles.foldlM (surplusOrSupport ops env price) (w1, []) ∧
    ∀ st', w1.vehicles.foldlM (surplusOrSupport ops env price) (w1, []) = .ok st' → Frame w0 st'.1 := by
  have hd : distributeSurplus ops env w1 = (do
      let cheap ← priceTable env w1
      w1.vehicles.foldlM (fun (st : SWorld α B × List (String × α)) v0 =>
        match st.1.vehicle? v0.id with
        | none => .ok st
        | some v => surplusVehicle ops env cheap st.1 st.2 v) (w1, [])) := rfl
  rw [hd, priceTable_congr env w1 w0 hF.gcs, hprice]
  simp only [bind, Except.bind]
  have := foldlM_inv (fun (st : SWorld α B × List (String × α)) (v0 : VehicleS α B) =>
        match st.1.vehicle? v0.id with
        | none => .ok st
        | some v => surplusVehicle ops env price st.1 st.2 v)
    (surplusOrSupport ops env price) (fun st rest => VehInv w0 st.1 rest) ?_ w1.vehicles (w1, []) ?_
  · exact ⟨this.1, fun st' h => (this.2 st' h).1⟩
  · intro st x rest hinv
    constructor
    · simp only [hinv.2.2 x List.mem_cons_self]
      exact surplusVehicle_eq ops env price st.1 st.2 x
    · intro st' hst'
      obtain ⟨hF', hk⟩ := surplusOrSupport_frame ops env price st st' x (hinv.1.gcNodup hgn) hst'
      exact hinv.step hF' hk
  · have hvn1 : (w1.vehicles.map (·.id)).Nodup := by rw [hF.vids]; exact hvn
    exact ⟨hF, hvn1, fun x hx => find?_of_nodup (fun v : VehicleS α B => v.id) w1.vehicles hvn1 x hx⟩

theorem batteryPass_eq (ops : BatOps α B) (env : StratEnv α) (price : List (String × Bool))
    (w0 w2 : SWorld α B) (hF : Frame w0 w2) (hgn : (w0.gcs.map (·.id)).Nodup)
    (hbn : (w0.batteries.map (·.id)).Nodup) (hprice : priceTable env w0 = .ok price) :
    updateBatteries ops env w2 = w2.batteries.foldlM (batteryPolicy ops price) w2 := by
  have hd : updateBatteries ops env w2 = (do
      let cheap ← priceTable env w2
      w2.batteries.foldlM (fun w b0 =>
        match w.batteries.find? (·.id == b0.id) with
        | none => .ok w
        | some b => updateBattery ops env cheap w b) w2) := rfl
  rw [hd, priceTable_congr env w2 w0 hF.gcs, hprice]
  simp only [bind, Except.bind]
  have := foldlM_inv (fun (w : SWorld α B) (b0 : StatBatS α B) =>
        match w.batteries.find? (·.id == b0.id) with
        | none => .ok w
        | some b => updateBattery ops env price w b)
    (batteryPolicy ops price)
    (fun w rest => Frame w0 w ∧ (rest.map (·.id)).Nodup ∧ ∀ x ∈ rest, w.batteries.find? (·.id == x.id) = some x)
    ?_ w2.batteries w2 ?_
  · exact this.1
  · intro w x rest hinv
    obtain ⟨h1, h2, h3⟩ := hinv
    constructor
    · simp only [h3 x List.mem_cons_self]
      exact updateBattery_eq ops env price w x
        (fun id gc hgc => (cheap_of_frame env w0 w price h1 hprice id gc hgc).2)
    · intro w' hw'
      obtain ⟨hF', hk⟩ := batteryPolicy_frame ops price w w' x (h1.gcNodup hgn) hw'
      simp only [List.map_cons, List.nodup_cons] at h2
      refine ⟨h1.trans hF', h2.2, ?_⟩
      intro y hy
      have hne : y.id ≠ x.id := fun he => h2.1 (he ▸ List.mem_map_of_mem (f := fun v : StatBatS α B => v.id) hy)
      rw [hk _ hne]
      exact h3 y (List.mem_cons_of_mem _ hy)
  · have hbn2 : (w2.batteries.map (·.id)).Nodup := by rw [hF.bids]; exact hbn
    exact ⟨hF, hbn2, fun x hx => find?_of_nodup (fun v : StatBatS α B => v.id) w2.batteries hbn2 x hx⟩

/-- **the transliterated step equals the documented rule** on every well-formed world -/
theorem ruleStep_eq_specStep (rule : Rule) (ops : BatOps α B) (env : StratEnv α) (w : SWorld α B) (wf : WF w) :
    ruleStep rule ops env w = specStep rule ops env w := by
  obtain ⟨price, hprice⟩ := priceList_ok env w.gcs wf.priced
  rw [← priceTable_def] at hprice
  unfold ruleStep specStep
  simp only [hprice, bind, Except.bind]
  cases availBatPower ops w with
  | error e => rfl
  | ok sup =>
    simp only []
    have hF0 : Frame w (resetStations w) := ⟨rfl, rfl, rfl⟩
    have hprice0 : priceTable env (resetStations w) = .ok price := hprice
    obtain ⟨h1, h1F⟩ := allocPass_eq rule ops env price (resetStations w) wf.gcIds wf.vehicleIds hprice0 sup
    rw [h1]
    cases hA : (vehiclesById (resetStations w)).foldlM (allocate rule ops env price) (resetStations w, [], sup) with
    | error e => rfl
    | ok st1 =>
      simp only []
      have hF1 : Frame (resetStations w) st1.1 := h1F st1 hA
      obtain ⟨h2, h2F⟩ := surplusPass_eq ops env price (resetStations w) st1.1 hF1 wf.gcIds wf.vehicleIds hprice0
      rw [h2]
      cases hS : st1.1.vehicles.foldlM (surplusOrSupport ops env price) (st1.1, []) with
      | error e => rfl
      | ok st2 =>
        simp only []
        rw [batteryPass_eq ops env price (resetStations w) st2.1 (h2F st2 hS) wf.gcIds wf.batteryIds hprice0]

/-! ### 5. the station clamp, and a concrete battery for the non-vacuity examples -/

/-- the clamp is either the cut-off (0) or exactly the smaller of the request and what the station has left
(never negative) -/
theorem stationClamp_cases (cs : StationS α) (v : VehicleS α B) (p : α) :
    stationClamp cs v p = 0 ∨ stationClamp cs v p = max (min p (cs.maxPower - cs.currentPower)) 0 := by
  unfold stationClamp
  simp only [pymin_eq, pymax_eq]
  split
  · left; rfl
  · right; rfl

theorem stationClamp_bounds (cs : StationS α) (v : VehicleS α B) (p : α) :
    0 ≤ stationClamp cs v p ∧ stationClamp cs v p ≤ max 0 p ∧
    (cs.currentPower ≤ cs.maxPower → cs.currentPower + stationClamp cs v p ≤ cs.maxPower) := by
  refine ⟨(clampPower_bounds p cs.currentPower cs.maxPower cs.minPower v.minChargingPower).1,
    (clampPower_bounds p cs.currentPower cs.maxPower cs.minPower v.minChargingPower).2, ?_⟩
  intro h
  rcases stationClamp_cases cs v p with h0 | h1
  · rw [h0]; linarith
  · rw [h1]
    rcases max_cases (min p (cs.maxPower - cs.currentPower)) 0 with ⟨he, _⟩ | ⟨he, _⟩
    · rw [he]; have := min_le_right p (cs.maxPower - cs.currentPower); linarith
    · rw [he]; linarith

/-- toy battery: state = SoC of a 100 kWh battery, η = 1, one-hour steps; charging takes min(offer, room),
discharging gives min(request, `A`, content); `A` kW (at most the content) are available -/
def toyOps (A : ℚ) : BatOps ℚ ℚ where
  soc b := b
  capacity _ := 100
  efficiency _ := 1
  unloadMaxPower _ := A
  load b mp _ tp :=
    let avg := min (max (mp.getD (tp.getD 0)) 0) (max ((1 - b) * 100) 0)
    .ok (b + avg / 100, avg)
  unload b mp _ tp :=
    let avg := min (min (max (tp.getD (mp.getD 0)) 0) A) (max (b * 100) 0)
    .ok (b - avg / 100, avg)
  available b := .ok (min A (max (b * 100) 0))

theorem toyOps_law (A : ℚ) (hA : 0 ≤ A) : BatLaw (toyOps A) where
  load_max := by
    intro b p b' avg h
    simp only [toyOps, Option.getD_some, Except.ok.injEq, Prod.mk.injEq] at h
    obtain ⟨_, rfl⟩ := h
    exact ⟨le_min (le_max_right _ _) (le_max_right _ _), min_le_left _ _⟩
  load_target := by
    intro b p b' avg h
    simp only [toyOps, Option.getD_some, Option.getD_none, Except.ok.injEq, Prod.mk.injEq] at h
    obtain ⟨_, rfl⟩ := h
    exact ⟨le_min (le_max_right _ _) (le_max_right _ _), min_le_left _ _⟩
  unload_max := by
    intro b p ts b' avg h
    simp only [toyOps, Option.getD_some, Option.getD_none, Except.ok.injEq, Prod.mk.injEq] at h
    obtain ⟨_, rfl⟩ := h
    exact ⟨le_min (le_min (le_max_right _ _) hA) (le_max_right _ _),
      le_trans (min_le_left _ _) (min_le_left _ _)⟩
  unload_target := by
    intro b x b' avg h
    simp only [toyOps, Option.getD_some, Except.ok.injEq, Prod.mk.injEq] at h
    obtain ⟨_, rfl⟩ := h
    exact ⟨le_min (le_min (le_max_right _ _) hA) (le_max_right _ _),
      le_trans (min_le_left _ _) (min_le_left _ _)⟩
  available_nonneg := by
    intro b a h
    simp only [toyOps, Except.ok.injEq] at h
    subst h; exact le_min hA (le_max_right _ _)

def hourUs : Int := 3600000000
/-- ε = 10⁻⁵, price threshold 0.1, one-hour steps, now = 0 -/
def toyEnv : StratEnv ℚ := ⟨1 / 100000, 1 / 10, 1, 0, hourUs⟩
/-- one 20 kW connector (price `price`, 4 kW fixed load), two 11 kW stations, vehicles inserted as v2, v1
(v1: SoC 0.2, v2: SoC 0.5, both want 0.8, departure in 10 h resp. 2 h), a stationary battery at SoC 0.5 -/
def toyWorld (price : ℚ) (fixedLoad : ℚ) : SWorld ℚ ℚ :=
  ⟨[⟨"GC", 20, some (.fixed price), [("fixed", fixedLoad)]⟩],
   [⟨"CS1", "GC", 11, 0, 7⟩, ⟨"CS2", "GC", 11, 0, 7⟩],
   [⟨"v2", some "CS2", 8 / 10, some (2 * hourUs), 0, false, 1 / 2, 1 / 2⟩,
    ⟨"v1", some "CS1", 8 / 10, some (10 * hourUs), 0, true, 1 / 2, 2 / 10⟩],
   [⟨"BAT", "GC", 0, 1 / 2⟩]⟩

theorem toyWorld_wf (price fixedLoad : ℚ) : WF (toyWorld price fixedLoad) where
  gcIds := by simp [toyWorld]
  vehicleIds := by simp [toyWorld]
  batteryIds := by simp [toyWorld]
  priced := by intro g hg; simp only [toyWorld, List.mem_singleton] at hg; subst hg; simp

/-- the visiting order is THE ascending-id arrangement of the fleet: any id-sorted permutation of the fleet is it -/
theorem vehiclesById_unique (w : SWorld α B) (l : List (VehicleS α B)) (hperm : l.Perm w.vehicles)
    (hsorted : l.Pairwise (fun a b => a.id ≤ b.id)) (hnd : (w.vehicles.map (·.id)).Nodup) : vehiclesById w = l := by
  unfold vehiclesById
  apply List.Perm.eq_of_pairwise (le := fun a b : VehicleS α B => a.id ≤ b.id)
  · intro a b ha hb hab hba
    have ha' : a ∈ w.vehicles := List.mem_mergeSort.mp ha
    have hb' : b ∈ w.vehicles := hperm.mem_iff.mp hb
    exact List.inj_on_of_nodup_map hnd ha' hb' (le_antisymm hab hba)
  · have := List.pairwise_mergeSort (le := fun a b : VehicleS α B => decide (a.id ≤ b.id))
      (fun a b c h1 h2 => by simp only [decide_eq_true_eq] at *; exact le_trans h1 h2)
      (fun a b => by simp only [Bool.or_eq_true, decide_eq_true_eq]; exact le_total _ _) w.vehicles
    exact this.imp (by intro a b h; simpa using h)
  · exact hsorted
  · exact (List.mergeSort_perm _ _).trans hperm.symm

/-- (`mergeSort` is defined by well-founded recursion and does not evaluate in the kernel; the order of the toy
fleet is therefore derived from the characterisation above) -/
theorem toyWorld_sorted (price fixedLoad : ℚ) : vehiclesById (resetStations (toyWorld price fixedLoad)) =
    [⟨"v1", some "CS1", 8 / 10, some (10 * hourUs), 0, true, 1 / 2, 2 / 10⟩,
     ⟨"v2", some "CS2", 8 / 10, some (2 * hourUs), 0, false, 1 / 2, 1 / 2⟩] := by
  apply vehiclesById_unique
  · exact List.Perm.swap _ _ _
  · simp
  · simp [resetStations, toyWorld]

/-- `mergeSort` on two elements, as an equation the kernel can use -/
theorem mergeSort_pair {γ : Type} (a b : γ) (le : γ → γ → Bool) :
    [a, b].mergeSort le = if le a b then [a, b] else [b, a] := by
  rw [List.mergeSort]
  simp [List.MergeSort.Internal.splitInTwo, List.merge]

/-- a malformed fleet: two vehicles with the same id at two stations -/
def dupWorld : SWorld ℚ ℚ :=
  ⟨[⟨"GC", 20, some (.fixed (3 / 10)), []⟩], [⟨"CS1", "GC", 11, 0, 0⟩, ⟨"CS2", "GC", 11, 0, 0⟩],
   [⟨"v", some "CS1", 8 / 10, some (2 * hourUs), 0, false, 1 / 2, 2 / 10⟩,
    ⟨"v", some "CS2", 8 / 10, some (2 * hourUs), 0, false, 1 / 2, 1 / 2⟩], []⟩

end SpiceEv.RuleSpec
