/-
C09 — Service guarantee, run level: theorems about the ITERATED step model of greedy and balanced
(`StratRun.runSteps` / `runLast`, Model/StratRun.lean = `ruleStep` of Model/Strategies.lean iterated
over the per-step connector attributes of a standing period; tied to the real classes per step by
`rulestep` and over whole standing periods by `rulerun` inside harness/c09.py).

Vocabulary (definitions in Proofs/StratRun.lean):
* `LinearLoad ops tsph top cap` — battery contract "ideal-linear below `top`": a `load` call never
  lowers the SoC and keeps capacity / efficiency / curve cap; a target-power request `p ≥ 0` that does
  not lead above `top` is delivered as `min(p, cap)` and raises the SoC by `avg · η/(c·ts_per_hour)`
  (`gain`).  `LoadUp ops` is its first clause alone.  `BatLaw` is the contract of C04/C05/C10.
* `VehOk ops top v` — the vehicle has no V2G, positive capacity and efficiency, desired SoC ≤ `top`.
* `StationIs w cs gc mx` — station `cs` hangs on connector `gc`, maximum `mx`, no minimum power.
* `Dear env gcs` — every connector's price is above the threshold; `NoSurplus env gcs` — no connector
  has a load below `−EPS` when the step starts.
* `headroom d gc` = `cur_max_power − Σ current_loads` of connector `gc` as step data `d` has it;
  `fullPower mx cap d gc = max(min(headroom, mx, cap), 0)`; `fullGain … ds` = Σ over the steps of
  `fullPower · gain`.
* `socOf ops w id` — SoC of vehicle `id` in world `w`; `Rising ops id s ws` — the SoCs in the
  successive worlds `ws` form a non-decreasing chain starting at `s`; `AllBelow ops id hi ws`.
-/
import SpiceEv.Properties.C09
import SpiceEv.Proofs.StratRun
import SpiceEv.Proofs.StratRunAmple
import SpiceEv.Proofs.StratRunBalanced
import SpiceEv.Proofs.StratRunTotal
import SpiceEv.Proofs.StratRunShared
import SpiceEv.Proofs.StratRunMinPower
import SpiceEv.Proofs.StratRunToy
set_option linter.unusedSectionVars false
set_option linter.unusedVariables false
namespace SpiceEv
open SpiceEv.StratRun
variable {α B : Type} [Field α] [LinearOrder α] [IsStrictOrderedRing α]

/-- **The iterated step does not raise** (the hypothesis `runSteps … = .ok ws` / `runLast … = .ok wl` of
the theorems below is met): greedy and balanced, any number of vehicles and connectors, when all steps
list the same connectors (ids `gids`), each with a cost (`gc.cost == {}` is the `KeyError` of
`get_cost`), every connected vehicle's station exists and hangs on one of these connectors, balanced's
connected vehicles have an announced departure (`None − datetime` is the `TypeError` of balanced.py),
the battery operations never raise (`OpsTotal`) and there is no stationary battery.  The exceptions the
model can return otherwise are exactly the ones named here. -/
theorem C09_run_no_exception (rule : Rule) (ops : BatOps α B) (tot : OpsTotal ops) (env : StratEnv α)
    (w : SWorld α B) (gids : List String) (ds : List (StepGcs α))
    (hds : ∀ d ∈ ds, d.map (·.id) = gids ∧ ∀ g ∈ d, g.cost ≠ none)
    (hveh : ∀ u ∈ w.vehicles, ∀ c, u.cs = some c → ∃ s ∈ w.stations, s.id = c)
    (hetd : rule = .balanced → ∀ u ∈ w.vehicles, u.cs ≠ none → u.etd ≠ none)
    (hpar : ∀ s ∈ w.stations, s.parent ∈ gids) (hb0 : w.batteries = []) :
    (∃ ws, runSteps rule ops env w ds = .ok ws) ∧ (∃ wl, runLast rule ops env w ds = .ok wl) := by
  obtain ⟨ws, h⟩ := runSteps_total rule ops tot gids ds env w hds hveh hetd hpar hb0
  exact ⟨⟨ws, h⟩, ⟨_, runLast_of_runSteps rule ops ds env w ws h⟩⟩

/-- Non-vacuity: the toy world (two vehicles, one connector) and its four steps are well-formed, and a
vehicle without announced departure makes balanced raise `TypeError` in the model as in the code. -/
example : ((∃ ws, runSteps .balanced toyOps toyEnv toyW toyDs = .ok ws) ∧
      (∃ wl, runLast .balanced toyOps toyEnv toyW toyDs = .ok wl)) ∧
    planPower .balanced toyOps toyEnv false 5 0 ⟨"CS1", "GC1", 11, 0, 0⟩ { toyV1 with etd := none }
      = .error .typeError :=
  ⟨C09_run_no_exception .balanced toyOps toy_total toyEnv toyW ["GC1"] toyDs toy_ds_ok toy_veh_station
    (fun _ => toy_veh_etd) toy_station_parent rfl, by decide +kernel⟩

/-- **No step of a standing period lowers the SoC of a vehicle without V2G** (greedy and balanced, any
world: any number of vehicles, connectors, stationary batteries, any prices; any battery whose `load`
never lowers the SoC).  `ws` are the worlds after step 1, 2, …; no bound on their number. -/
theorem C09_run_soc_monotone (rule : Rule) (ops : BatOps α B) (hup : LoadUp ops) (env : StratEnv α)
    (w : SWorld α B) (v0 : VehicleS α B) (hveh : w.vehicle? v0.id = some v0) (hv2g : v0.v2g = false)
    (ds : List (StepGcs α)) (ws : List (SWorld α B)) (hrun : runSteps rule ops env w ds = .ok ws) :
    Rising ops v0.id (ops.soc v0.bat) ws :=
  runSteps_rising rule ops hup v0 hv2g ds env w v0.bat ws hveh hrun


/-- Non-vacuity: two vehicles sharing a 20 kW connector whose fixed load varies over four steps (toy
ideal-linear battery on ℚ, kernel-evaluated run): `v1` rises 1/2 → 5/8 → 7/10 → 57/80 → 67/80. -/
example : Rising toyOps "v1" (1/2) toyWsG ∧
    toyWsG.map (fun w => (socOf toyOps w "v1", socOf toyOps w "v2")) =
      [(some (5/8), some (13/40)), (some (7/10), some (13/40)), (some (57/80), some (13/40)),
       (some (67/80), some (9/20))] :=
  ⟨C09_run_soc_monotone .greedy toyOps toy_lin.loadUp toyEnv toyW toyV1 rfl rfl toyDs toyWsG toy_runG,
   toy_socsG⟩

/-- **Greedy over a standing period: the SoC of every vehicle (without V2G) never decreases, and — when
in every step the price is above the threshold and no connector has a surplus — never exceeds
`max(initial SoC, desired SoC)`** (any number of vehicles, connectors and stationary batteries; ideal
battery contracts `BatLaw` + `LinearLoad`). -/
theorem C09_greedy_run_monotone (ops : BatOps α B) (law : BatLaw ops) (top : α) (cap : B → α)
    (env : StratEnv α) (lin : LinearLoad ops env.tsPerHour top cap) (heps : 0 ≤ env.eps)
    (ht : 0 < env.tsPerHour) (w : SWorld α B) (v0 : VehicleS α B) (hveh : w.vehicle? v0.id = some v0)
    (hv : VehOk ops top v0) (ds : List (StepGcs α)) (ws : List (SWorld α B))
    (hrun : runSteps .greedy ops env w ds = .ok ws) :
    Rising ops v0.id (ops.soc v0.bat) ws ∧
    ((∀ d ∈ ds, Dear env d ∧ NoSurplus env d) →
      AllBelow ops v0.id (max (ops.soc v0.bat) v0.desiredSoc) ws) :=
  ⟨runSteps_rising .greedy ops lin.loadUp v0 hv.v2g ds env w v0.bat ws hveh hrun,
   fun hd => runSteps_greedy_bounded ops law top cap v0 hv ds env w ws lin heps ht hd
     ⟨v0.bat, hveh, Up.refl _ _ _, le_max_left _ _⟩ hrun⟩


/-- Non-vacuity: the same four-step run (price 0.3 above the threshold 0.1, fixed load ≥ 2 kW in every
step): the SoC of `v1` rises and stays below `max(1/2, 9/10)`. -/
example : Rising toyOps "v1" (1/2) toyWsG ∧ AllBelow toyOps "v1" (max (1/2) (9/10)) toyWsG := by
  obtain ⟨h1, h2⟩ := C09_greedy_run_monotone toyOps toy_law 1 toyCap toyEnv toy_lin (by decide +kernel)
    (by decide +kernel) toyW toyV1 rfl toy_vehOk toyDs toyWsG toy_runG
  exact ⟨h1, h2 toy_dear⟩

/-- **Greedy leaves with at least the smaller of the desired SoC (minus the code's `EPS`) and the SoC
reachable at full available power throughout** — for the vehicle that is served first (smallest id),
single or shared connector, any number of other vehicles, over any number `ds.length` of steps:
`SoC after the last step ≥ min(desired − EPS, s0 + Σ_k full_k · gain)` with
`full_k = max(min(station maximum, curve cap, connector headroom in step k), 0)`.

Stationary batteries are allowed (their support only adds to the offered power; `BatLaw`).
`_partial`: excluded are (i) vehicles served later — their headroom depends on what the earlier ones
took (see `C09_greedy_run_lower_shared_partial` / `…_ample_partial`), (ii) the minimum-power cut-off
(station and vehicle minimum power are 0), (iii) steps at a price at or below the threshold
(greedy then charges with `max_power` up to a full battery, which the contract does not describe). -/
theorem C09_greedy_run_lower_partial (ops : BatOps α B) (law : BatLaw ops) (top : α) (cap : B → α)
    (env : StratEnv α)
    (lin : LinearLoad ops env.tsPerHour top cap) (heps : 0 ≤ env.eps) (ht : 0 < env.tsPerHour)
    (w : SWorld α B) (v0 : VehicleS α B) (hveh : w.vehicle? v0.id = some v0) (hv : VehOk ops top v0)
    (hvm : v0.minChargingPower = 0) (csId gid : String) (mx : α) (hcs : v0.cs = some csId)
    (hst : StationIs w csId gid mx)
    (rest : List String) (hfirst : sortedVehicleIds w = v0.id :: rest)
    (ds : List (StepGcs α)) (hdear : ∀ d ∈ ds, Dear env d)
    (wl : SWorld α B) (hrun : runLast .greedy ops env w ds = .ok wl) :
    ∃ s, socOf ops wl v0.id = some s ∧
      min (v0.desiredSoc - env.eps)
        (ops.soc v0.bat + fullGain ops env.tsPerHour v0.bat mx (cap v0.bat) gid ds) ≤ s := by
  obtain ⟨b, hb', _, hle⟩ := runLast_greedy_first ops law top cap v0 hv hvm csId gid mx hcs w hst rest hfirst ds
    env w (ops.soc v0.bat) wl lin heps ht hdear (keep_refl w)
    ⟨v0.bat, hveh, Up.refl _ _ _, min_le_right _ _⟩ hrun
  exact ⟨ops.soc b, by unfold socOf; rw [hb']; rfl, hle⟩


/-- Non-vacuity: `v1` is served first; the headroom of the four steps is 18, 3, 1/2, 18 kW, the station
allows 11 kW and the curve 5 kW, so the full-power gain is (5 + 3 + 1/2 + 5)/40 = 27/80 and the bound
`min(9/10 − 1/100000, 1/2 + 27/80) = 67/80` is attained exactly by the run (`toy_socsG`). -/
example : fullGain toyOps toyEnv.tsPerHour toyV1.bat 11 (toyCap toyV1.bat) "GC1" toyDs = 27/80 ∧
    ∃ s, socOf toyOps (toyWsG.getLastD toyW) "v1" = some s ∧
      min ((9/10 : ℚ) - 1/100000) (1/2 + 27/80) ≤ s := by
  have hg : fullGain toyOps toyEnv.tsPerHour toyV1.bat 11 (toyCap toyV1.bat) "GC1" toyDs = 27/80 := by
    decide +kernel
  refine ⟨hg, ?_⟩
  have := C09_greedy_run_lower_partial toyOps toy_law 1 toyCap toyEnv toy_lin (by decide +kernel) (by decide +kernel)
    toyW toyV1 rfl toy_vehOk rfl "CS1" "GC1" 11 rfl toy_station ["v2"] toy_sorted toyDs
    (fun d hd => (toy_dear d hd).1) (toyWsG.getLastD toyW)
    (runLast_of_runSteps .greedy toyOps toyDs toyEnv toyW toyWsG toy_runG)
  rw [hg] at this
  exact this

/-- Witness that exclusion (ii) is necessary (finding GRD1, replayed on the real code in
corpus/C09/GRD1_greedy_min_charging_power.json): a vehicle with `min_charging_power = 3 kW` at SoC 87/100 that wants
9/10 needs 1.2 kW, `clamp_power` turns that into 0, and greedy leaves it at 87/100 in all four steps
although the connector offers ≥ 10 kW — the full-power bound `87/100 + 4·5/40 ≥ 9/10` is NOT met. -/
example : runSteps .greedy toyOps toyEnv toyWMin toyDsAmple = .ok toyWsMin ∧
    toyWsMin.map (fun w => socOf toyOps w "v1") =
      [some (87/100), some (87/100), some (87/100), some (87/100)] ∧
    (9/10 : ℚ) - 1/100000 ≤
      87/100 + fullGain toyOps toyEnv.tsPerHour (87/100) 11 (toyCap (87/100)) "GC1" toyDsAmple :=
  ⟨toy_runMin, toy_socsMin, by decide +kernel⟩

/-- Non-vacuity with a stationary battery at the connector (`toyWBat`): the same bound, the same run. -/
example : (∃ s, socOf toyOps (toyWsGB.getLastD toyWBat) "v1" = some s ∧
      min ((9/10 : ℚ) - 1/100000) (1/2 + 27/80) ≤ s) ∧
    toyWsGB.map (fun w => socOf toyOps w "v1") = [some (5/8), some (7/10), some (57/80), some (67/80)] := by
  refine ⟨?_, toy_socsGB⟩
  have hg : fullGain toyOps toyEnv.tsPerHour toyV1.bat 11 (toyCap toyV1.bat) "GC1" toyDs = 27/80 := by
    decide +kernel
  have := C09_greedy_run_lower_partial toyOps toy_law 1 toyCap toyEnv toy_lin (by decide +kernel)
    (by decide +kernel) toyWBat toyV1 rfl toy_vehOk rfl "CS1" "GC1" 11 rfl toy_stationBat ["v2"] toy_sortedBat
    toyDs (fun d hd => (toy_dear d hd).1) (toyWsGB.getLastD toyWBat)
    (runLast_of_runSteps .greedy toyOps toyDs toyEnv toyWBat toyWsGB toy_runGB)
  rw [hg] at this
  exact this

/-- **Greedy with a minimum charging power (finding GRD1, the positive side).**  The vehicle served
first, vehicle minimum power `mp ≥ 0` (station minimum 0): it leaves within ONE minimum-power step of
its desired SoC or on the full-power trajectory —
`SoC ≥ min(desired − max(EPS, mp·gain), s0 + Σ_k F_k·gain)`, where `F_k` is the full available power of
step `k` if station and connector offer at least `mp` there, and 0 otherwise (`minFullPower`).
`mp·gain = mp·Δt·η/c` is exactly the bound by which the C09 oracle recognises GRD1; with `mp = 0` this is
`C09_greedy_run_lower_partial`.  The witness below shows that the loss of up to `mp·gain` really occurs.
`_partial`: first vehicle, price above the threshold. -/
theorem C09_greedy_run_lower_minpower_partial (ops : BatOps α B) (law : BatLaw ops) (top : α) (cap : B → α)
    (env : StratEnv α) (lin : LinearLoad ops env.tsPerHour top cap) (heps : 0 ≤ env.eps)
    (ht : 0 < env.tsPerHour) (w : SWorld α B) (v0 : VehicleS α B) (hveh : w.vehicle? v0.id = some v0)
    (hv : VehOk ops top v0) (hmp : 0 ≤ v0.minChargingPower) (csId gid : String) (mx : α)
    (hcs : v0.cs = some csId) (hst : StationIs w csId gid mx)
    (rest : List String) (hfirst : sortedVehicleIds w = v0.id :: rest)
    (ds : List (StepGcs α)) (hdear : ∀ d ∈ ds, Dear env d)
    (wl : SWorld α B) (hrun : runLast .greedy ops env w ds = .ok wl) :
    ∃ s, socOf ops wl v0.id = some s ∧
      min (v0.desiredSoc - max env.eps (v0.minChargingPower * gain ops env.tsPerHour v0.bat))
        (ops.soc v0.bat +
          minFullGain ops env.tsPerHour v0.bat v0.minChargingPower mx (cap v0.bat) gid ds) ≤ s := by
  obtain ⟨b, hb', _, hle⟩ := runLast_greedy_first_min ops law top cap v0 hv hmp csId gid mx hcs w hst rest hfirst
    ds env w (ops.soc v0.bat) wl lin heps ht hdear (keep_refl w)
    ⟨v0.bat, hveh, Up.refl _ _ _, min_le_right _ _⟩ hrun
  exact ⟨ops.soc b, by unfold socOf; rw [hb']; rfl, hle⟩

/-- Non-vacuity and witness of the stall: a vehicle with a 3 kW minimum power charges 1/2 → 5/8 → 3/4 → 7/8 at
5 kW, then needs 1 kW < 3 kW and stays at 7/8: below `9/10 − EPS` (the property is violated) but within
one minimum-power step `3·1/40` of 9/10, as the theorem says (`min(9/10 − 3/40, 1/2 + 4·5/40) = 33/40 ≤ 7/8`). -/
example : (∃ s, socOf toyOps (toyWsMin2.getLastD toyWMin2) "v1" = some s ∧
      min ((9/10 : ℚ) - max (1/100000) (3 * (1/40))) (1/2 + 1/2) ≤ s) ∧
    toyWsMin2.map (fun w => socOf toyOps w "v1") = [some (5/8), some (3/4), some (7/8), some (7/8)] ∧
    (7/8 : ℚ) < 9/10 - 1/100000 := by
  refine ⟨?_, toy_socsMin2, by norm_num⟩
  have hg : minFullGain toyOps toyEnv.tsPerHour toyVMin.bat toyVMin.minChargingPower 11 (toyCap toyVMin.bat)
      "GC1" toyDsAmple = 1/2 := by decide +kernel
  have hgain : gain toyOps toyEnv.tsPerHour toyVMin.bat = 1/40 := by decide +kernel
  have := C09_greedy_run_lower_minpower_partial toyOps toy_law 1 toyCap toyEnv toy_lin (by decide +kernel)
    (by decide +kernel) toyWMin2 toyVMin rfl toy_vehOkMin (by decide +kernel) "CS1" "GC1" 11 rfl toy_stationMin
    [] toy_sortedMin2 toyDsAmple toy_dearAmple (toyWsMin2.getLastD toyWMin2)
    (runLast_of_runSteps .greedy toyOps toyDsAmple toyEnv toyWMin2 toyWsMin2 toy_runMin2)
  rw [hg, hgain] at this
  exact this

/-- **Greedy meets a feasible demand by departure** (first sentence of the property, for the vehicle
served first): if charging at full available power throughout the standing period reaches the desired
SoC, greedy leaves with `SoC ≥ desired − EPS`.  `_partial`: exclusions of
`C09_greedy_run_lower_partial`. -/
theorem C09_greedy_run_feasible_partial (ops : BatOps α B) (law : BatLaw ops) (top : α) (cap : B → α)
    (env : StratEnv α)
    (lin : LinearLoad ops env.tsPerHour top cap) (heps : 0 ≤ env.eps) (ht : 0 < env.tsPerHour)
    (w : SWorld α B) (v0 : VehicleS α B) (hveh : w.vehicle? v0.id = some v0) (hv : VehOk ops top v0)
    (hvm : v0.minChargingPower = 0) (csId gid : String) (mx : α) (hcs : v0.cs = some csId)
    (hst : StationIs w csId gid mx)
    (rest : List String) (hfirst : sortedVehicleIds w = v0.id :: rest)
    (ds : List (StepGcs α)) (hdear : ∀ d ∈ ds, Dear env d)
    (hfeasible : v0.desiredSoc ≤ ops.soc v0.bat + fullGain ops env.tsPerHour v0.bat mx (cap v0.bat) gid ds)
    (wl : SWorld α B) (hrun : runLast .greedy ops env w ds = .ok wl) :
    ∃ s, socOf ops wl v0.id = some s ∧ v0.desiredSoc - env.eps ≤ s := by
  obtain ⟨s, hs, hle⟩ := C09_greedy_run_lower_partial ops law top cap env lin heps ht w v0 hveh hv hvm csId gid mx
    hcs hst rest hfirst ds hdear wl hrun
  refine ⟨s, hs, le_trans (le_min (le_refl _) ?_) hle⟩
  linarith

/-- Non-vacuity: on the wide connector `v1` (1/2 → 9/10, 5 kW = 1/8 per step) is feasible in four steps
(1/2 + 4/8 ≥ 9/10) and the kernel-evaluated run ends within `EPS` of 9/10. -/
example : ∃ s, socOf toyOps (toyWsW.getLastD toyW) "v1" = some s ∧ (9/10 : ℚ) - 1/100000 ≤ s :=
  C09_greedy_run_feasible_partial toyOps toy_law 1 toyCap toyEnv toy_lin (by decide +kernel) (by decide +kernel)
    toyW toyV1 rfl toy_vehOk rfl "CS1" "GC1" 11 rfl toy_station ["v2"] toy_sorted toyDsWide
    (fun d hd => (toy_wide d hd).1) (by decide +kernel) (toyWsW.getLastD toyW)
    (runLast_of_runSteps .greedy toyOps toyDsWide toyEnv toyW toyWsW toy_runW)

/-- **…and so does every other vehicle when the connector headroom never binds**: any vehicle (any
position of the id order) whose station serves only this vehicle, when in every step the connector
headroom is at least (number of vehicles) × `M`, `M` a bound of every station's maximum — the connector
can supply all stations at once —: after `ds.length` steps
`SoC ≥ min(desired − EPS, s0 + ds.length · max(min(station maximum, curve cap), 0) · gain)`.
Excluded as in `C09_greedy_run_lower_partial`: minimum-power cut-off, steps at a
price at or below the threshold (hence `_partial`); contracts `BatLaw` + `LinearLoad`. -/
theorem C09_greedy_run_lower_ample_partial (ops : BatOps α B) (law : BatLaw ops) (top : α) (cap : B → α)
    (env : StratEnv α) (lin : LinearLoad ops env.tsPerHour top cap) (heps : 0 ≤ env.eps)
    (ht : 0 < env.tsPerHour) (w : SWorld α B) (v0 : VehicleS α B) (hveh : w.vehicle? v0.id = some v0)
    (hv : VehOk ops top v0) (hvm : v0.minChargingPower = 0) (csId gid : String) (mx M : α) (hM : 0 ≤ M)
    (hcs : v0.cs = some csId) (hst : StationIs w csId gid mx)
    (hstn : ∀ s ∈ w.stations, 0 ≤ s.maxPower ∧ s.maxPower ≤ M)
    (hsolo : ∀ u ∈ w.vehicles, u.cs = some csId → u.id = v0.id)
    (ds : List (StepGcs α))
    (hample : ∀ d ∈ ds, Dear env d ∧ (w.vehicles.length : α) * M ≤ headroom d gid)
    (wl : SWorld α B) (hrun : runLast .greedy ops env w ds = .ok wl) :
    ∃ s, socOf ops wl v0.id = some s ∧
      min (v0.desiredSoc - env.eps)
        (ops.soc v0.bat + (ds.length : α) * (max (min mx (cap v0.bat)) 0 * gain ops env.tsPerHour v0.bat))
        ≤ s := by
  obtain ⟨b, hb', _, hle⟩ := runLast_greedy_ample ops law top cap v0 hv hvm csId gid mx M hM hcs w hst hstn ds
    env w (ops.soc v0.bat) wl lin heps ht hample (keep_refl w) hsolo
    ⟨v0.bat, hveh, Up.refl _ _ _, min_le_right _ _⟩ hrun
  exact ⟨ops.soc b, by unfold socOf; rw [hb']; rfl, hle⟩

/-- Non-vacuity: `v2` is served after `v1` at a 40 kW connector (headroom ≥ 30 kW ≥ 2 × 11 kW in each of
the four steps): bound `min(1 − 1/100000, 1/5 + 4 · 5/40) = 7/10`, attained by the kernel-evaluated run
13/40, 9/20, 23/40, 7/10. -/
example : (∃ s, socOf toyOps (toyWsW.getLastD toyW) "v2" = some s ∧
      min ((1 : ℚ) - 1/100000) (1/5 + 4 * (5 * (1/40))) ≤ s) ∧
    toyWsW.map (fun w => socOf toyOps w "v2") = [some (13/40), some (9/20), some (23/40), some (7/10)] := by
  refine ⟨?_, toy_socsW⟩
  have := C09_greedy_run_lower_ample_partial toyOps toy_law 1 toyCap toyEnv toy_lin (by decide +kernel)
    (by decide +kernel) toyW toyV2 rfl toy_vehOk2 rfl "CS2" "GC1" 11 11 (by norm_num) rfl toy_station2
    toy_stations_bound toy_solo2 toyDsWide toy_wide (toyWsW.getLastD toyW)
    (runLast_of_runSteps .greedy toyOps toyDsWide toyEnv toyW toyWsW toy_runW)
  have e : ((toyDsWide.length : ℚ)) * (max (min 11 (toyCap toyV2.bat)) 0 * gain toyOps toyEnv.tsPerHour toyV2.bat)
      = 4 * (5 * (1/40)) := by decide +kernel
  rw [e] at this
  exact this

/-- **Greedy at a shared, possibly binding connector, any position of the id order.**  The vehicle is
served after the `j = pre.length` vehicles with smaller ids; each of them takes at most `M` (a bound of
every station's maximum) from the connector, so in step `k` the vehicle finds at least
`headroom_k − j·M`: after `ds.length` steps
`SoC ≥ min(desired − EPS, s0 + Σ_k max(min(headroom_k − j·M, station maximum, curve cap), 0) · gain)`.
`j = 0` is `C09_greedy_run_lower_partial`; `headroom_k ≥ (#vehicles)·M` gives
`C09_greedy_run_lower_ample_partial`.  The vehicle's station serves only this vehicle.  `_partial`: the
bound for later vehicles is conservative (earlier vehicles usually take less than `M`), and minimum-power
cut-off and prices at or below the threshold are excluded. -/
theorem C09_greedy_run_lower_shared_partial (ops : BatOps α B) (law : BatLaw ops) (top : α) (cap : B → α)
    (env : StratEnv α) (lin : LinearLoad ops env.tsPerHour top cap) (heps : 0 ≤ env.eps)
    (ht : 0 < env.tsPerHour) (w : SWorld α B) (v0 : VehicleS α B) (hveh : w.vehicle? v0.id = some v0)
    (hv : VehOk ops top v0) (hvm : v0.minChargingPower = 0) (csId gid : String) (mx M : α) (hM : 0 ≤ M)
    (hcs : v0.cs = some csId) (hst : StationIs w csId gid mx)
    (hstn : ∀ s ∈ w.stations, 0 ≤ s.maxPower ∧ s.maxPower ≤ M)
    (hsolo : ∀ u ∈ w.vehicles, u.cs = some csId → u.id = v0.id)
    (pre post : List String) (hsort : sortedVehicleIds w = pre ++ v0.id :: post) (hnot : v0.id ∉ pre)
    (ds : List (StepGcs α)) (hdear : ∀ d ∈ ds, Dear env d)
    (wl : SWorld α B) (hrun : runLast .greedy ops env w ds = .ok wl) :
    ∃ s, socOf ops wl v0.id = some s ∧
      min (v0.desiredSoc - env.eps)
        (ops.soc v0.bat + sharedGain ops env.tsPerHour v0.bat mx (cap v0.bat) M pre.length gid ds) ≤ s := by
  obtain ⟨b, hb', _, hle⟩ := runLast_greedy_shared ops law top cap v0 hv hvm csId gid mx M hM hcs w pre post hsort
    hnot hst hstn ds env w (ops.soc v0.bat) wl lin heps ht hdear (keep_refl w) hsolo
    ⟨v0.bat, hveh, Up.refl _ _ _, min_le_right _ _⟩ hrun
  exact ⟨ops.soc b, by unfold socOf; rw [hb']; rfl, hle⟩

/-- Non-vacuity: `v2` is served after `v1` (`j = 1`, `M = 11`) at the 20 kW connector whose headroom is
18, 3, 1/2, 18 kW: it is guaranteed min(18 − 11, 11, 5) = 5 kW in the first and last step and nothing in
between — bound `1/5 + (5 + 0 + 0 + 5)/40 = 9/20`, attained exactly by the kernel-evaluated run
(`toy_socsG`: 13/40, 13/40, 13/40, 9/20). -/
example : sharedGain toyOps toyEnv.tsPerHour toyV2.bat 11 (toyCap toyV2.bat) 11 1 "GC1" toyDs = 1/4 ∧
    ∃ s, socOf toyOps (toyWsG.getLastD toyW) "v2" = some s ∧
      min ((1 : ℚ) - 1/100000) (1/5 + 1/4) ≤ s := by
  have hg : sharedGain toyOps toyEnv.tsPerHour toyV2.bat 11 (toyCap toyV2.bat) 11 1 "GC1" toyDs = 1/4 := by
    decide +kernel
  refine ⟨hg, ?_⟩
  have := C09_greedy_run_lower_shared_partial toyOps toy_law 1 toyCap toyEnv toy_lin (by decide +kernel)
    (by decide +kernel) toyW toyV2 rfl toy_vehOk2 rfl "CS2" "GC1" 11 11 (by norm_num) rfl toy_station2
    toy_stations_bound toy_solo2 ["v1"] [] toy_sorted2 (by decide) toyDs (fun d hd => (toy_dear d hd).1)
    (toyWsG.getLastD toyW) (runLast_of_runSteps .greedy toyOps toyDs toyEnv toyW toyWsG toy_runG)
  have e : ([("v1" : String)].length) = 1 := rfl
  rw [e, hg] at this
  exact this

/-- **Balanced reaches `desired − EPS` at the departure step** (the vehicle served first; ample power:
in every step station, curve cap and connector headroom allow the constant power
`(desired − s0)·c/η·ts_per_hour / N`; `N = ⌈(etd − now)/interval⌉ ≥ 1` remaining steps — the ceiling,
so off-grid departure times are covered): after `k = ds.length ≤ N` steps
`SoC ≥ min(desired − EPS, balancedSoc desired s0 N k)` — the iterated step model follows (or is ahead
of) the scalar recurrence of `C09_balanced_const` until it stops within `EPS` of the desired SoC —,
hence after all `N` steps `SoC ≥ desired − EPS`.

`_partial`: excluded are vehicles served later (their headroom depends on the earlier ones), the
minimum-power cut-off, steps at a price at or below the threshold; a binding
headroom is outside the hypothesis `hample`. -/
theorem C09_balanced_run_reaches_partial (ops : BatOps α B) (law : BatLaw ops) (top : α) (cap : B → α)
    (env : StratEnv α)
    (lin : LinearLoad ops env.tsPerHour top cap) (heps : 0 ≤ env.eps) (ht : 0 < env.tsPerHour)
    (hI : 0 < env.interval)
    (w : SWorld α B) (v0 : VehicleS α B) (hveh : w.vehicle? v0.id = some v0) (hv : VehOk ops top v0)
    (hvm : v0.minChargingPower = 0) (csId gid : String) (mx : α) (hcs : v0.cs = some csId)
    (etd : Int) (hetd : v0.etd = some etd) (N : ℕ) (hN : ceilDiv (etd - env.now) env.interval = (N : Int))
    (hNpos : 0 < N) (hs0 : ops.soc v0.bat ≤ v0.desiredSoc)
    (hst : StationIs w csId gid mx)
    (rest : List String) (hfirst : sortedVehicleIds w = v0.id :: rest)
    (ds : List (StepGcs α)) (hlen : ds.length ≤ N)
    (hample : ∀ d ∈ ds, Dear env d ∧
      (v0.desiredSoc - ops.soc v0.bat) / (N : α)
        ≤ fullPower mx (cap v0.bat) d gid * gain ops env.tsPerHour v0.bat)
    (wl : SWorld α B) (hrun : runLast .balanced ops env w ds = .ok wl) :
    ∃ s, socOf ops wl v0.id = some s ∧
      min (v0.desiredSoc - env.eps) (balancedSoc v0.desiredSoc (ops.soc v0.bat) N ds.length) ≤ s ∧
      (ds.length = N → v0.desiredSoc - env.eps ≤ s) := by
  have hNα : (0 : α) < (N : α) := by exact_mod_cast hNpos
  have hG : 0 ≤ (v0.desiredSoc - ops.soc v0.bat) / (N : α) := div_nonneg (by linarith) hNα.le
  have hcast : ((ceilDiv (etd - env.now) env.interval : Int) : α) = (N : α) := by rw [hN]; simp
  obtain ⟨b, hb', _, hle⟩ := runLast_balanced_first_gen ops law top cap v0 hv hvm csId gid mx hcs etd hetd w hst
    rest hfirst 0 _ (le_refl 0) hG ds env w wl lin heps ht hI hample (by rw [hN]; exact_mod_cast hlen)
    (keep_refl w)
    ⟨v0.bat, hveh, Up.refl _ _ _, by
      rw [hcast, zero_add]
      refine le_trans (min_le_right _ _) ?_
      have : (v0.desiredSoc - ops.soc v0.bat) / (N : α) * (N : α) = v0.desiredSoc - ops.soc v0.bat :=
        div_mul_cancel₀ _ (ne_of_gt hNα)
      linarith⟩ hrun
  rw [hcast, zero_add] at hle
  have hbs : v0.desiredSoc - (v0.desiredSoc - ops.soc v0.bat) / (N : α) * ((N : α) - (ds.length : α))
      = balancedSoc v0.desiredSoc (ops.soc v0.bat) N ds.length := by
    have := balancedSoc_gap v0.desiredSoc (ops.soc v0.bat) N ds.length hlen hNpos
    have hne : (N : α) ≠ 0 := ne_of_gt hNα
    have e : (v0.desiredSoc - ops.soc v0.bat) / (N : α) * ((N : α) - (ds.length : α))
        = (v0.desiredSoc - ops.soc v0.bat) * (((N : α) - (ds.length : α)) / (N : α)) := by
      field_simp
    rw [e, ← this]; ring
  rw [hbs] at hle
  refine ⟨ops.soc b, by unfold socOf; rw [hb']; rfl, hle, fun hfull => ?_⟩
  rw [hfull, C09_balanced_const _ _ N hNpos] at hle
  rwa [min_eq_left (by linarith)] at hle


/-- Non-vacuity: `v1` announces its departure at 59 min (off the 15-minute grid): `N = ⌈59/15⌉ = 4`; the
quota 1/10 per step (4 kW) is admitted in every step (≥ 10 kW headroom, 11 kW station, 5 kW curve);
the kernel-evaluated run is 3/5, 7/10, 4/5, 9/10 — at the desired SoC after the fourth step. -/
example : (∃ s, socOf toyOps (toyWsB.getLastD toyW) "v1" = some s ∧ (9/10 : ℚ) - 1/100000 ≤ s) ∧
    toyWsB.map (fun w => socOf toyOps w "v1") = [some (3/5), some (7/10), some (4/5), some (9/10)] := by
  refine ⟨?_, toy_socsB⟩
  obtain ⟨s, hs, _, h3⟩ := C09_balanced_run_reaches_partial toyOps toy_law 1 toyCap toyEnv toy_lin (by decide +kernel)
    (by decide +kernel) (by decide) toyW toyV1 rfl toy_vehOk rfl "CS1" "GC1" 11 rfl 3540000000 rfl 4
    (by decide +kernel) (by decide) (by decide +kernel) toy_station ["v2"] toy_sorted toyDsAmple
    (by decide) (fun d hd => ⟨toy_dearAmple d hd, by
      simp only [toyDsAmple, List.mem_cons, List.mem_nil_iff, or_false] at hd
      rcases hd with rfl | rfl | rfl | rfl <;> decide +kernel⟩)
    (toyWsB.getLastD toyW) (runLast_of_runSteps .balanced toyOps toyDsAmple toyEnv toyW toyWsB toy_runB)
  exact ⟨s, hs, h3 rfl⟩

/-- **Balanced when the available power binds (constant bound).**  The vehicle served first; `P ≥ 0` a
constant lower bound (in SoC per step) of what station, curve cap and connector headroom allow in
every step of the standing period; `N = ⌈(etd − now)/interval⌉` remaining steps.  After
`k = ds.length ≤ N` steps the gap to the desired SoC is at most
`max(EPS, max(gap₀ − N·P, 0) + P·(N − k))`, hence after all `N` steps
`SoC ≥ min(desired − EPS, s0 + N·P)`: balanced reaches the desired SoC whenever charging at the
constant power `P` throughout would — and otherwise loses nothing against it.
(`C09_balanced_run_reaches_partial` is the case `N·P ≥ gap₀`.)  `_partial`: exclusions as there. -/
theorem C09_balanced_run_binding_partial (ops : BatOps α B) (law : BatLaw ops) (top : α) (cap : B → α)
    (env : StratEnv α)
    (lin : LinearLoad ops env.tsPerHour top cap) (heps : 0 ≤ env.eps) (ht : 0 < env.tsPerHour)
    (hI : 0 < env.interval)
    (w : SWorld α B) (v0 : VehicleS α B) (hveh : w.vehicle? v0.id = some v0) (hv : VehOk ops top v0)
    (hvm : v0.minChargingPower = 0) (csId gid : String) (mx : α) (hcs : v0.cs = some csId)
    (etd : Int) (hetd : v0.etd = some etd) (N : ℕ) (hN : ceilDiv (etd - env.now) env.interval = (N : Int))
    (hst : StationIs w csId gid mx)
    (rest : List String) (hfirst : sortedVehicleIds w = v0.id :: rest)
    (ds : List (StepGcs α)) (hlen : ds.length ≤ N) (P : α) (hP : 0 ≤ P)
    (hfull : ∀ d ∈ ds, Dear env d ∧ P ≤ fullPower mx (cap v0.bat) d gid * gain ops env.tsPerHour v0.bat)
    (wl : SWorld α B) (hrun : runLast .balanced ops env w ds = .ok wl) :
    ∃ s, socOf ops wl v0.id = some s ∧
      min (v0.desiredSoc - env.eps)
        (v0.desiredSoc - (max (v0.desiredSoc - ops.soc v0.bat - (N : α) * P) 0
          + P * ((N : α) - (ds.length : α)))) ≤ s ∧
      (ds.length = N → min (v0.desiredSoc - env.eps) (ops.soc v0.bat + (N : α) * P) ≤ s) := by
  have hcast : ((ceilDiv (etd - env.now) env.interval : Int) : α) = (N : α) := by rw [hN]; simp
  obtain ⟨b, hb', _, hle⟩ := runLast_balanced_first_gen ops law top cap v0 hv hvm csId gid mx hcs etd hetd w hst
    rest hfirst (max (v0.desiredSoc - ops.soc v0.bat - (N : α) * P) 0) P (le_max_right _ _) hP ds env w wl
    lin heps ht hI hfull (by rw [hN]; exact_mod_cast hlen) (keep_refl w)
    ⟨v0.bat, hveh, Up.refl _ _ _, by
      rw [hcast]
      refine le_trans (min_le_right _ _) ?_
      have := le_max_left (v0.desiredSoc - ops.soc v0.bat - (N : α) * P) 0
      linarith⟩ hrun
  rw [hcast] at hle
  refine ⟨ops.soc b, by unfold socOf; rw [hb']; rfl, hle, fun hfl => ?_⟩
  rw [hfl, sub_self, mul_zero, add_zero] at hle
  refine le_trans ?_ hle
  apply le_min (min_le_left _ _)
  rcases le_total (v0.desiredSoc - ops.soc v0.bat - (N : α) * P) 0 with h | h
  · rw [max_eq_right h]
    refine le_trans (min_le_left _ _) ?_
    linarith
  · rw [max_eq_left h]
    refine le_trans (min_le_right _ _) ?_
    linarith

/-- Non-vacuity: only 3 kW of connector headroom in each of the four steps (`P = 3/40`): bound
`min(9/10 − 1/100000, 1/2 + 4·3/40) = 4/5`, attained by the kernel-evaluated run 23/40, 13/20, 29/40, 4/5. -/
example : (∃ s, socOf toyOps (toyWsT.getLastD toyW) "v1" = some s ∧
      min ((9/10 : ℚ) - 1/100000) (1/2 + 4 * (3/40)) ≤ s) ∧
    toyWsT.map (fun w => socOf toyOps w "v1") = [some (23/40), some (13/20), some (29/40), some (4/5)] := by
  refine ⟨?_, toy_socsT⟩
  obtain ⟨s, hs, _, h3⟩ := C09_balanced_run_binding_partial toyOps toy_law 1 toyCap toyEnv toy_lin (by decide +kernel)
    (by decide +kernel) (by decide) toyW toyV1 rfl toy_vehOk rfl "CS1" "GC1" 11 rfl 3540000000 rfl 4
    (by decide +kernel) toy_station ["v2"] toy_sorted toyDsTight (by decide) (3/40) (by norm_num)
    toy_tight (toyWsT.getLastD toyW)
    (runLast_of_runSteps .balanced toyOps toyDsTight toyEnv toyW toyWsT toy_runT)
  exact ⟨s, hs, h3 rfl⟩

/-- **Balanced for any vehicle when the connector headroom never binds** (any position of the id order;
the station serves only this vehicle; in every step headroom ≥ (number of vehicles) × `M`, `M` a bound of
every station's maximum): with `P ≥ 0` at most what station maximum and curve cap allow per step, the
conclusion of `C09_balanced_run_binding_partial` holds; in particular with `P = gap₀/N` (admissible
constant power) the vehicle leaves with `SoC ≥ desired − EPS`.  `_partial`: minimum-power cut-off,
prices at or below the threshold are excluded. -/
theorem C09_balanced_run_ample_partial (ops : BatOps α B) (law : BatLaw ops) (top : α) (cap : B → α)
    (env : StratEnv α) (lin : LinearLoad ops env.tsPerHour top cap) (heps : 0 ≤ env.eps)
    (ht : 0 < env.tsPerHour) (hI : 0 < env.interval)
    (w : SWorld α B) (v0 : VehicleS α B) (hveh : w.vehicle? v0.id = some v0) (hv : VehOk ops top v0)
    (hvm : v0.minChargingPower = 0) (csId gid : String) (mx M : α) (hM : 0 ≤ M) (hcs : v0.cs = some csId)
    (etd : Int) (hetd : v0.etd = some etd) (N : ℕ) (hN : ceilDiv (etd - env.now) env.interval = (N : Int))
    (hst : StationIs w csId gid mx)
    (hstn : ∀ s ∈ w.stations, 0 ≤ s.maxPower ∧ s.maxPower ≤ M)
    (hsolo : ∀ u ∈ w.vehicles, u.cs = some csId → u.id = v0.id)
    (ds : List (StepGcs α)) (hlen : ds.length ≤ N) (P : α) (hP : 0 ≤ P)
    (hfull : P ≤ max (min mx (cap v0.bat)) 0 * gain ops env.tsPerHour v0.bat)
    (hample : ∀ d ∈ ds, Dear env d ∧ (w.vehicles.length : α) * M ≤ headroom d gid)
    (wl : SWorld α B) (hrun : runLast .balanced ops env w ds = .ok wl) :
    ∃ s, socOf ops wl v0.id = some s ∧
      min (v0.desiredSoc - env.eps)
        (v0.desiredSoc - (max (v0.desiredSoc - ops.soc v0.bat - (N : α) * P) 0
          + P * ((N : α) - (ds.length : α)))) ≤ s ∧
      (ds.length = N → min (v0.desiredSoc - env.eps) (ops.soc v0.bat + (N : α) * P) ≤ s) := by
  have hcast : ((ceilDiv (etd - env.now) env.interval : Int) : α) = (N : α) := by rw [hN]; simp
  obtain ⟨b, hb', _, hle⟩ := runLast_balanced_ample ops law top cap v0 hv hvm csId gid mx M hM hcs etd hetd w
    hst hstn (max (v0.desiredSoc - ops.soc v0.bat - (N : α) * P) 0) P (le_max_right _ _) hP ds env w wl
    lin heps ht hI hfull hample (by rw [hN]; exact_mod_cast hlen) (keep_refl w) hsolo
    ⟨v0.bat, hveh, Up.refl _ _ _, by
      rw [hcast]
      refine le_trans (min_le_right _ _) ?_
      have := le_max_left (v0.desiredSoc - ops.soc v0.bat - (N : α) * P) 0
      linarith⟩ hrun
  rw [hcast] at hle
  refine ⟨ops.soc b, by unfold socOf; rw [hb']; rfl, hle, fun hfl => ?_⟩
  rw [hfl, sub_self, mul_zero, add_zero] at hle
  refine le_trans ?_ hle
  apply le_min (min_le_left _ _)
  rcases le_total (v0.desiredSoc - ops.soc v0.bat - (N : α) * P) 0 with h | h
  · rw [max_eq_right h]
    refine le_trans (min_le_left _ _) ?_
    linarith
  · rw [max_eq_left h]
    refine le_trans (min_le_right _ _) ?_
    linarith

/-- Non-vacuity: `v2` (served after `v1`, 8 steps to its departure, gap 4/5, `P = 1/10` = 4 kW ≤ 5 kW curve)
at the 40 kW connector: after 4 of the 8 steps `SoC ≥ 1 − (0 + 1/10·(8 − 4)) = 3/5`, attained by the
kernel-evaluated run 3/10, 2/5, 1/2, 3/5. -/
example : (∃ s, socOf toyOps (toyWsWB.getLastD toyW) "v2" = some s ∧
      min ((1 : ℚ) - 1/100000) (1 - (max (1 - 1/5 - 8 * (1/10)) 0 + 1/10 * (8 - 4))) ≤ s) ∧
    toyWsWB.map (fun w => socOf toyOps w "v2") = [some (3/10), some (2/5), some (1/2), some (3/5)] := by
  refine ⟨?_, toy_socsWB⟩
  obtain ⟨s, hs, h2, _⟩ := C09_balanced_run_ample_partial toyOps toy_law 1 toyCap toyEnv toy_lin
    (by decide +kernel) (by decide +kernel) (by decide) toyW toyV2 rfl toy_vehOk2 rfl "CS2" "GC1" 11 11
    (by norm_num) rfl 7200000000 rfl 8 (by decide +kernel) toy_station2 toy_stations_bound toy_solo2
    toyDsWide (by decide) (1/10) (by norm_num) (by decide +kernel) toy_wide (toyWsWB.getLastD toyW)
    (runLast_of_runSteps .balanced toyOps toyDsWide toyEnv toyW toyWsWB toy_runWB)
  refine ⟨s, hs, ?_⟩
  have e : ((toyDsWide.length : ℚ)) = 4 := by decide +kernel
  rw [e] at h2
  exact h2

/-- **Balanced at a shared, possibly binding connector, any position of the id order**: as
`C09_balanced_run_binding_partial`, for the vehicle served after `j = pre.length` others, with `P` at most
what `headroom_k − j·M`, the station and the curve allow in every step (`sharedPower`).  `_partial`:
exclusions as in `C09_greedy_run_lower_shared_partial`. -/
theorem C09_balanced_run_shared_partial (ops : BatOps α B) (law : BatLaw ops) (top : α) (cap : B → α)
    (env : StratEnv α) (lin : LinearLoad ops env.tsPerHour top cap) (heps : 0 ≤ env.eps)
    (ht : 0 < env.tsPerHour) (hI : 0 < env.interval)
    (w : SWorld α B) (v0 : VehicleS α B) (hveh : w.vehicle? v0.id = some v0) (hv : VehOk ops top v0)
    (hvm : v0.minChargingPower = 0) (csId gid : String) (mx M : α) (hM : 0 ≤ M) (hcs : v0.cs = some csId)
    (etd : Int) (hetd : v0.etd = some etd) (N : ℕ) (hN : ceilDiv (etd - env.now) env.interval = (N : Int))
    (hst : StationIs w csId gid mx)
    (hstn : ∀ s ∈ w.stations, 0 ≤ s.maxPower ∧ s.maxPower ≤ M)
    (hsolo : ∀ u ∈ w.vehicles, u.cs = some csId → u.id = v0.id)
    (pre post : List String) (hsort : sortedVehicleIds w = pre ++ v0.id :: post) (hnot : v0.id ∉ pre)
    (ds : List (StepGcs α)) (hlen : ds.length ≤ N) (P : α) (hP : 0 ≤ P)
    (hfull : ∀ d ∈ ds, Dear env d ∧
      P ≤ sharedPower mx (cap v0.bat) M pre.length d gid * gain ops env.tsPerHour v0.bat)
    (wl : SWorld α B) (hrun : runLast .balanced ops env w ds = .ok wl) :
    ∃ s, socOf ops wl v0.id = some s ∧
      min (v0.desiredSoc - env.eps)
        (v0.desiredSoc - (max (v0.desiredSoc - ops.soc v0.bat - (N : α) * P) 0
          + P * ((N : α) - (ds.length : α)))) ≤ s ∧
      (ds.length = N → min (v0.desiredSoc - env.eps) (ops.soc v0.bat + (N : α) * P) ≤ s) := by
  have hcast : ((ceilDiv (etd - env.now) env.interval : Int) : α) = (N : α) := by rw [hN]; simp
  obtain ⟨b, hb', _, hle⟩ := runLast_balanced_shared ops law top cap v0 hv hvm csId gid mx M hM hcs etd hetd w
    pre post hsort hnot hst hstn (max (v0.desiredSoc - ops.soc v0.bat - (N : α) * P) 0) P (le_max_right _ _) hP
    ds env w wl lin heps ht hI hfull (by rw [hN]; exact_mod_cast hlen) (keep_refl w) hsolo
    ⟨v0.bat, hveh, Up.refl _ _ _, by
      rw [hcast]
      refine le_trans (min_le_right _ _) ?_
      have := le_max_left (v0.desiredSoc - ops.soc v0.bat - (N : α) * P) 0
      linarith⟩ hrun
  rw [hcast] at hle
  refine ⟨ops.soc b, by unfold socOf; rw [hb']; rfl, hle, fun hfl => ?_⟩
  rw [hfl, sub_self, mul_zero, add_zero] at hle
  refine le_trans ?_ hle
  apply le_min (min_le_left _ _)
  rcases le_total (v0.desiredSoc - ops.soc v0.bat - (N : α) * P) 0 with h | h
  · rw [max_eq_right h]
    refine le_trans (min_le_left _ _) ?_
    linarith
  · rw [max_eq_left h]
    refine le_trans (min_le_right _ _) ?_
    linarith

/-- Non-vacuity: `v2` behind `v1` (`j = 1`, `M = 11`) at the 20 kW connector with 18, 17, 16, 18 kW of
headroom: at least min(16 − 11, 11, 5) = 5 kW are left in every step, `P = 1/10` (4 kW) is allowed; 8 steps
to the departure, after 4 of them `SoC ≥ 1 − 1/10·(8 − 4) = 3/5`, attained by the kernel-evaluated run. -/
example : (∃ s, socOf toyOps (toyWsM.getLastD toyW) "v2" = some s ∧
      min ((1 : ℚ) - 1/100000) (1 - (max (1 - 1/5 - 8 * (1/10)) 0 + 1/10 * (8 - 4))) ≤ s) ∧
    toyWsM.map (fun w => socOf toyOps w "v2") = [some (3/10), some (2/5), some (1/2), some (3/5)] := by
  refine ⟨?_, toy_socsM⟩
  obtain ⟨s, hs, h2, _⟩ := C09_balanced_run_shared_partial toyOps toy_law 1 toyCap toyEnv toy_lin
    (by decide +kernel) (by decide +kernel) (by decide) toyW toyV2 rfl toy_vehOk2 rfl "CS2" "GC1" 11 11
    (by norm_num) rfl 7200000000 rfl 8 (by decide +kernel) toy_station2 toy_stations_bound toy_solo2
    ["v1"] [] toy_sorted2 (by decide) toyDsMid (by decide) (1/10) (by norm_num) toy_mid (toyWsM.getLastD toyW)
    (runLast_of_runSteps .balanced toyOps toyDsMid toyEnv toyW toyWsM toy_runM)
  refine ⟨s, hs, ?_⟩
  have e : ((toyDsMid.length : ℚ)) = 4 := by decide +kernel
  rw [e] at h2
  exact h2

end SpiceEv
