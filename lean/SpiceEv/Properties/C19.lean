/-
C19 — Scenario generators emit well-formed, reproducible, drivable scenarios.

Property theorems only (helper lemmas: SpiceEv/Proofs/GenList.lean, GenStatistics.lean,
GenCsvEvents.lean, GenSimbev.lean).  All statements are about the executable models
`Gen.generateFromStatistics` (a function of the parameters and the recorded `generate_trip`
results), `Gen.generateFromCsv` (a function of the trip table) and `Gen.generateFromSimbev`
(a function of the parsed vehicle files), instantiated at an arbitrary linearly ordered field;
the driver runs the same definitions on `Float`/`Rat` against the real generators.

Vocabulary: `vehicleEvents v evs` — the events of vehicle `v` in list order; `flatPairs T` — the
event list `t₁.1, t₁.2, t₂.1, t₂.2, …` of a list of pairs; `ChainR R l` — `R` holds between every
two consecutive elements of `l`.

The models describe the REPAIRED generators (fixes/F5.diff, F6.diff, G1.diff).  For the pinned
code the statistics theorems about the *last* arrival of a vehicle needed the extra hypothesis the
code silently relied on: one of the three days after the end of the scenario yields an accepted
trip for that vehicle (F6); and `generateFromStatistics` raised `KeyError` for a vehicle without
any trip (F5).
-/
import SpiceEv.Proofs.GenStatistics
import SpiceEv.Proofs.GenCsvEvents
import SpiceEv.Proofs.GenSimbev
set_option linter.unusedSectionVars false
set_option linter.unusedVariables false
namespace SpiceEv
open Gen
variable {α : Type} [Field α] [LinearOrder α] [IsStrictOrderedRing α]

/-- vehicle ids built from `args.vehicles` are pairwise distinct.  (In the Python code they are
dict keys; `"{type}_{i}"` is injective because `i` is rendered without `_`.) -/
def Gen.DistinctIds (P : StatParams α) : Prop :=
  ∀ types, buildTypes P.predefined P.vehicles = .ok types → ((buildVehicles types).map (·.id)).Nodup

/-! ## statistics generator -/

/-- The fuel given to the day loop `while now < stop + 2*daily` is never exhausted, and the loop
body runs exactly for `start, start + 1 d, …, start + (days + 2) d` (three days past the end). -/
theorem C19_statistics_days (start days : Int) :
    whileDays (start + days * DAY) ((days + 3).toNat + 1) (start - DAY) = some (dayList start days) ∧
    (dayList start days).length = (days + 3).toNat := by
  refine ⟨whileDays_eq start days, ?_⟩
  simp [dayList]

/-- **Alternation (statistics).** For every draw list with positive trip durations and every
vehicle of the generated fleet: its events are `departure, arrival, departure, arrival, …` — a
list of (departure, arrival) pairs all carrying its id — in strictly increasing time. -/
theorem C19_alternate (P : StatParams α) (draws : List (Draw α)) (out : StatOut α)
    (h : generateFromStatistics P draws = .ok out) (hdur : ∀ d ∈ draws, 0 < d.duration)
    (hid : DistinctIds P) :
    ∀ v ∈ out.vehicles, ∃ T : List (Pair α), vehicleEvents v.id out.events = flatPairs T ∧
      (∀ t ∈ T, t.1.kind = .departure ∧ t.2.kind = .arrival ∧ t.1.vehicle = v.id ∧ t.2.vehicle = v.id ∧
        t.1.time < t.2.time) ∧
      ChainR (fun t t' => t.2.time < t'.1.time) T := by
  obtain ⟨vs, hv, hg⟩ := generate_structure P (fun d => 0 < d) draws out h hdur hid
  intro v hvm
  rw [hv] at hvm
  obtain ⟨w, hw, rfl⟩ := List.mem_map.mp hvm
  have hinv := hg w hw
  show ∃ T : List (Pair α), vehicleEvents w.id out.events = flatPairs T ∧ _
  cases hl : w.lastArrivalIdx with
  | none => exact ⟨[], by rw [hinv.1 hl]; rfl, by simp, trivial⟩
  | some i =>
    obtain ⟨T, D, A, h1, _, _, h4, h5, _, _⟩ := hinv.2 i hl
    refine ⟨T ++ [(D, A)], h1, ?_, chainR_imp (fun a b hab => hab.1) _ h5⟩
    intro t ht
    have := h4 t ht
    exact ⟨this.dk, this.ak, this.dv, this.av, by have := this.dur; omega⟩

/-- **Announced times (statistics)**, for every draw list (durations unrestricted): a departure
announces the start of the arrival that follows it; an arrival that is followed by a departure
announces that departure's start; the last arrival of a vehicle announces either no departure
(`None`: no trip was drawn for it after the end) or a time strictly later than itself; the initial
vehicle state announces the first departure. -/
theorem C19_times_consistent (P : StatParams α) (draws : List (Draw α)) (out : StatOut α)
    (h : generateFromStatistics P draws = .ok out) (hid : DistinctIds P) :
    ∀ v ∈ out.vehicles, ∃ T : List (Pair α), vehicleEvents v.id out.events = flatPairs T ∧
      (∀ t ∈ T, t.1.eta = some t.2.time ∧ t.2.cs = some ("CS_" ++ v.id)) ∧
      ChainR (fun t t' => t.2.etd = some t'.1.time) T ∧
      (∀ t, T.getLast? = some t → t.2.etd = none ∨ ∃ d, t.2.etd = some d ∧ t.2.time < d) ∧
      (∀ t, T.head? = some t → v.etd = some t.1.time) := by
  obtain ⟨vs, hv, hg⟩ := generate_structure P (fun _ => True) draws out h (fun _ _ => trivial) hid
  intro v hvm
  rw [hv] at hvm
  obtain ⟨w, hw, rfl⟩ := List.mem_map.mp hvm
  have hinv := hg w hw
  show ∃ T : List (Pair α), vehicleEvents w.id out.events = flatPairs T ∧ _
  cases hl : w.lastArrivalIdx with
  | none => exact ⟨[], by rw [hinv.1 hl]; rfl, by simp, trivial, by simp, by simp⟩
  | some i =>
    obtain ⟨T, D, A, h1, _, _, h4, h5, h6, h7⟩ := hinv.2 i hl
    refine ⟨T ++ [(D, A)], h1, fun t ht => ⟨(h4 t ht).eta, (h4 t ht).cs⟩,
      chainR_imp (fun a b hab => hab.2.1) _ h5, ?_, fun t ht => (h7 t ht).1⟩
    intro t ht
    have : t = (D, A) := by simpa using ht.symm
    subst this
    rcases h6 with ⟨h, _⟩ | ⟨d, h, hlt, _⟩
    · exact Or.inl h
    · exact Or.inr ⟨d, h, hlt⟩

/-- **Desired SoC (statistics)**, for every draw list: the desired SoC of a standing period that
is followed by a trip is exactly `max min_soc (consumption of that trip · (1 + buffer))` — hence
at least `min_soc` and at least the buffered consumption; the last arrival's desired SoC is at
least `min_soc` (REPAIRED code; the pinned code left `0` there when no later trip was accepted);
the initial desired SoC is at least `min_soc` and — for `min_soc ≥ 0` — at least the buffered
consumption of the first trip (the code's `or` replaces an initial value `0` by a later one). -/
theorem C19_desired_soc (P : StatParams α) (draws : List (Draw α)) (out : StatOut α)
    (h : generateFromStatistics P draws = .ok out) (hid : DistinctIds P) :
    ∀ v ∈ out.vehicles, ∃ T : List (Pair α), vehicleEvents v.id out.events = flatPairs T ∧
      ChainR (fun t t' => t.2.desired = max P.minSoc ((-t'.2.socDelta) * (1 + P.buffer)) ∧
        P.minSoc ≤ t.2.desired ∧ (-t'.2.socDelta) * (1 + P.buffer) ≤ t.2.desired) T ∧
      (∀ t, T.getLast? = some t → P.minSoc ≤ t.2.desired) ∧
      (∀ t, T.head? = some t → ∃ x, v.desired = some x ∧ P.minSoc ≤ x ∧
        (0 ≤ P.minSoc → (-t.2.socDelta) * (1 + P.buffer) ≤ x)) := by
  obtain ⟨vs, hv, hg⟩ := generate_structure P (fun _ => True) draws out h (fun _ _ => trivial) hid
  intro v hvm
  rw [hv] at hvm
  obtain ⟨w, hw, rfl⟩ := List.mem_map.mp hvm
  have hinv := hg w hw
  show ∃ T : List (Pair α), vehicleEvents w.id out.events = flatPairs T ∧ _
  cases hl : w.lastArrivalIdx with
  | none => exact ⟨[], by rw [hinv.1 hl]; rfl, trivial, by simp, by simp⟩
  | some i =>
    obtain ⟨T, D, A, h1, _, _, h4, h5, h6, h7⟩ := hinv.2 i hl
    refine ⟨T ++ [(D, A)], h1, chainR_imp ?_ _ h5, ?_, ?_⟩
    · intro a b hab
      have := hab.2.2
      unfold needOf at this
      exact ⟨this, by rw [this]; exact le_max_left _ _, by rw [this]; exact le_max_right _ _⟩
    · intro t ht
      have : t = (D, A) := by simpa using ht.symm
      subst this
      rcases h6 with ⟨_, h⟩ | ⟨d, _, _, h⟩
      · exact le_of_eq h.symm
      · exact h
    · intro t ht
      obtain ⟨_, x, hx, hmx, hor⟩ := h7 t ht
      refine ⟨x, hx, hmx, fun h0 => ?_⟩
      unfold needOf at hor
      rcases hor with rfl | hz
      · exact le_max_right _ _
      · have h1 : (-t.2.socDelta) * (1 + P.buffer) ≤ 0 := by rw [← hz]; exact le_max_right _ _
        linarith

/-- the clipping `min(max(x, lo), hi)` of `generate_trip` stays within `[lo, hi]` -/
theorem C19_clamp_range (x lo hi : α) (h : lo ≤ hi) :
    lo ≤ clampDraw x lo hi ∧ clampDraw x lo hi ≤ hi := by
  unfold clampDraw
  rw [pymin_eq, pymax_eq]
  exact ⟨le_min (le_max_right _ _) h, min_le_right _ _⟩

/-- **Consumption range (statistics).** If every recorded distance is non-negative and within
the reach of every vehicle type of the fleet (`distance · mileage / 100 ≤ capacity`, i.e.
`max_distance · mileage ≤ capacity` for distances clipped to `max_distance`), every arrival event
has `soc_delta ∈ [-1, 0]`.  (For a fleet with several types the hypothesis is stronger than
necessary: it asks every draw to be within every type's reach.) -/
theorem C19_consumption_range (P : StatParams α) (draws : List (Draw α)) (out : StatOut α)
    (h : generateFromStatistics P draws = .ok out)
    (hty : ∀ ty ∈ P.predefined, 0 < ty.capacity ∧ 0 ≤ ty.mileage ∧
      ∀ d ∈ draws, 0 ≤ d.distance ∧ d.distance * (ty.mileage / 100) ≤ ty.capacity) :
    ∀ e ∈ out.events, e.kind = .arrival → -1 ≤ e.socDelta ∧ e.socDelta ≤ 0 := by
  obtain ⟨types, vs, sh, h1, h2, _, h4, _⟩ := generate_ok P draws out h
  have hpre : ∀ p ∈ types, p.1 ∈ P.predefined := by
    -- every type of the fleet was looked up in the predefined table
    have : ∀ (l : List (Int × String)) (acc r : List (StatType α × Int)),
        l.foldlM (addType P.predefined) acc = .ok r → (∀ p ∈ acc, p.1 ∈ P.predefined) →
        ∀ p ∈ r, p.1 ∈ P.predefined := by
      intro l
      induction l with
      | nil => intro acc r hr hacc; simp [pure, Except.pure] at hr; subst hr; exact hacc
      | cons cv l ih =>
        intro acc r hr hacc
        rw [List.foldlM_cons] at hr
        cases ha : addType P.predefined acc cv with
        | error e => simp [ha, bind, Except.bind] at hr
        | ok acc' =>
          simp only [ha, bind, Except.bind] at hr
          refine ih acc' r hr ?_
          unfold addType at ha
          split at ha
          · simp at ha
          · rename_i t hfind
            have htm : t ∈ P.predefined := List.mem_of_find?_eq_some hfind
            split at ha
            · simp only [Except.ok.injEq] at ha
              subst ha
              intro p hp
              obtain ⟨q, hq, rfl⟩ := List.mem_map.mp hp
              split
              · exact htm
              · exact hacc q hq
            · simp only [Except.ok.injEq] at ha
              subst ha
              intro p hp
              rcases List.mem_append.mp hp with hp | hp
              · exact hacc p hp
              · have : p = (t, cv.1) := by simpa using hp
                subst this; exact htm
    exact this P.vehicles [] types h1 (by simp)
  have hrng := daysLoop_rng P (fun x => -1 ≤ x ∧ x ≤ 0) _ _ vs _ sh h2 ?_ (fun e he => by simp at he)
  · intro e he; rw [h4] at he; exact hrng e he
  · intro d hd ty hty'
    obtain ⟨v, hv, rfl⟩ := List.mem_map.mp hty'
    obtain ⟨_, p, hp, hvp⟩ := buildVehicles_fresh types v hv
    obtain ⟨hc, hm, hdr⟩ := hty v.ty (by rw [hvp]; exact hpre p hp)
    obtain ⟨hd0, hd1⟩ := hdr d hd
    unfold socDeltaOf
    have hnum : 0 ≤ d.distance * (v.ty.mileage / 100) :=
      mul_nonneg hd0 (div_nonneg hm (by norm_num))
    constructor
    · rw [neg_le_neg_iff, div_le_one hc]; exact hd1
    · rw [neg_nonpos]; exact div_nonneg hnum hc.le

/-- The error branch of the trip arithmetic: a vehicle type with capacity `0` makes the step raise
`ZeroDivisionError` (as the Python code does), and that is the only error of the arithmetic. -/
theorem C19_statistics_trip_error (P : StatParams α) (now : Int) (ty : StatType α) (dr : Draw α) :
    (ty.capacity = 0 → mkTrip P now ty dr = .error .zeroDivision) ∧
    (ty.capacity ≠ 0 → ∃ t, mkTrip P now ty dr = .ok t) := by
  refine ⟨mkTrip_error P now ty dr, fun hc => ?_⟩
  unfold mkTrip
  dsimp only
  rw [pydiv_ok _ hc]
  exact ⟨_, rfl⟩

/-! ## trip-table (csv) generator -/

/-- **Alternation (csv).** The events of every vehicle of the table are
`arrival, departure, arrival, departure, …` (a vehicle starts unconnected): a list of stands
(arrival, departure), optionally followed by the arrival of the vehicle's last trip, all carrying
its id; vehicles not in the table have no events.  If the vehicle's trips, sorted by departure,
do not overlap (`dep R arr`, `arr R next dep` with `R` = `≤` or `<`) the event times are
`R`-increasing. -/
theorem C19_csv_alternate (P : CsvParams α) (rows : List (CsvRow α)) (out : CsvOut α)
    (h : generateFromCsv P rows = .ok out) :
    (∀ v, v ∉ sortedIds rows → vehicleEvents v out.events = []) ∧
    ∀ vid ∈ sortedIds rows, ∃ (S : List (Pair α)) (tail : List (VEvent α)),
      vehicleEvents vid out.events = flatPairs S ++ tail ∧
      (∀ s ∈ S, s.1.kind = .arrival ∧ s.2.kind = .departure ∧ s.1.vehicle = vid ∧ s.2.vehicle = vid) ∧
      (tail = [] ∨ ∃ a, tail = [a] ∧ a.kind = .arrival ∧ a.vehicle = vid) ∧
      ∀ R : Int → Int → Prop, (∀ a b c, R a b → R b c → R a c) → (∀ a b, R a b → a ≤ b) →
        RowsOrd R (sortByDeparture (rows.filter (fun r => r.vid == vid))) →
        ChainR (fun a b => R a.time b.time) (vehicleEvents vid out.events) := by
  obtain ⟨outs, he, hv, hnone, hall⟩ := csv_view P rows out h
  refine ⟨hnone, fun vid hvid => ?_⟩
  obtain ⟨o, _, h1, _, _, ty, st, hrun, h2, _, hfin⟩ := hall vid hvid
  obtain ⟨S, tail, f1, f2, _, f4, _, _⟩ := hfin
  refine ⟨S, tail, by rw [h1, h2, f1], ?_, ?_, ?_⟩
  · intro s hs
    have := f2 s hs
    exact ⟨this.ak, this.dk, this.av, this.dv⟩
  · rcases f4 with ⟨rfl, _⟩ | ⟨a, rfl, ha, _⟩
    · exact Or.inl rfl
    · exact Or.inr ⟨a, rfl, ha.ak, ha.av⟩
  · intro R htr hle hord
    have := csvRows_order P ty out.stop vid R htr hle _ _ st hrun hord
      ⟨by simp [csvState0, ChainR], fun e he => by simp [csvState0] at he⟩
    rw [chainR_map] at this
    rw [h1, h2]
    exact chainR_imp (fun a b hab => hab.1) _ this

/-- **Announced times (csv).** Every arrival that is followed by a departure announces exactly
that departure's start; the arrival of a vehicle's last trip announces the documented fallback
`max(arrival + 8 h, stop)` with `stop = start + days`; every departure announces an arrival time
(the arrival of the departing trip), and for non-overlapping trips that time is not later than
the next arrival event of the vehicle (it is *equal* to it when the departing trip ends at a
charging station; a trip with `connect_cs = 0` produces no arrival event). -/
theorem C19_csv_times_consistent (P : CsvParams α) (rows : List (CsvRow α)) (out : CsvOut α)
    (h : generateFromCsv P rows = .ok out) :
    out.stop = out.start + P.days * DAY ∧
    ∀ vid ∈ sortedIds rows, ∃ (S : List (Pair α)) (tail : List (VEvent α)),
      vehicleEvents vid out.events = flatPairs S ++ tail ∧
      (∀ s ∈ S, s.1.etd = some s.2.time ∧ s.1.cs = some ("CS_" ++ vid) ∧ ∃ x, s.2.eta = some x) ∧
      (tail = [] ∨ ∃ a, tail = [a] ∧ a.etd = some (max (a.time + 8 * HOUR) out.stop) ∧
        a.cs = some ("CS_" ++ vid)) ∧
      (RowsOrd (· ≤ ·) (sortByDeparture (rows.filter (fun r => r.vid == vid))) →
        ChainR (fun a b => ∀ x, a.eta = some x → x ≤ b.time) (vehicleEvents vid out.events)) := by
  obtain ⟨outs, he, hv, hnone, hall⟩ := csv_view P rows out h
  refine ⟨(generateFromCsv_ok P rows out h).choose_spec.2.2.2, fun vid hvid => ?_⟩
  obtain ⟨o, _, h1, _, _, ty, st, hrun, h2, _, hfin⟩ := hall vid hvid
  obtain ⟨S, tail, f1, f2, _, f4, _, _⟩ := hfin
  refine ⟨S, tail, by rw [h1, h2, f1], ?_, ?_, ?_⟩
  · intro s hs
    have := f2 s hs
    exact ⟨this.etd, this.cs, this.eta⟩
  · rcases f4 with ⟨rfl, _⟩ | ⟨a, rfl, ha, _⟩
    · exact Or.inl rfl
    · exact Or.inr ⟨a, rfl, ha.etd, ha.cs⟩
  · intro hord
    have := csvRows_order P ty out.stop vid (· ≤ ·) (fun a b c => le_trans) (fun a b hab => hab) _ _ st
      hrun hord ⟨by simp [csvState0, ChainR], fun e he => by simp [csvState0] at he⟩
    rw [chainR_map] at this
    rw [h1, h2]
    exact chainR_imp (fun a b hab => hab.2) _ this

/-- **Desired SoC (csv).** The desired SoC of every stand that is followed by another connection
is exactly `max min_soc (consumption until that next connection)` (`soc_delta` of the next arrival
is minus that consumption) — hence at least `min_soc` and at least the consumption; the last
arrival desires `min_soc`; the initial SoC of the vehicle is `max min_soc (consumption until the
first connection)`. -/
theorem C19_csv_desired_soc (P : CsvParams α) (rows : List (CsvRow α)) (out : CsvOut α)
    (h : generateFromCsv P rows = .ok out) :
    ∀ vid ∈ sortedIds rows, ∃ v ∈ out.vehicles, v.id = vid ∧ v.cs = none ∧ P.minSoc ≤ v.soc ∧
      (∀ a, (vehicleEvents vid out.events).head? = some a → v.soc = max P.minSoc (-a.socDelta)) ∧
      ∃ arrs : List (VEvent α),
        arrs = (vehicleEvents vid out.events).filter (fun e => e.kind == .arrival) ∧
        ChainR (fun a a' => a.desired = max P.minSoc (-a'.socDelta) ∧ P.minSoc ≤ a.desired ∧
          -a'.socDelta ≤ a.desired) arrs ∧
        ∀ a, arrs.getLast? = some a → a.desired = P.minSoc := by
  obtain ⟨outs, he, hv, hnone, hall⟩ := csv_view P rows out h
  intro vid hvid
  obtain ⟨o, ho, h1, hid, hcs, ty, st, hrun, h2, hsoc, hfin⟩ := hall vid hvid
  obtain ⟨S, tail, f1, f2, f3, f4, f5, f6⟩ := hfin
  have hev : vehicleEvents vid out.events = st.events := by rw [h1, h2]
  refine ⟨o.init, by rw [hv]; exact List.mem_map.mpr ⟨o, ho, rfl⟩, hid, hcs, ?_, ?_, _, rfl, ?_⟩
  · rw [hsoc]
    cases hh : st.events.head? with
    | none => rw [f5 (by simpa using hh)]
    | some a => rw [f6 a hh]; exact le_max_left _ _
  · intro a ha
    rw [hsoc]; rw [hev] at ha; exact f6 a ha
  · rw [hev, f1]
    -- the arrivals of `flatPairs S ++ tail` are the first components of `S`, then `tail`
    have hfilter : ∀ S' : List (Pair α), (∀ s ∈ S', StandOK vid s) →
        (flatPairs S').filter (fun e => e.kind == .arrival) = S'.map (·.1) := by
      intro S'
      induction S' with
      | nil => intro _; rfl
      | cons s r ih =>
        intro hs
        have h0 := hs s (by simp)
        have := ih (fun x hx => hs x (by simp [hx]))
        simp only [flatPairs, List.flatMap_cons] at this ⊢
        simp [h0.ak, h0.dk, this]
    have hchainS : ChainR (fun a a' : VEvent α => a.desired = max P.minSoc (-a'.socDelta)) (S.map (·.1)) := by
      rw [chainR_map]; exact f3
    have himp : ∀ l : List (VEvent α),
        ChainR (fun a a' : VEvent α => a.desired = max P.minSoc (-a'.socDelta)) l →
        ChainR (fun a a' => a.desired = max P.minSoc (-a'.socDelta) ∧ P.minSoc ≤ a.desired ∧
          -a'.socDelta ≤ a.desired) l :=
      fun l hl => chainR_imp (fun a b hab => ⟨hab, by rw [hab]; exact le_max_left _ _,
        by rw [hab]; exact le_max_right _ _⟩) l hl
    rw [List.filter_append, hfilter S f2]
    rcases f4 with ⟨rfl, hlast⟩ | ⟨a, rfl, ha, hlast⟩
    · simp only [List.filter_nil, List.append_nil]
      refine ⟨himp _ hchainS, fun a ha => ?_⟩
      rw [List.getLast?_map] at ha
      cases hl : S.getLast? with
      | none => rw [hl] at ha; simp at ha
      | some s =>
        rw [hl] at ha
        have : a = s.1 := by simpa using ha.symm
        subst this; exact hlast s hl
    · have hfa : [a].filter (fun e => e.kind == .arrival) = [a] := by simp [ha.ak]
      rw [hfa]
      refine ⟨himp _ ?_, fun a' ha' => ?_⟩
      · rw [chainR_snoc]
        refine ⟨hchainS, fun y hy => ?_⟩
        rw [List.getLast?_map] at hy
        cases hl : S.getLast? with
        | none => rw [hl] at hy; simp at hy
        | some s =>
          rw [hl] at hy
          have : y = s.1 := by simpa using hy.symm
          subst this; exact hlast s hl
      · have : a' = a := by simpa using ha'.symm
        subst this; exact ha.desired

/-- **Consumption (csv).** For every vehicle, minus the `soc_delta`s of its arrival events are
exactly the trip consumptions accumulated until each connection (`segSums 0`, over the
vehicle's trips sorted by departure); consequently every `soc_delta` lies in `[-1, 0]` iff every
such accumulated consumption lies in `[0, 1]`. -/
theorem C19_csv_consumption_range (P : CsvParams α) (rows : List (CsvRow α)) (out : CsvOut α)
    (h : generateFromCsv P rows = .ok out) :
    ∀ vid ∈ sortedIds rows, ∃ (ty : CsvType α) (ds : List (α × Bool)),
      List.Forall₂ (fun r p => csvDelta P ty r = .ok p.1 ∧ p.2 = (r.connect == 1))
        (sortByDeparture (rows.filter (fun r => r.vid == vid))) ds ∧
      arrDeltas (vehicleEvents vid out.events) = segSums 0 ds ∧
      ((∀ x ∈ segSums 0 ds, 0 ≤ x ∧ x ≤ 1) →
        ∀ e ∈ vehicleEvents vid out.events, e.kind = .arrival → -1 ≤ e.socDelta ∧ e.socDelta ≤ 0) := by
  obtain ⟨outs, he, hv, hnone, hall⟩ := csv_view P rows out h
  intro vid hvid
  obtain ⟨o, ho, h1, hid, hcs, ty, st, hrun, h2, hsoc, hfin⟩ := hall vid hvid
  obtain ⟨ds, hds, hev⟩ := csvRows_consumption P ty out.stop vid _ _ st hrun
  have hev' : arrDeltas (vehicleEvents vid out.events) = segSums 0 ds := by
    rw [h1, h2, hev]; simp [csvState0, arrDeltas]
  refine ⟨ty, ds, hds, hev', fun hrng e he hk => ?_⟩
  have : -e.socDelta ∈ arrDeltas (vehicleEvents vid out.events) := by
    unfold arrDeltas
    exact List.mem_map.mpr ⟨e, List.mem_filter.mpr ⟨he, by simp [hk]⟩, rfl⟩
  rw [hev'] at this
  obtain ⟨h0, h1'⟩ := hrng _ this
  constructor <;> linarith

/-! ## SimBEV generator (coarser model) -/

/-- **Alternation and announced times (SimBEV), per vehicle file.** For positive interval and
positive event durations, in both SoC modes: the generated event list is the concatenation of one
block per vehicle file; a block is `arrival, departure, arrival, departure, …` — stands
(arrival, departure) all carrying one vehicle id, arrival strictly before its departure; every
arrival announces exactly the start of its departure; every departure announces exactly the start
of the next arrival of the block (back-patched) and is not later than it (the generator's order
assertion); the last departure announces nothing (`None`).
PARTIAL: the theorem speaks about the block of a *file*; that the block is the complete event list
of one vehicle *id* additionally needs the renamed ids to be pairwise distinct, which is not proved
(the rename rule `"{}_{}".format(v_id, n + 1)` can collide for contrived names); the harness oracle
checks the per-id statement on every generated directory.  The `soc_delta` range and the Battery
feasibility warnings of this generator are covered by correspondence and oracle only. -/
theorem C19_simbev_events_partial (P : SimParams α) (files : List (SimFile α)) (out : SimOut α)
    (h : generateFromSimbev P files = .ok out) (hint : 0 < P.interval)
    (hrows : ∀ f ∈ files, ∀ r ∈ f.rows, 0 < r.eventTime) :
    ∃ blocks : List (List (VEvent α)), out.events = blocks.flatten ∧ blocks.length = files.length ∧
      ∀ b ∈ blocks, ∃ (vid : String) (S : List (Pair α)), b = flatPairs S ∧
        (∀ s ∈ S, s.1.kind = .arrival ∧ s.2.kind = .departure ∧ s.1.vehicle = vid ∧ s.2.vehicle = vid ∧
          s.1.time < s.2.time ∧ s.1.etd = some s.2.time ∧ ∃ c, s.1.cs = some c) ∧
        ChainR (fun s s' => s.2.eta = some s'.1.time ∧ s.2.time ≤ s'.1.time) S ∧
        ∀ s, S.getLast? = some s → s.2.eta = none := by
  unfold generateFromSimbev at h
  cases hf : files.foldlM (simFile P)
      { types := P.types, vehicles := [], stations := [], events := [], nIntervals := 0 } with
  | error e => simp [hf, bind, Except.bind] at h
  | ok G =>
    simp only [hf, bind, Except.bind] at h
    cases ha : pyassert (!G.vehicles.isEmpty) with
    | error e => simp [ha] at h
    | ok u =>
      simp only [ha, Except.ok.injEq] at h
      subst h
      obtain ⟨blocks, h1, h2, h3⟩ := simFiles_inv P (fun d => 0 < d) files _ G hf
        (fun f hf' r hr => Int.mul_pos hint (hrows f hf' r hr))
      refine ⟨blocks, by simpa using h1, h2, fun b hb => ?_⟩
      obtain ⟨vid, S, b1, b2, b3, b4⟩ := h3 b hb
      refine ⟨vid, S, b1, fun s hs => ?_, b3, b4⟩
      have := b2 s hs
      exact ⟨this.ak, this.dk, this.av, this.dv, by have := this.dur; omega, this.etd, this.cs⟩

/-! ## purity -/

/-- **Purity.** The models are Lean functions: the generated vehicle tables, event lists and
station tables are determined by the parameters and the draw list / trip table / vehicle files —
there is no other input (no clock, no hidden state).  For the statistics generator more is true:
the scenario depends only on the draws it *consumes* — appending further draws changes nothing
but the count of unused ones.  That the *implementation* is such a function of
`(arguments, seed)` is what the paired real runs of the harness check. -/
theorem C19_pure (P P' : StatParams α) (draws draws' extra : List (Draw α)) (out : StatOut α)
    (C C' : CsvParams α) (rows rows' : List (CsvRow α)) (S S' : SimParams α) (files files' : List (SimFile α))
    (hP : P = P') (hd : draws = draws') (hC : C = C') (hr : rows = rows') (hS : S = S') (hf : files = files') :
    generateFromStatistics P draws = generateFromStatistics P' draws' ∧
    generateFromCsv C rows = generateFromCsv C' rows' ∧
    (generateFromSimbev S files).toOption.map (fun o => (o.events.length, o.nIntervals)) =
      (generateFromSimbev S' files').toOption.map (fun o => (o.events.length, o.nIntervals)) ∧
    (generateFromStatistics P draws = .ok out →
      generateFromStatistics P (draws ++ extra) = .ok { out with unused := out.unused + extra.length }) := by
  subst hP hd hC hr hS hf
  exact ⟨rfl, rfl, rfl, generate_extra P draws extra out⟩

/-- **No exception under the stated guard (statistics).** If every requested vehicle type is
predefined (`buildTypes` succeeds), every fleet type has a non-zero capacity and a non-empty
charging curve, and there are draws for `days + 3` days for every vehicle, the generator returns a
scenario — in particular the REPAIRED generator does not raise for vehicles that never drive
(F5).  The error branches are: unknown type (`AssertionError`), empty curve (`ValueError`), zero
capacity (`ZeroDivisionError`, `C19_statistics_trip_error`). -/
theorem C19_statistics_ok (P : StatParams α) (draws : List (Draw α)) (types : List (StatType α × Int))
    (ht : buildTypes P.predefined P.vehicles = .ok types)
    (hty : ∀ p ∈ types, p.1.capacity ≠ 0 ∧ p.1.curvePowers ≠ [])
    (hd : (P.days + 3).toNat * (buildVehicles types).length ≤ draws.length) :
    ∃ out, generateFromStatistics P draws = .ok out :=
  generate_progress P draws types ht hty hd

/-! ## non-vacuity: concrete runs of the three models (evaluated by the kernel) -/

namespace C19Example

/-- shipped-like type: 50 kWh, 16 kWh/100 km, weekend off -/
def ty0 : StatType ℚ := {
  name := "golf", capacity := 50, mileage := 16, noDrive := [5, 6], curvePowers := [22, 22] }
/-- start Monday 2023-01-02 00:15 (day 19359), two days, min SoC 0.8, buffer 0.1 -/
def P0 : StatParams ℚ := {
  start := 19359 * DAY + 15 * MINUTE, days := 2, minSoc := 4/5, buffer := 1/10, holidays := [],
  predefined := [ty0], vehicles := [(2, "golf")] }
/-- ten draws: 08:00, six hours; 250 km (needs 0.8 · 1.1 = 0.88 > min SoC) -/
def D0 : List (Draw ℚ) :=
  (List.range 10).map (fun _ => ({ depTod := 8 * HOUR, duration := 6 * HOUR, distance := 250 } : Draw ℚ))

/-- the run succeeds, uses all ten draws (2 vehicles × 5 days) and emits 2 × 2 × 2 events; the
first arrival of `golf_0` was back-patched to desired SoC 0.88 and the departure of the next day;
its last arrival was patched by the draws for the days after the end (the last such draw wins) -/
example : (generateFromStatistics P0 D0).toOption.map
    (fun o => (o.events.length, o.unused, (o.events.filter (fun e => e.vehicle == "golf_0")).map
      (fun e => (e.desired, e.etd)))) =
    some (8, 0, [(0, none), (22/25, some (19360 * DAY + 8 * HOUR)), (0, none),
      (22/25, some (19363 * DAY + 8 * HOUR))]) := by decide +kernel

example : DistinctIds P0 := by
  intro types h
  have h0 : buildTypes P0.predefined P0.vehicles = .ok [(ty0, 2)] := rfl
  rw [h0] at h
  injection h with h
  subst h
  decide

example : ∀ d ∈ D0, 0 < d.duration := by decide +kernel

/-- the guard of `C19_statistics_ok` is satisfied by this run (5 days × 2 vehicles = 10 draws) -/
example : ∃ out, generateFromStatistics P0 D0 = .ok out :=
  C19_statistics_ok P0 D0 [(ty0, 2)] rfl (by decide +kernel) (by decide +kernel)

example : ∀ ty ∈ P0.predefined, 0 < ty.capacity ∧ 0 ≤ ty.mileage ∧
    ∀ d ∈ D0, 0 ≤ d.distance ∧ d.distance * (ty.mileage / 100) ≤ ty.capacity := by decide +kernel

/-- F6 trigger: no-drive days Sat, Sun, Mon and a scenario that ends on a Saturday (start
Wednesday 2023-01-04, three days): the last arrival is not back-patched; the repaired generator
leaves `desired_soc = min_soc` there (the pinned one left 0). -/
def P1 : StatParams ℚ := {
  start := 19361 * DAY + 15 * MINUTE, days := 3, minSoc := 4/5, buffer := 1/10, holidays := [],
  predefined := [{ ty0 with noDrive := [5, 6, 0] }], vehicles := [(1, "golf")] }

example : (generateFromStatistics P1 D0).toOption.map
    (fun o => (o.events.getLast?.map (fun e => (e.desired, e.etd)), o.unused)) =
    some (some (4/5, none), 7) := by decide +kernel

/-- F5 trigger: seven no-drive days — the repaired generator returns the vehicle without events -/
example : (generateFromStatistics { P1 with predefined := [{ ty0 with noDrive := [0, 1, 2, 3, 4, 5, 6] }] } D0).toOption.map
    (fun o => (o.vehicles.length, o.events.length)) = some (1, 0) := by decide +kernel

/-- zero capacity: `ZeroDivisionError`, as in Python -/
example : (generateFromStatistics { P0 with predefined := [{ ty0 with capacity := 0 }] } D0).toOption.isNone = true := by
  decide +kernel

/-- a trip table: vehicle `b` with three trips (the second one ends away from a charging
station), vehicle `a` with one; consumption column `delta_soc` -/
def C0 : CsvParams ℚ := {
  mode := .deltaSoc, days := 2, minSoc := 1/2,
  predefined := [{ name := "golf", capacity := 50, mileage := 16, curvePowers := [22] }] }
def R0 : List (CsvRow ℚ) := [
  { dep := 10 * HOUR, arr := 12 * HOUR, vtype := "golf", vid := "b", val := 1/5, connect := 0 },
  { dep := 4 * HOUR, arr := 8 * HOUR, vtype := "golf", vid := "b", val := 3/10, connect := 1 },
  { dep := 5 * HOUR, arr := 9 * HOUR, vtype := "golf", vid := "a", val := 2/5, connect := 1 },
  { dep := 14 * HOUR, arr := 16 * HOUR, vtype := "golf", vid := "b", val := 2/5, connect := 1 }]

/-- vehicles in sorted order; `b`: arrival (desired SoC back-patched to 0.2 + 0.4 = 0.6),
departure, arrival of the last trip with the fallback departure `start + 2 d` -/
example : (generateFromCsv C0 R0).toOption.map (fun o => o.vehicles.map (fun v => (v.id, v.soc))) =
    some [("a", 1/2), ("b", 1/2)] := by decide +kernel

example : (generateFromCsv C0 R0).toOption.map
    (fun o => (vehicleEvents "b" o.events).map (fun e => (e.time, e.etd, e.eta))) =
    some [(8 * HOUR, some (10 * HOUR), none), (10 * HOUR, none, some (12 * HOUR)),
      (16 * HOUR, some (4 * HOUR + 2 * DAY), none)] := by decide +kernel

example : (generateFromCsv C0 R0).toOption.map
    (fun o => (vehicleEvents "b" o.events).map (fun e => (e.desired, e.socDelta))) =
    some [(3/5, -3/10), (0, 0), (1/2, -3/5)] := by decide +kernel

example : RowsOrd (· < ·) (sortByDeparture (R0.filter (fun r => r.vid == "b"))) := by
  unfold RowsOrd
  exact ⟨by decide +kernel, by decide +kernel⟩

/-- a SimBEV vehicle file with two charging stops (ignore-SoC mode) -/
def S0 : SimParams ℚ := {
  start := 18887 * DAY, interval := 15 * MINUTE, ignoreSoc := true, minSoc := 1/5, verbose := false,
  tolerance := 1/100000, types := [("bev_mini", 60)] }
def F0 : List (SimFile ℚ) := [{
  vid := "bev_mini_00000_60kWh", vtype := "bev_mini", fileCapacity := 60,
  rows := [
    { eventStart := 0, eventTime := 8, location := "home", socStart := 9/10, socEnd := 1, energy := 6, stationPower := 11 },
    { eventStart := 8, eventTime := 2, location := "driving", socStart := 1, socEnd := 4/5, energy := -12, stationPower := 0 },
    { eventStart := 10, eventTime := 30, location := "work", socStart := 4/5, socEnd := 9/10, energy := 6, stationPower := 22 }] }]

example : (generateFromSimbev S0 F0).toOption.map
    (fun o => o.events.map (fun e => (e.time - S0.start, e.desired, e.socDelta, e.eta))) =
    some [(0, 1/5, 0, none), (8 * (15 * MINUTE), 0, 0, some (S0.start + 10 * (15 * MINUTE))),
      (10 * (15 * MINUTE), 0, -1/5, none), (40 * (15 * MINUTE), 0, 0, none)] := by decide +kernel

example : (generateFromSimbev S0 F0).toOption.map (·.nIntervals) = some 41 := by decide +kernel

end C19Example

end SpiceEv
