/-
C14 for the complete model of `Distributed.step` (Model/StratDistributed.lean, tied to the code step by step at the
bit level by harness/s_distributed.py).

* delegation: at a depot connector the step IS the sub-strategy's step (`ruleStep`, the greedy / balanced model of
  C10) on the virtual world made of that connector, the vehicles connected at it, their stations and the
  connector's stationary batteries; the connector afterwards is the connector the sub-strategy returned, the
  commands are the sub-strategy's commands;
* independence: treating one connector changes no other connector, and the virtual world contains only vehicles
  whose station belongs to the connector;
* station count: with `number_cs = n` at most `n` vehicles hold a charging point, only holders enter the
  virtual world (are charged by the sub-strategy), only holders take part in the final surplus pass.
-/
import SpiceEv.Proofs.StratDistributed
import SpiceEv.Properties.C14
set_option linter.unusedSectionVars false
set_option linter.unusedVariables false
namespace SpiceEv
open SpiceEv.Distrib
variable {α : Type} [Field α] [LinearOrder α] [IsStrictOrderedRing α]

/-- **Delegation at a depot connector.** If the connector `gcId` is a depot (`strategies[gcId] = deps`) that has to
be simulated, its treatment in `Distributed.step` is exactly: run the depot sub-strategy (`strategy_deps`,
balanced by default) — with its own options and the current time — on the virtual world
`⟨[gc], stations of the connected vehicles, connected vehicles, batteries of gc⟩`, append its commands, and put the
objects it returned back (`mergeDeps`).  The connector after the treatment is the connector the sub-strategy
returned, nothing else. -/
theorem C14_distributed_deps_is_substep {B : Type} (dops : DOps α B) (de : DEnv α) (hd : de.deps.isRule)
    (ncs : List (String × Option Int)) (conn : List (String × List String)) (lk : Look α)
    (w : SWorld α B) (ini : DInit α) (acc : List (String × α)) (gcId : String)
    (gc : GcS α) (cands : List String) (cvs : List (VehicleS α B)) (stations : List (StationS α))
    (hgc : w.gc? gcId = some gc) (hk : sdGet ini.strategies gcId = some Kind.deps)
    (hc : candidates w ncs conn gcId = .ok cands) (hcv : connectedAt w gcId cands = .ok cvs)
    (hne : (cvs.isEmpty && ((sdGet ini.gcBattery gcId).getD []).isEmpty) = false)
    (hs : subStations w cvs = .ok stations) :
    stepGc dops de ncs conn lk (w, ini, acc) gcId =
      (ruleStep de.deps.rule dops.bat ⟨de.deps.eps, de.deps.priceThreshold, de.deps.tsPerHour, de.env.now, de.deps.interval⟩
          ⟨[gc], stations, cvs, depotBatteries w ((sdGet ini.gcBattery gcId).getD [])⟩ >>= fun r =>
        .ok (mergeDeps w (syncStations r.1) stations cvs, ini, sdUpdate acc r.2)) ∧
    ∀ w' ini' acc', stepGc dops de ncs conn lk (w, ini, acc) gcId = .ok (w', ini', acc') →
      ∃ vw' cmds g1, ruleStep de.deps.rule dops.bat (de.deps.env de.env.now)
          ⟨[gc], stations, cvs, depotBatteries w ((sdGet ini.gcBattery gcId).getD [])⟩ = .ok (vw', cmds) ∧
        vw'.gcs = [g1] ∧ acc' = sdUpdate acc cmds ∧ ini' = ini ∧ g1 ∈ w'.gcs ∧
        ∀ g' ∈ w'.gcs, g'.id = gcId → g' = g1 := by
  have heq : stepGc dops de ncs conn lk (w, ini, acc) gcId =
      stepDeps dops de w ini acc gc stations cvs ((sdGet ini.gcBattery gcId).getD []) := by
    unfold stepGc
    simp only [hgc, hc, hcv, hne, hk, hs, bind, Except.bind, Bool.false_eq_true, if_false]
  constructor
  · rw [heq]; unfold stepDeps; simp only [hd.1, hd.2]; unfold stepDepsRule
    simp only [bind, Except.bind, SubStrat.env]
  · intro w' ini' acc' h
    rw [heq] at h
    unfold stepDeps at h; simp only [hd.1, hd.2] at h; unfold stepDepsRule at h
    simp only [bind, Except.bind] at h
    split at h
    · cases h
    · rename_i r hr
      obtain ⟨vw', cmds⟩ := r
      simp only [Except.ok.injEq, Prod.mk.injEq] at h
      obtain ⟨rfl, rfl, rfl⟩ := h
      obtain ⟨g1, hg1, hid, _, _⟩ := ruleStep_single _ _ _ gc _ _ _ vw' cmds hr
      obtain ⟨hgm, hgid⟩ := gc?_some _ _ gc hgc
      have hgcs : (mergeDeps w (syncStations vw') stations cvs).gcs = (w.setGc g1).gcs := by
        unfold mergeDeps
        simp only [foldl_setBattery_gcs, syncStations_gcs, hg1, List.foldl_cons, List.foldl_nil]
        unfold SWorld.setGc
        simp only [writeBack_gcs]
      refine ⟨vw', cmds, g1, hr, hg1, rfl, rfl, ?_, ?_⟩
      · rw [hgcs]
        unfold SWorld.setGc
        simp only [List.mem_map]
        exact ⟨gc, hgm, by simp [hid]⟩
      · intro g' hg' hid'
        rw [hgcs] at hg'
        rcases mem_setGc w g1 g' hg' with h | ⟨_, hne'⟩
        · exact h
        · exact absurd (hid'.trans (hgid.symm.trans hid.symm)) hne'

/-- **Delegation at an opportunity-charging connector (no stationary battery there).** Whenever the treatment of
such a connector returns, it ran the opportunity sub-strategy (`strategy_opps`, greedy by default) — own options,
current time — on the virtual world `⟨[gc], stations of the connected vehicles, connected vehicles, no batteries⟩`;
the commands appended are the sub-strategy's commands, the connector afterwards is the connector the sub-strategy
returned, the stationary batteries of the world are untouched. -/
theorem C14_distributed_opps_is_substep {B : Type} (dops : DOps α B) (de : DEnv α) (ho : de.opps.isRule)
    (ncs : List (String × Option Int)) (conn : List (String × List String)) (lk : Look α)
    (w : SWorld α B) (ini : DInit α) (acc : List (String × α)) (gcId : String)
    (gc : GcS α) (cands : List String) (cvs : List (VehicleS α B)) (stations : List (StationS α))
    (hgc : w.gc? gcId = some gc) (hk : sdGet ini.strategies gcId = some Kind.opps)
    (hc : candidates w ncs conn gcId = .ok cands) (hcv : connectedAt w gcId cands = .ok cvs)
    (hb : (sdGet ini.gcBattery gcId).getD [] = []) (hne : cvs.isEmpty = false)
    (hs : subStations w cvs = .ok stations)
    (w' : SWorld α B) (ini' : DInit α) (acc' : List (String × α))
    (h : stepGc dops de ncs conn lk (w, ini, acc) gcId = .ok (w', ini', acc')) :
    ∃ vw' cmds g1, ruleStep de.opps.rule dops.bat (de.opps.env de.env.now) ⟨[gc], stations, cvs, []⟩ = .ok (vw', cmds) ∧
      vw'.gcs = [g1] ∧ acc' = sdUpdate acc cmds ∧ g1 ∈ w'.gcs ∧ (∀ g' ∈ w'.gcs, g'.id = gcId → g' = g1) ∧
      w'.batteries = w.batteries := by
  unfold stepGc at h
  simp only [hgc, hc, hcv, hb, hne, hk, hs, bind, Except.bind, List.isEmpty_nil, Bool.and_true,
    Bool.false_eq_true, if_false] at h
  unfold stepOpps at h; simp only [ho.1, ho.2] at h; unfold stepOppsRule at h
  simp only [List.foldlM_nil, pure, Except.pure, bind, Except.bind, List.append_nil] at h
  split at h
  · cases h
  · rename_i r hr
    obtain ⟨vw', cmds⟩ := r
    obtain ⟨g1, hg1, hid, _, _⟩ := ruleStep_single _ _ _ gc _ _ _ vw' cmds hr
    obtain ⟨hgm, hgid⟩ := gc?_some _ _ gc hgc
    simp only [hg1, Except.ok.injEq, Prod.mk.injEq] at h
    obtain ⟨rfl, _, rfl⟩ := h
    refine ⟨vw', cmds, g1, hr, hg1, rfl, ?_, ?_, ?_⟩
    · show g1 ∈ ((writeBack w (syncStations vw') _ _).setGc g1).gcs
      unfold SWorld.setGc
      simp only [writeBack_gcs, List.mem_map]
      exact ⟨gc, hgm, by simp [hid]⟩
    · intro g' hg' hid'
      have hg'' : g' ∈ ((writeBack w (syncStations vw') (stations.map (·.id)) (cvs.map (·.id))).setGc g1).gcs := hg'
      rcases mem_setGc _ g1 g' hg'' with h | ⟨_, hne'⟩
      · exact h
      · exact absurd (hid'.trans (hgid.symm.trans hid.symm)) hne'
    · show (writeBack w (syncStations vw') _ _).batteries = _
      exact writeBack_batteries _ _ _ _

/-- **Independence (frame).** Treating connector `gcId` leaves every other connector exactly as it was — loads,
limit, price — and neither adds nor removes connectors. -/
theorem C14_distributed_other_connectors_untouched {B : Type} (dops : DOps α B) (de : DEnv α)
    (hd : de.deps.isRule) (ho : de.opps.isRule)
    (ncs : List (String × Option Int)) (conn : List (String × List String)) (lk : Look α)
    (st st' : SWorld α B × DInit α × List (String × α)) (gcId : String)
    (h : stepGc dops de ncs conn lk st gcId = .ok st') :
    st'.1.gcs.map (·.id) = st.1.gcs.map (·.id) ∧ ∀ g' ∈ st'.1.gcs, g'.id ≠ gcId → g' ∈ st.1.gcs :=
  stepGc_frame dops de hd ho ncs conn lk st st' gcId h

/-- **Only vehicles of this connector enter its virtual world.** Every vehicle handed to the sub-strategy for
connector `gcId` is one of the candidates, is a vehicle of the world, and is connected to a station whose parent
is `gcId`; at most as many vehicles as candidates enter. -/
theorem C14_distributed_virtual_world_local {B : Type} (w : SWorld α B) (gcId : String) (cands : List String)
    (cvs : List (VehicleS α B)) (h : connectedAt w gcId cands = .ok cvs) :
    cvs.length ≤ cands.length ∧
    ∀ v ∈ cvs, v.id ∈ cands ∧ w.vehicle? v.id = some v ∧
      ∃ csId cs, v.cs = some csId ∧ w.station? csId = some cs ∧ cs.parent = gcId := by
  have key : ∀ (cands : List String) (acc cvs : List (VehicleS α B)),
      cands.foldlM (fun (acc : List (VehicleS α B)) id =>
        match w.vehicle? id with
        | none => Except.ok acc
        | some v =>
          match v.cs with
          | none => Except.ok acc
          | some csId =>
            if csId == "" then Except.ok acc
            else match w.station? csId with
              | none => Except.error PyErr.keyError
              | some cs => if cs.parent == gcId then Except.ok (acc ++ [v]) else Except.ok acc) acc = .ok cvs →
      cvs.length ≤ acc.length + cands.length ∧
      ∀ v ∈ cvs, v ∈ acc ∨ (v.id ∈ cands ∧ w.vehicle? v.id = some v ∧
        ∃ csId cs, v.cs = some csId ∧ w.station? csId = some cs ∧ cs.parent = gcId) := by
    intro cands
    induction cands with
    | nil =>
      intro acc cvs h
      simp only [List.foldlM_nil, pure, Except.pure, Except.ok.injEq] at h
      subst h
      exact ⟨by simp, fun v hv => Or.inl hv⟩
    | cons id rest ih =>
      intro acc cvs h
      simp only [List.foldlM_cons, bind, Except.bind] at h
      split at h
      · cases h
      · rename_i acc1 hacc1
        obtain ⟨hl, hm⟩ := ih acc1 cvs h
        have hstep : acc1.length ≤ acc.length + 1 ∧ ∀ v ∈ acc1, v ∈ acc ∨ (v.id = id ∧ w.vehicle? v.id = some v ∧
            ∃ csId cs, v.cs = some csId ∧ w.station? csId = some cs ∧ cs.parent = gcId) := by
          split at hacc1
          · simp only [Except.ok.injEq] at hacc1; subst hacc1; exact ⟨by omega, fun v hv => Or.inl hv⟩
          · rename_i v hv
            have hvid : v.id = id := by
              unfold SWorld.vehicle? at hv
              simpa using List.find?_some hv
            split at hacc1
            · simp only [Except.ok.injEq] at hacc1; subst hacc1; exact ⟨by omega, fun v hv => Or.inl hv⟩
            · rename_i csId hcs
              split at hacc1
              · simp only [Except.ok.injEq] at hacc1; subst hacc1; exact ⟨by omega, fun v hv => Or.inl hv⟩
              · split at hacc1
                · cases hacc1
                · rename_i cs hst
                  split at hacc1
                  · rename_i hpar
                    simp only [Except.ok.injEq] at hacc1; subst hacc1
                    refine ⟨by simp, ?_⟩
                    intro v' hv'
                    rcases List.mem_append.mp hv' with h' | h'
                    · exact Or.inl h'
                    · simp only [List.mem_cons, List.not_mem_nil, or_false] at h'
                      subst h'
                      exact Or.inr ⟨hvid, by rw [hvid]; exact hv, csId, cs, hcs, hst, by simpa using hpar⟩
                  · simp only [Except.ok.injEq] at hacc1; subst hacc1; exact ⟨by omega, fun v hv => Or.inl hv⟩
        refine ⟨by simp only [List.length_cons]; omega, ?_⟩
        intro v hv
        rcases hm v hv with h1 | ⟨h1, h2, h3⟩
        · rcases hstep.2 v h1 with h4 | ⟨h4, h5, h6⟩
          · exact Or.inl h4
          · exact Or.inr ⟨by simp [h4], h5, h6⟩
        · exact Or.inr ⟨by simp [h1], h2, h3⟩
  unfold connectedAt at h
  obtain ⟨hl, hm⟩ := key cands [] cvs h
  refine ⟨by simpa using hl, ?_⟩
  intro v hv
  rcases hm v hv with h1 | h1
  · simp at h1
  · exact h1

/-- **Station count.** For a connector with `number_cs = n`: whenever the ranking returns, at most `n` vehicles
hold a charging point, holders of the previous step that are still connected keep theirs, and at most `n` vehicles
enter the connector's virtual world — the sub-strategy charges at most `n` vehicles simultaneously. -/
theorem C14_distributed_number_cs {B : Type} (w : SWorld α B) (lk : Look α) (holders : List String)
    (gcId : String) (n : Int) (c : List String) (cvs : List (VehicleS α B))
    (h : rankGc w lk holders gcId n = .ok c) (hcv : connectedAt w gcId c = .ok cvs) :
    0 ≤ n ∧ (c.length : Int) ≤ n ∧ (cvs.length : Int) ≤ n ∧
    (holders.filter (fun id => match w.vehicle? id with | some v => v.cs.isSome | none => false)) <+: c := by
  unfold rankGc at h
  simp only at h
  split at h
  · cases h
  · rename_i hn
    have hn0 : 0 ≤ n := not_lt.mp hn
    split at h
    · cases h
    · obtain ⟨h1, h2, _⟩ := C14_number_cs n.toNat _ _ c h
      have h3 := (C14_distributed_virtual_world_local w gcId c cvs hcv).1
      have : ((n.toNat : Nat) : Int) = n := Int.toNat_of_nonneg hn0
      refine ⟨hn0, by omega, by omega, h2⟩

/-- Non-vacuity of the delegation theorem: in `toyState` the depot connector GC2 has to be simulated; its virtual
world consists of GC2, vehicle v2 and station CS_v2_deps (v1 and the battery belong to GC1). -/
example : ∃ gc cands cvs stations,
    toyState.world.gc? "GC2" = some gc ∧ sdGet toyState.init.strategies "GC2" = some Kind.deps ∧
    candidates toyState.world toyState.numberCs toyState.connected "GC2" = .ok cands ∧
    connectedAt toyState.world "GC2" cands = .ok cvs ∧
    (cvs.isEmpty && ((sdGet toyState.init.gcBattery "GC2").getD []).isEmpty) = false ∧
    subStations toyState.world cvs = .ok stations ∧ cvs.map (·.id) = ["v2"] ∧ stations.map (·.id) = ["CS_v2_deps"] :=
  ⟨_, _, _, _, rfl, rfl, rfl, rfl, rfl, rfl, rfl, rfl⟩

/-- Non-vacuity of the opportunity-station delegation theorem: `toyState` without the battery entry — GC1 is an
opportunity connector with vehicle v1 at CS_v1_opps, and its treatment returns. -/
example : ∃ gc cands cvs stations,
    toyState.world.gc? "GC1" = some gc ∧ sdGet toyState.init.strategies "GC1" = some Kind.opps ∧
    candidates toyState.world toyState.numberCs toyState.connected "GC1" = .ok cands ∧
    connectedAt toyState.world "GC1" cands = .ok cvs ∧
    (sdGet ({ toyState.init with gcBattery := [] } : DInit ℚ).gcBattery "GC1").getD [] = [] ∧ cvs.isEmpty = false ∧
    subStations toyState.world cvs = .ok stations ∧ cvs.map (·.id) = ["v1"] ∧
    (stepGc (toyDOps 5) toyEnv toyState.numberCs toyState.connected ⟨[("GC1", []), ("GC2", [])], []⟩
      (toyState.world, { toyState.init with gcBattery := [] }, []) "GC1").toBool = true :=
  ⟨_, _, _, _, rfl, rfl, rfl, rfl, rfl, rfl, rfl, rfl, by decide +kernel⟩

/-- Non-vacuity of the frame theorem and of `C14_distributed_virtual_world_local`: treating GC1 in `toyState`
returns; GC2 is untouched. -/
example : (stepGc (toyDOps 5) toyEnv toyState.numberCs toyState.connected ⟨[("GC1", []), ("GC2", [])], []⟩
    (toyState.world, toyState.init, []) "GC1").toBool = true := by decide +kernel

/-- Non-vacuity of the station-count theorem: one charging point, no holder, one candidate: the ranking returns
with that candidate as the holder. -/
example : (rankGc toyState.world ⟨[("GC1", [("v1", (1/5 : ℚ))]), ("GC2", [])], []⟩ [] "GC1" 1).toOption = some ["v1"] := by
  decide +kernel

end SpiceEv
