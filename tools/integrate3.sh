#!/bin/bash
# tools/integrate3.sh <builder name under /tmp/w3> [base commit]: apply the builder's committed changes (without evidence/replays)
# to /verif as a 3-way patch
set -e
n=$1; base=${2:-0417378}; src=/tmp/w3/$n/verif
cd $src
git diff --binary $base HEAD -- . ':!evidence' ':!replays' ':!MANIFEST.json' ':!DESIGN.md' > /tmp/w3/$n.patch
cd /verif
git apply --3way --whitespace=nowarn /tmp/w3/$n.patch && echo "applied $n" || echo "CONFLICTS in $n"
git status --short | grep -v "^??" | head -40
