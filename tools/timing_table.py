#!/usr/bin/env python3
"""prints wall time, evaluations and model lines per property from the evidence files (for DESIGN.md I.6)"""
import glob
import json
import os

V = os.path.dirname(os.path.dirname(os.path.abspath(__file__)))
for f in sorted(glob.glob(os.path.join(V, "evidence", "C*.json"))):
    e = json.load(open(f))
    c = e["coverage"]
    print("| %s | %s | %.0f s | %d | %d | %d/%d | %s |" % (
        e["property_id"], e["tier"], e["wall_s"], c["evaluations"], sum(c.get("model_lines_compared", {}).values()),
        c["discharged"], c["obligations"], sum(c.get("known_findings_hit", {}).values())))
