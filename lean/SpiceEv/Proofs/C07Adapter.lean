/-
C07 — adapter between the abstract hypothesis of the run theorems and the strategy models' frame.

C07's run theorems (`Properties/C07.lean`) are stated for an arbitrary function
`rest : Strat α → Strat α × Option PyErr` ("the strategy's own action of a step") with the hypothesis
`KeepsConnectors rest` (resp. `KeepsQueue rest`).  The strategy models (`Model/Strategies.lean`, …) work on their own
world type `SWorld α B`; their frame theorem is `Keeps.GcKeeps (sbName w) w.gcs w'.gcs` (`Proofs/C07Keeps*.lean`).

This file defines the concrete `rest` of a strategy model (`restOf`: view C07's state as the model's world, run the
model's step, write the connector records and the vehicles back) and proves that the models' frame is exactly C07's
hypothesis (`keepsConnectors_restOf`), and instantiates the run theorems.

Number type context: that of `Proofs/EventsConn.lean` (`[Field α] [LinearOrder α] [IsStrictOrderedRing α]`), which is
the context `KeepsConnectors` is stated in.
-/
import SpiceEv.Proofs.C07Keeps
import SpiceEv.Proofs.EventsConn
import SpiceEv.Properties.C07
set_option linter.unusedSectionVars false
set_option linter.unusedSimpArgs false
set_option linter.unusedVariables false
namespace SpiceEv
namespace Keeps

variable {α : Type} [Field α] [LinearOrder α] [IsStrictOrderedRing α] {B : Type}

/-- `gc.cost` as the strategy models see it (`{}` = none) -/
def costOf : Cost α → Option (GcCost α)
  | .empty => none
  | .fixed v => some (.fixed v)
  | .poly cs => some (.polynomial cs)

/-- … and back -/
def costBack : Option (GcCost α) → Cost α
  | none => .empty
  | some (.fixed v) => .fixed v
  | some (.polynomial cs) => .poly cs

theorem costBack_costOf (c : Cost α) : costBack (costOf c) = c := by
  cases c <;> rfl

/-- a connector as the strategy models' record; `none` when the limit is `None` (every strategy raises `TypeError`
on it) -/
def gcOf (id : String) (c : Connector α) : Option (GcS α) :=
  c.curMaxPower.map (fun m => ⟨id, m, costOf c.cost, c.loads⟩)

/-- write a model record back into the connector object -/
def putGc (c : Connector α) (g : GcS α) : Connector α :=
  { c with curMaxPower := some g.curMax, cost := costBack g.cost, loads := g.loads }

/-- the part of the state that C07's `World` does not carry (battery objects, vehicle types, station minima …), as
functions of the state, with the one law that matters here: the models' station / battery ids are station / battery
names of the state -/
structure Extra (α B : Type) where
  stations : Strat α → List (StationS α)
  vehicles : Strat α → List (VehicleS α B)
  batteries : Strat α → List (StatBatS α B)
  /-- how SoCs … are written back (free) -/
  vehBack : Strat α → SWorld α B → List (String × Vehicle α)
  st_ok : ∀ s, ∀ x ∈ stations s, alHas x.id s.world.stations = true
  bat_ok : ∀ s, ∀ x ∈ batteries s, s.world.batteries.contains x.id = true

def viewOf (X : Extra α B) (s : Strat α) : Option (SWorld α B) :=
  (s.world.connectors.mapM (fun kc => gcOf kc.1 kc.2)).map
    (fun gcs => ⟨gcs, X.stations s, X.vehicles s, X.batteries s⟩)

/-- the concrete strategy's action of a step on C07's state: view the state as the model's world, run the model's
step, write the connector records and the vehicles back.  Connector names that are not pairwise distinct (not a
dict) → nothing happens; a `None` limit → `TypeError`; an exception of the step → that exception (the run ends
there). -/
def restOf (X : Extra α B) (stepM : SWorld α B → Py (SWorld α B × List (String × α))) (s : Strat α) :
    Strat α × Option PyErr :=
  if (s.world.connectors.map (·.1)).Nodup then
    match viewOf X s with
    | none => (s, some .typeError)
    | some w =>
      match stepM w with
      | .error e => (s, some e)
      | .ok (w', _) =>
        ({ s with world := { s.world with
            connectors := s.world.connectors.map (fun kc =>
              match w'.gcs.find? (fun g => g.id == kc.1) with
              | some g => (kc.1, putGc kc.2 g)
              | none => kc)
            vehicles := X.vehBack s w' } }, none)
  else (s, none)

/-! ### helper lemmas -/

theorem gcOf_some {id : String} {c : Connector α} {r : GcS α} (h : gcOf id c = some r) :
    r.id = id ∧ c.curMaxPower = some r.curMax ∧ r.cost = costOf c.cost ∧ r.loads = c.loads := by
  unfold gcOf at h
  cases hm : c.curMaxPower with
  | none => rw [hm] at h; simp at h
  | some m =>
    rw [hm] at h
    simp only [Option.map_some, Option.some.injEq] at h
    subst h
    exact ⟨rfl, rfl, rfl, rfl⟩

/-- a successful view: same names in the same order, and looking a name up in the records is looking it up in the
dict of connectors -/
theorem view_find (conns : List (String × Connector α)) : ∀ (gcs : List (GcS α)),
    conns.mapM (fun kc => gcOf kc.1 kc.2) = some gcs →
    gcs.map (·.id) = conns.map (·.1) ∧
    ∀ g, (alGet? g conns = none → gcs.find? (fun r => r.id == g) = none) ∧
      (∀ c, alGet? g conns = some c →
        ∃ r, gcOf g c = some r ∧ gcs.find? (fun r => r.id == g) = some r) := by
  induction conns with
  | nil =>
    intro gcs h
    simp at h
    subst h
    simp [alGet?]
  | cons kc conns ih =>
    intro gcs h
    obtain ⟨k, c⟩ := kc
    rw [List.mapM_cons] at h
    cases h1 : gcOf k c with
    | none => simp [h1] at h
    | some r =>
      cases h2 : conns.mapM (fun kc => gcOf kc.1 kc.2) with
      | none => simp [h1, h2] at h
      | some rs =>
        simp [h1, h2] at h
        subst h
        obtain ⟨i1, i2⟩ := ih rs h2
        have hid := (gcOf_some h1).1
        refine ⟨by simp [hid, i1], fun g => ?_⟩
        by_cases hk : k = g
        · subst hk
          simp [alGet?, List.find?_cons, hid, h1]
        · have hb : (r.id == g) = false := by simp [hid, hk]
          simp only [alGet?, hk, if_false, List.find?_cons, hb]
          exact i2 g

/-- two record lists with the same keys: looking an id up succeeds on both or on none, with equal keys -/
theorem find?_of_map_key (S : String → Bool) : ∀ (l l' : List (GcS α)),
    l'.map (gcKey S) = l.map (gcKey S) → ∀ g,
    optRel (fun r r' => gcKey S r' = gcKey S r)
      (l.find? (fun r => r.id == g)) (l'.find? (fun r => r.id == g)) := by
  intro l
  induction l with
  | nil =>
    intro l' h g
    cases l' with
    | nil => simp [optRel]
    | cons y ys => simp at h
  | cons x xs ih =>
    intro l' h g
    cases l' with
    | nil => simp at h
    | cons y ys =>
      simp only [List.map_cons, List.cons.injEq] at h
      have hid : y.id = x.id := congrArg Prod.fst h.1
      simp only [List.find?_cons, hid]
      cases hx : (x.id == g) with
      | true => simp only [optRel]; exact h.1
      | false => exact ih ys h.2 g

/-- writing records back into a dict of connectors, looked up by name -/
theorem alGet?_writeBack (gcs' : List (GcS α)) (g : String) : ∀ (conns : List (String × Connector α)),
    alGet? g (conns.map (fun kc =>
        match gcs'.find? (fun r => r.id == kc.1) with
        | some r => (kc.1, putGc kc.2 r)
        | none => kc)) =
      (alGet? g conns).map (fun c =>
        match gcs'.find? (fun r => r.id == g) with
        | some r => putGc c r
        | none => c) := by
  intro conns
  induction conns with
  | nil => simp [alGet?]
  | cons kc conns ih =>
    obtain ⟨k, c⟩ := kc
    simp only [List.map_cons]
    by_cases hk : k = g
    · subst hk
      cases hf : gcs'.find? (fun r => r.id == k) with
      | none => simp [alGet?, hf]
      | some r => simp [alGet?, hf]
    · cases hf : gcs'.find? (fun r => r.id == k) with
      | none => simp only [alGet?, hk, if_false]; exact ih
      | some r => simp only [alGet?, hk, if_false]; exact ih

theorem alGet?_of_restLoads (S : String → Bool) (r r' : GcS α) (h : restLoads S r' = restLoads S r)
    (nm : String) (hn : S nm = false) : alGet? nm r'.loads = alGet? nm r.loads := by
  have h1 := alGet?_filter_key (β := α) (fun k => !S k) nm (by simp [hn]) r.loads
  have h2 := alGet?_filter_key (β := α) (fun k => !S k) nm (by simp [hn]) r'.loads
  unfold restLoads at h
  rw [← h1, ← h2, h]

theorem viewOf_some {X : Extra α B} {s : Strat α} {w : SWorld α B} (h : viewOf X s = some w) :
    s.world.connectors.mapM (fun kc => gcOf kc.1 kc.2) = some w.gcs ∧
    w.stations = X.stations s ∧ w.batteries = X.batteries s := by
  unfold viewOf at h
  cases hm : s.world.connectors.mapM (fun kc => gcOf kc.1 kc.2) with
  | none => rw [hm] at h; simp at h
  | some gcs =>
    rw [hm] at h
    simp only [Option.map_some, Option.some.injEq] at h
    subst h
    exact ⟨rfl, rfl, rfl⟩

/-- the names the model may write load entries under are station / battery names of the state -/
theorem sbName_view {X : Extra α B} {s : Strat α} {w : SWorld α B} (h : viewOf X s = some w)
    (nm : String) (hn : isSBof s nm = false) : sbName w nm = false := by
  obtain ⟨-, hs, hb⟩ := viewOf_some h
  rw [Bool.eq_false_iff] at hn ⊢
  intro ht
  apply hn
  unfold sbName at ht
  unfold isSBof
  rw [Bool.or_eq_true] at ht ⊢
  rcases ht with ht | ht
  · left
    obtain ⟨x, hx, he⟩ := List.any_eq_true.mp ht
    rw [hs] at hx
    have := X.st_ok s x hx
    rw [beq_iff_eq.mp he] at this
    exact this
  · right
    obtain ⟨x, hx, he⟩ := List.any_eq_true.mp ht
    rw [hb] at hx
    have := X.bat_ok s x hx
    rw [beq_iff_eq.mp he] at this
    exact this

/-- the core: records with the keys of the view, written back, give connectors that agree with the old ones up to
the entries under names of `S` -/
theorem conn_writeBack (S isSB : String → Bool) (conns : List (String × Connector α)) (gcs gcs' : List (GcS α))
    (hview : conns.mapM (fun kc => gcOf kc.1 kc.2) = some gcs)
    (hkey : gcs'.map (gcKey S) = gcs.map (gcKey S))
    (hS : ∀ nm, isSB nm = false → S nm = false) (g : String) :
    optRel (ConnSame isSB) (alGet? g conns)
      ((alGet? g conns).map (fun c =>
        match gcs'.find? (fun r => r.id == g) with
        | some r => putGc c r
        | none => c)) := by
  obtain ⟨-, hfind⟩ := view_find conns gcs hview
  obtain ⟨-, hsome⟩ := hfind g
  cases hc : alGet? g conns with
  | none => simp [optRel]
  | some c =>
    obtain ⟨r, hr, hfr⟩ := hsome c hc
    have hrel := find?_of_map_key S gcs gcs' hkey g
    rw [hfr] at hrel
    cases hf' : gcs'.find? (fun r => r.id == g) with
    | none => rw [hf'] at hrel; simp [optRel] at hrel
    | some r' =>
      rw [hf'] at hrel
      simp only [optRel] at hrel
      simp only [Option.map_some, optRel]
      obtain ⟨-, hm, hcost, hloads⟩ := gcOf_some hr
      unfold gcKey at hrel
      simp only [Prod.mk.injEq] at hrel
      obtain ⟨-, k2, k3, k4⟩ := hrel
      refine ⟨rfl, ?_, ?_, rfl, rfl, ?_⟩
      · show some r'.curMax = c.curMaxPower
        rw [hm, k2]
      · show costBack r'.cost = c.cost
        rw [k3, hcost, costBack_costOf]
      · intro nm hn
        show alGet? nm r'.loads = alGet? nm c.loads
        rw [← hloads]
        exact alGet?_of_restLoads S r r' k4 nm (hS nm hn)

/-! ### the deliverable -/

/-- the frame of a strategy model's step is exactly C07's hypothesis on the strategy's own action -/
theorem keepsConnectors_restOf (X : Extra α B) (stepM : SWorld α B → Py (SWorld α B × List (String × α)))
    (hframe : ∀ w w' c, stepM w = .ok (w', c) → GcKeeps (sbName w) w.gcs w'.gcs) :
    KeepsConnectors (restOf X stepM) := by
  intro s
  unfold restOf
  split
  · rename_i hnd
    split
    · exact ⟨SameFrame.refl s, fun g => optRel_refl (ConnSame.refl _) _⟩
    · rename_i w hw
      split
      · exact ⟨SameFrame.refl s, fun g => optRel_refl (ConnSame.refl _) _⟩
      · rename_i w' cmds hstep
        refine ⟨⟨rfl, rfl, rfl, rfl⟩, fun g => ?_⟩
        obtain ⟨hview, -, -⟩ := viewOf_some hw
        obtain ⟨hids, -⟩ := view_find _ _ hview
        have hkey := GcKeeps.map_key (hframe w w' cmds hstep) (by rw [hids]; exact hnd)
        have h1 := conn_writeBack (sbName w) (isSBof s) s.world.connectors w.gcs w'.gcs hview hkey
          (fun nm hn => sbName_view hw nm hn) g
        have h2 := alGet?_writeBack w'.gcs g s.world.connectors
        show optRel (ConnSame (isSBof s)) (alGet? g s.world.connectors)
          (alGet? g (s.world.connectors.map (fun kc =>
            match w'.gcs.find? (fun r => r.id == kc.1) with
            | some r => (kc.1, putGc kc.2 r)
            | none => kc)))
        rw [h2]
        exact h1
  · exact ⟨SameFrame.refl s, fun g => optRel_refl (ConnSame.refl _) _⟩

theorem keepsQueue_restOf (X : Extra α B) (stepM : SWorld α B → Py (SWorld α B × List (String × α)))
    (hframe : ∀ w w' c, stepM w = .ok (w', c) → GcKeeps (sbName w) w.gcs w'.gcs) :
    KeepsQueue (restOf X stepM) :=
  keepsQueue_of_keepsConnectors _ (keepsConnectors_restOf X stepM hframe)

/-! ### C07's run theorems for a strategy model's step

The statements of `C07_effect_step`, `C07_in_force`, `C07_limit_lower_only` (`Properties/C07.lean`) with
`rest := restOf X stepM`; the hypothesis on `rest` is replaced by the model's frame theorem `hframe`. -/

/-- `C07_effect_step` for a strategy model -/
theorem effect_step_restOf (X : Extra α B) (stepM : SWorld α B → Py (SWorld α B × List (String × α)))
    (hframe : ∀ w w' c, stepM w = .ok (w', c) → GcKeeps (sbName w) w.gcs w'.gcs)
    (cfg : Cfg α) (start : Int) (n : Nat) (hΔ : 0 < cfg.interval) (hn : 0 < n)
    (w : World α) (conc : α) (s0 : Strat α) (hinit : Strat.init w start cfg.interval conc = .ok s0)
    (all : List (Event α)) (roe : Strat α → Strat α) (j : Nat) (r : StepResult α)
    (hr : (runLoop cfg (restOf X stepM) roe s0 (bucketsOf start n cfg.interval all)).trace[j]? = some r) :
    let due := sortByStart ((((bucketsOf start n cfg.interval all).take (j + 1)).flatten).filter
        (fun e => effectStep start n cfg.interval e == some j))
    j < n ∧
    r.strat.now = start + (j : Int) * cfg.interval ∧
    r.popped <+: due ∧
    (r.err = none → r.popped = due ∧
      r.strat.world.queue = pendingList (start + (j : Int) * cfg.interval)
        (((bucketsOf start n cfg.interval all).take (j + 1)).flatten)) ∧
    ∀ e, e ∈ due ↔ e ∈ all ∧ effectStep start n cfg.interval e = some j :=
  C07_effect_step cfg start n hΔ hn w conc s0 hinit all (restOf X stepM) roe
    (keepsQueue_restOf X stepM hframe) j r hr

/-- `C07_in_force` for a strategy model -/
theorem in_force_restOf (X : Extra α B) (stepM : SWorld α B → Py (SWorld α B × List (String × α)))
    (hframe : ∀ w w' c, stepM w = .ok (w', c) → GcKeeps (sbName w) w.gcs w'.gcs)
    (cfg : Cfg α) (s0 : Strat α) (Bs : List (List (Event α)))
    (roe : Strat α → Strat α) (j : Nat) (r : StepResult α)
    (hr : (runLoop cfg (restOf X stepM) roe s0 Bs).trace[j]? = some r) (herr : r.err = none)
    (g : String) (c0 : Connector α) (hc0 : alGet? g s0.world.connectors = some c0) :
    let log := appliedLog (runLoop cfg (restOf X stepM) roe s0 Bs).trace j
    ∃ c, alGet? g r.strat.world.connectors = some c ∧
      c.maxPower = c0.maxPower ∧
      c.cost = lastSet (Event.setsCost g) c0.cost log ∧
      c.target = lastSet (Event.setsTarget g) c0.target log ∧
      c.window = lastSet (Event.setsWindow g) c0.window log ∧
      c.curMaxPower = lastSet (Event.setsLimit g c0.maxPower) c0.curMaxPower log ∧
      ∀ nm, isSBof s0 nm = false →
        alGet? nm c.loads = lastSet (Event.setsLoad g nm) (alGet? nm c0.loads) log :=
  C07_in_force cfg s0 Bs (restOf X stepM) roe (keepsConnectors_restOf X stepM hframe) j r hr herr g c0 hc0

/-- `C07_limit_lower_only` for a strategy model -/
theorem limit_lower_only_restOf (X : Extra α B) (stepM : SWorld α B → Py (SWorld α B × List (String × α)))
    (hframe : ∀ w w' c, stepM w = .ok (w', c) → GcKeeps (sbName w) w.gcs w'.gcs)
    (cfg : Cfg α) (s0 : Strat α) (Bs : List (List (Event α)))
    (roe : Strat α → Strat α) (j : Nat) (r : StepResult α)
    (hr : (runLoop cfg (restOf X stepM) roe s0 Bs).trace[j]? = some r) (herr : r.err = none)
    (g : String) (c0 : Connector α) (hc0 : alGet? g s0.world.connectors = some c0)
    (hrating : c0.maxPower ≠ 0) (hnew : c0.curMaxPower = some c0.maxPower) :
    (∀ (c : Connector α) (ℓ : α) (cost : Option (Cost α)) (t : Option α) (win : Option Bool),
      c.maxPower ≠ 0 →
      (c.applySignal (some ℓ) cost t win).curMaxPower = some (min c.maxPower ℓ) ∧
      (c.applySignal none cost t win).curMaxPower = c.curMaxPower ∧
      (c.applySignal (some ℓ) cost t win).maxPower = c.maxPower) ∧
    ∃ c y, alGet? g r.strat.world.connectors = some c ∧ c.maxPower = c0.maxPower ∧
      c.curMaxPower = some y ∧ y ≤ c0.maxPower :=
  C07_limit_lower_only cfg s0 Bs (restOf X stepM) roe (keepsConnectors_restOf X stepM hframe) j r hr herr
    g c0 hc0 hrating hnew

/-- instance for the greedy / balanced model (`ruleStep`, frame theorem `ruleStep_keeps`) -/
theorem keepsConnectors_ruleStep (X : Extra α B) (rule : Rule) (ops : BatOps α B) (env : StratEnv α) :
    KeepsConnectors (restOf X (ruleStep rule ops env)) :=
  keepsConnectors_restOf X _ (fun w w' c h => ruleStep_keeps rule ops env w w' c h)

end Keeps
end SpiceEv
