/-
C17 — step totality of `distributed` with a `peak_shaving` sub-strategy object, obtained by composing
`C17_distributed_…_step_total_partial` (Properties/C17_DistributedTotal.lean: sub-step totality assumed) with
`C17_peak_shaving_step_total_no_battery` (Properties/C17_PeakShavingTotal.lean).  The cases that remain partial are the
ones in which a sub-strategy object runs a bisection on a connector handed over by the class: peak_shaving at a depot
WITH stationary batteries, and peak_load_window anywhere (needs: the sub-steps keep their single connector's id and limit
through the connector loop).
-/
import SpiceEv.Properties.C17_DistributedTotal
import SpiceEv.Properties.C17_PeakShavingTotal
set_option linter.unusedSectionVars false
set_option linter.unusedVariables false
namespace SpiceEv
open SpiceEv.Distrib SpiceEv.DistribTotal
variable {α B : Type} [Field α] [LinearOrder α] [IsStrictOrderedRing α]

/-- **`distributed` with `peak_shaving` at the opportunity stations and greedy / balanced at the depots is total**: the
opportunity object is only ever run on worlds without stationary batteries (the model passes `[]`), where
`PeakShaving.step` runs no bisection. -/
theorem C17_distributed_peak_shaving_opps_step_total (dops : DOps α B) (hnf : DNoFuel dops) (de : DEnv α)
    (cfg : PSCfg) (hc : de.opps.ps = some cfg) (heps : 0 < de.opps.eps) (hd : de.deps.isRule) (s : DState α B) :
    Distrib.step dops de s ≠ .error .fuel :=
  C17_distributed_step_total_partial dops hnf de (subTotal_of_isRule _ _ _ _ hd)
    (subTotalNoBat_of_ps dops de de.opps cfg hc (fun evs w hnb =>
      C17_peak_shaving_step_total_no_battery (psOps dops) (noFuelErr_of_dNoFuel dops hnf) _ heps evs w hnb)) s

/-- **`distributed` with `peak_shaving` objects on both kinds of connectors is total when no depot connector has a
stationary battery** (`NoDepotBattery`: then no sub-step ever runs a bisection). -/
theorem C17_distributed_peak_shaving_no_depot_battery_step_total (dops : DOps α B) (hnf : DNoFuel dops) (de : DEnv α)
    (cfgD cfgO : PSCfg) (hcd : de.deps.ps = some cfgD) (hco : de.opps.ps = some cfgO)
    (hepsD : 0 < de.deps.eps) (hepsO : 0 < de.opps.eps) (s : DState α B) (hnb : NoDepotBattery s.init) :
    Distrib.step dops de s ≠ .error .fuel :=
  C17_distributed_no_depot_battery_step_total_partial dops hnf de
    (subTotalNoBat_of_ps dops de de.deps cfgD hcd (fun evs w hnb' =>
      C17_peak_shaving_step_total_no_battery (psOps dops) (noFuelErr_of_dNoFuel dops hnf) _ hepsD evs w hnb'))
    (subTotalNoBat_of_ps dops de de.opps cfgO hco (fun evs w hnb' =>
      C17_peak_shaving_step_total_no_battery (psOps dops) (noFuelErr_of_dNoFuel dops hnf) _ hepsO evs w hnb')) s hnb

/-- non-vacuity: the toy environment with a `PeakShaving` object at the opportunity stations (bisection fuel 0!) and a
rule object at the depots satisfies the hypotheses; the theorem gives that its step is not `FUEL` -/
example : Distrib.step (toyDOps 5) (toyEnvPSOpps 0) toyState ≠ .error .fuel := by
  obtain ⟨cfg, hc⟩ : ∃ cfg, (toyEnvPSOpps 0).opps.ps = some cfg := ⟨_, rfl⟩
  exact C17_distributed_peak_shaving_opps_step_total (toyDOps 5) (toyDNoFuel 5) (toyEnvPSOpps 0) cfg hc
    (by decide +kernel) ⟨rfl, rfl⟩ toyState

end SpiceEv
