"""Does the battery bisection of the REAL PeakShaving.step_gc terminate on doubles when a power level is so large
that neighbouring doubles are more than EPS apart (>= 2**36 kW)?  Runs a generated scenario with a stationary
battery and the fixed load replaced by `LEVEL`; a 20 s alarm reports where the code is when it does not finish."""
import sys, os, signal, traceback, json
os.environ.setdefault('VERIF_REPO', '/tmp/w3/loopfuel/repo')
sys.path.insert(0, '/tmp/w3/loopfuel/s2/verif/harness')
sys.path.insert(0, '/tmp/w3/loopfuel/s2/verif')
import engine, scen
import s_peak_shaving as sp
engine.use_repo()
LEVEL = float(sys.argv[1]) if len(sys.argv) > 1 else 1e12
for i in range(0, 30, 3):
    full = sp.gen_full(0, i, max_steps=20)
    sc = full["scenario"]
    if not sc["components"].get("batteries"):
        continue
    if not sc["events"]["fixed_load"]:
        continue
    for series in sc["events"]["fixed_load"].values():
        series["values"] = [LEVEL + 0.37 * k for k in range(len(series["values"]))]
    for g in sc["components"]["grid_connectors"].values():
        g["max_power"] = 4 * LEVEL
    def onalarm(sig, frm):
        print("ALARM after 20 s; stack:", file=sys.stderr)
        traceback.print_stack(frm, limit=6)
        loc = frm.f_locals
        f_ = frm
        while f_ is not None and f_.f_code.co_name != "step_gc":
            f_ = f_.f_back
        loc = f_.f_locals if f_ is not None else loc
        for k in ("max_power", "min_power", "target_power", "charge_limit"):
            if k in loc:
                print(" ", k, "=", repr(loc[k]), file=sys.stderr)
        os._exit(3)
    signal.signal(signal.SIGALRM, onalarm)
    signal.alarm(20)
    try:
        import copy, pathlib, io, contextlib
        from spice_ev import scenario as sc_mod
        s_ = sc_mod.Scenario(copy.deepcopy(sc), pathlib.Path(""))
        opts = dict(full.get("options", {}))
        with contextlib.redirect_stdout(io.StringIO()):
            s_.run("peak_shaving", opts)
        signal.alarm(0)
        print("case", i, "LEVEL", LEVEL, "finished normally")
    except BaseException as e:
        signal.alarm(0)
        print("case", i, "exception", type(e).__name__, str(e)[:300])
    break
