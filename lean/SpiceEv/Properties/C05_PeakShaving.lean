/-
C05 (charging-station and vehicle power limits) for the charging strategy `peak_shaving`
(Model/StratPeakShaving.lean, tied to spice_ev/strategies/peak_shaving.py bit for bit by harness/s_peak_shaving.py).

The model is the REPAIRED class (fixes/PS1.diff): the surplus left after planning is offered vehicle by vehicle inside
`clamp_power`.  The former finding `C05:station_limit:peak_shaving:charge` (D6) is gone and with it the hypothesis
"no surplus" of the earlier `_partial` theorems; the station theorems below are unconditional in the connector's load.
-/
import SpiceEv.Proofs.StratPeakShavingVeh
set_option linter.unusedSectionVars false
set_option linter.unusedVariables false
namespace SpiceEv
open PeakShaving
variable {α B : Type} [Field α] [LinearOrder α] [IsStrictOrderedRing α]

/-- **Every planned power lies within the station's headroom.**  Whatever `step_gc` plans for a vehicle — in the
regular branch (`fast_charge`) and in the "faulty arrival/departure" branch alike, for vehicles standing now and for
predicted arrivals — the resulting `schedule` is `0` or a value of `clamp_power` for the station the vehicle is
connected to: `0 ≤ schedule ≤ max(0, cs.max_power − cs.current_power)` (the concurrency-scaled maximum; the
station's and the vehicle's minimum power are part of `clamp_power`, C05's clamp laws). -/
theorem C05_peak_shaving_schedule_within_station (ops : PeakShaving.Ops α B) (law : BatLaw ops.bat)
    (env : PeakShaving.Env α) (w : SWorld α B) (gcCurMax : α) (nAhead : Int) (ts ts' : List (TS α))
    (vi vi' : VInfo α B) (d : Int)
    (h : adjustVehicle ops env w gcCurMax nAhead ts vi d = .ok (ts', vi')) :
    0 ≤ vi'.schedule ∧
    (vi'.schedule = 0 ∨ ∃ cs, vi.veh.cs.bind w.station? = some cs ∧
      vi'.schedule ≤ max 0 (cs.maxPower - cs.currentPower)) := by
  obtain ⟨_, _, _, _, _, _, hs⟩ := adjustVehicle_spec ops law env w gcCurMax nAhead ts ts' vi vi' d h
  rcases hs with hs | ⟨cs, hcs, hh⟩
  · exact ⟨by rw [hs], Or.inl hs⟩
  · obtain ⟨h0, h1⟩ := inHeadroom_bounds cs _ _ hh
    exact ⟨h0, Or.inr ⟨cs, hcs, h1⟩⟩

/-- a booked vehicle charge that respects the station: the station exists, the battery takes between `0` and the
requested power `p`, and `p` is within the station's headroom -/
def StationStep (ops : PeakShaving.Ops α B) (w : SWorld α B) (a a' : Acc α B) : Prop :=
  ∃ csId cs p avg, w.station? csId = some cs ∧ VehBooked ops a a' csId p avg ∧
    0 ≤ avg ∧ avg ≤ p ∧ p ≤ max 0 (cs.maxPower - cs.currentPower)

/-- **Station limits hold for every booking — surplus or not** (repaired code).  For any battery obeying the battery
law, any world and events: every power `step_gc` books for a charging station is booked for an existing station, is
non-negative (no vehicle is ever discharged, V2G-capable or not), is at most what was requested from the vehicle's
battery, and the request — the planned schedule, or with surplus `max(clamp_power(planned + surplus), planned)` — is at
most the station's headroom `max(0, cs.max_power − cs.current_power)`. -/
theorem C05_peak_shaving_station (ops : PeakShaving.Ops α B) (law : BatLaw ops.bat)
    (env : PeakShaving.Env α) (events : List (PeakShaving.Ev α))
    (w w' : SWorld α B) (gc : GcS α) (cmds : List (String × α)) (fc : List α)
    (h : PeakShaving.stepGc ops env events w gc = .ok (w', cmds, fc)) :
    ∃ acc1 acc2,
      Relation.ReflTransGen (StationStep ops w) ⟨w, gc, []⟩ acc1 ∧
      Relation.ReflTransGen (BatBooked ops w gc.id) acc1 acc2 ∧
      w' = acc2.world.setGc acc2.gc ∧ cmds = acc2.cmds ∧ cmds = acc1.cmds := by
  obtain ⟨nAhead, arr, ts0, ts, vehicles, acc1, acc2, _, hfc, hadj, hap, hbat, hw, hc⟩ :=
    stepGc_shape ops env events w w' gc cmds fc h
  have hc1 : cmds = acc1.cmds := by rw [hc]; exact batteryBooked_cmds ops w gc.id _ _ hbat
  obtain ⟨_, hsched⟩ := adjustAll_spec ops law env w gc.curMax nAhead _ _ _ _ _ (by simp) hadj
  rcases applyPass_trace ops w gc ts vehicles acc1 hap with ⟨_, rfl⟩ | ⟨t0, ht0, htr⟩
  · exact ⟨_, acc2, Relation.ReflTransGen.refl, hbat, hw, hc, hc1⟩
  · refine ⟨acc1, acc2, ?_, hbat, hw, hc, hc1⟩
    clear hap hbat hc1 hc hw
    induction htr with
    | refl => exact Relation.ReflTransGen.refl
    | tail hpre hstep ih =>
      refine Relation.ReflTransGen.tail ih ?_
      rename_i b c
      have hst : b.world.station? = w.station? := by
        funext k
        unfold SWorld.station?
        rw [(vehTrace_world ops _ _ _ hpre).2.2.2]
      obtain ⟨vi, avg, p, hvi, _, hpos, hp, hbk⟩ := hstep
      obtain ⟨vid, v, bat', hv, hl, hacc⟩ := hbk
      obtain ⟨ha0, ha1⟩ := law.load_target _ _ _ _ hl
      rw [max_eq_left hpos.le] at ha1
      -- the station and the bound of the request
      have key : ∃ c cs, vi.veh.cs = some c ∧ w.station? c = some cs ∧ p ≤ max 0 (cs.maxPower - cs.currentPower) := by
        have hs := hsched vi hvi
        rcases hp with rfl | ⟨cs, y, hcs, rfl⟩
        · rcases hs with hz | ⟨cs, hcs, hh⟩
          · rw [hz] at hpos; exact absurd hpos (lt_irrefl _)
          · cases hcsid : vi.veh.cs with
            | none => rw [hcsid] at hcs; simp at hcs
            | some c =>
              rw [hcsid] at hcs
              exact ⟨c, cs, rfl, by simpa using hcs, (inHeadroom_bounds cs _ _ hh).2⟩
        · cases hcsid : vi.veh.cs with
          | none => rw [hcsid] at hcs; simp at hcs
          | some c =>
            rw [hcsid, hst] at hcs
            simp only [Option.bind_some] at hcs
            refine ⟨c, cs, rfl, hcs, max_le (inHeadroom_bounds cs vi.veh.minChargingPower _ (Or.inr ⟨y, rfl⟩)).2 ?_⟩
            rcases hs with hz | ⟨cs0, hcs0, hh⟩
            · rw [hz]; exact le_max_left _ _
            · rw [hcsid] at hcs0
              simp only [Option.bind_some] at hcs0
              rw [hcs] at hcs0
              simp only [Option.some.injEq] at hcs0
              subst hcs0
              exact (inHeadroom_bounds cs _ _ hh).2
      obtain ⟨c, cs, hcsid, hcs, hpb⟩ := key
      refine ⟨c, cs, p, avg, hcs, ⟨vid, v, bat', hv, hl, ?_⟩, ha0, ha1, hpb⟩
      rw [hacc, hcsid]
      rfl

/-- **Every command `step_gc` returns is within the station's maximum — surplus or not** (repaired code).
Hypotheses: battery law, no visible past event, unique vehicle ids, vehicles occupy distinct stations and the
connector's load list has no charging-station entry at the start of the step (`StationsFree`; the base step
guarantees it).  Then every `(station, power)` in the returned commands names an existing station and
`0 ≤ power ≤ max(0, cs.max_power − cs.current_power)`. -/
theorem C05_peak_shaving_commands (ops : PeakShaving.Ops α B) (law : BatLaw ops.bat)
    (env : PeakShaving.Env α) (events : List (PeakShaving.Ev α)) (hev : EventsAhead env events)
    (w w' : SWorld α B) (hu : UniqueVehicles w) (gc : GcS α) (hfree : StationsFree w gc)
    (cmds : List (String × α)) (fc : List α)
    (h : PeakShaving.stepGc ops env events w gc = .ok (w', cmds, fc)) :
    ∀ kv ∈ cmds, ∃ cs, w.station? kv.1 = some cs ∧ 0 ≤ kv.2 ∧ kv.2 ≤ max 0 (cs.maxPower - cs.currentPower) :=
  stepGc_commands ops law env events hev w w' hu gc hfree cmds fc h

/-- **No vehicle is ever discharged** (with or without surplus, V2G-capable or not): every power `step_gc` books
for a charging station is the average power of a `battery.load` call, hence non-negative. -/
theorem C05_peak_shaving_never_discharges (ops : PeakShaving.Ops α B) (law : BatLaw ops.bat)
    (a a' : Acc α B) (P : VInfo α B → Prop) (h : VehStep ops P a a') :
    ∃ csId p avg, VehBooked ops a a' csId p avg ∧ 0 < p ∧ 0 ≤ avg ∧ avg ≤ p := by
  obtain ⟨vi, avg, p, _, _, hpos, _, hbk⟩ := h
  obtain ⟨vid, v, bat', hv, hl, hacc⟩ := hbk
  obtain ⟨ha0, ha1⟩ := law.load_target _ _ _ _ hl
  rw [max_eq_left hpos.le] at ha1
  exact ⟨_, p, avg, ⟨vid, v, bat', hv, hl, hacc⟩, hpos, ha0, ha1⟩

/-- a booked vehicle charge under the station of a connected vehicle of the world -/
def ConnectedStep (ops : PeakShaving.Ops α B) (w : SWorld α B) (a a' : Acc α B) : Prop :=
  ∃ csId p avg v, v ∈ w.vehicles ∧ v.cs = some csId ∧ VehBooked ops a a' csId p avg

/-- **Only a station with a connected vehicle carries power.**  With unique vehicle ids and no visible event at or
before the present step: every power `step_gc` books for a charging station — and hence every command it returns —
is booked under the station a vehicle of the world is connected to right now (predicted arrivals, the simulated
copies and stations without a vehicle never receive a command).  Holds with or without surplus. -/
theorem C05_peak_shaving_only_connected_stations (ops : PeakShaving.Ops α B) (law : BatLaw ops.bat)
    (env : PeakShaving.Env α) (events : List (PeakShaving.Ev α)) (hev : EventsAhead env events)
    (w w' : SWorld α B) (hu : UniqueVehicles w) (gc : GcS α) (cmds : List (String × α)) (fc : List α)
    (h : PeakShaving.stepGc ops env events w gc = .ok (w', cmds, fc)) :
    ∃ acc1, Relation.ReflTransGen (ConnectedStep ops w) ⟨w, gc, []⟩ acc1 ∧ cmds = acc1.cmds := by
  obtain ⟨nAhead, arr, ts0, ts, vehicles, acc1, acc2, _, hfc, hadj, hap, hbat, _, hc⟩ :=
    stepGc_shape ops env events w w' gc cmds fc h
  have hc1 : cmds = acc1.cmds := by rw [hc]; exact batteryBooked_cmds ops w gc.id _ _ hbat
  have hconn := planned_connected ops law env events hev w hu gc nAhead arr ts0 ts vehicles hfc hadj
  rcases applyPass_trace ops w gc ts vehicles acc1 hap with ⟨_, rfl⟩ | ⟨t0, _, htr⟩
  · exact ⟨_, Relation.ReflTransGen.refl, hc1⟩
  · refine ⟨acc1, ?_, hc1⟩
    clear hap hbat hc1 hc
    induction htr with
    | refl => exact Relation.ReflTransGen.refl
    | tail _ hstep ih =>
      refine Relation.ReflTransGen.tail ih ?_
      obtain ⟨vi, avg, p, hvi, harr, _, _, hbk⟩ := hstep
      obtain ⟨v, c, hv, _, hcs, hget⟩ := hconn vi hvi harr
      rw [hget] at hbk
      exact ⟨c, _, avg, v, hv, hcs, hbk⟩

/-! Non-vacuity of the station theorems: a connector drawing 3 kW, a vehicle at a 3.7 kW station that
needs 5 kWh within two steps: the command is the station's maximum. -/
example :
    (match PeakShaving.step toyOps ⟨1/100000, 4, 0, 900000000, 4 * 900000000, true, 60⟩ []
        ⟨[⟨"GC", 20, none, [("load", 3)]⟩], [⟨"CS", "GC", 37/10, 0, 0⟩],
         [⟨"v", some "CS", 1, some (2 * 900000000), 0, false, 0, 1/2⟩], []⟩ with
      | .ok (_, c, _) => c
      | .error _ => []) = [("CS", 37/10)] := by
  decide +kernel

/-! **The former witness of D6, now within the station limits:** 8 kW generation surplus, two vehicles at 3.7 kW
stations that need nothing.  The pinned code commanded 8 kW at both stations; the repaired code commands the station
maximum 3.7 kW at both, and 0.6 kW of the surplus remain (connector at −0.6 kW). -/
example :
    (match PeakShaving.step toyOps ⟨1/100000, 4, 0, 900000000, 4 * 900000000, true, 60⟩ []
        ⟨[⟨"GC", 10, none, [("pv", -8)]⟩], [⟨"CS1", "GC", 37/10, 0, 0⟩, ⟨"CS2", "GC", 37/10, 0, 0⟩],
         [⟨"v1", some "CS1", 1/2, some (2 * 900000000), 0, false, 0, 1/2⟩,
          ⟨"v2", some "CS2", 1/2, some (2 * 900000000), 0, false, 0, 1/2⟩], []⟩ with
      | .ok (w, c, _) => (c, w.gcs.map GcS.currentLoad)
      | .error _ => ([], [])) = ([("CS1", 37/10), ("CS2", 37/10)], [-3/5]) := by
  decide +kernel

end SpiceEv
