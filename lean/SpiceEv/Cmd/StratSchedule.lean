/- driver command for Model/StratSchedule.lean (`Schedule.step` on the Float battery model)

`step_schedule eps tsPerHour <now: ordinal µs offset> interval iterations fuel retryFuel <collective 0|1> <warn 0|1> <core>
   <#gcs> {id curMax <target: N | S x> <avg: N | S <#days> {<#slots> x…}> <#loads> {key x}}
   <#stations> {id parent max min current}
   <#vehicles> {id <cs: N | S id> desired <etd: N | S µs> minPower v2g dischargeLimit battery <schedule: N | S x> curveMax}
   <#batteries> {id parent minChargingPower battery}
   <#future> {start <G <N|S target> <N|S 0|1> | L name value | S vid <N|S x> | D vid | O>}
   <inCst> <overcharge> <#P> P… <#W> W… energyAvail <#needed> {id x} <#extra> {id x} batPower`
→ `commands | loads per connector | station power | vehicle SoCs | battery SoCs | state` or `!Error`.
`UnboundLocalError` (a Python local read before assignment) is `PyErr.noneResult` in this model. -/
import SpiceEv.Wire
import SpiceEv.Model.StratSchedule
import SpiceEv.Cmd.Battery
import SpiceEv.Cmd.Strategies
import SpiceEv.Cmd.Util
namespace SpiceEv.Cmd.StratSchedule
open SpiceEv SpiceEv.Sched SpiceEv.Cmd.Strategies

def floatOps : Ops Float (Battery Float) where
  soc b := b.soc
  capacity b := b.capacity
  efficiency b := b.efficiency
  unloadMaxPower b := b.unloadingCurve.maxPower
  load b us mp ts tp := b.load (Cmd.Battery.hoursOfMicros us) mp ts tp
  unload b us mp ts tp := b.unload (Cmd.Battery.hoursOfMicros us) mp ts tp
  available b us := (b.getAvailablePower (Cmd.Battery.hoursOfMicros us)).map (fun r => r.2)
  sum := floatSum

def pNum : P Float := P.num Float
def pKV : P (String × Float) := do let k ← P.tok; let v ← pNum; pure (k, v)

def pGcX : P (GcS Float × (String × GcX Float)) := do
  let id ← P.tok; let cm ← pNum; let target ← P.opt pNum
  let avg ← P.opt (P.list (P.list pNum))
  let loads ← P.list pKV
  pure (⟨id, cm, none, loads⟩, (id, ⟨target, avg⟩))

def pVehX : P (VehicleS Float (Battery Float) × (String × VehX Float)) := do
  let v ← pVeh
  let s ← P.opt pNum; let cm ← pNum
  pure (v, (v.id, ⟨s, cm⟩))

def pFuture : P (FutureEvent Float) := do
  let start ← P.int
  let k ← P.tok
  if k == "G" then do
    let t ← P.opt pNum; let w ← P.opt P.bool
    pure ⟨start, .gridSignal t w⟩
  else if k == "L" then do
    let name ← P.tok; let v ← pNum
    pure ⟨start, .localGen name v⟩
  else if k == "S" then do
    let vid ← P.tok; let s ← P.opt pNum
    pure ⟨start, .vehSchedule vid s⟩
  else if k == "D" then do
    let vid ← P.tok
    pure ⟨start, .vehDeparture vid⟩
  else if k == "O" then pure ⟨start, .other⟩
  else failure

def pState : P (CState Float) := do
  let inCst ← P.bool; let over ← P.bool
  let ps ← P.list pNum; let ws ← P.list P.bool; let ea ← pNum
  let en ← P.list pKV; let ex ← P.list pKV; let bp ← pNum
  pure ⟨inCst, over, ps, ws, ea, en, ex, bp⟩

def rState (s : CState Float) : String :=
  renderBool s.inCst ++ " " ++ renderBool s.overcharge ++ " " ++ renderList rNum s.powerPerTS ++ " " ++
  renderList renderBool s.chargeWindow ++ " " ++ rNum s.energyAvail ++ " " ++
  renderList rKV s.energyNeeded ++ " " ++ renderList rKV s.extraEnergy ++ " " ++ rNum s.batPower

def renderErrS (e : PyErr) : String :=
  match e with
  | .noneResult => "!UnboundLocalError"
  | e => renderErr e

def cmdStep : P String := do
  let eps ← pNum; let tsph ← pNum
  let now ← Cmd.Util.pDateTime
  let interval ← P.int; let iterations ← P.nat; let fuel ← P.nat; let retryFuel ← P.nat
  let collective ← P.bool; let warn ← P.bool
  let cst ← Cmd.Util.pCore
  let gcs ← P.list pGcX; let css ← P.list pCs; let vs ← P.list pVehX; let bs ← P.list pBat
  let future ← P.list pFuture
  let st ← pState
  let env : Env Float := ⟨eps, tsph, now, interval, iterations, fuel, retryFuel, collective, warn, cst,
    gcs.map (·.2), vs.map (·.2), future⟩
  let w : SWorld Float (Battery Float) := ⟨gcs.map (·.1), css, vs.map (·.1), bs⟩
  match step floatOps env w st with
  | .error e => pure (renderErrS e)
  | .ok (w, st, cmds) =>
    pure (renderList rKV cmds ++ " | " ++
      " ; ".intercalate (w.gcs.map (fun g => g.id ++ " " ++ renderList rKV g.loads)) ++ " | " ++
      " ".intercalate (w.stations.map (fun s => rNum s.currentPower)) ++ " | " ++
      " ".intercalate (w.vehicles.map (fun v => rNum v.bat.soc)) ++ " | " ++
      " ".intercalate (w.batteries.map (fun b => rNum b.bat.soc)) ++ " | " ++ rState st)

def handlers : List (String × Handler) := [("step_schedule", runP cmdStep)]

end SpiceEv.Cmd.StratSchedule
