"""C16 — simulations are deterministic, isolated and invariant under time relabelling.

Hidden mutable state lives in the Python implementation, so this check is paired REAL runs:
fresh vs fresh, second run on the same Scenario object, a different strategy first on the same
object, shift of every timestamp by whole weeks, and an added unrelated grid connector.
The Lean side (Properties/C16.lean) proves the relabelling invariance of the modelled time and
event-bucket functions and that the run-loop model is a function of the observations only.
"""
import copy
import datetime
import json
import random
import re

import engine
import scen
import runcheck
import steptie

engine.use_repo()

PID = "C16"
CHUNK = 2
RULE = ("scenarios from the grammar in harness/scen.py, every strategy; variants: same (fresh/fresh), rerun (same "
        "Scenario object twice), sequence (another strategy first on the same object vs fresh), shift (all timestamps "
        "+7k days, k in 1..5, inside one window season), add_gc (extra connector with own vehicles; strategies that treat "
        "connectors independently); all output series and the component definitions are compared exactly; "
        "non-trivial = both runs reported at least one step; distinct = distinct (seed, index, strategy, variant)")
ASSUMPTIONS = ["exact equality of all float outputs is required (same operations in the same order)",
               "add_gc is judged for greedy, balanced, balanced_market, peak_load_window, peak_shaving, distributed "
               "(flex_window and schedule support one connector only)"]
UNPROVED = ["absence of hidden state in the Python objects cannot be exhibited by a pure model; it is decided by paired "
            "real runs only; the isolation theorem is proved for the greedy/balanced step model (and per connector for "
            "distributed under C14), for the other strategies isolation is decided by the add_gc runs"]

VARIANTS = ["same", "rerun", "sequence", "shift", "add_gc"]
INDEPENDENT = ["greedy", "balanced", "balanced_market", "peak_load_window", "peak_shaving", "distributed"]
ISO = re.compile(r"^\d{4}-\d\d-\d\dT\d\d:\d\d")


RELABEL = ["relabel_events", "relabel_window", "relabel_core"]


def gen_cases(tier, seed):
    n = 10 if tier == "quick" else 150
    m = 60 if tier == "quick" else 1500
    for i in range(m):
        for kind in RELABEL:
            yield {"seed": seed, "i": i, "relabel": kind, "pid": PID}
    for i in range(n):
        for st in scen.STRATEGIES:
            for var in VARIANTS:
                if var == "add_gc" and st not in INDEPENDENT:
                    continue
                yield {"seed": seed, "i": i, "strategy": st, "variant": var, "pid": PID}


def shift_times(obj, delta):
    if isinstance(obj, dict):
        return {k: shift_times(v, delta) for k, v in obj.items()}
    if isinstance(obj, list):
        return [shift_times(v, delta) for v in obj]
    if isinstance(obj, str) and ISO.match(obj):
        return (datetime.datetime.fromisoformat(obj) + delta).isoformat()
    return obj


def outputs(r, vehicles=None, gcs=None, bats=None):
    """canonical comparable dump of a run's results (restricted to the given ids if any)"""
    if r.get("step_i") is None:
        return {"none": r.get("escaped") or r.get("timeout")}
    vs = r["vehicle_ids_sorted"]
    idx = [i for i, v in enumerate(vs) if vehicles is None or v in vehicles]
    g = [x for x in r["totalLoad"] if gcs is None or x in gcs]
    o = {"step_i": r["step_i"], "aborted": r["aborted"]}
    for name in ("totalLoad", "fixedLoads", "connChargeByTS", "localGenerationPower", "prices",
                 "gcPowerSchedule", "gcWindowSchedule"):
        o[name] = {x: r[name][x] for x in g}
    o["socs"] = [[row[i] for i in idx] for row in r["socs"]]
    o["disconnect"] = [[row[i] for i in idx] for row in r["disconnect"]]
    o["batteryLevels"] = {b: x for b, x in r["batteryLevels"].items() if bats is None or b in bats}
    if gcs is None:
        o["commands"] = r["results"]
        o["counters"] = (r["desired_counter"], r["margin_counter"])
    return o


def first_diff(a, b, path=""):
    if type(a) != type(b):
        return "%s: %r vs %r" % (path, a, b)
    if isinstance(a, dict):
        if set(a) != set(b):
            return "%s: keys %r vs %r" % (path, sorted(a), sorted(b))
        for k in a:
            d = first_diff(a[k], b[k], path + "/" + str(k))
            if d:
                return d
        return None
    if isinstance(a, (list, tuple)):
        if len(a) != len(b):
            return "%s: length %d vs %d" % (path, len(a), len(b))
        for i, (x, y) in enumerate(zip(a, b)):
            d = first_diff(x, y, path + "/" + str(i))
            if d:
                return d
        return None
    if a != b and not (a != a and b != b):
        return "%s: %r vs %r" % (path, a, b)
    return None


def dump_components(s):
    """canonical dump of the scenario definition held by a Scenario object"""
    def d(o, depth=0):
        if depth > 6:
            return repr(o)
        if isinstance(o, dict):
            return {str(k): d(v, depth + 1) for k, v in o.items()}
        if isinstance(o, (list, tuple)):
            return [d(v, depth + 1) for v in o]
        if hasattr(o, "__dict__"):
            return {k: d(v, depth + 1) for k, v in sorted(vars(o).items())}
        return repr(o)
    ev = s.events
    return {"components": d(s.components),
            "events": {"vehicle": d(ev.vehicle_events), "signals": d(ev.grid_operator_signals),
                       "fixed": d(ev.fixed_load_lists), "gen": d(ev.local_generation_lists)}}


def add_connector(full, rng):
    scn = copy.deepcopy(full)
    s = scn["scenario"]
    comp, ev = s["components"], s["events"]
    extra = scen.gen_scenario(rng, strategy=full["strategy"], n_gc=1, feasible=True)
    ex = extra["scenario"]
    # rename everything of the extra scenario, align its time frame with the original one
    delta = datetime.datetime.fromisoformat(s["scenario"]["start_time"]) - \
        datetime.datetime.fromisoformat(ex["scenario"]["start_time"])
    ex = shift_times(ex, delta)
    ren = {}
    for kind in ("vehicle_types", "vehicles", "grid_connectors", "charging_stations", "batteries"):
        for k in ex["components"].get(kind, {}):
            ren[k] = "X" + k
    # keep deps/opps suffix (distributed needs it)

    def rn(o):
        if isinstance(o, dict):
            return {(ren.get(k, k) if isinstance(k, str) else k): rn(v) for k, v in o.items()}
        if isinstance(o, list):
            return [rn(v) for v in o]
        if isinstance(o, str):
            return ren.get(o, o)
        return o
    ex = rn(ex)
    for kind in ("vehicle_types", "vehicles", "grid_connectors", "charging_stations", "batteries"):
        comp.setdefault(kind, {}).update(ex["components"].get(kind, {}))
    for kind in ("fixed_load", "local_generation"):
        for k, v in ex["events"].get(kind, {}).items():
            ev.setdefault(kind, {})["X" + k] = v
    ev["grid_operator_signals"] += ex["events"].get("grid_operator_signals", [])
    ev["vehicle_events"] += ex["events"].get("vehicle_events", [])
    return scn


_POOL = {}


def _pool(kind, seed):
    """source cases of the C07 / C15 generators (valid ones only), cached per worker"""
    key = (kind, seed)
    if key not in _POOL:
        import itertools
        if kind == "relabel_events":
            import c07
            src = [c for c in itertools.islice(c07.gen_cases("quick", seed), 20000)
                   if c["k"] == "run" and not c.get("bad") and not c.get("inj")]
        else:
            import c15
            want = "win" if kind == "relabel_window" else "core"
            src = [c for c in c15.gen_cases("quick", seed) if c["k"] == want and not c.get("bad")]
            if want == "core":   # configurations with content first
                src.sort(key=lambda c: -len(json.dumps(c["cst"])))
        _POOL[key] = src
    return _POOL[key]


def eval_relabel(case):
    """the model is run on the RELABELLED input (tie), the real code on both; the real results must agree"""
    kind = case["relabel"]
    rng = random.Random("C16r:%s:%s:%s" % (case["seed"], case["i"], kind))
    if "src" in case:
        src, k = case["src"], case["k"]
    else:
        pool = _pool(kind, case["seed"])
        src = pool[rng.randrange(len(pool))] if kind == "relabel_events" else pool[rng.randrange(min(len(pool), 4000))]
        k = rng.choice([1, 2, 3, 5, 9, 52, -1, -4])
    days = datetime.timedelta(days=7 * k)
    full = dict(case, src=src, k=k)
    viol, stats = [], [kind]
    if kind == "relabel_events":
        import c07
        a = c07.eval_case(src)
        sh = shift_times(src, days)
        b = c07.eval_case(sh)
        us = int(days.total_seconds()) * 1000000

        def norm(txt):
            return " ".join(str(int(t) - us) if re.match(r"^-?\d{15,}$", t) else t for t in txt.split(" "))
        if norm(b["impl"][0]) != a["impl"][0]:
            viol.append(("shift_weeks", "C16:event_pipeline_changes_under_shift",
                         "k=%d: %s" % (k, first_diff(a["impl"][0].split(" "), norm(b["impl"][0]).split(" ")))))
        return {"lines": b["lines"], "impl": ["@c07 " + x for x in b["impl"]], "violations": viol,
                "nontrivial": a["nontrivial"], "stats": stats, "replay_case": full}
    import c15
    sh = copy.deepcopy(src)
    for d in sh["days"]:
        d["d"] = (datetime.date.fromisoformat(d["d"]) + days).isoformat()
    if kind == "relabel_core" and sh["cst"] and sh["cst"].get("holidays"):
        sh["cst"]["holidays"] = [(datetime.date.fromisoformat(h) + days).isoformat() if re.match(r"^\d{4}-\d\d-\d\d$", h)
                                 else h for h in sh["cst"]["holidays"]]
    a, b = c15.eval_case(src), c15.eval_case(sh)
    ra, rb = a["impl"][0][1:], b["impl"][0][1:]
    per = len(ra) // max(1, len(src["days"]))
    for di, d in enumerate(src["days"]):
        if kind == "relabel_window":
            d0 = datetime.date.fromisoformat(d["d"])
            inside = lambda s, x: datetime.date.fromisoformat(s["s"]) <= x <= datetime.date.fromisoformat(s["e"])  # noqa: E731
            if any(inside(s, d0) != inside(s, d0 + days) for s in src["seasons"]):
                stats.append("day_leaves_season")   # outside the property's quantifier
                continue
        if ra[di * per:(di + 1) * per] != rb[di * per:(di + 1) * per]:
            viol.append(("shift_weeks", "C16:%s_changes_under_shift" % kind[8:],
                         "k=%d day %s: %s vs %s" % (k, d["d"], ra[di * per:(di + 1) * per][:80],
                                                    rb[di * per:(di + 1) * per][:80])))
            break
    return {"lines": b["lines"], "impl": ["@c15 " + x for x in b["impl"]], "violations": viol,
            "nontrivial": a["nontrivial"], "stats": stats, "replay_case": full}


def eval_case(case):
    from spice_ev import scenario as sc_mod
    if case.get("relabel"):
        return eval_relabel(case)
    if "scenario" in case:
        full = case
    else:
        base = dict(case, pid="C16")
        rng0 = random.Random("C16:%s:%s:%s" % (case["seed"], case["i"], case["strategy"]))
        feats = None
        if case["variant"] == "shift" and case["strategy"] == "schedule" and case["i"] % 2 == 0:
            feats = {"collective": True}
        full = scen.gen_scenario(rng0, strategy=case["strategy"], feasible=True, max_steps=40, features=feats)
        full["variant"] = case["variant"]
        if feats:
            # directed: a no-drive day that is the last day of a month inside the SHIFTED run (calendar arithmetic on
            # day-of-month in the core-standing-time scan)
            sc0 = full["scenario"]["scenario"]
            t0 = datetime.datetime.fromisoformat(sc0["start_time"])
            t1 = t0 + datetime.timedelta(minutes=sc0["interval"] * sc0["n_intervals"])
            for kk in range(1, 13):
                day = (t0 + datetime.timedelta(days=7 * kk)).date()
                last = (t1 + datetime.timedelta(days=7 * kk)).date()
                hit = None
                while day <= last:
                    if (day + datetime.timedelta(days=1)).day == 1:
                        hit = day
                        break
                    day += datetime.timedelta(days=1)
                if hit is not None:
                    cst = sc0.setdefault("core_standing_time", {"times": []})
                    cst["no_drive_days"] = sorted(set(cst.get("no_drive_days", []) + [hit.weekday()]))
                    full["shift_k"] = kk
                    break
        if case["variant"] == "same" and case["strategy"] == "distributed" and case["i"] % 2 == 0:
            # directed: more identical vehicles than charging points, arriving together with equal SoC (ranking ties)
            sc = full["scenario"]
            comp = sc["components"]
            g = sorted(comp["grid_connectors"])[0]
            comp["grid_connectors"][g]["number_cs"] = rng0.choice([1, 2])
            vids = [v for v in comp["vehicles"]]
            stations = [c for c, x in comp["charging_stations"].items() if x["parent"] == g]
            if len(vids) >= 3 and stations:
                tn = comp["vehicles"][vids[0]]["vehicle_type"]
                t_arr = datetime.datetime.fromisoformat(sc["scenario"]["start_time"]) + datetime.timedelta(
                    minutes=sc["scenario"]["interval"] * 2)
                t_dep = t_arr + datetime.timedelta(minutes=sc["scenario"]["interval"] * 12)
                suffix = stations[0].rsplit("_", 1)[1]
                sc["events"]["vehicle_events"] = []
                for vid in vids:
                    csid = "CS_%s_%s" % (vid, suffix)
                    comp["charging_stations"][csid] = dict(comp["charging_stations"][stations[0]])
                    comp["vehicles"][vid] = {"vehicle_type": tn, "soc": 0.8, "desired_soc": 0.8}
                    sc["events"]["vehicle_events"].append({
                        "signal_time": scen.iso(t_arr - datetime.timedelta(hours=1)), "start_time": scen.iso(t_arr),
                        "vehicle_id": vid, "event_type": "arrival",
                        "update": {"connected_charging_station": csid, "estimated_time_of_departure": scen.iso(t_dep),
                                   "desired_soc": 0.9, "soc_delta": -0.3}})
                    sc["events"]["vehicle_events"].append({
                        "signal_time": scen.iso(t_dep), "start_time": scen.iso(t_dep), "vehicle_id": vid,
                        "event_type": "departure",
                        "update": {"estimated_time_of_arrival": scen.iso(t_dep + datetime.timedelta(hours=8))}})
        if case["variant"] == "shift" and "time_windows" in full["meta"]:
            # the property quantifies over shifts within one window season
            full["meta"]["time_windows"]["default_grid_operator"]["s1"]["end"] = "2020-12-31"
        if case["variant"] == "shift" and rng0.random() < 0.5:
            # a fixed-load series of 9-16 days that differs from week to week (it feeds the weekly averages used
            # for load prediction well beyond the simulated steps), so that shifted runs cross a month boundary
            sc = full["scenario"]
            for g, gc in sc["components"]["grid_connectors"].items():
                lvl = rng0.choice([0.1, 0.3, 0.5]) * gc["max_power"]
                sc["events"]["fixed_load"]["load_" + g] = {
                    "start_time": sc["scenario"]["start_time"], "step_duration_s": 3600, "grid_connector_id": g,
                    "values": [round(lvl * rng0.uniform(0.3, 1.0), 3) for _ in range(24 * rng0.randint(9, 16))]}
        full["vseed"] = "%s:%s" % (case["seed"], case["i"])
        full["pid"] = "C16"
    var, strat = full["variant"], full["strategy"]
    rng = random.Random("v:" + full["vseed"] + var)
    viol, stats = [], [strat, var]
    # greedy / balanced: the isolation theorems are about the step model, which is tied to the real step here
    r1, tie_lines, tie_impl = steptie.run_with_tie(full, lambda: scen.run_real(full, timeout_s=60))
    a = outputs(r1)
    nontrivial = bool(r1.get("step_i"))
    if var == "same":
        r2 = scen.run_real(full, timeout_s=60)
        d = first_diff(a, outputs(r2))
        if d:
            viol.append(("deterministic", "C16:fresh_runs_differ:%s" % strat, d[:300]))
        # a fresh load in another interpreter process (other string-hash seed: set / dict-of-set iteration orders differ)
        import os
        import subprocess
        import sys
        import tempfile
        fh = tempfile.NamedTemporaryFile("w", suffix=".json", delete=False)
        json.dump(full, fh)
        fh.close()
        try:
            env = dict(os.environ, PYTHONHASHSEED=str(rng.randint(1, 4000000)), VERIF_REPO=str(engine.REPO))
            p = subprocess.run([sys.executable, os.path.join(os.path.dirname(os.path.abspath(__file__)), "c16_sub.py"),
                                fh.name], capture_output=True, text=True, env=env, timeout=180,
                               cwd=os.path.dirname(os.path.abspath(__file__)))
        finally:
            os.unlink(fh.name)
        if "@@OUT@@" not in p.stdout:
            raise RuntimeError("c16_sub failed: %s" % (p.stderr[-800:],))
        other = json.loads(p.stdout.split("@@OUT@@", 1)[1])
        mine = json.loads(json.dumps(a, default=str))
        d = first_diff(mine, other)
        if d:
            viol.append(("deterministic", "C16:runs_in_different_processes_differ:%s" % strat, d[:300]))
        stats.append("other_process")
    elif var in ("rerun", "sequence"):
        import contextlib
        import io
        with contextlib.redirect_stdout(io.StringIO()):
            s = sc_mod.Scenario(copy.deepcopy(full["scenario"]), "")
        before = dump_components(s)
        if var == "sequence":
            other = rng.choice([x for x in scen.STRATEGIES if x != strat and x not in ("schedule", "flex_window")
                                or len(full["scenario"]["components"]["grid_connectors"]) == 1 and x != strat])
            prev = dict(full, strategy=other, options={k: v for k, v in full["options"].items()
                                                       if k not in ("LOAD_STRAT", "time_windows")})
            if other == "peak_load_window":
                prev["options"]["time_windows"] = "@TIME_WINDOWS"
                prev["meta"] = dict(full["meta"])
                prev["meta"].setdefault("time_windows", {"default_grid_operator": {"s1": {
                    "start": "2020-01-01", "end": "2020-12-31", "windows": {
                        lvl: [["08:15", "12:30"], ["16:30", "20:00"]] for lvl in ["HV", "MV", "LV"]}}}})
            if other == "schedule":
                prev["options"]["LOAD_STRAT"] = "individual"
            stats.append("first:" + other)
            scen.run_real(prev, timeout_s=60, scenario_obj=s)
            key = "C16:run_after_other_strategy_differs:%s:after_%s" % (strat, other)
        else:
            scen.run_real(full, timeout_s=60, scenario_obj=s)
            key = "C16:second_run_on_same_object_differs:%s" % strat
        mid = dump_components(s)
        r2 = scen.run_real(full, timeout_s=60, scenario_obj=s)
        d = first_diff(a, outputs(r2))
        if d:
            viol.append(("same_object", key, d[:300]))
        dd = first_diff(before, mid)
        if dd:
            who = other if var == "sequence" else strat
            viol.append(("definition_unchanged", "C16:scenario_definition_changed_by_run:%s" % who, dd[:300]))
    elif var == "shift":
        k = rng.randint(1, 5)
        # prefer shifts after which a month ends inside the simulated time (calendar arithmetic on day numbers)
        t0 = datetime.datetime.fromisoformat(full["scenario"]["scenario"]["start_time"])
        span = datetime.timedelta(minutes=full["scenario"]["scenario"]["interval"]
                                  * full["scenario"]["scenario"]["n_intervals"]) + datetime.timedelta(days=1)
        ends = []
        for kk in range(1, 13):
            a0 = t0 + datetime.timedelta(days=7 * kk)
            day = a0.date()
            while day <= (a0 + span).date():
                if (day + datetime.timedelta(days=1)).day == 1:
                    ends.append(kk)
                    break
                day += datetime.timedelta(days=1)
        if ends and rng.random() < 0.6:
            k = rng.choice(ends)
        if full.get("shift_k"):
            k = full["shift_k"]
        shifted = copy.deepcopy(full)
        shifted["scenario"] = shift_times(full["scenario"], datetime.timedelta(days=7 * k))
        r2 = scen.run_real(shifted, timeout_s=60)
        d = first_diff(a, outputs(r2))
        if d:
            viol.append(("shift_weeks", "C16:shift_by_weeks_changes_result:%s" % strat, "k=%d %s" % (k, d[:300])))
    elif var == "add_gc":
        bigger = add_connector(full, rng)
        r2 = scen.run_real(bigger, timeout_s=90)
        comp = full["scenario"]["components"]
        if r1.get("step_i") is not None and r2.get("step_i") is not None:
            # compare the steps both runs reported (the extra connector may abort the bigger run earlier)
            n = min(r1["step_i"], r2["step_i"])
            o1 = outputs(r1, set(comp["vehicles"]), set(comp["grid_connectors"]), set(comp.get("batteries", {})))
            o2 = outputs(r2, set(comp["vehicles"]), set(comp["grid_connectors"]), set(comp.get("batteries", {})))

            def cut(o):
                o = dict(o)
                o.pop("step_i"), o.pop("aborted")
                for name in list(o):
                    if isinstance(o[name], dict):
                        o[name] = {k: v[:n - 1] for k, v in o[name].items()}
                    else:
                        o[name] = o[name][:n - 1]
                return o
            if r1["step_i"] != r2["step_i"] or r1.get("aborted") or r2.get("aborted"):
                # `disconnect` is back-filled into EARLIER rows when an arrival is processed; a run that ends early, or
                # whose failing step processed only part of its events, has not back-filled the same rows
                o1.pop("disconnect"), o2.pop("disconnect")
            d = first_diff(cut(o1), cut(o2))
            if d:
                viol.append(("isolation", "C16:added_connector_changes_existing:%s" % strat, d[:300]))
    return {"lines": tie_lines, "impl": tie_impl, "violations": viol,
            "nontrivial": nontrivial, "stats": stats, "replay_case": full}


def compare(case, impl, model):
    if impl.startswith("@c07 "):
        return None if impl[5:] == model else "differs"
    if impl.startswith("@c15 "):
        return None if impl[5:] == model else "differs"
    return steptie.compare(impl, model)[1]
