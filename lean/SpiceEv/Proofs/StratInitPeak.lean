/-
The initial peak power of `PeakLoadWindow.__init__` (`initPeaks`, Model/StratPeakLoadWindow.lean): per connector it
is the running maximum, started at 0, of the sums of the connector's loads at the timesteps of the event table that lie
inside a window.  Lemmas for Properties/C11_Init.lean.
-/
import SpiceEv.Model.StratInit
import Mathlib.Order.Basic
import Mathlib.Tactic.Linarith
set_option linter.unusedSimpArgs false
set_option linter.unusedSectionVars false
namespace SpiceEv.StratInit
open SpiceEv SpiceEv.PeakLoadWindow

theorem sdGet_sdSet_same {β : Type} (l : List (String × β)) (k : String) (x : β) :
    sdGet (sdSet l k x) k = some x := by
  induction l with
  | nil => simp [sdSet, sdGet]
  | cons a t ih =>
    obtain ⟨k', v'⟩ := a
    unfold sdSet
    by_cases h : k' = k
    · subst h; simp [sdGet]
    · have : (k' == k) = false := by simpa using h
      simp [this, sdGet, ih]

theorem sdGet_sdSet_other {β : Type} (l : List (String × β)) (k k' : String) (x : β) (h : k' ≠ k) :
    sdGet (sdSet l k x) k' = sdGet l k' := by
  induction l with
  | nil =>
    have : (k == k') = false := by simpa using (Ne.symm h)
    simp [sdSet, sdGet, this]
  | cons a t ih =>
    obtain ⟨k2, v2⟩ := a
    unfold sdSet
    by_cases h2 : k2 = k
    · subst h2
      have : (k2 == k') = false := by simpa using (Ne.symm h)
      simp [sdGet, this]
    · have e : (k2 == k) = false := by simpa using h2
      simp only [e, Bool.false_eq_true, if_false]
      unfold sdGet
      by_cases h3 : k2 = k'
      · subst h3; simp
      · have e3 : (k2 == k') = false := by simpa using h3
        simp [e3, ih]

section
variable {α : Type} [LinearOrder α] [Add α] [Sub α] [Mul α] [Div α] [Neg α] [OfNat α 0] [OfNat α 1] [NatCast α]
  [IntCast α]

/-- is the connector inside a window at `cur`, and the sum of its loads — or the `KeyError` for an operator that is
not in the window table -/
def winSum (env : PEnv α) (g : PGc α) (cur : DateTime) (loads : List (String × List (String × α))) :
    Py (Bool × α) :=
  match env.windows.lookup g.operator with
  | none => .error .keyError
  | some seasons =>
    .ok ((match g.level with
          | none => false
          | some level => datetimeWithinTimeWindow cur seasons level),
         sumLoads env ((sdGet loads g.gc.id).getD []))

/-- the (inside a window?, load sum) pairs of one connector over the event table -/
def windowSums (env : PEnv α) (g : PGc α) :
    List (List (Ev α)) → DateTime → List (String × List (String × α)) → Py (List (Bool × α))
  | [], _, _ => .ok []
  | evs :: rest, cur, loads =>
    match evs.foldlM initApply loads with
    | .error e => .error e
    | .ok loads' =>
      match winSum env g cur loads' with
      | .error e => .error e
      | .ok x =>
        match windowSums env g rest (cur.add env.interval) loads' with
        | .error e => .error e
        | .ok r => .ok (x :: r)

/-- `if is_window and gc_sum_loads > peak_power: peak_power = gc_sum_loads` -/
def raisePeak (p : α) (x : Bool × α) : α := if x.1 = true ∧ p < x.2 then x.2 else p

/-- the running maximum over the in-window sums -/
def runMax (p : α) (l : List (Bool × α)) : α := l.foldl raisePeak p

/-- the per-connector body of the peak update -/
def updPeak (env : PEnv α) (cur : DateTime) (loads : List (String × List (String × α)))
    (peaks : List (String × α)) (g : PGc α) : Py (List (String × α)) := do
  let seasons ← (match env.windows.lookup g.operator with
    | none => (.error .keyError : Py (List Season))
    | some s => .ok s)
  let isWin := match g.level with
    | none => false
    | some level => datetimeWithinTimeWindow cur seasons level
  let s := sumLoads env ((sdGet loads g.gc.id).getD [])
  let old := (sdGet peaks g.gc.id).getD 0
  .ok (if isWin = true ∧ old < s then sdSet peaks g.gc.id s else peaks)

theorem initPeaks_cons (env : PEnv α) (gcs : List (PGc α)) (evs : List (Ev α)) (rest : List (List (Ev α)))
    (cur : DateTime) (loads : List (String × List (String × α))) (peaks : List (String × α)) :
    initPeaks env gcs (evs :: rest) cur loads peaks = (do
      let loads ← evs.foldlM initApply loads
      let peaks ← gcs.foldlM (updPeak env cur loads) peaks
      initPeaks env gcs rest (cur.add env.interval) loads peaks) := by
  rw [initPeaks]
  rfl

theorem updPeak_ok {env : PEnv α} {cur : DateTime} {loads : List (String × List (String × α))}
    {peaks peaks' : List (String × α)} {g : PGc α} (h : updPeak env cur loads peaks g = .ok peaks') :
    ∃ x, winSum env g cur loads = .ok x ∧
      (sdGet peaks' g.gc.id).getD 0 = raisePeak ((sdGet peaks g.gc.id).getD 0) x ∧
      ∀ k, k ≠ g.gc.id → sdGet peaks' k = sdGet peaks k := by
  unfold updPeak at h
  unfold winSum
  cases hl : env.windows.lookup g.operator with
  | none => simp [hl, bind, Except.bind] at h
  | some seasons =>
    simp only [hl, bind, Except.bind] at h
    generalize hw : (match g.level with
      | none => false
      | some level => datetimeWithinTimeWindow cur seasons level) = w at h
    refine ⟨(w, sumLoads env ((sdGet loads g.gc.id).getD [])), by simp only [hw], ?_, ?_⟩
    · unfold raisePeak
      simp only
      by_cases hc : w = true ∧ (sdGet peaks g.gc.id).getD 0 < sumLoads env ((sdGet loads g.gc.id).getD [])
      · rw [if_pos hc] at h
        cases h
        rw [if_pos hc, sdGet_sdSet_same]
        rfl
      · rw [if_neg hc] at h
        cases h
        rw [if_neg hc]
    · intro k hk
      split at h
      · cases h; exact sdGet_sdSet_other _ _ _ _ hk
      · cases h; rfl

/-- the fold over the connectors updates every connector's entry independently -/
theorem foldPeaks_ok {env : PEnv α} {cur : DateTime} {loads : List (String × List (String × α))} :
    ∀ (gcs : List (PGc α)) (peaks peaks' : List (String × α)),
      gcs.foldlM (updPeak env cur loads) peaks = .ok peaks' →
      gcs.Pairwise (fun a b => a.gc.id ≠ b.gc.id) →
      (∀ g ∈ gcs, ∃ x, winSum env g cur loads = .ok x ∧
        (sdGet peaks' g.gc.id).getD 0 = raisePeak ((sdGet peaks g.gc.id).getD 0) x) ∧
      (∀ k, (∀ g ∈ gcs, g.gc.id ≠ k) → sdGet peaks' k = sdGet peaks k)
  | [], peaks, peaks', h, _ => by
    simp only [List.foldlM_nil, pure, Except.pure] at h
    cases h
    exact ⟨fun g hg => (by cases hg), fun k _ => rfl⟩
  | a :: t, peaks, peaks', h, hp => by
    rw [List.foldlM_cons] at h
    cases h1 : updPeak env cur loads peaks a with
    | error e => simp [h1, bind, Except.bind] at h
    | ok p1 =>
      simp only [h1, bind, Except.bind] at h
      obtain ⟨x, hx, hval, hfr⟩ := updPeak_ok h1
      have hp' := List.pairwise_cons.1 hp
      obtain ⟨ih1, ih2⟩ := foldPeaks_ok t p1 peaks' h hp'.2
      constructor
      · intro g hg
        rcases List.mem_cons.1 hg with rfl | hg
        · refine ⟨x, hx, ?_⟩
          rw [ih2 g.gc.id (fun b hb => (hp'.1 b hb).symm), hval]
        · obtain ⟨y, hy, hv⟩ := ih1 g hg
          refine ⟨y, hy, ?_⟩
          rw [hv, hfr g.gc.id (hp'.1 g hg).symm]
      · intro k hk
        rw [ih2 k (fun g hg => hk g (List.mem_cons_of_mem _ hg)),
          hfr k (hk a List.mem_cons_self).symm]

/-- **the constructor's peak of a connector is the running maximum of its in-window load sums** -/
theorem initPeaks_runMax (env : PEnv α) (gcs : List (PGc α))
    (hp : gcs.Pairwise (fun a b => a.gc.id ≠ b.gc.id)) (g : PGc α) (hg : g ∈ gcs) :
    ∀ (table : List (List (Ev α))) (cur : DateTime) (loads : List (String × List (String × α)))
      (peaks peaks' : List (String × α)),
      initPeaks env gcs table cur loads peaks = .ok peaks' →
      ∃ l, windowSums env g table cur loads = .ok l ∧
        (sdGet peaks' g.gc.id).getD 0 = runMax ((sdGet peaks g.gc.id).getD 0) l
  | [], cur, loads, peaks, peaks', h => by
    rw [initPeaks] at h
    cases h
    exact ⟨[], rfl, rfl⟩
  | evs :: rest, cur, loads, peaks, peaks', h => by
    rw [initPeaks_cons] at h
    cases h1 : evs.foldlM initApply loads with
    | error e => simp [h1, bind, Except.bind] at h
    | ok loads' =>
      simp only [h1, bind, Except.bind] at h
      cases h2 : gcs.foldlM (updPeak env cur loads') peaks with
      | error e => simp [h2] at h
      | ok p1 =>
        simp only [h2] at h
        obtain ⟨x, hx, hv⟩ := (foldPeaks_ok gcs peaks p1 h2 hp).1 g hg
        obtain ⟨l, hl, hr⟩ := initPeaks_runMax env gcs hp g hg rest (cur.add env.interval) loads' p1 peaks' h
        refine ⟨x :: l, ?_, ?_⟩
        · rw [windowSums]
          simp only [h1, hx, hl]
        · rw [hr, hv]
          rfl

theorem sdGet_zero_map (gcs : List (PGc α)) (k : String) :
    (sdGet (gcs.map (fun g => (g.gc.id, (0 : α)))) k).getD 0 = 0 := by
  induction gcs with
  | nil => rfl
  | cons a t ih =>
    simp only [List.map_cons, sdGet]
    split
    · rfl
    · exact ih

/-! ### the running maximum -/

theorem raisePeak_ge (p : α) (x : Bool × α) : p ≤ raisePeak p x := by
  unfold raisePeak
  split
  · rename_i h; exact le_of_lt h.2
  · exact le_refl _

theorem runMax_ge (l : List (Bool × α)) : ∀ p : α, p ≤ runMax p l := by
  induction l with
  | nil => intro p; exact le_refl _
  | cons x t ih =>
    intro p
    unfold runMax
    rw [List.foldl_cons]
    exact le_trans (raisePeak_ge p x) (ih _)

theorem runMax_bound (l : List (Bool × α)) : ∀ p : α, ∀ x ∈ l, x.1 = true → x.2 ≤ runMax p l := by
  induction l with
  | nil => intro p x hx; cases hx
  | cons y t ih =>
    intro p x hx hw
    unfold runMax
    rw [List.foldl_cons]
    rcases List.mem_cons.1 hx with rfl | hx
    · refine le_trans ?_ (runMax_ge t _)
      unfold raisePeak
      split
      · exact le_refl _
      · rename_i hn
        exact not_lt.1 (fun hlt => hn ⟨hw, hlt⟩)
    · exact ih _ x hx hw

theorem runMax_attained (l : List (Bool × α)) : ∀ p : α, runMax p l = p ∨ ∃ x ∈ l, x.1 = true ∧ runMax p l = x.2 := by
  induction l with
  | nil => intro p; exact Or.inl rfl
  | cons y t ih =>
    intro p
    unfold runMax
    rw [List.foldl_cons]
    rcases ih (raisePeak p y) with h | ⟨x, hx, hw, he⟩
    · unfold runMax at h
      rw [h]
      unfold raisePeak
      split
      · rename_i hc
        exact Or.inr ⟨y, List.mem_cons_self, hc.1, rfl⟩
      · exact Or.inl rfl
    · exact Or.inr ⟨x, List.mem_cons_of_mem _ hx, hw, he⟩

end
end SpiceEv.StratInit
