/-
C18 — Reports are faithful to the simulation: the aggregates of `aggregate_local_results` that
`C18_aggregates` (Properties/C18.lean) does not state — standing times, flex range per window, needed
energy, per-battery maxima — and totality: on every well-shaped run record (any number of reported
steps, including zero and including aborted runs, whose series are simply shorter) the report
functions return; the exceptions that remain possible are named with their triggers.

Property theorems only; lemmas and the reference quantities (`connCount`, `endsCount`, `standEnds`,
`windowCount`, `totalCount`, `numLoadsSpec`, `flexRangeD`, `stepsIn`, `WellShaped`, `WellShapedTs`)
are in SpiceEv/Proofs/ReportAgg.lean.
-/
import SpiceEv.Proofs.ReportAgg
set_option linter.unusedSectionVars false
set_option linter.unusedSimpArgs false
set_option linter.unusedVariables false
namespace SpiceEv
open SpiceEv.Report SpiceEv.ReportAgg
variable {α : Type} [Field α] [LinearOrder α] [IsStrictOrderedRing α]

/-- **Standing-time aggregates**, for every number of steps and vehicles.  With
`totalCount` = number of (step, vehicle) pairs with a connected SoC, `windowCount w` = the same inside
report window `w`, and `numLoadsSpec` = number of vehicles + number of ended standing periods
(`standEnds`: a vehicle has a SoC in one row and none in the next; the row before the first one is
all `None`), and given one SoC entry per vehicle in every row:
* the four window counts add up to the total (no step lost or counted twice);
* average total standing time = total / max(#vehicles, 1) / steps per hour;
* share of standing per window = window count · 100 / total, and 0 everywhere when nobody ever stood;
* average single standing time = total / steps per hour / `numLoadsSpec` (0 without vehicles) — as
  coded: the running (possibly still empty) period of every vehicle is counted as a period, because
  `counts = counts[:-1]` in the source only rebinds a local. -/
theorem C18_agg_standing (R : RunData α)
    (ts : Option (List String × List (List (Cell α)))) (res : LocalResults α)
    (hs : SocsShaped R) (h : aggregateLocal R ts = .ok res) :
    windowCount R 0 + windowCount R 1 + windowCount R 2 + windowCount R 3 = totalCount R ∧
    res.avgStandTotal
      = ((totalCount R : ℕ) : α) / ((max R.vehicles.length 1 : ℕ) : α) / R.stepsPerHour ∧
    (res.percStandWindow.length = 4 ∧ ∀ w, w < 4 → res.percStandWindow[w]? = some
      (if 0 < totalCount R then
        ((windowCount R w : ℕ) : α) * ((100 : ℕ) : α) / ((totalCount R : ℕ) : α) else 0)) ∧
    res.avgStandSingle = (if 0 < numLoadsSpec R then
        ((totalCount R : ℕ) : α) / R.stepsPerHour / ((numLoadsSpec R : ℕ) : α) else 0) := by
  obtain ⟨st, hst, _, _, _, h5, h6, h7, _⟩ := aggregateLocal_ok h
  have F := aggLoop_facts hs hst
  exact ⟨windowCount_partition R, fAvgTotal_ok F h6, fPerc_ok F h7, fAvgSingle_ok F h5⟩

/-- **Ended standing periods** (what `numLoadsSpec` counts): between two consecutive SoC rows the
counter list of exactly those vehicles grows that were connected before and are not connected now;
over a series the counts add up row by row. -/
theorem C18_agg_stand_ends (prev row : List (Option α)) (rows : List (List (Option α))) :
    endsCount prev row = ((prev.zip row).filter (fun q => q.1.isSome && q.2.isNone)).length ∧
    standEnds prev (row :: rows) = endsCount prev row + standEnds row rows ∧
    standEnds prev ([] : List (List (Option α))) = 0 :=
  ⟨rfl, rfl, rfl⟩

/-- **Average flex range per window.**  The entry is absent iff the flex report was skipped;
otherwise it has four values, the value of window `w` being the mean over the steps of that window of
`flex max − flex min` at the step (0 when the band could not be generated), and 0 for a window
without steps. -/
theorem C18_agg_flex_window (R : RunData α)
    (ts : Option (List String × List (List (Cell α)))) (res : LocalResults α)
    (hs : SocsShaped R) (h : aggregateLocal R ts = .ok res) :
    (R.flex = .skipped ∧ res.avgFlexPerWindow = none) ∨
    (R.flex ≠ .skipped ∧ ∃ l, res.avgFlexPerWindow = some l ∧ l.length = 4 ∧ ∀ w, w < 4 → l[w]? = some
      (if (stepsIn R w).isEmpty then 0
       else ((stepsIn R w).map (fun p => flexRangeD R p.2)).sum / (((stepsIn R w).length : ℕ) : α))) := by
  obtain ⟨st, hst, h2, _⟩ := aggregateLocal_ok h
  exact fAvgFlex_ok (aggLoop_facts hs hst) h2

/-- **Average needed energy.**  The results entry exists iff a flex band exists, it has at least one
standing interval and every interval has a vehicle present; then it is the mean over the intervals of
`needed / num_vehicles_present`.  (Otherwise the source catches TypeError / ZeroDivisionError and
writes no entry.) -/
theorem C18_agg_needed (R : RunData α)
    (ts : Option (List String × List (List (Cell α)))) (res : LocalResults α)
    (h : aggregateLocal R ts = .ok res) :
    (∀ mn base mx ivs, R.flex = .band mn base mx ivs →
      res.avgNeededEnergy = if ivs ≠ [] ∧ ∀ i ∈ ivs, i.2 ≠ 0 then
        some ((ivs.map (fun i => i.1 / ((i.2 : Nat) : α))).sum / ((ivs.length : ℕ) : α)) else none) ∧
    ((R.flex = .skipped ∨ R.flex = .failed) → res.avgNeededEnergy = none) := by
  obtain ⟨st, _, _, _, _, _, _, _, h8, _⟩ := aggregateLocal_ok h
  rw [h8]
  exact ⟨fun mn base mx ivs hf => fNeeded_band hf, fNeeded_noband⟩

/-- **Maximum stored energy per battery.**  The entry is absent iff every recorded level is 0;
otherwise it lists every battery of the scenario in recording order with the maximum of its level
series (attained, and an upper bound of the series). -/
theorem C18_agg_max_stored (R : RunData α)
    (ts : Option (List String × List (List (Cell α)))) (res : LocalResults α)
    (h : aggregateLocal R ts = .ok res) :
    (res.maxStored = none ∧ ∀ bl ∈ R.batteryLevels, ∀ x ∈ bl.2, x = 0) ∨
    (∃ l, res.maxStored = some l ∧ (∃ bl ∈ R.batteryLevels, ∃ x ∈ bl.2, x ≠ 0) ∧
      List.Forall₂ (fun (bl : String × List α) (e : String × α) =>
        e.1 = bl.1 ∧ e.2 ∈ bl.2 ∧ ∀ x ∈ bl.2, x ≤ e.2) R.batteryLevels l) := by
  obtain ⟨st, _, _, _, _, _, _, _, _, _, _, _, _, _, h13, _⟩ := aggregateLocal_ok h
  exact fMaxStored_ok h13

/-- **Report aggregation returns on every well-shaped run record** — for every number of reported
steps, zero included, so in particular for aborted runs (C17: report generation still succeeds).
Well-shaped (`WellShaped`) = what `Scenario.run` guarantees (one SoC entry per vehicle in every row,
one battery level per step, flex band at least as long as the run) plus: steps per hour ≠ 0, no
unlimited stationary battery, and at least one reported step under peak_load_window.  The exceptions
that remain possible outside these conditions are exhibited in the `example`s below. -/
theorem C18_agg_ok (R : RunData α) (W : WellShaped R)
    (ts : Option (List String × List (List (Cell α)))) :
    ∃ res, aggregateLocal R ts = .ok res :=
  aggregateLocal_total W ts

/-- **`stepsPerHour = 0` is a ZeroDivisionError** (first division: "sum of energy"), whatever else
the record contains, once the loop ran. -/
theorem C18_agg_error_zero_interval (R : RunData α)
    (ts : Option (List String × List (List (Cell α))))
    (hs : SocsShaped R) (hF : FlexLong R) (h0 : R.stepsPerHour = 0) :
    aggregateLocal R ts = .error .zeroDivision := by
  obtain ⟨st, h1⟩ := aggLoop_total hs hF
  obtain ⟨a2, h2⟩ := fAvgFlex_total R st
  unfold aggregateLocal
  have h3 : fSumEnergy R = .error .zeroDivision := by
    unfold fSumEnergy; rw [h0]; exact pydiv_zero _
  simp only [h1, h2, h3, bind, Except.bind]

/-- **The time-series table is produced on every well-shaped run record** (`WellShapedTs`: flex band
and battery levels at least as long as the run, every recorded battery a component, one SoC entry
per vehicle, a vehicle plugged in at this connector has a SoC), and then has exactly one row per
reported step, each as long as the header — with or without the flex-band and battery columns. -/
theorem C18_timeseries_ok (rnd : α → α) (R : RunData α) (W : WellShapedTs R) :
    ∃ header rows, aggregateTimeseries rnd R = .ok (header, rows) ∧
      rows.length = R.steps.length ∧ ∀ row ∈ rows, row.length = header.length := by
  obtain ⟨⟨header, rows⟩, h⟩ := aggregateTimeseries_total rnd W
  obtain ⟨hlen, hrow⟩ := rows_at h
  obtain ⟨hh, _⟩ := aggregateTimeseries_ok h
  refine ⟨header, rows, h, hlen, ?_⟩
  intro row hr
  obtain ⟨i, hi, rfl⟩ := List.getElem_of_mem hr
  obtain ⟨row', hri, hrow'⟩ := hrow i (hlen ▸ hi)
  rw [List.getElem?_eq_getElem hi] at hri
  cases hri
  obtain ⟨bat, flex, hb, hf, e⟩ := tsRow_ok hrow'
  rw [e, hh]
  exact tsRowWith_length rnd R _ _ _ i _ bat flex (batCells_length hb) (flexCells_length hf)

/-! ## non-vacuity and the remaining exceptions -/

/-- `C18_agg_standing` on a run with two vehicles and three steps (vehicle 0 stands in steps 0–1,
vehicle 1 in steps 1–2; all steps in window 22–04): 4 connected vehicle-steps, one ended standing
period, so 3 counted periods; total = 4/2/4 h, single = 4/4/3 h, 100 % in the night window. -/
example :
    (∀ s ∈ exRunStand.steps, s.socs.length = exRunStand.vehicles.length) ∧
    totalCount exRunStand = 4 ∧ numLoadsSpec exRunStand = 3 ∧ windowCount exRunStand 3 = 4 ∧
    okAnd (aggregateLocal exRunStand none) (fun r =>
      decide (r.avgStandTotal = 1 / 2 ∧ r.avgStandSingle = 1 / 3 ∧
        r.percStandWindow = [0, 0, 0, 100])) = true := by
  decide +kernel

/-- `C18_agg_flex_window`, `C18_agg_needed`, `C18_agg_max_stored` on the example run with a band:
ranges 4 and 6 kW in the night window → mean 5; needed 6 kWh for 2 vehicles → 3; battery maximum 5. -/
example :
    okAnd (aggregateLocal exRunFlex none) (fun r =>
      decide (r.avgFlexPerWindow = some [0, 0, 0, 5] ∧ r.avgNeededEnergy = some 3 ∧
        r.maxStored = some [("BAT", 5)])) = true := by
  decide +kernel

/-- `WellShaped` and `WellShapedTs` are satisfiable by a run with a band, a battery and a vehicle. -/
example : WellShaped exRunFlex ∧ WellShapedTs exRunFlex := by
  refine ⟨⟨by decide +kernel, by unfold SocsShaped; decide +kernel, ?_, by decide +kernel,
    by decide +kernel, by decide +kernel⟩, ⟨?_, ?_, by decide +kernel,
    by unfold SocsShaped; decide +kernel, ?_⟩⟩
  · intro mn base mx ivs h
    have : exRunFlex.flex = .band [-1, -2] [0, 0] [3, 4] [(6, 2)] := rfl
    rw [this] at h; cases h; decide
  · intro mn base mx ivs h
    have : exRunFlex.flex = .band [-1, -2] [0, 0] [3, 4] [(6, 2)] := rfl
    rw [this] at h; cases h; decide
  · intro bl hbl
    have : bl = ("BAT", [5, 5]) := by simpa [exRunFlex, exRun] using hbl
    subst this; exact ⟨_, rfl⟩
  · intro s hs i vid cs hv hc hst
    have : exRunFlex.vehicles = [("car", 50, true)] := rfl
    have hi : i = 0 := by
      rcases i with _ | i
      · rfl
      · simp [this, sortedStr] at hv
    subst hi
    have hs' : s = exStep 0 11 12 3 2 0 (some 0) ∨ s = exStep 900000000 (-4) (-6) 1 5 (-2) (some (1 / 4)) := by
      simpa [exRunFlex, exRun] using hs
    rcases hs' with rfl | rfl
    · exact ⟨0, rfl⟩
    · exact ⟨1 / 4, rfl⟩

/-- The remaining exceptions and their triggers, on variants of the example run:
`stepsPerHour = 0` → ZeroDivisionError; a SoC row longer than the vehicle list → IndexError; a flex
band shorter than the run → IndexError; peak_load_window without any reported step → ValueError
(`max([])`); an unlimited battery without level series → KeyError. -/
example :
    errIs (aggregateLocal { exRun with stepsPerHour := 0 } none) .zeroDivision = true ∧
    errIs (aggregateLocal { exRun with vehicles := [] } none) .indexError = true ∧
    errIs (aggregateLocal { exRun with flex := .band [0] [0] [0] [] } none) .indexError = true ∧
    errIs (aggregateLocal { exRun with steps := [] } none) .valueError = true ∧
    errIs (aggregateLocal { exRun with batteries := [("BAT", "GC1", 2 ^ 64)], batteryLevels := [] } none)
      .keyError = true := by
  decide +kernel

/-- … and of the time-series table: a battery level series shorter than the run → IndexError; a
recorded battery that is no component → KeyError; a plugged-in vehicle without SoC → TypeError. -/
example :
    errIs (aggregateTimeseries (pyRoundRat 3) { exRun with batteryLevels := [("BAT", [5])] })
      .indexError = true ∧
    errIs (aggregateTimeseries (pyRoundRat 3) { exRun with batteryLevels := [("X", [5, 5])] })
      .keyError = true ∧
    errIs (aggregateTimeseries (pyRoundRat 3)
      { exRunFlex with steps := [exStep 0 11 12 3 2 0 none] }) .typeError = true := by
  decide +kernel

end SpiceEv
