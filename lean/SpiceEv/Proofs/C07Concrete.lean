/-
C07 — the concrete strategies' steps as actions `SWorld → Py (SWorld × commands)` for the adapter of
`Proofs/C07Adapter.lean`, each with its frame (from `Proofs/C07Keeps<Model>.lean`), and a toy battery for the
non-vacuity examples of `Properties/C07_Strategies.lean`.

peak_load_window (own world type `PWorld`) and distributed (state `DState`, virtual station names) are not given an
adapter: their frame theorems are stated on the models' own types.
-/
import SpiceEv.Proofs.C07Adapter
import SpiceEv.Proofs.C07KeepsPeakShaving
import SpiceEv.Proofs.C07KeepsBalancedMarket
import SpiceEv.Proofs.C07KeepsSchedule
import SpiceEv.Proofs.C07KeepsFlexWindow
import SpiceEv.Proofs.C07KeepsVeh
set_option linter.unusedSectionVars false
set_option linter.unusedSimpArgs false
set_option linter.unusedVariables false
namespace SpiceEv
namespace Keeps

variable {α : Type} [Field α] [LinearOrder α] [IsStrictOrderedRing α] {B : Type}

/-- what a frame hypothesis of the adapter says -/
def Frame (stepM : SWorld α B → Py (SWorld α B × List (String × α))) : Prop :=
  ∀ w w' c, stepM w = .ok (w', c) → GcKeeps (sbName w) w.gcs w'.gcs

/-- `PeakShaving.step` (the schedules it also returns are dropped) -/
def psStepM (ops : PeakShaving.Ops α B) (env : PeakShaving.Env α) (events : List (PeakShaving.Ev α)) :
    SWorld α B → Py (SWorld α B × List (String × α)) :=
  fun w => match PeakShaving.step ops env events w with
    | .ok r => .ok (r.1, r.2.1)
    | .error e => .error e

theorem psStepM_frame (ops : PeakShaving.Ops α B) (env : PeakShaving.Env α) (events : List (PeakShaving.Ev α)) :
    Frame (psStepM ops env events) := by
  intro w w' c h
  unfold psStepM at h
  split at h
  · rename_i r hr
    obtain ⟨w1, c1, s1⟩ := r
    simp only [Except.ok.injEq, Prod.mk.injEq] at h
    obtain ⟨rfl, rfl⟩ := h
    exact Keeps.PeakShaving.step_keeps ops env events w w1 c1 s1 hr
  · cases h

theorem bmStep_frame (ops : BalancedMarket.Ops α B) (env : BalancedMarket.Env α) :
    Frame (BalancedMarket.step ops env) :=
  fun w w' c h => Keeps.BalancedMarket.step_keeps ops env w w' c h

theorem ruleStep_frame (rule : Rule) (ops : BatOps α B) (env : StratEnv α) : Frame (ruleStep rule ops env) :=
  fun w w' c h => ruleStep_keeps rule ops env w w' c h

/-- `Schedule.step` for a given value `st` of the attributes the class keeps between steps -/
def schedStepM (ops : Sched.Ops α B) (env : Sched.Env α) (st : Sched.CState α) :
    SWorld α B → Py (SWorld α B × List (String × α)) :=
  fun w => match Sched.step ops env w st with
    | .ok r => .ok (r.1, r.2.2)
    | .error e => .error e

theorem schedStepM_frame (ops : Sched.Ops α B) (env : Sched.Env α) (st : Sched.CState α) :
    Frame (schedStepM ops env st) := by
  intro w w' c h
  unfold schedStepM at h
  split at h
  · rename_i r hr
    obtain ⟨w1, st1, c1⟩ := r
    simp only [Except.ok.injEq, Prod.mk.injEq] at h
    obtain ⟨rfl, rfl⟩ := h
    exact Keeps.Sched.step_keeps ops env w w1 st st1 c1 hr
  · cases h

/-- `FlexWindow.step` for given `gc.window` and visible events; `toErr` names the Python exception of the model's own
error kinds (UnboundLocalError, NotImplementedError, AttributeError are not in `PyErr`) -/
def fwStepM (ops : BatOps α B) (env : FlexWindow.FEnv α) (window : Option Bool) (events : List (FlexWindow.FEvent α))
    (toErr : FlexWindow.FErr → PyErr) : SWorld α B → Py (SWorld α B × List (String × α)) :=
  fun w => match FlexWindow.step ops env w window events with
    | .ok r => .ok (r.1, r.2.2)
    | .error e => .error (toErr e)

theorem fwStepM_frame (ops : BatOps α B) (env : FlexWindow.FEnv α) (window : Option Bool)
    (events : List (FlexWindow.FEvent α)) (toErr : FlexWindow.FErr → PyErr) :
    Frame (fwStepM ops env window events toErr) := by
  intro w w' c h
  unfold fwStepM at h
  split at h
  · rename_i r hr
    obtain ⟨w1, win1, c1⟩ := r
    simp only [Except.ok.injEq, Prod.mk.injEq] at h
    obtain ⟨rfl, rfl⟩ := h
    exact Keeps.FlexWindow.step_keeps ops env w w1 window win1 events c1 hr
  · cases h

/-! ### toy instances for non-vacuity -/

/-- a battery that is its SoC: 40 kWh-steps, delivers exactly what is asked -/
def kOps : BatOps ℚ ℚ where
  soc b := b
  capacity _ := 10
  efficiency _ := 1
  unloadMaxPower _ := 11
  load b mp _ tp := .ok (b + (tp.getD (mp.getD 0)) / 40, tp.getD (mp.getD 0))
  unload b mp _ tp := .ok (b - (tp.getD (mp.getD 0)) / 40, tp.getD (mp.getD 0))
  available _ := .ok 0

/-- one connector (limit 20 kW, fixed price, a 6 kW fixed load), one station with a vehicle, one stationary battery -/
def kWorld : SWorld ℚ ℚ :=
  ⟨[⟨"GC1", 20, some (.fixed (3/10)), [("load", 6)]⟩], [⟨"CS1", "GC1", 11, 0, 0⟩],
   [⟨"v1", some "CS1", 9/10, some 7200000000, 0, false, 1/5, 1/2⟩], [⟨"BAT1", "GC1", 0, 1/2⟩]⟩

def kEnv : StratEnv ℚ := ⟨1/100000, 1/10, 4, 0, 900000000⟩

/-- the event-set state of a connector list as comparable data -/
def keyList (S : String → Bool) (gcs : List (GcS ℚ)) : List (String × ℚ × Option ℚ × List (String × ℚ)) :=
  gcs.map (fun g => (g.id, g.curMax, (match g.cost with | some (.fixed v) => some v | _ => none), restLoads S g))

/-- C07's state with one connector, for the adapter examples -/
def kStrat : Strat ℚ :=
  { world := { connectors := [("GC1", Connector.new 20 (.fixed (3/10)) none none [("load", 6)])],
               stations := [("CS1", ⟨11, "GC1"⟩)], vehicles := [], batteries := ["BAT1"], queue := [] },
    now := 0, tracker := [], desiredCounter := 0, marginCounter := 0 }

/-- the rest of the state the strategy models need: the toy world's station, vehicle and battery (as far as the state
knows their names) -/
def kExtra : Extra ℚ ℚ where
  stations s := if alHas "CS1" s.world.stations then [⟨"CS1", "GC1", 11, 0, 0⟩] else []
  vehicles _ := kWorld.vehicles
  batteries s := if s.world.batteries.contains "BAT1" then [⟨"BAT1", "GC1", 0, 1/2⟩] else []
  vehBack s _ := s.world.vehicles
  st_ok := by
    intro s x hx
    split at hx
    · simp only [List.mem_singleton] at hx; subst hx; assumption
    · cases hx
  bat_ok := by
    intro s x hx
    split at hx
    · simp only [List.mem_singleton] at hx; subst hx; assumption
    · cases hx

def psOpsK : PeakShaving.Ops ℚ ℚ := ⟨kOps, fun _ => 11, fun _ s => s, List.sum⟩
def psEnvK : PeakShaving.Env ℚ := ⟨1/100000, 4, 0, 900000000, 4 * 900000000, true, 60⟩
def bmOpsK : BalancedMarket.Ops ℚ ℚ := ⟨kOps, fun _ s => s, List.sum⟩
def bmEnvK : BalancedMarket.Env ℚ := ⟨1/100000, 1/10, 0, 900000000, 4 * 900000000, 0, [], []⟩
def schedOpsK : Sched.Ops ℚ ℚ :=
  ⟨fun b => b, fun _ => 10, fun _ => 1, fun _ => 11,
   fun b _ mp _ tp => .ok (b + (tp.getD (mp.getD 0)) / 40, tp.getD (mp.getD 0), 0),
   fun b _ mp _ tp => .ok (b - (tp.getD (mp.getD 0)) / 40, tp.getD (mp.getD 0), 0),
   fun _ _ => .ok 0, List.sum⟩
def schedEnvK : Sched.Env ℚ :=
  { eps := 1/100000, tsPerHour := 4, now := ⟨0, some 0⟩, interval := 900000000, iterations := 12, fuel := 60,
    retryFuel := 100, collective := false, warnCst := false, cst := none,
    gx := [("GC1", ⟨some 10, none⟩)], vx := [("v1", ⟨some 5, 11⟩)], future := [] }
def schedStK : Sched.CState ℚ := ⟨false, false, [], [], 0, [], [], 0⟩
def fwEnvK (s : FlexWindow.LoadStrat) : FlexWindow.FEnv ℚ := ⟨kEnv, 4 * 900000000, 0, s, none, List.sum, 60⟩

/-- "the step returned, the event-set state of the connectors is what it was, and something was booked" as a Boolean -/
def keptAndBooked (w : SWorld ℚ ℚ) (r : Py (SWorld ℚ ℚ × List (String × ℚ))) : Bool :=
  match r with
  | .ok (w', _) => decide (keyList (sbName w) w'.gcs = keyList (sbName w) w.gcs) &&
      decide (w'.gcs.map (·.loads) ≠ w.gcs.map (·.loads))
  | .error _ => false

/-- "the step returned, every vehicle carries the non-battery data it had, and some battery was charged" -/
def vehKeptAndCharged (w : SWorld ℚ ℚ) (r : Py (SWorld ℚ ℚ × List (String × ℚ))) : Bool :=
  match r with
  | .ok (w', _) =>
      decide (w'.vehicles.map (fun v => (v.id, v.cs, v.desiredSoc, v.etd)) =
        w.vehicles.map (fun v => (v.id, v.cs, v.desiredSoc, v.etd))) &&
      decide (w'.vehicles.map (fun v => (v.minChargingPower, v.v2g, v.dischargeLimit)) =
        w.vehicles.map (fun v => (v.minChargingPower, v.v2g, v.dischargeLimit))) &&
      decide (w'.vehicles.map (·.bat) ≠ w.vehicles.map (·.bat))
  | .error _ => false

end Keeps
end SpiceEv
