/-
Model of the parts of `Scenario` that surround the run loop (spice_ev/scenario.py, strategy.py,
components.py, util.set_attr_from_dict), transliterated statement by statement.  Core Lean only.

(a) `Scenario.__init__`: legacy key handling, the time computation (`start_time`, `interval`,
    the XOR assertion, `n_intervals` / `stop_time`, `//` on timedeltas) on `Int` microseconds with the
    exceptions the code raises (KeyError, TypeError, ValueError, AssertionError, ZeroDivisionError,
    OverflowError), and the connector look-up of the `add_avg_fixed_load_week` loop;
(b) the `disconnect` back-fill of `Scenario.run` (the block between event processing and the
    strategy step) as a function of the per-step observations (station, departed flag, SoC) of the
    vehicles in sorted-id order - generic number type, run on `Rat` and `Float`;
(c) `strategy.class_from_str` and `Strategy.__init__`'s generic option handling together with the
    five options `Scenario.run` injects;
(d) `components.Components.__init__` and the six component constructors as functions of the JSON
    value (`J`): required keys, conversions, defaults, derived fields, assertions.
-/
import SpiceEv.Py
import SpiceEv.Time
import SpiceEv.Model.Curve
namespace SpiceEv.ScenarioCtor
open SpiceEv

/-- exception kinds of the constructor code (more kinds than `PyErr` distinguishes) -/
inductive Err where
  | key | type | value | assertion | zeroDivision | overflow | attribute | index | moduleNotFound
  | systemExit | notImplemented | argument
  | other
  deriving Repr, DecidableEq, Inhabited

def Err.name : Err → String
  | .key => "KeyError" | .type => "TypeError" | .value => "ValueError"
  | .assertion => "AssertionError" | .zeroDivision => "ZeroDivisionError"
  | .overflow => "OverflowError" | .attribute => "AttributeError" | .index => "IndexError"
  | .moduleNotFound => "ModuleNotFoundError" | .systemExit => "SystemExit"
  | .notImplemented => "NotImplementedError" | .argument => "ArgumentError"
  | .other => "Exception"

abbrev R := Except Err

def Err.ofPy : PyErr → Err
  | .assertion => .assertion | .zeroDivision => .zeroDivision | .valueError => .value
  | .keyError => .key | .indexError => .index | .typeError => .type | .overflow => .overflow
  | _ => .other

def liftPy {β : Type} : Py β → R β
  | .ok v => .ok v
  | .error e => .error (Err.ofPy e)

/-- a JSON value as `json.load` delivers it. Floats carry their exact value; `dstr s v` is a string
for which the harness states whether `datetime.fromisoformat` accepts it (`v`) - for every other
purpose it is the string `s`. -/
inductive J where
  | null
  | bool (b : Bool)
  | int (i : Int)
  | flt (q : Rat)
  | str (s : String)
  | dstr (s : String) (valid : Bool)
  | arr (xs : List J)
  | obj (kvs : List (String × J))
  deriving Repr, Inhabited

/-! ## (a) time computation of `Scenario.__init__` -/

/-- CPython's bounds: `timedelta.days` magnitude ≤ 999999999 (OverflowError otherwise) -/
def tdCheck (us : Int) : R Int :=
  let days := us / usPerDay
  if -999999999 ≤ days ∧ days ≤ 999999999 then .ok us else .error .overflow

/-- `date.max.toordinal()` = 9999-12-31 -/
def maxOrdinal : Int := 3652059

/-- `datetime + timedelta`: wall-clock arithmetic, OverflowError outside years 1..9999 -/
def dtAdd (d : DateTime) (td : Int) : R DateTime :=
  let r := d.add td
  if 1 ≤ r.date ∧ r.date ≤ maxOrdinal then .ok r else .error .overflow

/-- `datetime - datetime`: TypeError for a naive/aware mix -/
def dtSub (a b : DateTime) : R Int :=
  match a.sub? b with
  | some td => .ok td
  | none => .error .type

/-- `timedelta // timedelta` -/
def tdFloorDiv (a b : Int) : R Int :=
  if b = 0 then .error .zeroDivision else .ok (floorDiv a b)

/-- exact integer value of an integer-valued finite double (from its bits); `none` for nan/inf -/
def floatToInt? (x : Float) : Option Int :=
  let bits : Nat := x.toBits.toNat
  let sign : Int := if bits / 2 ^ 63 = 1 then -1 else 1
  let e : Nat := (bits / 2 ^ 52) % 2048
  let frac : Nat := bits % 2 ^ 52
  if e = 2047 then none
  else if e = 0 then some 0                -- subnormal: magnitude below 1
  else
    let m : Nat := 2 ^ 52 + frac
    let mag : Nat := if 1075 ≤ e then m * 2 ^ (e - 1075) else m / 2 ^ (1075 - e)
    some (sign * (mag : Int))

/-- C `modf`: integral part (toward zero) and fractional part, both with the sign of `x` -/
def modf (x : Float) : Float × Float :=
  let ip := if x < 0 then x.ceil else x.floor
  (ip, x - ip)

/-- `datetime.timedelta(minutes=x)` for a float `x`, as CPython's `delta_new`/`accum` compute it:
integral minutes exactly, the fractional minutes times 6e7 in double arithmetic, the sub-microsecond
leftover rounded half to even with respect to the parity of the accumulated microseconds. -/
def minutesFloatToUs (x : Float) : R Int := do
  if x.isNaN then .error .value
  else if x.isInf then .error .overflow
  else
    let (ip, frac) := modf x
    let sum : Int := (floatToInt? ip).getD 0 * 60000000
    if frac == 0.0 then tdCheck sum
    else
      let d := 60000000.0 * frac
      let (ip2, frac2) := modf d
      let y : Int := sum + (floatToInt? ip2).getD 0
      if frac2 == 0.0 then tdCheck y
      else
        let whole := frac2.round
        let odd : Float := if y % 2 = 0 then 0.0 else 1.0
        let whole := if (whole - frac2).abs == 0.5 then 2.0 * ((frac2 + odd) * 0.5).round - odd
                     else whole
        tdCheck (y + (floatToInt? whole).getD 0)

/-- the exact rational of a finite double back as a double -/
def ratToFloat (q : Rat) : Float := Float.ofInt q.num / Float.ofNat q.den

/-- `datetime.timedelta(minutes=v)` for a JSON value -/
def intervalOf : J → R Int
  | .int m => tdCheck (m * usPerMinute)
  | .bool b => .ok (if b then usPerMinute else 0)
  | .flt q => minutesFloatToUs (ratToFloat q)
  | _ => .error .type

/-- `util.datetime_from_isoformat(v)`: `none` = Python `None`. `parsed` is what
`datetime.fromisoformat` returns for the string (meaningful when `valid`). -/
def isoOf (parsed : DateTime) : J → R (Option DateTime)
  | .null => .ok none
  | .dstr _ valid => if valid then .ok (some parsed) else .error .value
  | .str _ => .error .value
  | _ => .error .type

/-- a key of the `scenario` section: absent, or present with a value -/
abbrev Key := Option J

def Key.isNone' : Key → Bool
  | none => true
  | some .null => true
  | _ => false

structure TimeIn where
  hasScenario : Bool          -- `json_dict.get('scenario')` is a dict
  startTime : Key
  startParsed : DateTime
  interval : Key
  nIntervals : Key
  stopTime : Key
  stopParsed : DateTime
  deriving Repr

structure TimeOut where
  start : DateTime
  interval : Int
  n : Int
  stop : DateTime
  deriving Repr, DecidableEq

/-- `interval * n_intervals` for the JSON value of `n_intervals` -/
def tdMul (interval : Int) : J → R (Int × Int)
  | .int n => do let td ← tdCheck (interval * n); .ok (n, td)
  | .bool b => .ok (if b then (1, interval) else (0, 0))
  | _ => .error .type                      -- None, str, list, dict (float counts are outside the model)

/-- the time block of `Scenario.__init__` (from `scenario = json_dict.get('scenario')` to
`self.n_intervals = delta // self.interval`) -/
def timeInit (t : TimeIn) : R TimeOut := do
  if !t.hasScenario then .error .type      -- `None['start_time']`
  else
  let sj ← match t.startTime with | some v => pure v | none => .error .key
  let start ← isoOf t.startParsed sj
  let ij ← match t.interval with | some v => pure v | none => .error .key
  let interval ← intervalOf ij
  if !(Bool.xor t.stopTime.isNone' t.nIntervals.isNone') then .error .assertion
  else
  match t.nIntervals with
  | some nj =>                              -- `'n_intervals' in scenario`
    let (n, td) ← tdMul interval nj
    match start with
    | none => .error .type                  -- `None + timedelta`
    | some s => do
      let stop ← dtAdd s td
      .ok ⟨s, interval, n, stop⟩
  | none =>
    let stj ← match t.stopTime with | some v => pure v | none => .error .key
    let stop ← isoOf t.stopParsed stj
    match stop, start with
    | some e, some s => do
      let delta ← dtSub e s
      let n ← tdFloorDiv delta interval
      .ok ⟨s, interval, n, e⟩
    | _, _ => .error .type

/-- which section `json_dict.get("components", json_dict.get("constants", {}))` returns:
0 = `components`, 1 = `constants`, 2 = the empty default -/
def pickComponents (hasComponents hasConstants : Bool) : Nat :=
  if hasComponents then 0 else if hasConstants then 1 else 2

/-- Python `d[k] = v` on an insertion-ordered dict -/
def dictSet {β : Type} (d : List (String × β)) (k : String) (v : β) : List (String × β) :=
  if d.any (fun kv => kv.1 == k) then d.map (fun kv => if kv.1 == k then (k, v) else kv)
  else d ++ [(k, v)]

/-- the two legacy renames of the events section (`external_load` → `fixed_load`,
`energy_feed_in` → `local_generation`), in place -/
def renameEvents {β : Type} (ev : List (String × β)) : List (String × β) :=
  let ev := match ev.lookup "external_load" with
    | some v => dictSet ev "fixed_load" v
    | none => ev
  match ev.lookup "energy_feed_in" with
  | some v => dictSet ev "local_generation" v
  | none => ev

/-- the closing loop: `gc = self.components.grid_connectors[gc_id]` for every fixed-load series -/
def avgLoadLookup (gcIds : List String) (fixedLoadGcs : List String) : R Unit :=
  if fixedLoadGcs.all (fun g => gcIds.contains g) then .ok () else .error .key

/-- number of iterations of `for step_i in range(self.n_intervals)` -/
def rangeLen (n : Int) : Nat := n.toNat

/-! ## (b) the `disconnect` back-fill of `Scenario.run` -/

section backfill
variable {α : Type} [Add α] [Sub α] [Mul α] [Div α] [LT α] [DecidableLT α] [OfNat α 0] [NatCast α]

/-- what the block reads from one vehicle after the events of the step were processed -/
structure VObs (α : Type) where
  station : Option String     -- `vehicle.connected_charging_station`
  departed : Bool             -- `estimated_time_of_departure is None or <= strat.current_time`
  soc : α                     -- `vehicle.battery.soc`
  deriving Repr

/-- one vehicle's column of the three per-step tables plus its `departed_vehicles` entry -/
structure Col (α : Type) where
  socs : List (Option α) := []          -- `socs[t][vidx]`
  dis : List (Option α) := []           -- `disconnect[t][vidx]`
  conn : List (Option String) := []     -- `connected[t].get(vid)`
  departed : Option (Nat × α) := none   -- `departed_vehicles.get(vid)`
  deriving Repr

/-- `for idx in range(start_idx, step_i): disconnect[idx][vidx] = m * (idx - start_idx) + start_soc` -/
def rewrite (dis : List (Option α)) (s0 i : Nat) (m a : α) : List (Option α) :=
  dis.mapIdx (fun idx v => if s0 ≤ idx ∧ idx < i then some (m * ((idx - s0 : Nat) : α) + a) else v)

/-- body of `for vidx, vid in enumerate(sorted(...))` for one vehicle in step `i` -/
def colStep (i : Nat) (o : VObs α) (c : Col α) : Py (Col α) :=
  let isConn := o.station.isSome
  -- first `if`
  let (curSoc, curDis, dep) : Option α × Option α × Option (Nat × α) :=
    if isConn then (some o.soc, none, c.departed)
    else if o.departed then
      match c.departed with
      | none =>
        let prevSome := match c.socs.getLast? with | some (some _) => true | _ => false
        (if decide (i > 0) && prevSome then some o.soc else none, some o.soc, some (i, o.soc))
      | some d => (none, none, some d)
    else (none, some o.soc, c.departed)
  -- second `if`
  if isConn || !o.departed then
    match dep with
    | some (s0, a) => do
      let m ← pydiv (o.soc - a) (((i : Nat) : α) - ((s0 : Nat) : α))
      let dis := rewrite c.dis s0 i m a
      let curDis := if s0 < i then some o.soc else curDis
      .ok { socs := c.socs ++ [curSoc], dis := dis ++ [curDis], conn := c.conn ++ [o.station],
            departed := none }
    | none =>
      .ok { socs := c.socs ++ [curSoc], dis := c.dis ++ [curDis], conn := c.conn ++ [o.station],
            departed := dep }
  else
    .ok { socs := c.socs ++ [curSoc], dis := c.dis ++ [curDis], conn := c.conn ++ [o.station],
          departed := dep }

/-- the steps `i, i+1, …` of one vehicle -/
def colRunFrom : Nat → List (VObs α) → Col α → Py (Col α)
  | _, [], c => .ok c
  | i, o :: rest, c => do
    let c ← colStep i o c
    colRunFrom (i + 1) rest c

def colRun (obs : List (VObs α)) : Py (Col α) := colRunFrom 0 obs {}

/-- all vehicles (columns, sorted-id order); `obs[v]` is the observation series of vehicle `v` -/
def backfill (obs : List (List (VObs α))) : Py (List (Col α)) := obs.mapM colRun

end backfill

/-! ## (c) `class_from_str`, `Strategy.__init__` options -/

/-- Python `str.split('_')` on the character list (`"a__b"` → `["a", "", "b"]`, `""` → `[""]`) -/
def splitUnderscore : List Char → List (List Char)
  | [] => [[]]
  | c :: r =>
    if c == '_' then [] :: splitUnderscore r
    else match splitUnderscore r with
      | [] => [[c]]
      | h :: t => (c :: h) :: t

/-- Python `str.capitalize()` on ASCII -/
def capitalizePy : List Char → List Char
  | [] => []
  | c :: r => c.toUpper :: r.map Char.toLower

/-- modules of `spice_ev/strategies/` and the strategy class each defines; `__init__` is importable
as a module too and defines none -/
def strategyModules : List (String × Option String) :=
  [("greedy", some "Greedy"), ("balanced", some "Balanced"),
   ("balanced_market", some "BalancedMarket"), ("distributed", some "Distributed"),
   ("peak_load_window", some "PeakLoadWindow"), ("peak_shaving", some "PeakShaving"),
   ("flex_window", some "FlexWindow"), ("schedule", some "Schedule"), ("__init__", none)]

/-- `strategy.class_from_str` (names over `[A-Za-z_]`); the class is identified by its name -/
def classFromStr (name : String) : R String :=
  let cs := name.toList
  let importName := String.ofList (cs.map Char.toLower)
  let className := String.ofList ((splitUnderscore cs).map capitalizePy).flatten
  match strategyModules.lookup importName with
  | none => .error .moduleNotFound
  | some cls => if cls == some className then .ok className else .error .attribute

/-- the option assignments at the top of `Scenario.run` (values are tokens) -/
def runOptions (opts : List (String × String)) (events interval stop n cst : String) :
    List (String × String) :=
  let o := dictSet opts "events" events
  let o := dictSet o "interval" interval
  let o := dictSet o "stop_time" stop
  let o := dictSet o "n_intervals" n
  dictSet o "core_standing_time" cst

/-- value of an attribute of the strategy object as the correspondence sees it -/
inductive AVal where
  | tok (s : String)          -- an option value, passed through untouched
  | num (q : Rat)
  | int (i : Int)
  | bool (b : Bool)
  | none
  | empty                     -- `{}` / `[]`
  | world                     -- the deep copy of the components
  deriving Repr, DecidableEq

structure StratInit where
  attrs : List (String × AVal)       -- `vars(strat)` in insertion order
  stationPower : List Rat            -- `cs.max_power` after CONCURRENCY
  deriving Repr

/-- one iteration of `for k, v in kwargs.items(): setattr(self, k, v)` (the `interval` option is the
timedelta that was already read through `kwargs.get`) -/
def optStep (iv : Int) (a : List (String × AVal)) (kv : String × String) : List (String × AVal) :=
  if kv.1 == "interval" then dictSet a kv.1 (.int iv) else dictSet a kv.1 (.tok kv.2)

/-- `Strategy.__init__`: `intervalUs` = the `interval` option as a timedelta (`none`: option missing
or not a timedelta), `concurrency` = the `CONCURRENCY` option if it is a number -/
def strategyInit (startLocal : Int) (intervalUs : Option Int) (concurrency : Option Rat)
    (opts : List (String × String)) (stations : List Rat) : R StratInit := do
  let a : List (String × AVal) := [("world_state", .world)]
  let a := dictSet a "interval" (match intervalUs with | some i => .int i | none => .none)
  let iv ← match intervalUs with | some i => pure i | none => .error .type
  if iv = 0 then .error .zeroDivision
  else
  let a := dictSet a "ts_per_hour" (.num ((usPerHour : Rat) / (iv : Rat)))
  let a := dictSet a "current_time" (.int (startLocal - iv))
  let a := dictSet a "margin" (.num (1 / 10))
  let a := dictSet a "PRICE_THRESHOLD" (.int 0)
  let a := dictSet a "ALLOW_NEGATIVE_SOC" (.bool false)
  let a := dictSet a "RESET_NEGATIVE_SOC" (.bool false)
  let a := dictSet a "uses_schedule" (.bool false)
  let a := dictSet a "uses_window" (.bool false)
  let a := dictSet a "EPS" (.num (1 / 100000))
  let c : Rat := concurrency.getD 1
  let st := stations.map (fun p => c * p)
  let a := dictSet a "description" .none
  let a := opts.foldl (optStep iv) a
  let a := dictSet a "negative_soc_tracker" .empty
  let a := dictSet a "desired_counter" (.int 0)
  let a := dictSet a "margin_counter" (.int 0)
  .ok ⟨a, st⟩

/-! ## (d) components -/

/-- attribute values of component objects -/
inductive Val where
  | none
  | num (q : Rat)
  | int (i : Int)
  | bool (b : Bool)
  | str (s : String)
  | opaque                                   -- `str()` of a float / list / dict
  | json (j : J)                             -- a dict taken over as it is
  | curve (c : Curve Rat)
  | vtype (name : String)                    -- a `VehicleType` object, by its key
  | date
  | battery (capacity soc efficiency : Rat) (loss : Val) (loading unloading : Curve Rat)
  deriving Repr, Inhabited

abbrev Attrs := List (String × Val)

def getAttr (o : Attrs) (n : String) : Val := (o.lookup n).getD .none

inductive Conv where
  | float | str | dict | int | bool | curve | vtype (types : List String) | isodate
  deriving Repr

def jNum? : J → Option Rat
  | .int i => some i
  | .flt q => some q
  | _ => Option.none

def jTruthy : J → Bool
  | .null => false | .bool b => b | .int i => i != 0 | .flt q => q != 0
  | .str s => s != "" | .dstr s _ => s != "" | .arr xs => !xs.isEmpty | .obj kvs => !kvs.isEmpty

/-- Python `int(float)`: truncation toward zero -/
def ratTrunc (q : Rat) : Int := if q < 0 then -((-q).floor) else q.floor

/-- `float(s)` / `int(s)` for the strings of the generated domain: plain decimal integers convert,
everything else is a ValueError -/
def strNum (s : String) : R Int :=
  match s.toInt? with | some i => .ok i | Option.none => .error .value

/-- Python's `sorted(points, key=lambda a: a[0])` (stable) as an insertion sort: structurally
recursive, so that the kernel can evaluate it -/
def insertByKey (p : List Rat) : List (List Rat) → List (List Rat)
  | [] => [p]
  | q :: r => if q.headD 0 < p.headD 0 then q :: insertByKey p r else p :: q :: r

def sortByKey : List (List Rat) → List (List Rat)
  | [] => []
  | p :: r => insertByKey p (sortByKey r)

/-- the statements of `LoadingCurve.__init__` after the sort (the same statements as in
`Curve.new` of Model/Curve.lean, which sorts with `List.mergeSort`) -/
def curveOfSorted (sorted : List (Rat × Rat)) : R (Curve Rat) :=
  match sorted.head?, sorted.getLast? with
  | some f, some l =>
    if numEq f.1 0 && numEq l.1 1 then .ok ⟨sorted, curveMaxPower sorted⟩ else .error .assertion
  | _, _ => .error .index

/-- `loading_curve.LoadingCurve(v)` -/
def convCurve : J → R (Curve Rat)
  | .arr xs => do
    -- `sorted(points, key=lambda a: a[0])`: all keys first
    let pts ← xs.mapM (fun p => match p with
      | .arr [] => (.error .index : R (List Rat))
      | .arr ys => (match ys.mapM jNum? with
          | some l => .ok l
          | Option.none => .error .type)
      | .str "" => .error .index
      | .dstr "" _ => .error .index
      | _ => .error .type)
    let sorted := sortByKey pts
    -- the loop: `assert len(p) == 2`
    let pairs ← sorted.mapM (fun p => match p with
      | [x, y] => (.ok (x, y) : R (Rat × Rat))
      | _ => .error .assertion)
    curveOfSorted pairs
  | .obj [] => .error .index
  | .str "" => .error .index
  | .dstr "" _ => .error .index
  | .str _ => .error .assertion
  | .dstr _ _ => .error .assertion
  | .obj _ => .error .other                  -- iterating a non-empty dict: outside the model
  | _ => .error .type

def convert : Conv → J → R Val
  | .float, v => match v with
    | .int i => .ok (.num i) | .flt q => .ok (.num q) | .bool b => .ok (.num (if b then 1 else 0))
    | .str s => do let i ← strNum s; .ok (.num i)
    | .dstr s _ => do let i ← strNum s; .ok (.num i)
    | _ => .error .type
  | .str, v => match v with
    | .str s => .ok (.str s) | .dstr s _ => .ok (.str s) | .int i => .ok (.str (toString i))
    | .bool b => .ok (.str (if b then "True" else "False")) | .null => .ok (.str "None")
    | _ => .ok .opaque
  | .dict, v => match v with
    | .obj kvs => .ok (.json (.obj kvs)) | .arr [] => .ok (.json (.obj []))
    | .str "" => .ok (.json (.obj [])) | .dstr "" _ => .ok (.json (.obj []))
    | .str _ => .error .value | .dstr _ _ => .error .value
    | _ => .error .type                      -- numbers, None, lists of scalars
  | .int, v => match v with
    | .int i => .ok (.int i) | .flt q => .ok (.int (ratTrunc q)) | .bool b => .ok (.int (if b then 1 else 0))
    | .str s => do let i ← strNum s; .ok (.int i)
    | .dstr s _ => do let i ← strNum s; .ok (.int i)
    | _ => .error .type
  | .bool, v => .ok (.bool (jTruthy v))
  | .curve, v => do let c ← convCurve v; .ok (.curve c)
  | .vtype types, v => match v with
    | .str s => .ok (if types.contains s then .vtype s else .none)
    | .dstr s _ => .ok (if types.contains s then .vtype s else .none)
    | .arr _ => .error .type | .obj _ => .error .type      -- unhashable
    | _ => .ok .none
  | .isodate, v => match v with
    | .null => .ok .none
    | .dstr _ valid => if valid then .ok .date else .error .value
    | .str _ => .error .value
    | _ => .error .type

/-- the double nearest to the literal `0.95` (default efficiency) -/
def f095 : Rat := 4278419646001971 / 4503599627370496

/-- Python `o.n = v` on an object's `__dict__` -/
def setAttr (o : Attrs) (n : String) (v : Val) : Attrs := dictSet o n v

/-- `util.set_attr_from_dict(source, target, keys, optional_keys)` -/
def setAttrFromDict (source : J) (target : Attrs) (keys : List (String × Conv))
    (optional : List (String × Conv × Val)) : R Attrs := do
  match source with
  | .obj kvs =>
    let t ← keys.foldlM (fun t (nc : String × Conv) =>
      match kvs.lookup nc.1 with
      | Option.none => (.error .key : R Attrs)
      | some v => do let x ← convert nc.2 v; .ok (setAttr t nc.1 x)) target
    optional.foldlM (fun t (ncd : String × Conv × Val) =>
      match kvs.lookup ncd.1 with
      | Option.none => (.ok (setAttr t ncd.1 ncd.2.2) : R Attrs)
      | some .null => .ok (setAttr t ncd.1 ncd.2.2)
      | some v => do let x ← convert ncd.2.1 v; .ok (setAttr t ncd.1 x)) t
  | _ => .error .type                         -- `source[n]` on a non-dict (every class has a required key)

def valNum (v : Val) : Rat := match v with | .num q => q | .int i => i | _ => 0

def gridConnector (obj : J) : R Attrs := do
  let o ← setAttrFromDict obj [] [("max_power", .float)]
    [("grid_operator", .str, .str "default_grid_operator"), ("voltage_level", .str, .none),
     ("current_loads", .dict, .json (.obj [])), ("number_cs", .int, .none),
     ("cost", .dict, .json (.obj [])), ("target", .float, .none), ("window", .bool, .none)]
  let o := setAttr o "avg_fixed_load" .none
  .ok (setAttr o "cur_max_power" (getAttr o "max_power"))

def chargingStation (obj : J) : R Attrs :=
  setAttrFromDict obj [] [("max_power", .float), ("parent", .str)]
    [("current_power", .float, .num 0), ("min_power", .float, .num 0)]

def photovoltaics (obj : J) : R Attrs :=
  setAttrFromDict obj [] [("nominal_power", .float), ("parent", .str)] []

def valCurve (v : Val) : Option (Curve Rat) := match v with | .curve c => some c | _ => Option.none

def vehicleType (obj : J) : R Attrs := do
  let o ← setAttrFromDict obj [] [("name", .str), ("capacity", .float), ("charging_curve", .curve)]
    [("min_charging_power", .float, .num 0), ("battery_efficiency", .float, .num f095),
     ("v2g", .bool, .bool false), ("v2g_power_factor", .float, .num (1 / 2)),
     ("discharge_limit", .float, .num (1 / 2)), ("discharge_curve", .curve, .none),
     ("loss_rate", .float, .int 0)]
  match valCurve (getAttr o "charging_curve") with
  | Option.none => .error .other
  | some cc =>
    let maxPower := cc.maxPower
    if !(decide (valNum (getAttr o "min_charging_power") ≤ maxPower)) then .error .assertion
    else
    match getAttr o "discharge_curve" with
    | .none => do
      let dc ← liftPy (cc.clamped maxPower (valNum (getAttr o "v2g_power_factor")) 1)
      .ok (setAttr o "discharge_curve" (.curve dc))
    | _ => .ok o

/-- `battery.Battery.__init__` as far as it can raise: `self.EPS = 1e-5 / self.capacity` -/
def batteryInit (capacity soc eff : Rat) (loss : Val) (lc : Curve Rat) (uc : Option (Curve Rat)) :
    R Val :=
  if capacity = 0 then .error .zeroDivision
  else .ok (.battery capacity soc eff loss lc (uc.getD lc))

def vehicle (types : List (String × Attrs)) (obj : J) : R Attrs := do
  let o ← setAttrFromDict obj [] [("vehicle_type", .vtype (types.map (·.1)))]
    [("connected_charging_station", .str, .none), ("estimated_time_of_arrival", .isodate, .none),
     ("estimated_time_of_departure", .isodate, .none), ("desired_soc", .float, .num 0),
     ("soc", .float, .num 0), ("schedule", .float, .none)]
  match getAttr o "vehicle_type" with
  | .vtype name =>
    let vt := (types.lookup name).getD []
    match valCurve (getAttr vt "charging_curve") with
    | Option.none => .error .other
    | some cc =>
      let b ← batteryInit (valNum (getAttr vt "capacity")) (valNum (getAttr o "soc"))
        (valNum (getAttr vt "battery_efficiency")) (getAttr vt "loss_rate") cc
        (valCurve (getAttr vt "discharge_curve"))
      let o := setAttr o "battery" b
      .ok (o.filter (fun kv => kv.1 != "soc"))          -- `del self.soc`
  | _ => .error .attribute                              -- `None.capacity`

def stationaryBattery (obj : J) : R Attrs := do
  let o ← setAttrFromDict obj [] [("charging_curve", .curve), ("parent", .str)]
    [("capacity", .float, .num (-1)), ("min_charging_power", .float, .num 0),
     ("soc", .float, .num 0), ("efficiency", .float, .num f095),
     ("discharge_curve", .curve, .none), ("loss_rate", .dict, .json (.obj []))]
  match valCurve (getAttr o "charging_curve") with
  | Option.none => .error .other
  | some cc =>
    if !(decide (valNum (getAttr o "min_charging_power") ≤ cc.maxPower)) then .error .assertion
    else
    let cap0 := valNum (getAttr o "capacity")
    let cap := if 0 ≤ cap0 then cap0 else (2 ^ 64 : Rat)      -- `2**64` is a Python int
    let b ← batteryInit cap (valNum (getAttr o "soc")) (valNum (getAttr o "efficiency"))
      (getAttr o "loss_rate") cc (valCurve (getAttr o "discharge_curve"))
    -- Battery.__init__ assigns capacity, loading_curve, soc, efficiency, loss_rate, unloading_curve
    match b with
    | .battery c s e l lc uc =>
      let o := setAttr o "capacity" (if 0 ≤ cap0 then .num c else .int (2 ^ 64))
      let o := setAttr o "loading_curve" (.curve lc)
      let o := setAttr o "soc" (.num s)
      let o := setAttr o "efficiency" (.num e)
      let o := setAttr o "loss_rate" l
      .ok (setAttr o "unloading_curve" (.curve uc))
    | _ => .error .other

structure Components where
  gridConnectors : List (String × Attrs)
  chargingStations : List (String × Attrs)
  vehicleTypes : List (String × Attrs)
  vehicles : List (String × Attrs)
  batteries : List (String × Attrs)
  photovoltaics : List (String × Attrs)
  deriving Repr

/-- `{k: C(v) for k, v in obj.get(section, {}).items()}` -/
def buildSection (obj : List (String × J)) (sec : String) (f : J → R Attrs) :
    R (List (String × Attrs)) :=
  match obj.lookup sec with
  | Option.none => .ok []
  | some (.obj kvs) =>
    kvs.foldlM (fun acc (kv : String × J) => do
      let o ← f kv.2
      .ok (dictSet acc kv.1 o)) []
  | some _ => .error .attribute              -- no `.items()`

/-- `components.Components.__init__` -/
def componentsInit (obj : J) : R Components := do
  match obj with
  | .obj kvs =>
    let gcs ← buildSection kvs "grid_connectors" gridConnector
    let css ← buildSection kvs "charging_stations" chargingStation
    let vts ← buildSection kvs "vehicle_types" vehicleType
    let vs ← buildSection kvs "vehicles" (vehicle vts)
    let bs ← buildSection kvs "batteries" stationaryBattery
    let pvs ← buildSection kvs "photovoltaics" photovoltaics
    .ok ⟨gcs, css, vts, vs, bs, pvs⟩
  | _ => .error .attribute                   -- no `.get`

/-! ## (e) `simulate.simulate`: argument dict → strategy name and options; `util.sanitize` -/

/-- digits of a non-negative decimal integer -/
def digitsVal (cs : List Char) : Option Nat :=
  cs.foldl (fun acc c => match acc with
    | Option.none => Option.none
    | some n => if c.isDigit then some (n * 10 + (c.toNat - '0'.toNat)) else Option.none) (some 0)

/-- `float(s)` for strings of the form `[+-]digits[.digits]` (at least one digit); the exact decimal
value (Python rounds it to the nearest double). `none` = ValueError. Exponents, `inf`, `nan`,
underscores and surrounding whitespace are outside the generated domain. -/
def parseDecimal (s : String) : Option Rat :=
  let cs := s.toList
  let (neg, cs) := match cs with
    | '-' :: r => (true, r)
    | '+' :: r => (false, r)
    | r => (false, r)
  let ip := cs.takeWhile (· != '.')
  let rest := cs.dropWhile (· != '.')
  let fp := match rest with | _ :: r => r | [] => []
  if ip.isEmpty && fp.isEmpty then Option.none
  else if fp.any (· == '.') then Option.none
  else match digitsVal ip, digitsVal fp with
    | some a, some b =>
      let q : Rat := (a : Rat) + (b : Rat) / ((10 ^ fp.length : Nat) : Rat)
      some (if neg then -q else q)
    | _, _ => Option.none

/-- state of `args["input"]` -/
inductive InputState where
  | absent          -- KeyError (not caught by `except (TypeError, AssertionError)`)
  | notPath         -- `Path(x)` raises TypeError → SystemExit
  | missing         -- the file does not exist → SystemExit
  | present
  deriving Repr, DecidableEq

def STRATEGIES : List String :=
  ["greedy", "balanced", "balanced_market", "distributed", "peak_load_window", "peak_shaving",
   "flex_window", "schedule"]

/-- `try: opt_val = float(opt_val) except ValueError: pass` -/
def optFloat : J → R J
  | .int i => .ok (.flt i)
  | .flt q => .ok (.flt q)
  | .bool b => .ok (.flt (if b then 1 else 0))
  | .str s => .ok (match parseDecimal s with | some q => .flt q | Option.none => .str s)
  | .dstr s v => .ok (match parseDecimal s with | some q => .flt q | Option.none => .dstr s v)
  | _ => .error .type                        -- None, list, dict: TypeError is not caught

/-- `for opt_key, opt_val in args["strategy_option"]` - one element -/
def optPair : J → R (String × J)
  | .arr [.str k, v] => do let v ← optFloat v; .ok (k, v)
  | .arr [_, _] => .error .other             -- non-string keys: outside the model
  | .arr _ => .error .value                  -- cannot unpack
  | .str s => if s.length = 2 then .error .other else .error .value
  | .dstr s _ => if s.length = 2 then .error .other else .error .value
  | .obj _ => .error .other
  | _ => .error .type                        -- not iterable

/-- `args.get(k)` -/
def argGet (args : List (String × J)) (k : String) : J := (args.lookup k).getD .null

/-- `strategy_name = args.get("strategy", "greedy")` and the membership test -/
def simStrategy (args : List (String × J)) : R String :=
  match args.lookup "strategy" with
  | Option.none => .ok "greedy"
  | some (.str s) => if STRATEGIES.contains s then .ok s else .error .notImplemented
  | some _ => .error .notImplemented

/-- the eight fixed entries of `options` -/
def baseOptions (args : List (String × J)) : List (String × J) :=
  [("cost_calculation", argGet args "cost_calc"), ("margin", argGet args "margin"),
   ("save_timeseries", argGet args "save_timeseries"), ("save_soc", argGet args "save_soc"),
   ("save_results", argGet args "save_results"), ("testing", argGet args "testing"),
   ("timing", argGet args "eta"), ("visual", argGet args "visual")]

/-- `if args.get("strategy_option"): for opt_key, opt_val in …: options[opt_key] = …` -/
def simOptions (args : List (String × J)) : R (List (String × J)) :=
  let so := argGet args "strategy_option"
  if !(jTruthy so) then .ok (baseOptions args)
  else match so with
    | .arr xs =>
      xs.foldlM (fun (o : List (String × J)) x => do
        let kv ← optPair x
        .ok (dictSet o kv.1 kv.2)) (baseOptions args)
    | .str _ => .error .value                -- characters cannot be unpacked into two names
    | .dstr _ _ => .error .value
    | .obj _ => .error .other
    | _ => .error .type                      -- a number is not iterable

/-- the head of `simulate.simulate(args)` up to the call `s.run(strategy_name, options)`:
`args` = the entries of the argument dict other than `input` -/
def simulateOptions (input : InputState) (args : List (String × J)) : R (String × List (String × J)) :=
  match input with
  | .absent => .error .key
  | .notPath => .error .systemExit
  | .missing => .error .systemExit
  | .present =>
    match simStrategy args with
    | .error e => .error e
    | .ok name =>
      match simOptions args with
      | .error e => .error e
      | .ok opts => .ok (name, opts)

/-- `util.sanitize(s, chars)` on the character list -/
def sanitize (s : List Char) (chars : List Char) : List Char :=
  let chars := if chars.isEmpty then "</|\\>:\"?*".toList else chars
  s.filter (fun c => !chars.contains c)

/-! ## (f) `util.set_options_from_config`: one line of a cfg file -/

/-- the ASCII characters `str.strip()` removes -/
def isPySpace (c : Char) : Bool :=
  c == ' ' || c == '\t' || c == '\n' || c == '\r' || c == Char.ofNat 11 || c == Char.ofNat 12

/-- `str.strip()` -/
def pyStrip (cs : List Char) : List Char :=
  ((cs.dropWhile isPySpace).reverse.dropWhile isPySpace).reverse

/-- `str.split('=')` -/
def splitEq : List Char → List (List Char)
  | [] => [[]]
  | c :: r =>
    if c == '=' then [] :: splitEq r
    else match splitEq r with
      | [] => [[c]]
      | h :: t => (c :: h) :: t

/-- an argparse action as far as `set_options_from_config` looks at it -/
structure Action where
  dest : String
  isFloat : Bool := false                    -- `type=float`
  choices : Option (List String) := Option.none
  deriving Repr

/-- the actions of simulate.py's parser (plus argparse's own `help`) -/
def simulateActions : List Action :=
  [{ dest := "help" }, { dest := "input" }, { dest := "strategy", choices := some STRATEGIES },
   { dest := "margin", isFloat := true }, { dest := "strategy_option" }, { dest := "cost_calc" },
   { dest := "cost_parameters_file" }, { dest := "visual" }, { dest := "eta" }, { dest := "output" },
   { dest := "save_timeseries" }, { dest := "save_results" }, { dest := "save_soc" },
   { dest := "skip_flex_report" }, { dest := "testing" }, { dest := "config" }]

/-- `action.type(v_item)` for `type=float`, then `check._check_value(action, v_item)` -/
def checkItem (a : Action) (v : J) : R Unit := do
  let v ← if a.isFloat then (match v with
      | .int i => (.ok (.flt i) : R J)
      | .flt q => .ok (.flt q)
      | .bool b => .ok (.flt (if b then 1 else 0))
      | .str s => (match parseDecimal s with | some q => .ok (.flt q) | Option.none => .error .value)
      | .dstr s _ => (match parseDecimal s with | some q => .ok (.flt q) | Option.none => .error .value)
      | _ => .error .type) else .ok v
  match a.choices with
  | Option.none => .ok ()
  | some cs => match v with
    | .str s => if cs.contains s then .ok () else .error .argument
    | .dstr s _ => if cs.contains s then .ok () else .error .argument
    | _ => .error .argument

/-- the body of `for line in f:` - `parsed` is what `json.loads` returns for the stripped text after
the `=` (`none`: ValueError, the text itself is the value). Result: `none` = line skipped,
`some (k, v)` = `vars(args)[k] = v`. `actions = none`: called without `check`. -/
def cfgLine (actions : Option (List Action)) (line : List Char) (parsed : Option J) :
    R (Option (String × J)) := do
  let line := pyStrip line
  if line.head? == some '#' then .ok Option.none
  else if line.isEmpty then .ok Option.none
  else match splitEq line with
    | [k, v] =>
      let k := String.ofList (pyStrip k)
      let v : J := match parsed with
        | some j => j
        | Option.none => .str (String.ofList (pyStrip v))
      match actions with
      | Option.none => .ok (some (k, v))
      | some acts =>
        match acts.find? (fun a => a.dest == k) with
        | Option.none => .error .other           -- `raise Exception(f"Unknown option {k}")`
        | some a => do
          let items := match v with | .arr xs => xs | x => [x]
          let _ ← items.mapM (checkItem a)
          .ok (some (k, v))
    | _ => .error .value                       -- `k, v = line.split('=')` cannot unpack

end SpiceEv.ScenarioCtor
