/-
C07 — frame of the `peak_shaving` strategy's own step (`PeakShaving.step`, `PeakShaving.stepGc`,
Model/StratPeakShaving.lean) with respect to the state that events set on a grid connector: the invariant
`Keeps.Inv S gcs0` (Proofs/C07Keeps.lean) is threaded through every function of the model that returns / updates a
world or the connector record of the accumulator `Acc`.  Purely structural, instance-free (the typeclass context is the
one of the model's section: plain operations, no algebraic / order axioms), no extra hypotheses.

The apply pass books `acc.gc.addLoad (vi.veh.cs.getD "None") avg`: the key is the station of the *simulated* vehicle of
a planning entry (`VInfo`).  That it is the id of a charging station of the world (never `"None"`, never a foreign
name) is a property of the forecast: every entry of `vehicle_arrivals` is created either for a vehicle standing at a
station of the world (`initialArrivals`) or by an arrival event whose `connected_charging_station` is a station of the
world (`applyEvent`), and the later passes change neither `veh.cs` (`scaleVehicle` only `desiredSoc`).  This is the
predicate `CsIn S vi` threaded through `initialArrivals`, `applyEvent`, `peek`, `lookAhead`, `forecast`,
`orderVehicles`, `scaleVehicle`, `adjustVehicle`, `adjustAll`.

Covered (one lemma each): `initialArrivals`, `applyEvent`, `peek`, `lookAhead`, `forecast`, `orderVehicles`
(`insertBy`, `isort`), `scaleVehicle`, `adjustVehicle`, `adjustAll` (for `CsIn`); `applyVehicles`, `applyPass`,
`batteryStep`, the battery fold, `stepGc`, `step` (for `Inv` / `AccInv`).
(`fastCharge`, `fcLoop`, `fcCharge`, `batteryPlan`, the bisections, `applyBattery`, `offerSurplus` return numbers /
battery values only.)
-/
import SpiceEv.Proofs.C07Keeps
import SpiceEv.Model.StratPeakShaving
set_option linter.unusedSectionVars false
set_option linter.unusedSimpArgs false
set_option linter.unusedVariables false
namespace SpiceEv
namespace Keeps
namespace PeakShaving
open SpiceEv.PeakShaving

variable {α B : Type} [Add α] [Sub α] [Mul α] [Div α] [Neg α] [LT α] [LE α]
  [DecidableLT α] [DecidableLE α] [OfNat α 0] [OfNat α 1] [NatCast α] [IntCast α]
variable {S : String → Bool} {gcs0 : List (GcS α)}

/-! ### the station of a planning entry is a station name -/

/-- the simulated vehicle of a planning entry is connected to a station whose name is in `S` -/
def CsIn (S : String → Bool) (vi : VInfo α B) : Prop := ∃ c, vi.veh.cs = some c ∧ S c = true

theorem mem_insertBy {β : Type} (le : β → β → Bool) (x a : β) (l : List β) (h : a ∈ insertBy le x l) :
    a = x ∨ a ∈ l := by
  induction l with
  | nil => simp only [insertBy, List.mem_singleton] at h; exact Or.inl h
  | cons y ys ih =>
    simp only [insertBy] at h
    split at h
    · rcases List.mem_cons.mp h with h | h
      · exact Or.inl h
      · exact Or.inr h
    · rcases List.mem_cons.mp h with h | h
      · exact Or.inr (h ▸ List.mem_cons_self ..)
      · rcases ih h with h | h
        · exact Or.inl h
        · exact Or.inr (List.mem_cons_of_mem _ h)

theorem mem_isort {β : Type} (le : β → β → Bool) (a : β) (l : List β) (h : a ∈ isort le l) : a ∈ l := by
  induction l with
  | nil => simp only [isort] at h; cases h
  | cons y ys ih =>
    simp only [isort] at h
    rcases mem_insertBy le y a _ h with h | h
    · exact h ▸ List.mem_cons_self ..
    · exact List.mem_cons_of_mem _ (ih h)

theorem forall_modify {β : Type} (P : β → Prop) (f : β → β) (hf : ∀ a, P a → P (f a)) :
    ∀ (l : List β) (i : Nat), (∀ a ∈ l, P a) → ∀ a ∈ l.modify i f, P a := by
  intro l
  induction l with
  | nil => intro i h a ha; simp at ha
  | cons x xs ih =>
    intro i h a ha
    cases i with
    | zero =>
      simp only [List.modify_zero_cons] at ha
      rcases List.mem_cons.mp ha with rfl | ha
      · exact hf _ (h x (List.mem_cons_self ..))
      · exact h a (List.mem_cons_of_mem _ ha)
    | succ i =>
      simp only [List.modify_succ_cons] at ha
      rcases List.mem_cons.mp ha with rfl | ha
      · exact h _ (List.mem_cons_self ..)
      · exact ih i (fun b hb => h b (List.mem_cons_of_mem _ hb)) a ha

theorem forall_snoc {β : Type} (P : β → Prop) (l : List β) (x : β) (h : ∀ a ∈ l, P a) (hx : P x) :
    ∀ a ∈ l ++ [x], P a := by
  intro a ha
  rcases List.mem_append.mp ha with ha | ha
  · exact h a ha
  · simp only [List.mem_singleton] at ha; subst ha; exact hx

theorem initialArrivals_cs (env : Env α) (w : SWorld α B) (hi : Inv S gcs0 w) (gcId : String)
    (vs : List (VehicleS α B)) (present present' : List (String × Nat)) (arr arr' : List (VInfo α B))
    (ha : ∀ vi ∈ arr, CsIn S vi)
    (h : initialArrivals env w gcId vs present arr = .ok (present', arr')) : ∀ vi ∈ arr', CsIn S vi := by
  induction vs generalizing present arr with
  | nil =>
    simp only [initialArrivals, Except.ok.injEq, Prod.mk.injEq] at h
    obtain ⟨_, rfl⟩ := h
    exact ha
  | cons v rest ih =>
    unfold initialArrivals at h
    split at h
    · exact ih _ _ ha h
    · rename_i csId hcsv
      split at h
      · cases h
      · rename_i cs hcs
        split at h
        · refine ih _ _ ?_ h
          exact forall_snoc _ _ _ ha ⟨csId, hcsv, hi.S_of_station? hcs⟩
        · exact ih _ _ ha h

theorem applyEvent_cs (ops : Ops α B) (env : Env α) (w : SWorld α B) (hi : Inv S gcs0 w) (gcId : String)
    (tIdx : Int) (st st' : Look α B) (e : Ev α) (ha : ∀ vi ∈ st.arrivals, CsIn S vi)
    (h : applyEvent ops env w gcId tIdx st e = .ok st') : ∀ vi ∈ st'.arrivals, CsIn S vi := by
  cases e with
  | gen s gc name value =>
    simp only [applyEvent] at h
    split at h <;> (simp only [Except.ok.injEq] at h; subst h; exact ha)
  | load s gc name value =>
    simp only [applyEvent] at h
    split at h <;> (simp only [Except.ok.injEq] at h; subst h; exact ha)
  | signal s gc mp =>
    simp only [applyEvent] at h
    split at h
    · simp only [Except.ok.injEq] at h; subst h; exact ha
    · split at h <;> (simp only [Except.ok.injEq] at h; subst h; exact ha)
  | departure s vid =>
    simp only [applyEvent] at h
    simp only [Except.ok.injEq] at h
    subst h
    simp only
    split
    · simp only
      exact forall_modify (CsIn S) (fun a => { a with departIdx := some tIdx }) (fun a ha => ha) _ _ ha
    · exact ha
  | arrival s vid cs desired socDelta etd =>
    simp only [applyEvent] at h
    split at h
    · simp only [Except.ok.injEq] at h; subst h; exact ha
    · rename_i csId
      split at h
      · simp only [Except.ok.injEq] at h; subst h; exact ha
      · split at h
        · split at h
          · simp only [Except.ok.injEq] at h; subst h; exact ha
          · rename_i station hst
            split at h
            · split at h
              · cases h
              · simp only [Except.ok.injEq] at h
                subst h
                simp only
                exact forall_snoc _ _ _ ha ⟨csId, rfl, hi.S_of_station? hst⟩
            · simp only [Except.ok.injEq] at h; subst h; exact ha
        · cases h
  | other s =>
    simp only [applyEvent, Except.ok.injEq] at h
    subst h
    exact ha

theorem peek_cs (ops : Ops α B) (env : Env α) (w : SWorld α B) (hi : Inv S gcs0 w) (gcId : String)
    (tIdx curTime : Int) (evs evs' : List (Ev α)) (st st' : Look α B) (ha : ∀ vi ∈ st.arrivals, CsIn S vi)
    (h : peek ops env w gcId tIdx curTime evs st = .ok (evs', st')) : ∀ vi ∈ st'.arrivals, CsIn S vi := by
  induction evs generalizing st with
  | nil =>
    simp only [peek, Except.ok.injEq, Prod.mk.injEq] at h
    obtain ⟨_, rfl⟩ := h
    exact ha
  | cons e rest ih =>
    unfold peek at h
    split at h
    · simp only [Except.ok.injEq, Prod.mk.injEq] at h
      obtain ⟨_, rfl⟩ := h
      exact ha
    · split at h
      · cases h
      · rename_i st1 hst1
        exact ih st1 (applyEvent_cs ops env w hi gcId tIdx _ _ e ha hst1) h

theorem lookAhead_cs (ops : Ops α B) (env : Env α) (w : SWorld α B) (hi : Inv S gcs0 w) (gcId : String)
    (k : Nat) (tIdx : Int) (evs : List (Ev α)) (st st' : Look α B) (acc ts : List (TS α))
    (ha : ∀ vi ∈ st.arrivals, CsIn S vi)
    (h : lookAhead ops env w gcId k tIdx evs st acc = .ok (st', ts)) : ∀ vi ∈ st'.arrivals, CsIn S vi := by
  induction k generalizing tIdx evs st acc with
  | zero =>
    simp only [lookAhead, Except.ok.injEq, Prod.mk.injEq] at h
    obtain ⟨rfl, _⟩ := h
    exact ha
  | succ k ih =>
    unfold lookAhead at h
    split at h
    · cases h
    · rename_i evs1 st1 hp
      exact ih (tIdx + 1) _ _ _ (peek_cs ops env w hi gcId tIdx _ _ _ _ _ ha hp) h

theorem forecast_cs (ops : Ops α B) (env : Env α) (w : SWorld α B) (hi : Inv S gcs0 w)
    (events : List (Ev α)) (gc : GcS α) (nAhead : Int) (arr : List (VInfo α B)) (ts : List (TS α))
    (h : forecast ops env w events gc nAhead = .ok (arr, ts)) : ∀ vi ∈ arr, CsIn S vi := by
  unfold forecast at h
  split at h
  · cases h
  · rename_i present arr0 hia
    have h0 : ∀ vi ∈ arr0, CsIn S vi :=
      initialArrivals_cs env w hi gc.id w.vehicles [] present [] arr0 (by intro _ hm; cases hm) hia
    split at h
    · cases h
    · rename_i st ts1 hla
      simp only [Except.ok.injEq, Prod.mk.injEq] at h
      obtain ⟨rfl, _⟩ := h
      exact lookAhead_cs ops env w hi gc.id _ 0 _ _ _ _ _ h0 hla

theorem orderVehicles_cs (nAhead : Int) (arr : List (VInfo α B)) (ha : ∀ vi ∈ arr, CsIn S vi) :
    ∀ vi ∈ orderVehicles nAhead arr, CsIn S vi := by
  intro vi hvi
  unfold orderVehicles at hvi
  exact ha vi (List.mem_of_mem_filter (mem_isort _ _ _ hvi))

theorem scaleVehicle_cs (ops : Ops α B) (nAhead : Int) (vi vi' : VInfo α B) (energyNeeded : α) (d d' : Int)
    (hv : CsIn S vi) (h : scaleVehicle ops nAhead vi energyNeeded d = .ok (vi', d')) : CsIn S vi' := by
  unfold scaleVehicle at h
  split at h
  · split at h
    · cases h
    · simp only [Except.ok.injEq, Prod.mk.injEq] at h
      obtain ⟨rfl, _⟩ := h
      exact hv
  · simp only [Except.ok.injEq, Prod.mk.injEq] at h
    obtain ⟨rfl, _⟩ := h
    exact hv

theorem adjustVehicle_cs (ops : Ops α B) (env : Env α) (w : SWorld α B) (gcCurMax : α) (nAhead : Int)
    (ts ts' : List (TS α)) (vi vi' : VInfo α B) (d : Int) (hv : CsIn S vi)
    (h : adjustVehicle ops env w gcCurMax nAhead ts vi d = .ok (ts', vi')) : CsIn S vi' := by
  unfold adjustVehicle at h
  simp only at h
  split at h
  · split at h
    · cases h
    · split at h
      · cases h
      · split at h
        · cases h
        · simp only [Except.ok.injEq, Prod.mk.injEq] at h
          obtain ⟨_, rfl⟩ := h
          exact hv
  · split at h
    · cases h
    · rename_i vi1 d1 hsc
      have h1 := scaleVehicle_cs ops nAhead vi vi1 _ d d1 hv hsc
      split at h
      · cases h
      · simp only [Except.ok.injEq, Prod.mk.injEq] at h
        obtain ⟨_, rfl⟩ := h
        exact h1

theorem adjustAll_cs (ops : Ops α B) (env : Env α) (w : SWorld α B) (gcCurMax : α) (nAhead : Int)
    (vs : List (VInfo α B)) (ts ts' : List (TS α)) (done done' : List (VInfo α B))
    (hvs : ∀ vi ∈ vs, CsIn S vi) (hd : ∀ vi ∈ done, CsIn S vi)
    (h : adjustAll ops env w gcCurMax nAhead vs ts done = .ok (ts', done')) : ∀ vi ∈ done', CsIn S vi := by
  induction vs generalizing ts done with
  | nil =>
    simp only [adjustAll, Except.ok.injEq, Prod.mk.injEq] at h
    obtain ⟨_, rfl⟩ := h
    exact hd
  | cons vi rest ih =>
    have hrest : ∀ x ∈ rest, CsIn S x := fun x hx => hvs x (List.mem_cons_of_mem _ hx)
    unfold adjustAll at h
    split at h
    · exact ih _ _ hrest hd h
    · rename_i d _
      split at h
      · cases h
      · rename_i ts1 vi1 hadj
        refine ih _ _ hrest ?_ h
        exact forall_snoc _ _ _ hd
          (adjustVehicle_cs ops env w gcCurMax nAhead _ _ vi vi1 d (hvs vi (List.mem_cons_self ..)) hadj)

/-! ### the accumulator of the apply pass and the battery pass -/

/-- the invariant of the accumulator `⟨world, gc, cmds⟩`: the world satisfies `Inv`, the separate connector record
carries the key of a connector before the step -/
def AccInv (S : String → Bool) (gcs0 : List (GcS α)) (acc : Acc α B) : Prop :=
  Inv S gcs0 acc.world ∧ gcKey S acc.gc ∈ gcs0.map (gcKey S)

theorem applyVehicles_inv (ops : Ops α B) (s0 : α) (vs : List (VInfo α B)) (used : α) (acc acc' : Acc α B)
    (hvs : ∀ vi ∈ vs, CsIn S vi) (hi : AccInv S gcs0 acc)
    (h : applyVehicles ops s0 vs used acc = .ok acc') : AccInv S gcs0 acc' := by
  induction vs generalizing used acc with
  | nil =>
    simp only [applyVehicles, Except.ok.injEq] at h
    subst h
    exact hi
  | cons vi rest ih =>
    have hrest : ∀ x ∈ rest, CsIn S x := fun x hx => hvs x (List.mem_cons_of_mem _ hx)
    unfold applyVehicles at h
    split at h
    · exact ih _ _ hrest hi h
    · split at h
      · cases h
      · split at h
        · split at h
          · cases h
          · rename_i v hv
            split at h
            · cases h
            · rename_i bat' avg hl
              simp only at h
              refine ih _ _ hrest ?_ h
              obtain ⟨c, hc, hSc⟩ := hvs vi (List.mem_cons_self ..)
              have hk : S (vi.veh.cs.getD "None") = true := by rw [hc]; exact hSc
              refine ⟨hi.1.setVehicle _, ?_⟩
              show gcKey S (acc.gc.addLoad (vi.veh.cs.getD "None") avg).1 ∈ gcs0.map (gcKey S)
              rw [gcKey_addLoad S acc.gc _ avg hk]
              exact hi.2
        · exact ih _ _ hrest hi h

theorem applyPass_inv (ops : Ops α B) (w : SWorld α B) (gc : GcS α) (ts : List (TS α))
    (vehicles : List (VInfo α B)) (acc : Acc α B) (hvs : ∀ vi ∈ vehicles, CsIn S vi)
    (hi : Inv S gcs0 w) (hg : gcKey S gc ∈ gcs0.map (gcKey S))
    (h : applyPass ops w gc ts vehicles = .ok acc) : AccInv S gcs0 acc := by
  unfold applyPass at h
  split at h
  · split at h
    · cases h
    · exact applyVehicles_inv ops _ vehicles 0 ⟨w, gc, []⟩ acc hvs ⟨hi, hg⟩ h
  · simp only [Except.ok.injEq] at h
    subst h
    exact ⟨hi, hg⟩

theorem batteryStep_inv (ops : Ops α B) (env : Env α) (nAhead : Int) (gcId : String)
    (st st' : Acc α B × List (TS α)) (b0 : StatBatS α B) (hi : AccInv S gcs0 st.1)
    (h : batteryStep ops env nAhead gcId st b0 = .ok st') : AccInv S gcs0 st'.1 := by
  unfold batteryStep at h
  split at h
  · simp only [Except.ok.injEq] at h; subst h; exact hi
  · split at h
    · simp only [Except.ok.injEq] at h; subst h; exact hi
    · rename_i b hb
      have hS : S b.id = true := hi.1.S_of_battery (mem_of_find? hb)
      split at h
      · cases h
      · simp only at h
        split at h
        · cases h
        · split at h
          · cases h
          · rename_i bat' p hap
            simp only [Except.ok.injEq] at h
            subst h
            refine ⟨hi.1.setBattery _ hS, ?_⟩
            show gcKey S (st.1.gc.addLoad b.id p).1 ∈ gcs0.map (gcKey S)
            rw [gcKey_addLoad S st.1.gc b.id p hS]
            exact hi.2

/-! ### `step_gc` and `step` -/

/-- **peak_shaving, one connector.**  `step_gc` keeps the invariant: ids, limits, costs and non-station entries of
the connectors. -/
theorem stepGc_inv (ops : PeakShaving.Ops α B) (env : PeakShaving.Env α) (events : List (PeakShaving.Ev α))
    (w w' : SWorld α B) (gc : GcS α) (cmds : List (String × α)) (fc : List α)
    (hi : Inv S gcs0 w) (hg : gcKey S gc ∈ gcs0.map (gcKey S))
    (h : PeakShaving.stepGc ops env events w gc = .ok (w', cmds, fc)) : Inv S gcs0 w' := by
  unfold stepGc at h
  split at h
  · cases h
  · rename_i nAhead hn
    split at h
    · cases h
    · rename_i arr ts0 hfc
      have harr := orderVehicles_cs nAhead arr (forecast_cs ops env w hi events gc nAhead arr ts0 hfc)
      split at h
      · cases h
      · rename_i ts vehicles hadj
        have hveh := adjustAll_cs ops env w gc.curMax nAhead _ _ _ _ _ harr (by intro _ hm; cases hm) hadj
        split at h
        · cases h
        · rename_i acc1 hap
          have i1 : AccInv S gcs0 acc1 := applyPass_inv ops w gc ts vehicles acc1 hveh hi hg hap
          split at h
          · cases h
          · rename_i acc2 ts2 hfold
            simp only [Except.ok.injEq, Prod.mk.injEq] at h
            obtain ⟨rfl, -, -⟩ := h
            have i2 : AccInv S gcs0 acc2 :=
              foldlM_inv _ (fun (st : Acc α B × List (TS α)) => AccInv S gcs0 st.1)
                (fun st b0 st' hst hf => batteryStep_inv ops env nAhead gc.id st st' b0 hst hf)
                w.batteries (acc1, ts) (acc2, ts2) i1 hfold
            exact i2.1.setGc _ i2.2

/-- **peak_shaving.**  The step keeps the invariant: ids, limits, costs and non-station entries of the connectors. -/
theorem step_inv (ops : PeakShaving.Ops α B) (env : PeakShaving.Env α) (events : List (PeakShaving.Ev α))
    (w w' : SWorld α B) (cmds : List (String × α)) (sched : List α)
    (hi : Inv S gcs0 w) (h : PeakShaving.step ops env events w = .ok (w', cmds, sched)) : Inv S gcs0 w' := by
  unfold PeakShaving.step at h
  refine foldlM_inv _ (fun (st : SWorld α B × List (String × α) × List α) => Inv S gcs0 st.1) ?_
    w.gcs (w, [], []) (w', cmds, sched) hi h
  intro st g0 st' hst hf
  split at hf
  · simp only [Except.ok.injEq] at hf; subst hf; exact hst
  · rename_i gc hgc
    simp only [bind, Except.bind] at hf
    split at hf
    · cases hf
    · rename_i r hr
      obtain ⟨w1, cmds1, sched1⟩ := r
      simp only [Except.ok.injEq] at hf
      subst hf
      exact stepGc_inv ops env events st.1 w1 gc cmds1 sched1 hst (hst.key_of_gc? hgc) hr

theorem step_keeps (ops : PeakShaving.Ops α B) (env : PeakShaving.Env α) (events : List (PeakShaving.Ev α))
    (w w' : SWorld α B) (cmds : List (String × α)) (sched : List α)
    (h : PeakShaving.step ops env events w = .ok (w', cmds, sched)) : GcKeeps (sbName w) w.gcs w'.gcs :=
  (step_inv ops env events w w' cmds sched (Inv.init w) h).keeps

end PeakShaving
end Keeps
end SpiceEv
