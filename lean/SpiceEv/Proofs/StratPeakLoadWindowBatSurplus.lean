/-
Stationary batteries of `peak_load_window` when a generation surplus is left after the vehicle hand-out (PLW2): the
second battery loop then asks each charging / idle battery for its planned power PLUS the surplus that is still in
`gc_loads`, and writes the real average back into `gc_loads` before the next battery.  With a battery that delivers
`min(target, feasible)` (`LoadMin`) the total of `gc_loads` rises monotonically but never above 0, and the connector
ends exactly at that total.
-/
import SpiceEv.Proofs.StratPeakLoadWindowBat
set_option linter.unusedSectionVars false
set_option linter.unusedSimpArgs false
set_option linter.unusedVariables false
namespace SpiceEv.PeakLoadWindow
open SpiceEv
variable {α B : Type} [Field α] [LinearOrder α] [IsStrictOrderedRing α]

theorem tot_sdSet (G : List (String × α)) (k : String) (v : Option α) (x : α) (h : sdGet G k = v) :
    tot (sdSet G k x) = tot G - val v + x := by
  cases v with
  | none => rw [sdSet_absent _ _ _ h, tot_append]; simp [val]
  | some y =>
    simp only [val]
    induction G with
    | nil => simp [sdGet] at h
    | cons z zs ih =>
      obtain ⟨zk, zv⟩ := z
      unfold sdGet at h
      unfold sdSet
      split at h
      · rename_i he
        simp only [Option.some.injEq] at h
        subst h
        simp only [he, if_true, tot, List.map_cons, List.sum_cons]
        ring
      · rename_i hne
        simp only [hne, if_false, Bool.false_eq_true]
        have := ih h
        simp only [tot, List.map_cons, List.sum_cons] at this ⊢
        rw [this]; ring

/-- one pass of the second battery loop, with or without surplus left in `gc_loads`: the connector gets the new value
`nv`, `gc_loads[b]` is replaced by it; without surplus `nv` is the simulated value, with surplus it is at least that and
fills the surplus at most up to 0 -/
theorem applyBattery_spec2 (ops : BatOps α B) (law : BatLaw ops) (lmin : LoadMin ops) (env : PEnv α)
    (hsum : ∀ l, env.sum l = l.sum) (b : StatBatS α B) (pw : α) (v : Option α) (hag : Agree ops b pw v)
    (info : List (String × α)) (hinfo : sdGet info b.id = some pw) (gc gc' : GcS α) (G G' : List (String × α))
    (done done' : List (StatBatS α B)) (hG : sdGet G b.id = v)
    (h : applyBattery ops env info (gc, G, done) b = .ok (gc', G', done')) :
    ∃ nv, gc'.currentLoad = gc.currentLoad + nv ∧ gc'.curMax = gc.curMax ∧ gc'.id = gc.id ∧
      tot G' = tot G - val v + nv ∧ (∀ k, b.id ≠ k → sdGet G' k = sdGet G k) ∧
      (0 ≤ tot G → nv = val v) ∧ (tot G < 0 → val v ≤ nv ∧ tot G - val v + nv ≤ 0) := by
  rcases le_or_gt 0 (tot G) with h0 | hneg
  · -- no surplus: exact replay
    obtain ⟨c1, c2, c3, c4, c5⟩ := applyBattery_spec ops env hsum b pw v hag info hinfo gc gc' G G' done done' hG h0 h
    exact ⟨val v, c1, c2, c3, by rw [c4]; ring, c5, fun _ => rfl, fun hn => absurd h0 (not_le.mpr hn)⟩
  · have hS : sumLoads env G = tot G := by unfold sumLoads tot; rw [hsum]
    unfold applyBattery at h
    simp only [hinfo, hS, pymin_eq, min_eq_left hneg.le] at h
    split at h
    · rename_i hpw
      split at h
      · rename_i hmin
        obtain ⟨x, hx, h⟩ := bind_ok h
        obtain ⟨bat', avg⟩ := x
        simp only [Except.ok.injEq, Prod.mk.injEq] at h
        obtain ⟨rfl, rfl, rfl⟩ := h
        have hl := law.load_target _ _ _ _ hx
        have hpos : 0 ≤ pw - tot G := by linarith
        rw [max_eq_left hpos] at hl
        obtain ⟨a1, a2, a3, _⟩ := addLoad_currentLoad gc b.id avg
        have hv : val v ≤ avg ∧ avg - val v ≤ -tot G := by
          rcases hag.up hpw with ⟨e1, e2⟩ | ⟨b1, hb1⟩
          · rw [e2]; rw [e1] at hl; exact ⟨hl.1, by linarith [hl.2]⟩
          · obtain ⟨b2, hb2⟩ := lmin _ _ _ _ _ hpw (by linarith) hx
            rw [hb2] at hb1
            simp only [Except.ok.injEq, Prod.mk.injEq] at hb1
            rw [← hb1.2]
            refine ⟨min_le_right _ _, ?_⟩
            rcases le_total pw avg with hpa | hpa
            · rw [min_eq_left hpa]; linarith [hl.2]
            · rw [min_eq_right hpa]; linarith
        refine ⟨avg, a1, a2, a3, tot_sdSet G b.id v avg hG, fun k hk => sdGet_sdSet_ne _ _ _ _ hk,
          fun h0 => absurd h0 (not_le.mpr hneg), fun _ => ⟨hv.1, by linarith [hv.2]⟩⟩
      · rename_i hmin
        simp only [Except.ok.injEq, Prod.mk.injEq] at h
        obtain ⟨rfl, rfl, rfl⟩ := h
        have hz : val v = 0 := hag.idle hpw (fun hm => hmin (by linarith))
        exact ⟨0, by ring, rfl, rfl, by rw [hz]; ring, fun _ _ => rfl,
          fun h0 => absurd h0 (not_le.mpr hneg), fun _ => ⟨by rw [hz], by rw [hz]; linarith⟩⟩
    · rename_i hpw
      obtain ⟨x, hx, h⟩ := bind_ok h
      obtain ⟨bat', avg⟩ := x
      simp only [Except.ok.injEq, Prod.mk.injEq] at h
      obtain ⟨rfl, rfl, rfl⟩ := h
      have e := hag.discharge bat' avg (not_le.mp hpw) hx
      obtain ⟨a1, a2, a3, _⟩ := addLoad_currentLoad gc b.id (-avg)
      refine ⟨-avg, a1, a2, a3, tot_sdSet G b.id v (-avg) hG, fun k hk => sdGet_sdSet_ne _ _ _ _ hk,
        fun _ => e, fun _ => ⟨by rw [e], by rw [e]; linarith⟩⟩

theorem applyBatteries_spec2 (ops : BatOps α B) (law : BatLaw ops) (lmin : LoadMin ops) (env : PEnv α)
    (hsum : ∀ l, env.sum l = l.sum) (info : List (String × α)) :
    ∀ (tr : Tr α B) (gc gc' : GcS α) (G G' : List (String × α)) (done done' : List (StatBatS α B)),
      (tr.map (·.1.id)).Nodup → (∀ x ∈ tr, Agree ops x.1 x.2.1 x.2.2) →
      (∀ x ∈ tr, sdGet info x.1.id = some x.2.1) → (∀ x ∈ tr, sdGet G x.1.id = x.2.2) →
      (tr.map (·.1)).foldlM (applyBattery ops env info) (gc, G, done) = .ok (gc', G', done') →
      gc'.currentLoad = gc.currentLoad + (tr.map (fun x => val x.2.2)).sum + (tot G' - tot G) ∧
        gc'.curMax = gc.curMax ∧ gc'.id = gc.id ∧ tot G ≤ tot G' ∧ tot G' ≤ max (tot G) 0 := by
  intro tr
  induction tr with
  | nil =>
    intro gc gc' G G' done done' _ _ _ _ h
    simp only [List.map_nil, List.foldlM_nil, pure, Except.pure, Except.ok.injEq, Prod.mk.injEq] at h
    obtain ⟨rfl, rfl, _⟩ := h
    simp
  | cons y rest ih =>
    intro gc gc' G G' done done' hnd hag hinfo hG h
    simp only [List.map_cons, List.foldlM_cons] at h
    obtain ⟨st, hst, h2⟩ := bind_ok h
    obtain ⟨gc1, G1, done1⟩ := st
    simp only [List.map_cons, List.nodup_cons] at hnd
    obtain ⟨nv, c1, c2, c3, c4, c5, c6, c7⟩ := applyBattery_spec2 ops law lmin env hsum y.1 y.2.1 y.2.2
      (hag y (by simp)) info (hinfo y (by simp)) gc gc1 G G1 done done1 (hG y (by simp)) hst
    have hne : ∀ x ∈ rest, y.1.id ≠ x.1.id := fun x hx e => hnd.1 (by
      rw [e]; exact List.mem_map_of_mem (f := fun x : StatBatS α B × α × Option α => x.1.id) hx)
    obtain ⟨d1, d2, d3, d4, d5⟩ := ih gc1 gc' G1 G' done1 done' hnd.2
      (fun x hx => hag x (List.mem_cons_of_mem _ hx)) (fun x hx => hinfo x (List.mem_cons_of_mem _ hx))
      (fun x hx => by rw [c5 _ (hne x hx)]; exact hG x (List.mem_cons_of_mem _ hx)) h2
    have hstep : tot G ≤ tot G1 ∧ tot G1 ≤ max (tot G) 0 := by
      rcases le_or_gt 0 (tot G) with h0 | hn
      · rw [c4, c6 h0, max_eq_left h0]; constructor <;> linarith
      · obtain ⟨e1, e2⟩ := c7 hn
        rw [c4, max_eq_right hn.le]; constructor <;> linarith
    refine ⟨?_, by rw [d2, c2], by rw [d3, c3], le_trans hstep.1 d4, ?_⟩
    · rw [d1, c1]
      simp only [List.map_cons, List.sum_cons]
      rw [c4]; ring
    · refine le_trans d5 (max_le (le_trans hstep.2 (le_refl _)) (le_max_right _ _))

/-- one `step_gc` call with stationary batteries, with or without a generation surplus -/
theorem stepGc_limit_bat2 (ops : BatOps α B) (law : BatLaw ops) (idem : LoadIdem ops) (lmin : LoadMin ops)
    (env : PEnv α)
    (hi : 0 < env.interval) (hsum : ∀ l, env.sum l = l.sum) (w : PWorld α B) (g : PGc α) (level : String)
    (w' : PWorld α B) (cmds : List (String × α))
    (hbid : ((w.batteries.filter (fun b => b.parent == g.gc.id)).map (·.id)).Nodup)
    (hbkey : ∀ b ∈ w.batteries, (b.parent == g.gc.id) = true → sdGet g.gc.loads b.id = none)
    (hbcs : ∀ b ∈ w.batteries, (b.parent == g.gc.id) = true → ∀ pv ∈ w.vehicles, pv.v.cs ≠ some b.id)
    (hbmin : ∀ b ∈ w.batteries, (b.parent == g.gc.id) = true → 0 ≤ b.minChargingPower)
    (hpk0 : 0 ≤ g.peak)
    (hcm : 0 ≤ g.gc.curMax) (hlim : g.gc.currentLoad ≤ g.gc.curMax)
    (h : stepGc ops env w g level = .ok (w', cmds)) :
    ∀ g' ∈ w'.gcs, g'.gc.id = g.gc.id →
      g'.gc.curMax = g.gc.curMax ∧ min g.gc.currentLoad 0 ≤ g'.gc.currentLoad ∧
        g'.gc.currentLoad ≤ g.gc.curMax := by
  have hbase : sumLoads env g.gc.loads = g.gc.currentLoad := by
    unfold sumLoads; rw [hsum, currentLoad_eq_sum]
  unfold stepGc at h
  simp only at h
  set bats := w.batteries.filter (fun b => b.parent == g.gc.id) with hbats
  have hbm : ∀ b ∈ bats, b ∈ w.batteries ∧ (b.parent == g.gc.id) = true := by
    intro b hb
    rw [hbats, List.mem_filter] at hb
    exact hb
  obtain ⟨r1, hg, h⟩ := bind_ok h
  obtain ⟨vehicles, maxStanding⟩ := r1
  obtain ⟨seasons, _, h⟩ := bind_ok h
  obtain ⟨r2, _, h⟩ := bind_ok h
  obtain ⟨ahead, untilChange⟩ := r2
  simp only [buildTimesteps, List.foldl_nil] at h
  obtain ⟨r3, hp, h⟩ := bind_ok h
  obtain ⟨plans, timesteps, pk⟩ := r3
  obtain ⟨ts0, ht0, h⟩ := bind_ok h
  obtain ⟨r4, hc, h⟩ := bind_ok h
  obtain ⟨w1, gc1, cmds1⟩ := r4
  obtain ⟨r5, h5, h⟩ := bind_ok h
  obtain ⟨L1, info1⟩ := r5
  obtain ⟨r6, h6, h⟩ := bind_ok h
  obtain ⟨gc2, gl2, done⟩ := r6
  simp only [Except.ok.injEq, Prod.mk.injEq] at h
  obtain ⟨rfl, rfl⟩ := h
  -- vehicles
  obtain ⟨s, hps, hs0, hsle, hhead⟩ := planVehicles_sum ops law idem env hi w _ _ _ _ _ _ _
    (by simp only; rw [hbase]; exact hlim) hp
  have hts0 := getAt_zero_head ht0
  rw [hhead] at hts0
  have hp0 : ts0.power = sumLoads env g.gc.loads + s := by rw [← Option.some.inj hts0]
  have hsur0 : 0 ≤ -(pymin ts0.power 0) := by
    rw [pymin_eq]; have := min_le_right ts0.power 0; linarith
  obtain ⟨c, hc0, hcle, c1, c2, c3⟩ := chargeVehicles_sum ops law plans s _ _ _ hsur0 (fun _ => lmin) hps hc
  simp only at c1 c2 c3 hsle
  rw [hbase] at hsle hp0
  rw [pymin_eq] at hcle
  have hS0le : gc1.currentLoad ≤ g.gc.curMax := by
    rw [c1]
    rcases le_total 0 ts0.power with hpos | hneg
    · rw [min_eq_right hpos] at hcle
      have : c = 0 := le_antisymm (by linarith) hc0
      rw [this]; linarith
    · rw [min_eq_left hneg] at hcle
      linarith
  have hS0ge : g.gc.currentLoad ≤ gc1.currentLoad := by rw [c1]; linarith
  -- the plans belong to vehicles of the world
  have hgs := gatherVehicles_spec ops env w g.gc.id vehicles maxStanding hg
  obtain ⟨_, hplans⟩ := planVehicles_spec ops law env w (sumLoads env g.gc.loads) _ _ _ _ _ _
    (fun t ht => by
      simp only [List.head?_cons, Option.some.injEq] at ht
      subst ht
      exact le_refl _) hp
  have hkeys : ∀ b ∈ bats, sdGet gc1.loads b.id = none := by
    intro b hb
    obtain ⟨hbw, hbp⟩ := hbm b hb
    have := chargeVehicles_keys ops b.id plans _ _ _ (fun q hq => by
      obtain ⟨hqs, _⟩ := hplans q hq
      exact hbcs b hbw hbp q.1 (hgs q.1 (mem_sortByKey _ _ _ hqs)).1) hc
    simp only at this
    rw [this]
    exact hbkey b hbw hbp
  -- first battery loop
  have htot1 : tot gc1.loads = gc1.currentLoad := by rw [currentLoad_eq_sum]; rfl
  obtain ⟨tr, t1, t2, t3, t4, t5, t6⟩ := planBatteries_spec ops law env hsum _ (pymin g.peak gc1.curMax) gc1.curMax untilChange
    bats gc1.loads [] L1 info1 hbid hkeys (fun b hb => hbmin b (hbm b hb).1 (hbm b hb).2) h5
  have hnd : (tr.map (·.1.id)).Nodup := by
    have : tr.map (·.1.id) = (tr.map (·.1)).map (·.id) := by simp
    rw [this, t1]; exact hbid
  have hLle : tot gc1.loads ≤ gc1.curMax := by rw [htot1, c2]; exact hS0le
  have hcm0 : 0 ≤ gc1.curMax := by rw [c2]; exact hcm
  have h10 : min gc1.currentLoad 0 ≤ tot L1 :=
    t5 (by rw [pymin_eq]; exact le_min hpk0 hcm0) _ (min_le_right _ _) (by rw [htot1]; exact min_le_left _ _)
  have h1le : tot L1 ≤ gc1.curMax := t6 (by rw [pymin_eq]; exact min_le_right _ _) hLle
  -- second battery loop
  rw [← t1] at h6
  simp only [List.nil_append] at t2
  obtain ⟨hget, _⟩ := sdGet_extAll tr gc1.loads hnd (fun x hx => hkeys x.1 (by
    rw [← t1]; exact List.mem_map_of_mem (f := fun x : StatBatS α B × α × Option α => x.1) hx))
  obtain ⟨d1, d2, d3, d4, d5⟩ := applyBatteries_spec2 ops law lmin env hsum info1 tr gc1 gc2 L1 gl2 [] done hnd t4
    (by rw [t2]; exact sdGet_info tr hnd) (by rw [t3]; exact hget) h6
  have hfin : gc2.currentLoad = tot gl2 := by
    have := tot_extAll tr gc1.loads
    rw [← t3, htot1] at this
    rw [d1, this]; ring
  intro g' hg' hid
  simp only [PWorld.setGc, List.mem_map] at hg'
  obtain ⟨x, _, hx⟩ := hg'
  split at hx
  · subst hx
    simp only
    rw [hfin, d2, c2]
    rw [c2] at h1le
    refine ⟨rfl, ?_, ?_⟩
    · refine le_trans ?_ (le_trans h10 d4)
      exact le_min (le_trans (min_le_left _ _) hS0ge) (min_le_right _ _)
    · exact le_trans d5 (max_le h1le hcm)
  · rename_i hne
    subst hx
    rw [hid] at hne
    simp only [d3, c3, beq_self_eq_true, not_true_eq_false] at hne

end SpiceEv.PeakLoadWindow
