/-
Helper lemmas for the C13 theorems about the flexibility band (SpiceEv/Model/FlexBand.lean) over an
arbitrary linearly ordered field.
-/
import SpiceEv.Proofs.Basic
import SpiceEv.Proofs.EventsConn
import SpiceEv.Model.FlexBand
import Mathlib.Tactic.Linarith
import Mathlib.Algebra.BigOperators.Group.List.Basic
import Mathlib.Algebra.Order.BigOperators.Group.List
import Mathlib.Data.List.Forall2
set_option linter.unusedSectionVars false
set_option linter.unusedSimpArgs false
set_option linter.unusedVariables false
namespace SpiceEv.FlexBand
open SpiceEv SpiceEv.ScheduleGen

/-! ### `Except` plumbing -/

theorem bind_ok {β γ : Type} {x : Py β} {f : β → Py γ} {r : γ} (h : (x >>= f) = .ok r) :
    ∃ a, x = .ok a ∧ f a = .ok r := by
  cases x with
  | error e => simp [bind, Except.bind] at h
  | ok a => exact ⟨a, rfl, by simpa [bind, Except.bind] using h⟩

theorem pure_ok {β : Type} {a b : β} (h : (pure a : Py β) = .ok b) : a = b := by
  simpa [pure, Except.pure] using h

section
variable {α B : Type} [Field α] [LinearOrder α] [IsStrictOrderedRing α]

theorem clamp_bounds (R x : α) (hR : 0 ≤ R) : -R ≤ clampToGc R x ∧ clampToGc R x ≤ R := by
  unfold clampToGc
  simp only [pymin_eq, pymax_eq]
  exact ⟨le_min (le_max_right _ _) (by linarith), min_le_right _ _⟩

theorem clamp_mono (R x y : α) (h : x ≤ y) : clampToGc R x ≤ clampToGc R y := by
  unfold clampToGc
  simp only [pymin_eq, pymax_eq]
  exact min_le_min (max_le_max h le_rfl) le_rfl

/-- what one iteration of the collective loop appends: the row is `clamp_to_gc` of base,
base − battery discharge − V2G, base + vehicle power + battery charge; the two vehicle sums are the
builtin sums over the `vehicles` dict when vehicles are present (inside the core standing time) and
`0` otherwise -/
structure RowSpec (env : Env α B) (stepI : Nat) (r : StepRec α) : Prop where
  base : r.base = clampToGc env.gcMax r.baseFlex
  min : r.min = clampToGc env.gcMax (r.baseFlex - r.batDis - r.v2gFlex)
  max : r.max = clampToGc env.gcMax (r.baseFlex + r.vehFlex + r.batCharge)
  vmin : r.vmin = -r.v2gFlex
  vmax : r.vmax = r.vehFlex
  veh : r.vehFlex = if r.present then env.ops.sumTagged (r.recs.map (fun x => (x.2.power, x.2.powerInt))) else 0
  v2g : r.v2gFlex = if r.present then env.ops.sum (r.recs.map (·.2.v2g)) else 0
  batDis : r.batDis = if stepI = 0 then env.bat.initDischarge else env.bat.fullDischarge
  batCharge : 0 ≤ r.batCharge ∧ (0 ≤ env.bat.power → r.batCharge ≤ env.bat.power)
  out : r.recsOut = if r.prev && !r.present then zeroRecs r.recs else r.recs

theorem supportLoop_lgs_nonneg (eps tsph : α) (recs : List (String × VRec α)) (lgs base : α)
    (h : 0 ≤ lgs) : 0 ≤ (supportLoop eps tsph recs lgs base).2.1 := by
  induction recs generalizing lgs base with
  | nil => simpa [supportLoop] using h
  | cons p rest ih =>
    obtain ⟨vid, r⟩ := p
    unfold supportLoop
    split
    · exact h
    · simp only
      apply ih
      simp only [pymin_eq]
      have : min (min r.power (r.energy * tsph)) lgs ≤ lgs := min_le_right _ _
      linarith

theorem sub_pymin_bounds (P x : α) (hx : 0 ≤ x) : 0 ≤ P - pymin P x ∧ (0 ≤ P → P - pymin P x ≤ P) := by
  simp only [pymin_eq]
  refine ⟨by have := min_le_left P x; linarith, fun hP => ?_⟩
  have : 0 ≤ min P x := le_min hP hx
  linarith

theorem finishBand_spec (env : Env α B) (stepI : Nat) (st st' : LoopState α) (strat : Strat α)
    (inCst : Bool) (base0 : α) (recs0 : List (String × VRec α))
    (h : finishBand env stepI st strat inCst base0 recs0 = .ok st') :
    ∃ r, st'.trace = st.trace ++ [r] ∧ RowSpec env stepI r ∧ r.vehicles = strat.world.vehicles ∧
      st'.recs = r.recsOut ∧ st'.prev = r.present ∧ r.prev = st.prev ∧ st'.strat = strat ∧
      r.inCst = inCst ∧ r.recsIn = st.recs ∧
      r.recs = (if r.present then (supportLoop env.eps env.tsph recs0 (pymax (-base0) 0) base0).1 else recs0) ∧
      r.present = (inCst && decide (0 < (recs0.filter (fun r => !(isZero r.2.power))).length)) ∧
      (∀ iv ∈ st'.intervalsRev, iv ∈ st.intervalsRev ∨
        (r.present = true ∧ iv.needed = env.ops.sum (r.recs.map (·.2.energy)))) := by
  have hl0 : (0 : α) ≤ pymax (-base0) 0 := by simp only [pymax_eq]; exact le_max_right _ _
  unfold finishBand at h
  simp only at h
  split at h
  · rename_i hp
    split at h
    · cases h
    · rename_i info older hivs
      have h := pure_ok h
      subst h
      refine ⟨_, rfl, ?_, rfl, rfl, rfl, rfl, rfl, rfl, rfl, ?_, ?_, ?_⟩
      rotate_left 3
      · intro iv hiv
        simp only [List.mem_cons] at hiv
        rcases hiv with rfl | hiv
        · right; simp [hp]
        · left
          split at hivs
          · rw [hivs]; exact List.mem_cons_of_mem _ hiv
          · simp only [List.cons.injEq] at hivs
            rw [hivs.2]; exact hiv
      · have hb := sub_pymin_bounds env.bat.power _
          (supportLoop_lgs_nonneg env.eps env.tsph recs0 _ base0 hl0)
        exact ⟨by simp [flexRow], by simp [flexRow], by simp [flexRow], by simp, by simp, by simp [hp],
          by simp [hp], by simp, hb, by simp [hp]⟩
      · simp [hp]
      · simp [hp]
  · rename_i hp
    have h := pure_ok h
    subst h
    refine ⟨_, rfl, ?_, rfl, rfl, rfl, rfl, rfl, rfl, rfl, ?_, ?_, fun iv hiv => Or.inl hiv⟩
    · have hb := sub_pymin_bounds env.bat.power _ hl0
      have hp' : (inCst && decide (0 < (List.filter (fun r => !isZero r.2.power) recs0).length)) = false := by
        simpa using hp
      exact ⟨by simp [flexRow], by simp [flexRow], by simp [flexRow], by simp, by simp, by simp [hp'],
        by simp [hp'], by simp, hb, by cases st.prev <;> simp [hp']⟩
    · have hp' : (inCst && decide (0 < (List.filter (fun r => !isZero r.2.power) recs0).length)) = false := by
        simpa using hp
      simp [hp']
    · have hp' : (inCst && decide (0 < (List.filter (fun r => !isZero r.2.power) recs0).length)) = false := by
        simpa using hp
      simp [hp']

/-! ### the vehicle loop -/

/-- hypotheses about the battery operations and the static data (all true for the real objects:
powers, capacities and factors are non-negative, efficiencies positive; `sum` adds up) -/
structure Laws (env : Env α B) : Prop where
  tsph : 0 < env.tsph
  avail : ∀ b p, env.ops.available b = .ok p → 0 ≤ p
  sum : ∀ l, env.ops.sum l = l.sum
  sumTagged : ∀ l, env.ops.sumTagged l = (l.map Prod.fst).sum
  ofInt : ∀ k : Int, env.ops.ofInt k = (k : α)
  vt : ∀ vid vt, alGet? vid env.vtypes = some vt →
    0 ≤ env.ops.loadMax vt.battery ∧ 0 ≤ env.ops.capacity vt.battery ∧
    0 < env.ops.efficiency vt.battery ∧ 0 ≤ vt.v2gFactor

/-- every entry of the `vehicles` dict is non-negative -/
def RecOK (rc : VRec α) : Prop := 0 ≤ rc.power ∧ 0 ≤ rc.energy ∧ 0 ≤ rc.v2g

/-- the vehicle's estimated departure, if any, lies in a step after `stepI` -/
def EtdAhead (env : Env α B) (stepI : Nat) (v : Vehicle α) : Prop :=
  ∀ dep, v.etd = some dep → v.station.isSome → (stepI : Int) < bucketIndex env.start.instant dep env.interval

theorem pydiv_ok_val {a b c : α} (h : pydiv a b = .ok c) : b ≠ 0 ∧ c = a / b := by
  unfold pydiv at h
  split at h
  · cases h
  · rename_i hz
    have : b ≠ 0 := fun hb => hz ((isZero_iff b).mpr hb)
    exact ⟨this, by cases h; rfl⟩

theorem v2gEnergy_nonneg (ops : Ops α B) (vt : VehType α B) (soc g : α)
    (havail : ∀ b p, ops.available b = .ok p → 0 ≤ p) (hf : 0 ≤ vt.v2gFactor)
    (h : v2gEnergy ops vt soc = .ok g) : 0 ≤ g := by
  unfold v2gEnergy at h
  split at h
  · obtain ⟨p, hp, hg⟩ := bind_ok h
    have := pure_ok hg
    subst this
    exact mul_nonneg (havail _ _ hp) hf
  · have := pure_ok h
    subst this
    exact le_rfl

theorem scaledDeltaSoc_nonneg (env : Env α B) (stepI : Nat) (v : Vehicle α) (ds : α)
    (hofInt : ∀ k : Int, env.ops.ofInt k = (k : α)) (hn : stepI ≤ env.n)
    (hetd : ∀ dep, v.etd = some dep → (stepI : Int) < bucketIndex env.start.instant dep env.interval)
    (h : scaledDeltaSoc env stepI v = .ok ds) : 0 ≤ ds := by
  unfold scaledDeltaSoc at h
  simp only at h
  split at h
  · have := pure_ok h
    subst this
    simp only [pymax_eq]; exact le_max_right _ _
  · rename_i dep hdep
    split at h
    · cases h
    · have := pure_ok h
      subst this
      have h1 := hetd dep hdep
      apply mul_nonneg
      · simp only [pymax_eq]; exact le_max_right _ _
      · simp only [pymin_eq, hofInt]
        apply le_min _ zero_le_one
        apply div_nonneg
        · have : (0 : Int) ≤ (env.n : Int) - (stepI : Int) := by omega
          exact_mod_cast this
        · have : (0 : Int) ≤ bucketIndex env.start.instant dep env.interval - (stepI : Int) := by omega
          exact_mod_cast this

theorem register_spec (env : Env α B) (stepI : Nat) (v v' : Vehicle α) (vt : VehType α B)
    (cs : Station α) (old r' : VRec α) (h : register env stepI v vt cs old = .ok (v', r')) :
    v'.station = v.station ∧ v'.etd = v.etd ∧
    (Laws env → (∃ vid, alGet? vid env.vtypes = some vt) → 0 ≤ cs.maxPower → 0 ≤ r'.power ∧ 0 ≤ r'.v2g) ∧
    (Laws env → (∃ vid, alGet? vid env.vtypes = some vt) → 0 ≤ old.energy → stepI ≤ env.n →
      (∀ dep, v.etd = some dep → (stepI : Int) < bucketIndex env.start.instant dep env.interval) →
      0 ≤ r'.energy) := by
  unfold register at h
  obtain ⟨ds, hds, h⟩ := bind_ok h
  obtain ⟨e, he, h⟩ := bind_ok h
  obtain ⟨g, hg, h⟩ := bind_ok h
  have h := pure_ok h
  simp only [Prod.mk.injEq] at h
  obtain ⟨hv, hr⟩ := h
  subst hv; subst hr
  refine ⟨rfl, rfl, ?_, ?_⟩
  · rintro L ⟨vid, hvt⟩ hcs
    obtain ⟨l1, l2, l3, l4⟩ := L.vt vid vt hvt
    exact ⟨(by simp only [pymin_eq]; exact le_min l1 hcs), v2gEnergy_nonneg _ _ _ _ L.avail l4 hg⟩
  · rintro L ⟨vid, hvt⟩ hold hn hetd
    obtain ⟨l1, l2, l3, l4⟩ := L.vt vid vt hvt
    obtain ⟨hne, rfl⟩ := pydiv_ok_val he
    have hds0 := scaledDeltaSoc_nonneg env stepI v ds L.ofInt hn hetd hds
    simp only
    have : 0 ≤ ds * env.ops.capacity vt.battery / env.ops.efficiency vt.battery :=
      div_nonneg (mul_nonneg hds0 l2) l3.le
    linarith

theorem updateVehicle_spec (env : Env α B) (stepI : Nat) (stations : List (String × Station α))
    (vid : String) (v v' : Vehicle α) (old r' : VRec α)
    (h : updateVehicle env stepI stations vid v old = .ok (v', r')) :
    v'.station = v.station ∧ v'.etd = v.etd ∧
    (v.station = none → r'.power = 0 ∧ r'.v2g = 0 ∧ r'.energy = old.energy) ∧
    (Laws env → (∀ id cs, alGet? id stations = some cs → 0 ≤ cs.maxPower) → 0 ≤ old.power → 0 ≤ old.v2g →
      0 ≤ r'.power ∧ 0 ≤ r'.v2g) ∧
    (Laws env → 0 ≤ old.energy → stepI ≤ env.n → (old.power = 0 → EtdAhead env stepI v') → 0 ≤ r'.energy) := by
  unfold updateVehicle at h
  split at h
  · rename_i hst
    have h := pure_ok h
    simp only [Prod.mk.injEq] at h
    obtain ⟨h1, h2⟩ := h
    subst h1; subst h2
    exact ⟨rfl, rfl, (fun _ => ⟨rfl, rfl, rfl⟩), (fun _ _ _ _ => ⟨le_rfl, le_rfl⟩), (fun _ ho _ _ => ho)⟩
  · rename_i csId hst
    split at h
    · cases h
    · rename_i cs hcs
      have keep : (pure (v, old) : Py _) = .ok (v', r') →
          v'.station = v.station ∧ v'.etd = v.etd ∧
          (v.station = none → r'.power = 0 ∧ r'.v2g = 0 ∧ r'.energy = old.energy) ∧
          (Laws env → (∀ id cs, alGet? id stations = some cs → 0 ≤ cs.maxPower) → 0 ≤ old.power → 0 ≤ old.v2g →
            0 ≤ r'.power ∧ 0 ≤ r'.v2g) ∧
          (Laws env → 0 ≤ old.energy → stepI ≤ env.n → (old.power = 0 → EtdAhead env stepI v') → 0 ≤ r'.energy) := by
        intro h
        have h := pure_ok h
        simp only [Prod.mk.injEq] at h
        obtain ⟨h1, h2⟩ := h
        subst h1; subst h2
        exact ⟨rfl, rfl, (fun hn => by rw [hst] at hn; cases hn), (fun _ _ a b => ⟨a, b⟩), (fun _ ho _ _ => ho)⟩
      split at h
      · split at h
        · rename_i hzero
          split at h
          · cases h
          · rename_i vt hvt
            obtain ⟨a, b, c, d⟩ := register_spec env stepI v v' vt cs old r' h
            refine ⟨a, b, (fun hn => by rw [hst] at hn; cases hn), (fun L hs _ _ => c L ⟨vid, hvt⟩ (hs _ _ hcs)),
              (fun L ho hn hetd => d L ⟨vid, hvt⟩ ho hn ?_)⟩
            intro dep hdep
            exact hetd ((isZero_iff _).mp hzero) dep (b ▸ hdep) (by rw [a, hst]; rfl)
        · exact keep h
      · exact keep h

/-- a world vehicle and its entry of the `vehicles` dict after the vehicle loop: same id, and a
vehicle that is not connected (`connected_charging_station is None`) has charging power 0 and V2G
power 0 -/
def VehRec (v : String × Vehicle α) (rc : String × VRec α) : Prop :=
  v.1 = rc.1 ∧ (v.2.station = none → rc.2.power = 0 ∧ rc.2.v2g = 0)

theorem updateVehicles_spec (env : Env α B) (stepI : Nat) (stations : List (String × Station α)) :
    ∀ (vs : List (String × Vehicle α)) (rs : List (String × VRec α))
      (out : List (String × Vehicle α) × List (String × VRec α)),
      updateVehicles env stepI stations vs rs = .ok out →
      List.Forall₂ VehRec out.1 out.2 ∧
      (Laws env → (∀ id cs, alGet? id stations = some cs → 0 ≤ cs.maxPower) →
        (∀ rc ∈ rs, 0 ≤ rc.2.power ∧ 0 ≤ rc.2.v2g) → ∀ rc ∈ out.2, 0 ≤ rc.2.power ∧ 0 ≤ rc.2.v2g) ∧
      (Laws env → stepI ≤ env.n → (∀ rc ∈ rs, 0 ≤ rc.2.energy) →
        (∀ x ∈ out.1.zip rs, x.2.2.power = 0 → EtdAhead env stepI x.1.2) → ∀ rc ∈ out.2, 0 ≤ rc.2.energy) := by
  intro vs
  induction vs with
  | nil =>
    intro rs out h
    unfold updateVehicles at h
    have := pure_ok h
    subst this
    exact ⟨List.Forall₂.nil, (fun _ _ _ rc hrc => by cases hrc), (fun _ _ _ _ rc hrc => by cases hrc)⟩
  | cons p vs ih =>
    intro rs out h
    obtain ⟨vid, v⟩ := p
    cases rs with
    | nil =>
      unfold updateVehicles at h
      have := pure_ok h
      subst this
      exact ⟨List.Forall₂.nil, (fun _ _ _ rc hrc => by cases hrc), (fun _ _ _ _ rc hrc => by cases hrc)⟩
    | cons q rs =>
      obtain ⟨vid', r⟩ := q
      unfold updateVehicles at h
      obtain ⟨x, hx, h⟩ := bind_ok h
      obtain ⟨rest, hrest, h⟩ := bind_ok h
      have := pure_ok h
      subst this
      obtain ⟨x1, x2⟩ := x
      obtain ⟨a, b, c, d, e⟩ := updateVehicle_spec env stepI stations vid v x1 r x2 hx
      obtain ⟨i1, i2, i3⟩ := ih rs rest hrest
      refine ⟨List.Forall₂.cons ⟨rfl, fun hn => ?_⟩ i1, ?_, ?_⟩
      · have := c (a ▸ hn)
        exact ⟨this.1, this.2.1⟩
      · intro L hs hrs rc hrc
        simp only [List.mem_cons] at hrc
        rcases hrc with rfl | hrc
        · exact d L hs (hrs _ (List.mem_cons_self ..)).1 (hrs _ (List.mem_cons_self ..)).2
        · exact i2 L hs (fun rc h => hrs rc (List.mem_cons_of_mem _ h)) rc hrc
      · intro L hn hrs hetd rc hrc
        simp only [List.mem_cons] at hrc
        rcases hrc with rfl | hrc
        · exact e L (hrs _ (List.mem_cons_self ..)) hn
            (fun hz => hetd ((vid, x1), (vid', r)) (by simp) hz)
        · exact i3 L hn (fun rc h => hrs rc (List.mem_cons_of_mem _ h))
            (fun p h => hetd p (by simp only [List.zip_cons_cons]; exact List.mem_cons_of_mem _ h)) rc hrc

/-- the generation-support loop changes only the energy column, and never below zero -/
theorem supportLoop_spec (eps tsph : α) :
    ∀ (recs : List (String × VRec α)) (lgs base : α),
      List.Forall₂ (fun a b : String × VRec α => a.1 = b.1 ∧ a.2.power = b.2.power ∧ a.2.v2g = b.2.v2g ∧
          a.2.powerInt = b.2.powerInt ∧ (0 < tsph → 0 ≤ a.2.energy → 0 ≤ b.2.energy))
        recs (supportLoop eps tsph recs lgs base).1 := by
  intro recs
  induction recs with
  | nil => intro lgs base; simp [supportLoop]
  | cons p rest ih =>
    intro lgs base
    obtain ⟨vid, r⟩ := p
    unfold supportLoop
    split
    · exact List.forall₂_same.mpr (fun x _ => ⟨rfl, rfl, rfl, rfl, fun _ => id⟩)
    · refine List.Forall₂.cons ⟨rfl, rfl, rfl, rfl, fun htsph he => ?_⟩ (ih _ _)
      simp only [pymin_eq]
      have h1 : min (min r.power (r.energy * tsph)) lgs ≤ r.energy * tsph :=
        le_trans (min_le_left _ _) (min_le_right _ _)
      have : min (min r.power (r.energy * tsph)) lgs / tsph ≤ r.energy := by
        rw [div_le_iff₀ htsph]; exact h1
      linarith

theorem forall₂_comp_vehrec {tsph : α} {vs : List (String × Vehicle α)} {a b : List (String × VRec α)}
    (h1 : List.Forall₂ VehRec vs a)
    (h2 : List.Forall₂ (fun a b : String × VRec α => a.1 = b.1 ∧ a.2.power = b.2.power ∧ a.2.v2g = b.2.v2g ∧
          a.2.powerInt = b.2.powerInt ∧ (0 < tsph → 0 ≤ a.2.energy → 0 ≤ b.2.energy)) a b) :
    List.Forall₂ VehRec vs b := by
  induction h1 generalizing b with
  | nil => cases h2; exact List.Forall₂.nil
  | cons hab _ ih =>
    cases h2 with
    | cons hbc h2' =>
      refine List.Forall₂.cons ⟨hab.1.trans hbc.1, fun hn => ?_⟩ (ih h2')
      have := hab.2 hn
      exact ⟨hbc.2.1 ▸ this.1, hbc.2.2.1 ▸ this.2⟩

/-! ### one iteration and the whole loop -/

theorem forall₂_transfer {β γ : Type} {R : β → γ → Prop} {P : β → Prop} {Q : γ → Prop}
    {l1 : List β} {l2 : List γ} (h : List.Forall₂ R l1 l2) (hR : ∀ a b, R a b → P a → Q b)
    (hP : ∀ a ∈ l1, P a) : ∀ b ∈ l2, Q b := by
  induction h with
  | nil => intro b hb; cases hb
  | cons hab _ ih =>
    intro b hb
    simp only [List.mem_cons] at hb
    rcases hb with rfl | hb
    · exact hR _ _ hab (hP _ (List.mem_cons_self ..))
    · exact ih (fun a ha => hP a (List.mem_cons_of_mem _ ha)) b hb

def StationsOK (stations : List (String × Station α)) : Prop :=
  ∀ id cs, alGet? id stations = some cs → 0 ≤ cs.maxPower

theorem stepPy_stations (cfg : Cfg α) (s s' : Strat α) (b : List (Event α))
    (h : s.stepPy cfg b = .ok s') : s'.world.stations = s.world.stations := by
  unfold Strat.stepPy at h
  split at h
  · cases h
  · cases h
    exact (step_frame cfg s b).1

theorem zeroRecs_mem (recs : List (String × VRec α)) (rc : String × VRec α) (h : rc ∈ zeroRecs recs) :
    rc.2.power = 0 ∧ rc.2.energy = 0 ∧ rc.2.v2g = 0 := by
  unfold zeroRecs at h
  obtain ⟨x, _, rfl⟩ := List.mem_map.mp h
  exact ⟨rfl, rfl, rfl⟩

theorem stepBand_spec (env : Env α B) (stepI : Nat) (bucket : List (Event α)) (st st' : LoopState α)
    (h : stepBand env stepI bucket st = .ok st') :
    ∃ r, st'.trace = st.trace ++ [r] ∧ RowSpec env stepI r ∧ List.Forall₂ VehRec r.vehicles r.recs ∧
      st'.recs = r.recsOut ∧ st'.prev = r.present ∧ r.prev = st.prev ∧
      st'.strat.world.stations = st.strat.world.stations ∧
      (∀ iv ∈ st'.intervalsRev, iv ∈ st.intervalsRev ∨
        (r.present = true ∧ iv.needed = env.ops.sum (r.recs.map (·.2.energy)))) ∧
      (Laws env → StationsOK st.strat.world.stations → (∀ rc ∈ st.recs, 0 ≤ rc.2.power ∧ 0 ≤ rc.2.v2g) →
        ∀ rc ∈ r.recs, 0 ≤ rc.2.power ∧ 0 ≤ rc.2.v2g) ∧
      r.recsIn = st.recs ∧
      (Laws env → stepI ≤ env.n → (∀ rc ∈ st.recs, 0 ≤ rc.2.energy) →
        (∀ x ∈ r.vehicles.zip r.recsIn, x.2.2.power = 0 → EtdAhead env stepI x.1.2) →
        ∀ rc ∈ r.recs, 0 ≤ rc.2.energy) := by
  unfold stepBand at h
  obtain ⟨strat, hstrat, h⟩ := bind_ok h
  obtain ⟨inCst, hcst, h⟩ := bind_ok h
  obtain ⟨gc, hgc, h⟩ := bind_ok h
  obtain ⟨upd, hupd, h⟩ := bind_ok h
  obtain ⟨r, htr, hrow, hveh, hrecs, hprev, hprev0, hstrat', hin, hrin, hrr, hpres, hiv⟩ :=
    finishBand_spec env stepI st st' _ inCst _ upd.2 h
  obtain ⟨u1, u2, u3⟩ := updateVehicles_spec env stepI _ _ _ upd hupd
  have hst := stepPy_stations env.cfg st.strat strat bucket hstrat
  have hveh' : r.vehicles = upd.1 := hveh
  -- relation between the dict after the vehicle loop and `r.recs`
  have hrel : List.Forall₂ (fun a b : String × VRec α => a.1 = b.1 ∧ a.2.power = b.2.power ∧
      a.2.v2g = b.2.v2g ∧ a.2.powerInt = b.2.powerInt ∧ (0 < env.tsph → 0 ≤ a.2.energy → 0 ≤ b.2.energy))
      upd.2 r.recs := by
    rw [hrr]
    split
    · exact supportLoop_spec env.eps env.tsph _ _ _
    · exact List.forall₂_same.mpr (fun x _ => ⟨rfl, rfl, rfl, rfl, fun _ => id⟩)
  refine ⟨r, htr, hrow, ?_, hrecs, hprev, hprev0, ?_, hiv, ?_, hrin, ?_⟩
  · rw [hveh']
    exact forall₂_comp_vehrec (tsph := env.tsph) u1 hrel
  · rw [hstrat']; exact hst
  · intro L hs hrs
    refine forall₂_transfer (P := fun x => 0 ≤ x.2.power ∧ 0 ≤ x.2.v2g) hrel (fun a b hab hp => ?_)
      (u2 L (hst ▸ hs) hrs)
    exact ⟨hab.2.1 ▸ hp.1, hab.2.2.1 ▸ hp.2⟩
  · intro L hn hrs hetd
    exact forall₂_transfer (P := fun x => 0 ≤ x.2.energy) hrel (fun a b hab hp => hab.2.2.2.2 L.tsph hp)
      (u3 L hn hrs (by rw [← hveh', ← hrin]; exact hetd))

/-- what the loop appends: for the `k`-th new record (step `i + k`) the row specification, the
vehicle / dict relation and the `prev_vehicles_present` chain; and, under the laws, the
non-negativity invariants -/
theorem runSteps_spec (env : Env α B) :
    ∀ (bs : List (List (Event α))) (i : Nat) (st st' : LoopState α),
      runSteps env i bs st = .ok st' →
      ∃ new : List (StepRec α), st'.trace = st.trace ++ new ∧ new.length = bs.length ∧
        (∀ (k : Nat) (r : StepRec α), new[k]? = some r → RowSpec env (i + k) r ∧ List.Forall₂ VehRec r.vehicles r.recs) ∧
        (∀ r : StepRec α, new[0]? = some r → r.prev = st.prev) ∧
        (∀ (k : Nat) (r r' : StepRec α), new[k]? = some r → new[k + 1]? = some r' → r'.prev = r.present) ∧
        (Laws env → StationsOK st.strat.world.stations → (∀ rc ∈ st.recs, 0 ≤ rc.2.power ∧ 0 ≤ rc.2.v2g) →
          ∀ (k : Nat) (r : StepRec α), new[k]? = some r → ∀ rc ∈ r.recs, 0 ≤ rc.2.power ∧ 0 ≤ rc.2.v2g) ∧
        (Laws env → i + bs.length ≤ env.n → (∀ rc ∈ st.recs, 0 ≤ rc.2.energy) →
          (∀ iv ∈ st.intervalsRev, 0 ≤ iv.needed) →
          (∀ (k : Nat) (r : StepRec α), new[k]? = some r →
            ∀ x ∈ r.vehicles.zip r.recsIn, x.2.2.power = 0 → EtdAhead env (i + k) x.1.2) →
          (∀ (k : Nat) (r : StepRec α), new[k]? = some r → ∀ rc ∈ r.recs, 0 ≤ rc.2.energy) ∧
          (∀ iv ∈ st'.intervalsRev, 0 ≤ iv.needed)) := by
  intro bs
  induction bs with
  | nil =>
    intro i st st' h
    unfold runSteps at h
    have := pure_ok h
    subst this
    refine ⟨[], by simp, rfl, ?_, ?_, ?_, ?_, ?_⟩
    · intro k r hk; simp at hk
    · intro r hk; simp at hk
    · intro k r r' hk; simp at hk
    · intro _ _ _ k r hk; simp at hk
    · intro _ _ _ hiv _
      exact ⟨(fun k r hk => by simp at hk), hiv⟩
  | cons b bs ih =>
    intro i st st' h
    unfold runSteps at h
    obtain ⟨st1, h1, h⟩ := bind_ok h
    obtain ⟨r, htr, hrow, hveh, hrecs, hprev, hprev0, hstat, hiv, hpv, hrin, hen⟩ :=
      stepBand_spec env i b st st1 h1
    obtain ⟨new, htr', hlen, hspec, hfirst, hchain, hpv', hen'⟩ := ih (i + 1) st1 st' h
    have hout : ∀ rc ∈ r.recsOut, rc ∈ r.recs ∨ (rc.2.power = 0 ∧ rc.2.energy = 0 ∧ rc.2.v2g = 0) := by
      intro rc hrc
      rw [hrow.out] at hrc
      split at hrc
      · right; exact zeroRecs_mem _ _ hrc
      · left; exact hrc
    refine ⟨r :: new, by rw [htr', htr]; simp, by simp [hlen], ?_, ?_, ?_, ?_, ?_⟩
    · intro k r' hk
      cases k with
      | zero => simp at hk; subst hk; exact ⟨hrow, hveh⟩
      | succ k =>
        simp at hk
        have := hspec k r' hk
        rw [show i + (k + 1) = i + 1 + k by omega]
        exact this
    · intro r' hk; simp at hk; subst hk; exact hprev0
    · intro k r1 r2 hk1 hk2
      cases k with
      | zero =>
        simp at hk1 hk2; subst hk1
        rw [hfirst r2 hk2, hprev]
      | succ k =>
        simp at hk1 hk2
        exact hchain k r1 r2 hk1 hk2
    · intro L hs hrs k r' hk
      have h0 := hpv L hs hrs
      cases k with
      | zero => simp at hk; subst hk; exact h0
      | succ k =>
        simp at hk
        refine hpv' L (hstat ▸ hs) ?_ k r' hk
        intro rc hrc
        rw [hrecs] at hrc
        rcases hout rc hrc with h | ⟨a, _, c⟩
        · exact h0 rc h
        · rw [a, c]; exact ⟨le_rfl, le_rfl⟩
    · intro L hn hrs hivs hetd
      have hn' : i ≤ env.n := by simp at hn; omega
      have h0 := hen L hn' hrs (fun p hp hz => by have := hetd 0 r (by simp) p hp hz; simpa using this)
      have hrs1 : ∀ rc ∈ st1.recs, 0 ≤ rc.2.energy := by
        intro rc hrc
        rw [hrecs] at hrc
        rcases hout rc hrc with h | ⟨_, b', _⟩
        · exact h0 rc h
        · rw [b']
      have hivs1 : ∀ iv ∈ st1.intervalsRev, 0 ≤ iv.needed := by
        intro iv hiv'
        rcases hiv iv hiv' with h | ⟨_, h⟩
        · exact hivs iv h
        · rw [h, L.sum]
          apply List.sum_nonneg
          intro x hx
          obtain ⟨rc, hrc, rfl⟩ := List.mem_map.mp hx
          exact h0 rc hrc
      obtain ⟨e1, e2⟩ := hen' L (by simp at hn; omega) hrs1 hivs1 (fun k r' hk p hp hz => by
        have := hetd (k + 1) r' (by simpa using hk) p hp hz
        rw [show i + 1 + k = i + (k + 1) by omega]
        exact this)
      refine ⟨?_, e2⟩
      intro k r' hk
      cases k with
      | zero => simp at hk; subst hk; exact h0
      | succ k => simp at hk; exact e1 k r' hk

/-! ### the whole function -/

theorem mapM_ok_all {β γ : Type} (f : β → Py γ) (Q : γ → Prop) (hf : ∀ a b, f a = .ok b → Q b) :
    ∀ (l : List β) (r : List γ), l.mapM f = .ok r → ∀ b ∈ r, Q b := by
  intro l
  induction l with
  | nil => intro r h; simp [pure, Except.pure] at h; subst h; intro b hb; cases hb
  | cons a l ih =>
    intro r h
    rw [List.mapM_cons] at h
    obtain ⟨b, hb, h⟩ := bind_ok h
    obtain ⟨bs, hbs, h⟩ := bind_ok h
    have := pure_ok h
    subst this
    intro x hx
    simp only [List.mem_cons] at hx
    rcases hx with rfl | hx
    · exact hf _ _ hb
    · exact ih bs hbs x hx

/-- the battery figures of the band are non-negative when `get_available_power` is -/
theorem batteryInfo_nonneg (ops : Ops α B) (gcId : String) (bats : List (String × String × B))
    (bat : BatInfo α) (havail : ∀ b p, ops.available b = .ok p → 0 ≤ p)
    (hsum : ∀ l, ops.sum l = l.sum) (h : batteryInfo ops gcId bats = .ok bat) :
    0 ≤ bat.initDischarge ∧ 0 ≤ bat.fullDischarge := by
  unfold batteryInfo at h
  simp only at h
  obtain ⟨p1, h1, h⟩ := bind_ok h
  obtain ⟨p2, h2, h⟩ := bind_ok h
  cases h
  simp only [hsum]
  exact ⟨List.sum_nonneg (mapM_ok_all _ _ havail _ _ h1), List.sum_nonneg (mapM_ok_all _ _ havail _ _ h2)⟩

/-- the loop context `generate_flex_band` builds -/
def envOf (ops : Ops α B) (eps stratEps tsph : α) (sc : Scen α B) (gcId : String)
    (cst : Option CoreStandingTime) (gcMax : α) (bat : BatInfo α) : Env α B :=
  { ops, eps, tsph, gcId, gcMax, cst
    cfg := { interval := sc.interval, eps := stratEps, margin := 1, allowNeg := true, resetNeg := false }
    start := sc.start, interval := sc.interval, n := sc.n, vtypes := sc.vtypes, bat }

theorem alGet?_map_snd {β γ : Type} (f : β → γ) (k : String) (l : List (String × β)) :
    alGet? k (l.map (fun p => (p.1, f p.2))) = (alGet? k l).map f := by
  induction l with
  | nil => rfl
  | cons p l ih =>
    obtain ⟨k', v⟩ := p
    simp only [List.map_cons, alGet?]
    split
    · rfl
    · exact ih

theorem lookupPy_ok {β : Type} {k : String} {l : List (String × β)} {c : β} (h : lookupPy k l = .ok c) :
    alGet? k l = some c := by
  unfold lookupPy at h
  split at h
  · rename_i c' hc; have := pure_ok h; subst this; exact hc
  · cases h

theorem getEventSteps_length {γ : Type} (start : Int) (n : Nat) (interval : Int) :
    ∀ (all : List (Event γ)) (acc r : Steps γ),
      all.foldlM (placeEvent start n interval) acc = .ok r → r.steps.length = acc.steps.length := by
  intro all
  induction all with
  | nil => intro acc r h; simp [pure, Except.pure] at h; subst h; rfl
  | cons e es ih =>
    intro acc r h
    rw [List.foldlM_cons] at h
    obtain ⟨acc', h1, h⟩ := bind_ok h
    rw [ih acc' r h]
    unfold placeEvent at h1
    split at h1
    · cases h1
    · simp only at h1
      split at h1
      · split at h1
        · cases h1
        · cases h1; rename_i heq; simp [heq]
      · split at h1
        · cases h1; rfl
        · cases h1; simp

/-- `generate_flex_band` returns what its loop appended: one record per timestep, produced by
`runSteps` from the freshly constructed strategy object and the all-zero `vehicles` dict -/
theorem generateFlexBand_spec (ops : Ops α B) (eps stratEps tsph : α) (sc : Scen α B) (gcId : String)
    (cst : Option CoreStandingTime) (f : Flex α)
    (h : generateFlexBand ops eps stratEps tsph sc gcId cst = .ok f) :
    ∃ (gc : Connector α) (bat : BatInfo α) (s : Strat α) (steps : Steps α) (st : LoopState α),
      alGet? gcId sc.connectors = some gc ∧ batteryInfo ops gcId sc.batteries = .ok bat ∧
      s.world.stations = sc.stations.map (fun p => (p.1, { p.2 with maxPower := 1 * p.2.maxPower })) ∧
      steps.steps.length = sc.n ∧
      runSteps (envOf ops eps stratEps tsph sc gcId cst gc.maxPower bat) 0 steps.steps
        { strat := s, recs := s.world.vehicles.map (fun p => (p.1, (⟨0, 0, 0, true⟩ : VRec α)))
          prev := false, intervalsRev := [], trace := [] } = .ok st ∧
      f.trace = st.trace ∧ f.min = f.trace.map (·.min) ∧ f.base = f.trace.map (·.base) ∧
      f.max = f.trace.map (·.max) ∧ f.vmin = f.trace.map (·.vmin) ∧ f.vmax = f.trace.map (·.vmax) ∧
      f.intervals = st.intervalsRev.reverse ∧ f.batteries = bat := by
  unfold generateFlexBand at h
  obtain ⟨s, hs, h⟩ := bind_ok h
  obtain ⟨gc, hgc, h⟩ := bind_ok h
  obtain ⟨steps, hsteps, h⟩ := bind_ok h
  obtain ⟨fleet, hfleet, h⟩ := bind_ok h
  obtain ⟨bat, hbat, h⟩ := bind_ok h
  obtain ⟨st, hst, h⟩ := bind_ok h
  cases h
  unfold Strat.init at hs
  split at hs
  · cases hs
  · cases hs
    refine ⟨gc, bat, _, steps, st, lookupPy_ok hgc, hbat, rfl, ?_, hst, rfl, rfl, rfl, rfl, rfl, rfl, rfl, rfl⟩
    unfold getEventSteps at hsteps
    rw [getEventSteps_length _ _ _ _ _ _ hsteps]
    simp

/-! ### sums over the vehicles that are connected -/

/-- the pairs (world vehicle, dict entry) of the vehicles with a charging station -/
def connected (vs : List (String × Vehicle α)) (rs : List (String × VRec α)) :
    List ((String × Vehicle α) × (String × VRec α)) :=
  (vs.zip rs).filter (fun p => p.1.2.station.isSome)

theorem sum_connected {vs : List (String × Vehicle α)} {rs : List (String × VRec α)}
    (h : List.Forall₂ VehRec vs rs) :
    (rs.map (·.2.power)).sum = ((connected vs rs).map (·.2.2.power)).sum ∧
    (rs.map (·.2.v2g)).sum = ((connected vs rs).map (·.2.2.v2g)).sum := by
  induction h with
  | nil => simp [connected]
  | cons hab _ ih =>
    rename_i v rc vs rs _
    unfold connected at ih ⊢
    simp only [List.zip_cons_cons, List.map_cons, List.sum_cons, List.filter_cons]
    cases hst : v.2.station with
    | none =>
      obtain ⟨h1, h2⟩ := hab.2 hst
      simp [h1, h2, ih.1, ih.2]
    | some c => simp [ih.1, ih.2]

theorem forall₂_getElem? {β γ : Type} {R : β → γ → Prop} {l1 : List β} {l2 : List γ}
    (h : List.Forall₂ R l1 l2) : ∀ (j : Nat) (a : β) (b : γ), l1[j]? = some a → l2[j]? = some b → R a b := by
  induction h with
  | nil => intro j a b h1; simp at h1
  | cons hab _ ih =>
    intro j a b h1 h2
    cases j with
    | zero => simp at h1 h2; subst h1; subst h2; exact hab
    | succ j => simp at h1 h2; exact ih j a b h1 h2

/-! ### generate_individual_flex_band: the connector band follows the limit events -/

/-- `gc.cur_max_power` after one event: only a `GridOperatorSignal` for this connector writes it —
`min(rating, limit)` resp. the rating itself for a signal without limit when the rating is truthy,
else the signal's value as it is -/
def limitAfter (gcId : String) (gcMax : α) (cur : Option α) (ev : Event α) : Option α :=
  match ev.kind with
  | .gridSignal gc maxPower _ _ _ =>
    if gc = gcId then
      if !(isZero gcMax) then
        match maxPower with
        | none => some gcMax
        | some m => some (pymin gcMax m)
      else maxPower
    else cur
  | _ => cur

/-- the limit after each timestep's events -/
def limitScan (gcId : String) (gcMax : α) : Option α → List (List (Event α)) → List (Option α)
  | _, [] => []
  | cur, ts :: rest =>
    (ts.foldl (limitAfter gcId gcMax) cur) :: limitScan gcId gcMax (ts.foldl (limitAfter gcId gcMax) cur) rest

theorem limitScan_length (gcId : String) (gcMax : α) (cur : Option α) (bs : List (List (Event α))) :
    (limitScan gcId gcMax cur bs).length = bs.length := by
  induction bs generalizing cur with
  | nil => rfl
  | cons b bs ih => simp [limitScan, ih]

/-- entry `i` of the scan = all events of the buckets `0..i` applied in order -/
theorem limitScan_getElem? (gcId : String) (gcMax : α) (bs : List (List (Event α))) :
    ∀ (cur : Option α) (i : Nat), i < bs.length →
      (limitScan gcId gcMax cur bs)[i]? = some ((bs.take (i + 1)).flatten.foldl (limitAfter gcId gcMax) cur) := by
  induction bs with
  | nil => intro cur i hi; simp at hi
  | cons b bs ih =>
    intro cur i hi
    cases i with
    | zero => simp [limitScan]
    | succ i =>
      simp only [limitScan, List.getElem?_cons_succ, List.take_succ_cons, List.flatten_cons, List.foldl_append]
      exact ih _ i (by simpa using hi)

structure IndKeep (st st' : IndState α) : Prop where
  curMax : st'.curMax = st.curMax
  max : st'.max = st.max
  min : st'.min = st.min

theorem IndKeep.refl (st : IndState α) : IndKeep st st := ⟨rfl, rfl, rfl⟩

theorem indVehicleEvent_keep (ops : Ops α B) (sc : Scen α B) (gcId : String) (idx : Nat)
    (st st' : IndState α) (ev : Event α) (vid : String) (kind : VehKind) (upd : VehUpdate α)
    (h : indVehicleEvent ops sc gcId idx st ev vid kind upd = .ok st') : IndKeep st st' := by
  unfold indVehicleEvent at h
  split at h
  · split at h
    · split at h
      · cases h
      · split at h
        · cases h
        · simp only at h
          split at h
          · cases (pure_ok h); exact ⟨rfl, rfl, rfl⟩
          · split at h
            · cases (pure_ok h); exact ⟨rfl, rfl, rfl⟩
            · split at h
              · cases h
              · split at h
                · cases (pure_ok h); exact ⟨rfl, rfl, rfl⟩
                · obtain ⟨r, _, h⟩ := bind_ok h
                  cases (pure_ok h); exact ⟨rfl, rfl, rfl⟩
    · split at h
      · cases (pure_ok h); exact ⟨rfl, rfl, rfl⟩
      · simp only at h
        split at h
        · cases (pure_ok h); exact ⟨rfl, rfl, rfl⟩
        · split at h
          · cases (pure_ok h); exact ⟨rfl, rfl, rfl⟩
          · split at h
            · cases h
            · obtain ⟨r, _, h⟩ := bind_ok h
              cases (pure_ok h); exact ⟨rfl, rfl, rfl⟩
  · cases h

theorem indEvent_spec (ops : Ops α B) (sc : Scen α B) (gcId : String) (gcMax : α) (idx : Nat)
    (st st' : IndState α) (ev : Event α) (h : indEvent ops sc gcId gcMax idx st ev = .ok st') :
    st'.curMax = limitAfter gcId gcMax st.curMax ev ∧ st'.max = st.max ∧ st'.min = st.min := by
  unfold indEvent at h
  unfold limitAfter
  cases hk : ev.kind with
  | fixedLoad name gc value =>
    rw [hk] at h
    simp only at h ⊢
    split at h <;> (cases (pure_ok h); exact ⟨rfl, rfl, rfl⟩)
  | localGen name gc value =>
    rw [hk] at h
    simp only at h ⊢
    split at h <;> (cases (pure_ok h); exact ⟨rfl, rfl, rfl⟩)
  | gridSignal gc mp cost target window =>
    rw [hk] at h
    simp only at h ⊢
    by_cases hg : gc = gcId
    · simp only [hg, if_true] at h ⊢
      by_cases hz : (!(isZero gcMax)) = true
      · simp only [hz, if_true] at h ⊢
        cases mp with
        | none => simp only at h ⊢; cases (pure_ok h); exact ⟨rfl, rfl, rfl⟩
        | some m => simp only at h ⊢; cases (pure_ok h); exact ⟨rfl, rfl, rfl⟩
      · simp only [hz] at h ⊢
        cases (pure_ok h); exact ⟨rfl, rfl, rfl⟩
    · simp only [hg, if_false] at h ⊢
      cases (pure_ok h); exact ⟨rfl, rfl, rfl⟩
  | vehicle vid kind upd =>
    rw [hk] at h
    simp only at h ⊢
    have := indVehicleEvent_keep ops sc gcId idx st st' ev _ _ _ h
    exact ⟨this.curMax, this.max, this.min⟩

theorem indEvents_spec (ops : Ops α B) (sc : Scen α B) (gcId : String) (gcMax : α) (idx : Nat) :
    ∀ (ts : List (Event α)) (st st' : IndState α),
      ts.foldlM (indEvent ops sc gcId gcMax idx) st = .ok st' →
      st'.curMax = ts.foldl (limitAfter gcId gcMax) st.curMax ∧ st'.max = st.max ∧ st'.min = st.min := by
  intro ts
  induction ts with
  | nil => intro st st' h; cases (pure_ok h); exact ⟨rfl, rfl, rfl⟩
  | cons e es ih =>
    intro st st' h
    rw [List.foldlM_cons] at h
    obtain ⟨st1, h1, h⟩ := bind_ok h
    obtain ⟨a, b, c⟩ := indEvent_spec ops sc gcId gcMax idx st st1 e h1
    obtain ⟨a', b', c'⟩ := ih st1 st' h
    exact ⟨by rw [a', a]; rfl, b'.trans b, c'.trans c⟩

theorem indSteps_spec (ops : Ops α B) (sc : Scen α B) (gcId : String) (gcMax : α) :
    ∀ (bs : List (List (Event α))) (idx : Nat) (st st' : IndState α),
      indSteps ops sc gcId gcMax idx bs st = .ok st' →
      st'.max.map some = st.max.map some ++ limitScan gcId gcMax st.curMax bs ∧
      (st.min = st.max.map (fun x => -x) → st'.min = st'.max.map (fun x => -x)) := by
  intro bs
  induction bs with
  | nil => intro idx st st' h; unfold indSteps at h; cases (pure_ok h); simp [limitScan]
  | cons b bs ih =>
    intro idx st st' h
    unfold indSteps at h
    obtain ⟨st1, h1, h⟩ := bind_ok h
    unfold indStep at h1
    obtain ⟨st2, h2, h1⟩ := bind_ok h1
    obtain ⟨a, b', c⟩ := indEvents_spec ops sc gcId gcMax idx b _ st2 h2
    split at h1
    · cases h1
    · rename_i cur hcur
      cases (pure_ok h1)
      obtain ⟨i1, i2⟩ := ih (idx + 1) _ st' h
      have hcm : (ite (idx ≠ 0) ({ st with records := st.records ++ [[]] } : IndState α) st).curMax = st.curMax := by
        split <;> rfl
      have hmx : (ite (idx ≠ 0) ({ st with records := st.records ++ [[]] } : IndState α) st).max = st.max := by
        split <;> rfl
      have hmn : (ite (idx ≠ 0) ({ st with records := st.records ++ [[]] } : IndState α) st).min = st.min := by
        split <;> rfl
      rw [hcm] at a
      rw [hmx] at b'
      rw [hmn] at c
      refine ⟨?_, fun hmin => ?_⟩
      · rw [i1]
        simp only [List.map_append, List.map_cons, List.map_nil, limitScan, hcur, b', ← a,
          List.append_assoc, List.singleton_append]
      · apply i2
        simp only [List.map_append, List.map_cons, List.map_nil, b', c, hmin]

theorem initialVehicle_keep (ops : Ops α B) (sc : Scen α B) (gcId : String) (st st' : IndState α)
    (p : String × Vehicle α) (h : initialVehicle ops sc gcId st p = .ok st') : IndKeep st st' := by
  unfold initialVehicle at h
  split at h
  · cases (pure_ok h); exact IndKeep.refl _
  · split at h
    · cases (pure_ok h); exact IndKeep.refl _
    · split at h
      · cases (pure_ok h); exact IndKeep.refl _
      · split at h
        · obtain ⟨e, _, h⟩ := bind_ok h
          obtain ⟨g, _, h⟩ := bind_ok h
          obtain ⟨pb, _, h⟩ := bind_ok h
          cases (pure_ok h); exact ⟨rfl, rfl, rfl⟩
        · cases h

theorem initialVehicles_keep (ops : Ops α B) (sc : Scen α B) (gcId : String) :
    ∀ (vs : List (String × Vehicle α)) (st st' : IndState α),
      vs.foldlM (initialVehicle ops sc gcId) st = .ok st' → IndKeep st st' := by
  intro vs
  induction vs with
  | nil => intro st st' h; cases (pure_ok h); exact IndKeep.refl _
  | cons v vs ih =>
    intro st st' h
    rw [List.foldlM_cons] at h
    obtain ⟨st1, h1, h⟩ := bind_ok h
    have k1 := initialVehicle_keep ops sc gcId st st1 v h1
    have k2 := ih st1 st' h
    exact ⟨k2.curMax.trans k1.curMax, k2.max.trans k1.max, k2.min.trans k1.min⟩

theorem startBuckets_length {γ : Type} (start interval : Int) (n : Nat) (ss : List (List (Event γ))) :
    (startBuckets start interval n ss).length = n := by
  unfold startBuckets
  have inner : ∀ (cur : List (Event γ)) (acc : List (List (Event γ))),
      (cur.foldl (fun acc ev =>
        if 0 ≤ bucketIndex start ev.start interval ∧ bucketIndex start ev.start interval < (n : Int) then
          acc.modify (bucketIndex start ev.start interval).toNat (· ++ [ev]) else acc) acc).length = acc.length := by
    intro cur
    induction cur with
    | nil => intro acc; rfl
    | cons e es ih =>
      intro acc
      simp only [List.foldl_cons]
      rw [ih]
      split <;> simp
  have outer : ∀ (ss : List (List (Event γ))) (acc : List (List (Event γ))),
      (ss.foldl (fun acc cur => cur.foldl (fun acc ev =>
        if 0 ≤ bucketIndex start ev.start interval ∧ bucketIndex start ev.start interval < (n : Int) then
          acc.modify (bucketIndex start ev.start interval).toNat (· ++ [ev]) else acc) acc) acc).length = acc.length := by
    intro ss
    induction ss with
    | nil => intro acc; rfl
    | cons c cs ih =>
      intro acc
      simp only [List.foldl_cons]
      rw [ih, inner]
  rw [outer]; simp

end
end SpiceEv.FlexBand
