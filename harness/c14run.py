"""C14 — the ITERATED model of `Distributed.step` (Model/StratDistributedRun.lean, driver command `run_distributed`)
tied to recorded standing periods of the real distributed run.

The per-step tie (harness/s_distributed.py through harness/steptie.py) hands the model the COMPLETE state before every
step, so an error of the model in what it carries from one step to the next (SoCs, `self.connected`, the virtual
stations' power, station powers not reset …) is repaired by the next request and shows only in the one result line.
Here the state is the model's own: the first payload of a window gives the strategy object at the beginning of the
period, of the later payloads the model reads only what the simulation loop hands to the step (options, clock,
connectors, visible arrival events); vehicles / stations / batteries / `connected` / derived state are what the model's
own previous step left.

That composition is valid only over a STANDING PERIOD: between two consecutive steps no vehicle event was processed and
no battery loss applied, i.e. every vehicle's (connected_charging_station, estimated_time_of_departure, desired_soc,
battery.soc) and every stationary battery's soc at the beginning of step k+1 are identical (floats bit for bit) to their
values at the end of step k, and neither step raised.  `recording()` wraps `Distributed.step` (inside the step tie: the
tie's wrapper calls this one, which calls the real method) and notes exactly these fields before and after every real
step; `windows()` aligns the notes with the step tie's `step_distributed` request / result lines (one per step, in
order), cuts the maximal standing periods, chooses at most MAX_WINDOWS windows of 2..MAX_LEN steps per run
(deterministically, windows with charging first) and emits per window

    request   run_distributed <n> <payload_1> … <payload_n>          (payload = a step_distributed line without the command word)
    expected  @c14run <result_1> || … || <result_n>                  (the implementation's step_distributed result strings)

`compare` (reached through `steptie.compare`, which dispatches on the tag) splits both sides at ` || ` and compares step
by step with `s_distributed.compare` (by value, bit level); a different number of steps (the model raised, or stopped) is
a difference.
"""
import contextlib

import engine

engine.use_repo()

MAX_LEN = 12          # steps per window
MAX_WINDOWS = 2       # windows per run
SEP = " || "
CMD = "step_distributed "
TAG = "@c14run "
EPS = 1e-5


def _bits(x):
    """a value that is equal exactly when the Python objects are indistinguishable for the step (floats by bit pattern)"""
    if isinstance(x, float):
        return ("f", x.hex())
    if isinstance(x, bool) or x is None or isinstance(x, (int, str)):
        return (type(x).__name__, x)
    return (type(x).__name__, repr(x))


def snapshot(strat):
    """never raises into the wrapped step (Scenario.run would take it for a failure of the strategy): a world that no
    longer has the expected shape gives a marker which `windows` turns into a line pair that cannot agree"""
    try:
        return _snapshot(strat)
    except Exception as e:
        return ("broken", repr(e)[:200])


def _snapshot(strat):
    ws = strat.world_state
    return (tuple((vid, _bits(v.connected_charging_station), _bits(v.estimated_time_of_departure), _bits(v.desired_soc),
                   _bits(v.battery.soc)) for vid, v in ws.vehicles.items()),
            tuple((bid, _bits(b.soc)) for bid, b in ws.batteries.items()))


def premise(strat):
    """what the run-level theorems (Properties/C14_DistributedRun.lean: `InOK`) assume of the world the base step hands to
    `Distributed.step`: (a) no connector carries an entry under a charging-station or battery id (the base step removed
    them), (b) smallest entry of any connector (no generation => none negative). Returns (station/battery keys found,
    minimum entry) - never raises into the step."""
    try:
        ws = strat.world_state
        names = set(ws.charging_stations) | set(ws.batteries)
        stale = sorted(k for gc in ws.grid_connectors.values() for k in gc.current_loads if k in names)
        vals = [float(x) for gc in ws.grid_connectors.values() for x in gc.current_loads.values()]
        return (stale[:3], min(vals) if vals else 0.0)
    except Exception as e:
        return ("broken", repr(e)[:200])


@contextlib.contextmanager
def recording():
    """wrap whatever `Distributed.step` is at the moment (the real method, or another recorder around it); yields the
    list of per-step records {before, after, raised, charging}"""
    from spice_ev.strategies import distributed as dmod
    cls = dmod.Distributed
    inner = cls.step
    recs = []

    def step(self):
        rec = {"before": snapshot(self), "after": None, "raised": True, "charging": False, "premise": premise(self)}
        recs.append(rec)
        try:
            res = inner(self)
            rec["raised"] = False
            rec["charging"] = any(abs(x) > EPS for x in res["commands"].values())
            return res
        finally:
            rec["after"] = snapshot(self)
    cls.step = step
    try:
        yield recs
    finally:
        cls.step = inner


def cut(recs):
    """maximal standing periods [a, b) (b - a >= 2) of the recorded steps"""
    out, a = [], 0
    for k in range(len(recs)):
        last = k + 1 == len(recs)
        if recs[k]["raised"]:
            if k - a >= 2:
                out.append((a, k))
            a = k + 1
        elif last or recs[k + 1]["raised"] or recs[k]["after"] != recs[k + 1]["before"]:
            if k + 1 - a >= 2:
                out.append((a, k + 1))
            a = k + 1
    return out


def choose(recs):
    """at most MAX_WINDOWS windows (a, b), 2 <= b - a <= MAX_LEN, inside the standing periods: a period is cut into
    pieces of MAX_LEN steps beginning at its first charging step (the part before it likewise); the windows with the
    most charging steps first, ties by position"""
    cand = []

    def pieces(a, b):
        while b - a >= 2:
            e = min(a + MAX_LEN, b)
            if b - e == 1:          # never leave a single step over: it would be dropped unseen
                e -= 1
            cand.append((a, e))
            a = e
    for a, b in cut(recs):
        s = next((k for k in range(a, b) if recs[k]["charging"]), a)
        if b - s < 2:
            s = a
        if s - a == 1:
            s = a
        pieces(a, s)
        pieces(s, b)
    score = lambda w: sum(1 for k in range(*w) if recs[k]["charging"])
    cand.sort(key=lambda w: (-score(w), w[0]))
    return sorted(cand[:MAX_WINDOWS]), len(cand)


def premise_lines(recs, no_generation):
    """a premise of the run theorems that the real base step does not deliver breaks leg P's applicability: ONE line pair
    that cannot agree (request: a harmless driver command; expected: the finding), so the check goes on to search with its
    oracle and reports `no-failing-input-found` naming this line"""
    for k, r in enumerate(recs):
        p = r.get("premise")
        if not p:
            continue
        if p[0] == "broken":
            msg = "could not be evaluated: " + p[1]
        elif p[0]:
            msg = "step %d: connector entries under station / battery ids before the strategy's step: %s" % (k, p[0])
        elif no_generation and p[1] < 0:
            msg = "step %d: a negative connector entry (%r) in a scenario without generation" % (k, p[1])
        else:
            continue
        return (["signal_distributed 0"], [TAG + "PREMISE of C14_distributed_run_is_delegated " + msg.replace("|", "/")],
                ["iterated_premise_broken"])
    return [], [], (["iterated_premise_checked"] if recs else [])


def windows(recs, tie_lines, tie_impl, no_generation=False):
    """(request lines, tagged expected lines, stats tags) for the run recorded in `recs` whose step tie produced
    `tie_lines` / `tie_impl` (as returned by steptie.run_with_tie: impl lines tagged `@s_distributed `)"""
    steps = [(ln[len(CMD):], im.partition(" ")[2]) for ln, im in zip(tie_lines, tie_impl)
             if ln.startswith(CMD) and im.startswith("@s_distributed ")]
    if not steps:
        return [], [], []          # timeout / adapter failure (reported by the step tie itself) / no step at all
    broken = [x for r in recs for x in (r["before"], r["after"]) if x and x[0] == "broken"]
    if broken:
        return (["tie_adapter_failed distributed"],
                ["@adapter iterated run: the vehicle / battery fields could not be read: " + broken[0][1].replace("|", "/")],
                ["iterated_snapshot_failed"])
    if len(steps) != len(recs):
        # cannot happen while both wrappers see every call; never a silent pass
        return (["tie_adapter_failed distributed"],
                ["@adapter iterated run: %d recorded steps but %d step_distributed lines" % (len(recs), len(steps))],
                ["iterated_misaligned"])
    lines, impl, stats = premise_lines(recs, no_generation)
    chosen, n_cand = choose(recs)
    for a, b in chosen:
        assert not any(steps[k][1].startswith("!") for k in range(a, b))
        lines.append("run_distributed %d %s" % (b - a, " ".join(steps[k][0] for k in range(a, b))))
        impl.append(TAG + SEP.join(steps[k][1] for k in range(a, b)))
        n_ch = sum(1 for k in range(a, b) if recs[k]["charging"])
        stats.append("iterated_window")
        stats += ["iterated_step"] * (b - a)          # the engine counts every occurrence: totals in the histogram
        if n_ch:
            stats.append("iterated_window_charging")
            stats += ["iterated_step_charging"] * n_ch
        if n_ch >= 2:
            stats.append("iterated_window_charging_2plus_steps")
    if not chosen:
        stats.append("iterated_no_standing_period")
    return lines, impl, stats


def compare(case, impl, model):
    import s_distributed
    if impl.startswith("PREMISE "):
        return impl
    a, b = impl.split(SEP), model.split(SEP)
    if len(a) != len(b):
        return "iterated run: implementation %d steps, model %d: %s" % (len(a), len(b), model[:200])
    for k, (x, y) in enumerate(zip(a, b)):
        d = s_distributed.compare(None, x, y)
        if d is not None:
            return "iterated run, step %d of %d of the window: %s" % (k + 1, len(a), d)
    return None
