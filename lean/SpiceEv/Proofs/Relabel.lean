/-
Time relabelling: the event buckets, the window predicate and the core-standing-time predicate only see
differences of timestamps, times of day and weekdays.  Helper lemmas for C16.
-/
import SpiceEv.Model.Events
import SpiceEv.Model.Util
import Mathlib.Tactic.Linarith
set_option linter.unusedSectionVars false
set_option linter.unusedSimpArgs false
set_option linter.unusedVariables false
namespace SpiceEv
namespace Relabel

theorem bucketIndex_shift (start signal Δ c : Int) :
    bucketIndex (start + c) (signal + c) Δ = bucketIndex start signal Δ := by
  unfold bucketIndex
  congr 2
  omega

variable {α : Type}

def mapSteps (f : Event α → Event α) (s : Steps α) : Steps α :=
  { s with steps := s.steps.map (fun b => b.map f) }

theorem map_modify_comm {β γ : Type} (h : β → γ) (g : β → β) (g' : γ → γ) (hc : ∀ x, h (g x) = g' (h x)) :
    ∀ (l : List β) (i : Nat), (l.modify i g).map h = (l.map h).modify i g' := by
  intro l
  induction l with
  | nil => intro i; simp
  | cons x xs ih =>
    intro i
    cases i with
    | zero => simp [hc]
    | succ j => simp [ih j]

theorem placeEvent_shift (f : Event α → Event α) (c : Int) (hf : ∀ e, (f e).signal = e.signal + c)
    (start : Int) (n : Nat) (Δ : Int) (acc : Steps α) (e : Event α) :
    placeEvent (start + c) n Δ (mapSteps f acc) (f e) = (placeEvent start n Δ acc e).map (mapSteps f) := by
  unfold placeEvent
  by_cases hΔ : Δ = 0
  · simp [hΔ, Except.map]
  · simp only [hΔ, if_false, hf, bucketIndex_shift]
    split
    · cases hs : acc.steps with
      | nil => simp [mapSteps, hs, Except.map]
      | cons s0 rest => simp [mapSteps, hs, Except.map]
    · split
      · simp [mapSteps, Except.map]
      · simp only [mapSteps, Except.map, Except.ok.injEq, Steps.mk.injEq, and_true]
        exact (map_modify_comm (fun b => b.map f) (· ++ [e]) (· ++ [f e]) (fun x => by simp) _ _).symm

theorem fold_shift (f : Event α → Event α) (c : Int) (hf : ∀ e, (f e).signal = e.signal + c)
    (start : Int) (n : Nat) (Δ : Int) (all : List (Event α)) (acc : Steps α) :
    (all.map f).foldlM (placeEvent (start + c) n Δ) (mapSteps f acc)
      = (all.foldlM (placeEvent start n Δ) acc).map (mapSteps f) := by
  induction all generalizing acc with
  | nil => simp [Except.map, pure, Except.pure]
  | cons e es ih =>
    simp only [List.map_cons, List.foldlM_cons, bind, Except.bind]
    rw [placeEvent_shift f c hf]
    cases placeEvent start n Δ acc e with
    | error err => simp [Except.map]
    | ok acc1 => simp only [Except.map]; exact ih acc1

theorem getEventSteps_shift (f : Event α → Event α) (c : Int) (hf : ∀ e, (f e).signal = e.signal + c)
    (start : Int) (n : Nat) (Δ : Int) (all : List (Event α)) :
    getEventSteps (start + c) n Δ (all.map f) = (getEventSteps start n Δ all).map (mapSteps f) := by
  unfold getEventSteps
  have hinit : ({ steps := List.replicate n [], moved := 0, ignored := 0 } : Steps α)
      = mapSteps f { steps := List.replicate n [], moved := 0, ignored := 0 } := by
    simp [mapSteps]
  conv_lhs => rw [hinit]
  exact fold_shift f c hf start n Δ all _

/-! ### window and core-standing-time predicates under a shift by whole weeks -/

theorem window_shift (dt : DateTime) (k : Int) (seasons : List Season) (level : String)
    (hs : ∀ s ∈ seasons, (decide (s.start ≤ dt.date) && decide (dt.date ≤ s.stop))
        = (decide (s.start ≤ dt.date + 7 * k) && decide (dt.date + 7 * k ≤ s.stop))) :
    datetimeWithinTimeWindow (dt.add (7 * k * usPerDay)) seasons level
      = datetimeWithinTimeWindow dt seasons level := by
  induction seasons with
  | nil => rfl
  | cons s rest ih =>
    unfold datetimeWithinTimeWindow
    rw [DateTime.date_add_days, DateTime.time_add_days, ← hs s (List.mem_cons_self)]
    split
    · rfl
    · exact ih (fun s' hs' => hs s' (List.mem_cons_of_mem _ hs'))

/-- the scenario's holiday dates move with the scenario -/
def shiftHolidays (d : Int) (c : CoreStandingTime) : CoreStandingTime :=
  { c with holidays := c.holidays.map (fun l => l.map (· + d)) }

theorem contains_shift (l : List Int) (x d : Int) : (l.map (· + d)).contains (x + d) = l.contains x := by
  induction l with
  | nil => rfl
  | cons y ys ih =>
    simp only [List.map_cons, List.contains_cons, ih]
    congr 1
    by_cases h : x = y
    · simp [h]
    · have : ¬ x + d = y + d := by omega
      simp [h, this]

theorem core_shift (dt : DateTime) (k : Int) (cst : Option CoreStandingTime) :
    dtWithinCoreStandingTime (dt.add (7 * k * usPerDay)) (cst.map (shiftHolidays (7 * k)))
      = dtWithinCoreStandingTime dt cst := by
  cases cst with
  | none => rfl
  | some c =>
    unfold dtWithinCoreStandingTime
    simp only [Option.map_some, shiftHolidays, DateTime.weekday_add_weeks, DateTime.date_add_days,
      DateTime.time_add_days]
    have : ((c.holidays.map (fun l => l.map (· + 7 * k))).getD []).contains (dt.date + 7 * k)
        = (c.holidays.getD []).contains dt.date := by
      cases c.holidays with
      | none => rfl
      | some l => exact contains_shift l dt.date (7 * k)
    rw [this]

end Relabel
end SpiceEv
