/-
Helper lemmas for the key structure of the results JSON (Model/ReportJson.lean).
-/
import SpiceEv.Proofs.ReportAgg
import SpiceEv.Model.ReportJson
set_option linter.unusedSectionVars false
set_option linter.unusedSimpArgs false
set_option linter.unusedVariables false
namespace SpiceEv.ReportJson
open SpiceEv SpiceEv.Report SpiceEv.ReportAgg

variable {α : Type}

/-- the entry names of `jsonKeys`, segment by segment -/
theorem jsonKeys_names (hasCst : Bool) (res : LocalResults α) :
    (jsonKeys hasCst res).map (·.1) =
      ["temporal_parameters"]
      ++ (if hasCst then ["core_standing_time"] else [])
      ++ ["grid_connector", "photovoltaics", "charging_strategy"]
      ++ (if res.avgFlexPerWindow.isSome then ["avg flex per window"] else [])
      ++ ["sum of energy", "sum of energy per window", "avg standing time", "standing per window"]
      ++ (if res.avgNeededEnergy.isSome then ["avg needed energy"] else [])
      ++ (if res.plwThreshold.isSome then ["peak load time windows"] else [])
      ++ (if res.powerPeaks.isSome then ["power peaks"] else [])
      ++ ["avg drawn power", "local energy generation"]
      ++ (if res.feedIn.isSome then ["feed-in energy"] else [])
      ++ (if res.maxStored.isSome then ["max. stored energy in batteries"] else [])
      ++ (if res.batCycles.isSome then ["stationary battery cycles"] else [])
      ++ ["all vehicle battery cycles", "times below desired soc"] := by
  unfold jsonKeys
  cases hm : res.maxStored <;>
    simp only [List.map_append, List.map_cons, List.map_nil,
      apply_ite (List.map (fun x : String × List String => x.1)), Option.isSome_none, Option.isSome_some,
      if_true, if_false, Bool.false_eq_true]

theorem ite_sublist (c : Bool) (x : String) : (if c then [x] else []).Sublist [x] := by
  cases c <;> simp

theorem jsonKeys_order (hasCst : Bool) (res : LocalResults α) :
    ((jsonKeys hasCst res).map (·.1)).Sublist allEntryNames := by
  rw [jsonKeys_names]
  have e : allEntryNames =
      ["temporal_parameters"] ++ ["core_standing_time"]
      ++ ["grid_connector", "photovoltaics", "charging_strategy"] ++ ["avg flex per window"]
      ++ ["sum of energy", "sum of energy per window", "avg standing time", "standing per window"]
      ++ ["avg needed energy"] ++ ["peak load time windows"] ++ ["power peaks"]
      ++ ["avg drawn power", "local energy generation"] ++ ["feed-in energy"]
      ++ ["max. stored energy in batteries"] ++ ["stationary battery cycles"]
      ++ ["all vehicle battery cycles", "times below desired soc"] := rfl
  rw [e]
  refine List.Sublist.append (List.Sublist.append (List.Sublist.append (List.Sublist.append
    (List.Sublist.append (List.Sublist.append (List.Sublist.append (List.Sublist.append
    (List.Sublist.append (List.Sublist.append (List.Sublist.append (List.Sublist.append
      (List.Sublist.refl _) (ite_sublist _ _)) (List.Sublist.refl _)) (ite_sublist _ _))
      (List.Sublist.refl _)) (ite_sublist _ _)) (ite_sublist _ _)) (ite_sublist _ _))
      (List.Sublist.refl _)) (ite_sublist _ _)) (ite_sublist _ _)) (ite_sublist _ _))
      (List.Sublist.refl _)

theorem jsonKeys_nodup (hasCst : Bool) (res : LocalResults α) :
    ((jsonKeys hasCst res).map (·.1)).Nodup :=
  (jsonKeys_order hasCst res).nodup (by decide)

/-- which optional entries exist -/
theorem jsonKeys_mem (hasCst : Bool) (res : LocalResults α) :
    ("core_standing_time" ∈ (jsonKeys hasCst res).map (·.1) ↔ hasCst = true) ∧
    ("avg flex per window" ∈ (jsonKeys hasCst res).map (·.1) ↔ res.avgFlexPerWindow.isSome = true) ∧
    ("avg needed energy" ∈ (jsonKeys hasCst res).map (·.1) ↔ res.avgNeededEnergy.isSome = true) ∧
    ("peak load time windows" ∈ (jsonKeys hasCst res).map (·.1) ↔ res.plwThreshold.isSome = true) ∧
    ("power peaks" ∈ (jsonKeys hasCst res).map (·.1) ↔ res.powerPeaks.isSome = true) ∧
    ("feed-in energy" ∈ (jsonKeys hasCst res).map (·.1) ↔ res.feedIn.isSome = true) ∧
    ("max. stored energy in batteries" ∈ (jsonKeys hasCst res).map (·.1) ↔ res.maxStored.isSome = true) ∧
    ("stationary battery cycles" ∈ (jsonKeys hasCst res).map (·.1) ↔ res.batCycles.isSome = true) ∧
    (∀ n ∈ ["temporal_parameters", "grid_connector", "photovoltaics", "charging_strategy", "sum of energy",
        "sum of energy per window", "avg standing time", "standing per window", "avg drawn power",
        "local energy generation", "all vehicle battery cycles", "times below desired soc"],
      n ∈ (jsonKeys hasCst res).map (·.1)) := by
  rw [jsonKeys_names]
  simp only [List.mem_append, List.mem_cons, List.mem_ite_nil_right, List.not_mem_nil, List.mem_singleton]
  refine ⟨?_, ?_, ?_, ?_, ?_, ?_, ?_, ?_, ?_⟩ <;> simp

end SpiceEv.ReportJson
