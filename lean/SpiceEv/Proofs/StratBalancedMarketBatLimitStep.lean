/-
The connector limit for the whole `BalancedMarket.step` with stationary batteries (repair BM2),
without V2G vehicles.
-/
import SpiceEv.Proofs.StratBalancedMarketBatLimit
import SpiceEv.Proofs.StratBalancedMarketLimitStep
set_option linter.unusedSectionVars false
set_option linter.unusedSimpArgs false
set_option linter.unusedVariables false
namespace SpiceEv.BalancedMarket
open SpiceEv
variable {α B : Type} [Field α] [LinearOrder α] [IsStrictOrderedRing α]

/-- what the battery block leaves alone: the connectors of the world, the id of the connector worked on,
the number of batteries and the sign of their minimum charging powers -/
theorem batteryBody_frame (ops : Ops α B) (env : Env α) (nCheap : Option Nat)
    (g g' : GSt α B) (bid : String)
    (h : batteryBody ops env nCheap g bid = .ok g') :
    g'.w.gcs = g.w.gcs ∧ g'.gc.id = g.gc.id ∧ g'.w.batteries.length = g.w.batteries.length ∧
      ((∀ b ∈ g.w.batteries, 0 ≤ b.minChargingPower) → ∀ b ∈ g'.w.batteries, 0 ≤ b.minChargingPower) := by
  unfold batteryBody at h
  split at h
  · cases h
  · rename_i b hb
    have hbm : b ∈ g.w.batteries := List.mem_of_find?_eq_some hb
    have hset : ∀ bt : B, (g.w.setBattery { b with bat := bt }).batteries.length = g.w.batteries.length ∧
        ((∀ b ∈ g.w.batteries, 0 ≤ b.minChargingPower) →
          ∀ b' ∈ (g.w.setBattery { b with bat := bt }).batteries, 0 ≤ b'.minChargingPower) := by
      intro bt
      refine ⟨by unfold SWorld.setBattery; simp, ?_⟩
      intro hmin b' hb'
      unfold SWorld.setBattery at hb'
      simp only [List.mem_map] at hb'
      obtain ⟨x, hx, rfl⟩ := hb'
      split
      · exact hmin b hbm
      · exact hmin x hx
    split at h
    · simp only [Except.ok.injEq] at h; subst h; exact ⟨rfl, rfl, rfl, fun hm => hm⟩
    · split at h
      · cases h
      · rename_i n
        simp only [bind, Except.bind] at h
        split at h
        · cases h
        · split at h
          · cases h
          · split at h
            · cases h
            · rename_i r3 hr3
              obtain ⟨hc1, hc2, hc3, _⟩ := addLoad_currentLoad g.gc bid r3.2
              split at h
              · split at h
                · cases h
                · rename_i r4 hr4
                  simp only [Except.ok.injEq] at h; subst h
                  obtain ⟨_, _, hd3, _⟩ := addLoad_currentLoad (g.gc.addLoad bid r3.2).1 bid (-r4.2)
                  exact ⟨rfl, by show ((g.gc.addLoad bid r3.2).1.addLoad bid (-r4.2)).1.id = g.gc.id; rw [hd3, hc3],
                    (hset _).1, (hset _).2⟩
              · simp only [Except.ok.injEq] at h; subst h
                exact ⟨rfl, hc3, (hset _).1, (hset _).2⟩

/-- `step_gc` with batteries: the other connectors are untouched, connector ids and the number of
batteries stay; the forecast was computed -/
theorem stepGc_frame_bat (ops : Ops α B) (law : BatLaw ops.toBatOps) (R : B → B → Prop)
    (sl : SimLaw ops R) (env : Env α) (w w' : SWorld α B) (gcId : String)
    (cmds : List (String × α)) (gc : GcS α) (hgc : w.gc? gcId = some gc)
    (heps : 0 ≤ env.eps) (hM : 0 ≤ gc.curMax) (hbase : gc.currentLoad ≤ gc.curMax)
    (hfut : ∀ e ∈ env.events, env.now < e.start) (hW : WInv w)
    (hnov2g : ∀ v ∈ w.vehicles, v.v2g = false)
    (hmin : ∀ b ∈ w.batteries, 0 ≤ b.minChargingPower)
    (h : stepGc ops env w gcId = .ok (w', cmds)) :
    (∀ x ∈ w'.gcs, x.id ≠ gcId → x ∈ w.gcs) ∧ w'.gcs.map (·.id) = w.gcs.map (·.id) ∧
      w'.batteries.length = w.batteries.length ∧ (∀ b ∈ w'.batteries, 0 ≤ b.minChargingPower) ∧
      ∃ ts0, timestepsOf ops env gc = .ok ts0 := by
  obtain ⟨_, hgid⟩ := gc?_some w gcId gc hgc
  unfold stepGc at h
  rw [hgc] at h
  simp only [bind, Except.bind] at h
  split at h
  · cases h
  · rename_i vs hvs
    split at h
    · cases h
    · rename_i vids hvids
      split at h
      · cases h
      · rename_i ts hts
        split at h
        · cases h
        · rename_i g1 hg1
          split at h
          · cases h
          · rename_i g2 hg2
            split at h
            · cases h
            · rename_i nCheap hn
              split at h
              · cases h
              · rename_i g3 hg3
                simp only [Except.ok.injEq, Prod.mk.injEq] at h
                obtain ⟨rfl, _⟩ := h
                have hhead := timestepsOf_head ops env gc ts hfut hts
                have h0 : GInv gc.curMax gc.currentLoad gcId (⟨w, gc, ts, [], []⟩ : GSt α B) ∧
                    (⟨w, gc, ts, [], []⟩ : GSt α B).w.batteries = w.batteries ∧
                    (⟨w, gc, ts, [], []⟩ : GSt α B).w.gcs = w.gcs :=
                  ⟨⟨rfl, hgid, le_refl _, hbase, fun t0 ht0 => by rw [hhead t0 ht0], rfl, hW, hnov2g⟩, rfl, rfl⟩
                have h1 := foldlM_inv _
                  (fun g => GInv gc.curMax gc.currentLoad gcId g ∧ g.w.batteries = w.batteries ∧ g.w.gcs = w.gcs)
                  (fun g vid g' hg hstep =>
                    ⟨vehicleBody_GInv ops law R sl env _ _ gcId g g' vid hg.1 hstep,
                     by rw [vehicleBody_batteries ops env g g' vid hstep]; exact hg.2.1,
                     by rw [vehicleBody_gcs ops env g g' vid hstep]; exact hg.2.2⟩)
                  vids _ g1 h0 hg1
                have h2 := foldlM_inv _
                  (fun g => GInv2 gc.curMax gc.currentLoad gcId g ∧ g.w.batteries = w.batteries ∧ g.w.gcs = w.gcs)
                  (fun g vid g' hg hstep =>
                    ⟨surplusBody_GInv2 ops law env _ _ gcId heps hM g g' vid hg.1 hstep,
                     by rw [surplusBody_batteries ops env g g' vid hstep]; exact hg.2.1,
                     by rw [surplusBody_gcs ops env g g' vid hstep]; exact hg.2.2⟩)
                  vids _ g2 ⟨h1.1.toGInv2, h1.2⟩ hg2
                have h3 := foldlM_inv _
                  (fun g => g.w.gcs = w.gcs ∧ g.gc.id = gcId ∧ g.w.batteries.length = w.batteries.length ∧
                    ∀ b ∈ g.w.batteries, 0 ≤ b.minChargingPower)
                  (fun g bid g' hg hstep => by
                    obtain ⟨f1, f2, f3, f4⟩ := batteryBody_frame ops env nCheap g g' bid hstep
                    exact ⟨by rw [f1]; exact hg.1, by rw [f2]; exact hg.2.1, by rw [f3]; exact hg.2.2.1,
                      f4 hg.2.2.2⟩)
                  _ _ g3 ⟨h2.2.2, h2.1.gcid, by rw [h2.2.1], by rw [h2.2.1]; exact hmin⟩ hg3
                refine ⟨?_, ?_, h3.2.2.1, h3.2.2.2, ts, hts⟩
                · intro x hx hid
                  rcases mem_setGc _ _ x hx with rfl | ⟨hm, _⟩
                  · exact absurd h3.2.1 hid
                  · rw [h3.1] at hm; exact hm
                · rw [setGc_ids, h3.1]

/-- fold over the connector ids, with stationary batteries -/
theorem stepFold_limit_bat (ops : Ops α B) (law : BatLaw ops.toBatOps) (R : B → B → Prop)
    (sl : SimLaw ops R) (env : Env α) (w0 : SWorld α B) (heps : 0 ≤ env.eps)
    (hfut : ∀ e ∈ env.events, env.now < e.start)
    (hbase : ∀ g ∈ w0.gcs, 0 ≤ g.curMax ∧ -g.curMax ≤ g.currentLoad ∧ g.currentLoad ≤ g.curMax)
    (hmode : w0.batteries.length ≤ 1 ∨ ∀ g ∈ w0.gcs, ∀ ts0, timestepsOf ops env g = .ok ts0 →
      ∃ k, numCheap env.priceThreshold ts0 = .ok (some (k + 1))) :
    ∀ (rest done : List String) (st st' : SWorld α B × List (String × α)),
      (∀ id ∈ rest, id ∉ done) → rest.Nodup →
      st.1.gcs.map (·.id) = w0.gcs.map (·.id) → WInv st.1 → NoV2g st.1 → NNInv st.1 →
      st.1.batteries.length = w0.batteries.length → (∀ b ∈ st.1.batteries, 0 ≤ b.minChargingPower) →
      (∀ g' ∈ st.1.gcs, (g'.id ∈ done → ∃ g ∈ w0.gcs, g.id = g'.id ∧ -g.curMax ≤ g'.currentLoad ∧
          g'.currentLoad ≤ g.curMax ∧ g'.curMax = g.curMax) ∧ (g'.id ∉ done → g' ∈ w0.gcs)) →
      rest.foldlM (fun (st : SWorld α B × List (String × α)) gid => do
        let (w', c) ← stepGc ops env st.1 gid
        pure (w', sdUpdate st.2 c)) st = .ok st' →
      st'.1.gcs.map (·.id) = w0.gcs.map (·.id) ∧
      ∀ g' ∈ st'.1.gcs, (g'.id ∈ done ++ rest → ∃ g ∈ w0.gcs, g.id = g'.id ∧
          -g.curMax ≤ g'.currentLoad ∧ g'.currentLoad ≤ g.curMax ∧ g'.curMax = g.curMax) ∧
        (g'.id ∉ done ++ rest → g' ∈ w0.gcs) := by
  intro rest
  induction rest with
  | nil =>
    intro done st st' _ _ hids _ _ _ _ _ hI h
    simp only [List.foldlM_nil, pure, Except.pure, Except.ok.injEq] at h
    subst h
    exact ⟨hids, by simpa using hI⟩
  | cons gid rest ih =>
    intro done st st' hnew hnd hids hW hnv hnn hbl hmin hI h
    simp only [List.foldlM_cons, bind, Except.bind] at h
    split at h
    · cases h
    · rename_i st1 hst1
      split at hst1
      · cases hst1
      · rename_i r hr
        obtain ⟨w1, c1⟩ := r
        simp only [pure, Except.pure, Except.ok.injEq] at hst1
        subst hst1
        have hgidnew : gid ∉ done := hnew gid (List.mem_cons_self ..)
        cases hgc : st.1.gc? gid with
        | none => unfold stepGc at hr; rw [hgc] at hr; cases hr
        | some gc =>
          obtain ⟨hgm, hgid⟩ := gc?_some st.1 gid gc hgc
          have hg0 : gc ∈ w0.gcs := (hI gc hgm).2 (by rw [hgid]; exact hgidnew)
          obtain ⟨hM, hlo, hb⟩ := hbase gc hg0
          obtain ⟨hfr, hids1, hbl1, hmin1, ts0, hts0⟩ := stepGc_frame_bat ops law R sl env st.1 w1 gid c1 gc
            hgc heps hM hb hfut hW hnv hmin hr
          have hmode' : st.1.batteries.length ≤ 1 ∨
              ∃ k, numCheap env.priceThreshold ts0 = .ok (some (k + 1)) := by
            rcases hmode with hm | hm
            · left; rw [hbl]; exact hm
            · right; exact hm gc hg0 ts0 hts0
          have hlim := stepGc_limit_bat ops law R sl env st.1 w1 gid c1 gc hgc heps hM hlo hb hfut hW hnv
            hmin ts0 hts0 hmode' hr
          have hW1 := stepGc_WInv ops law env st.1 w1 gid c1 hW hr
          have hsv := stepGc_sv ops env (fun w => NoV2g w ∧ NNInv w)
            (fun w1 w2 hs hv hp => by
              unfold NoV2g NNInv at *
              rw [hs, hv]; exact hp)
            (fun g g' vid hp hstep => vehicleBody_nn ops law env g g' vid hp.1 hp.2 hstep)
            (fun g g' vid hp hstep => surplusBody_nn ops law env g g' vid hp.1 hp.2 hstep)
            st.1 w1 gid c1 ⟨hnv, hnn⟩ hr
          have hres := ih (done ++ [gid]) (w1, sdUpdate st.2 c1) st'
            (by
              intro id hid hmem
              rcases List.mem_append.mp hmem with hm | hm
              · exact hnew id (List.mem_cons_of_mem _ hid) hm
              · simp only [List.mem_singleton] at hm
                subst hm
                exact (List.nodup_cons.mp hnd).1 hid)
            (List.nodup_cons.mp hnd).2 (by rw [hids1]; exact hids) hW1 hsv.1 hsv.2
            (by rw [hbl1]; exact hbl) hmin1
            (by
              intro g' hg'
              by_cases hid : g'.id = gid
              · constructor
                · intro _
                  obtain ⟨l1, l2, l3⟩ := hlim g' hg' hid
                  exact ⟨gc, hg0, by rw [hgid, hid], l1, l2, l3⟩
                · intro hnot
                  exfalso; apply hnot
                  rw [hid]; simp
              · have hold := hfr g' hg' hid
                constructor
                · intro hmem
                  rcases List.mem_append.mp hmem with hm | hm
                  · exact (hI g' hold).1 hm
                  · simp only [List.mem_singleton] at hm
                    exact absurd hm hid
                · intro hnot
                  apply (hI g' hold).2
                  intro hm
                  exact hnot (List.mem_append_left _ hm))
            h
          simpa [List.append_assoc] using hres

/-- **the whole step, all connectors, with stationary batteries** -/
theorem step_limit_bat (ops : Ops α B) (law : BatLaw ops.toBatOps) (R : B → B → Prop)
    (sl : SimLaw ops R) (env : Env α) (w w' : SWorld α B) (cmds : List (String × α))
    (heps : 0 ≤ env.eps) (hfut : ∀ e ∈ env.events, env.now < e.start)
    (hmax : ∀ s ∈ w.stations, 0 ≤ s.maxPower) (hnov2g : ∀ v ∈ w.vehicles, v.v2g = false)
    (hmin : ∀ b ∈ w.batteries, 0 ≤ b.minChargingPower) (hnd : (w.gcs.map (·.id)).Nodup)
    (hbase : ∀ g ∈ w.gcs, 0 ≤ g.curMax ∧ -g.curMax ≤ g.currentLoad ∧ g.currentLoad ≤ g.curMax)
    (hmode : w.batteries.length ≤ 1 ∨ ∀ g ∈ w.gcs, ∀ ts0, timestepsOf ops env g = .ok ts0 →
      ∃ k, numCheap env.priceThreshold ts0 = .ok (some (k + 1)))
    (h : step ops env w = .ok (w', cmds)) :
    ∀ g' ∈ w'.gcs, ∃ g ∈ w.gcs, g.id = g'.id ∧ -g.curMax ≤ g'.currentLoad ∧
      g'.currentLoad ≤ g.curMax ∧ g'.curMax = g.curMax := by
  unfold step at h
  have h0 : WInv (resetStations w) := by
    intro s hs
    unfold resetStations at hs
    simp only [List.mem_map] at hs
    obtain ⟨x, hx, rfl⟩ := hs
    have := hmax x hx
    exact ⟨by show -x.maxPower ≤ 0; linarith, this⟩
  have hnn0 : NNInv (resetStations w) := by
    intro s hs
    unfold resetStations at hs
    simp only [List.mem_map] at hs
    obtain ⟨x, _, rfl⟩ := hs
    exact le_refl _
  have hres := stepFold_limit_bat ops law R sl env w heps hfut hbase hmode (w.gcs.map (·.id)) []
    (resetStations w, []) (w', cmds)
    (by intro id _ hm; simp at hm) hnd rfl h0 (by intro v hv; exact hnov2g v hv) hnn0 rfl
    (by intro b hb; exact hmin b hb)
    (by intro g' hg'; exact ⟨by intro hm; simp at hm, fun _ => hg'⟩) h
  intro g' hg'
  apply (hres.2 g' hg').1
  simp only [List.nil_append]
  rw [← hres.1]
  exact List.mem_map_of_mem hg'

end SpiceEv.BalancedMarket
