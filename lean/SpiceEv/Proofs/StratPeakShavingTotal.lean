/-
C17 (termination) for the WHOLE step of the charging strategy `peak_shaving` (Model/StratPeakShaving.lean):
`PeakShaving.step` / `stepGc` never answer with the model's own `FUEL` marker.  The per-loop statements
(`fcLoop_terminates`, `batteryPlan_noFuel`) are in Proofs/StratPeakShaving.lean; this file propagates them through
every `match … | .error e => .error e`, the recursions over vehicles / events / timesteps and the two `foldlM`s.

Which fuel each loop gets in the model:
* `fcLoop` (the `while` of `fast_charge`): `2 * pls.length + 2`, computed by the model itself — never exhausted for
  `0 < EPS` (no hypothesis on the world needed);
* `bisect1`, `bisect2` (per stationary battery): `env.fuel` — enough when every level of the predicted power curve
  is at most `EPS · 2^env.fuel`.
-/
import SpiceEv.Proofs.StratPeakShaving
import SpiceEv.Proofs.StratPeakShavingVeh
set_option linter.unusedSectionVars false
set_option linter.unusedSimpArgs false
set_option linter.unusedVariables false
namespace SpiceEv.PeakShaving.Total
open SpiceEv SpiceEv.PeakShaving
variable {α B : Type} [Field α] [LinearOrder α] [IsStrictOrderedRing α]

/-! ### generic -/

/-- a propagated error of a computation that never answers `FUEL` is not `FUEL` -/
theorem err_nf {β γ : Type} {x : Py β} (hx : x ≠ .error .fuel) {e : PyErr} (he : x = .error e) :
    (Except.error e : Py γ) ≠ .error .fuel := by
  intro h
  simp only [Except.error.injEq] at h
  subst h
  exact hx he

theorem bind_nf {β γ : Type} (x : Py β) (f : β → Py γ) (hx : x ≠ .error .fuel)
    (hf : ∀ a, x = .ok a → f a ≠ .error .fuel) : (x >>= f) ≠ .error .fuel := by
  cases x with
  | error e =>
    simp only [bind, Except.bind]
    intro hc; cases hc; exact hx rfl
  | ok a => exact hf a rfl

theorem mapM_nf {β γ : Type} (f : β → Py γ) (hf : ∀ a, f a ≠ .error .fuel) (l : List β) :
    l.mapM f ≠ .error .fuel := by
  induction l with
  | nil => simp [List.mapM_nil, pure, Except.pure]
  | cons a rest ih =>
    rw [List.mapM_cons]
    refine bind_nf _ _ (hf a) (fun b _ => bind_nf _ _ ih (fun bs _ => ?_))
    simp [pure, Except.pure]

/-- a `foldlM` never answers `FUEL` when no pass does — the pass for element `a` is looked at in the state reached
after the elements before it -/
theorem foldlM_nf_prefix {β σ : Type} (f : σ → β → Py σ) (l : List β) (s0 : σ)
    (h : ∀ pre a post, l = pre ++ a :: post → ∀ s, pre.foldlM f s0 = .ok s → f s a ≠ .error .fuel) :
    l.foldlM f s0 ≠ .error .fuel := by
  induction l generalizing s0 with
  | nil => simp [List.foldlM, pure, Except.pure]
  | cons a rest ih =>
    rw [List.foldlM_cons]
    refine bind_nf _ _ (h [] a rest rfl s0 rfl) (fun s' hs' => ih s' ?_)
    intro pre b post hl s hs
    refine h (a :: pre) b post (by rw [hl]; rfl) s ?_
    rw [List.foldlM_cons, hs']
    exact hs

theorem pdiv_nf (a b : α) : pdiv a b ≠ .error .fuel := by
  intro h
  cases pdiv_err _ _ _ h

theorem timestepsAhead_nf (env : Env α) : timestepsAhead env ≠ .error .fuel := by
  unfold timestepsAhead
  split <;> simp

/-! ### the look-ahead (no fuel-guarded loop: one pass per visible event / timestep / vehicle) -/

theorem initialArrivals_nf (env : Env α) (w : SWorld α B) (gcId : String) (vs : List (VehicleS α B))
    (present : List (String × Nat)) (arr : List (VInfo α B)) :
    initialArrivals env w gcId vs present arr ≠ .error .fuel := by
  induction vs generalizing present arr with
  | nil => simp [initialArrivals]
  | cons v rest ih =>
    unfold initialArrivals
    split
    · exact ih _ _
    · split
      · simp
      · split
        · exact ih _ _
        · exact ih _ _

theorem applyEvent_nf (ops : Ops α B) (env : Env α) (w : SWorld α B) (gcId : String) (tIdx : Int)
    (st : Look α B) (e : Ev α) : applyEvent ops env w gcId tIdx st e ≠ .error .fuel := by
  cases e <;> simp only [applyEvent] <;> (repeat' split) <;> simp

theorem peek_nf (ops : Ops α B) (env : Env α) (w : SWorld α B) (gcId : String) (tIdx curTime : Int)
    (evs : List (Ev α)) (st : Look α B) : peek ops env w gcId tIdx curTime evs st ≠ .error .fuel := by
  induction evs generalizing st with
  | nil => simp [peek]
  | cons e rest ih =>
    unfold peek
    split
    · simp
    · split
      · rename_i err he
        exact err_nf (applyEvent_nf ops env w gcId tIdx st e) he
      · exact ih _

theorem lookAhead_nf (ops : Ops α B) (env : Env α) (w : SWorld α B) (gcId : String) (k : Nat) (tIdx : Int)
    (evs : List (Ev α)) (st : Look α B) (acc : List (TS α)) :
    lookAhead ops env w gcId k tIdx evs st acc ≠ .error .fuel := by
  induction k generalizing tIdx evs st acc with
  | zero => simp [lookAhead]
  | succ k ih =>
    unfold lookAhead
    split
    · rename_i err he
      exact err_nf (peek_nf ops env w gcId tIdx _ evs st) he
    · exact ih _ _ _ _

theorem forecast_nf (ops : Ops α B) (env : Env α) (w : SWorld α B) (events : List (Ev α)) (gc : GcS α)
    (nAhead : Int) : forecast ops env w events gc nAhead ≠ .error .fuel := by
  unfold forecast
  split
  · rename_i e he
    exact err_nf (initialArrivals_nf env w gc.id _ _ _) he
  · split
    · rename_i e he
      exact err_nf (lookAhead_nf ops env w gc.id _ _ _ _ _) he
    · simp

/-! ### `fast_charge` and the vehicle passes: `fcLoop` runs on `2 * pls.length + 2`, enough for `0 < EPS` -/

theorem fcLevels_nf (ts : List (TS α)) (a d : Int) : fcLevels ts a d ≠ .error .fuel := by
  unfold fcLevels
  apply mapM_nf
  intro i
  split
  · rename_i e he
    exact err_nf (pyIndex_noFuel ts i) he
  · simp

theorem fcCharge_nf (ops : Ops α B) (hn : NoFuelErr ops) (cs : StationS α) (vMin optPower : α)
    (chosen : List (α × Int)) (b : B) (ts : List (TS α)) (delta command : α) :
    fcCharge ops cs vMin optPower chosen b ts delta command ≠ .error .fuel := by
  induction chosen generalizing b ts delta command with
  | nil => simp [fcCharge]
  | cons pl rest ih =>
    unfold fcCharge
    split
    · rename_i e he
      exact err_nf (pyIndex_noFuel ts pl.2) he
    · simp only
      split
      · rename_i e he
        exact err_nf (hn _ _ _ _).1 he
      · exact ih _ _ _ _

theorem fcOptPower_nf (eps energyNeeded tsph eff : α) (s : FcState α) :
    fcOptPower eps energyNeeded tsph eff s ≠ .error .fuel := by
  unfold fcOptPower
  split
  · split
    · rename_i e he
      exact err_nf (pdiv_nf _ _) he
    · split
      · rename_i e he
        exact err_nf (pdiv_nf _ _) he
      · simp
  · simp

theorem fastCharge_nf (ops : Ops α B) (hn : NoFuelErr ops) (env : Env α) (heps : 0 < env.eps) (w : SWorld α B)
    (vi : VInfo α B) (a d : Int) (ts : List (TS α)) : fastCharge ops env w vi a d ts ≠ .error .fuel := by
  unfold fastCharge
  split
  · simp
  · split
    · simp
    · split
      · rename_i e he
        exact err_nf (fcLevels_nf ts a d) he
      · simp only
        split
        · rename_i e he
          exact err_nf (pyIndex_noFuel _ _) he
        · rename_i first hfirst
          obtain ⟨r, hr⟩ := pyIndex_zero _ _ hfirst
          split
          · rename_i e he
            refine err_nf (fcLoop_terminates env.eps vi.energyNeeded env.tsPerHour _ _ _ heps _ _ first ?_) he
            rw [hr]; rfl
          · split
            · rename_i e he
              exact err_nf (fcOptPower_nf _ _ _ _ _) he
            · split
              · rename_i e he
                exact err_nf (fcCharge_nf ops hn _ _ _ _ _ _ _ _) he
              · simp

theorem scaleVehicle_nf (ops : Ops α B) (nAhead : Int) (vi : VInfo α B) (energyNeeded : α) (departIdx : Int) :
    scaleVehicle ops nAhead vi energyNeeded departIdx ≠ .error .fuel := by
  unfold scaleVehicle
  split
  · split
    · rename_i e he
      exact err_nf (pdiv_nf _ _) he
    · simp
  · simp

theorem adjustVehicle_nf (ops : Ops α B) (hn : NoFuelErr ops) (env : Env α) (heps : 0 < env.eps) (w : SWorld α B)
    (gcCurMax : α) (nAhead : Int) (ts : List (TS α)) (vi : VInfo α B) (departIdx : Int) :
    adjustVehicle ops env w gcCurMax nAhead ts vi departIdx ≠ .error .fuel := by
  unfold adjustVehicle
  simp only
  split
  · split
    · simp
    · split
      · rename_i e he
        exact err_nf (pdiv_nf _ _) he
      · split
        · rename_i e he
          exact err_nf (pyIndex_noFuel _ _) he
        · simp
  · split
    · rename_i e he
      exact err_nf (scaleVehicle_nf ops nAhead vi _ departIdx) he
    · split
      · rename_i e he
        exact err_nf (fastCharge_nf ops hn env heps w _ _ _ _) he
      · simp

theorem adjustAll_nf (ops : Ops α B) (hn : NoFuelErr ops) (env : Env α) (heps : 0 < env.eps) (w : SWorld α B)
    (gcCurMax : α) (nAhead : Int) (vs : List (VInfo α B)) (ts : List (TS α)) (done : List (VInfo α B)) :
    adjustAll ops env w gcCurMax nAhead vs ts done ≠ .error .fuel := by
  induction vs generalizing ts done with
  | nil => simp [adjustAll]
  | cons vi rest ih =>
    unfold adjustAll
    split
    · exact ih _ _
    · split
      · rename_i e he
        exact err_nf (adjustVehicle_nf ops hn env heps w gcCurMax nAhead ts vi _) he
      · exact ih _ _

/-! ### the surplus / apply pass -/

theorem offerSurplus_nf (w : SWorld α B) (vi : VInfo α B) (surplus : α) :
    offerSurplus w vi surplus ≠ .error .fuel := by
  unfold offerSurplus
  split
  · split <;> simp
  · simp

theorem applyVehicles_nf (ops : Ops α B) (hn : NoFuelErr ops) (s0 : α) (vs : List (VInfo α B)) (used : α)
    (acc : Acc α B) : applyVehicles ops s0 vs used acc ≠ .error .fuel := by
  induction vs generalizing used acc with
  | nil => simp [applyVehicles]
  | cons vi rest ih =>
    unfold applyVehicles
    split
    · exact ih _ _
    · split
      · rename_i e he
        exact err_nf (offerSurplus_nf _ _ _) he
      · split
        · split
          · simp
          · split
            · rename_i e he
              exact err_nf (hn _ _ _ _).1 he
            · exact ih _ _
        · exact ih _ _

theorem applyPass_nf (ops : Ops α B) (hn : NoFuelErr ops) (w : SWorld α B) (gc : GcS α) (ts : List (TS α))
    (vehicles : List (VInfo α B)) : applyPass ops w gc ts vehicles ≠ .error .fuel := by
  unfold applyPass
  split
  · split
    · rename_i e he
      exact err_nf (pyIndex_noFuel _ _) he
    · exact applyVehicles_nf ops hn _ _ _ _
  · simp

/-! ### the battery pass: both bisections run on `env.fuel` -/

theorem applyBattery_nf (ops : Ops α B) (hn : NoFuelErr ops) (b : B) (cur : α) :
    applyBattery ops b cur ≠ .error .fuel := by
  unfold applyBattery
  split
  · split
    · rename_i e he
      exact err_nf (hn _ _ _ _).2 he
    · simp
  · exact (hn _ _ _ _).1

/-- one battery: never `FUEL` when the levels of the curve it plans on (the present load in front) are at most
`EPS · 2^fuel` -/
theorem batteryStep_nf (ops : Ops α B) (law : BatLaw ops.bat) (hn : NoFuelErr ops) (env : Env α)
    (heps : 0 ≤ env.eps) (nAhead : Int) (gcId : String) (st : Acc α B × List (TS α)) (b0 : StatBatS α B)
    (hlev : ∀ t0, pyIndex st.2 0 = .ok t0 →
      ∀ pl ∈ powerLevels nAhead (st.2.set 0 { t0 with curPower := st.1.gc.currentLoad }),
        pl ≤ env.eps * 2 ^ env.fuel) :
    batteryStep ops env nAhead gcId st b0 ≠ .error .fuel := by
  unfold batteryStep
  split
  · simp
  · split
    · simp
    · split
      · rename_i e he
        exact err_nf (pyIndex_noFuel _ _) he
      · rename_i t0 ht0
        simp only
        split
        · rename_i e he
          exact err_nf (batteryPlan_noFuel ops law hn env heps nAhead _ _ (hlev t0 ht0)) he
        · split
          · rename_i e he
            exact err_nf (applyBattery_nf ops hn _ _) he
          · simp

/-- all batteries of a connector: never `FUEL` when the levels of the later timesteps, the connector's load before
the battery pass and its limit are at most `EPS · 2^fuel` (the repaired code keeps the load below
`max(load, limit)` from battery to battery) -/
theorem batteryFold_nf (ops : Ops α B) (law : BatLaw ops.bat) (hn : NoFuelErr ops) (env : Env α)
    (heps : 0 ≤ env.eps) (nAhead : Int) (gcId : String) (bs : List (StatBatS α B)) (st : Acc α B × List (TS α))
    (htail : ∀ pl ∈ (powerLevels nAhead st.2).tail, pl ≤ env.eps * 2 ^ env.fuel)
    (hload : st.1.gc.currentLoad ≤ env.eps * 2 ^ env.fuel) (hmax : st.1.gc.curMax ≤ env.eps * 2 ^ env.fuel) :
    bs.foldlM (batteryStep ops env nAhead gcId) st ≠ .error .fuel := by
  induction bs generalizing st with
  | nil => simp [List.foldlM, pure, Except.pure]
  | cons b rest ih =>
    rw [List.foldlM_cons]
    refine bind_nf _ _ ?_ ?_
    · apply batteryStep_nf ops law hn env heps
      intro t0 ht0 pl hpl
      obtain ⟨r, hr⟩ := pyIndex_zero _ _ ht0
      have htl := powerLevels_set_tail nAhead st.2 { t0 with curPower := st.1.gc.currentLoad }
      rw [hr] at hpl htl
      obtain ⟨rest', hrest'⟩ := powerLevels_head nAhead t0 { t0 with curPower := st.1.gc.currentLoad } r
      rw [hrest'] at hpl htl
      simp only [List.tail_cons] at htl
      rcases List.mem_cons.mp hpl with rfl | hm
      · exact hload
      · apply htail
        rw [hr, ← htl]
        exact hm
    · intro st' hst'
      obtain ⟨acc, ts⟩ := st
      obtain ⟨acc', ts'⟩ := st'
      obtain ⟨_, _, hcm, _, _, hlim⟩ := batteryStep_bounds ops law env heps nAhead gcId acc acc' ts ts' b hst'
      obtain ⟨htl, _⟩ := batteryStep_ts ops env nAhead gcId _ _ b hst'
      apply ih
      · simp only at htl htail ⊢
        rw [htl]
        exact htail
      · exact le_trans hlim (max_le hload hmax)
      · simp only at hcm hmax ⊢
        rw [hcm]
        exact hmax

/-- **Bracket hypothesis of the battery bisections of one connector** (`gc` in world `w`, bound `L`), stated on the
curve the battery pass reads: after the look-ahead, the vehicle planning and the surplus pass every predicted level
from the second timestep on, the connector's load and the connector's limit are at most `L`. -/
def CurveBelow (ops : Ops α B) (env : Env α) (events : List (Ev α)) (w : SWorld α B) (gc : GcS α) (L : α) : Prop :=
  ∀ nAhead arr ts0 ts vehicles acc, timestepsAhead env = .ok nAhead →
    forecast ops env w events gc nAhead = .ok (arr, ts0) →
    adjustAll ops env w gc.curMax nAhead (orderVehicles nAhead arr) ts0 [] = .ok (ts, vehicles) →
    applyPass ops w gc ts vehicles = .ok acc →
    (∀ pl ∈ (powerLevels nAhead ts).tail, pl ≤ L) ∧ acc.gc.currentLoad ≤ L ∧ acc.gc.curMax ≤ L

/-- `step_gc` never answers `FUEL`, given the bracket hypothesis on the intermediate curve -/
theorem stepGc_nf_of_curve (ops : Ops α B) (law : BatLaw ops.bat) (hn : NoFuelErr ops) (env : Env α)
    (heps : 0 < env.eps) (events : List (Ev α)) (w : SWorld α B) (gc : GcS α)
    (hcurve : CurveBelow ops env events w gc (env.eps * 2 ^ env.fuel)) :
    stepGc ops env events w gc ≠ .error .fuel := by
  unfold stepGc
  split
  · rename_i e he
    exact err_nf (timestepsAhead_nf env) he
  · rename_i nAhead hnA
    split
    · rename_i e he
      exact err_nf (forecast_nf ops env w events gc nAhead) he
    · rename_i arr ts0 hfc
      split
      · rename_i e he
        exact err_nf (adjustAll_nf ops hn env heps w _ _ _ _ _) he
      · rename_i ts vehicles hadj
        split
        · rename_i e he
          exact err_nf (applyPass_nf ops hn w gc ts vehicles) he
        · rename_i acc hap
          obtain ⟨h1, h2, h3⟩ := hcurve nAhead arr ts0 ts vehicles acc hnA hfc hadj hap
          split
          · rename_i e he
            exact err_nf (batteryFold_nf ops law hn env heps.le nAhead gc.id _ (acc, ts) h1 h2 h3) he
          · simp

/-- `step_gc` for a connector without a stationary battery: never `FUEL`, no bracket hypothesis -/
theorem stepGc_nf_nobat (ops : Ops α B) (hn : NoFuelErr ops) (env : Env α)
    (heps : 0 < env.eps) (events : List (Ev α)) (w : SWorld α B) (gc : GcS α)
    (hnb : ∀ b ∈ w.batteries, b.parent ≠ gc.id) :
    stepGc ops env events w gc ≠ .error .fuel := by
  unfold stepGc
  split
  · rename_i e he
    exact err_nf (timestepsAhead_nf env) he
  · rename_i nAhead hnA
    split
    · rename_i e he
      exact err_nf (forecast_nf ops env w events gc nAhead) he
    · rename_i arr ts0 hfc
      split
      · rename_i e he
        exact err_nf (adjustAll_nf ops hn env heps w _ _ _ _ _) he
      · rename_i ts vehicles hadj
        split
        · rename_i e he
          exact err_nf (applyPass_nf ops hn w gc ts vehicles) he
        · rename_i acc hap
          split
          · rename_i e he
            intro hc
            simp only [Except.error.injEq] at hc
            subst hc
            have : ∀ (bs : List (StatBatS α B)) (st : Acc α B × List (TS α)), (∀ b ∈ bs, b.parent ≠ gc.id) →
                bs.foldlM (batteryStep ops env nAhead gc.id) st = .ok st := by
              intro bs
              induction bs with
              | nil => intro st _; rfl
              | cons b rest ih =>
                intro st hbs
                rw [List.foldlM_cons]
                have hb : batteryStep ops env nAhead gc.id st b = .ok st := by
                  unfold batteryStep
                  have : (b.parent != gc.id) = true := by simpa using hbs b (List.mem_cons_self ..)
                  simp only [this, if_true]
                rw [hb]
                exact ih st (fun x hx => hbs x (List.mem_cons_of_mem _ hx))
            rw [this _ _ hnb] at he
            cases he
          · simp

/-- the stationary batteries of the world are not touched by `step_gc` on a connector without a battery -/
theorem stepGc_batteries_nobat (ops : Ops α B) (env : Env α) (events : List (Ev α)) (w w' : SWorld α B)
    (gc : GcS α) (hnb : ∀ b ∈ w.batteries, b.parent ≠ gc.id) (cmds : List (String × α)) (fc : List α)
    (h : stepGc ops env events w gc = .ok (w', cmds, fc)) : w'.batteries = w.batteries := by
  obtain ⟨nAhead, arr, ts0, ts, vehicles, acc1, acc2, ts2, _, _, _, hap, hfold, hw, _⟩ :=
    stepGc_fold ops env events w w' gc cmds fc h
  have := batteryFold_none ops env nAhead gc.id _ hnb _ _ hfold
  simp only [Prod.mk.injEq] at this
  obtain ⟨rfl, _⟩ := this
  subst hw
  have hb : acc2.world.batteries = w.batteries := by
    rcases applyPass_trace ops w gc ts vehicles acc2 hap with ⟨_, rfl⟩ | ⟨t0, _, htr⟩
    · rfl
    · exact (vehTrace_world ops _ _ _ htr).2.1
  unfold SWorld.setGc
  exact hb

/-! ### the whole step: connector after connector -/

/-- the pass of `step` for one connector (the `fun` inside `PeakShaving.step`) -/
def stepBody (ops : Ops α B) (env : Env α) (events : List (Ev α))
    (st : SWorld α B × List (String × α) × List α) (g0 : GcS α) :
    Py (SWorld α B × List (String × α) × List α) :=
  match st.1.gc? g0.id with
  | none => .ok st
  | some gc => do
    let (w', cmds, sched) ← stepGc ops env events st.1 gc
    .ok (w', sdUpdate st.2.1 cmds, st.2.2 ++ sched)

theorem step_eq (ops : Ops α B) (env : Env α) (events : List (Ev α)) (w : SWorld α B) :
    step ops env events w = w.gcs.foldlM (stepBody ops env events) (w, [], []) := rfl

theorem stepBody_nf (ops : Ops α B) (env : Env α) (events : List (Ev α))
    (st : SWorld α B × List (String × α) × List α) (g0 : GcS α)
    (h : ∀ gc, st.1.gc? g0.id = some gc → stepGc ops env events st.1 gc ≠ .error .fuel) :
    stepBody ops env events st g0 ≠ .error .fuel := by
  unfold stepBody
  split
  · simp
  · rename_i gc hgc
    refine bind_nf _ _ (h gc hgc) ?_
    intro a _
    obtain ⟨w', cmds, sched⟩ := a
    simp

/-- the bracket hypothesis for the whole step: for every connector, in the world reached after the connectors
before it -/
def StepCurveBelow (ops : Ops α B) (env : Env α) (events : List (Ev α)) (w : SWorld α B) (L : α) : Prop :=
  ∀ pre g0 post, w.gcs = pre ++ g0 :: post →
    ∀ st, pre.foldlM (stepBody ops env events) (w, [], []) = .ok st →
      ∀ gc, st.1.gc? g0.id = some gc → CurveBelow ops env events st.1 gc L

theorem step_nf_of_curve (ops : Ops α B) (law : BatLaw ops.bat) (hn : NoFuelErr ops) (env : Env α)
    (heps : 0 < env.eps) (events : List (Ev α)) (w : SWorld α B)
    (hcurve : StepCurveBelow ops env events w (env.eps * 2 ^ env.fuel)) :
    step ops env events w ≠ .error .fuel := by
  rw [step_eq]
  apply foldlM_nf_prefix
  intro pre g0 post hl st hst
  apply stepBody_nf
  intro gc hgc
  exact stepGc_nf_of_curve ops law hn env heps events st.1 gc (hcurve pre g0 post hl st hst gc hgc)

theorem step_nf_nobat (ops : Ops α B) (hn : NoFuelErr ops) (env : Env α)
    (heps : 0 < env.eps) (events : List (Ev α)) (w : SWorld α B)
    (hnb : ∀ b ∈ w.batteries, ∀ g ∈ w.gcs, b.parent ≠ g.id) :
    step ops env events w ≠ .error .fuel := by
  rw [step_eq]
  have key : ∀ (gs : List (GcS α)) (st : SWorld α B × List (String × α) × List α),
      (∀ g ∈ gs, g ∈ w.gcs) → st.1.batteries = w.batteries →
      gs.foldlM (stepBody ops env events) st ≠ .error .fuel := by
    intro gs
    induction gs with
    | nil => intro st _ _; simp [List.foldlM, pure, Except.pure]
    | cons g0 rest ih =>
      intro st hgs hbat
      rw [List.foldlM_cons]
      have hg0 : g0 ∈ w.gcs := hgs g0 (List.mem_cons_self ..)
      have hnb' : ∀ gc, st.1.gc? g0.id = some gc → ∀ b ∈ st.1.batteries, b.parent ≠ gc.id := by
        intro gc hgc b hb
        rw [(gc?_some _ _ _ hgc).2]
        rw [hbat] at hb
        exact hnb b hb g0 hg0
      refine bind_nf _ _ ?_ ?_
      · apply stepBody_nf
        intro gc hgc
        exact stepGc_nf_nobat ops hn env heps events st.1 gc (hnb' gc hgc)
      · intro st' hst'
        apply ih st' (fun g hg => hgs g (List.mem_cons_of_mem _ hg))
        unfold stepBody at hst'
        split at hst'
        · simp only [Except.ok.injEq] at hst'
          subst hst'
          exact hbat
        · rename_i gc hgc
          simp only [bind, Except.bind] at hst'
          split at hst'
          · cases hst'
          · rename_i r hr
            obtain ⟨w1, cmds1, sched1⟩ := r
            simp only [Except.ok.injEq] at hst'
            subst hst'
            simp only
            rw [stepGc_batteries_nobat ops env events st.1 w1 gc (hnb' gc hgc) cmds1 sched1 hr]
            exact hbat
  exact key _ _ (fun g hg => hg) rfl

/-! ### the bracket hypothesis from the initial world, part 1: the vehicle planning keeps the curve below `L` -/

/-- every entry of the predicted curve: limit, predicted power and fixed load are at most `L` -/
def TsLe (L : α) (ts : List (TS α)) : Prop := ∀ t ∈ ts, t.maxPower ≤ L ∧ t.curPower ≤ L ∧ t.fixedLoad ≤ L

theorem tsAddCur_le (L : α) (ts : List (TS α)) (i : Nat) (x : α) (h : TsLe L ts)
    (hx : ∀ t, ts[i]? = some t → t.curPower + x ≤ L) : TsLe L (tsAddCur ts i x) := by
  intro t ht
  obtain ⟨j, hj⟩ := List.mem_iff_getElem?.mp ht
  unfold tsAddCur at hj
  rw [List.getElem?_modify] at hj
  cases hu : ts[j]? with
  | none => rw [hu] at hj; simp at hj
  | some u =>
    rw [hu] at hj
    have hum := h u (List.mem_of_getElem? hu)
    by_cases hij : i = j
    · subst hij
      simp only [if_true, Option.map_eq_map, Option.map_some, Option.some.injEq] at hj
      subst hj
      exact ⟨hum.1, hx u hu, hum.2.2⟩
    · simp only [hij, if_false, Option.map_eq_map, Option.map_some, Option.some.injEq] at hj
      subst hj
      exact hum

theorem pyIndex_nonneg {β : Type} (l : List β) (i : Int) (hi : 0 ≤ i) (x : β) (h : pyIndex l i = .ok x) :
    l[i.toNat]? = some x := by
  unfold pyIndex at h
  have hn : ¬ i < 0 := not_lt.mpr hi
  simp only [hn, if_false] at h
  split at h
  · rename_i v hv
    simp only [Except.ok.injEq] at h
    subst h
    exact hv
  · cases h

theorem fcCharge_le (ops : Ops α B) (law : BatLaw ops.bat) (L : α) (cs : StationS α) (vMin opt : α)
    (chosen : List (α × Int)) (b : B) (ts : List (TS α)) (delta command : α) (ts' : List (TS α))
    (command' : α) (b' : B) (hts : TsLe L ts)
    (hmem : ∀ pl ∈ chosen, 0 ≤ pl.2 ∧ ∃ info, ts[pl.2.toNat]? = some info ∧ pl.1 = info.curPower)
    (hsorted : chosen.Pairwise (fun p q => p.2 < q.2))
    (h : fcCharge ops cs vMin opt chosen b ts delta command = .ok (ts', command', b')) : TsLe L ts' := by
  induction chosen generalizing b ts delta command with
  | nil =>
    simp only [fcCharge, Except.ok.injEq, Prod.mk.injEq] at h
    obtain ⟨rfl, _, _⟩ := h
    exact hts
  | cons pl rest ih =>
    obtain ⟨hp0, info, hget, hpl1⟩ := hmem pl (List.mem_cons_self ..)
    unfold fcCharge at h
    split at h
    · cases h
    · rename_i info' hinfo'
      have hii : info' = info := by
        have := pyIndex_nonneg _ _ hp0 _ hinfo'
        rw [hget] at this
        exact (Option.some.inj this).symm
      subst hii
      simp only at h
      split at h
      · cases h
      · rename_i b1 avg hl
        obtain ⟨ha0, ha1⟩ := law.load_target _ _ _ _ hl
        refine ih _ _ _ _ ?_ ?_ (List.pairwise_cons.mp hsorted).2 h
        · apply tsAddCur_le L ts _ _ hts
          intro t ht
          rw [hget] at ht
          obtain rfl := Option.some.inj ht
          have him := hts info' (List.mem_of_getElem? hget)
          have hb := clampPower_bounds (pymin (opt + delta) info'.maxPower - pl.1) cs.currentPower cs.maxPower
            cs.minPower vMin
          rw [max_eq_left hb.1] at ha1
          have hb2 := hb.2
          rw [hpl1, pymin_eq] at hb2 ha1
          have h3 : min (opt + delta) info'.maxPower - info'.curPower ≤ info'.maxPower - info'.curPower := by
            have := min_le_right (opt + delta) info'.maxPower
            linarith
          rcases le_total (min (opt + delta) info'.maxPower - info'.curPower) 0 with hneg | hpos2
          · rw [max_eq_left hneg] at hb2
            linarith [him.2.1]
          · rw [max_eq_right hpos2] at hb2
            linarith [him.1]
        · intro q hq
          obtain ⟨hq0, qi, hqget, hq1⟩ := hmem q (List.mem_cons_of_mem _ hq)
          have hlt := (List.pairwise_cons.mp hsorted).1 q hq
          refine ⟨hq0, qi, ?_, hq1⟩
          unfold tsAddCur
          rw [List.getElem?_modify]
          have hne : ¬ pl.2.toNat = q.2.toNat := by omega
          simp only [hne, if_false, hqget, Option.map_eq_map, Option.map_some]

theorem fastCharge_le (ops : Ops α B) (law : BatLaw ops.bat) (L : α) (env : Env α) (w : SWorld α B)
    (vi : VInfo α B) (a d : Int) (ha : 0 ≤ a) (ts ts' : List (TS α)) (cmd : α) (hts : TsLe L ts)
    (h : fastCharge ops env w vi a d ts = .ok (ts', cmd)) : TsLe L ts' := by
  unfold fastCharge at h
  split at h
  · simp only [Except.ok.injEq, Prod.mk.injEq] at h
    obtain ⟨rfl, _⟩ := h
    exact hts
  · split at h
    · cases h
    · rename_i cs hcs
      split at h
      · cases h
      · rename_i pls0 hlev
        simp only at h
        split at h
        · cases h
        · split at h
          · cases h
          · rename_i s hs
            split at h
            · cases h
            · rename_i power hpow
              split at h
              · cases h
              · rename_i ts1 cmd1 b1 hfc
                simp only [Except.ok.injEq, Prod.mk.injEq] at h
                obtain ⟨rfl, _⟩ := h
                obtain ⟨hmem, hsorted⟩ := chosen_spec ts a d pls0 hlev s.idx
                refine fcCharge_le ops law L cs _ _ _ _ _ _ _ _ _ _ hts ?_ hsorted hfc
                intro pl hpl
                obtain ⟨hapl, info, hinfo, hc⟩ := hmem pl hpl
                have h0 : 0 ≤ pl.2 := le_trans ha hapl
                exact ⟨h0, info, pyIndex_nonneg _ _ h0 _ hinfo, hc⟩

theorem scaleVehicle_arr (ops : Ops α B) (nAhead : Int) (vi vi' : VInfo α B) (e : α) (d d' : Int)
    (h : scaleVehicle ops nAhead vi e d = .ok (vi', d')) : vi'.arrivalIdx = vi.arrivalIdx := by
  unfold scaleVehicle at h
  split at h
  · split at h
    · cases h
    · simp only [Except.ok.injEq, Prod.mk.injEq] at h
      obtain ⟨rfl, _⟩ := h
      rfl
  · simp only [Except.ok.injEq, Prod.mk.injEq] at h
    obtain ⟨rfl, _⟩ := h
    rfl

theorem adjustVehicle_le (ops : Ops α B) (law : BatLaw ops.bat) (L : α) (env : Env α) (w : SWorld α B)
    (gcCurMax : α) (hgc : gcCurMax ≤ L) (nAhead : Int) (ts ts' : List (TS α)) (vi vi' : VInfo α B) (d : Int)
    (ha : 0 ≤ vi.arrivalIdx) (hts : TsLe L ts)
    (h : adjustVehicle ops env w gcCurMax nAhead ts vi d = .ok (ts', vi')) : TsLe L ts' := by
  unfold adjustVehicle at h
  simp only at h
  split at h
  · split at h
    · cases h
    · rename_i cs hcs
      split at h
      · cases h
      · rename_i power hpow
        split at h
        · cases h
        · rename_i t0 ht0
          simp only [Except.ok.injEq, Prod.mk.injEq] at h
          obtain ⟨rfl, _⟩ := h
          obtain ⟨r, hr⟩ := pyIndex_zero _ _ ht0
          apply tsAddCur_le L ts _ _ hts
          intro t ht
          rw [hr] at ht
          simp only [List.getElem?_cons_zero, Option.some.injEq] at ht
          subst ht
          have him := hts t0 (by rw [hr]; exact List.mem_cons_self ..)
          have hb := (clampPower_bounds (pymin power (gcCurMax - t0.curPower)) cs.currentPower cs.maxPower
            cs.minPower vi.veh.minChargingPower).2
          simp only [pymin_eq] at hb ⊢
          have h3 : min power (gcCurMax - t0.curPower) ≤ gcCurMax - t0.curPower := min_le_right _ _
          rcases le_total (min power (gcCurMax - t0.curPower)) 0 with hneg | hpos2
          · rw [max_eq_left hneg] at hb
            linarith [him.2.1]
          · rw [max_eq_right hpos2] at hb
            linarith
  · split at h
    · cases h
    · rename_i vi2 d2 hsc
      split at h
      · cases h
      · rename_i ts1 cmd hfc
        simp only [Except.ok.injEq, Prod.mk.injEq] at h
        obtain ⟨rfl, _⟩ := h
        have harr := scaleVehicle_arr ops nAhead vi vi2 _ d d2 hsc
        exact fastCharge_le ops law L env w vi2 _ _ (by rw [harr]; exact ha) _ _ _ hts hfc

theorem adjustAll_le (ops : Ops α B) (law : BatLaw ops.bat) (L : α) (env : Env α) (w : SWorld α B)
    (gcCurMax : α) (hgc : gcCurMax ≤ L) (nAhead : Int) (vs : List (VInfo α B)) (ts ts' : List (TS α))
    (done done' : List (VInfo α B)) (ha : ∀ vi ∈ vs, 0 ≤ vi.arrivalIdx) (hts : TsLe L ts)
    (h : adjustAll ops env w gcCurMax nAhead vs ts done = .ok (ts', done')) : TsLe L ts' := by
  induction vs generalizing ts done with
  | nil =>
    simp only [adjustAll, Except.ok.injEq, Prod.mk.injEq] at h
    obtain ⟨rfl, _⟩ := h
    exact hts
  | cons vi rest ih =>
    unfold adjustAll at h
    split at h
    · exact ih _ _ (fun v hv => ha v (List.mem_cons_of_mem _ hv)) hts h
    · split at h
      · cases h
      · rename_i ts1 vi1 hadj
        exact ih _ _ (fun v hv => ha v (List.mem_cons_of_mem _ hv))
          (adjustVehicle_le ops law L env w gcCurMax hgc nAhead _ _ _ _ _ (ha vi (List.mem_cons_self ..)) hts hadj) h

/-! ### part 2: the look-ahead starts below `L` -/

/-- what a fixed-load / generation event of connector `gcId` can contribute to the summed loads -/
def evPos (gcId : String) : Ev α → α
  | .gen _ gc _ v => if gc != gcId then 0 else max (-v) 0
  | .load _ gc _ v => if gc != gcId then 0 else max v 0
  | _ => 0

/-- the positive parts of a connector's loads, added up -/
def loadPos (l : List (String × α)) : α := (l.map (fun kv => max kv.2 0)).sum

theorem evPos_nonneg (gcId : String) (e : Ev α) : 0 ≤ evPos gcId e := by
  cases e <;> simp only [evPos] <;> (try split) <;> first | exact le_refl _ | exact le_max_right _ _

theorem loadPos_sdSet (l : List (String × α)) (k : String) (v : α) :
    loadPos (sdSet l k v) ≤ loadPos l + max v 0 := by
  unfold loadPos
  induction l with
  | nil => simp [sdSet]
  | cons kv rest ih =>
    obtain ⟨k', v'⟩ := kv
    simp only [sdSet]
    split
    · simp only [List.map_cons, List.sum_cons]
      have : (0 : α) ≤ max v' 0 := le_max_right _ _
      linarith
    · simp only [List.map_cons, List.sum_cons]
      linarith

theorem foldl_le_loadPos (l : List (String × α)) (init : α) :
    (l.map (·.2)).foldl (· + ·) init ≤ init + loadPos l := by
  unfold loadPos
  induction l generalizing init with
  | nil => simp
  | cons kv rest ih =>
    simp only [List.map_cons, List.foldl_cons, List.sum_cons]
    have := ih (init + kv.2)
    have h2 : kv.2 ≤ max kv.2 0 := le_max_left _ _
    linarith

/-- invariant of the peek loop: the limit in force, the positive parts of the loads plus everything the events still
to come can add, and the limits the signals still to come can set are at most `L` -/
def LookLe (gcId : String) (L : α) (evs : List (Ev α)) (st : Look α B) : Prop :=
  st.maxPower ≤ L ∧ loadPos st.curLoads + (evs.map (evPos gcId)).sum ≤ L ∧
  ∀ s p, Ev.signal s gcId (some p) ∈ evs → p ≤ L

theorem lookLe_tail (gcId : String) (L : α) (e : Ev α) (rest : List (Ev α)) (st st' : Look α B)
    (h : LookLe gcId L (e :: rest) st) (h1 : st'.maxPower = st.maxPower) (h2 : st'.curLoads = st.curLoads) :
    LookLe gcId L rest st' := by
  obtain ⟨a, b, c⟩ := h
  refine ⟨by rw [h1]; exact a, ?_, fun s p hm => c s p (List.mem_cons_of_mem _ hm)⟩
  rw [h2]
  simp only [List.map_cons, List.sum_cons] at b
  have := evPos_nonneg gcId e
  linarith

theorem applyEvent_le (ops : Ops α B) (env : Env α) (w : SWorld α B) (gcId : String) (tIdx : Int) (L : α)
    (e : Ev α) (rest : List (Ev α)) (st st' : Look α B) (hinv : LookLe gcId L (e :: rest) st)
    (h : applyEvent ops env w gcId tIdx st e = .ok st') : LookLe gcId L rest st' := by
  cases e with
  | gen s gc name value =>
    simp only [applyEvent] at h
    split at h
    · simp only [Except.ok.injEq] at h; subst h
      exact lookLe_tail gcId L _ rest st st hinv rfl rfl
    · rename_i hg
      simp only [Except.ok.injEq] at h; subst h
      obtain ⟨a, b, c⟩ := hinv
      refine ⟨a, ?_, fun s p hm => c s p (List.mem_cons_of_mem _ hm)⟩
      simp only [List.map_cons, List.sum_cons, evPos, hg, if_false, Bool.false_eq_true] at b ⊢
      have := loadPos_sdSet st.curLoads name (-value)
      linarith
  | load s gc name value =>
    simp only [applyEvent] at h
    split at h
    · simp only [Except.ok.injEq] at h; subst h
      exact lookLe_tail gcId L _ rest st st hinv rfl rfl
    · rename_i hg
      simp only [Except.ok.injEq] at h; subst h
      obtain ⟨a, b, c⟩ := hinv
      refine ⟨a, ?_, fun s p hm => c s p (List.mem_cons_of_mem _ hm)⟩
      simp only [List.map_cons, List.sum_cons, evPos, hg, if_false, Bool.false_eq_true] at b ⊢
      have := loadPos_sdSet st.curLoads name value
      linarith
  | signal s gc mp =>
    simp only [applyEvent] at h
    split at h
    · simp only [Except.ok.injEq] at h; subst h
      exact lookLe_tail gcId L _ rest st st hinv rfl rfl
    · rename_i p
      split at h
      · simp only [Except.ok.injEq] at h; subst h
        exact lookLe_tail gcId L _ rest st st hinv rfl rfl
      · rename_i hg
        simp only [Except.ok.injEq] at h; subst h
        have hgc : gc = gcId := by simpa using hg
        subst hgc
        obtain ⟨a, b, c⟩ := hinv
        refine ⟨c s p (List.mem_cons_self ..), ?_, fun s p hm => c s p (List.mem_cons_of_mem _ hm)⟩
        simp only [List.map_cons, List.sum_cons, evPos] at b ⊢
        linarith
  | departure s vid =>
    simp only [applyEvent, Except.ok.injEq] at h
    subst h
    refine lookLe_tail gcId L _ rest st _ hinv ?_ ?_
    · simp only; split <;> rfl
    · simp only; split <;> rfl
  | arrival s vid cs desired socDelta etd =>
    simp only [applyEvent] at h
    repeat' split at h
    all_goals first
      | (cases h; done)
      | (simp only [Except.ok.injEq] at h; subst h; exact lookLe_tail gcId L _ rest st _ hinv rfl rfl)
  | other s =>
    simp only [applyEvent, Except.ok.injEq] at h
    subst h
    exact lookLe_tail gcId L _ rest st st hinv rfl rfl

theorem peek_le (ops : Ops α B) (env : Env α) (w : SWorld α B) (gcId : String) (tIdx curTime : Int) (L : α)
    (evs evs' : List (Ev α)) (st st' : Look α B) (hinv : LookLe gcId L evs st)
    (h : peek ops env w gcId tIdx curTime evs st = .ok (evs', st')) : LookLe gcId L evs' st' := by
  induction evs generalizing st with
  | nil =>
    simp only [peek, Except.ok.injEq, Prod.mk.injEq] at h
    obtain ⟨rfl, rfl⟩ := h
    exact hinv
  | cons e rest ih =>
    unfold peek at h
    split at h
    · simp only [Except.ok.injEq, Prod.mk.injEq] at h
      obtain ⟨rfl, rfl⟩ := h
      exact hinv
    · split at h
      · cases h
      · rename_i st1 hst1
        exact ih _ (applyEvent_le ops env w gcId tIdx L e rest st st1 hinv hst1) h

theorem lookAhead_le (ops : Ops α B) (hsum : SumExact ops) (env : Env α) (w : SWorld α B) (gcId : String) (L : α)
    (k : Nat) (tIdx : Int) (evs : List (Ev α)) (st st' : Look α B) (acc ts : List (TS α))
    (hinv : LookLe gcId L evs st) (hacc : TsLe L acc)
    (h : lookAhead ops env w gcId k tIdx evs st acc = .ok (st', ts)) :
    TsLe L ts ∧ ts.length = acc.length + k := by
  induction k generalizing tIdx evs st acc with
  | zero =>
    simp only [lookAhead, Except.ok.injEq, Prod.mk.injEq] at h
    obtain ⟨_, rfl⟩ := h
    exact ⟨hacc, rfl⟩
  | succ k ih =>
    unfold lookAhead at h
    split at h
    · cases h
    · rename_i evs1 st1 hpk
      have hinv1 := peek_le ops env w gcId tIdx _ L evs evs1 st st1 hinv hpk
      simp only at h
      have hacc1 : TsLe L (acc ++ [⟨st1.maxPower, ops.sum (st1.curLoads.map (·.2)),
          ops.sum (st1.curLoads.map (·.2))⟩]) := by
        intro t ht
        rcases List.mem_append.mp ht with ht | ht
        · exact hacc t ht
        · simp only [List.mem_singleton] at ht
          subst ht
          obtain ⟨a, b, _⟩ := hinv1
          have hs : ops.sum (st1.curLoads.map (·.2)) ≤ L := by
            rw [hsum]
            have h3 := foldl_le_loadPos st1.curLoads 0
            have h4 : (0 : α) ≤ (evs1.map (evPos gcId)).sum :=
              List.sum_nonneg (by
                intro x hx
                obtain ⟨e, _, rfl⟩ := List.mem_map.mp hx
                exact evPos_nonneg gcId e)
            linarith
          exact ⟨a, hs, hs⟩
      obtain ⟨h1, h2⟩ := ih _ _ _ _ hinv1 hacc1 h
      refine ⟨h1, ?_⟩
      rw [h2, List.length_append, List.length_singleton]
      omega

theorem visibleEvents_mem (env : Env α) (events : List (Ev α)) (e : Ev α) (h : e ∈ visibleEvents env events) :
    e ∈ events := by
  unfold visibleEvents at h
  have h1 := (isort_perm _ _).mem_iff.mp h
  split at h1
  · exact (List.dropWhile_sublist _).mem h1
  · exact h1

theorem visibleEvents_sum (env : Env α) (events : List (Ev α)) (gcId : String) :
    ((visibleEvents env events).map (evPos gcId)).sum ≤ (events.map (evPos gcId)).sum := by
  unfold visibleEvents
  rw [((isort_perm _ _).map (evPos gcId)).sum_eq]
  have hnn : ∀ a ∈ events.map (evPos gcId), (0 : α) ≤ a := by
    intro x hx
    obtain ⟨e, _, rfl⟩ := List.mem_map.mp hx
    exact evPos_nonneg gcId e
  split
  · exact List.Sublist.sum_le_sum ((List.dropWhile_sublist _).map _) hnn
  · exact le_refl _

/-- the look-ahead of a connector whose limit, loads (plus what the visible load events can add) and future limits
(signals) are at most `L`: the curve has `timesteps_ahead` entries, all at most `L` -/
theorem forecast_le (ops : Ops α B) (hsum : SumExact ops) (env : Env α) (w : SWorld α B) (events : List (Ev α))
    (gc : GcS α) (nAhead : Int) (L : α) (hcm : gc.curMax ≤ L)
    (hfix : loadPos gc.loads + (events.map (evPos gc.id)).sum ≤ L)
    (hsig : ∀ s p, Ev.signal s gc.id (some p) ∈ events → p ≤ L)
    (arr : List (VInfo α B)) (ts : List (TS α))
    (h : forecast ops env w events gc nAhead = .ok (arr, ts)) : TsLe L ts ∧ ts.length = nAhead.toNat := by
  unfold forecast at h
  split at h
  · cases h
  · rename_i present arr0 hia
    split at h
    · cases h
    · rename_i st1 ts1 hla
      simp only [Except.ok.injEq, Prod.mk.injEq] at h
      obtain ⟨_, rfl⟩ := h
      have := lookAhead_le ops hsum env w gc.id L _ _ _ _ _ _ _ ?_ ?_ hla
      · simpa using this
      · refine ⟨hcm, ?_, fun s p hm => hsig s p (visibleEvents_mem env events _ hm)⟩
        have := visibleEvents_sum env events gc.id
        simp only
        linarith
      · intro t ht
        cases ht

/-! ### part 3: the levels of a curve below `L` are below `L` -/

theorem powerLevels_le (nAhead : Int) (L : α) (ts : List (TS α)) (hts : TsLe L ts)
    (hlen : ts.length ≤ nAhead.toNat) : ∀ pl ∈ powerLevels nAhead ts, pl ≤ L := by
  intro pl hpl
  unfold powerLevels at hpl
  obtain ⟨⟨t, i⟩, hti, rfl⟩ := List.mem_map.mp hpl
  have hget : ts[i]? = some t := List.mem_zipIdx_iff_getElem?.mp hti
  have hilt : i < ts.length := by
    rcases Nat.lt_or_ge i ts.length with h | h
    · exact h
    · rw [List.getElem?_eq_none h] at hget; cases hget
  obtain ⟨_, hc, hf⟩ := hts t (List.mem_of_getElem? hget)
  simp only [pymin_eq]
  have hn : ((i : Nat) : α) ≤ ((nAhead : Int) : α) := by
    have : ((i : Int)) ≤ nAhead := by omega
    have h2 : (((i : Int)) : α) ≤ ((nAhead : Int) : α) := Int.cast_le.mpr this
    simpa using h2
  have hnpos : (0 : α) < ((nAhead : Int) : α) := by
    have : (0 : Int) < nAhead := by omega
    exact_mod_cast this
  have hdiv : ((i : Nat) : α) / ((nAhead : Int) : α) ≤ 1 := (div_le_one hnpos).mpr hn
  have h3 : ((3 : Nat) : α) = 3 := by norm_num
  generalize hF : min (1 : α) (((3 : Nat) : α) * (1 - ((i : Nat) : α) / ((nAhead : Int) : α))) = f
  have hf1 : f ≤ 1 := by rw [← hF]; exact min_le_left _ _
  have hf0 : 0 ≤ f := by
    rw [← hF, h3]
    apply le_min (by norm_num)
    nlinarith
  nlinarith [mul_le_mul_of_nonneg_left hc hf0, mul_le_mul_of_nonneg_left hf (sub_nonneg.mpr hf1)]

/-! ### the bracket hypothesis of one connector from the initial world -/

/-- **`CurveBelow` from the initial world.**  For a connector within its (non-negative) limit whose limit, summed
positive loads (plus the positive parts of the visible fixed-load / generation events of this connector) and future
limits (grid-operator signals) are at most `L`, the curve the battery pass reads is at most `L` everywhere. -/
theorem curveBelow_of_world (ops : Ops α B) (law : BatLaw ops.bat) (hsat : LoadSat ops) (hsum : SumExact ops)
    (env : Env α) (events : List (Ev α)) (hev : EventsAhead env events) (w : SWorld α B) (hu : UniqueVehicles w)
    (gc : GcS α) (L : α) (hm0 : 0 ≤ gc.curMax) (hmax : gc.currentLoad ≤ gc.curMax) (hcm : gc.curMax ≤ L)
    (hfix : loadPos gc.loads + (events.map (evPos gc.id)).sum ≤ L)
    (hsig : ∀ s p, Ev.signal s gc.id (some p) ∈ events → p ≤ L) :
    CurveBelow ops env events w gc L := by
  intro nAhead arr ts0 ts vehicles acc hnA hfc hadj hap
  obtain ⟨hts0, hlen0⟩ := forecast_le ops hsum env w events gc nAhead L hcm hfix hsig arr ts0 hfc
  have hinv := orderVehicles_inv w nAhead arr (forecast_arr ops env w hu events hev gc nAhead arr ts0 hfc)
  have harr : ∀ vi ∈ orderVehicles nAhead arr, 0 ≤ vi.arrivalIdx := by
    intro vi hvi
    exact (hinv.1 (proj vi) (List.mem_map_of_mem hvi)).1
  have hts := adjustAll_le ops law L env w gc.curMax hcm nAhead _ _ _ _ _ harr hts0 hadj
  obtain ⟨hmono, _⟩ := adjustAll_spec ops law env w gc.curMax nAhead _ _ _ _ _ (by simp) hadj
  have hlen : ts.length ≤ nAhead.toNat := by
    rw [← hlen0]
    exact le_of_eq (List.Forall₂.length_eq hmono).symm
  obtain ⟨_, h2, h3, _⟩ := vehiclePass_limit ops law hsat hsum env events hev w hu gc hm0 hmax nAhead arr ts0 ts
    vehicles acc hfc hadj hap
  refine ⟨?_, le_trans h2 hcm, by rw [h3]; exact hcm⟩
  intro pl hpl
  exact powerLevels_le nAhead L ts hts hlen pl (List.mem_of_mem_tail hpl)

/-! ### the bracket hypothesis of every connector from the initial world -/

theorem batTrace_world (ops : Ops α B) (w : SWorld α B) (gcId : String) (a a' : Acc α B)
    (h : Relation.ReflTransGen (BatBooked ops w gcId) a a') :
    a'.world.gcs = a.world.gcs ∧ a'.world.vehicles = a.world.vehicles ∧ a'.gc.id = a.gc.id := by
  induction h with
  | refl => exact ⟨rfl, rfl, rfl⟩
  | tail _ hstep ih =>
    obtain ⟨b0, b, bat', cur, p, _, _, _, _, rfl⟩ := hstep
    obtain ⟨_, _, hid, _⟩ := addLoad_currentLoad _ b.id p
    exact ⟨ih.1, ih.2.1, by simp only; rw [hid]; exact ih.2.2⟩

/-- what `step_gc` leaves alone: the vehicle ids, and every connector but the one it ran for -/
theorem stepGc_frame (ops : Ops α B) (law : BatLaw ops.bat) (env : Env α) (events : List (Ev α))
    (w w' : SWorld α B) (gc : GcS α) (cmds : List (String × α)) (fc : List α)
    (h : stepGc ops env events w gc = .ok (w', cmds, fc)) :
    w'.vehicles.map (·.id) = w.vehicles.map (·.id) ∧ ∀ g ∈ w'.gcs, g ∈ w.gcs ∨ g.id = gc.id := by
  obtain ⟨nAhead, arr, ts0, ts, vehicles, acc1, acc2, _, _, _, hap, hbat, hw, _⟩ :=
    stepGc_shape ops env events w w' gc cmds fc h
  have h1 : acc1.world.gcs = w.gcs ∧ acc1.world.vehicles.map (·.id) = w.vehicles.map (·.id) ∧
      acc1.gc.id = gc.id := by
    rcases applyPass_trace ops w gc ts vehicles acc1 hap with ⟨_, rfl⟩ | ⟨t0, _, htr⟩
    · exact ⟨rfl, rfl, rfl⟩
    · obtain ⟨a, _, c, _⟩ := vehTrace_world ops _ _ _ htr
      exact ⟨a, c, (vehTrace_load_mono ops law _ _ _ htr).2.2⟩
  obtain ⟨h2a, h2b, h2c⟩ := batTrace_world ops w gc.id acc1 acc2 hbat
  subst hw
  constructor
  · unfold SWorld.setGc
    simp only
    rw [h2b, h1.2.1]
  · intro g hg
    rcases mem_setGc _ _ _ hg with rfl | ⟨hm, _⟩
    · right
      rw [h2c, h1.2.2]
    · left
      rw [h2a, h1.1] at hm
      exact hm

theorem stepPrefix_inv (ops : Ops α B) (law : BatLaw ops.bat) (env : Env α) (events : List (Ev α))
    (pre : List (GcS α)) (st0 st : SWorld α B × List (String × α) × List α)
    (h : pre.foldlM (stepBody ops env events) st0 = .ok st) :
    st.1.vehicles.map (·.id) = st0.1.vehicles.map (·.id) ∧
      ∀ g ∈ st.1.gcs, g ∈ st0.1.gcs ∨ g.id ∈ pre.map (·.id) := by
  induction pre generalizing st0 with
  | nil =>
    simp only [List.foldlM_nil, pure, Except.pure, Except.ok.injEq] at h
    subst h
    exact ⟨rfl, fun g hg => Or.inl hg⟩
  | cons g1 rest ih =>
    simp only [List.foldlM_cons, bind, Except.bind] at h
    split at h
    · cases h
    · rename_i st1 hst1
      obtain ⟨hv, hg⟩ := ih st1 h
      have h1 : st1.1.vehicles.map (·.id) = st0.1.vehicles.map (·.id) ∧
          ∀ g ∈ st1.1.gcs, g ∈ st0.1.gcs ∨ g.id = g1.id := by
        unfold stepBody at hst1
        split at hst1
        · simp only [Except.ok.injEq] at hst1
          subst hst1
          exact ⟨rfl, fun g hg => Or.inl hg⟩
        · rename_i gc hgc
          simp only [bind, Except.bind] at hst1
          split at hst1
          · cases hst1
          · rename_i r hr
            obtain ⟨w1, cmds1, sched1⟩ := r
            simp only [Except.ok.injEq] at hst1
            subst hst1
            obtain ⟨a, b⟩ := stepGc_frame ops law env events st0.1 w1 gc cmds1 sched1 hr
            refine ⟨a, fun g hg => ?_⟩
            rcases b g hg with hb | hb
            · exact Or.inl hb
            · right
              rw [hb]
              exact (gc?_some _ _ _ hgc).2
      refine ⟨hv.trans h1.1, fun g hgm => ?_⟩
      rcases hg g hgm with hg1 | hg1
      · rcases h1.2 g hg1 with hg0 | hg0
        · exact Or.inl hg0
        · right
          simp only [List.map_cons, List.mem_cons]
          exact Or.inl hg0
      · right
        simp only [List.map_cons, List.mem_cons]
        exact Or.inr hg1

/-- hypotheses of the whole step on the INITIAL world, bound `L`: vehicle and connector ids are unique; every
connector is within its non-negative limit; its limit, its summed positive loads plus the positive parts of its
fixed-load / generation events, and the limits its grid-operator signals set are at most `L` -/
structure WorldBelow (events : List (Ev α)) (w : SWorld α B) (L : α) : Prop where
  uniqueVehicles : UniqueVehicles w
  uniqueGcs : (w.gcs.map (·.id)).Nodup
  limitNonneg : ∀ g ∈ w.gcs, 0 ≤ g.curMax
  withinLimit : ∀ g ∈ w.gcs, g.currentLoad ≤ g.curMax
  limitLe : ∀ g ∈ w.gcs, g.curMax ≤ L
  loadsLe : ∀ g ∈ w.gcs, loadPos g.loads + (events.map (evPos g.id)).sum ≤ L
  signalsLe : ∀ g ∈ w.gcs, ∀ s p, Ev.signal s g.id (some p) ∈ events → p ≤ L

theorem stepCurveBelow_of_world (ops : Ops α B) (law : BatLaw ops.bat) (hsat : LoadSat ops) (hsum : SumExact ops)
    (env : Env α) (events : List (Ev α)) (hev : EventsAhead env events) (w : SWorld α B) (L : α)
    (hw : WorldBelow events w L) : StepCurveBelow ops env events w L := by
  intro pre g0 post hl st hst gc hgc
  obtain ⟨hv, hg⟩ := stepPrefix_inv ops law env events pre _ st hst
  obtain ⟨hgm, hgid⟩ := gc?_some _ _ _ hgc
  have hgw : gc ∈ w.gcs := by
    rcases hg gc hgm with h | h
    · exact h
    · exfalso
      have hnd := hw.uniqueGcs
      rw [hl, List.map_append, List.map_cons] at hnd
      have := (List.nodup_append.mp hnd).2.2 _ h g0.id (List.mem_cons_self ..)
      exact this hgid
  have hu : UniqueVehicles st.1 := by
    unfold UniqueVehicles
    rw [hv]
    exact hw.uniqueVehicles
  exact curveBelow_of_world ops law hsat hsum env events hev st.1 hu gc L (hw.limitNonneg gc hgw)
    (hw.withinLimit gc hgw) (hw.limitLe gc hgw) (hw.loadsLe gc hgw) (hw.signalsLe gc hgw)

/-! ### a second route to the bracket hypothesis: counting instead of the limit theorem

`curveBelow_of_world` bounds the connector's load after the surplus pass by the connector's limit (C05, needs
`LoadSat`, `EventsAhead`, unique vehicle ids and a connector within its limit).  The bound `EPS · 2^fuel` is so
generous that a crude count does as well and needs none of these: every vehicle charged in the surplus pass takes at
most the headroom `H` of a charging station, and there are at most `len(vehicles) + len(events)` of them. -/

/-- invariant of the look-ahead for the arrivals: indices are not negative; at most `N` entries, counting the events
still to come -/
def LookArr (N : Nat) (evs : List (Ev α)) (st : Look α B) : Prop :=
  (∀ a ∈ st.arrivals, 0 ≤ a.arrivalIdx) ∧ st.arrivals.length + evs.length ≤ N

theorem lookArr_tail (N : Nat) (e : Ev α) (rest : List (Ev α)) (st st' : Look α B)
    (h : LookArr N (e :: rest) st) (h1 : st'.arrivals = st.arrivals) : LookArr N rest st' := by
  obtain ⟨a, b⟩ := h
  refine ⟨by rw [h1]; exact a, ?_⟩
  rw [h1]
  simp only [List.length_cons] at b
  omega

theorem mem_modify {β : Type} (l : List β) (i : Nat) (f : β → β) (x : β) (h : x ∈ l.modify i f) :
    ∃ y ∈ l, x = y ∨ x = f y := by
  obtain ⟨j, hj⟩ := List.mem_iff_getElem?.mp h
  rw [List.getElem?_modify] at hj
  cases hu : l[j]? with
  | none => rw [hu] at hj; simp at hj
  | some u =>
    rw [hu] at hj
    refine ⟨u, List.mem_of_getElem? hu, ?_⟩
    by_cases hij : i = j
    · subst hij
      simp only [if_true, Option.map_eq_map, Option.map_some, Option.some.injEq] at hj
      exact Or.inr hj.symm
    · simp only [hij, if_false, Option.map_eq_map, Option.map_some, Option.some.injEq] at hj
      exact Or.inl hj.symm

theorem applyEvent_arr (ops : Ops α B) (env : Env α) (w : SWorld α B) (gcId : String) (tIdx : Int)
    (ht : 0 ≤ tIdx) (N : Nat) (e : Ev α) (rest : List (Ev α)) (st st' : Look α B)
    (hinv : LookArr N (e :: rest) st)
    (h : applyEvent ops env w gcId tIdx st e = .ok st') : LookArr N rest st' := by
  cases e with
  | gen s gc name value =>
    simp only [applyEvent] at h
    split at h <;>
      (simp only [Except.ok.injEq] at h; subst h; exact lookArr_tail N _ rest st _ hinv rfl)
  | load s gc name value =>
    simp only [applyEvent] at h
    split at h <;>
      (simp only [Except.ok.injEq] at h; subst h; exact lookArr_tail N _ rest st _ hinv rfl)
  | signal s gc mp =>
    simp only [applyEvent] at h
    repeat' split at h
    all_goals (simp only [Except.ok.injEq] at h; subst h; exact lookArr_tail N _ rest st _ hinv rfl)
  | departure s vid =>
    simp only [applyEvent] at h
    cases hsd : sdGet st.present vid with
    | none =>
      rw [hsd] at h
      simp only [Except.ok.injEq] at h
      subst h
      exact lookArr_tail N _ rest st _ hinv rfl
    | some vIdx =>
      rw [hsd] at h
      simp only [Except.ok.injEq] at h
      subst h
      obtain ⟨a, b⟩ := hinv
      simp only [List.length_cons] at b
      refine ⟨?_, ?_⟩
      · intro x hx
        simp only at hx
        obtain ⟨y, hy, hxy⟩ := mem_modify _ _ _ _ hx
        rcases hxy with h1 | h1
        · rw [h1]; exact a y hy
        · rw [h1]; exact a y hy
      · simp only [List.length_modify]
        omega
  | arrival s vid cs desired socDelta etd =>
    simp only [applyEvent] at h
    repeat' split at h
    all_goals first
      | (cases h; done)
      | (simp only [Except.ok.injEq] at h; subst h; exact lookArr_tail N _ rest st _ hinv rfl)
      | (simp only [Except.ok.injEq] at h
         subst h
         obtain ⟨a, b⟩ := hinv
         simp only [List.length_cons] at b
         refine ⟨?_, ?_⟩
         · intro x hx
           simp only at hx
           rcases List.mem_append.mp hx with hx | hx
           · exact a x hx
           · simp only [List.mem_singleton] at hx
             subst hx
             exact ht
         · simp only [List.length_append, List.length_singleton]
           omega)
  | other s =>
    simp only [applyEvent, Except.ok.injEq] at h
    subst h
    exact lookArr_tail N _ rest st st hinv rfl

theorem peek_arr (ops : Ops α B) (env : Env α) (w : SWorld α B) (gcId : String) (tIdx curTime : Int)
    (ht : 0 ≤ tIdx) (N : Nat) (evs evs' : List (Ev α)) (st st' : Look α B) (hinv : LookArr N evs st)
    (h : peek ops env w gcId tIdx curTime evs st = .ok (evs', st')) : LookArr N evs' st' := by
  induction evs generalizing st with
  | nil =>
    simp only [peek, Except.ok.injEq, Prod.mk.injEq] at h
    obtain ⟨rfl, rfl⟩ := h
    exact hinv
  | cons e rest ih =>
    unfold peek at h
    split at h
    · simp only [Except.ok.injEq, Prod.mk.injEq] at h
      obtain ⟨rfl, rfl⟩ := h
      exact hinv
    · split at h
      · cases h
      · rename_i st1 hst1
        exact ih _ (applyEvent_arr ops env w gcId tIdx ht N e rest st st1 hinv hst1) h

theorem lookAhead_arr (ops : Ops α B) (env : Env α) (w : SWorld α B) (gcId : String) (N : Nat)
    (k : Nat) (tIdx : Int) (ht : 0 ≤ tIdx) (evs : List (Ev α)) (st st' : Look α B) (acc ts : List (TS α))
    (hinv : LookArr N evs st)
    (h : lookAhead ops env w gcId k tIdx evs st acc = .ok (st', ts)) :
    (∀ a ∈ st'.arrivals, 0 ≤ a.arrivalIdx) ∧ st'.arrivals.length ≤ N := by
  induction k generalizing tIdx evs st acc with
  | zero =>
    simp only [lookAhead, Except.ok.injEq, Prod.mk.injEq] at h
    obtain ⟨rfl, _⟩ := h
    exact ⟨hinv.1, by have := hinv.2; omega⟩
  | succ k ih =>
    unfold lookAhead at h
    split at h
    · cases h
    · rename_i evs1 st1 hpk
      have hinv1 := peek_arr ops env w gcId tIdx _ ht N evs evs1 st st1 hinv hpk
      exact ih (tIdx + 1) (by omega) _ _ _ hinv1 h

theorem initialArrivals_arr (env : Env α) (w : SWorld α B) (gcId : String) (vs : List (VehicleS α B))
    (present present' : List (String × Nat)) (arr arr' : List (VInfo α B))
    (ha : ∀ a ∈ arr, 0 ≤ a.arrivalIdx)
    (h : initialArrivals env w gcId vs present arr = .ok (present', arr')) :
    (∀ a ∈ arr', 0 ≤ a.arrivalIdx) ∧ arr'.length ≤ arr.length + vs.length := by
  induction vs generalizing present arr with
  | nil =>
    simp only [initialArrivals, Except.ok.injEq, Prod.mk.injEq] at h
    obtain ⟨_, rfl⟩ := h
    exact ⟨ha, by simp⟩
  | cons v rest ih =>
    unfold initialArrivals at h
    split at h
    · obtain ⟨h1, h2⟩ := ih _ _ ha h
      exact ⟨h1, by simp only [List.length_cons]; omega⟩
    · split at h
      · cases h
      · split at h
        · have ha' : ∀ a ∈ arr ++ [(⟨v.id, v, 0, departIdxOf env v.etd, 0, false, 0⟩ : VInfo α B)],
              0 ≤ a.arrivalIdx := by
            intro a hm
            rcases List.mem_append.mp hm with hm | hm
            · exact ha a hm
            · simp only [List.mem_singleton] at hm
              subst hm
              exact le_refl _
          obtain ⟨h1, h2⟩ := ih _ _ ha' h
          refine ⟨h1, ?_⟩
          simp only [List.length_append, List.length_singleton, List.length_cons, List.length_nil] at h2 ⊢
          omega
        · obtain ⟨h1, h2⟩ := ih _ _ ha h
          exact ⟨h1, by simp only [List.length_cons]; omega⟩

theorem visibleEvents_length (env : Env α) (events : List (Ev α)) :
    (visibleEvents env events).length ≤ events.length := by
  unfold visibleEvents
  rw [(isort_perm _ _).length_eq]
  split
  · exact (List.dropWhile_sublist _).length_le
  · exact le_refl _

/-- the arrivals of the look-ahead: no negative index, at most one entry per vehicle and visible event -/
theorem forecast_count (ops : Ops α B) (env : Env α) (w : SWorld α B) (events : List (Ev α)) (gc : GcS α)
    (nAhead : Int) (arr : List (VInfo α B)) (ts : List (TS α))
    (h : forecast ops env w events gc nAhead = .ok (arr, ts)) :
    (∀ a ∈ arr, 0 ≤ a.arrivalIdx) ∧ arr.length ≤ w.vehicles.length + events.length := by
  unfold forecast at h
  split at h
  · cases h
  · rename_i present arr0 hia
    split at h
    · cases h
    · rename_i st1 ts1 hla
      simp only [Except.ok.injEq, Prod.mk.injEq] at h
      obtain ⟨rfl, _⟩ := h
      obtain ⟨h1, h2⟩ := initialArrivals_arr env w gc.id w.vehicles [] present [] arr0 (by simp) hia
      have hinv : LookArr (w.vehicles.length + events.length) (visibleEvents env events)
          (⟨w.vehicles, present, arr0, gc.curMax, gc.loads⟩ : Look α B) := by
        refine ⟨h1, ?_⟩
        have := visibleEvents_length env events
        simp only [List.length_nil, Nat.zero_add] at h2
        simp only
        omega
      exact lookAhead_arr ops env w gc.id _ _ 0 (le_refl _) _ _ _ _ _ hinv hla

theorem orderVehicles_sub (nAhead : Int) (arr : List (VInfo α B)) :
    (∀ v ∈ orderVehicles nAhead arr, v ∈ arr) ∧ (orderVehicles nAhead arr).length ≤ arr.length := by
  unfold orderVehicles
  simp only
  constructor
  · intro v hv
    have := (isort_perm _ _).mem_iff.mp hv
    exact (List.mem_filter.mp this).1
  · rw [(isort_perm _ _).length_eq]
    exact List.length_filter_le _ _

/-- the surplus / apply pass raises the connector's load by at most `H` per planned vehicle, `H` a bound of the
stations' headroom -/
theorem applyVehicles_count (ops : Ops α B) (law : BatLaw ops.bat) (w : SWorld α B) (H : α) (hH : 0 ≤ H)
    (hcs : ∀ cs ∈ w.stations, cs.maxPower - cs.currentPower ≤ H) (s0 : α) (vs : List (VInfo α B)) (used : α)
    (acc acc' : Acc α B) (hst : acc.world.stations = w.stations) (hs : ∀ v ∈ vs, SchedOK w v)
    (h : applyVehicles ops s0 vs used acc = .ok acc') :
    acc'.gc.currentLoad ≤ acc.gc.currentLoad + (vs.length : α) * H := by
  induction vs generalizing used acc with
  | nil =>
    simp only [applyVehicles, Except.ok.injEq] at h
    subst h
    simp
  | cons vi rest ih =>
    have hstep : ∀ (u : α) (a : Acc α B), a.world.stations = w.stations → a.gc.currentLoad ≤ acc.gc.currentLoad + H →
        applyVehicles ops s0 rest u a = .ok acc' →
        acc'.gc.currentLoad ≤ acc.gc.currentLoad + ((vi :: rest).length : α) * H := by
      intro u a hsa hla ha
      have := ih u a hsa (fun v hv => hs v (List.mem_cons_of_mem _ hv)) ha
      simp only [List.length_cons, Nat.cast_add, Nat.cast_one]
      linarith
    unfold applyVehicles at h
    split at h
    · exact hstep _ _ hst (by linarith) h
    · split at h
      · cases h
      · rename_i schedule hoff
        split at h
        · rename_i hpos
          split at h
          · cases h
          · rename_i v hv
            split at h
            · cases h
            · rename_i bat' avg hl
              refine hstep _ _ ?_ ?_ h
              · simp only [SWorld.setVehicle]
                exact hst
              · obtain ⟨ha0, ha1⟩ := law.load_target _ _ _ _ hl
                rw [max_eq_left hpos.le] at ha1
                obtain ⟨hcl, _⟩ := addLoad_currentLoad acc.gc (vi.veh.cs.getD "None") avg
                simp only
                rw [hcl]
                -- the offered power is within a station's headroom
                have hsched : vi.schedule ≤ H := by
                  rcases hs vi (List.mem_cons_self ..) with hz | ⟨cs, hcs', hh⟩
                  · rw [hz]; exact hH
                  · have hb := (inHeadroom_bounds cs _ _ hh).2
                    have hmem : cs ∈ w.stations := by
                      cases hc : vi.veh.cs with
                      | none => rw [hc] at hcs'; simp at hcs'
                      | some c =>
                        rw [hc] at hcs'
                        simp only [Option.bind_some] at hcs'
                        exact (station?_some _ _ _ hcs').1
                    exact le_trans hb (max_le hH (hcs cs hmem))
                have hp : schedule ≤ H := by
                  rcases (offerSurplus_spec _ _ _ _ hoff).1 with rfl | ⟨cs, y, hcs', rfl⟩
                  · exact hsched
                  · have hmem : cs ∈ w.stations := by
                      cases hc : vi.veh.cs with
                      | none => rw [hc] at hcs'; simp at hcs'
                      | some c =>
                        rw [hc] at hcs'
                        simp only [Option.bind_some] at hcs'
                        have := (station?_some _ _ _ hcs').1
                        rw [hst] at this
                        exact this
                    have hb := inHeadroom_bounds cs vi.veh.minChargingPower _ (Or.inr ⟨y, rfl⟩)
                    exact max_le (le_trans hb.2 (max_le hH (hcs cs hmem))) hsched
                linarith
        · exact hstep _ _ hst (by linarith) h

theorem currentLoad_le_loadPos (g : GcS α) : g.currentLoad ≤ loadPos g.loads := by
  have h := foldl_le_loadPos g.loads 0
  have : (g.loads.map (·.2)).foldl (· + ·) 0 = g.currentLoad := by
    unfold GcS.currentLoad
    rw [List.foldl_map]
  rw [this] at h
  linarith

/-- **`CurveBelow` from the initial world by counting.**  Hypotheses: exact `sum`; a bound `H ≥ 0` of the headroom
`max_power − current_power` of every charging station; the connector's limit, its summed positive loads (plus the
positive parts of its visible fixed-load / generation events) and its future limits are at most `L`; so is its load
plus `H` per vehicle and visible event. -/
theorem curveBelow_of_count (ops : Ops α B) (law : BatLaw ops.bat) (hsum : SumExact ops)
    (env : Env α) (events : List (Ev α)) (w : SWorld α B) (gc : GcS α) (L H : α) (hH : 0 ≤ H)
    (hcs : ∀ cs ∈ w.stations, cs.maxPower - cs.currentPower ≤ H)
    (hcm : gc.curMax ≤ L)
    (hfix : loadPos gc.loads + (events.map (evPos gc.id)).sum ≤ L)
    (hsig : ∀ s p, Ev.signal s gc.id (some p) ∈ events → p ≤ L)
    (hload : gc.currentLoad + ((w.vehicles.length + events.length : Nat) : α) * H ≤ L) :
    CurveBelow ops env events w gc L := by
  intro nAhead arr ts0 ts vehicles acc hnA hfc hadj hap
  obtain ⟨hts0, hlen0⟩ := forecast_le ops hsum env w events gc nAhead L hcm hfix hsig arr ts0 hfc
  obtain ⟨harr0, hcount0⟩ := forecast_count ops env w events gc nAhead arr ts0 hfc
  obtain ⟨hsub, hlenO⟩ := orderVehicles_sub nAhead arr
  have harr : ∀ vi ∈ orderVehicles nAhead arr, 0 ≤ vi.arrivalIdx := fun vi hvi => harr0 vi (hsub vi hvi)
  have hts := adjustAll_le ops law L env w gc.curMax hcm nAhead _ _ _ _ _ harr hts0 hadj
  obtain ⟨hmono, hsched⟩ := adjustAll_spec ops law env w gc.curMax nAhead _ _ _ _ _ (by simp) hadj
  have hlen : ts.length ≤ nAhead.toNat := by
    rw [← hlen0]
    exact le_of_eq (List.Forall₂.length_eq hmono).symm
  have hvlen : vehicles.length ≤ w.vehicles.length + events.length := by
    have hp := adjustAll_proj ops law env w gc.curMax nAhead _ _ _ _ _ hadj
    have hl := congrArg List.length hp
    simp only [List.map_nil, List.nil_append, List.length_map] at hl
    have := List.length_filter_le (fun (v : VInfo α B) => v.departIdx.isSome) (orderVehicles nAhead arr)
    omega
  have hB : acc.gc.currentLoad ≤ gc.currentLoad + (vehicles.length : α) * H ∧ acc.gc.curMax = gc.curMax := by
    have hcm' : acc.gc.curMax = gc.curMax := by
      rcases applyPass_trace ops w gc ts vehicles acc hap with ⟨_, rfl⟩ | ⟨t0, _, htr⟩
      · rfl
      · exact (vehTrace_load_mono ops law _ _ _ htr).2.1
    refine ⟨?_, hcm'⟩
    unfold applyPass at hap
    split at hap
    · split at hap
      · cases hap
      · exact applyVehicles_count ops law w H hH hcs _ vehicles 0 ⟨w, gc, []⟩ acc rfl hsched hap
    · simp only [Except.ok.injEq] at hap
      subst hap
      simp only
      have : (0 : α) ≤ (vehicles.length : α) * H := mul_nonneg (Nat.cast_nonneg _) hH
      linarith
  refine ⟨?_, ?_, by rw [hB.2]; exact hcm⟩
  · intro pl hpl
    exact powerLevels_le nAhead L ts hts hlen pl (List.mem_of_mem_tail hpl)
  · have h1 : (vehicles.length : α) ≤ ((w.vehicles.length + events.length : Nat) : α) := Nat.cast_le.mpr hvlen
    have h2 := mul_le_mul_of_nonneg_right h1 hH
    linarith [hB.1]

theorem batTrace_stations (ops : Ops α B) (w : SWorld α B) (gcId : String) (a a' : Acc α B)
    (h : Relation.ReflTransGen (BatBooked ops w gcId) a a') : a'.world.stations = a.world.stations := by
  induction h with
  | refl => rfl
  | tail _ hstep ih =>
    obtain ⟨b0, b, bat', cur, p, _, _, _, _, rfl⟩ := hstep
    exact ih

theorem stepGc_stations (ops : Ops α B) (env : Env α) (events : List (Ev α))
    (w w' : SWorld α B) (gc : GcS α) (cmds : List (String × α)) (fc : List α)
    (h : stepGc ops env events w gc = .ok (w', cmds, fc)) : w'.stations = w.stations := by
  obtain ⟨nAhead, arr, ts0, ts, vehicles, acc1, acc2, _, _, _, hap, hbat, hw, _⟩ :=
    stepGc_shape ops env events w w' gc cmds fc h
  have h1 : acc1.world.stations = w.stations := by
    rcases applyPass_trace ops w gc ts vehicles acc1 hap with ⟨_, rfl⟩ | ⟨t0, _, htr⟩
    · rfl
    · exact (vehTrace_world ops _ _ _ htr).2.2.2
  subst hw
  unfold SWorld.setGc
  simp only
  rw [batTrace_stations ops w gc.id acc1 acc2 hbat, h1]

theorem stepPrefix_stations (ops : Ops α B) (env : Env α) (events : List (Ev α))
    (pre : List (GcS α)) (st0 st : SWorld α B × List (String × α) × List α)
    (h : pre.foldlM (stepBody ops env events) st0 = .ok st) : st.1.stations = st0.1.stations := by
  induction pre generalizing st0 with
  | nil =>
    simp only [List.foldlM_nil, pure, Except.pure, Except.ok.injEq] at h
    subst h
    rfl
  | cons g1 rest ih =>
    simp only [List.foldlM_cons, bind, Except.bind] at h
    split at h
    · cases h
    · rename_i st1 hst1
      rw [ih st1 h]
      unfold stepBody at hst1
      split at hst1
      · simp only [Except.ok.injEq] at hst1
        subst hst1
        rfl
      · rename_i gc hgc
        simp only [bind, Except.bind] at hst1
        split at hst1
        · cases hst1
        · rename_i r hr
          obtain ⟨w1, cmds1, sched1⟩ := r
          simp only [Except.ok.injEq] at hst1
          subst hst1
          exact stepGc_stations ops env events st0.1 w1 gc cmds1 sched1 hr

/-- hypotheses of the whole step on the INITIAL world by counting, bounds `L` (levels) and `H` (station headroom):
connector ids are unique; `0 ≤ H` bounds `max_power − current_power` of every charging station; for every connector
the limit, the summed positive loads plus the positive parts of its fixed-load / generation events, the limits its
signals set, and its load plus `H` per vehicle and event are at most `L` -/
structure WorldBelowCount (events : List (Ev α)) (w : SWorld α B) (L H : α) : Prop where
  uniqueGcs : (w.gcs.map (·.id)).Nodup
  headroomNonneg : 0 ≤ H
  stationsLe : ∀ cs ∈ w.stations, cs.maxPower - cs.currentPower ≤ H
  limitLe : ∀ g ∈ w.gcs, g.curMax ≤ L
  loadsLe : ∀ g ∈ w.gcs, loadPos g.loads + (events.map (evPos g.id)).sum ≤ L
  signalsLe : ∀ g ∈ w.gcs, ∀ s p, Ev.signal s g.id (some p) ∈ events → p ≤ L
  chargedLe : ∀ g ∈ w.gcs, g.currentLoad + ((w.vehicles.length + events.length : Nat) : α) * H ≤ L

theorem stepCurveBelow_of_count (ops : Ops α B) (law : BatLaw ops.bat) (hsum : SumExact ops)
    (env : Env α) (events : List (Ev α)) (w : SWorld α B) (L H : α)
    (hw : WorldBelowCount events w L H) : StepCurveBelow ops env events w L := by
  intro pre g0 post hl st hst gc hgc
  obtain ⟨hv, hg⟩ := stepPrefix_inv ops law env events pre _ st hst
  have hstn := stepPrefix_stations ops env events pre _ st hst
  obtain ⟨hgm, hgid⟩ := gc?_some _ _ _ hgc
  have hgw : gc ∈ w.gcs := by
    rcases hg gc hgm with h | h
    · exact h
    · exfalso
      have hnd := hw.uniqueGcs
      rw [hl, List.map_append, List.map_cons] at hnd
      have := (List.nodup_append.mp hnd).2.2 _ h g0.id (List.mem_cons_self ..)
      exact this hgid
  have hvl : st.1.vehicles.length = w.vehicles.length := by
    have := congrArg List.length hv
    simpa using this
  refine curveBelow_of_count ops law hsum env events st.1 gc L H hw.headroomNonneg ?_ (hw.limitLe gc hgw)
    (hw.loadsLe gc hgw) (hw.signalsLe gc hgw) ?_
  · intro cs hcs
    rw [hstn] at hcs
    exact hw.stationsLe cs hcs
  · rw [hvl]
    exact hw.chargedLe gc hgw

end SpiceEv.PeakShaving.Total
