"""Replays of the suspected defects / finding mechanisms of schedule.py against the REAL code.
usage: VERIF_REPO=<repo> /venv/bin/python notes/S_SCHEDULE_replays/demo.py"""
import json
import os
import random
import sys
import traceback

HERE = os.path.dirname(os.path.abspath(__file__))
sys.path.insert(0, os.path.join(HERE, "..", "..", "harness"))
import engine  # noqa: E402
import scen  # noqa: E402

engine.use_repo()
from spice_ev.strategies import schedule as sm  # noqa: E402
from spice_ev.util import dt_within_core_standing_time  # noqa: E402


def scenario(case):
    rng = random.Random("S_SCHEDULE:%s:%s:%s" % (case["seed"], case["i"], case["collective"]))
    return scen.gen_scenario(rng, strategy="schedule", feasible=rng.random() < 0.8, max_steps=40,
                             features={"collective": case["collective"]})


def run(name, probe):
    case = json.load(open(os.path.join(HERE, name + ".json")))["case"]
    full = scenario(case)
    orig = sm.Schedule.step
    out = []

    def wrapped(self):
        return probe(self, orig, out)
    sm.Schedule.step = wrapped
    try:
        scen.run_real(full, collect_ops=False)
    finally:
        sm.Schedule.step = orig
    print("== %s  %s  core standing time %s" % (name, case, full["scenario"]["scenario"].get("core_standing_time")))
    for line in out[:3]:
        print("  ", line)
    return bool(out)


def p_index(self, orig, out):
    try:
        return orig(self)
    except IndexError:
        out.append("%s: %s" % (self.current_time, traceback.format_exc().strip().splitlines()[-1]))
        out.append("dt_to_end_of_time_window() = %s, interval = %s, inside window: %s" % (
            self.dt_to_end_of_time_window(), self.interval,
            dt_within_core_standing_time(self.current_time, self.core_standing_time)))
        raise


def p_lost(self, orig, out):
    res = orig(self)
    ws = self.world_state
    for gc in ws.grid_connectors.values():
        for k, v in gc.current_loads.items():
            if k in ws.charging_stations and abs(v) > 1e-3 and k not in res["commands"]:
                out.append("%s: connector books %s = %.4f kW, returned commands = %s" % (
                    self.current_time, k, v, res["commands"]))
    return res


def p_limit(self, orig, out):
    ws = self.world_state
    pre = {g: sum(gc.current_loads.values()) for g, gc in ws.grid_connectors.items()}
    inside = dt_within_core_standing_time(self.current_time, self.core_standing_time)
    res = orig(self)
    for g, gc in ws.grid_connectors.items():
        load = sum(gc.current_loads.values())
        if abs(pre[g]) <= gc.cur_max_power + 1e-5 and load > gc.cur_max_power + 1e-5:
            out.append("%s: load %.4f kW > cur_max_power %.4f kW (before the step %.4f), target %s, inside core "
                       "standing time: %s, loads %s" % (self.current_time, load, gc.cur_max_power, pre[g], gc.target,
                                                         inside, dict(gc.current_loads)))
    return res


ok = [run("S1-index-error", p_index), run("S2-lost-v2g-commands", p_lost),
      run("C04-A-excess-branch", p_limit), run("C04-B-target-above-limit", p_limit)]
sys.exit(0 if all(ok) else 1)
