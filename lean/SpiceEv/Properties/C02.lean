/-
C02 — Charging dynamics follow the charging curve (analytic step = ODE solution).

Property theorems only (helper lemmas: SpiceEv/Proofs/Battery.lean, BatteryLoad.lean, BatteryODE.lean).
Statements are about the executable model of the repaired `battery.py` over the reals.
`expSol c m n s t = -n/m + (n/m + s)·exp(m/c·t)` and `linSol c n s t = s + n/c·t` are literally the
two expressions of `_adjust_soc` for `new_soc` (`newSocOf`).

Proved for whole calls: C02_mono_time, C02_target_power_partial (the bounds).  Proved per section:
C02_section_ode, C02_section_curve, C02_time_to_boundary, C02_semigroup_partial,
C02_eps_close_partial, C02_mono_limit_partial.  The gaps are stated in the doc comments.
-/
import SpiceEv.Proofs.BatteryODE
import SpiceEv.Properties.C01
set_option linter.unusedSectionVars false
set_option linter.unusedVariables false
namespace SpiceEv

/-- **Per-section closed form = solution of the section's ODE.**  For a section with slope `m` and
intercept `n` (power `m·x + n` at SoC `x`), capacity `c ≠ 0`:
* exponential branch (`¬ |m| < EPS`, `m ≠ 0`): `new_soc` as computed by the code is
  `x(t) = expSol c m n s t`, with `x(0) = s` and `x'(t) = (m·x(t) + n)/c`;
* constant-power branch (`|m| < EPS`): `new_soc` is `x(t) = linSol c n s t`, with `x(0) = s` and
  `x'(t) = n/c`.
`t` is signed (negative when discharging), so the same statement is the time-reversed ODE
`x' = −power/c` for discharge. -/
theorem C02_section_ode (eps c m n s : ℝ) (hc : c ≠ 0) :
    (¬ |m| < eps → m ≠ 0 →
      expSol c m n s 0 = s ∧
      ∀ t, newSocOf eps c s m n t = .ok (expSol c m n s t) ∧
        HasDerivAt (fun t => expSol c m n s t) ((m * expSol c m n s t + n) / c) t) ∧
    (|m| < eps →
      linSol c n s 0 = s ∧
      ∀ t, newSocOf eps c s m n t = .ok (linSol c n s t) ∧
        HasDerivAt (fun t => linSol c n s t) (n / c) t) := by
  constructor
  · intro h hm
    exact ⟨expSol_zero c m n s hm,
      fun t => ⟨newSocOf_exp h hm hc, expSol_hasDerivAt c m n s t hm hc⟩⟩
  · intro h
    exact ⟨linSol_zero c n s, fun t => ⟨newSocOf_lin h hc, linSol_hasDerivAt c n s t⟩⟩

/-- **The right-hand side is the curve.**  When the current SoC `x1` and the boundary `x2` lie on one
section `a — b` of a curve with strictly increasing SoCs, the slope `m` and intercept `n` the code
computes from the two lookups give `m·x + n = curve(x)` for every `x` of that section; with
C03_clamped_pointwise the curve handed to `_adjust_soc` is `k·min(curve, limit)` (`k` = efficiency
resp. its inverse), so the ODE of C02_section_ode is `dSoC/dt = ±k·min(curve(SoC), limit)/c`.
(That the loop's `x1`, `x2` always lie on one section is not a theorem — it fails below SoC 0 —
and is covered by the RK4 oracle.) -/
theorem C02_section_curve (pre post : List (ℝ × ℝ)) (a b : ℝ × ℝ)
    (hs : StrictSoc (pre ++ a :: b :: post)) (x1 x2 x : ℝ) (hx : x1 ≠ x2)
    (h1 : a.1 < x1 ∧ x1 ≤ b.1) (h2 : a.1 < x2 ∧ x2 ≤ b.1) (h : a.1 < x ∧ x ≤ b.1) :
    let pts := pre ++ a :: b :: post
    let y1 := interp pts x1
    let y2 := interp pts x2
    let m := (y2 - y1) / (x2 - x1)
    let n := y1 - m * x1
    m * x + n = interp pts x := by
  intro pts y1 y2 m n
  have hab : a.1 < b.1 := lt_of_lt_of_le h.1 h.2
  have e1 : y1 = lerp a b x1 := C03_interp_bracket pre post a b x1 hs h1.1 h1.2
  have e2 : y2 = lerp a b x2 := C03_interp_bracket pre post a b x2 hs h2.1 h2.2
  have e3 : interp pts x = lerp a b x := C03_interp_bracket pre post a b x hs h.1 h.2
  have := section_line a b hab x1 x2 x hx
  simp only at this
  simp only [m, n, e1, e2, e3]
  exact this

/-- **Time to the boundary.**  With `m`, `n` the line through `(x1,y1)`, `(x2,y2)`, `y1 > 0`:
* if `y2 > 0` the logarithm's argument is `y2/y1 > 0` and after exactly
  `t = log((x2 + n/m)/(x1 + n/m))·c/m` the closed form is at the boundary: `x(t) = x2`;
* if `y2 = 0` the argument is `0` (the code's `log` raises, `t := ±remaining`), and indeed the
  boundary is not reached in finite time: `x(t) ≠ x2` for every `t`;
* on the constant branch `x((x2 − x1)·c/n) = x2`. -/
theorem C02_time_to_boundary (c x1 x2 y1 y2 : ℝ) (hc : c ≠ 0) (hx : x1 ≠ x2) (hy1 : 0 < y1)
    (hy : y1 ≠ y2) :
    let m := (y2 - y1) / (x2 - x1)
    let n := y1 - m * x1
    (x2 + n / m) / (x1 + n / m) = y2 / y1 ∧
    (0 < y2 → expSol c m n x1 (Real.log ((x2 + n / m) / (x1 + n / m)) * c / m) = x2) ∧
    (y2 = 0 → ∀ t, expSol c m n x1 t ≠ x2) ∧
    (∀ n', n' ≠ 0 → linSol c n' x1 ((x2 - x1) * c / n') = x2) := by
  intro m n
  have hdx : x2 - x1 ≠ 0 := sub_ne_zero.mpr (Ne.symm hx)
  have hdy : y2 - y1 ≠ 0 := sub_ne_zero.mpr (Ne.symm hy)
  have hm0 : m ≠ 0 := div_ne_zero hdy hdx
  have hmdx : m * (x2 - x1) = y2 - y1 := by simp only [m]; rw [div_mul_cancel₀ _ hdx]
  have hA : x1 + n / m = y1 / m := by simp only [n]; field_simp; ring
  have hB : x2 + n / m = y2 / m := by
    have : x2 = x1 + (y2 - y1) / m := by rw [← hmdx]; field_simp; ring
    rw [this]; simp only [n]; field_simp; ring
  have hA0 : x1 + n / m ≠ 0 := by rw [hA]; exact div_ne_zero (ne_of_gt hy1) hm0
  have hq : (x2 + n / m) / (x1 + n / m) = y2 / y1 := by rw [hA, hB]; field_simp
  refine ⟨hq, ?_, ?_, ?_⟩
  · intro hy2
    unfold expSol
    have e : m / c * (Real.log ((x2 + n / m) / (x1 + n / m)) * c / m)
        = Real.log ((x2 + n / m) / (x1 + n / m)) := by field_simp
    rw [e, Real.exp_log (by rw [hq]; exact div_pos hy2 hy1), add_comm (n / m) x1,
      mul_div_cancel₀ _ hA0]
    ring
  · intro hy2 t hcon
    unfold expSol at hcon
    have hB0 : x2 + n / m = 0 := by rw [hB, hy2, zero_div]
    have : (n / m + x1) * Real.exp (m / c * t) = 0 := by
      have : -n / m + (n / m + x1) * Real.exp (m / c * t) + n / m = x2 + n / m := by rw [hcon]
      rw [hB0] at this; linarith [this, show -n / m + n / m = 0 by ring]
    rcases mul_eq_zero.mp this with h | h
    · apply hA0; rw [add_comm]; exact h
    · exact absurd h (Real.exp_pos _).ne'
  · intro n' hn'
    unfold linSol; field_simp; ring

/-- **Semigroup, per section** (`exp_add`): within one section, advancing by `t1` and then by `t2`
with the same line is advancing by `t1 + t2` — for both branches, as evaluated by the code.
PARTIAL: the lifting to whole calls ("two consecutive calls = one call over the summed duration")
is not a theorem.  With the code's EPS cut-offs it only holds up to `O(EPS·(1 + rate))` per section
(a call stops when less than EPS hours remain or the target is within EPS); the oracle checks
split-vs-single calls with that tolerance. -/
theorem C02_semigroup_partial (eps c m n s t1 t2 : ℝ) (hc : c ≠ 0) :
    (¬ |m| < eps → m ≠ 0 → ∃ x1, newSocOf eps c s m n t1 = .ok x1 ∧
      newSocOf eps c x1 m n t2 = newSocOf eps c s m n (t1 + t2)) ∧
    (|m| < eps → ∃ x1, newSocOf eps c s m n t1 = .ok x1 ∧
      newSocOf eps c x1 m n t2 = newSocOf eps c s m n (t1 + t2)) := by
  constructor
  · intro h hm
    refine ⟨expSol c m n s t1, newSocOf_exp h hm hc, ?_⟩
    rw [newSocOf_exp h hm hc, newSocOf_exp h hm hc]
    exact congrArg Except.ok (expSol_add c m n s t1 t2 hm)
  · intro h
    refine ⟨linSol c n s t1, newSocOf_lin h hc, ?_⟩
    rw [newSocOf_lin h hc, newSocOf_lin h hc]
    exact congrArg Except.ok (linSol_add c n s t1 t2)

/-- **More time never transfers less** (whole calls, any number of sections): for durations
`0 ≤ T1 ≤ T2` and the same limit / target SoC, charging for `T2` ends at an SoC at least as high,
discharging at an SoC at least as low, as for `T1`.  (Calls with `target_power` are excluded: there
the target itself depends on the duration.) -/
theorem C02_mono_time (b : Battery ℝ) (hb : BatOK b) (T1 T2 : ℝ) (hT1 : 0 ≤ T1) (hT : T1 ≤ T2)
    (mp ts : Option ℝ) (hmp : ∀ L, mp = some L → 0 ≤ L) :
    (∃ s1 a1 d1 s2 a2 d2, b.load T1 mp ts none = .ok ({ b with soc := s1 }, a1, d1) ∧
      b.load T2 mp ts none = .ok ({ b with soc := s2 }, a2, d2) ∧ s1 ≤ s2) ∧
    (∃ s1 a1 d1 s2 a2 d2, b.unload T1 mp ts none = .ok ({ b with soc := s1 }, a1, d1) ∧
      b.unload T2 mp ts none = .ok ({ b with soc := s2 }, a2, d2) ∧ s2 ≤ s1) :=
  ⟨load_mono_time b hb T1 T2 hT1 hT mp ts hmp, unload_mono_time b hb T1 T2 hT1 hT mp ts hmp⟩

/-- **Target power.**  A call with `target_power = P ≥ 0` over `T > 0` hours never delivers more than
`P` on average, and if the SoC ends within EPS of the derived target
`soc ± P·k·T/c` it delivers `P` up to `EPS·c/(η·T)` (charging) resp. `EPS·c·η/T` (discharging) —
with `EPS = 1e-5/c` that is `1e-5/(η·T)` kW.
PARTIAL: "if curve and remaining capacity do not allow `P`, the result equals that of an
unrestricted call" is not a theorem (it needs that both runs use the same affine pieces);
oracle: paired calls. -/
theorem C02_target_power_partial (b : Battery ℝ) (hb : BatOK b) (T : ℝ) (hT : 0 < T) (mp : Option ℝ)
    (hmp : ∀ L, mp = some L → 0 ≤ L) (P : ℝ) (hP : 0 ≤ P) :
    (∀ b' avg delta, b.load T mp none (some P) = .ok (b', avg, delta) →
      avg ≤ P ∧
      (b.soc + P * b.efficiency * T / b.capacity - b.eps ≤ b'.soc →
        P - b.eps * b.capacity / (b.efficiency * T) ≤ avg)) ∧
    (∀ b' avg delta, b.unload T mp none (some P) = .ok (b', avg, delta) →
      avg ≤ P ∧
      (b'.soc ≤ b.soc - P / b.efficiency * T / b.capacity + b.eps →
        P - b.eps * b.capacity * b.efficiency / T ≤ avg)) := by
  have hc := hb.cap
  have hη := hb.eff0
  constructor
  · intro b' avg delta h
    have hen := C01_energy_load b hb T hT.le mp none (some P) hmp (Or.inl rfl) b' avg delta h
    obtain ⟨_, hs2, _⟩ := C01_load_soc b hb T hT.le mp none (some P) hmp (Or.inl rfl) b' avg delta h
    have htg : loadTarget b T none (some P) = b.soc + P * b.efficiency * T / b.capacity := rfl
    rw [htg] at hs2
    have hge : b.soc ≤ b.soc + P * b.efficiency * T / b.capacity := by
      have : 0 ≤ P * b.efficiency * T / b.capacity :=
        div_nonneg (mul_nonneg (mul_nonneg hP hη.le) hT.le) hc.le
      linarith
    have hs3 : b'.soc ≤ b.soc + P * b.efficiency * T / b.capacity :=
      le_trans hs2 (max_le hge (min_le_right _ _))
    have havg : avg = (b'.soc - b.soc) * b.capacity / b.efficiency / T := by
      rw [← hen]; field_simp
    constructor
    · rw [havg, div_le_iff₀ hT, div_le_iff₀ hη]
      have : (b'.soc - b.soc) * b.capacity ≤ P * b.efficiency * T / b.capacity * b.capacity :=
        mul_le_mul_of_nonneg_right (by linarith) hc.le
      rw [div_mul_cancel₀ _ (ne_of_gt hc)] at this
      linarith
    · intro hreach
      rw [havg, le_div_iff₀ hT, le_div_iff₀ hη]
      have h1 : (P * b.efficiency * T / b.capacity - b.eps) * b.capacity ≤ (b'.soc - b.soc) * b.capacity :=
        mul_le_mul_of_nonneg_right (by linarith) hc.le
      have h2 : (P * b.efficiency * T / b.capacity - b.eps) * b.capacity
          = P * b.efficiency * T - b.eps * b.capacity := by field_simp
      have h3 : (P - b.eps * b.capacity / (b.efficiency * T)) * T * b.efficiency
          = P * b.efficiency * T - b.eps * b.capacity := by field_simp
      linarith
  · intro b' avg delta h
    have hen := C01_energy_unload b hb T hT.le mp none (some P) hmp (Or.inl rfl) b' avg delta h
    obtain ⟨_, _, hs2, _⟩ := C01_unload_soc b hb T hT.le mp none (some P) hmp (Or.inl rfl) b' avg delta h
    have htg : unloadTarget b T none (some P) = b.soc - P / b.efficiency * T / b.capacity := rfl
    rw [htg] at hs2
    have hle : b.soc - P / b.efficiency * T / b.capacity ≤ b.soc := by
      have : 0 ≤ P / b.efficiency * T / b.capacity :=
        div_nonneg (mul_nonneg (div_nonneg hP hη.le) hT.le) hc.le
      linarith
    rw [min_eq_right hle] at hs2
    have havg : avg = (b.soc - b'.soc) * b.capacity * b.efficiency / T := by
      rw [← hen]; field_simp
    constructor
    · rw [havg, div_le_iff₀ hT]
      have h1 : (b.soc - b'.soc) * b.capacity ≤ P / b.efficiency * T / b.capacity * b.capacity :=
        mul_le_mul_of_nonneg_right (by linarith) hc.le
      rw [div_mul_cancel₀ _ (ne_of_gt hc)] at h1
      have h2 : (b.soc - b'.soc) * b.capacity * b.efficiency ≤ P / b.efficiency * T * b.efficiency :=
        mul_le_mul_of_nonneg_right h1 hη.le
      have h3 : P / b.efficiency * T * b.efficiency = P * T := by field_simp
      linarith
    · intro hreach
      rw [havg, le_div_iff₀ hT]
      have h1 : (P / b.efficiency * T / b.capacity - b.eps) * b.capacity ≤ (b.soc - b'.soc) * b.capacity :=
        mul_le_mul_of_nonneg_right (by linarith) hc.le
      have h2 : (P / b.efficiency * T / b.capacity - b.eps) * b.capacity * b.efficiency
          ≤ (b.soc - b'.soc) * b.capacity * b.efficiency := mul_le_mul_of_nonneg_right h1 hη.le
      have h3 : (P / b.efficiency * T / b.capacity - b.eps) * b.capacity * b.efficiency
          = P * T - b.eps * b.capacity * b.efficiency := by field_simp
      have h4 : (P - b.eps * b.capacity * b.efficiency / T) * T = P * T - b.eps * b.capacity * b.efficiency := by
        field_simp
      linarith

/-- **EPS enters a section only through its guard.**  For two values of EPS for which the
linear/exponential guard `abs(m) < EPS` decides alike, the section arithmetic (time to the
breakpoint, clipped time, new SoC) is identical.
PARTIAL: the same statement for whole calls (all loop guards outside their ±EPS bands ⇒ identical
results, in particular equal to an EPS→0 reading) and a uniform bound on the deviation when a guard
*is* inside its band are not proved. -/
theorem C02_eps_close_partial (c eps eps' σ x1 x2 y1 y2 rem : ℝ) (hx : x2 - x1 ≠ 0)
    (hg : |(y2 - y1) / (x2 - x1)| < eps ↔ |(y2 - y1) / (x2 - x1)| < eps') :
    sectionStep c eps σ x1 x2 y1 y2 rem = sectionStep c eps' σ x1 x2 y1 y2 rem :=
  sectionStep_eps_indep hx hg

/-- **A higher limit never transfers less — sections on which the limit binds.**  On a section
whose clamped power is the constant `y` resp. `y' ≥ y` at both ends (the limit, times the
efficiency factor), the step moves the SoC in the direction of travel `σ` by
`min(D, y·rem/c)` resp. `min(D, y'·rem/c)`: at least as far with the higher limit.
PARTIAL: for sections on which the limit cuts a tapered or rising piece (different breakpoints
for the two limits) the comparison needs an ODE comparison argument that is not formalised; whole
calls are checked by the oracle on metamorphic pairs. -/
theorem C02_mono_limit_partial (c eps σ x1 x2 y y' rem : ℝ) (hc : 0 < c) (heps : 0 < eps)
    (hσ : σ = 1 ∨ σ = -1) (hdx : eps ≤ σ * (x2 - x1)) (hy : eps ≤ y) (hyy : y ≤ y') (hrem : 0 < rem) :
    ∃ t new t' new', sectionStep c eps σ x1 x2 y y rem = .ok (t, new) ∧
      sectionStep c eps σ x1 x2 y' y' rem = .ok (t', new') ∧
      σ * (new - x1) ≤ σ * (new' - x1) := by
  have hy' : eps ≤ y' := le_trans hy hyy
  have hypos : 0 < y := lt_of_lt_of_le heps hy
  have hy'pos : 0 < y' := lt_of_lt_of_le heps hy'
  have hD : 0 < σ * (x2 - x1) := lt_of_lt_of_le heps hdx
  refine ⟨_, _, _, _, sectionStep_const hc heps hσ hdx hy hrem,
    sectionStep_const hc heps hσ hdx hy' hrem, ?_⟩
  have hσ2 := sigma_sq hσ
  have e : ∀ z : ℝ, σ * (x1 + σ * z - x1) = z := by
    intro z
    have : σ * (x1 + σ * z - x1) = (σ * σ) * z := by ring
    rw [this, hσ2, one_mul]
  rw [e, e]
  -- y/c * min (D c / y) rem = min D (y rem / c)
  have key : ∀ z : ℝ, 0 < z → z / c * min (σ * (x2 - x1) * c / z) rem = min (σ * (x2 - x1)) (z * rem / c) := by
    intro z hz
    have hzc : 0 < z / c := div_pos hz hc
    rw [mul_min_of_nonneg _ _ hzc.le]
    congr 1
    · field_simp
    · ring
  rw [key y hypos, key y' hy'pos]
  exact min_le_min (le_refl _) (div_le_div_of_nonneg_right (mul_le_mul_of_nonneg_right hyy hrem.le) hc.le)

/-! Non-vacuity: the hypotheses of the whole-call theorems are those of C01 (`exampleBattery`);
a concrete exponential section: slope −45, intercept 47, capacity 50. -/
example : ¬ |(-45 : ℝ)| < 1 / 5000000 := by norm_num
example : StrictSoc ([] ++ ((4/5 : ℝ), (11 : ℝ)) :: (1, 2) :: []) := by
  unfold StrictSoc; simp; norm_num

end SpiceEv
