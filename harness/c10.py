"""C10 — greedy and balanced charging follow their documented rule exactly.

Real `Scenario.run('greedy' | 'balanced')` on generated scenarios; the strategy's `step()` is
wrapped at run time: the complete world state before every step is rendered for the Lean model
(`rulestep`, Float battery model), the real step runs, and commands / connector loads / station
power / vehicle and battery SoCs after the step are compared bit for bit (by value).
Third party: the Lean SPECIFICATION of the documented rule (`specstep`, Model/RuleSpec.lean; proved equal to the model by
C10_ruleStep_refines_spec) is evaluated on the same world line and compared with the real step in the same way.
Oracle: an independent executable specification of the documented rule (written against the
documentation, using copies of the real Battery objects) is run on a deep copy of the same world
state and must give the same commands and SoCs.
"""
import copy
import datetime
import random

import engine
import scen
from wire import enc, dec

engine.use_repo()

PID = "C10"
CHUNK = 2
RULE = ("scenarios from the grammar in harness/scen.py (fixed load, generation surplus, prices around the threshold, "
        "station/vehicle minimum power, stationary batteries incl. unlimited, V2G, CONCURRENCY; plus a directed family "
        "with battery support at a connector whose headroom is used up or negative, and one with the minimum-power cut-off "
        "exactly on its boundary), strategies greedy and "
        "balanced; every strategy step of every run is one model evaluation; non-trivial = a step in which at least one "
        "station or battery carries power; distinct = distinct (seed, index, strategy)")
ASSUMPTIONS = ["model vs implementation and Lean specification (`specstep`, Model/RuleSpec.lean) vs implementation: floats compared by value (+0.0 == -0.0), no tolerance — the Lean specification performs the same float operations in the same order (x + (-y) for x - y in the V2G booking, which is the same IEEE operation); Python reference specification vs implementation: 1e-9 relative (it is a restatement, not a transliteration)",
               "the reference specification uses copies of the real Battery objects (the battery is C01/C02's subject)"]
UNPROVED = ["model = Lean specification is PROVED (C10_ruleStep_refines_spec: ruleStep = RuleSpec.specStep on every world with "
            "unique ids and priced connectors, all exceptions included) over ordered fields; on IEEE doubles the same "
            "equality is checked by this stream (`specstep` lines, by value, no tolerance). What remains correspondence "
            "only: the tie of either Lean function to the Python code, and the battery (BatOps) behind both"]
EPOCH = datetime.datetime(1970, 1, 1, tzinfo=datetime.timezone.utc)


def us(dt):
    if dt.tzinfo is None:
        dt = dt.replace(tzinfo=datetime.timezone.utc)
    d = dt - EPOCH
    return (d.days * 86400 + d.seconds) * 1000000 + d.microseconds


def f(x):
    return enc(float(x))


def r_battery(b):
    lp, up = b.loading_curve.points, b.unloading_curve.points
    return " ".join([f(b.capacity), f(b.efficiency), f(b.soc), f(b.EPS), str(len(lp))]
                    + ["%s %s" % (f(p[0]), f(p[1])) for p in lp] + [f(b.loading_curve.max_power), str(len(up))]
                    + ["%s %s" % (f(p[0]), f(p[1])) for p in up] + [f(b.unloading_curve.max_power)])


def r_cost(c):
    if not c:
        return "N"
    if c["type"] == "fixed":
        return "F " + f(c["value"])
    return "P %d %s" % (len(c["value"]), " ".join(f(x) for x in c["value"]))


def render_world(strat, rule):
    ws = strat.world_state
    interval_us = int(strat.interval.total_seconds() * 1000000)
    parts = ["rulestep", rule, f(strat.EPS), f(strat.PRICE_THRESHOLD), f(strat.ts_per_hour),
             str(us(strat.current_time)), str(interval_us)]
    parts.append(str(len(ws.grid_connectors)))
    for gid, gc in ws.grid_connectors.items():
        parts += [gid, f(gc.cur_max_power), r_cost(gc.cost), str(len(gc.current_loads))]
        for k, v in gc.current_loads.items():
            parts += [k, f(v)]
    parts.append(str(len(ws.charging_stations)))
    for cid, cs in ws.charging_stations.items():
        parts += [cid, cs.parent, f(cs.max_power), f(cs.min_power), f(cs.current_power)]
    parts.append(str(len(ws.vehicles)))
    for vid, v in ws.vehicles.items():
        etd = v.estimated_time_of_departure
        parts += [vid, "N" if v.connected_charging_station is None else "S " + v.connected_charging_station,
                  f(v.desired_soc), "N" if etd is None else "S %d" % us(etd),
                  f(v.vehicle_type.min_charging_power), "1" if v.vehicle_type.v2g else "0",
                  f(v.vehicle_type.discharge_limit), r_battery(v.battery)]
    parts.append(str(len(ws.batteries)))
    for bid, b in ws.batteries.items():
        parts += [bid, b.parent, f(b.min_charging_power), r_battery(b)]
    return " ".join(parts)


def render_result(strat, cmds):
    ws = strat.world_state
    kv = lambda d: " ".join([str(len(d))] + ["%s %s" % (k, f(v)) for k, v in d.items()])
    return (kv(cmds) + " | " + " ; ".join("%s %s" % (gid, kv(gc.current_loads)) for gid, gc in ws.grid_connectors.items())
            + " | " + " ".join(f(cs.current_power) for cs in ws.charging_stations.values())
            + " | " + " ".join(f(v.battery.soc) for v in ws.vehicles.values())
            + " | " + " ".join(f(b.soc) for b in ws.batteries.values()))


def spec_line(line):
    """the same world line for the driver command `specstep` (Lean specification `RuleSpec.specStep`, proved equal to
    `ruleStep` on well-formed worlds by C10_ruleStep_refines_spec; here compared with the real step like the model)"""
    assert line.startswith("rulestep ")
    return "specstep " + line[len("rulestep "):]


# ---- independent reference specification of the documented rule -------------------------------

def spec_step(strat, rule):
    """documented rule, written against the documentation; mutates the (copied) strategy's world"""
    from spice_ev.util import get_cost
    ws, dt, eps = strat.world_state, strat.interval, strat.EPS
    load = lambda gc: sum(gc.current_loads.values(), 0)

    def add(gc, key, p):
        gc.current_loads[key] = gc.current_loads.get(key, 0) + p
        return gc.current_loads[key]

    def clamp(p, v, cs):
        tot = min(cs.current_power + p, cs.max_power)
        if tot < cs.min_power or tot < v.vehicle_type.min_charging_power:
            return 0
        return max(min(p, cs.max_power - cs.current_power), 0)
    cheap = {g: get_cost(1, gc.cost) <= strat.PRICE_THRESHOLD for g, gc in ws.grid_connectors.items()}
    support = {g: sum([b.get_available_power(dt) for b in ws.batteries.values() if b.parent == g], 0)
               for g in ws.grid_connectors}
    for cs in ws.charging_stations.values():
        cs.current_power = 0
    cmds = {}
    for vid in sorted(ws.vehicles):
        v = ws.vehicles[vid]
        if v.connected_charging_station is None:
            continue
        cs = ws.charging_stations[v.connected_charging_station]
        gc = ws.grid_connectors[cs.parent]
        head = gc.cur_max_power - load(gc)
        need = v.desired_soc - v.battery.soc
        used = False
        if cheap[cs.parent]:
            p = clamp(head, v, cs)
            avg = v.battery.load(dt, max_power=p)["avg_power"] if rule == "g" \
                else v.battery.load(dt, target_power=p)["avg_power"]
        elif need > eps:
            used = True
            e = need * v.battery.capacity / v.battery.efficiency
            if rule == "g":
                p = clamp(min(e * strat.ts_per_hour, head + support[cs.parent]), v, cs)
            else:
                n = -((v.estimated_time_of_departure - strat.current_time) // -dt)
                p = clamp(min(e * strat.ts_per_hour / n, head), v, cs) if n > 0 else clamp(head, v, cs)
            avg = v.battery.load(dt, target_power=p)["avg_power"]
        else:
            avg = 0 if rule == "g" else v.battery.load(dt, target_power=0)["avg_power"]
        cmds[v.connected_charging_station] = add(gc, v.connected_charging_station, avg)
        cs.current_power += avg
        if used:
            support[cs.parent] = max(support[cs.parent] - avg, 0)
    # surplus to vehicles / V2G support
    for v in ws.vehicles.values():
        if v.connected_charging_station is None:
            continue
        cid = v.connected_charging_station
        cs = ws.charging_stations[cid]
        gc = ws.grid_connectors[cs.parent]
        surplus = -load(gc)
        if surplus > eps:
            avg = v.battery.load(dt, max_power=clamp(surplus, v, cs))["avg_power"]
            cmds[cid] = add(gc, cid, avg)
            cs.current_power += avg
        elif (surplus < -eps and v.desired_soc - v.battery.soc < -eps and v.vehicle_type.v2g
              and abs(gc.current_loads.get(cid, 0)) < eps and not cheap[cs.parent]):
            p = min(-surplus, v.battery.unloading_curve.max_power, cs.max_power)
            avg = v.battery.unload(dt, max_power=p, target_soc=max(v.desired_soc, v.vehicle_type.discharge_limit))[
                "avg_power"]
            cmds[cid] = add(gc, cid, -avg)
            cs.current_power -= avg
    # stationary batteries: charge from cheap power or surplus, otherwise reduce grid draw
    for bid, b in ws.batteries.items():
        gc = ws.grid_connectors.get(b.parent)
        if gc is None:
            continue
        ld = load(gc)
        if cheap[b.parent]:
            p = gc.cur_max_power - ld
            add(gc, bid, b.load(dt, max_power=0 if p < b.min_charging_power else p)["avg_power"])
        elif ld < 0:
            add(gc, bid, b.load(dt, target_power=0 if -ld < b.min_charging_power else -ld)["avg_power"])
        else:
            add(gc, bid, -b.unload(dt, target_power=ld)["avg_power"])
    return cmds


def gen_cases(tier, seed):
    n = 150 if tier == "quick" else 2500
    for i in range(n):
        for st in ("greedy", "balanced"):
            yield {"seed": seed, "i": i, "strategy": st, "pid": PID}
    # directed: stationary-battery support at a connector whose headroom is used up or negative (expensive power,
    # several needy vehicles at one small connector, fixed load around / above the limit)
    for i in range(60 if tier == "quick" else 1000):
        for st in ("greedy", "balanced"):
            yield {"seed": seed, "i": i, "strategy": st, "pid": PID, "family": "support"}
    # directed: the minimum-power cut-off exactly on its boundary (station total == station / vehicle minimum power:
    # `<` charges, `<=` would not) — station minimum = station maximum, or vehicle minimum = station maximum
    for i in range(30 if tier == "quick" else 400):
        for st in ("greedy", "balanced"):
            yield {"seed": seed, "i": i, "strategy": st, "pid": PID, "family": "cutoff"}


def eval_case(case):
    from spice_ev import strategy as st_mod
    if "scenario" in case:
        full = case
    else:
        rng = random.Random("C10:%s:%s:%s:%s" % (case["seed"], case["i"], case["strategy"], case.get("family", "")))
        if case.get("family") == "support":
            full = scen.gen_scenario(rng, strategy=case["strategy"], n_gc=1, feasible=True, max_steps=20,
                                     features={"window": False, "window_signal": False, "battery": True,
                                               "price_signal": False, "generation": False, "fixed_load": True,
                                               "limit_signal": False, "v2g": False})
            comp, ev = full["scenario"]["components"], full["scenario"]["events"]
            full["options"].pop("PRICE_THRESHOLD", None)
            rating = rng.choice([5, 11, 20])
            for gc in comp["grid_connectors"].values():
                gc["max_power"] = rating
                gc["cost"] = {"type": "fixed", "value": 0.3}
            for b in comp["batteries"].values():
                b["soc"] = rng.choice([0.3, 0.5, 1.0])
                b["capacity"] = rng.choice([50, 200])
            for v in comp["vehicles"].values():
                v["soc"] = rng.choice([0.1, 0.2, 0.4])
            lvl = rng.choice([0.5, 0.9, 1.0, 1.3])
            for fl in ev["fixed_load"].values():
                fl["values"] = [round(rating * lvl * rng.uniform(0.8, 1.0), 3) for _ in fl["values"]]
        elif case.get("family") == "cutoff":
            full = scen.gen_scenario(rng, strategy=case["strategy"], n_gc=1, feasible=True, max_steps=20,
                                     features={"window": False, "window_signal": False, "limit_signal": False})
            comp = full["scenario"]["components"]
            for gc in comp["grid_connectors"].values():
                gc["max_power"] = max(gc.get("max_power") or 0, 200)      # the station, not the connector, binds
            for cs in comp["charging_stations"].values():
                if rng.random() < 0.6:
                    cs["min_power"] = cs["max_power"]
            for vt in comp["vehicle_types"].values():
                if rng.random() < 0.4:
                    vt["min_charging_power"] = min(cs["max_power"] for cs in comp["charging_stations"].values())
        else:
            full = scen.gen_scenario(rng, strategy=case["strategy"], feasible=True, max_steps=36,
                                     features={"window": False, "window_signal": False})
        full["pid"] = PID
    rule = "g" if full["strategy"] == "greedy" else "b"
    cls = st_mod.class_from_str(full["strategy"])
    orig = cls.step
    lines, impl, viol = [], [], []
    active = [0]
    import runoracle
    want_cost = runoracle.expected_costs(full)
    t_start = runoracle.fdt(full["scenario"]["scenario"]["start_time"])
    dt_step = datetime.timedelta(minutes=full["scenario"]["scenario"]["interval"])

    def wrapped(self):
        # the rule's "price at or below the threshold" speaks about the price IN FORCE: stated independently of the code's
        # event processing (latest signal by effect step / start time), compared with what the step is about to read
        k = (self.current_time - t_start) // dt_step
        for gid, gc in self.world_state.grid_connectors.items():
            if 0 <= k < len(want_cost.get(gid, [])) and gc.cost != want_cost[gid][k] and len(viol) < 3:
                viol.append(("price_in_force", "C10:price_in_force_not_latest_signal:%s" % full["strategy"],
                             "%s %s: cost %r, latest signal says %r" % (self.current_time, gid, gc.cost, want_cost[gid][k])))
        # greedy's "plus stationary-battery support": the support budget is what the battery can really deliver over the
        # step - stated independently of get_available_power by discharging a copy
        for bid, b in self.world_state.batteries.items():
            got = b.get_available_power(self.interval)
            can = copy.deepcopy(b).unload(self.interval)["avg_power"]
            if abs(got - can) > 1e-9 * max(1.0, abs(can)) and len(viol) < 3:
                viol.append(("battery_support", "C10:battery_support_budget_not_deliverable:%s" % full["strategy"],
                             "%s %s: get_available_power %r, a discharge over the step delivers %r"
                             % (self.current_time, bid, got, can)))
        line = render_world(self, rule)
        ref = copy.deepcopy(self)
        ref_err = None
        try:
            ref_cmds = spec_step(ref, rule)
        except Exception as e:
            ref_err = "!" + type(e).__name__
        try:
            res = orig(self)
        except Exception as e:
            lines.append(line)
            impl.append("!" + type(e).__name__)
            lines.append(spec_line(line))          # third party: the Lean specification (Model/RuleSpec.lean)
            impl.append("!" + type(e).__name__)
            if ref_err is None:
                viol.append(("spec", "C10:step_raises_where_spec_does_not:%s" % full["strategy"],
                             "%s at %s" % (type(e).__name__, self.current_time)))
            raise
        lines.append(line)
        out = render_result(self, res["commands"])
        impl.append(out)
        lines.append(spec_line(line))              # third party: the Lean specification (Model/RuleSpec.lean)
        impl.append(out)
        if ref_err is not None:
            viol.append(("spec", "C10:spec_raises_where_step_does_not:%s" % full["strategy"], ref_err))
        else:
            want = render_result(ref, ref_cmds)
            d = compare(None, out, want, tol=1e-9)
            if d is not None and len(viol) < 3:
                viol.append(("spec", "C10:step_differs_from_documented_rule:%s" % full["strategy"],
                             "%s: %s" % (self.current_time, d)))
        if any(abs(x) > 1e-5 for x in res["commands"].values()):
            active[0] += 1
        return res
    cls.step = wrapped
    try:
        scen.run_real(full, timeout_s=120)
    finally:
        cls.step = orig
    return {"lines": lines, "impl": impl, "violations": viol, "nontrivial": active[0] > 0,
            "stats": [full["strategy"]], "replay_case": full, "num": {"steps_compared": len(lines) // 2, "spec_lines_compared": len(lines) // 2}}


def compare(case, impl, model, tol=0.0):
    a, b = impl.split(), model.split()
    if len(a) != len(b):
        return "different shape (%d vs %d tokens): %s  //  %s" % (len(a), len(b), impl[:200], model[:200])
    for i, (x, y) in enumerate(zip(a, b)):
        if x == y:
            continue
        if x.startswith("x") and y.startswith("x"):
            fx, fy = dec(x), dec(y)
            if fx == fy or abs(fx - fy) <= tol * max(1.0, abs(fx), abs(fy)):
                continue
            return "token %d: impl %r model %r" % (i, fx, fy)
        return "token %d: impl %s model %s" % (i, x, y)
    return None
