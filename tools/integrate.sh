#!/bin/bash
# tools/integrate.sh <workspace name under /tmp/w>  — copy a builder's NEW files into /verif (never overwrites)
W=/tmp/w/$1/verif
for d in lean/SpiceEv lean/SpiceEv/Model lean/SpiceEv/Cmd lean/SpiceEv/Proofs lean/SpiceEv/Properties harness notes corpus fixes; do
  [ -d $W/$d ] || continue
  mkdir -p /verif/$d
  rsync -a --ignore-existing --exclude '__pycache__' --exclude '.lake' $W/$d/ /verif/$d/ 
done
echo "--- shared files changed by the builder:"
for f in lean/Driver.lean lean/SpiceEv.lean harness/engine.py harness/exact.py harness/wire.py lean/SpiceEv/Py.lean lean/SpiceEv/Wire.lean lean/SpiceEv/Proofs/Basic.lean lean/SpiceEv/Model/Curve.lean lean/SpiceEv/Proofs/Curve.lean known_findings.json; do
  if ! diff -q <(git -C /verif show bd7ef23:$f 2>/dev/null || git -C /verif show HEAD:$f) $W/$f >/dev/null 2>&1; then echo "  $f"; fi
done
