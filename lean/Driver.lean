/-
Line-protocol driver: one request per line on stdin, one response per line on stdout.
`<cmd> <T> args…` with T ∈ {q (Rat), f (Float)}.  Mathlib-free, compiled as `driver`.
-/
import SpiceEv.Wire
import SpiceEv.Model.Curve
open SpiceEv

section
variable {α : Type} [Add α] [Sub α] [Mul α] [Div α] [LT α] [LE α]
  [DecidableLT α] [DecidableLE α] [OfNat α 0] [OfNat α 1] [Wire α]

def rNum (x : α) : String := Wire.render x
def rPoint (p : α × α) : String := rNum p.1 ++ " " ++ rNum p.2
def rCurve (c : Curve α) : String := renderList rPoint c.points ++ " " ++ rNum c.maxPower
def pPoint : P (α × α) := do let a ← P.num α; let b ← P.num α; pure (a, b)

/-- `curve T <n> pts… L pre post <k> socs…` →
    `new=<curve> | clamped=<curve> | lookups on both | boundaries on both` -/
def cmdCurve : P String := do
  let pts ← P.list (pPoint (α := α))
  let L ← P.num α; let pre ← P.num α; let post ← P.num α
  let socs ← P.list (P.num α)
  let c := Curve.new pts
  let cl := c.bind (fun c => c.clamped L pre post)
  let look (c : Py (Curve α)) : String :=
    match c with
    | .error _ => "-"
    | .ok c => " ".intercalate (socs.map (fun s => renderPy rNum (c.powerFromSoc s)))
  let bnd (c : Py (Curve α)) : String :=
    match c with
    | .error _ => "-"
    | .ok c => " ".intercalate (socs.map (fun s =>
        let b := c.sectionBoundary s; s!"{b.1},{b.2}"))
  pure (s!"{renderPy rCurve c} | {renderPy rCurve cl} | {look c} | {look cl} | {bnd c} | {bnd cl}")
end

def dispatchT (cmd : String) (α : Type) [Add α] [Sub α] [Mul α] [Div α] [LT α] [LE α]
    [DecidableLT α] [DecidableLE α] [OfNat α 0] [OfNat α 1] [Wire α] : Option (P String) :=
  match cmd with
  | "curve" => some (cmdCurve (α := α))
  | _ => none

def handle (line : String) : String :=
  match (line.splitOn " ").filter (· ≠ "") with
  | cmd :: t :: rest =>
    let p : Option (P String) :=
      if t == "q" then dispatchT cmd Rat else if t == "f" then dispatchT cmd Float else none
    match p with
    | none => "bad-cmd"
    | some p => match (p <* P.eof).run rest with
      | some (out, _) => out
      | none => "bad-args"
  | [] => ""
  | _ => "bad-line"

partial def loop (h : IO.FS.Stream) (out : IO.FS.Stream) : IO Unit := do
  let line ← h.getLine
  if line.isEmpty then return ()
  out.putStrLn (handle (line.trimAscii.toString))
  loop h out

def main : IO Unit := do
  let out ← IO.getStdout
  loop (← IO.getStdin) out
  out.flush
