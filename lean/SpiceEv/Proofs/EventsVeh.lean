/-
Helper lemmas for C08: the vehicle branch of `Strategy.step`, counters along a trajectory,
SoC frame, and the shape of the run loop.
-/
import SpiceEv.Proofs.Events
import SpiceEv.Proofs.Basic
set_option linter.unusedSectionVars false
set_option linter.unusedSimpArgs false
set_option linter.unusedVariables false
set_option linter.unnecessarySeqFocus false
namespace SpiceEv
variable {α : Type} [Field α] [LinearOrder α] [IsStrictOrderedRing α]

/-! ### specification-level vocabulary -/

/-- SoC a departing vehicle is judged by: the code's past-departure rule replaces the SoC by the
desired SoC when the departure is dated more than one interval before the current step -/
def departureSoc (cfg : Cfg α) (now evStart : Int) (v : Vehicle α) : α :=
  if evStart < now - cfg.interval then v.desired else v.soc

/-- `ev` is a departure of a known, connected vehicle whose SoC is below the desired SoC − ε -/
def isDeficientDeparture (cfg : Cfg α) (s : Strat α) (ev : Event α) : Bool :=
  match ev.kind with
  | .vehicle vid .departure upd =>
    match alGet? vid s.world.vehicles with
    | some v0 =>
      v0.station.isSome &&
        decide (departureSoc cfg s.now ev.start (v0.applyUpdate upd) < (v0.applyUpdate upd).desired - cfg.eps)
    | none => false
  | _ => false

/-- … and whose SoC is non-negative and below `(1 − margin)·desired − ε` -/
def isMarginDeparture (cfg : Cfg α) (s : Strat α) (ev : Event α) : Bool :=
  match ev.kind with
  | .vehicle vid .departure upd =>
    match alGet? vid s.world.vehicles with
    | some v0 =>
      v0.station.isSome &&
        decide (0 ≤ departureSoc cfg s.now ev.start (v0.applyUpdate upd)) &&
        decide (departureSoc cfg s.now ev.start (v0.applyUpdate upd)
          < (1 - cfg.margin) * (v0.applyUpdate upd).desired - cfg.eps)
    | none => false
  | _ => false

/-- the only events that may change the SoC of vehicle `vid`: its own arrival, and its own
departure when dated more than one interval in the past -/
def touchesSoc (cfg : Cfg α) (now : Int) (vid : String) (ev : Event α) : Bool :=
  match ev.kind with
  | .vehicle vid' .arrival _ => vid' = vid
  | .vehicle vid' .departure _ => vid' = vid && decide (ev.start < now - cfg.interval)
  | _ => false

/-- number of events of `l`, applied in order from `s` until one raises, that satisfy `p` in the
state in which they are applied -/
def countAlong (cfg : Cfg α) (p : Strat α → Event α → Bool) : Strat α → List (Event α) → Nat
  | _, [] => 0
  | s, ev :: l =>
    (if p s ev then 1 else 0) +
      match applyEvent cfg s ev with
      | (_, some _) => 0
      | (s', none) => countAlong cfg p s' l

/-! ### one vehicle event -/

theorem departVehicle_eq (cfg : Cfg α) (s : Strat α) (t : Int) (conn : Bool) (v : Vehicle α) :
    departVehicle cfg s t conn v =
      ({ v with etd := none, soc := departureSoc cfg s.now t v, station := none },
       s.desiredCounter + (if conn && decide (departureSoc cfg s.now t v < v.desired - cfg.eps) then 1 else 0),
       s.marginCounter + (if conn && decide (0 ≤ departureSoc cfg s.now t v) &&
          decide (departureSoc cfg s.now t v < (1 - cfg.margin) * v.desired - cfg.eps) then 1 else 0)) := by
  unfold departVehicle departureSoc
  by_cases h : t < s.now - cfg.interval
  · simp only [h, if_true]
    refine Prod.ext rfl (Prod.ext ?_ ?_)
    · dsimp only; split <;> simp
    · dsimp only; split <;> simp
  · simp only [h, if_false]
    refine Prod.ext rfl (Prod.ext ?_ ?_)
    · dsimp only; split <;> simp
    · dsimp only; split <;> simp

theorem applyEvent_vehicle (cfg : Cfg α) (s : Strat α) (ev : Event α) (vid : String) (k : VehKind)
    (u : VehUpdate α) (hk : ev.kind = .vehicle vid k u) :
    applyEvent cfg s ev = applyVehicleEvent cfg s ev.start vid k u := by
  unfold applyEvent; rw [hk]

theorem alGet?_setVehicle (s : Strat α) (vid vid' : String) (v : Vehicle α) :
    alGet? vid' (s.setVehicle vid v).world.vehicles =
      if vid = vid' then some v else alGet? vid' s.world.vehicles := by
  simp [alGet?_alSet]

theorem alGet?_trackerAdd (vid : String) (now : Int) (t : List (String × List Int)) :
    alGet? vid (trackerAdd vid now t) = some ((alGet? vid t).getD [] ++ [now]) := by
  unfold trackerAdd
  cases h : alGet? vid t <;> simp [alGet?_alSet]

theorem alGet?_trackerAdd_ne (vid vid' : String) (h : vid ≠ vid') (now : Int)
    (t : List (String × List Int)) : alGet? vid' (trackerAdd vid now t) = alGet? vid' t := by
  unfold trackerAdd
  cases h' : alGet? vid t <;> simp [alGet?_alSet, h]

/-! ### counters -/

theorem arriveVehicle_counters (cfg : Cfg α) (s : Strat α) (vid : String) (v : Vehicle α) :
    (arriveVehicle cfg s vid v).1.desiredCounter = s.desiredCounter ∧
    (arriveVehicle cfg s vid v).1.marginCounter = s.marginCounter := by
  unfold arriveVehicle
  split
  · simp
  · dsimp only
    split
    · split <;> simp
    · simp

theorem applyEvent_counters (cfg : Cfg α) (s : Strat α) (ev : Event α) :
    (applyEvent cfg s ev).1.desiredCounter
      = s.desiredCounter + (if isDeficientDeparture cfg s ev then 1 else 0) ∧
    (applyEvent cfg s ev).1.marginCounter
      = s.marginCounter + (if isMarginDeparture cfg s ev then 1 else 0) := by
  unfold applyEvent isDeficientDeparture isMarginDeparture
  cases hk : ev.kind with
  | fixedLoad name gc v =>
    simp only []
    unfold applyFixedLoad
    split
    · simp
    · split <;> simp
  | localGen name gc v =>
    simp only []
    unfold applyLocalGen
    split
    · simp
    · split <;> simp
  | gridSignal gc mp cost t w =>
    simp only []
    unfold applyGridSignal
    split <;> simp
  | vehicle vid k u =>
    simp only []
    unfold applyVehicleEvent
    cases hv : alGet? vid s.world.vehicles with
    | none => cases k <;> simp [hv]
    | some v0 =>
      cases k with
      | departure =>
        simp only [hv, departVehicle_eq]
        constructor <;> simp
      | arrival =>
        simp only [hv]
        have := arriveVehicle_counters cfg s vid (v0.applyUpdate u)
        simp [this.1, this.2]
      | other => simp [hv]

theorem applyAll_counters (cfg : Cfg α) (s : Strat α) (l : List (Event α)) :
    (applyAll cfg s l).1.desiredCounter
      = s.desiredCounter + countAlong cfg (isDeficientDeparture cfg) s l ∧
    (applyAll cfg s l).1.marginCounter
      = s.marginCounter + countAlong cfg (isMarginDeparture cfg) s l := by
  induction l generalizing s with
  | nil => simp [applyAll, countAlong]
  | cons ev l ih =>
    obtain ⟨c1, c2⟩ := applyEvent_counters cfg s ev
    unfold applyAll countAlong
    cases hap : applyEvent cfg s ev with
    | mk s' oe =>
      rw [hap] at c1 c2
      cases oe with
      | some e => simp only []; exact ⟨by rw [c1]; simp, by rw [c2]; simp⟩
      | none =>
        simp only []
        obtain ⟨i1, i2⟩ := ih s'
        rw [i1, i2, c1, c2]
        constructor <;> omega

/-! ### counters across a step and a run -/

theorem step_counters (cfg : Cfg α) (s : Strat α) (b : List (Event α)) :
    (s.step cfg b).strat.desiredCounter
      = s.desiredCounter + countAlong cfg (isDeficientDeparture cfg) (s.tick cfg) (s.step cfg b).popped ∧
    (s.step cfg b).strat.marginCounter
      = s.marginCounter + countAlong cfg (isMarginDeparture cfg) (s.tick cfg) (s.step cfg b).popped := by
  obtain ⟨f1, -, -, -, -, -, -, f8, f9, -, -⟩ :=
    finishStep_proj (processQueue cfg (s.tick cfg) (sortByStart (s.world.queue ++ b)))
  have h3 := (processQueue_spec cfg (s.tick cfg) (sortByStart (s.world.queue ++ b))).2.2.1
  obtain ⟨a1, a2⟩ := applyAll_counters cfg (s.tick cfg)
    (processQueue cfg (s.tick cfg) (sortByStart (s.world.queue ++ b))).popped
  rw [← h3] at a1 a2
  unfold Strat.step
  rw [f1, f8, f9]
  exact ⟨a1, a2⟩

/-- number of events with property `p` (judged in the state in which each is applied) over a whole
run of the loop of `Scenario.run` -/
def runCount (cfg : Cfg α) (p : Strat α → Event α → Bool)
    (rest : Strat α → Strat α × Option PyErr) : Strat α → List (List (Event α)) → Nat
  | _, [] => 0
  | s, b :: B =>
    countAlong cfg p (s.tick cfg) (s.step cfg b).popped +
      match (s.step cfg b).err with
      | some _ => 0
      | none =>
        match rest (s.step cfg b).strat with
        | (_, some _) => 0
        | (s', none) => runCount cfg p rest s' B

/-- a strategy action / error epilogue that does not touch the two counters -/
def KeepsCounters (f : Strat α → Strat α) : Prop :=
  ∀ s, (f s).desiredCounter = s.desiredCounter ∧ (f s).marginCounter = s.marginCounter

theorem run_counters (cfg : Cfg α) (rest : Strat α → Strat α × Option PyErr) (roe : Strat α → Strat α)
    (hrest : KeepsCounters (fun s => (rest s).1)) (hroe : KeepsCounters roe)
    (B : List (List (Event α))) (s : Strat α) :
    (runLoop cfg rest roe s B).strat.desiredCounter
      = s.desiredCounter + runCount cfg (isDeficientDeparture cfg) rest s B ∧
    (runLoop cfg rest roe s B).strat.marginCounter
      = s.marginCounter + runCount cfg (isMarginDeparture cfg) rest s B := by
  induction B generalizing s with
  | nil => simp [runLoop, runCount]
  | cons b B ih =>
    obtain ⟨c1, c2⟩ := step_counters cfg s b
    unfold runLoop runCount
    dsimp only
    cases he : (s.step cfg b).err with
    | some e =>
      simp only []
      obtain ⟨r1, r2⟩ := hroe (s.step cfg b).strat
      rw [r1, r2, c1, c2]; simp
    | none =>
      simp only []
      obtain ⟨k1, k2⟩ := hrest (s.step cfg b).strat
      dsimp only at k1 k2
      cases hr : rest (s.step cfg b).strat with
      | mk s' oe =>
        rw [hr] at k1 k2
        simp only at k1 k2
        cases oe with
        | some e => simp only []; rw [k1, k2, c1, c2]; simp
        | none =>
          simp only []
          obtain ⟨i1, i2⟩ := ih s'
          rw [i1, i2, k1, k2, c1, c2]
          constructor <;> omega

/-! ### SoC frame -/

/-- `ev` is a vehicle event for `vid` -/
def addresses (vid : String) (ev : Event α) : Bool :=
  match ev.kind with
  | .vehicle vid' _ _ => vid' = vid
  | _ => false

theorem arriveVehicle_vehicles_ne (cfg : Cfg α) (s : Strat α) (vid vid' : String) (h : vid ≠ vid')
    (v : Vehicle α) :
    alGet? vid' (arriveVehicle cfg s vid v).1.world.vehicles = alGet? vid' s.world.vehicles := by
  unfold arriveVehicle
  split
  · simp [alGet?_alSet, h]
  · dsimp only
    split
    · split <;> simp [alGet?_alSet, h]
    · simp [alGet?_alSet, h]

/-- an event that is not a vehicle event for `vid` leaves the vehicle record of `vid` untouched -/
theorem applyEvent_vehicle_other (cfg : Cfg α) (s : Strat α) (ev : Event α) (vid : String)
    (h : addresses vid ev = false) :
    alGet? vid (applyEvent cfg s ev).1.world.vehicles = alGet? vid s.world.vehicles := by
  unfold applyEvent
  unfold addresses at h
  cases hk : ev.kind with
  | fixedLoad name gc v =>
    simp only []; unfold applyFixedLoad
    split
    · rfl
    · split <;> simp
  | localGen name gc v =>
    simp only []; unfold applyLocalGen
    split
    · rfl
    · split <;> simp
  | gridSignal gc mp cost t w =>
    simp only []; unfold applyGridSignal
    split <;> simp
  | vehicle vid' k u =>
    rw [hk] at h
    simp only [decide_eq_false_iff_not] at h
    simp only []
    unfold applyVehicleEvent
    split
    · rfl
    · dsimp only
      split
      · simp [alGet?_alSet, h]
      · exact arriveVehicle_vehicles_ne cfg s vid' vid h _
      · simp [alGet?_alSet, h]

/-- **event-level SoC frame**: only the vehicle's own arrival, or its own departure dated more than
one interval in the past, can change its SoC; no event removes a vehicle -/
theorem applyEvent_soc (cfg : Cfg α) (s : Strat α) (ev : Event α) (vid : String)
    (h : touchesSoc cfg s.now vid ev = false) :
    (alGet? vid (applyEvent cfg s ev).1.world.vehicles).map (·.soc)
      = (alGet? vid s.world.vehicles).map (·.soc) := by
  by_cases ha : addresses vid ev = false
  · rw [applyEvent_vehicle_other cfg s ev vid ha]
  · unfold addresses at ha
    unfold touchesSoc at h
    cases hk : ev.kind with
    | vehicle vid' k u =>
      rw [hk] at ha h
      simp only [Bool.not_eq_false, decide_eq_true_eq] at ha
      subst ha
      rw [applyEvent_vehicle cfg s ev vid' k u hk]
      unfold applyVehicleEvent
      cases hv : alGet? vid' s.world.vehicles with
      | none => simp [hv]
      | some v0 =>
        cases k with
        | arrival => simp at h
        | departure =>
          simp only [decide_true, Bool.true_and, decide_eq_false_iff_not] at h
          simp only [departVehicle_eq, departureSoc, h, if_false]
          simp [alGet?_alSet, Vehicle.applyUpdate]
        | other => simp [alGet?_alSet, Vehicle.applyUpdate]
    | fixedLoad _ _ _ => rw [hk] at ha; simp at ha
    | localGen _ _ _ => rw [hk] at ha; simp at ha
    | gridSignal _ _ _ _ _ => rw [hk] at ha; simp at ha

theorem applyAll_vehicle_other (cfg : Cfg α) (s : Strat α) (l : List (Event α)) (vid : String)
    (h : ∀ e ∈ l, addresses vid e = false) :
    alGet? vid (applyAll cfg s l).1.world.vehicles = alGet? vid s.world.vehicles := by
  induction l generalizing s with
  | nil => rfl
  | cons ev l ih =>
    have h1 := applyEvent_vehicle_other cfg s ev vid (h ev (by simp))
    unfold applyAll
    cases hap : applyEvent cfg s ev with
    | mk s' oe =>
      rw [hap] at h1
      cases oe with
      | some e => exact h1
      | none =>
        simp only []
        rw [ih s' (fun e he => h e (by simp [he])), h1]

theorem applyAll_soc (cfg : Cfg α) (s : Strat α) (l : List (Event α)) (vid : String)
    (h : ∀ e ∈ l, touchesSoc cfg s.now vid e = false) :
    (alGet? vid (applyAll cfg s l).1.world.vehicles).map (·.soc)
      = (alGet? vid s.world.vehicles).map (·.soc) := by
  induction l generalizing s with
  | nil => rfl
  | cons ev l ih =>
    have h1 := applyEvent_soc cfg s ev vid (h ev (by simp))
    have hf := applyEvent_frame cfg s ev
    unfold applyAll
    cases hap : applyEvent cfg s ev with
    | mk s' oe =>
      rw [hap] at h1 hf
      cases oe with
      | some e => exact h1
      | none =>
        simp only []
        have hnow : s'.now = s.now := hf.now
        rw [ih s' (fun e he => by rw [hnow]; exact h e (by simp [he])), h1]

theorem step_vehicles (cfg : Cfg α) (s : Strat α) (b : List (Event α)) :
    (s.step cfg b).strat.world.vehicles
      = (applyAll cfg (s.tick cfg) (s.step cfg b).popped).1.world.vehicles := by
  obtain ⟨f1, -, -, -, -, f6, -⟩ :=
    finishStep_proj (processQueue cfg (s.tick cfg) (sortByStart (s.world.queue ++ b)))
  have h3 := (processQueue_spec cfg (s.tick cfg) (sortByStart (s.world.queue ++ b))).2.2.1
  unfold Strat.step
  rw [f6, f1, ← h3]

/-- **step-level SoC frame**, exception or not -/
theorem step_soc (cfg : Cfg α) (s : Strat α) (b : List (Event α)) (vid : String)
    (h : ∀ e ∈ (s.step cfg b).popped, touchesSoc cfg (s.now + cfg.interval) vid e = false) :
    (alGet? vid (s.step cfg b).strat.world.vehicles).map (·.soc)
      = (alGet? vid s.world.vehicles).map (·.soc) := by
  rw [step_vehicles]
  exact applyAll_soc cfg (s.tick cfg) _ vid h

theorem step_vehicle_other (cfg : Cfg α) (s : Strat α) (b : List (Event α)) (vid : String)
    (h : ∀ e ∈ (s.step cfg b).popped, addresses vid e = false) :
    alGet? vid (s.step cfg b).strat.world.vehicles = alGet? vid s.world.vehicles := by
  rw [step_vehicles]
  exact applyAll_vehicle_other cfg (s.tick cfg) _ vid h


end SpiceEv
