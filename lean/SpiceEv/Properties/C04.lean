/-
C04 — Grid-connector power limit is never exceeded.

Part (a) of the property ("a step that would break the limit is never reported as valid: the run
stops at that step and is flagged as aborted") for EVERY strategy: the strategy's effect is an
arbitrary input of the run-loop model (Model/ScenarioRun.lean).
-/
import SpiceEv.Proofs.ScenarioRun
import SpiceEv.Proofs.Strategies
set_option linter.unusedSectionVars false
namespace SpiceEv
variable {α : Type} [Field α] [LinearOrder α] [IsStrictOrderedRing α]

/-- **Monitor.** For any sequence of observed world states (= any strategy, any events): every
reported step — except the last one of a run flagged as aborted — has every connector's reported
power within `±(cur_max_power + ε)`; the reported steps are the observations in order. -/
theorem C04_monitor (eps : α) (genKeys : List String) (n : Nat) (obs : List (StepObs α))
    (i : Nat) (hi : i < (run eps genKeys n obs).stepI)
    (hvalid : i + 1 < (run eps genKeys n obs).stepI ∨ (run eps genKeys n obs).aborted = false) :
    ∃ h : i < obs.length,
      (run eps genKeys n obs).steps[i]'hi = stepReport eps genKeys obs[i] ∧
      ∀ g ∈ obs[i].gcs,
        -(g.curMax + eps) ≤ (gcReport genKeys g).1 ∧ (gcReport genKeys g).1 ≤ g.curMax + eps := by
  unfold run at hi hvalid ⊢
  simp only at hi hvalid ⊢
  obtain ⟨h, e⟩ := simLoop_getElem eps genKeys n obs i hi
  refine ⟨h, e, ?_⟩
  have hok : ((simLoop eps genKeys n obs)[i]'hi).ok = true := by
    rcases hvalid with hv | hv
    · exact simLoop_ok_before_last eps genKeys n obs i hv
    · rw [List.any_eq_false] at hv
      have := hv _ (List.getElem_mem hi)
      simpa using this
  rw [e] at hok
  intro g hg
  have := (stepReport_ok eps genKeys obs[i] hok).2.2 g hg
  exact ⟨this.1, this.2.1⟩

/-- **Stop and flag.** If some connector's reported power at a reported step is outside
`±(cur_max_power + ε)`, that step is the last reported one and the run is flagged as aborted. -/
theorem C04_violation_stops_and_flags (eps : α) (genKeys : List String) (n : Nat)
    (obs : List (StepObs α)) (i : Nat) (hi : i < (run eps genKeys n obs).stepI)
    (h : i < obs.length) (g : GcObs α) (hg : g ∈ obs[i].gcs)
    (hbad : (gcReport genKeys g).1 < -(g.curMax + eps) ∨ g.curMax + eps < (gcReport genKeys g).1) :
    i + 1 = (run eps genKeys n obs).stepI ∧ (run eps genKeys n obs).aborted = true := by
  by_contra hcon
  have hvalid : i + 1 < (run eps genKeys n obs).stepI ∨ (run eps genKeys n obs).aborted = false := by
    by_cases hl : i + 1 < (run eps genKeys n obs).stepI
    · exact Or.inl hl
    · right
      have : i + 1 = (run eps genKeys n obs).stepI := by omega
      cases hab : (run eps genKeys n obs).aborted
      · rfl
      · exact absurd ⟨this, hab⟩ hcon
  obtain ⟨_, _, hall⟩ := C04_monitor eps genKeys n obs i hi hvalid
  have := hall g hg
  rcases hbad with hb | hb
  · exact absurd this.1 (not_le.mpr hb)
  · exact absurd this.2 (not_le.mpr hb)

/-- The reported connector power is the sum of the non-generation loads minus the generation,
curtailed at the connector rating: `max (−rating) (Σ loads)` (also C06's first sentence). -/
theorem C04_reported_power (genKeys : List String) (g : GcObs α) :
    (gcReport genKeys g).1 =
      max (-g.rating)
        (optVal (currentLoad genKeys g.loads) + optVal (pysum (genKeys.map (loadOf g.loads)))) := by
  unfold gcReport
  simp only [pymax_eq]
  congr 1
  ring

/-- Non-vacuity: a two-step run whose second step exceeds the limit is reported with
`stepI = 2`, flagged as aborted. -/
example :
    let o1 : StepObs ℚ := ⟨false, false, [⟨"GC", 10, 10, [("load", some 4)]⟩], []⟩
    let o2 : StepObs ℚ := ⟨false, false, [⟨"GC", 10, 10, [("load", some 11)]⟩], []⟩
    (run (1/100000 : ℚ) [] 3 [o1, o2, o1]).stepI = 2 ∧
    (run (1/100000 : ℚ) [] 3 [o1, o2, o1]).aborted = true := by
  decide +kernel

/-- **Greedy and balanced never break the limit (no stationary battery).**
For any battery obeying `BatLaw` (0 ≤ average power ≤ the offered power — C01/C02), any prices,
vehicles, stations, minimum powers and any number of connectors: if before the strategy step every
connector's load (fixed load − generation) is at most its currently valid limit `cur_max ≥ 0`,
then after `Greedy.step` / `Balanced.step` (allocation pass in id order, surplus pass with V2G
support, battery pass) it still is.  Without stationary batteries this is unconditional; the
battery-support case is `C04_greedy_balanced_loop` below (invariant of the vehicle pass). -/
theorem C04_greedy_balanced_upper (rule : Rule) {B : Type} (ops : BatOps α B) (law : BatLaw ops)
    (env : StratEnv α) (heps : 0 ≤ env.eps) (w w' : SWorld α B) (cmds : List (String × α))
    (hb : w.batteries = [])
    (h0 : ∀ g ∈ w.gcs, 0 ≤ g.curMax ∧ g.currentLoad ≤ g.curMax)
    (h : ruleStep rule ops env w = .ok (w', cmds)) :
    ∀ g ∈ w'.gcs, g.currentLoad ≤ g.curMax := by
  unfold ruleStep at h
  rw [availBatPower_nobat ops w hb] at h
  simp only [bind, Except.bind] at h
  split at h
  · cases h
  · rename_i st1 hfold
    obtain ⟨w1, c1, a1⟩ := st1
    simp only at h
    split at h
    · cases h
    · rename_i st2 hsur
      obtain ⟨w2, c2⟩ := st2
      simp only at h
      split at h
      · cases h
      · rename_i w3 hub
        simp only [Except.ok.injEq, Prod.mk.injEq] at h
        obtain ⟨rfl, _⟩ := h
        -- vehicle pass
        have hinv0 : LoopInv (fun _ => (0 : α)) (resetStations w) (w.gcs.map (fun g => (g.id, (0 : α)))) := by
          intro g hg
          have hall : ∀ kv ∈ w.gcs.map (fun g => (g.id, (0 : α))), kv.2 = 0 := by
            intro kv hkv
            simp only [List.mem_map] at hkv
            obtain ⟨x, _, rfl⟩ := hkv
            rfl
          have hz : availOf (w.gcs.map (fun g => (g.id, (0 : α)))) g.id = 0 :=
            sdGet_zero_of_all_zero _ hall _
          rw [hz]
          simp only [resetStations_gcs] at hg
          exact ⟨by simpa using (h0 g hg).2, le_refl _, le_refl _⟩
        have hinv1 := allocFold_inv rule ops law env (fun _ => (0 : α)) _ _ (w1, c1, a1) hinv0 hfold
        have hbat1 : w1.batteries = [] := by
          have := allocFold_batteries rule ops env _ _ (w1, c1, a1) hfold
          simpa [hb] using this
        have hbelow1 : Below (fun _ => (0 : α)) w1 := by
          intro g hg
          obtain ⟨h1, h2, h3⟩ := hinv1 g hg
          have : availOf a1 g.id = 0 := le_antisymm h3 h2
          simpa [this] using h1
        -- curMax is never changed by the vehicle pass: re-derive 0 ≤ curMax from the invariant
        have hcm1 : ∀ g ∈ w1.gcs, 0 ≤ g.curMax := by
          -- the pass only replaces connectors by `addLoad` results, which keep `curMax`;
          -- proved by a second, simpler invariant
          have key : ∀ (ids : List String) (st st' : SWorld α B × List (String × α) × List (String × α)),
              (∀ g ∈ st.1.gcs, 0 ≤ g.curMax) →
              ids.foldlM (allocVehicle rule ops env) st = .ok st' → ∀ g ∈ st'.1.gcs, 0 ≤ g.curMax := by
            intro ids
            induction ids with
            | nil =>
              intro st st' hc hf
              simp only [List.foldlM_nil, pure, Except.pure, Except.ok.injEq] at hf
              subst hf; exact hc
            | cons id rest ih =>
              intro st st' hc hf
              simp only [List.foldlM_cons, bind, Except.bind] at hf
              split at hf
              · cases hf
              · rename_i st1 hs
                refine ih st1 st' ?_ hf
                unfold allocVehicle at hs
                split at hs
                · cases hs
                · split at hs
                  · simp only [Except.ok.injEq] at hs; subst hs; exact hc
                  · split at hs
                    · cases hs
                    · split at hs
                      · cases hs
                      · rename_i gc hgc
                        obtain ⟨hgm, _⟩ := gc?_some _ _ gc hgc
                        simp only [bind, Except.bind] at hs
                        split at hs
                        · cases hs
                        · split at hs
                          · cases hs
                          · split at hs
                            · cases hs
                            · simp only [Except.ok.injEq] at hs
                              subst hs
                              intro g hg
                              simp only [setStation_gcs] at hg
                              rcases mem_setGc _ _ g hg with rfl | ⟨hgm', _⟩
                              · rw [(addLoad_currentLoad gc _ _).2.1]; exact hc gc hgm
                              · exact hc g hgm'
          exact key _ _ (w1, c1, a1) (fun g hg => (h0 g (by simpa using hg)).1) hfold
        -- surplus pass
        obtain ⟨hbelow2, _⟩ := distributeSurplus_below ops law env heps (fun _ => (0 : α))
          (fun _ => le_refl _) w1 w2 c2 hcm1 hbelow1 hsur
        have hbat2 : w2.batteries = [] := by
          rw [distributeSurplus_batteries ops env w1 w2 c2 hsur]; exact hbat1
        -- battery pass is the identity
        have : w3 = w2 := updateBatteries_nobat ops env w2 w3 hbat2 hub
        subst this
        intro g hg
        simpa using hbelow2 g hg

/-- **Invariant of the vehicle pass with stationary-battery support** (greedy reserves battery
power `A0 − remaining`): a connector exceeds its limit at most by the support reserved so far. -/
theorem C04_greedy_balanced_loop (rule : Rule) {B : Type} (ops : BatOps α B) (law : BatLaw ops)
    (env : StratEnv α) (A0 : String → α) (ids : List String)
    (st st' : SWorld α B × List (String × α) × List (String × α))
    (hinv : LoopInv A0 st.1 st.2.2)
    (h : ids.foldlM (allocVehicle rule ops env) st = .ok st') : LoopInv A0 st'.1 st'.2.2 :=
  allocFold_inv rule ops law env A0 ids st st' hinv h

end SpiceEv
