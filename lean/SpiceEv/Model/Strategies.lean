/-
Model of the two rule-based strategies and the shared allocation helpers:
`Greedy.step`, `Balanced.step` (spice_ev/strategies/greedy.py, balanced.py) and
`Strategy.distribute_surplus_power`, `Strategy.update_batteries` (spice_ev/strategy.py),
transliterated statement by statement.  The battery is a parameter (`BatOps`): the executable
instance is the battery model (Model/Battery.lean), the theorems use an abstract contract.
Python dicts are insertion-ordered association lists.
-/
import SpiceEv.Py
import SpiceEv.Model.StrategyUtil
import SpiceEv.Time
namespace SpiceEv

/-- insertion-ordered dict helpers -/
def sdGet {β : Type} : List (String × β) → String → Option β
  | [], _ => none
  | (k', v') :: rest, k => if k' == k then some v' else sdGet rest k

def sdSet {β : Type} : List (String × β) → String → β → List (String × β)
  | [], k, v => [(k, v)]
  | (k', v') :: rest, k, v => if k' == k then (k', v) :: rest else (k', v') :: sdSet rest k v

/-- `dict.update(other)` -/
def sdUpdate {β : Type} (l other : List (String × β)) : List (String × β) :=
  other.foldl (fun acc kv => sdSet acc kv.1 kv.2) l

/-- what the strategies need from a battery (`spice_ev/battery.py`) -/
structure BatOps (α : Type) (B : Type) where
  soc : B → α
  capacity : B → α
  efficiency : B → α
  unloadMaxPower : B → α                         -- `unloading_curve.max_power`
  /-- `battery.load(interval, max_power, target_soc, target_power)` ↦ (battery', avg_power) -/
  load : B → (maxPower targetSoc targetPower : Option α) → Py (B × α)
  /-- `battery.unload(interval, max_power, target_soc, target_power)` ↦ (battery', avg_power) -/
  unload : B → (maxPower targetSoc targetPower : Option α) → Py (B × α)
  /-- `battery.get_available_power(interval)` -/
  available : B → Py α

structure VehicleS (α B : Type) where
  id : String
  cs : Option String                 -- connected_charging_station
  desiredSoc : α
  etd : Option Int                   -- estimated_time_of_departure (µs), None allowed
  minChargingPower : α               -- vehicle_type.min_charging_power
  v2g : Bool
  dischargeLimit : α
  bat : B

structure StationS (α : Type) where
  id : String
  parent : String
  maxPower : α
  minPower : α
  currentPower : α

structure GcS (α : Type) where
  id : String
  curMax : α
  cost : Option (GcCost α)             -- `gc.cost` ({} is modelled as none)
  loads : List (String × α)          -- current_loads

structure StatBatS (α B : Type) where
  id : String
  parent : String
  minChargingPower : α
  bat : B

structure SWorld (α B : Type) where
  gcs : List (GcS α)                 -- insertion order
  stations : List (StationS α)
  vehicles : List (VehicleS α B)     -- insertion order of `world_state.vehicles`
  batteries : List (StatBatS α B)

/-- options / clock of the strategy -/
structure StratEnv (α : Type) where
  eps : α                            -- self.EPS
  priceThreshold : α
  tsPerHour : α                      -- timedelta(hours=1) / interval
  now : Int                          -- current_time (µs)
  interval : Int                     -- µs, > 0

section
variable {α B : Type} [Add α] [Sub α] [Mul α] [Div α] [Neg α] [LT α] [LE α]
  [DecidableLT α] [DecidableLE α] [OfNat α 0] [OfNat α 1] [NatCast α] [IntCast α]

def GcS.currentLoad (g : GcS α) : α := g.loads.foldl (fun a kv => a + kv.2) 0

/-- `gc.add_load(key, value)` ↦ (gc', updated value) -/
def GcS.addLoad (g : GcS α) (k : String) (v : α) : GcS α × α :=
  match sdGet g.loads k with
  | some old => ({ g with loads := sdSet g.loads k (old + v) }, old + v)
  | none => ({ g with loads := g.loads ++ [(k, v)] }, v)

def SWorld.gc? (w : SWorld α B) (id : String) : Option (GcS α) := w.gcs.find? (·.id == id)
def SWorld.station? (w : SWorld α B) (id : String) : Option (StationS α) := w.stations.find? (·.id == id)
def SWorld.vehicle? (w : SWorld α B) (id : String) : Option (VehicleS α B) := w.vehicles.find? (·.id == id)

def SWorld.setGc (w : SWorld α B) (g : GcS α) : SWorld α B :=
  { w with gcs := w.gcs.map (fun x => if x.id == g.id then g else x) }
def SWorld.setStation (w : SWorld α B) (s : StationS α) : SWorld α B :=
  { w with stations := w.stations.map (fun x => if x.id == s.id then s else x) }
def SWorld.setVehicle (w : SWorld α B) (v : VehicleS α B) : SWorld α B :=
  { w with vehicles := w.vehicles.map (fun x => if x.id == v.id then v else x) }
def SWorld.setBattery (w : SWorld α B) (b : StatBatS α B) : SWorld α B :=
  { w with batteries := w.batteries.map (fun x => if x.id == b.id then b else x) }

/-- `get_cost(1, gc.cost) <= self.PRICE_THRESHOLD`; `gc.cost == {}` raises KeyError -/
def gcCheap (env : StratEnv α) (g : GcS α) : Py Bool :=
  match g.cost with
  | none => .error .keyError
  | some c => .ok (decide (getCost 1 c ≤ env.priceThreshold))

/-- the per-vehicle body of `distribute_surplus_power` -/
def surplusVehicle (ops : BatOps α B) (env : StratEnv α) (cheap : List (String × Bool))
    (w : SWorld α B) (cmds : List (String × α)) (v : VehicleS α B) :
    Py (SWorld α B × List (String × α)) :=
  match v.cs with
  | none => .ok (w, cmds)
  | some csId =>
    match w.station? csId with
    | none => .error .keyError
    | some cs =>
      match w.gc? cs.parent with
      | none => .error .keyError
      | some gc =>
        let surplus := -gc.currentLoad
        if env.eps < surplus then do
          let power := clampPower surplus cs.currentPower cs.maxPower cs.minPower v.minChargingPower
          let (bat', avg) ← ops.load v.bat (some power) none none
          let (gc', val) := gc.addLoad csId avg
          let w := (w.setVehicle { v with bat := bat' }).setGc gc'
          let w := w.setStation { cs with currentPower := cs.currentPower + avg }
          .ok (w, sdSet cmds csId val)
        else
          let csLoad : α := (sdGet gc.loads csId).getD 0
          let isCheap := (sdGet cheap cs.parent).getD false
          if surplus < -env.eps ∧ v.desiredSoc - ops.soc v.bat < -env.eps ∧ v.v2g = true
              ∧ pyabs csLoad < env.eps ∧ isCheap = false then do
            let dischargePower := pymin (pymin (-surplus) (ops.unloadMaxPower v.bat)) cs.maxPower
            let targetSoc := pymax v.desiredSoc v.dischargeLimit
            let (bat', avg) ← ops.unload v.bat (some dischargePower) (some targetSoc) none
            let (gc', val) := gc.addLoad csId (-avg)
            let w := (w.setVehicle { v with bat := bat' }).setGc gc'
            let w := w.setStation { cs with currentPower := cs.currentPower - avg }
            .ok (w, sdSet cmds csId val)
          else .ok (w, cmds)

/-- `Strategy.distribute_surplus_power()` (vehicles in dict order, state re-read per vehicle) -/
def distributeSurplus (ops : BatOps α B) (env : StratEnv α) (w : SWorld α B) :
    Py (SWorld α B × List (String × α)) := do
  let cheap ← w.gcs.mapM (fun g => do let c ← gcCheap env g; pure (g.id, c))
  w.vehicles.foldlM (fun (st : SWorld α B × List (String × α)) v0 =>
    -- the loop body reads the *current* vehicle object
    match st.1.vehicle? v0.id with
    | none => .ok st
    | some v => surplusVehicle ops env cheap st.1 st.2 v) (w, [])

/-- the per-battery body of `update_batteries` -/
def updateBattery (ops : BatOps α B) (_env : StratEnv α) (cheap : List (String × Bool))
    (w : SWorld α B) (b : StatBatS α B) : Py (SWorld α B) :=
  match w.gc? b.parent with
  | none => .ok w
  | some gc => do
    let load := gc.currentLoad
    match sdGet cheap b.parent with
    | none => .error .keyError
    | some isCheap =>
      if isCheap then
        let p := gc.curMax - load
        let p := if p < b.minChargingPower then 0 else p
        let (bat', avg) ← ops.load b.bat (some p) none none
        .ok ((w.setBattery { b with bat := bat' }).setGc (gc.addLoad b.id avg).1)
      else if load < 0 then
        let p := -load
        let p := if p < b.minChargingPower then 0 else p
        let (bat', avg) ← ops.load b.bat none none (some p)
        .ok ((w.setBattery { b with bat := bat' }).setGc (gc.addLoad b.id avg).1)
      else
        let (bat', avg) ← ops.unload b.bat none none (some load)
        .ok ((w.setBattery { b with bat := bat' }).setGc (gc.addLoad b.id (-avg)).1)

/-- `Strategy.update_batteries()` -/
def updateBatteries (ops : BatOps α B) (env : StratEnv α) (w : SWorld α B) : Py (SWorld α B) := do
  let cheap ← w.gcs.mapM (fun g => do let c ← gcCheap env g; pure (g.id, c))
  w.batteries.foldlM (fun w b0 =>
    match w.batteries.find? (·.id == b0.id) with
    | none => .ok w
    | some b => updateBattery ops env cheap w b) w

/-- `avail_bat_power[gcID]`: sum of `get_available_power` of the batteries at each connector -/
def availBatPower (ops : BatOps α B) (w : SWorld α B) : Py (List (String × α)) :=
  w.gcs.mapM (fun g => do
    let p ← w.batteries.foldlM (fun (acc : α) b =>
      if b.parent == g.id then do let a ← ops.available b.bat; pure (acc + a) else pure acc) 0
    pure (g.id, p))

def resetStations (w : SWorld α B) : SWorld α B :=
  { w with stations := w.stations.map (fun s => { s with currentPower := 0 }) }

/-- stable sort of the vehicle ids (`sorted(self.world_state.vehicles)`) -/
def sortedVehicleIds (w : SWorld α B) : List String :=
  (w.vehicles.map (·.id)).mergeSort (fun a b => decide (a ≤ b))

inductive Rule where | greedy | balanced
  deriving DecidableEq, Repr

/-- the power a vehicle is offered, and whether `bat_power_used` is set -/
def planPower (rule : Rule) (ops : BatOps α B) (env : StratEnv α) (cheap : Bool)
    (gcPowerLeft availGc : α) (cs : StationS α) (v : VehicleS α B) : Py (α × Bool) :=
  let deltaSoc := v.desiredSoc - ops.soc v.bat
  let clamp (p : α) := clampPower p cs.currentPower cs.maxPower cs.minPower v.minChargingPower
  if cheap then .ok (clamp gcPowerLeft, false)
  else if env.eps < deltaSoc then
    let energyNeeded := deltaSoc * ops.capacity v.bat / ops.efficiency v.bat
    match rule with
    | .greedy =>
      let powerNeeded := energyNeeded * env.tsPerHour
      .ok (clamp (pymin powerNeeded (gcPowerLeft + availGc)), true)
    | .balanced =>
      match v.etd with
      | none => .error .typeError      -- None - datetime
      | some etd =>
        let timesteps := ceilDiv (etd - env.now) env.interval
        if 0 < timesteps then
          .ok (clamp (pymin (energyNeeded * env.tsPerHour / ((timesteps : Int) : α)) gcPowerLeft), true)
        else .ok (clamp gcPowerLeft, true)
  else .ok (0, false)

/-- the battery call of the vehicle loop: greedy charges only in its two branches
(`load(interval, power)` = max_power when cheap, `target_power` otherwise); balanced always calls
`load(interval, target_power=power)` -/
def chargeCall (rule : Rule) (ops : BatOps α B) (env : StratEnv α) (cheap : Bool)
    (v : VehicleS α B) (power : α) : Py (B × α) :=
  match rule with
  | .greedy =>
    if cheap then ops.load v.bat (some power) none none
    else if env.eps < v.desiredSoc - ops.soc v.bat then ops.load v.bat none none (some power)
    else .ok (v.bat, 0)
  | .balanced => ops.load v.bat none none (some power)

/-- the per-vehicle body of `Greedy.step` / `Balanced.step` -/
def allocVehicle (rule : Rule) (ops : BatOps α B) (env : StratEnv α)
    (st : SWorld α B × List (String × α) × List (String × α)) (vid : String) :
    Py (SWorld α B × List (String × α) × List (String × α)) :=
  match st.1.vehicle? vid with
  | none => .error .keyError
  | some v =>
    match v.cs with
    | none => .ok st
    | some csId =>
      match st.1.station? csId with
      | none => .error .keyError
      | some cs =>
        match st.1.gc? cs.parent with
        | none => .error .keyError
        | some gc => do
          let gcPowerLeft := gc.curMax - gc.currentLoad
          let cheap ← gcCheap env gc
          let availGc : α := (sdGet st.2.2 cs.parent).getD 0
          let (power, batUsed) ← planPower rule ops env cheap gcPowerLeft availGc cs v
          let (bat', avg) ← chargeCall rule ops env cheap v power
          let (gc', val) := gc.addLoad csId avg
          let w := (st.1.setVehicle { v with bat := bat' }).setGc gc'
          let w := w.setStation { cs with currentPower := cs.currentPower + avg }
          let avail := if batUsed then sdSet st.2.2 cs.parent (pymax (availGc - avg) 0) else st.2.2
          .ok (w, sdSet st.2.1 csId val, avail)

/-- `Greedy.step()` / `Balanced.step()` ↦ (world', commands) -/
def ruleStep (rule : Rule) (ops : BatOps α B) (env : StratEnv α) (w : SWorld α B) :
    Py (SWorld α B × List (String × α)) := do
  let avail ← availBatPower ops w
  let w := resetStations w
  let (w, cmds, _) ← (sortedVehicleIds w).foldlM (allocVehicle rule ops env) (w, [], avail)
  let (w, cmds2) ← distributeSurplus ops env w
  let w ← updateBatteries ops env w
  .ok (w, sdUpdate cmds cmds2)

end
end SpiceEv
