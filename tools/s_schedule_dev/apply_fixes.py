"""apply repairs to the scratch repo: fixes.py [1] [2] [3]  (always starts from a clean checkout)"""
import subprocess, sys
import os
R = os.environ["VERIF_REPO"]  # a scratch copy: it is reset with git checkout and edited
P = R + "/spice_ev/strategies/schedule.py"
subprocess.run(["git", "-C", R, "checkout", "--", "."], check=True)
s = open(P).read()
if "1" in sys.argv[1:]:
    a = "                    self.charge_vehicles_during_core_standing_time_v2g(charging_stations)\n"
    assert a in s
    s = s.replace(a, "                    charging_stations = self.charge_vehicles_during_core_standing_time_v2g(\n"
                     "                        charging_stations)\n")
if "2" in sys.argv[1:]:
    a = ("                # find optimal power for charging\n"
         "                power = self.sim_balanced_charging(\n"
         "                    vehicle, dt, vehicle.vehicle_type.charging_curve.max_power,\n"
         "                    delta_soc=delta_soc)[\"opt_power\"]\n")
    assert a in s
    s = s.replace(a, "                # find optimal power for charging, don't exceed GC limit\n"
                     "                power = self.sim_balanced_charging(\n"
                     "                    vehicle, dt, gc.cur_max_power - gc.get_current_load(),\n"
                     "                    delta_soc=delta_soc)[\"opt_power\"]\n")
if "3" in sys.argv[1:]:
    a = ("            remaining_power_on_schedule = (gc.target - gc.get_current_load()\n"
         "                                           + available_bat_power_for_current_TS)\n")
    assert a in s
    s = s.replace(a, a + "            # don't exceed GC limit\n"
                         "            remaining_power_on_schedule = min(remaining_power_on_schedule,\n"
                         "                                              gc.cur_max_power - gc.get_current_load())\n")
    b = "                max_power = max(0, gc.target - gc.get_current_load())\n"
    assert b in s
    s = s.replace(b, "                max_power = max(0, min(gc.target, gc.cur_max_power) - gc.get_current_load())\n")
open(P, "w").write(s)
