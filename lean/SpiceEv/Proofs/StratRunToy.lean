/-
Non-vacuity witnesses for Properties/C09_Run.lean: a toy ideal-linear battery on ℚ that satisfies
`BatLaw` and `LinearLoad`, two vehicles sharing a connector whose headroom varies over four steps, and
the means to evaluate the iterated step in the kernel (`List.mergeSort` is defined by well-founded
recursion and does not reduce there: `runStepsWith` takes the sorted id list as an argument and is
proved equal to `runSteps`).
-/
import SpiceEv.Proofs.StratRun
import SpiceEv.Proofs.StratRunAmple
import SpiceEv.Proofs.StratRunBalanced
import SpiceEv.Proofs.StratRunTotal
import SpiceEv.Proofs.StratRunShared
import SpiceEv.Proofs.StratRunMinPower
set_option linter.unusedSectionVars false
set_option linter.unusedSimpArgs false
set_option linter.unusedVariables false
namespace SpiceEv.StratRun
open SpiceEv SpiceEv.Frame

section With
variable {α B : Type} [Field α] [LinearOrder α] [IsStrictOrderedRing α]

/-- `ruleStep` with the sorted id list as an argument -/
def ruleStepWith (ids : List String) (rule : Rule) (ops : BatOps α B) (env : StratEnv α) (w : SWorld α B) :
    Py (SWorld α B × List (String × α)) := do
  let avail ← availBatPower ops w
  let w := resetStations w
  let (w, cmds, _) ← ids.foldlM (allocVehicle rule ops env) (w, [], avail)
  let (w, cmds2) ← distributeSurplus ops env w
  let w ← updateBatteries ops env w
  .ok (w, sdUpdate cmds cmds2)

theorem ruleStep_eq_with (rule : Rule) (ops : BatOps α B) (env : StratEnv α) (w : SWorld α B) :
    ruleStep rule ops env w = ruleStepWith (sortedVehicleIds w) rule ops env w := rfl

def runStepsWith (ids : List String) (rule : Rule) (ops : BatOps α B) :
    StratEnv α → SWorld α B → List (StepGcs α) → Py (List (SWorld α B))
  | _, _, [] => .ok []
  | env, w, d :: ds => do
    let (w', _) ← ruleStepWith ids rule ops env (enter w d)
    let rest ← runStepsWith ids rule ops (tick env) w' ds
    .ok (w' :: rest)

theorem runSteps_eq_with (ids : List String) (rule : Rule) (ops : BatOps α B) (w0 : SWorld α B)
    (hids : sortedVehicleIds w0 = ids) (ds : List (StepGcs α)) :
    ∀ (env : StratEnv α) (w : SWorld α B), Keep w0 w →
      runSteps rule ops env w ds = runStepsWith ids rule ops env w ds := by
  induction ds with
  | nil => intro env w _; rfl
  | cons d ds ih =>
    intro env w hk
    unfold runSteps runStepsWith
    have hs : sortedVehicleIds (enter w d) = ids := by
      rw [← hids]; exact keep_sorted w0 (enter w d) (keep_enter w0 w d hk)
    rw [ruleStep_eq_with, hs]
    cases hr : ruleStepWith ids rule ops env (enter w d) with
    | error e => rfl
    | ok r =>
      obtain ⟨w', cmds⟩ := r
      have hr' : ruleStep rule ops env (enter w d) = .ok (w', cmds) := by
        rw [ruleStep_eq_with, hs]; exact hr
      have hk' := ruleStep_keep rule ops env w0 (enter w d) w' cmds (keep_enter w0 w d hk) hr'
      simp only [bind, Except.bind]
      rw [ih (tick env) w' hk']

end With

/-! ### the toy battery -/

/-- ideal-linear battery: state = SoC, 10 kWh, efficiency 1, constant 5 kW curve, full at SoC 1;
over a quarter of an hour 1 kW raises the SoC by 1/40 -/
def toyOps : BatOps ℚ ℚ where
  soc b := b
  capacity _ := 10
  efficiency _ := 1
  unloadMaxPower _ := 5
  load b mp _ tp := .ok (b + max 0 (min (min (tp.getD (mp.getD 0)) 5) (40 * (1 - b))) / 40,
    max 0 (min (min (tp.getD (mp.getD 0)) 5) (40 * (1 - b))))
  unload b _ _ _ := .ok (b, 0)
  available _ := .ok 0

def toyCap : ℚ → ℚ := fun _ => 5

theorem toy_law : BatLaw toyOps where
  load_max := by
    intro b p b' avg h
    simp only [toyOps, Option.getD, Except.ok.injEq, Prod.mk.injEq] at h
    obtain ⟨_, rfl⟩ := h
    exact ⟨le_max_left _ _, max_le_max (le_refl _) (le_trans (min_le_left _ _) (min_le_left _ _)) |>.trans
      (by rw [max_comm])⟩
  load_target := by
    intro b p b' avg h
    simp only [toyOps, Option.getD, Except.ok.injEq, Prod.mk.injEq] at h
    obtain ⟨_, rfl⟩ := h
    exact ⟨le_max_left _ _, max_le_max (le_refl _) (le_trans (min_le_left _ _) (min_le_left _ _)) |>.trans
      (by rw [max_comm])⟩
  unload_max := by
    intro b p ts b' avg h
    simp only [toyOps, Except.ok.injEq, Prod.mk.injEq] at h
    obtain ⟨_, rfl⟩ := h
    exact ⟨le_refl _, le_max_right _ _⟩
  unload_target := by
    intro b x b' avg h
    simp only [toyOps, Except.ok.injEq, Prod.mk.injEq] at h
    obtain ⟨_, rfl⟩ := h
    exact ⟨le_refl _, le_max_right _ _⟩
  available_nonneg := by
    intro b a h
    simp only [toyOps, Except.ok.injEq] at h
    subst h; exact le_refl _

theorem toy_lin : LinearLoad toyOps 4 1 toyCap where
  up := by
    intro b mp ts tp b' avg h
    simp only [toyOps, Except.ok.injEq, Prod.mk.injEq] at h
    obtain ⟨rfl, _⟩ := h
    refine ⟨?_, rfl, rfl, rfl⟩
    show b ≤ b + _ / 40
    have : (0 : ℚ) ≤ max 0 (min (min (tp.getD (mp.getD 0)) 5) (40 * (1 - b))) := le_max_left _ _
    linarith [div_nonneg this (by norm_num : (0 : ℚ) ≤ 40)]
  target := by
    intro b p b' avg h hp htop
    simp only [toyOps, Option.getD, Except.ok.injEq, Prod.mk.injEq] at h
    obtain ⟨rfl, rfl⟩ := h
    have hg : gain toyOps 4 b = 1 / 40 := by unfold gain toyOps; norm_num
    rw [hg] at htop
    have htop' : b + p * (1 / 40) ≤ 1 := htop
    have h1 : min p 5 ≤ 40 * (1 - b) := le_trans (min_le_left _ _) (by linarith)
    have h2 : (0 : ℚ) ≤ min p 5 := le_min hp (by norm_num)
    have e : max 0 (min (min p 5) (40 * (1 - b))) = min p 5 := by
      rw [min_eq_left h1, max_eq_right h2]
    rw [e, hg]
    exact ⟨rfl, by show b + min p 5 / 40 = b + min p 5 * (1 / 40); ring⟩
  cap_nonneg := by intro b; show (0 : ℚ) ≤ 5; norm_num

/-- 15-minute steps, `EPS = 1e-5`, price threshold 0.1 -/
def toyEnv : StratEnv ℚ := ⟨1/100000, 1/10, 4, 0, 900000000⟩

/-- `v1` (served first) and `v2` share connector `GC1` (20 kW); stations of 11 kW; `v1` wants 0.9 and
announces its departure one minute before the end of the fourth step (off the grid) -/
def toyW : SWorld ℚ ℚ :=
  ⟨[⟨"GC1", 20, some (.fixed (3/10)), []⟩],
   [⟨"CS1", "GC1", 11, 0, 0⟩, ⟨"CS2", "GC1", 11, 0, 0⟩],
   [⟨"v1", some "CS1", 9/10, some 3540000000, 0, false, 0, 1/2⟩,
    ⟨"v2", some "CS2", 1, some 7200000000, 0, false, 0, 1/5⟩], []⟩

def toyV1 : VehicleS ℚ ℚ := ⟨"v1", some "CS1", 9/10, some 3540000000, 0, false, 0, 1/2⟩

/-- the connector in four steps: the fixed load leaves 18, 3, 1/2 and 18 kW of headroom -/
def toyDs : List (StepGcs ℚ) :=
  [[⟨"GC1", 20, some (.fixed (3/10)), [("load", 2)]⟩],
   [⟨"GC1", 20, some (.fixed (3/10)), [("load", 17)]⟩],
   [⟨"GC1", 20, some (.fixed (3/10)), [("load", 39/2)]⟩],
   [⟨"GC1", 20, some (.fixed (3/10)), [("load", 2)]⟩]]

/-- ample headroom in every step (≥ 10 kW) -/
def toyDsAmple : List (StepGcs ℚ) :=
  [[⟨"GC1", 20, some (.fixed (3/10)), [("load", 2)]⟩],
   [⟨"GC1", 20, some (.fixed (3/10)), [("load", 5)]⟩],
   [⟨"GC1", 20, some (.fixed (3/10)), [("load", 10)]⟩],
   [⟨"GC1", 20, some (.fixed (3/10)), [("load", 2)]⟩]]

/-- the worlds of the greedy run / the balanced run -/
def toyWsG : List (SWorld ℚ ℚ) :=
  match runStepsWith ["v1", "v2"] .greedy toyOps toyEnv toyW toyDs with
  | .ok ws => ws
  | .error _ => []

def toyWsB : List (SWorld ℚ ℚ) :=
  match runStepsWith ["v1", "v2"] .balanced toyOps toyEnv toyW toyDsAmple with
  | .ok ws => ws
  | .error _ => []

theorem toy_sorted : sortedVehicleIds toyW = "v1" :: ["v2"] := by
  unfold sortedVehicleIds
  exact List.mergeSort_of_pairwise (by decide)

theorem toy_keep : Keep toyW toyW := keep_refl toyW

theorem toy_runG : runSteps .greedy toyOps toyEnv toyW toyDs = .ok toyWsG := by
  rw [runSteps_eq_with ["v1", "v2"] .greedy toyOps toyW toy_sorted toyDs toyEnv toyW toy_keep]
  have hok : (runStepsWith ["v1", "v2"] .greedy toyOps toyEnv toyW toyDs).isOk = true := by decide +kernel
  unfold toyWsG
  cases h : runStepsWith ["v1", "v2"] .greedy toyOps toyEnv toyW toyDs with
  | ok ws => rfl
  | error e => rw [h] at hok; cases hok

theorem toy_runB : runSteps .balanced toyOps toyEnv toyW toyDsAmple = .ok toyWsB := by
  rw [runSteps_eq_with ["v1", "v2"] .balanced toyOps toyW toy_sorted toyDsAmple toyEnv toyW toy_keep]
  have hok : (runStepsWith ["v1", "v2"] .balanced toyOps toyEnv toyW toyDsAmple).isOk = true := by
    decide +kernel
  unfold toyWsB
  cases h : runStepsWith ["v1", "v2"] .balanced toyOps toyEnv toyW toyDsAmple with
  | ok ws => rfl
  | error e => rw [h] at hok; cases hok

/-- greedy: `v1` follows the full-power trajectory 1/2 + (5 + 3 + 1/2 + 5)/40 exactly; `v2` gets what is left -/
theorem toy_socsG : toyWsG.map (fun w => (socOf toyOps w "v1", socOf toyOps w "v2")) =
    [(some (5/8), some (13/40)), (some (7/10), some (13/40)), (some (57/80), some (13/40)),
     (some (67/80), some (9/20))] := by decide +kernel

/-- balanced: `v1` rises by 1/10 per step and is at its desired SoC 9/10 after the fourth step -/
theorem toy_socsB : toyWsB.map (fun w => socOf toyOps w "v1") =
    [some (3/5), some (7/10), some (4/5), some (9/10)] := by decide +kernel

theorem toy_vehOk : VehOk toyOps 1 toyV1 :=
  ⟨rfl, by show (0 : ℚ) < 10; norm_num, by show (0 : ℚ) < 1; norm_num, by show (9/10 : ℚ) ≤ 1; norm_num⟩

theorem toy_station : StationIs toyW "CS1" "GC1" 11 := by
  intro s hs hid
  simp only [toyW, List.mem_cons, List.mem_nil_iff, or_false] at hs
  rcases hs with rfl | rfl
  · exact ⟨rfl, rfl, rfl⟩
  · exact absurd hid (by decide)

theorem toy_gc_dear (x : ℚ) :
    gcCheap toyEnv ⟨"GC1", 20, some (.fixed (3/10)), [("load", x)]⟩ = .ok false := by
  unfold gcCheap
  simp only [getCost, toyEnv]
  norm_num

theorem toy_dear : ∀ d ∈ toyDs, Dear toyEnv d ∧ NoSurplus toyEnv d := by
  intro d hd
  simp only [toyDs, List.mem_cons, List.mem_nil_iff, or_false] at hd
  rcases hd with rfl | rfl | rfl | rfl <;>
  · refine ⟨?_, ?_⟩ <;> intro g hg <;> simp only [List.mem_cons, List.mem_nil_iff, or_false] at hg <;>
      subst hg
    · exact toy_gc_dear _
    · simp only [GcS.currentLoad, List.foldl, toyEnv]; norm_num

theorem toy_dearAmple : ∀ d ∈ toyDsAmple, Dear toyEnv d := by
  intro d hd
  simp only [toyDsAmple, List.mem_cons, List.mem_nil_iff, or_false] at hd
  rcases hd with rfl | rfl | rfl | rfl <;>
  · intro g hg
    simp only [List.mem_cons, List.mem_nil_iff, or_false] at hg
    subst hg
    exact toy_gc_dear _

/-! ### the vehicle served second, wide connector -/

def toyV2 : VehicleS ℚ ℚ := ⟨"v2", some "CS2", 1, some 7200000000, 0, false, 0, 1/5⟩

/-- a 40 kW connector: headroom 38, 35, 30, 38 kW ≥ 2 vehicles × 11 kW in every step -/
def toyDsWide : List (StepGcs ℚ) :=
  [[⟨"GC1", 40, some (.fixed (3/10)), [("load", 2)]⟩],
   [⟨"GC1", 40, some (.fixed (3/10)), [("load", 5)]⟩],
   [⟨"GC1", 40, some (.fixed (3/10)), [("load", 10)]⟩],
   [⟨"GC1", 40, some (.fixed (3/10)), [("load", 2)]⟩]]

def toyWsW : List (SWorld ℚ ℚ) :=
  match runStepsWith ["v1", "v2"] .greedy toyOps toyEnv toyW toyDsWide with
  | .ok ws => ws
  | .error _ => []

theorem toy_runW : runSteps .greedy toyOps toyEnv toyW toyDsWide = .ok toyWsW := by
  rw [runSteps_eq_with ["v1", "v2"] .greedy toyOps toyW toy_sorted toyDsWide toyEnv toyW toy_keep]
  have hok : (runStepsWith ["v1", "v2"] .greedy toyOps toyEnv toyW toyDsWide).isOk = true := by
    decide +kernel
  unfold toyWsW
  cases h : runStepsWith ["v1", "v2"] .greedy toyOps toyEnv toyW toyDsWide with
  | ok ws => rfl
  | error e => rw [h] at hok; cases hok

/-- `v2` (served after `v1`) gains 5 kW · 1/40 = 1/8 per step: 1/5 → 13/40 → 9/20 → 23/40 → 7/10 -/
theorem toy_socsW : toyWsW.map (fun w => socOf toyOps w "v2") =
    [some (13/40), some (9/20), some (23/40), some (7/10)] := by decide +kernel

theorem toy_vehOk2 : VehOk toyOps 1 toyV2 :=
  ⟨rfl, by show (0 : ℚ) < 10; norm_num, by show (0 : ℚ) < 1; norm_num, by show (1 : ℚ) ≤ 1; norm_num⟩

theorem toy_station2 : StationIs toyW "CS2" "GC1" 11 := by
  intro s hs hid
  simp only [toyW, List.mem_cons, List.mem_nil_iff, or_false] at hs
  rcases hs with rfl | rfl
  · exact absurd hid (by decide)
  · exact ⟨rfl, rfl, rfl⟩

theorem toy_stations_bound : ∀ s ∈ toyW.stations, (0 : ℚ) ≤ s.maxPower ∧ s.maxPower ≤ 11 := by
  intro s hs
  simp only [toyW, List.mem_cons, List.mem_nil_iff, or_false] at hs
  rcases hs with rfl | rfl <;> exact ⟨by norm_num, by norm_num⟩

theorem toy_solo2 : Solo "CS2" "v2" toyW := by
  intro u hu hcs
  simp only [toyW, List.mem_cons, List.mem_nil_iff, or_false] at hu
  rcases hu with rfl | rfl
  · exact absurd hcs (by decide)
  · rfl

theorem toy_wide : ∀ d ∈ toyDsWide, Dear toyEnv d ∧ ((toyW.vehicles.length : ℚ)) * 11 ≤ headroom d "GC1" := by
  intro d hd
  simp only [toyDsWide, List.mem_cons, List.mem_nil_iff, or_false] at hd
  rcases hd with rfl | rfl | rfl | rfl <;>
  · refine ⟨?_, by decide +kernel⟩
    intro g hg
    simp only [List.mem_cons, List.mem_nil_iff, or_false] at hg
    subst hg
    unfold gcCheap
    simp only [getCost, toyEnv]
    norm_num

/-! ### balanced with binding power -/

/-- only 3 kW of headroom in every step -/
def toyDsTight : List (StepGcs ℚ) :=
  [[⟨"GC1", 20, some (.fixed (3/10)), [("load", 17)]⟩],
   [⟨"GC1", 20, some (.fixed (3/10)), [("load", 17)]⟩],
   [⟨"GC1", 20, some (.fixed (3/10)), [("load", 17)]⟩],
   [⟨"GC1", 20, some (.fixed (3/10)), [("load", 17)]⟩]]

def toyWsT : List (SWorld ℚ ℚ) :=
  match runStepsWith ["v1", "v2"] .balanced toyOps toyEnv toyW toyDsTight with
  | .ok ws => ws
  | .error _ => []

theorem toy_runT : runSteps .balanced toyOps toyEnv toyW toyDsTight = .ok toyWsT := by
  rw [runSteps_eq_with ["v1", "v2"] .balanced toyOps toyW toy_sorted toyDsTight toyEnv toyW toy_keep]
  have hok : (runStepsWith ["v1", "v2"] .balanced toyOps toyEnv toyW toyDsTight).isOk = true := by
    decide +kernel
  unfold toyWsT
  cases h : runStepsWith ["v1", "v2"] .balanced toyOps toyEnv toyW toyDsTight with
  | ok ws => rfl
  | error e => rw [h] at hok; cases hok

/-- `v1` gets the 3 kW the connector leaves: 1/2 → 23/40 → 13/20 → 29/40 → 4/5 -/
theorem toy_socsT : toyWsT.map (fun w => socOf toyOps w "v1") =
    [some (23/40), some (13/20), some (29/40), some (4/5)] := by decide +kernel

theorem toy_tight : ∀ d ∈ toyDsTight, Dear toyEnv d ∧
    (3/40 : ℚ) ≤ fullPower 11 (toyCap toyV1.bat) d "GC1" * gain toyOps toyEnv.tsPerHour toyV1.bat := by
  intro d hd
  simp only [toyDsTight, List.mem_cons, List.mem_nil_iff, or_false] at hd
  rcases hd with rfl | rfl | rfl | rfl <;>
  · refine ⟨?_, by decide +kernel⟩
    intro g hg
    simp only [List.mem_cons, List.mem_nil_iff, or_false] at hg
    subst hg
    exact toy_gc_dear _

def toyWsWB : List (SWorld ℚ ℚ) :=
  match runStepsWith ["v1", "v2"] .balanced toyOps toyEnv toyW toyDsWide with
  | .ok ws => ws
  | .error _ => []

theorem toy_runWB : runSteps .balanced toyOps toyEnv toyW toyDsWide = .ok toyWsWB := by
  rw [runSteps_eq_with ["v1", "v2"] .balanced toyOps toyW toy_sorted toyDsWide toyEnv toyW toy_keep]
  have hok : (runStepsWith ["v1", "v2"] .balanced toyOps toyEnv toyW toyDsWide).isOk = true := by
    decide +kernel
  unfold toyWsWB
  cases h : runStepsWith ["v1", "v2"] .balanced toyOps toyEnv toyW toyDsWide with
  | ok ws => rfl
  | error e => rw [h] at hok; cases hok

/-- `v2` (8 steps to its departure, gap 4/5) rises by 1/10 per step -/
theorem toy_socsWB : toyWsWB.map (fun w => socOf toyOps w "v2") =
    [some (3/10), some (2/5), some (1/2), some (3/5)] := by decide +kernel

/-! ### well-formedness of the toy period -/

theorem toy_total : OpsTotal toyOps := ⟨fun _ _ _ _ => ⟨_, rfl⟩, fun _ _ _ _ => ⟨_, rfl⟩⟩

theorem toy_ds_ok : ∀ d ∈ toyDs, d.map (·.id) = ["GC1"] ∧ ∀ g ∈ d, g.cost ≠ none := by
  intro d hd
  simp only [toyDs, List.mem_cons, List.mem_nil_iff, or_false] at hd
  rcases hd with rfl | rfl | rfl | rfl <;>
  · refine ⟨rfl, ?_⟩
    intro g hg
    simp only [List.mem_cons, List.mem_nil_iff, or_false] at hg
    subst hg
    simp

theorem toy_veh_station : ∀ u ∈ toyW.vehicles, ∀ c, u.cs = some c → ∃ s ∈ toyW.stations, s.id = c := by
  intro u hu c hc
  simp only [toyW, List.mem_cons, List.mem_nil_iff, or_false] at hu
  rcases hu with rfl | rfl
  · exact ⟨⟨"CS1", "GC1", 11, 0, 0⟩, by simp [toyW], (Option.some.inj hc)⟩
  · exact ⟨⟨"CS2", "GC1", 11, 0, 0⟩, by simp [toyW], (Option.some.inj hc)⟩

theorem toy_veh_etd : ∀ u ∈ toyW.vehicles, u.cs ≠ none → u.etd ≠ none := by
  intro u hu _
  simp only [toyW, List.mem_cons, List.mem_nil_iff, or_false] at hu
  rcases hu with rfl | rfl <;> simp

theorem toy_station_parent : ∀ s ∈ toyW.stations, s.parent ∈ ["GC1"] := by
  intro s hs
  simp only [toyW, List.mem_cons, List.mem_nil_iff, or_false] at hs
  rcases hs with rfl | rfl <;> simp

theorem toy_sorted2 : sortedVehicleIds toyW = ["v1"] ++ "v2" :: [] := toy_sorted

/-! ### balanced, second vehicle, shared 20 kW connector with 16-18 kW of headroom -/

def toyDsMid : List (StepGcs ℚ) :=
  [[⟨"GC1", 20, some (.fixed (3/10)), [("load", 2)]⟩],
   [⟨"GC1", 20, some (.fixed (3/10)), [("load", 3)]⟩],
   [⟨"GC1", 20, some (.fixed (3/10)), [("load", 4)]⟩],
   [⟨"GC1", 20, some (.fixed (3/10)), [("load", 2)]⟩]]

def toyWsM : List (SWorld ℚ ℚ) :=
  match runStepsWith ["v1", "v2"] .balanced toyOps toyEnv toyW toyDsMid with
  | .ok ws => ws
  | .error _ => []

theorem toy_runM : runSteps .balanced toyOps toyEnv toyW toyDsMid = .ok toyWsM := by
  rw [runSteps_eq_with ["v1", "v2"] .balanced toyOps toyW toy_sorted toyDsMid toyEnv toyW toy_keep]
  have hok : (runStepsWith ["v1", "v2"] .balanced toyOps toyEnv toyW toyDsMid).isOk = true := by
    decide +kernel
  unfold toyWsM
  cases h : runStepsWith ["v1", "v2"] .balanced toyOps toyEnv toyW toyDsMid with
  | ok ws => rfl
  | error e => rw [h] at hok; cases hok

theorem toy_socsM : toyWsM.map (fun w => socOf toyOps w "v2") =
    [some (3/10), some (2/5), some (1/2), some (3/5)] := by decide +kernel

theorem toy_mid : ∀ d ∈ toyDsMid, Dear toyEnv d ∧
    (1/10 : ℚ) ≤ sharedPower 11 (toyCap toyV2.bat) 11 1 d "GC1" * gain toyOps toyEnv.tsPerHour toyV2.bat := by
  intro d hd
  simp only [toyDsMid, List.mem_cons, List.mem_nil_iff, or_false] at hd
  rcases hd with rfl | rfl | rfl | rfl <;>
  · refine ⟨?_, by decide +kernel⟩
    intro g hg
    simp only [List.mem_cons, List.mem_nil_iff, or_false] at hg
    subst hg
    exact toy_gc_dear _

/-! ### the same world with a stationary battery at the connector -/

def toyWBat : SWorld ℚ ℚ := { toyW with batteries := [⟨"BAT1", "GC1", 0, 1/2⟩] }

def toyWsGB : List (SWorld ℚ ℚ) :=
  match runStepsWith ["v1", "v2"] .greedy toyOps toyEnv toyWBat toyDs with
  | .ok ws => ws
  | .error _ => []

theorem toy_sortedBat : sortedVehicleIds toyWBat = "v1" :: ["v2"] := toy_sorted

theorem toy_runGB : runSteps .greedy toyOps toyEnv toyWBat toyDs = .ok toyWsGB := by
  rw [runSteps_eq_with ["v1", "v2"] .greedy toyOps toyWBat toy_sortedBat toyDs toyEnv toyWBat
    (keep_refl toyWBat)]
  have hok : (runStepsWith ["v1", "v2"] .greedy toyOps toyEnv toyWBat toyDs).isOk = true := by
    decide +kernel
  unfold toyWsGB
  cases h : runStepsWith ["v1", "v2"] .greedy toyOps toyEnv toyWBat toyDs with
  | ok ws => rfl
  | error e => rw [h] at hok; cases hok

theorem toy_socsGB : toyWsGB.map (fun w => socOf toyOps w "v1") =
    [some (5/8), some (7/10), some (57/80), some (67/80)] := by decide +kernel

theorem toy_stationBat : StationIs toyWBat "CS1" "GC1" 11 := toy_station

/-! ### witness: the minimum-power cut-off makes greedy stall below the desired SoC (finding GRD1) -/

/-- `v1` at SoC 87/100 wants 9/10 and cannot charge below 3 kW: the 1.2 kW it still needs are clamped to 0 -/
def toyWMin : SWorld ℚ ℚ :=
  ⟨[⟨"GC1", 20, some (.fixed (3/10)), []⟩],
   [⟨"CS1", "GC1", 11, 0, 0⟩],
   [⟨"v1", some "CS1", 9/10, some 3540000000, 3, false, 0, 87/100⟩], []⟩

def toyWsMin : List (SWorld ℚ ℚ) :=
  match runStepsWith ["v1"] .greedy toyOps toyEnv toyWMin toyDsAmple with
  | .ok ws => ws
  | .error _ => []

theorem toy_sortedMin : sortedVehicleIds toyWMin = ["v1"] := by
  unfold sortedVehicleIds
  exact List.mergeSort_of_pairwise (by decide)

theorem toy_runMin : runSteps .greedy toyOps toyEnv toyWMin toyDsAmple = .ok toyWsMin := by
  rw [runSteps_eq_with ["v1"] .greedy toyOps toyWMin toy_sortedMin toyDsAmple toyEnv toyWMin
    (keep_refl toyWMin)]
  have hok : (runStepsWith ["v1"] .greedy toyOps toyEnv toyWMin toyDsAmple).isOk = true := by
    decide +kernel
  unfold toyWsMin
  cases h : runStepsWith ["v1"] .greedy toyOps toyEnv toyWMin toyDsAmple with
  | ok ws => rfl
  | error e => rw [h] at hok; cases hok

/-- four steps with ≥ 10 kW of headroom: the SoC does not move -/
theorem toy_socsMin : toyWsMin.map (fun w => socOf toyOps w "v1") =
    [some (87/100), some (87/100), some (87/100), some (87/100)] := by decide +kernel

/-! ### a vehicle with a 3 kW minimum charging power charging from 1/2 -/

def toyVMin : VehicleS ℚ ℚ := ⟨"v1", some "CS1", 9/10, some 3540000000, 3, false, 0, 1/2⟩

def toyWMin2 : SWorld ℚ ℚ :=
  ⟨[⟨"GC1", 20, some (.fixed (3/10)), []⟩], [⟨"CS1", "GC1", 11, 0, 0⟩], [toyVMin], []⟩

def toyWsMin2 : List (SWorld ℚ ℚ) :=
  match runStepsWith ["v1"] .greedy toyOps toyEnv toyWMin2 toyDsAmple with
  | .ok ws => ws
  | .error _ => []

theorem toy_sortedMin2 : sortedVehicleIds toyWMin2 = "v1" :: [] := by
  unfold sortedVehicleIds
  exact List.mergeSort_of_pairwise (by decide)

theorem toy_runMin2 : runSteps .greedy toyOps toyEnv toyWMin2 toyDsAmple = .ok toyWsMin2 := by
  rw [runSteps_eq_with ["v1"] .greedy toyOps toyWMin2 toy_sortedMin2 toyDsAmple toyEnv toyWMin2
    (keep_refl toyWMin2)]
  have hok : (runStepsWith ["v1"] .greedy toyOps toyEnv toyWMin2 toyDsAmple).isOk = true := by
    decide +kernel
  unfold toyWsMin2
  cases h : runStepsWith ["v1"] .greedy toyOps toyEnv toyWMin2 toyDsAmple with
  | ok ws => rfl
  | error e => rw [h] at hok; cases hok

/-- three steps at 5 kW, then the 1 kW still needed is below the minimum: stall at 7/8 < 9/10 -/
theorem toy_socsMin2 : toyWsMin2.map (fun w => socOf toyOps w "v1") =
    [some (5/8), some (3/4), some (7/8), some (7/8)] := by decide +kernel

theorem toy_vehOkMin : VehOk toyOps 1 toyVMin :=
  ⟨rfl, by show (0 : ℚ) < 10; norm_num, by show (0 : ℚ) < 1; norm_num, by show (9/10 : ℚ) ≤ 1; norm_num⟩

theorem toy_stationMin : StationIs toyWMin2 "CS1" "GC1" 11 := by
  intro s hs hid
  simp only [toyWMin2, List.mem_cons, List.mem_nil_iff, or_false] at hs
  subst hs
  exact ⟨rfl, rfl, rfl⟩

end SpiceEv.StratRun
