/-
C14 — The distributed strategy delegates per station type and honours the station count.

Proved: the station-count logic (at most `number_cs` holders, previous holders keep their point,
new holders are candidates that were not holders).  The delegated strategies themselves are the
greedy/balanced model (C10, tied to the code bit for bit); that a depot / opportunity connector
gets exactly the balanced / greedy result and that connectors are independent is decided by the
implementation-vs-implementation stream of harness/c14.py (real distributed vs real balanced /
greedy on the scenario restricted to the connector).
-/
import SpiceEv.Model.Distributed
import Mathlib.Tactic.Linarith
set_option linter.unusedSectionVars false
namespace SpiceEv
variable {α : Type} [LinearOrder α]

theorem fillSpots_length (free : Nat) (conn : List String) (arr : List (String × α)) :
    (fillSpots free conn arr).length ≤ conn.length + free ∧
    conn <+: fillSpots free conn arr ∧
    ∀ x ∈ fillSpots free conn arr, x ∈ conn ∨ ∃ a ∈ arr, a.1 = x := by
  induction free generalizing conn arr with
  | zero =>
    refine ⟨by simp [fillSpots], by simp [fillSpots], ?_⟩
    intro x hx
    left; simpa [fillSpots] using hx
  | succ f ih =>
    cases arr with
    | nil =>
      refine ⟨by simp [fillSpots], by simp [fillSpots], ?_⟩
      intro x hx
      left; simpa [fillSpots] using hx
    | cons a rest =>
      simp only [fillSpots]
      by_cases hc : conn.contains a.1 = true
      · simp only [hc, if_true]
        obtain ⟨h1, h2, h3⟩ := ih conn rest
        refine ⟨by omega, h2, ?_⟩
        intro x hx
        rcases h3 x hx with h | ⟨b, hb, rfl⟩
        · exact Or.inl h
        · right; exact ⟨b, by simp [hb], rfl⟩
      · simp only [hc, Bool.false_eq_true, if_false]
        obtain ⟨h1, h2, h3⟩ := ih (conn ++ [a.1]) rest
        refine ⟨?_, List.IsPrefix.trans (List.prefix_append conn [a.1]) h2, ?_⟩
        · simp only [List.length_append, List.length_cons, List.length_nil] at h1
          omega
        · intro x hx
          rcases h3 x hx with h | ⟨b, hb, rfl⟩
          · rcases List.mem_append.mp h with h | h
            · exact Or.inl h
            · right
              refine ⟨a, by simp, ?_⟩
              simp only [List.mem_cons, List.not_mem_nil, or_false] at h
              exact h.symm
          · right; exact ⟨b, by simp [hb], rfl⟩

/-- **Station count.** Whenever the ranking returns, at most `number_cs` vehicles hold a charging
point; the holders of the previous step that are still connected keep theirs (same order), and
every new holder is a candidate that was not a holder. -/
theorem C14_number_cs (numberCs : Nat) (conn : List String) (arriving : List (String × α))
    (conn' : List String) (h : prioritise numberCs conn arriving = .ok conn') :
    conn'.length ≤ numberCs ∧ conn <+: conn' ∧
    ∀ x ∈ conn', x ∈ conn ∨ (x ∉ conn ∧ ∃ a ∈ arriving, a.1 = x) := by
  unfold prioritise at h
  split at h
  · cases h
  · rename_i hlen
    split at h
    · rename_i heq
      simp only [Except.ok.injEq] at h
      subst h
      have heq' : conn.length = numberCs := by simpa using heq
      exact ⟨le_of_eq heq', List.prefix_refl _, fun x hx => Or.inl hx⟩
    · simp only at h
      split at h
      · cases h
      · rename_i hle
        simp only [Except.ok.injEq] at h
        subst h
        obtain ⟨_, h2, h3⟩ := fillSpots_length (numberCs - conn.length) conn
          ((arriving.filter (fun a => !conn.contains a.1)).mergeSort (fun a b => decide (a.2 ≤ b.2)))
        refine ⟨not_lt.mp hle, h2, ?_⟩
        intro x hx
        rcases h3 x hx with h | ⟨a, ha, rfl⟩
        · exact Or.inl h
        · have ha' := (List.mergeSort_perm _ _).subset ha
          rw [List.mem_filter] at ha'
          by_cases hc : a.1 ∈ conn
          · exact Or.inl hc
          · exact Or.inr ⟨hc, a, ha'.1, rfl⟩

/-- the assertion `len(conn) <= number_cs` after filling can never fire: the ranking returns for
every input that satisfies the entry assertion -/
theorem C14_prioritise_ok (numberCs : Nat) (conn : List String) (arriving : List (String × α))
    (h : conn.length ≤ numberCs) : ∃ conn', prioritise numberCs conn arriving = .ok conn' := by
  unfold prioritise
  simp only [not_lt.mpr h, if_false]
  split
  · exact ⟨_, rfl⟩
  · have := (fillSpots_length (numberCs - conn.length) conn
      ((arriving.filter (fun a => !conn.contains a.1)).mergeSort (fun a b => decide (a.2 ≤ b.2)))).1
    have hle : ¬ numberCs < (fillSpots (numberCs - conn.length) conn
      ((arriving.filter (fun a => !conn.contains a.1)).mergeSort (fun a b => decide (a.2 ≤ b.2)))).length := by
      omega
    rw [if_neg hle]
    exact ⟨_, rfl⟩

/-- Non-vacuity: two points, one holder, three candidates: the ranking returns (the driver evaluates
it to `["v1", "v3"]`, the lowest-SoC candidate joins). -/
example : ∃ c, prioritise 2 ["v1"] [("v2", (7/10 : ℚ)), ("v3", 2/10), ("v1", 1/2)] = .ok c :=
  C14_prioritise_ok 2 _ _ (by decide)

end SpiceEv
