/-
C09 — service guarantee, for the strategy `balanced_market`
(model: Model/StratBalancedMarket.lean, tied to the real code by harness/s_balanced_market.py).

The guarantee itself does not hold for the unchanged code: besides the known findings F2 (curves that
vary between SoC and desired SoC) there is the situation exhibited below — the present timestep is
cheap (price ≤ PRICE_THRESHOLD), is planned with full power, and is nevertheless not used because it
is not the *first* entry of its price group (`if start_idx == 0 and power[0]`).  What is proved is the
repaired counting of the remaining timesteps (finding M1): the step in which the vehicle leaves is
part of the planning window.
-/
import SpiceEv.Proofs.StratBalancedMarket
import SpiceEv.Proofs.StratBalancedMarketToy
set_option linter.unusedSectionVars false
namespace SpiceEv
open SpiceEv.BalancedMarket

/-- **Every timestep that begins before the estimated departure is planned (partial).**
`ts_leave = -((etd − now) // −interval)` is the ceiling of the remaining standing time in timesteps,
so for every `k` with `now + k·interval < etd` the `k`-th forecast timestep is in the vehicle's
planning window `timesteps[:ts_leave]` (in particular an off-grid departure does not lose the last,
partial step).  Not proved: that the desired SoC is reached (false in general, see below and F2). -/
theorem C09_balanced_market_departure_step_planned_partial {β : Type} (ts : List β)
    (now etd interval : Int) (hi : 0 < interval) (k : Nat) (hk : now + (k : Int) * interval < etd) :
    (sliceTo ts (ceilDiv (etd - now) interval))[k]? = ts[k]? :=
  sliceTo_window ts now etd interval hi k (by linarith)

/-- **When prices never fall during the standing time, the plan is simulated in time order (partial).**
The known finding F2 for this strategy (`C09:desired_soc_missed:balanced_market:varying_curve*`) has one
mechanism: the planning loop charges the simulated battery in *price* order, so a cheap timestep that
lies later in time is simulated at the present, lower SoC, where a falling charging curve still allows
more power than it will at that time; the dearer timesteps before it are then planned too low.  If the
prices of the timesteps in which the vehicle is present are non-decreasing in time, the planning order
`sorted_ts` is exactly the time order `[(c₀,0), (c₁,1), …]` and that error cannot occur.  Not proved: that
the desired SoC is then reached (needs the battery's exact delivery, C02). -/
theorem C09_balanced_market_time_order_when_prices_never_fall_partial {α : Type} [Field α]
    [LinearOrder α] [IsStrictOrderedRing α] (vts : List (TS α)) (costs : List α)
    (hc : vts.mapM (fun t => cost1 t.cost) = .ok costs) (hmono : costs.Pairwise (· ≤ ·)) :
    sortedTs vts = .ok costs.zipIdx :=
  sortedTs_time_order vts costs hc hmono

/-- Non-vacuity: prices 0.1, 0.1, 0.3 → order (0.1,0), (0.1,1), (0.3,2). -/
example : sortedTs [(⟨1, 1, some (.fixed (1/10))⟩ : TS ℚ), ⟨1, 1, some (.fixed (1/10))⟩, ⟨1, 1, some (.fixed (3/10))⟩] =
    .ok [(1/10, 0), (1/10, 1), (3/10, 2)] := by decide +kernel

/-- Non-vacuity: 15-minute steps, departure 31 minutes from now: steps 0, 1, 2 are planned. -/
example : sliceTo [10, 11, 12, 13, 14] (ceilDiv (31 * 60000000 - 0) (15 * 60000000)) = [10, 11, 12] := by
  decide +kernel

/-- **Witness (suspected defect, replayed on the real code in notes/S_BALANCED_MARKET.md).**
Price −0.05 now, −0.10 in the next step, 0.50 afterwards, threshold 0; the vehicle (SoC 0.1, desired
0.8, 5 kW, 10 kWh) leaves after two steps and needs both of them (0.1 + 0.5 + 0.5 ≥ 0.8; one step gives
0.6).  The present step is cheap and is planned at full power, but the price group is headed by the
next (cheaper) step, so nothing is charged now: no command, SoC unchanged — the desired SoC can no
longer be reached. -/
example :
    (BalancedMarket.step toyOps
      ⟨1/100000, 0, 0, hourUs, 4 * hourUs, 0,
       [.signal hourUs "GC" none (some (some (.fixed (-1/10)))),
        .signal (2 * hourUs) "GC" none (some (some (.fixed (1/2))))], []⟩
      ⟨[⟨"GC", 20, some (.fixed (-1/20)), [("load", 4)]⟩], [toyCs], [toyVeh false (1/10)], []⟩).toOption.map
      (fun r => (r.2, r.1.vehicles.map (·.bat))) = some ([], [1/10]) := by decide +kernel

end SpiceEv
