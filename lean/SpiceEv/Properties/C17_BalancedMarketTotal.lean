/-
C17 — termination, for the WHOLE step of the `balanced_market` model (Model/StratBalancedMarket.lean):
`BalancedMarket.step` / `stepGc` return `.ok` or a Python exception value, never the model's own `FUEL` marker.

The model's fuel-guarded loops and the fuel they are given:
* `chargeLoop` — `sorted.length + 1`, from `sorted_idx = 0` (always enough);
* `bisect` (power bisection, unbounded `while` in Python) — `bisectFuel = 2200`, bracket `[0, cs.max_power]`,
  `safe = False`: enough as soon as `cs.max_power ≤ EPS·2^2198` AND the evaluation at the upper end is safe;
* `batBisect` (stationary battery, unbounded `while` in Python) — `bisectFuel = 2200`, bracket `[0, gc.cur_max_power]`:
  enough as soon as `gc.cur_max_power ≤ EPS·2^2199`.
Battery contracts used: `NoFuel` (the battery's own loops end, C01), `BatLaw` (average powers are non-negative),
`SimLaw` (the deep copy is the battery up to its SoC), `DomLaw` (a `target_power = p` charge ends at least as full as a
`max_power = p` charge).  Lemmas: Proofs/StratBalancedMarketTotal.lean, Proofs/StratBalancedMarketTotalV2g.lean.
-/
import SpiceEv.Proofs.StratBalancedMarketTotal
import SpiceEv.Proofs.StratBalancedMarketTotalV2g
set_option linter.unusedSectionVars false
namespace SpiceEv
open SpiceEv.BalancedMarket SpiceEv.BalancedMarket.Total
variable {α B : Type} [Field α] [LinearOrder α] [IsStrictOrderedRing α]

/-- **The whole step ends** — V2G allowed; every hypothesis is about the battery contract, `EPS` and the INITIAL world:
unique vehicle ids, unique connector ids, no two vehicles at one charging station (the well-formedness that
`FreshKeys` of C04 also asks for; a Python dict has unique keys, the third is what a sane scenario has), and the two
fuel bounds.  The upper-end premise `hsafe` of the power bisection is *derived*: every vehicle is planned once
(`stepGc_vids_nodup`, vehicles of different connectors differ), a station's `current_power` becomes negative only by
the V2G discharge of the vehicle standing at it, so the station a vehicle is planned at still has
`current_power ≥ 0`; there `clamp(min(p, cs.max_power)) = clamp(p)` and by `DomLaw` the bisection pass at
`cs.max_power` charges at least as much as the naive pass that entered the bisection. -/
theorem C17_balanced_market_step_total (ops : Ops α B) (hnf : NoFuel ops) (law : BatLaw ops.toBatOps)
    (R : B → B → Prop) (sl : SimLaw ops R) (dl : DomLaw ops R) (env : Env α) (heps : 0 < env.eps)
    (w : SWorld α B)
    (hvids : (w.vehicles.map (·.id)).Nodup)
    (hone : ∀ u1 ∈ w.vehicles, ∀ u2 ∈ w.vehicles, ∀ c, u1.cs = some c → u2.cs = some c → u1.id = u2.id)
    (hgids : (w.gcs.map (·.id)).Nodup)
    (hcs : ∀ s ∈ w.stations, s.maxPower ≤ env.eps * 2 ^ 2198)
    (hgc : ∀ g ∈ w.gcs, g.curMax ≤ env.eps * 2 ^ 2199) :
    BalancedMarket.step ops env w ≠ .error .fuel :=
  step_ne_fuel_v2g ops hnf law R sl dl env heps w hvids hone hgids hcs hgc

/-- **`step_gc` of one connector ends** — V2G allowed; the world is the one `step_gc` is called on, so
`current_power ≥ 0` is a hypothesis on its stations (`step` establishes it by its reset). -/
theorem C17_balanced_market_stepGc_total (ops : Ops α B) (hnf : NoFuel ops) (law : BatLaw ops.toBatOps)
    (R : B → B → Prop) (sl : SimLaw ops R) (dl : DomLaw ops R) (env : Env α) (heps : 0 < env.eps)
    (w : SWorld α B) (gcId : String)
    (hvids : (w.vehicles.map (·.id)).Nodup)
    (hone : ∀ u1 ∈ w.vehicles, ∀ u2 ∈ w.vehicles, ∀ c, u1.cs = some c → u2.cs = some c → u1.id = u2.id)
    (hcs : ∀ s ∈ w.stations, s.maxPower ≤ env.eps * 2 ^ 2198 ∧ 0 ≤ s.currentPower)
    (hgc : ∀ g ∈ w.gcs, g.curMax ≤ env.eps * 2 ^ 2199) :
    BalancedMarket.stepGc ops env w gcId ≠ .error .fuel :=
  stepGc_ne_fuel_v2g ops hnf law R sl dl env heps w gcId hvids hone hcs hgc

/-- **The whole step ends, worlds without V2G-capable vehicles** — no well-formedness needed (ids may repeat, vehicles may
share a station); every hypothesis is about the battery contract, `EPS` and the INITIAL world.  The upper-end premise
`hsafe` of the power bisection is *derived*: stations are reset to `current_power = 0`, without V2G only non-negative powers are booked, and for `current_power ≥ 0`
`clamp(min(p, cs.max_power)) = clamp(p)`, so by `DomLaw` the bisection pass at `cs.max_power` charges at least as much
as the naive pass that entered the bisection. -/
theorem C17_balanced_market_step_total_no_v2g (ops : Ops α B) (hnf : NoFuel ops) (law : BatLaw ops.toBatOps)
    (R : B → B → Prop) (sl : SimLaw ops R) (dl : DomLaw ops R) (env : Env α) (heps : 0 < env.eps)
    (w : SWorld α B)
    (hnov2g : ∀ v ∈ w.vehicles, v.v2g = false)
    (hcs : ∀ s ∈ w.stations, s.maxPower ≤ env.eps * 2 ^ 2198)
    (hgc : ∀ g ∈ w.gcs, g.curMax ≤ env.eps * 2 ^ 2199) :
    BalancedMarket.step ops env w ≠ .error .fuel :=
  step_ne_fuel ops hnf law R sl env heps false _ (stInv_nonneg ops R sl dl _) w
    (wok_reset_nonneg _ _ w hnov2g hcs hgc)

/-- **`step_gc` of one connector ends** (same class of worlds; here the world is the one `step_gc` is called on, so
`current_power ≥ 0` is a hypothesis on it — `step` establishes it by its reset). -/
theorem C17_balanced_market_stepGc_total_no_v2g (ops : Ops α B) (hnf : NoFuel ops) (law : BatLaw ops.toBatOps)
    (R : B → B → Prop) (sl : SimLaw ops R) (dl : DomLaw ops R) (env : Env α) (heps : 0 < env.eps)
    (w : SWorld α B) (gcId : String)
    (hnov2g : ∀ v ∈ w.vehicles, v.v2g = false)
    (hcs : ∀ s ∈ w.stations, s.maxPower ≤ env.eps * 2 ^ 2198 ∧ 0 ≤ s.currentPower)
    (hgc : ∀ g ∈ w.gcs, g.curMax ≤ env.eps * 2 ^ 2199) :
    BalancedMarket.stepGc ops env w gcId ≠ .error .fuel :=
  stepGc_ne_fuel ops hnf law R sl env heps false _ (stInv_nonneg ops R sl dl _) w gcId
    ⟨fun _ => hnov2g, hcs, hgc⟩

/-! (The two `…_partial` theorems for malformed worlds — two vehicles at one station — that stood here assumed the
bisection's safety premise at station states with negative `current_power`.  After repair BM3 the bracket of such a
station is `[0, cs.max_power − cs.current_power]`; the general statement for those worlds is not re-proved — the witness
world of the former hang is evaluated at the end of this file: its step now returns.) -/

/-- **The power bisection of the PINNED code could run for ever** (finding BM3, repaired by fixes/BM3.diff: the model's
`chargeLoop` now calls `bisect` with the upper end `cs.max_power − min(cs.current_power, 0)`; this theorem is about the
function `bisect` on the pinned bracket `[0, cs.max_power]` and documents the defect) (toy battery on ℚ: 10 kWh,
lossless, ≤ 5 kW, one-hour steps).  Station `max_power = 3`, `current_power = −3` (3 kW V2G discharge booked on it),
vehicle at SoC 0.2 wanting 0.6, forecast 20 kW free in the cheapest step: the naive pass offers
`clamp(20) = min(20, 3 − (−3)) = 6` kW and reaches 0.7 ≥ 0.6, so the bisection is entered with the bracket
`[0, cs.max_power] = [0, 3]`; no power ≤ 3 kW reaches 0.6 (at most 0.2 + 0.3), `safe` stays `False`, and
`while not safe or …` never exits: for EVERY amount of fuel the model answers `FUEL`.  Such a station state arises in a
whole step iff two vehicles stand at one station (excluded by `hone` of `C17_balanced_market_step_total`); the example
at the end of this file evaluates that step, and notes/LOOPFUEL_MARKET.md §5 replays it on the real Python code
(`Scenario.run` does not return; repair proposal fixes/BM3.diff). -/
theorem C17_balanced_market_power_bisection_diverges (eps : ℚ) (fuel : Nat) :
    naivePass toyOps negCs 0 negTs [1] [0, 0] (1/5) = .ok ([0, 6], 7/10) ∧
    bisect toyOps eps negCs 0 negTs [1] (1/5) (3/5) fuel 0 3 false [0, 6] (7/10) = .error .fuel :=
  ⟨neg_naive, neg_bisect_diverges eps fuel 0 [0, 6] (7/10) (by norm_num)⟩

/-! Non-vacuity. -/

/-- `C17_balanced_market_step_total` applies to the toy world WITH a V2G vehicle (price falls next step: the vehicle
discharges now) … -/
example : BalancedMarket.step toyOps (toyEnv (some (1/10))) (toyWorld true (9/10)) ≠ .error .fuel :=
  C17_balanced_market_step_total toyOps toyNoFuel toyLaw _ toySim toyDom _ (by decide +kernel) _
    (by decide +kernel)
    (by intro u1 h1 u2 h2 c _ _
        simp only [toyWorld, List.mem_singleton] at h1 h2
        rw [h1, h2])
    (by decide +kernel) (by decide +kernel) (by decide +kernel)
/-- … whose step returns a result with a V2G discharge booked (a negative command). -/
example : ((BalancedMarket.step toyOps (toyEnv (some (1/10))) (toyWorld true (9/10))).toOption.map
    (fun r => r.2.any (fun kv => decide (kv.2 < 0)))) = some true := by decide +kernel
example : BalancedMarket.stepGc toyOps (toyEnv (some (1/10))) (toyWorld true (9/10)) "GC" ≠ .error .fuel :=
  C17_balanced_market_stepGc_total toyOps toyNoFuel toyLaw _ toySim toyDom _ (by decide +kernel) _ _
    (by decide +kernel)
    (by intro u1 h1 u2 h2 c _ _
        simp only [toyWorld, List.mem_singleton] at h1 h2
        rw [h1, h2])
    (by decide +kernel) (by decide +kernel)
/-- `C17_balanced_market_step_total_no_v2g` applies to the toy world without V2G (11 kW station, 20 kW connector,
`EPS = 1e-5`) … -/
example : BalancedMarket.step toyOps (toyEnv none) (toyWorld false (1/2)) ≠ .error .fuel :=
  C17_balanced_market_step_total_no_v2g toyOps toyNoFuel toyLaw _ toySim toyDom (toyEnv none) (by decide +kernel) _
    (by decide +kernel) (by decide +kernel) (by decide +kernel)
/-- … whose step indeed returns a result. -/
example : (BalancedMarket.step toyOps (toyEnv none) (toyWorld false (1/2))).toOption.isSome = true := by
  decide +kernel
example : BalancedMarket.stepGc toyOps (toyEnv none) (toyWorld false (1/2)) "GC" ≠ .error .fuel :=
  C17_balanced_market_stepGc_total_no_v2g toyOps toyNoFuel toyLaw _ toySim toyDom (toyEnv none) (by decide +kernel) _ _
    (by decide +kernel) (by decide +kernel) (by decide +kernel)
/-- The repaired step on the witness world of the former hang (shared station: V2G vehicle "a" discharges 3 kW at the
3 kW station now, vehicle "b" at the same station is planned next; the pinned bracket `[0, 3]` exhausted every fuel):
with the bracket `[0, 3 − (−3)]` the power bisection ends and `step` returns — not `FUEL`. -/
example : isFuel (BalancedMarket.step toyOps (toyEnv (some (3/10))) shareWorld) = false := by decide +kernel

end SpiceEv
