import os, sys, json, copy
os.environ["VERIF_REPO"] = "/tmp/w3/greedyrun/repo"
sys.path.insert(0, "/tmp/w3/greedyrun/verif/harness")
import c09
hits = []
for i in range(40):
    for strat in ("greedy",):
        case = {"seed": 0, "i": i, "strategy": strat, "pid": "C09"}
        full = c09.build(case)
        if not full.get("scenario"):
            continue
        full = copy.deepcopy(full)
        for tn, vt in full["scenario"]["components"]["vehicle_types"].items():
            vmax = max(p[1] for p in vt["charging_curve"])
            vt["min_charging_power"] = round(0.2 * vmax, 3)
        r = c09.eval_case(full)
        if r["violations"]:
            hits.append((i, r["violations"]))
print(len(hits))
for h in hits[:5]:
    print(h)
if hits:
    i = hits[0][0]
    full = c09.build({"seed": 0, "i": i, "strategy": "greedy", "pid": "C09"})
    for tn, vt in full["scenario"]["components"]["vehicle_types"].items():
        vmax = max(p[1] for p in vt["charging_curve"])
        vt["min_charging_power"] = round(0.2 * vmax, 3)
    json.dump(full, open("/tmp/w3/greedyrun/scratch/minpower_replay.json", "w"), indent=1)
