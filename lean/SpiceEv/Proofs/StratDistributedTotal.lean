/-
C17 (termination) for the model of the charging strategy `distributed` (Model/StratDistributed.lean, `Distrib.step`).
`Distributed.step` itself has no `while` loop: look-ahead, ranking, the per-connector treatment and the final surplus
pass are `for` loops over finite collections (`List.foldlM` / `List.mapM` / `List.foldl`; the one `while` of the
ranking, `while free_spots > 0 and arr_gc`, is the structural recursion `fillSpots`).  The model's `FUEL` marker can
only come out of
  * a battery call (`DNoFuel`: the battery's own loops terminate, C01; includes building the virtual vehicle's battery),
  * the `step()` of the sub-strategy object the connector is delegated to: greedy / balanced (`ruleStep`, total by
    Proofs/StrategiesTotal.lean), peak_shaving (`PeakShaving.step`, fuel-guarded bisections) or peak_load_window
    (`PeakLoadWindow.step`, fuel-guarded scans / bisections).
For the last two the totality of the sub-strategy's step is taken as a hypothesis (`SubTotal`), stated for the
environment `Distributed` builds for the call and for every world / event list the call may be made on.
-/
import SpiceEv.Proofs.StrategiesTotal
import SpiceEv.Proofs.StratDistributed
import SpiceEv.Proofs.StratPeakShaving
import SpiceEv.Proofs.StratPeakLoadWindow
set_option linter.unusedSectionVars false
set_option linter.unusedVariables false
namespace SpiceEv.DistribTotal
open SpiceEv SpiceEv.Distrib SpiceEv.RuleTotal

/-- no battery operation `Distributed` (or a sub-strategy) uses answers `FUEL`: the operations of `BatOps`
(`RuleTotal.NoFuel`) and `components.Vehicle(…).battery` for the virtual vehicle of a vacant opportunity station -/
structure DNoFuel {α B : Type} (dops : DOps α B) : Prop where
  bat : NoFuel dops.bat
  newBattery : ∀ vt soc, dops.newBattery vt soc ≠ .error .fuel

/-- the environment `psStep` runs the `PeakShaving` sub-strategy object in -/
def psEnvOf {α : Type} (sub : SubStrat α) (cfg : PSCfg) (now : Int) : PeakShaving.Env α :=
  ⟨sub.eps, sub.tsPerHour, now, sub.interval, cfg.horizon, cfg.perfect, cfg.fuel⟩

/-- the environment `plwStep` runs the `PeakLoadWindow` sub-strategy object in -/
def plwEnvOf {α B : Type} (dops : DOps α B) (sub : SubStrat α) (cfg : PLWCfg α) (de : DEnv α) :
    PeakLoadWindow.PEnv α :=
  ⟨sub.eps, sub.tsPerHour, de.nowDt, sub.interval, cfg.start, cfg.stop, cfg.windows, cfg.events, dops.sum,
    cfg.bisectFuel⟩

section
variable {α B : Type} [Add α] [Sub α] [Mul α] [Div α] [Neg α] [LT α] [LE α]
  [DecidableLT α] [DecidableLE α] [OfNat α 0] [OfNat α 1] [NatCast α] [IntCast α]

/-- **what is assumed of a sub-strategy object that is not greedy / balanced**: its own `step()` never answers
`FUEL` — in the environment `Distributed` hands it, on EVERY virtual world with exactly one connector
(`new_world_state` holds the one connector that is being simulated) whose list of stationary batteries satisfies `P`;
stations, vehicles and, for peak_shaving, the event list are arbitrary.  Vacuous for a greedy / balanced object
(`SubStrat.isRule`). -/
structure SubTotalP (dops : DOps α B) (de : DEnv α) (sub : SubStrat α) (P : List (StatBatS α B) → Prop) : Prop where
  /-- the object is a `PeakShaving` -/
  ps : ∀ cfg, sub.ps = some cfg → ∀ (evs : List (PeakShaving.Ev α)) (g : GcS α) (sts : List (StationS α))
      (vs : List (VehicleS α B)) (bs : List (StatBatS α B)), P bs →
    PeakShaving.step (psOps dops) (psEnvOf sub cfg de.env.now) evs ⟨[g], sts, vs, bs⟩ ≠ .error .fuel
  /-- the object is a `PeakLoadWindow` -/
  plw : ∀ cfg, sub.ps = none → sub.plw = some cfg → ∀ (pg : PeakLoadWindow.PGc α) (sts : List (StationS α))
      (pvs : List (PeakLoadWindow.PVeh α B)) (bs : List (StatBatS α B)), P bs →
    PeakLoadWindow.step dops.bat (plwEnvOf dops sub cfg de) ⟨[pg], sts, pvs, bs⟩ ≠ .error .fuel

/-- … on every single-connector world (a depot's sub-strategy is handed the depot's stationary batteries) -/
abbrev SubTotal (dops : DOps α B) (de : DEnv α) (sub : SubStrat α) : Prop :=
  SubTotalP dops de sub (fun _ => True)

/-- … on every single-connector world WITHOUT stationary batteries (the virtual world of an opportunity station never
holds one: its batteries support the connector or are simulated as virtual vehicles) -/
abbrev SubTotalNoBat (dops : DOps α B) (de : DEnv α) (sub : SubStrat α) : Prop :=
  SubTotalP dops de sub (fun bs => bs = [])

theorem SubTotalP.mono {dops : DOps α B} {de : DEnv α} {sub : SubStrat α} {P Q : List (StatBatS α B) → Prop}
    (h : SubTotalP dops de sub P) (hPQ : ∀ bs, Q bs → P bs) : SubTotalP dops de sub Q :=
  ⟨fun cfg hc evs g sts vs bs hb => h.ps cfg hc evs g sts vs bs (hPQ bs hb),
   fun cfg hn hc pg sts pvs bs hb => h.plw cfg hn hc pg sts pvs bs (hPQ bs hb)⟩

theorem subTotal_of_isRule (dops : DOps α B) (de : DEnv α) (sub : SubStrat α) (P : List (StatBatS α B) → Prop)
    (h : sub.isRule) : SubTotalP dops de sub P :=
  ⟨fun cfg hc => (by rw [h.1] at hc; cases hc), fun cfg _ hc => (by rw [h.2] at hc; cases hc)⟩

theorem err_ne_fuel {β : Type} {e : PyErr} (he : e ≠ .fuel) : (.error e : Py β) ≠ .error .fuel := by
  intro h; cases h; exact he rfl

/-- leaves of a case tree: `.ok _`, `pure _`, a Python exception -/
macro "nf_leaf" : tactic =>
  `(tactic| first
    | exact ok_ne_fuel _
    | exact pure_ne_fuel _
    | exact err_ne_fuel (by decide))

/-- case tree without battery calls -/
macro "nf_tree" : tactic => `(tactic| repeat' (first | nf_leaf | split))

/-! ### block A: look-ahead -/

theorem lookVehicle_ne_fuel (ops : BatOps α B) (env : StratEnv α) (w : SWorld α B) (lk : Look α)
    (v : VehicleS α B) : lookVehicle ops env w lk v ≠ .error .fuel := by
  unfold lookVehicle; nf_tree

theorem lookEvent_ne_fuel (ops : BatOps α B) (env : StratEnv α) (w : SWorld α B) (lk : Look α)
    (e : ArrivalEv α) : lookEvent ops env w lk e ≠ .error .fuel := by
  unfold lookEvent
  split
  · nf_leaf
  · dsimp only
    repeat' (first | nf_leaf | split | simp only [bind, Except.bind])

theorem lookAhead_ne_fuel (ops : BatOps α B) (env : StratEnv α) (w : SWorld α B) (future : List (ArrivalEv α)) :
    lookAhead ops env w future ≠ .error .fuel := by
  unfold lookAhead
  dsimp only
  refine bind_ne_fuel _ _ (foldlM_ne_fuel _ (lookVehicle_ne_fuel ops env w) _ _) (fun lk _ => ?_)
  exact foldlM_ne_fuel _ (lookEvent_ne_fuel ops env w) _ _

/-! ### block B: ranking -/

theorem prioritise_ne_fuel (n : Nat) (conn : List String) (arr : List (String × α)) :
    prioritise n conn arr ≠ .error .fuel := by
  unfold prioritise; dsimp only; nf_tree

theorem rankGc_ne_fuel (w : SWorld α B) (lk : Look α) (holders : List String) (gcId : String) (n : Int) :
    rankGc w lk holders gcId n ≠ .error .fuel := by
  unfold rankGc
  dsimp only
  split
  · nf_leaf
  · split
    · nf_leaf
    · exact prioritise_ne_fuel _ _ _

theorem rank_ne_fuel (w : SWorld α B) (numberCs : List (String × Option Int)) (lk : Look α)
    (connected : List (String × List String)) : rank w numberCs lk connected ≠ .error .fuel := by
  unfold rank
  refine foldlM_ne_fuel _ (fun conn g => ?_) _ _
  split
  · nf_leaf
  · split
    · nf_leaf
    · exact bind_ne_fuel _ _ (rankGc_ne_fuel w lk _ _ _) (fun c _ => ok_ne_fuel _)

theorem candidates_ne_fuel (w : SWorld α B) (numberCs : List (String × Option Int))
    (connected : List (String × List String)) (gcId : String) :
    candidates w numberCs connected gcId ≠ .error .fuel := by
  unfold candidates; nf_tree

/-! ### block C: one connector -/

theorem connectedAt_ne_fuel (w : SWorld α B) (gcId : String) (cands : List String) :
    connectedAt w gcId cands ≠ .error .fuel := by
  unfold connectedAt
  refine foldlM_ne_fuel _ (fun acc id => ?_) _ _
  nf_tree

theorem subStations_ne_fuel (w : SWorld α B) (cvs : List (VehicleS α B)) :
    subStations w cvs ≠ .error .fuel := by
  unfold subStations
  refine foldlM_ne_fuel _ (fun acc v => ?_) _ _
  nf_tree

theorem fdiv_ne_fuel (a b : α) : fdiv a b ≠ .error .fuel := by
  unfold fdiv; nf_tree

theorem oppsBattery_ne_fuel (dops : DOps α B) (hnf : DNoFuel dops) (de : DEnv α) (ini : DInit α) (lk : Look α)
    (w : SWorld α B) (occupied : Bool) (gcId : String) (st : OppsPrep α B) (bId : String) :
    oppsBattery dops de ini lk w occupied gcId st bId ≠ .error .fuel := by
  unfold oppsBattery
  split
  · nf_leaf
  · split
    · refine bind_ne_fuel _ _ (hnf.bat.available _) (fun power _ => ?_)
      split
      · nf_leaf
      · refine bind_ne_fuel _ _ (fdiv_ne_fuel _ _) (fun pe _ => ?_)
        refine bind_ne_fuel _ _ (fdiv_ne_fuel _ _) (fun sd _ => ?_)
        nf_tree
    · dsimp only
      split
      · nf_leaf
      · split
        · nf_leaf
        · exact bind_ne_fuel _ _ (hnf.newBattery _ _) (fun nb _ => ok_ne_fuel _)

theorem oppsAfter_ne_fuel (dops : DOps α B) (hnf : DNoFuel dops) (saved : α) (avail : List (String × α))
    (vveh : List (VehicleS α B)) (st : OppsPost α B) (bId : String) :
    oppsAfter dops saved avail vveh st bId ≠ .error .fuel := by
  unfold oppsAfter
  split
  · nf_leaf
  · split
    · exact bind_ne_fuel _ _ (hnf.bat.unload _ _ _ _) (fun r _ => ok_ne_fuel _)
    · dsimp only
      nf_tree

/-- the part of `stepOppsRule` / `stepOppsPS` / `stepOppsPLW` after the sub-strategy's step: write-back, restoring
the limit, the batteries (the three functions share it up to the `ini` update) -/
theorem oppsTail_ne_fuel (dops : DOps α B) (hnf : DNoFuel dops) (saved : α) (avail : List (String × α))
    (vveh : List (VehicleS α B)) (batIds : List String) (post0 : OppsPost α B)
    {γ : Type} (k : OppsPost α B → γ) :
    (batIds.foldlM (oppsAfter dops saved avail vveh) post0 >>= fun post => (.ok (k post) : Py γ)) ≠ .error .fuel :=
  bind_ne_fuel _ _ (foldlM_ne_fuel _ (oppsAfter_ne_fuel dops hnf saved avail vveh) _ _) (fun post _ => ok_ne_fuel _)

/-! #### sub-strategy greedy / balanced -/

theorem stepDepsRule_ne_fuel (dops : DOps α B) (hnf : DNoFuel dops) (de : DEnv α) (w : SWorld α B) (ini : DInit α)
    (cmdsAcc : List (String × α)) (gc : GcS α) (stations : List (StationS α)) (cvs : List (VehicleS α B))
    (batIds : List String) : stepDepsRule dops de w ini cmdsAcc gc stations cvs batIds ≠ .error .fuel := by
  unfold stepDepsRule
  exact bind_ne_fuel _ _ (ruleStep_ne_fuel _ _ hnf.bat _ _) (fun r _ => ok_ne_fuel _)

theorem stepOppsRule_ne_fuel (dops : DOps α B) (hnf : DNoFuel dops) (de : DEnv α) (lk : Look α) (w : SWorld α B)
    (ini : DInit α) (cmdsAcc : List (String × α)) (gcId : String) (gc : GcS α) (stations : List (StationS α))
    (cvs : List (VehicleS α B)) (batIds : List String) :
    stepOppsRule dops de lk w ini cmdsAcc gcId gc stations cvs batIds ≠ .error .fuel := by
  unfold stepOppsRule
  dsimp only
  refine bind_ne_fuel _ _ (foldlM_ne_fuel _ (oppsBattery_ne_fuel dops hnf de ini lk w _ gcId) _ _) (fun prep _ => ?_)
  refine bind_ne_fuel _ _ (ruleStep_ne_fuel _ _ hnf.bat _ _) (fun r _ => ?_)
  split
  · exact oppsTail_ne_fuel dops hnf _ _ _ _ _ _
  · nf_leaf

/-! #### sub-strategy peak_shaving -/

theorem psStep_ne_fuel (dops : DOps α B) (sub : SubStrat α) (cfg : PSCfg) (now : Int)
    (events future : List (PeakShaving.Ev α)) (vw : SWorld α B)
    (h : ∀ evs, PeakShaving.step (psOps dops) (psEnvOf sub cfg now) evs vw ≠ .error .fuel) :
    psStep dops sub cfg now events future vw ≠ .error .fuel := by
  unfold psStep
  dsimp only
  exact bind_ne_fuel _ _ (h _) (fun r _ => ok_ne_fuel _)

theorem stepDepsPS_ne_fuel (dops : DOps α B) (de : DEnv α) (cfg : PSCfg) (w : SWorld α B) (ini : DInit α)
    (cmdsAcc : List (String × α)) (gc : GcS α) (stations : List (StationS α)) (cvs : List (VehicleS α B))
    (batIds : List String) (P : List (StatBatS α B) → Prop) (hP : P (depotBatteries w batIds))
    (h : ∀ evs g sts vs bs, P bs →
      PeakShaving.step (psOps dops) (psEnvOf de.deps cfg de.env.now) evs ⟨[g], sts, vs, bs⟩ ≠ .error .fuel) :
    stepDepsPS dops de cfg w ini cmdsAcc gc stations cvs batIds ≠ .error .fuel := by
  unfold stepDepsPS
  exact bind_ne_fuel _ _ (psStep_ne_fuel dops _ cfg _ _ _ _ (fun evs => h evs _ _ _ _ hP)) (fun r _ => ok_ne_fuel _)

theorem stepOppsPS_ne_fuel (dops : DOps α B) (hnf : DNoFuel dops) (de : DEnv α) (cfg : PSCfg) (lk : Look α)
    (w : SWorld α B) (ini : DInit α) (cmdsAcc : List (String × α)) (gcId : String) (gc : GcS α)
    (stations : List (StationS α)) (cvs : List (VehicleS α B)) (batIds : List String)
    (P : List (StatBatS α B) → Prop) (hP : P [])
    (h : ∀ evs g sts vs bs, P bs →
      PeakShaving.step (psOps dops) (psEnvOf de.opps cfg de.env.now) evs ⟨[g], sts, vs, bs⟩ ≠ .error .fuel) :
    stepOppsPS dops de cfg lk w ini cmdsAcc gcId gc stations cvs batIds ≠ .error .fuel := by
  unfold stepOppsPS
  dsimp only
  refine bind_ne_fuel _ _ (foldlM_ne_fuel _ (oppsBattery_ne_fuel dops hnf de ini lk w _ gcId) _ _) (fun prep _ => ?_)
  refine bind_ne_fuel _ _ (psStep_ne_fuel dops _ cfg _ _ _ _ (fun evs => h evs _ _ _ _ hP)) (fun r _ => ?_)
  split
  · exact oppsTail_ne_fuel dops hnf _ _ _ _ _ _
  · nf_leaf

/-! #### sub-strategy peak_load_window -/

theorem plwStep_ne_fuel (dops : DOps α B) (sub : SubStrat α) (cfg : PLWCfg α) (de : DEnv α)
    (peaks : List (String × α)) (extra : List (String × List α × Option α)) (vw : SWorld α B)
    (g : GcS α) (hg : vw.gcs = [g]) (P : List (StatBatS α B) → Prop) (hP : P vw.batteries)
    (h : ∀ pg sts pvs bs, P bs →
      PeakLoadWindow.step dops.bat (plwEnvOf dops sub cfg de) ⟨[pg], sts, pvs, bs⟩ ≠ .error .fuel) :
    plwStep dops sub cfg de peaks extra vw ≠ .error .fuel := by
  unfold plwStep
  rw [hg]
  dsimp only [List.map]
  exact bind_ne_fuel _ _ (h _ _ _ _ hP) (fun r _ => ok_ne_fuel _)

theorem stepDepsPLW_ne_fuel (dops : DOps α B) (de : DEnv α) (cfg : PLWCfg α) (w : SWorld α B) (ini : DInit α)
    (cmdsAcc : List (String × α)) (gc : GcS α) (stations : List (StationS α)) (cvs : List (VehicleS α B))
    (batIds : List String) (P : List (StatBatS α B) → Prop) (hP : P (depotBatteries w batIds))
    (h : ∀ pg sts pvs bs, P bs →
      PeakLoadWindow.step dops.bat (plwEnvOf dops de.deps cfg de) ⟨[pg], sts, pvs, bs⟩ ≠ .error .fuel) :
    stepDepsPLW dops de cfg w ini cmdsAcc gc stations cvs batIds ≠ .error .fuel := by
  unfold stepDepsPLW
  exact bind_ne_fuel _ _ (plwStep_ne_fuel dops _ cfg de _ _ _ _ rfl P hP h) (fun r _ => ok_ne_fuel _)

theorem stepOppsPLW_ne_fuel (dops : DOps α B) (hnf : DNoFuel dops) (de : DEnv α) (cfg : PLWCfg α) (lk : Look α)
    (w : SWorld α B) (ini : DInit α) (cmdsAcc : List (String × α)) (gcId : String) (gc : GcS α)
    (stations : List (StationS α)) (cvs : List (VehicleS α B)) (batIds : List String)
    (P : List (StatBatS α B) → Prop) (hP : P [])
    (h : ∀ pg sts pvs bs, P bs →
      PeakLoadWindow.step dops.bat (plwEnvOf dops de.opps cfg de) ⟨[pg], sts, pvs, bs⟩ ≠ .error .fuel) :
    stepOppsPLW dops de cfg lk w ini cmdsAcc gcId gc stations cvs batIds ≠ .error .fuel := by
  unfold stepOppsPLW
  dsimp only
  refine bind_ne_fuel _ _ (foldlM_ne_fuel _ (oppsBattery_ne_fuel dops hnf de ini lk w _ gcId) _ _) (fun prep _ => ?_)
  refine bind_ne_fuel _ _ (plwStep_ne_fuel dops _ cfg de _ _ _ _ rfl P hP h) (fun r _ => ?_)
  split
  · exact oppsTail_ne_fuel dops hnf _ _ _ _ _ _
  · nf_leaf

/-! #### dispatch by the class of the sub-strategy object -/

theorem stepDeps_ne_fuel (dops : DOps α B) (hnf : DNoFuel dops) (de : DEnv α) (P : List (StatBatS α B) → Prop)
    (hsub : SubTotalP dops de de.deps P)
    (w : SWorld α B) (ini : DInit α) (cmdsAcc : List (String × α)) (gc : GcS α) (stations : List (StationS α))
    (cvs : List (VehicleS α B)) (batIds : List String) (hP : P (depotBatteries w batIds)) :
    stepDeps dops de w ini cmdsAcc gc stations cvs batIds ≠ .error .fuel := by
  unfold stepDeps
  split
  · rename_i cfg hc
    exact stepDepsPS_ne_fuel dops de cfg w ini cmdsAcc gc stations cvs batIds P hP (hsub.ps cfg hc)
  · rename_i hps
    split
    · rename_i cfg hc
      exact stepDepsPLW_ne_fuel dops de cfg w ini cmdsAcc gc stations cvs batIds P hP (hsub.plw cfg hps hc)
    · exact stepDepsRule_ne_fuel dops hnf de w ini cmdsAcc gc stations cvs batIds

theorem stepOpps_ne_fuel (dops : DOps α B) (hnf : DNoFuel dops) (de : DEnv α)
    (hsub : SubTotalNoBat dops de de.opps)
    (lk : Look α) (w : SWorld α B) (ini : DInit α) (cmdsAcc : List (String × α)) (gcId : String) (gc : GcS α)
    (stations : List (StationS α)) (cvs : List (VehicleS α B)) (batIds : List String) :
    stepOpps dops de lk w ini cmdsAcc gcId gc stations cvs batIds ≠ .error .fuel := by
  unfold stepOpps
  split
  · rename_i cfg hc
    exact stepOppsPS_ne_fuel dops hnf de cfg lk w ini cmdsAcc gcId gc stations cvs batIds (fun bs => bs = []) rfl (hsub.ps cfg hc)
  · rename_i hps
    split
    · rename_i cfg hc
      exact stepOppsPLW_ne_fuel dops hnf de cfg lk w ini cmdsAcc gcId gc stations cvs batIds (fun bs => bs = []) rfl (hsub.plw cfg hps hc)
    · exact stepOppsRule_ne_fuel dops hnf de lk w ini cmdsAcc gcId gc stations cvs batIds

/-- the depot connectors' stationary batteries, as the connector loop will hand them over, satisfy `P` -/
def DepotBats (P : List (StatBatS α B) → Prop) (ini : DInit α) : Prop :=
  ∀ (gcId : String) (w : SWorld α B), sdGet ini.strategies gcId = some .deps →
    P (depotBatteries w ((sdGet ini.gcBattery gcId).getD []))

theorem stepGc_ne_fuel (dops : DOps α B) (hnf : DNoFuel dops) (de : DEnv α) (P : List (StatBatS α B) → Prop)
    (hdeps : SubTotalP dops de de.deps P)
    (hopps : SubTotalNoBat dops de de.opps) (numberCs : List (String × Option Int))
    (connected : List (String × List String)) (lk : Look α) (st : SWorld α B × DInit α × List (String × α))
    (hP : DepotBats P st.2.1)
    (gcId : String) : stepGc dops de numberCs connected lk st gcId ≠ .error .fuel := by
  unfold stepGc
  split
  · nf_leaf
  · refine bind_ne_fuel _ _ (candidates_ne_fuel _ _ _ _) (fun cands _ => ?_)
    refine bind_ne_fuel _ _ (connectedAt_ne_fuel _ _ _) (fun cvs _ => ?_)
    dsimp only
    split
    · nf_leaf
    · split
      · nf_leaf
      · rename_i kind hkind
        refine bind_ne_fuel _ _ (subStations_ne_fuel _ _) (fun stations _ => ?_)
        split
        · exact stepDeps_ne_fuel dops hnf de P hdeps _ _ _ _ _ _ _ (hP gcId _ hkind)
        · exact stepOpps_ne_fuel dops hnf de hopps lk _ _ _ _ _ _ _ _

/-! #### the connector loop keeps `self.strategies` and `self.gc_battery` -/

theorem bind_ok {β γ : Type} {x : Py β} {f : β → Py γ} {r : γ} (h : (x >>= f) = .ok r) :
    ∃ a, x = .ok a ∧ f a = .ok r := by
  cases x with
  | error e => simp [bind, Except.bind] at h
  | ok a => exact ⟨a, rfl, h⟩

/-- the two fields of the derived state the dispatch reads -/
def SameKeys (ini ini' : DInit α) : Prop :=
  ini'.strategies = ini.strategies ∧ ini'.gcBattery = ini.gcBattery

theorem stepDepsRule_keys (dops : DOps α B) (de : DEnv α) (w : SWorld α B) (ini : DInit α)
    (cmdsAcc : List (String × α)) (gc : GcS α) (stations : List (StationS α)) (cvs : List (VehicleS α B))
    (batIds : List String) (r : SWorld α B × DInit α × List (String × α))
    (h : stepDepsRule dops de w ini cmdsAcc gc stations cvs batIds = .ok r) : SameKeys ini r.2.1 := by
  unfold stepDepsRule at h
  obtain ⟨a, _, h⟩ := bind_ok h
  simp only [Except.ok.injEq] at h; subst h; exact ⟨rfl, rfl⟩

theorem stepDepsPS_keys (dops : DOps α B) (de : DEnv α) (cfg : PSCfg) (w : SWorld α B) (ini : DInit α)
    (cmdsAcc : List (String × α)) (gc : GcS α) (stations : List (StationS α)) (cvs : List (VehicleS α B))
    (batIds : List String) (r : SWorld α B × DInit α × List (String × α))
    (h : stepDepsPS dops de cfg w ini cmdsAcc gc stations cvs batIds = .ok r) : SameKeys ini r.2.1 := by
  unfold stepDepsPS at h
  obtain ⟨a, _, h⟩ := bind_ok h
  simp only [Except.ok.injEq] at h; subst h; exact ⟨rfl, rfl⟩

theorem stepDepsPLW_keys (dops : DOps α B) (de : DEnv α) (cfg : PLWCfg α) (w : SWorld α B) (ini : DInit α)
    (cmdsAcc : List (String × α)) (gc : GcS α) (stations : List (StationS α)) (cvs : List (VehicleS α B))
    (batIds : List String) (r : SWorld α B × DInit α × List (String × α))
    (h : stepDepsPLW dops de cfg w ini cmdsAcc gc stations cvs batIds = .ok r) : SameKeys ini r.2.1 := by
  unfold stepDepsPLW at h
  obtain ⟨a, _, h⟩ := bind_ok h
  simp only [Except.ok.injEq] at h; subst h; exact ⟨rfl, rfl⟩

theorem stepOppsRule_keys (dops : DOps α B) (de : DEnv α) (lk : Look α) (w : SWorld α B)
    (ini : DInit α) (cmdsAcc : List (String × α)) (gcId : String) (gc : GcS α) (stations : List (StationS α))
    (cvs : List (VehicleS α B)) (batIds : List String) (r : SWorld α B × DInit α × List (String × α))
    (h : stepOppsRule dops de lk w ini cmdsAcc gcId gc stations cvs batIds = .ok r) : SameKeys ini r.2.1 := by
  unfold stepOppsRule at h
  dsimp only at h
  obtain ⟨prep, _, h⟩ := bind_ok h
  obtain ⟨a, _, h⟩ := bind_ok h
  split at h
  · obtain ⟨post, _, h⟩ := bind_ok h
    simp only [Except.ok.injEq] at h; subst h; exact ⟨rfl, rfl⟩
  · cases h

theorem stepOppsPS_keys (dops : DOps α B) (de : DEnv α) (cfg : PSCfg) (lk : Look α) (w : SWorld α B)
    (ini : DInit α) (cmdsAcc : List (String × α)) (gcId : String) (gc : GcS α) (stations : List (StationS α))
    (cvs : List (VehicleS α B)) (batIds : List String) (r : SWorld α B × DInit α × List (String × α))
    (h : stepOppsPS dops de cfg lk w ini cmdsAcc gcId gc stations cvs batIds = .ok r) : SameKeys ini r.2.1 := by
  unfold stepOppsPS at h
  dsimp only at h
  obtain ⟨prep, _, h⟩ := bind_ok h
  obtain ⟨a, _, h⟩ := bind_ok h
  split at h
  · obtain ⟨post, _, h⟩ := bind_ok h
    simp only [Except.ok.injEq] at h; subst h; exact ⟨rfl, rfl⟩
  · cases h

theorem stepOppsPLW_keys (dops : DOps α B) (de : DEnv α) (cfg : PLWCfg α) (lk : Look α) (w : SWorld α B)
    (ini : DInit α) (cmdsAcc : List (String × α)) (gcId : String) (gc : GcS α) (stations : List (StationS α))
    (cvs : List (VehicleS α B)) (batIds : List String) (r : SWorld α B × DInit α × List (String × α))
    (h : stepOppsPLW dops de cfg lk w ini cmdsAcc gcId gc stations cvs batIds = .ok r) : SameKeys ini r.2.1 := by
  unfold stepOppsPLW at h
  dsimp only at h
  obtain ⟨prep, _, h⟩ := bind_ok h
  obtain ⟨a, _, h⟩ := bind_ok h
  split at h
  · obtain ⟨post, _, h⟩ := bind_ok h
    simp only [Except.ok.injEq] at h; subst h; exact ⟨rfl, rfl⟩
  · cases h

theorem stepGc_keys (dops : DOps α B) (de : DEnv α) (numberCs : List (String × Option Int))
    (connected : List (String × List String)) (lk : Look α) (st st' : SWorld α B × DInit α × List (String × α))
    (gcId : String) (h : stepGc dops de numberCs connected lk st gcId = .ok st') : SameKeys st.2.1 st'.2.1 := by
  unfold stepGc at h
  split at h
  · cases h
  · obtain ⟨cands, _, h⟩ := bind_ok h
    obtain ⟨cvs, _, h⟩ := bind_ok h
    dsimp only at h
    split at h
    · simp only [Except.ok.injEq] at h; subst h; exact ⟨rfl, rfl⟩
    · split at h
      · cases h
      · obtain ⟨stations, _, h⟩ := bind_ok h
        split at h
        · unfold stepDeps at h
          split at h
          · exact stepDepsPS_keys _ _ _ _ _ _ _ _ _ _ _ h
          · split at h
            · exact stepDepsPLW_keys _ _ _ _ _ _ _ _ _ _ _ h
            · exact stepDepsRule_keys _ _ _ _ _ _ _ _ _ _ h
        · unfold stepOpps at h
          split at h
          · exact stepOppsPS_keys _ _ _ _ _ _ _ _ _ _ _ _ _ h
          · split at h
            · exact stepOppsPLW_keys _ _ _ _ _ _ _ _ _ _ _ _ _ h
            · exact stepOppsRule_keys _ _ _ _ _ _ _ _ _ _ _ _ h

/-- a fold never answers `FUEL` when its body does not on states that satisfy an invariant the body keeps -/
theorem foldlM_ne_fuel_inv {β σ : Type} (I : σ → Prop) (f : σ → β → Py σ)
    (hf : ∀ s a, I s → f s a ≠ .error .fuel ∧ ∀ s', f s a = .ok s' → I s') (l : List β) (s : σ) (hs : I s) :
    l.foldlM f s ≠ .error .fuel := by
  induction l generalizing s with
  | nil => simp [List.foldlM, pure, Except.pure]
  | cons a rest ih =>
    rw [List.foldlM_cons]
    exact bind_ne_fuel _ _ (hf s a hs).1 (fun s' hs' => ih s' ((hf s a hs).2 s' hs'))

theorem stepGc_fold_ne_fuel (dops : DOps α B) (hnf : DNoFuel dops) (de : DEnv α) (P : List (StatBatS α B) → Prop)
    (hdeps : SubTotalP dops de de.deps P) (hopps : SubTotalNoBat dops de de.opps)
    (numberCs : List (String × Option Int)) (connected : List (String × List String)) (lk : Look α)
    (ids : List String) (st : SWorld α B × DInit α × List (String × α)) (hP : DepotBats P st.2.1) :
    ids.foldlM (stepGc dops de numberCs connected lk) st ≠ .error .fuel := by
  refine foldlM_ne_fuel_inv (fun s => SameKeys st.2.1 s.2.1) _ (fun s a hs => ⟨?_, fun s' h' => ?_⟩) _ _ ⟨rfl, rfl⟩
  · refine stepGc_ne_fuel dops hnf de P hdeps hopps numberCs connected lk s ?_ a
    intro gcId w hk
    rw [hs.1] at hk
    rw [hs.2]
    exact hP gcId w hk
  · have h2 := stepGc_keys dops de numberCs connected lk s s' a h'
    exact ⟨h2.1.trans hs.1, h2.2.trans hs.2⟩

/-! ### block D: surplus pass -/

theorem surplusIds_ne_fuel (w : SWorld α B) (numberCs : List (String × Option Int))
    (connected : List (String × List String)) : surplusIds w numberCs connected ≠ .error .fuel := by
  unfold surplusIds
  refine foldlM_ne_fuel _ (fun acc g => ?_) _ _
  exact bind_ne_fuel _ _ (candidates_ne_fuel _ _ _ _) (fun cands _ => ok_ne_fuel _)

theorem distributeSurplusOn_ne_fuel (ops : BatOps α B) (hnf : NoFuel ops) (env : StratEnv α) (w : SWorld α B)
    (ids : List String) : distributeSurplusOn ops env w ids ≠ .error .fuel := by
  unfold distributeSurplusOn
  refine bind_ne_fuel _ _ (cheapMap_ne_fuel env w.gcs) (fun cheap _ => ?_)
  refine foldlM_ne_fuel _ (fun st id => ?_) _ _
  split
  · nf_leaf
  · exact surplusVehicle_ne_fuel ops hnf env cheap _ _ _

/-! ### `Distributed.step()` -/

/-- **`Distributed.step` never answers `FUEL`** when the battery operations do not and the sub-strategy objects'
own steps do not: the depots' object on worlds whose stationary batteries satisfy `P` (which the depots' batteries
of the initial state do: `DepotBats`), the opportunity stations' object on worlds without stationary batteries;
nothing to assume for greedy / balanced objects. -/
theorem step_ne_fuel_P (dops : DOps α B) (hnf : DNoFuel dops) (de : DEnv α) (P : List (StatBatS α B) → Prop)
    (hdeps : SubTotalP dops de de.deps P) (hopps : SubTotalNoBat dops de de.opps) (s : DState α B)
    (hP : DepotBats P s.init) : Distrib.step dops de s ≠ .error .fuel := by
  unfold Distrib.step
  dsimp only
  refine bind_ne_fuel _ _ (lookAhead_ne_fuel _ _ _ _) (fun lk _ => ?_)
  refine bind_ne_fuel _ _ (rank_ne_fuel _ _ _ _) (fun connected _ => ?_)
  refine bind_ne_fuel _ _ (stepGc_fold_ne_fuel dops hnf de P hdeps hopps _ _ _ _ _ hP) (fun r _ => ?_)
  refine bind_ne_fuel _ _ (surplusIds_ne_fuel _ _ _) (fun ids _ => ?_)
  exact bind_ne_fuel _ _ (distributeSurplusOn_ne_fuel _ hnf.bat _ _ _) (fun r2 _ => ok_ne_fuel _)

theorem step_ne_fuel (dops : DOps α B) (hnf : DNoFuel dops) (de : DEnv α) (hdeps : SubTotal dops de de.deps)
    (hopps : SubTotalNoBat dops de de.opps) (s : DState α B) : Distrib.step dops de s ≠ .error .fuel :=
  step_ne_fuel_P dops hnf de _ hdeps hopps s (fun _ _ _ => trivial)

/-- no depot connector has a stationary battery (`self.gc_battery` has no entry, or an empty one, for every
connector whose stations are of type "deps") -/
def NoDepotBattery (ini : DInit α) : Prop :=
  ∀ gcId, sdGet ini.strategies gcId = some .deps → (sdGet ini.gcBattery gcId).getD [] = []

theorem depotBats_of_noDepotBattery (ini : DInit α) (h : NoDepotBattery ini) :
    DepotBats (B := B) (fun bs => bs = []) ini := by
  intro gcId w hk
  rw [h gcId hk]
  rfl

/-! ### bridges to the fuel statements of the two sub-strategy models -/

/-- `DNoFuel` gives the no-fuel predicate of the peak-shaving proofs (Proofs/StratPeakShaving.lean) … -/
theorem noFuelErr_of_dNoFuel (dops : DOps α B) (h : DNoFuel dops) : PeakShaving.NoFuelErr (psOps dops) :=
  fun b a1 a2 a3 => ⟨h.bat.load b a1 a2 a3, h.bat.unload b a1 a2 a3⟩

/-- … and the one of the peak-load-window proofs (Proofs/StratPeakLoadWindow.lean) -/
theorem opsNoFuel_of_dNoFuel (dops : DOps α B) (h : DNoFuel dops) : PeakLoadWindow.OpsNoFuel dops.bat :=
  ⟨h.bat.load, h.bat.unload⟩

/-- a `PeakShaving` object: `SubTotalNoBat` from a step-totality statement for worlds in which no stationary battery
hangs on a connector (the shape of `C17_peak_shaving_step_total_no_battery`) -/
theorem subTotalNoBat_of_ps (dops : DOps α B) (de : DEnv α) (sub : SubStrat α) (cfg0 : PSCfg)
    (hcfg : sub.ps = some cfg0)
    (h : ∀ (evs : List (PeakShaving.Ev α)) (w : SWorld α B), (∀ b ∈ w.batteries, ∀ g ∈ w.gcs, b.parent ≠ g.id) →
      PeakShaving.step (psOps dops) (psEnvOf sub cfg0 de.env.now) evs w ≠ .error .fuel) :
    SubTotalNoBat dops de sub := by
  refine ⟨fun cfg hc evs g sts vs bs hb => ?_, fun cfg hn hc => ?_⟩
  · rw [hcfg] at hc
    cases hc
    subst hb
    exact h evs _ (fun b hb => by cases hb)
  · rw [hcfg] at hn; cases hn

/-- a `PeakLoadWindow` object: `SubTotalP` from a step-totality statement for single-connector worlds -/
theorem subTotalP_of_plw (dops : DOps α B) (de : DEnv α) (sub : SubStrat α) (P : List (StatBatS α B) → Prop)
    (cfg0 : PLWCfg α) (hps : sub.ps = none) (hcfg : sub.plw = some cfg0)
    (h : ∀ (pg : PeakLoadWindow.PGc α) sts pvs bs, P bs →
      PeakLoadWindow.step dops.bat (plwEnvOf dops sub cfg0 de) ⟨[pg], sts, pvs, bs⟩ ≠ .error .fuel) :
    SubTotalP dops de sub P := by
  refine ⟨fun cfg hc => ?_, fun cfg hn hc pg sts pvs bs hb => ?_⟩
  · rw [hps] at hc; cases hc
  · rw [hcfg] at hc
    cases hc
    exact h pg sts pvs bs hb

end

/-! ### non-vacuity material -/

theorem toyDNoFuel (A : ℚ) : DNoFuel (toyDOps A) :=
  ⟨⟨fun _ _ _ _ => by simp [toyDOps, Distrib.toyOps], fun _ _ _ _ => by simp [toyDOps, Distrib.toyOps],
    fun _ => by simp [toyDOps, Distrib.toyOps]⟩, fun _ _ => by simp [toyDOps]⟩

/-- the toy operations with a `load` that answers `FUEL` -/
def fuelDOps : DOps ℚ ℚ :=
  { toyDOps 5 with bat := { Distrib.toyOps 5 with load := fun _ _ _ _ => .error .fuel } }

/-- the toy environment with a `PeakShaving` object (`fuel` passes per bisection) at the depots -/
def toyEnvPS (fuel : Nat) : DEnv ℚ :=
  { Distrib.toyEnv with deps := { Distrib.toyEnv.deps with ps := some ⟨3600000000, false, fuel⟩ } }

/-- the toy environment with a `PeakShaving` object at the opportunity stations -/
def toyEnvPSOpps (fuel : Nat) : DEnv ℚ :=
  { Distrib.toyEnv with opps := { Distrib.toyEnv.opps with ps := some ⟨3600000000, false, fuel⟩ } }

/-- the toy state with a stationary battery at the depot connector GC2 (handed to the depot's sub-strategy) -/
def toyStateBat : DState ℚ ℚ :=
  { toyState with
    world := { toyState.world with batteries := toyState.world.batteries ++ [⟨"BAT2", "GC2", 0, 1/2⟩] },
    init := { toyState.init with gcBattery := [("GC1", ["BAT"]), ("GC2", ["BAT2"])] } }

end SpiceEv.DistribTotal
