"""Step-level ties between the real strategy classes and their Lean models, usable by every run-level check.

`tie_for(full)` returns a context manager that wraps the real class's `step` for the duration of a
`scen.run_real(full)`: before every step the complete world state is rendered as one protocol line for the
model, the real step runs, and its commands / connector loads / station powers / SoCs are recorded.  The check
adds `lines` / `impl` to its own correspondence stream; `compare` dispatches on the tag in front of the
implementation line.  Strategies without a model get a null tie.
"""
import contextlib
import importlib

import engine
import keeps

engine.use_repo()

# strategy -> (module, tag); the module provides tie(full) -> context manager with .lines / .impl and compare()
MODELS = {"greedy": "tie_rule", "balanced": "tie_rule", "distributed": "s_distributed",
          "balanced_market": "s_balanced_market", "peak_load_window": "s_peak_load_window", "schedule": "s_schedule", "flex_window": "s_flex_window", "peak_shaving": "s_peak_shaving"}


class AdapterError(BaseException):
    """a failure of the rendering adapter inside a wrapped strategy step. Not an Exception: Scenario.run catches
    Exception around the step, and an adapter failure must never look like a failure of the strategy - it ends the
    evaluation as a harness crash (exit 2)."""


def _guard(mod):
    if getattr(mod, "_steptie_guarded", False):
        return
    for name in ("render_world", "render_result", "render_init", "render_init_result"):
        f = getattr(mod, name, None)
        if f is None:
            continue

        def safe(*a, _f=f, _n=name, **k):
            try:
                return _f(*a, **k)
            except Exception as e:
                import traceback
                raise AdapterError("%s.%s: %r\n%s" % (mod.__name__, _n, e, traceback.format_exc()[-1500:]))
        setattr(mod, name, safe)
    _keeps_hook(mod)
    mod._steptie_guarded = True


_ACTIVE = [None]      # module name of the tie of the run in progress (one run at a time per process)


def _keeps_hook(mod):
    """C07 (task c07keeps): every tie's result line is extended by the digest of the event-set connector attributes and
    of the pending queue after the concrete step (`keeps.digest`), followed by the digest before it — which is the model's
    answer: the strategy models keep this state (Properties/C07_Strategies.lean). `compare` below checks both parts."""
    rw, rr = getattr(mod, "render_world", None), getattr(mod, "render_result", None)
    if rw is None or rr is None:
        return

    def render_world(strat, *a, **k):
        line = rw(strat, *a, **k)
        if _ACTIVE[0] != mod.__name__:
            # a sub-strategy object rendered by another strategy's tie (distributed ties its sub-strategies through
            # their own modules): its world is a throw-away virtual world, not the run's state
            strat._keeps_before = None
            return line
        try:
            strat._keeps_before = keeps.digest(strat)
        except Exception as e:
            raise AdapterError("%s.keeps.digest: %r" % (mod.__name__, e))
        return line

    def render_result(strat, *a, **k):
        out = rr(strat, *a, **k)
        before = getattr(strat, "_keeps_before", None)
        if before is None:
            return out
        try:
            after = keeps.digest(strat)
        except Exception as e:
            raise AdapterError("%s.keeps.digest: %r" % (mod.__name__, e))
        strat._keeps_before = None
        return out + keeps.SEP + after + keeps.SEP0 + before
    mod.render_world, mod.render_result = render_world, render_result


class _Null:
    lines = ()
    impl = ()

    def __enter__(self):
        return self

    def __exit__(self, *a):
        return False


def tie_for(full, enabled=True):
    name = MODELS.get(full.get("strategy")) if enabled else None
    if not name:
        return _Null()
    mod = importlib.import_module(name)
    _guard(mod)
    # constructor tie (harness/s_init.py, Model/StratInit.lean): one `init_*` line per real run, entered after (=
    # wrapped around) whatever the strategy's own tie puts on `__init__`
    init_mod = importlib.import_module("s_init")
    _guard(init_mod)
    return _Both(_Tagged(mod.tie(full), name), _Tagged(init_mod.tie(full), "s_init"))


class _Both:
    """two ties around one run: `first` is entered first and left last"""
    def __init__(self, first, second):
        self.first, self.second = first, second

    def __enter__(self):
        self.first.__enter__()
        try:
            self.second.__enter__()
        except BaseException:
            self.first.__exit__(None, None, None)
            raise
        return self

    def __exit__(self, *a):
        try:
            self.second.__exit__(*a)
        finally:
            self.first.__exit__(*a)
        return False

    @property
    def lines(self):
        return self.second.lines + self.first.lines

    @property
    def impl(self):
        return self.second.impl + self.first.impl


class _Tagged:
    def __init__(self, inner, name):
        self.inner, self.name = inner, name

    def __enter__(self):
        _ACTIVE[0] = self.name
        box = self.inner.__enter__()
        self.box = box if box is not None else self.inner
        return self

    def __exit__(self, *a):
        _ACTIVE[0] = None
        return self.inner.__exit__(*a)

    def _get(self, key):
        b = self.box
        errs = b.get("errors") if isinstance(b, dict) else getattr(b, "errors", None)
        if errs:
            raise AdapterError("%s: %s" % (self.name, errs[:3]))
        return list(b[key]) if isinstance(b, dict) else list(getattr(b, key))

    @property
    def lines(self):
        return self._get("lines")

    @property
    def impl(self):
        return ["@%s %s" % (self.name, x) for x in self._get("impl")]


def run_with_tie(full, fn, enabled=True):
    """fn() performs the real run. Returns (result of fn, model request lines, tagged implementation lines).
    If the rendering adapter fails inside a wrapped step (the code's data no longer has the shape the model's input
    format expects - a change of representation in the code under test), the correspondence cannot be established:
    the run is repeated without the tie and ONE line pair is emitted that can never agree, so that leg C is broken
    and the check goes on to search for a failing input with its oracle (never a crash, never a silent pass)."""
    try:
        with tie_for(full, enabled) as tie:
            r = fn()
        if isinstance(r, dict) and r.get("timeout"):
            return r, [], []
        return r, tie.lines, tie.impl
    except AdapterError as e:
        r = fn()
        msg = str(e).split("\n")[0][:300].replace("|", "/")
        return r, ["tie_adapter_failed %s" % full.get("strategy")], ["@adapter " + msg]


def compare(impl, model):
    """(handled, difference) for a tagged implementation line"""
    if not impl.startswith("@"):
        return False, None
    name, _, rest = impl[1:].partition(" ")
    if name == "adapter":
        return True, "the step tie could not render the world for the model: " + rest
    mod = importlib.import_module(name)
    core, after, before = keeps.split(rest)
    d = mod.compare(None, core, model)
    if d is None and after is not None:
        d = keeps.diff(after, before)
    return True, d
