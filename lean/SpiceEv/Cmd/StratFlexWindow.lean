/- driver commands for Model/StratFlexWindow.lean (FlexWindow.step on the Float battery model) -/
import SpiceEv.Wire
import SpiceEv.Model.StratFlexWindow
import SpiceEv.Model.Battery
import SpiceEv.Cmd.Battery
import SpiceEv.Cmd.Strategies
namespace SpiceEv.Cmd.StratFlexWindow
open SpiceEv SpiceEv.FlexWindow SpiceEv.Cmd.Strategies

def pStrat : P LoadStrat := do
  let t ← P.tok
  if t == "g" then pure .greedy else if t == "n" then pure .needy
  else if t == "b" then pure .balanced else if t == "o" then pure .other else failure

def pAvg : P (Option (AvgTable Float)) :=
  P.opt (do
    let slots ← P.nat
    let es ← P.list (do let wd ← P.nat; let sl ← P.nat; let v ← P.num Float; pure (wd, sl, v))
    pure ⟨slots, es⟩)

def pEvent : P (FEvent Float) := do
  let start ← P.int
  let k ← P.tok
  if k == "G" then
    let mp ← P.opt (P.num Float); let w ← P.opt P.bool
    pure ⟨start, .gos mp w⟩
  else if k == "L" then
    let name ← P.tok; let v ← P.num Float
    pure ⟨start, .gen name v⟩
  else if k == "O" then pure ⟨start, .other⟩
  else failure

structure Req where
  env : FEnv Float
  window : Option Bool
  w : SWorld Float (Battery Float)
  events : List (FEvent Float)

/-- `<g|n|b|o> eps threshold tsPerHour now interval horizon utcOffset fuel <avg> <window>
<gcs> <stations> <vehicles> <batteries> <events>` -/
def pReq : P Req := do
  let strat ← pStrat
  let eps ← P.num Float; let thr ← P.num Float; let tsph ← P.num Float
  let now ← P.int; let interval ← P.int; let horizon ← P.int; let off ← P.int; let fuel ← P.nat
  let avg ← pAvg
  let window ← P.opt P.bool
  let gcs ← P.list pGc; let css ← P.list pCs; let vs ← P.list pVeh; let bs ← P.list pBat
  let evs ← P.list pEvent
  let base : StratEnv Float := ⟨eps, thr, tsph, now, interval⟩
  pure ⟨⟨base, horizon, off, strat, avg, BatNum.sum, fuel⟩, window, ⟨gcs, css, vs, bs⟩, evs⟩

def rErr (e : FErr) : String := "!" ++ e.name

def rWorld (w : SWorld Float (Battery Float)) : String :=
  " ; ".intercalate (w.gcs.map (fun g => g.id ++ " " ++ renderList rKV g.loads)) ++ " | " ++
  " ".intercalate (w.stations.map (fun s => rNum s.currentPower)) ++ " | " ++
  " ".intercalate (w.vehicles.map (fun v => rNum v.bat.soc)) ++ " | " ++
  " ".intercalate (w.batteries.map (fun b => rNum b.bat.soc))

def rTs (t : TS Float) : String :=
  toString t.idx ++ " " ++ rNum t.power ++ " " ++ rNum t.fixedLoad ++ " " ++ renderOpt renderBool t.window
    ++ " " ++ rNum t.vLoad ++ " " ++ rNum t.totalLoad

/-- `step_flex_window …` → `commands | loads per connector | station power | vehicle SoCs |
battery SoCs | gc.window` or the exception -/
def cmdStep : P String := do
  let r ← pReq
  let ops := floatOps (Cmd.Battery.hoursOfMicros r.env.base.interval)
  match FlexWindow.step ops r.env r.w r.window r.events with
  | .error e => pure (rErr e)
  | .ok (w, win, cmds) =>
    pure (renderList rKV cmds ++ " | " ++ rWorld w ++ " | " ++ renderOpt renderBool win)

/-- `fw_forecast …` (same request) → the list `timesteps` as built at the start of `step` -/
def cmdForecast : P String := do
  let r ← pReq
  match (do let gc ← theGc r.w; forecast r.env gc r.window r.events) with
  | .error e => pure (rErr e)
  | .ok ts => pure (renderList rTs ts)

def handlers : List (String × Handler) :=
  [("step_flex_window", runP cmdStep), ("fw_forecast", runP cmdForecast)]

end SpiceEv.Cmd.StratFlexWindow
