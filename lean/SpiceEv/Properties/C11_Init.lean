/-
C11 — signal-driven strategies: what their constructors derive (model: Model/StratInit.lean; tied to the real
constructors by the `init_*` line of harness/s_init.py in every real run of every run-level check, and by
`init_balanced_market` / `init_peak_shaving` of the strategies' own ties).

* schedule: an unknown `LOAD_STRAT` is rejected; `collective` needs exactly one connector and a core standing time;
* flex_window: exactly one connector; an unknown `LOAD_STRAT` is NOT rejected (the `else:` branch evaluates a string) —
  the object has no sort key and the first step that sorts raises;
* balanced_market (and peak_shaving): the signal shift `max(min(signal, start − HORIZON), scenario start)`: never before
  the scenario start, never after the event's own start for events that start inside the scenario, never later than it
  was unless clamped to the scenario start — so "not before it was signalled" (C07) never delays a price event;
* peak_load_window: all local events are announced at the scenario start at the latest; the event table holds every event
  exactly once, in start-time order, each in the bucket of the first step at or after its start; the table loop ends.
-/
import SpiceEv.Proofs.StratInit
import SpiceEv.Proofs.StratInitPeak
set_option linter.unusedSectionVars false
namespace SpiceEv
open SpiceEv.StratInit SpiceEv.PeakLoadWindow
variable {α : Type} [Field α] [LinearOrder α] [IsStrictOrderedRing α]

/-- **Schedule: an invalid LOAD_STRAT is rejected** with `AssertionError` (after `Strategy.__init__`, i.e. unless the
interval is zero). -/
theorem C11_init_schedule_rejects_unknown (c : BaseConsts α) (o : BaseOpts α) (start : DateTime) (interval : Int)
    (stations : List (String × α)) (ls : String) (it : Option Nat) (wc : Option Bool) (n : Nat) (core : Bool)
    (hi : interval ≠ 0) (hls : ls ≠ "collective" ∧ ls ≠ "individual") :
    scheduleInit c o start interval stations (some ls) it wc n core = .error .assertion := by
  unfold scheduleInit baseInit
  simp [hi, bind, Except.bind, pyassert, hls.1, hls.2]

/-- **Schedule: what is accepted.**  `individual` is accepted for any number of connectors; `collective` (also the
default when the option is missing) exactly when there is one connector and a core standing time. -/
theorem C11_init_schedule_accepts (c : BaseConsts α) (o : BaseOpts α) (start : DateTime) (interval : Int)
    (stations : List (String × α)) (it : Option Nat) (wc : Option Bool) (n : Nat) (core : Bool) (hi : interval ≠ 0) :
    (∃ s, scheduleInit c o start interval stations (some "individual") it wc n core = .ok s ∧
        s.loadStrat = "individual" ∧ s.base.usesSchedule = true) ∧
    ((∃ s, scheduleInit c o start interval stations (some "collective") it wc n core = .ok s) ↔ (n = 1 ∧ core = true)) ∧
    scheduleInit c o start interval stations none it wc n core =
      scheduleInit c o start interval stations (some "collective") it wc n core := by
  refine ⟨?_, ?_, rfl⟩
  · unfold scheduleInit baseInit
    simp [hi, bind, Except.bind, pyassert, pure, Except.pure]
  · unfold scheduleInit baseInit
    by_cases hn : n = 1 <;> cases core <;> simp [hi, hn, bind, Except.bind, pyassert, pure, Except.pure]

/-- **FlexWindow: an unknown LOAD_STRAT is not rejected.**  With one connector the constructor succeeds for ANY
sub-strategy name; for a name other than greedy / needy / balanced no sort key is installed (the real object then has no
`sort_key` attribute and `step` raises `AttributeError` at the first sort).  More or fewer than one connector is rejected. -/
theorem C11_init_flex_window_unknown_not_rejected (c : BaseConsts α) (o : BaseOpts α) (start : DateTime)
    (interval : Int) (stations : List (String × α)) (ls : String) (hz : Option α) (n : Nat) (hi : interval ≠ 0) :
    (n = 1 → ∃ s, flexWindowInit c o start interval stations (some ls) hz n = .ok s ∧ s.loadStrat = ls ∧
      (ls ≠ "greedy" → ls ≠ "needy" → ls ≠ "balanced" → s.sortKey = none) ∧
      (ls = "greedy" → s.sortKey = some .greedy) ∧ (ls = "needy" → s.sortKey = some .needy) ∧
      (ls = "balanced" → s.sortKey = some .balanced)) ∧
    (n ≠ 1 → flexWindowInit c o start interval stations (some ls) hz n = .error .assertion) := by
  constructor
  · intro hn
    unfold flexWindowInit baseInit
    simp only [hi, if_false, bind, Except.bind, pyassert, hn, beq_self_eq_true, if_true, pure, Except.pure,
      Option.getD_some]
    refine ⟨_, rfl, rfl, ?_, ?_, ?_, ?_⟩
    · intro h1 h2 h3; simp [h1, h2, h3]
    · intro h; simp [h]
    · intro h; subst h; simp
    · intro h; subst h; simp
  · intro hn
    unfold flexWindowInit baseInit
    simp [hi, bind, Except.bind, pyassert, hn]

/-- **Market signal shift.**  After `BalancedMarket.__init__` (the same expression moves every event of
`PeakShaving.__init__` with perfect foresight) an event's signal time (i) is never before the scenario start, (ii) is not
after the event's own start time when the event starts inside the scenario and HORIZON ≥ 0 — so the event takes effect at
the first step at or after its START (C07's "not before it was signalled" never delays it), (iii) is at most what it
was, unless it was before the scenario start and is clamped to it, (iv) is exactly HORIZON before the start when that lies
between the scenario start and the original signal time; and it is the function the step tie of balanced_market runs. -/
theorem C11_init_market_signal_shift (signal start horizon t0 : Int) :
    t0 ≤ horizonShift signal start horizon t0 ∧
    (0 ≤ horizon → t0 ≤ start → horizonShift signal start horizon t0 ≤ start) ∧
    horizonShift signal start horizon t0 ≤ max signal t0 ∧
    (t0 ≤ start - horizon → start - horizon ≤ signal → horizonShift signal start horizon t0 = start - horizon) ∧
    horizonShift signal start horizon t0 = BalancedMarket.initSignalTime signal start horizon t0 := by
  unfold horizonShift
  rw [pymax_int, pymin_int]
  refine ⟨by omega, fun _ _ => by omega, by omega, fun _ _ => by omega, ?_⟩
  unfold BalancedMarket.initSignalTime
  rw [pymax_int, pymin_int]

/-- **PeakLoadWindow: perfect foresight for local events.**  Every grid-operator signal, fixed-load and generation
event is announced at the scenario start at the latest and never later than it was; `changed` counts exactly the events
whose original signal time lay after the scenario start. -/
theorem C11_init_plw_signal_shift (t0 : Int) (evs : List (LEv α)) :
    (∀ s, shiftSignal t0 s ≤ t0 ∧ shiftSignal t0 s ≤ s ∧ (shiftSignal t0 s = s ∨ shiftSignal t0 s = t0)) ∧
    countChanged t0 evs = (evs.filter (fun e => decide (t0 < e.signal))).length := by
  constructor
  · intro s
    unfold shiftSignal
    rw [pymin_int]
    omega
  · unfold countChanged
    congr 1
    apply List.filter_congr
    intro e _
    unfold shiftSignal
    rw [pymin_int]
    simp only [decide_eq_decide]
    omega

/-- **PeakLoadWindow: one bucket of the event table.**  The inner loop splits the remaining (sorted) events into the
prefix that starts at or before the step time and the rest: nothing is lost or reordered, every event of the bucket
starts at or before the step time, and the first event left behind starts after it. -/
theorem C11_init_plw_table_bucket (cur : Int) (l : List (LEv α)) :
    (takeDue cur l).1 ++ (takeDue cur l).2 = l ∧
    (∀ e ∈ (takeDue cur l).1, e.start ≤ cur) ∧
    (∀ e, (takeDue cur l).2.head? = some e → cur < e.start) :=
  ⟨takeDue_append cur l, takeDue_due cur l, takeDue_rest_head cur l⟩

/-- **PeakLoadWindow: the event table as a whole.**  Let `sorted` be the start-sorted local events (`sortByKey`: ordered
by start time, a rearrangement of the input — Python's stable `sorted`).  When the table loop starts at `cur ≤ stop` (the
constructor starts it one interval before the scenario start) the table is: a first bucket with every event that starts
at or before the first step time `cur + interval` (everything dated before the scenario start lands there), then one
bucket per further step holding exactly the events with `step time − interval < start ≤ step time` — each event sits in the
bucket of the first step at or after its start (C07's rule, here for the look-ahead table); concatenated the buckets are a
prefix of `sorted` (nothing duplicated or reordered) and the events left out start after the end of the look-ahead. -/
theorem C11_init_plw_event_table (interval stop cur : Int) (fuel : Nat) (evs : List (LEv α))
    (t : List (List (LEv α))) (hc : cur ≤ stop)
    (h : buildTable interval stop fuel cur (sortByKey (fun (e : LEv α) => e.start) evs) = .ok t) :
    (sortByKey (fun (e : LEv α) => e.start) evs).Pairwise (fun a b => a.start ≤ b.start) ∧
    (sortByKey (fun (e : LEv α) => e.start) evs).Perm evs ∧
    ∃ b0 t', t = b0 :: t' ∧ (∀ e ∈ b0, e.start ≤ cur + interval) ∧ BucketsOK interval (cur + interval) t' ∧
      ∃ rest, t.flatten ++ rest = sortByKey (fun (e : LEv α) => e.start) evs ∧ ∀ e ∈ rest, stop < e.start := by
  obtain ⟨hs, hperm⟩ := sortByKey_spec (fun (e : LEv α) => e.start) evs
  exact ⟨hs, hperm, buildTable_spec interval stop fuel cur _ t h hc hs⟩

/-- **PeakLoadWindow: the table loop ends** within the fuel the model supplies (`tableFuel` = number of steps from one
interval before the start to the end of the look-ahead, plus one) for every positive interval — the `!FUEL` error of the
model is unreachable for the constructor. -/
theorem C11_init_plw_table_fuel_suffices (interval stop cur : Int) (evs : List (LEv α)) (hi : 0 < interval) :
    ∃ t, buildTable interval stop (tableFuel interval stop cur) cur evs = .ok t :=
  buildTable_fuel interval stop hi _ cur evs (fun _ => by unfold tableFuel; omega)

/-- **PeakLoadWindow: the initial peak power is the largest in-window sum of the historic loads.**  For connectors
with pairwise different ids, the `self.peak_power[gc]` the constructor derives from the event table is the maximum, started
at 0, over the timesteps of the table at which the connector is inside a peak-load window, of the sum of the connector's
loads at that timestep (`windowSums`: the loads dict after the events of the table up to that step; generation counts
negative): it is ≥ 0, no in-window sum exceeds it, and it is 0 or attained at an in-window step.  Steps outside windows do
not count; another connector's loads do not count. -/
theorem C11_init_plw_initial_peak (env : PEnv α) (gcs : List (PGc α))
    (hp : gcs.Pairwise (fun a b => a.gc.id ≠ b.gc.id)) (g : PGc α) (hg : g ∈ gcs)
    (table : List (List (Ev α))) (cur : DateTime) (loads : List (String × List (String × α)))
    (peaks' : List (String × α))
    (h : initPeaks env gcs table cur loads (gcs.map (fun g => (g.gc.id, (0 : α)))) = .ok peaks') :
    ∃ l, windowSums env g table cur loads = .ok l ∧ l.length = table.length ∧
      0 ≤ (sdGet peaks' g.gc.id).getD 0 ∧
      (∀ x ∈ l, x.1 = true → x.2 ≤ (sdGet peaks' g.gc.id).getD 0) ∧
      ((sdGet peaks' g.gc.id).getD 0 = 0 ∨ ∃ x ∈ l, x.1 = true ∧ (sdGet peaks' g.gc.id).getD 0 = x.2) := by
  obtain ⟨l, hl, hr⟩ := initPeaks_runMax env gcs hp g hg table cur loads _ peaks' h
  rw [sdGet_zero_map] at hr
  refine ⟨l, hl, ?_, ?_, ?_, ?_⟩
  · clear hr h
    induction table generalizing cur loads l with
    | nil => rw [windowSums] at hl; cases hl; rfl
    | cons evs rest ih =>
      rw [windowSums] at hl
      split at hl
      · cases hl
      · split at hl
        · cases hl
        · split at hl
          · cases hl
          · rename_i r hr'
            cases hl
            simp only [List.length_cons, Nat.add_right_cancel_iff]
            exact ih _ _ _ hr'
  · rw [hr]; exact runMax_ge l 0
  · rw [hr]; exact runMax_bound l 0
  · rw [hr]; exact runMax_attained l 0

/-- **PeakLoadWindow.__init__ as a whole: its stages, in the code's order.**  If the constructor succeeds, then
`Strategy.__init__` succeeded (station maxima, clock, options: `C05_init_*`) and `uses_window` is set; the option
`time_windows` was given; `self.time_windows` is the converted file for the scenario's year (`C15_init_*`); every connector
got the defaults; the scenario's own grid signals carry the shifted signal times and `changed` counts the moved local
events; the look-ahead end is the stop time extended over the vehicle events; `self.events` is the table built from the
start-sorted, shifted local events starting one interval before the scenario start (`C11_init_plw_event_table`); and
`self.peak_power` is `initPeaks` of that table over the connectors' initial loads, all peaks starting at 0
(`C11_init_plw_initial_peak`).  Conversely each stage's error is the constructor's error (the model is the `do` chain). -/
theorem C11_init_plw_constructor_stages {β : Type} [Add β] [Sub β] [Mul β] [Div β] [Neg β] [LT β] [LE β]
    [DecidableLT β] [DecidableLE β] [OfNat β 0] [OfNat β 1] [NatCast β] [IntCast β]
    (c : BaseConsts β) (o : BaseOpts β) (stations : List (String × β)) (inp : PlwIn β)
    (s : PlwState β) (h : plwInit c o stations inp = .ok s) :
    ∃ base file,
      baseInit c o inp.start inp.interval stations = .ok base ∧ inp.file = some file ∧
      s.base = { base with usesWindow := true } ∧
      convertFile (ordToYear inp.start.date) file = .ok s.windows ∧
      s.gcs = inp.gcs.map (gcDefaults ((file.getLast?).map (·.1))) ∧
      s.signalTimes = inp.signals.map (fun e => shiftSignal inp.start.instant e.signal) ∧
      s.changed = countChanged inp.start.instant (localEvents inp) ∧
      extendStop inp.stop inp.vehicleEvents = .ok s.stop ∧
      buildTable inp.interval s.stop (tableFuel inp.interval s.stop (inp.start.instant - inp.interval))
        (inp.start.instant - inp.interval) (sortedEvents inp) = .ok s.table ∧
      initPeaks ⟨s.base.eps, s.base.tsPerHour, inp.start, inp.interval, inp.start.instant, inp.stop,
          seasonsOf s.windows, [], inp.sum, 0⟩
        (s.gcs.map (fun g => { gc := ⟨g.id, 0, none, g.loads⟩, operator := g.operator.getD "~None", level := g.level,
                               window := none, peak := 0 }))
        (s.table.map (fun b => b.map (·.ev))) inp.start
        (s.gcs.map (fun g => (g.id, g.loads))) (s.gcs.map (fun g => (g.id, (0 : β)))) = .ok s.peaks :=
  plwInit_ok h

/-- **PeakLoadWindow.__init__: the look-ahead and the event table of the constructed object.**  If the constructor
succeeds and the scenario does not end before it starts (`start − interval ≤ stop_time`), then the look-ahead end is at
least the scenario's stop time, every announced departure of an arrival event and every departure event; and
`self.events` is: a first bucket (the step AT the scenario start) with every local event that starts at or before the
scenario start, then one bucket per step with exactly the events of that step's interval; nothing duplicated, reordered
or dropped up to the look-ahead end. -/
theorem C11_init_plw_constructor_table {β : Type} [Add β] [Sub β] [Mul β] [Div β] [Neg β] [LT β] [LE β]
    [DecidableLT β] [DecidableLE β] [OfNat β 0] [OfNat β 1] [NatCast β] [IntCast β]
    (c : BaseConsts β) (o : BaseOpts β) (stations : List (String × β)) (inp : PlwIn β)
    (s : PlwState β) (h : plwInit c o stations inp = .ok s)
    (hstop : inp.start.instant - inp.interval ≤ inp.stop) :
    inp.stop ≤ s.stop ∧ (∀ etd, VEv.arrival (some etd) ∈ inp.vehicleEvents → etd ≤ s.stop) ∧
    (∀ d, VEv.departure d ∈ inp.vehicleEvents → d ≤ s.stop) ∧
    ∃ b0 t', s.table = b0 :: t' ∧ (∀ e ∈ b0, e.start ≤ inp.start.instant) ∧
      BucketsOK inp.interval inp.start.instant t' ∧
      ∃ rest, s.table.flatten ++ rest = sortedEvents inp ∧ ∀ e ∈ rest, s.stop < e.start := by
  obtain ⟨base, file, _, _, _, _, _, _, _, hs, ht, _⟩ := plwInit_ok h
  obtain ⟨g1, g2, g3⟩ := extendStop_ge _ _ _ hs
  refine ⟨g1, g2, g3, ?_⟩
  obtain ⟨hsorted, _⟩ := sortByKey_spec (fun (e : LEv β) => e.start)
    ((localEvents inp).map (fun e => { e with signal := shiftSignal inp.start.instant e.signal }))
  have := buildTable_spec inp.interval s.stop _ (inp.start.instant - inp.interval) (sortedEvents inp) s.table ht
    (by omega) hsorted
  rw [Int.sub_add_cancel] at this
  exact this

/-- **BalancedMarket.__init__ as a whole.**  If the constructor succeeds, `Strategy.__init__` succeeded and its state
is kept; every grid-operator signal of the scenario has the shifted signal time `max(min(signal, start − HORIZON),
scenario start)`: none is announced before the scenario start, none after its own start time when it starts inside the
scenario and HORIZON ≥ 0, none later than before unless clamped; `changed` counts the signals announced earlier than
before; without the option the horizon is 24 h. -/
theorem C11_init_market_constructor {β : Type} [Add β] [Sub β] [Mul β] [Div β] [Neg β] [LT β] [LE β]
    [DecidableLT β] [DecidableLE β] [OfNat β 0] [OfNat β 1] [NatCast β] [IntCast β]
    (c : BaseConsts β) (o : BaseOpts β) (start : DateTime) (interval : Int) (stations : List (String × β))
    (horizon : Option β) (horizonUs : Option Int) (signals : List (Int × Int)) (s : MarketState β)
    (h : marketInit c o start interval stations horizon horizonUs signals = .ok s) :
    baseInit c o start interval stations = .ok s.base ∧
    s.signalTimes = signals.map (fun e => horizonShift e.1 e.2 (horizonUs.getD (24 * usPerHour)) start.instant) ∧
    (∀ t ∈ s.signalTimes, start.instant ≤ t) ∧
    (0 ≤ horizonUs.getD (24 * usPerHour) → List.Forall₂ (fun (e : Int × Int) t => start.instant ≤ e.2 → t ≤ e.2)
      signals s.signalTimes) ∧
    List.Forall₂ (fun (e : Int × Int) t => t ≤ max e.1 start.instant) signals s.signalTimes ∧
    s.changed = (signals.filter (fun e =>
      decide (horizonShift e.1 e.2 (horizonUs.getD (24 * usPerHour)) start.instant < e.1))).length := by
  unfold marketInit at h
  cases hb : baseInit c o start interval stations with
  | error e => simp [hb, bind, Except.bind] at h
  | ok base =>
    simp only [hb, bind, Except.bind, pure, Except.pure, Except.ok.injEq] at h
    subst h
    refine ⟨rfl, rfl, ?_, ?_, ?_, rfl⟩
    · intro t ht
      simp only [List.mem_map] at ht
      obtain ⟨e, _, rfl⟩ := ht
      exact (horizonShift_bounds e.1 e.2 _ _).1
    · intro hz
      simp only
      induction signals with
      | nil => exact .nil
      | cons e rest ih =>
        exact .cons (fun h0 => (horizonShift_bounds e.1 e.2 _ _).2.1 hz h0) ih
    · simp only
      induction signals with
      | nil => exact .nil
      | cons e rest ih => exact .cons (horizonShift_bounds e.1 e.2 _ _).2.2 ih

/-- **PeakShaving.__init__ as a whole.**  If the constructor succeeds, `Strategy.__init__` succeeded and its state is
kept; `self.HORIZON` is the option (default 24 h) as a timedelta; with `perfect_foresight` (the default) `self.events` is
`PeakShaving.initEvents` of the four event groups — every event's signal time moved by the same expression as in
balanced_market (`C11_init_market_signal_shift`), stably sorted by start time — and `changed` its counter; without it the
events are left alone. -/
theorem C11_init_peak_shaving_constructor {β : Type} [Add β] [Sub β] [Mul β] [Div β] [Neg β] [LT β] [LE β]
    [DecidableLT β] [DecidableLE β] [OfNat β 0] [OfNat β 1] [NatCast β] [IntCast β]
    (c : BaseConsts β) (o : BaseOpts β) (start : DateTime) (interval : Int) (stations : List (String × β))
    (horizonUs : Option Int) (pf : Option Bool) (t0 : Int) (ves sigs : List (PeakShaving.Signalled β))
    (loads gens : List (List (PeakShaving.Signalled β))) (s : ShavingState β)
    (h : peakShavingInit c o start interval stations horizonUs pf t0 ves sigs loads gens = .ok s) :
    baseInit c o start interval stations = .ok s.base ∧ s.horizonUs = horizonUs.getD (24 * usPerHour) ∧
    s.perfectForesight = pf.getD true ∧
    (pf.getD true = true →
      s.events = some (PeakShaving.initEvents s.horizonUs t0 ves sigs loads gens).1 ∧
      s.changed = (PeakShaving.initEvents s.horizonUs t0 ves sigs loads gens).2) ∧
    (pf.getD true = false → s.events = none ∧ s.changed = 0) := by
  unfold peakShavingInit at h
  cases hb : baseInit c o start interval stations with
  | error e => simp [hb, bind, Except.bind] at h
  | ok base =>
    simp only [hb, bind, Except.bind] at h
    cases hp : pf.getD true with
    | true =>
      simp only [hp, if_true, pure, Except.pure, Except.ok.injEq] at h
      subst h
      exact ⟨rfl, rfl, rfl, fun _ => ⟨rfl, rfl⟩, fun hf => (by cases hf)⟩
    | false =>
      simp only [hp, Bool.false_eq_true, if_false, pure, Except.pure, Except.ok.injEq] at h
      subst h
      exact ⟨rfl, rfl, rfl, fun hf => (by cases hf), fun _ => ⟨rfl, rfl⟩⟩

/-- **PeakShaving: every event the strategy sees is announced no earlier than the scenario start and no later than its
own start.**  For every event of `self.events` (perfect foresight): it is an event of the scenario (same content) whose
signal time is `max(min(signal, start − HORIZON), scenario start)`: ≥ the scenario start, and ≤ the event's start time
when HORIZON ≥ 0 and the event starts inside the scenario. -/
theorem C11_init_peak_shaving_signals {β : Type} (horizon t0 : Int) (ves sigs : List (PeakShaving.Signalled β))
    (loads gens : List (List (PeakShaving.Signalled β))) :
    ∀ e ∈ (PeakShaving.initEvents horizon t0 ves sigs loads gens).1,
      (∃ e0 ∈ ves ++ sigs ++ loads.flatten ++ gens.flatten, e.ev = e0.ev ∧
        e.signal = horizonShift e0.signal e0.ev.start horizon t0) ∧
      t0 ≤ e.signal ∧ (0 ≤ horizon → t0 ≤ e.ev.start → e.signal ≤ e.ev.start) := by
  intro e he
  obtain ⟨e0, h0, hev, hs⟩ := ps_initEvents_mem horizon t0 ves sigs loads gens e he
  have hb := horizonShift_bounds e0.signal e0.ev.start horizon t0
  refine ⟨⟨e0, h0, hev, hs⟩, by rw [hs]; exact hb.1, fun hh ht => ?_⟩
  rw [hs, hev]
  exact hb.2.1 hh (by rw [← hev]; exact ht)

/-! ### non-vacuity -/

example : (scheduleInit (α := Rat) ⟨1/10, 1/100000⟩ {} (DateTime.ofParts 737425 0 (some 0)) 900000000 []
    (some "balanced") none none 1 true).toOption.isNone = true := by decide +kernel

example : ((scheduleInit (α := Rat) ⟨1/10, 1/100000⟩ {} (DateTime.ofParts 737425 0 (some 0)) 900000000 []
    none none none 1 true).toOption.map (·.loadStrat)) = some "collective" := by decide +kernel

example : (scheduleInit (α := Rat) ⟨1/10, 1/100000⟩ {} (DateTime.ofParts 737425 0 (some 0)) 900000000 []
    none none none 2 true).toOption.isNone = true := by decide +kernel

example : ((flexWindowInit (α := Rat) ⟨1/10, 1/100000⟩ {} (DateTime.ofParts 737425 0 (some 0)) 900000000 []
    (some "fair") none 1).toOption.map (·.sortKey)) = some none := by decide +kernel

example : ((flexWindowInit (α := Rat) ⟨1/10, 1/100000⟩ {} (DateTime.ofParts 737425 0 (some 0)) 900000000 []
    (some "needy") none 1).toOption.map (·.sortKey)) = some (some .needy) := by decide +kernel

/-- an event starting 2 h after the scenario start, signalled 1 h after it, HORIZON 24 h: announced at the scenario
start; HORIZON 30 min: announced 30 min before its start; an event before the scenario start: clamped to the start -/
example : horizonShift 3600 7200 86400 0 = 0 ∧ horizonShift 7000 7200 1800 0 = 5400 ∧ horizonShift (-50) (-10) 1800 0 = 0 := by
  decide

example : shiftSignal 100 250 = 100 ∧ shiftSignal 100 40 = 40 ∧
    countChanged (α := Rat) 100 [⟨250, 300, .load "g" "l" 1⟩, ⟨40, 300, .load "g" "l" 2⟩, ⟨100, 100, .signal "g" none⟩] = 1 := by
  decide +kernel

/-- three events at 0, 15, 40 with steps at 0, 15, 30, 45 (stop 40): buckets [e0] [e15] [] [e40] -/
example :
    ((buildTable (α := Rat) 15 40 (tableFuel 15 40 (-15)) (-15)
      [⟨0, 0, .load "g" "a" 1⟩, ⟨0, 15, .load "g" "a" 2⟩, ⟨0, 40, .load "g" "a" 3⟩]).toOption.map
        (fun t => t.map (fun b => b.map (·.start)))) = some [[0], [15], [], [40]] := by
  decide +kernel

/-- two steps (00:00 outside, 08:30 inside the window 08:15–09:30): loads 5 then 3 + generation 1 → in-window sum 2; a
second connector with load 9 inside its window -/
example :
    let env : PEnv Rat := ⟨0, 1, DateTime.ofParts 737425 0 (some 0), 30600000000, 0, 0,
      [("op", [{ start := 737425, stop := 737790, windows := some [("MV", [(29700000000, 34200000000)])] }])], [], List.sum, 0⟩
    let gcs : List (PGc Rat) := [⟨⟨"g1", 0, none, []⟩, "op", some "MV", none, 0⟩, ⟨⟨"g2", 0, none, []⟩, "op", some "MV", none, 0⟩]
    initPeaks env gcs [[.load "g1" "a" 5], [.load "g1" "a" 3, .gen "g1" "pv" 1, .load "g2" "b" 9]]
      (DateTime.ofParts 737425 0 (some 0)) [("g1", []), ("g2", [])] [("g1", 0), ("g2", 0)] = .ok [("g1", 2), ("g2", 9)] := by
  decide +kernel

/-- the whole constructor on ℚ: a 2020 file read for 2021, one connector without level, a load series of 5 kW at 08:00 and
3 kW at 08:30 (window 08:15–09:30), interval 30 min, run 08:00–09:00: the table has four buckets, the peak is 3 -/
example :
    ((plwInit (α := Rat) ⟨1/10, 1/100000⟩ {} [("cs", 11)]
      { start := DateTime.ofParts (ymdToOrd 2021 1 15) 28800000000 (some 0), interval := 1800000000,
        stop := (ymdToOrd 2021 1 15) * usPerDay + 32400000000, file := some exFile2020,
        gcs := [⟨"g", none, some "op", []⟩], signals := [],
        loadLists := [[⟨(ymdToOrd 2021 1 15) * usPerDay + 28800000000, (ymdToOrd 2021 1 15) * usPerDay + 28800000000, .load "g" "l" 5⟩,
                       ⟨(ymdToOrd 2021 1 15) * usPerDay + 30600000000, (ymdToOrd 2021 1 15) * usPerDay + 30600000000, .load "g" "l" 3⟩]],
        genLists := [], vehicleEvents := [], sum := List.sum }).toOption.map
      (fun s => (s.peaks, s.table.map List.length, s.changed, s.gcs.map (·.level)))) =
    some ([("g", 3)], [1, 1, 0, 0], 1, [some "MV"]) := by
  decide +kernel

example : ((marketInit (α := Rat) ⟨1/10, 1/100000⟩ {} (DateTime.ofParts 737425 0 (some 0)) 900000000 []
    (some (1/2)) (some 1800000000) [(63713520000000000 + 3600000000, 63713520000000000 + 7200000000),
      (63713520000000000 - 5, 63713520000000000 + 100)]).toOption.map (fun s => (s.signalTimes, s.changed))) =
    some ([63713520000000000 + 3600000000, 63713520000000000], 0) := by decide +kernel

example : ((peakShavingInit (α := Rat) ⟨1/10, 1/100000⟩ {} (DateTime.ofParts 737425 0 (some 0)) 900000000 []
    (some 3600000000) none 1000 [⟨5000, .departure 9000000000 "v"⟩] [⟨2000, .signal 800 "g" none⟩] [] []).toOption.map
      (fun s => (s.changed, s.perfectForesight, (s.events.getD []).map (·.signal)))) = some (1, true, [1000, 5000]) := by
  decide +kernel

end SpiceEv
