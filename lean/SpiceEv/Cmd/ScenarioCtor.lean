/- driver commands for Model/ScenarioCtor.lean -/
import SpiceEv.Wire
import SpiceEv.Model.ScenarioCtor
namespace SpiceEv.Cmd.ScenarioCtor
open SpiceEv SpiceEv.ScenarioCtor

def rErr (e : Err) : String := "!" ++ e.name

/-- string tokens carry a leading `"` (so that the empty string is a token) -/
def pStr : P String := do
  let t ← P.tok
  if t.startsWith "\"" then pure (t.drop 1).toString else failure

instance : Inhabited (P J) := ⟨failure⟩

/-- JSON value, prefix notation: `n` | `t` | `f` | `i <int>` | `r <rat>` | `s "<text>` |
`d <0|1> "<text>` | `a <k> v…` | `o <k> ("<key> v)…` -/
partial def pJ : P J := do
  let t ← P.tok
  match t with
  | "n" => pure .null
  | "t" => pure (.bool true)
  | "f" => pure (.bool false)
  | "i" => do let i ← P.int; pure (.int i)
  | "r" => do let q ← P.num Rat; pure (.flt q)
  | "s" => do let s ← pStr; pure (.str s)
  | "d" => do let v ← P.bool; let s ← pStr; pure (.dstr s v)
  | "a" => do let n ← P.nat; let xs ← P.rep n pJ; pure (.arr xs)
  | "o" => do
    let n ← P.nat
    let kvs ← P.rep n (do let k ← pStr; let v ← pJ; pure (k, v))
    pure (.obj kvs)
  | _ => failure

def pKey : P Key := do
  let t ← P.tok
  if t == "A" then pure none else if t == "P" then (some <$> pJ) else failure

def pDt : P DateTime := do
  let l ← P.int
  let off ← P.opt P.int
  pure ⟨l, off⟩

def rDt (d : DateTime) : String := s!"{d.local} " ++ renderOpt (fun (i : Int) => toString i) d.offset

/-- `ctor_time hasScenario start startParsed interval n stop stopParsed` →
    `start interval n stop steps` -/
def cmdTime : P String := do
  let hs ← P.bool
  let st ← pKey; let sp ← pDt
  let iv ← pKey
  let n ← pKey
  let e ← pKey; let ep ← pDt
  match timeInit ⟨hs, st, sp, iv, n, e, ep⟩ with
  | .error err => pure (rErr err)
  | .ok o => pure (s!"{rDt o.start} {o.interval} {o.n} {rDt o.stop} {rangeLen o.n}")

/-- `ctor_legacy hasComponents hasConstants <events: k (key val)…> <gc ids> <fixed-load gcs>` -/
def cmdLegacy : P String := do
  let hc ← P.bool; let hk ← P.bool
  let ev ← P.list (do let k ← P.tok; let v ← P.tok; pure (k, v))
  let gcs ← P.list P.tok
  let fl ← P.list P.tok
  let ev' := renameEvents ev
  let a := match avgLoadLookup gcs fl with | .ok _ => "ok" | .error e => rErr e
  pure (s!"{pickComponents hc hk} ; " ++ renderList (fun (kv : String × String) => kv.1 ++ " " ++ kv.2) ev'
    ++ " ; " ++ a)

section
variable {α : Type} [Add α] [Sub α] [Mul α] [Div α] [LT α] [DecidableLT α] [OfNat α 0] [NatCast α]
  [Wire α]

def pVObs : P (VObs α) := do
  let st ← P.opt P.tok; let d ← P.bool; let s ← P.num α
  pure ⟨st, d, s⟩

def rCol (c : Col α) : String :=
  renderList (renderOpt (fun (x : α) => Wire.render x)) c.socs ++ " ; " ++
  renderList (renderOpt (fun (x : α) => Wire.render x)) c.dis ++ " ; " ++
  renderList (renderOpt (fun (s : String) => s)) c.conn ++ " ; " ++
  renderOpt (fun (d : Nat × α) => s!"{d.1} " ++ Wire.render d.2) c.departed

/-- `backfill T <vehicles: k (steps: n (station departed soc)…)…>` → per vehicle
    `socs ; disconnect ; connected ; departed entry`, separated by ` | ` -/
def cmdBackfill : P String := do
  let obs ← P.list (P.list (pVObs (α := α)))
  match backfill obs with
  | .error e => pure (renderErr e)
  | .ok cols => pure (" | ".intercalate (cols.map rCol))
end

def cmdClass : P String := do
  let s ← pStr
  match classFromStr s with
  | .ok c => pure ("ok " ++ c)
  | .error e => pure (rErr e)

def rAVal : AVal → String
  | .tok s => s
  | .num q => "q" ++ Wire.render q
  | .int i => s!"i{i}"
  | .bool b => "b" ++ renderBool b
  | .none => "N"
  | .empty => "E"
  | .world => "W"

def pKV : P (String × String) := do let k ← P.tok; let v ← P.tok; pure (k, v)

/-- `strat_init startLocal <opt interval µs> <opt CONCURRENCY> <options> <station powers>` -/
def cmdStratInit : P String := do
  let sl ← P.int
  let iv ← P.opt P.int
  let c ← P.opt (P.num Rat)
  let opts ← P.list pKV
  let st ← P.list (P.num Rat)
  match strategyInit sl iv c opts st with
  | .error e => pure (rErr e)
  | .ok r => pure (renderList (fun (kv : String × AVal) => kv.1 ++ " " ++ rAVal kv.2) r.attrs ++ " ; " ++
      renderList (fun (q : Rat) => Wire.render q) r.stationPower)

/-- `run_options <options> events interval stop n cst` -/
def cmdRunOptions : P String := do
  let opts ← P.list pKV
  let e ← P.tok; let i ← P.tok; let s ← P.tok; let n ← P.tok; let c ← P.tok
  pure (renderList (fun (kv : String × String) => kv.1 ++ " " ++ kv.2) (runOptions opts e i s n c))

partial def rJ : J → String
  | .null => "n"
  | .bool b => if b then "t" else "f"
  | .int i => s!"i{i}"
  | .flt q => "r" ++ Wire.render q
  | .str s => "\"" ++ s
  | .dstr s _ => "\"" ++ s
  | .arr xs => "[" ++ ",".intercalate (xs.map rJ) ++ "]"
  | .obj kvs => "{" ++ ",".intercalate (kvs.map (fun kv => "\"" ++ kv.1 ++ ":" ++ rJ kv.2)) ++ "}"

def rCurve (c : Curve Rat) : String :=
  "C" ++ ";".intercalate (c.points.map (fun p => Wire.render p.1 ++ "," ++ Wire.render p.2)) ++
    ":" ++ Wire.render c.maxPower

partial def rVal : Val → String
  | .none => "N"
  | .num q => "q" ++ Wire.render q
  | .int i => s!"i{i}"
  | .bool b => "b" ++ renderBool b
  | .str s => "\"" ++ s
  | .opaque => "?"
  | .json j => "J" ++ rJ j
  | .curve c => rCurve c
  | .vtype n => "T\"" ++ n
  | .date => "@"
  | .battery c s e l lc uc =>
    "B(" ++ Wire.render c ++ "|" ++ Wire.render s ++ "|" ++ Wire.render e ++ "|" ++ rVal l ++ "|" ++
      rCurve lc ++ "|" ++ rCurve uc ++ ")"

def rAttrs (o : Attrs) : String :=
  renderList (fun (kv : String × Val) => kv.1 ++ " " ++ rVal kv.2) o

def rSection (s : List (String × Attrs)) : String :=
  renderList (fun (kv : String × Attrs) => "\"" ++ kv.1 ++ " " ++ rAttrs kv.2) s

/-- `components <J>` → the six sections, ` ; `-separated -/
def cmdComponents : P String := do
  let j ← pJ
  match componentsInit j with
  | .error e => pure (rErr e)
  | .ok c => pure (" ; ".intercalate
      [rSection c.gridConnectors, rSection c.chargingStations, rSection c.vehicleTypes,
       rSection c.vehicles, rSection c.batteries, rSection c.photovoltaics])

/-- `simulate_options <input state 0..3> <J: the other args>` → `name k (key value)…` -/
def cmdSimulateOptions : P String := do
  let st ← P.nat
  let j ← pJ
  let input : InputState := match st with | 0 => .absent | 1 => .notPath | 2 => .missing | _ => .present
  let args := match j with | .obj kvs => kvs | _ => []
  match simulateOptions input args with
  | .error e => pure (rErr e)
  | .ok (name, opts) =>
    pure (name ++ " " ++ renderList (fun (kv : String × J) => kv.1 ++ " " ++ rJ kv.2) opts)

/-- `sanitize <code points of s> <code points of chars>` → code points of the result -/
def cmdSanitize : P String := do
  let s ← P.list P.nat
  let c ← P.list P.nat
  let r := sanitize (s.map Char.ofNat) (c.map Char.ofNat)
  pure (renderList (fun (ch : Char) => toString ch.toNat) r)

/-- `cfg_line <check 0|1> <code points of the line> <N | S J>` → `skip` | `set "<key> <value>` -/
def cmdCfgLine : P String := do
  let chk ← P.bool
  let line ← P.list P.nat
  let parsed ← P.opt pJ
  match cfgLine (if chk then some simulateActions else none) (line.map Char.ofNat) parsed with
  | .error e => pure (rErr e)
  | .ok none => pure "skip"
  | .ok (some (k, v)) =>
    pure ("set " ++ renderList (fun (c : Char) => toString c.toNat) k.toList ++ " " ++ rJ v)

instance : NatCast Float := ⟨Float.ofNat⟩

def handlers : List (String × Handler) :=
  [("ctor_time", runP cmdTime),
   ("ctor_legacy", runP cmdLegacy),
   ("backfill", byNumType (cmdBackfill (α := Rat)) (cmdBackfill (α := Float))),
   ("class_from_str", runP cmdClass),
   ("strat_init", runP cmdStratInit),
   ("run_options", runP cmdRunOptions),
   ("components", runP cmdComponents),
   ("simulate_options", runP cmdSimulateOptions),
   ("sanitize", runP cmdSanitize),
   ("cfg_line", runP cmdCfgLine)]

end SpiceEv.Cmd.ScenarioCtor
