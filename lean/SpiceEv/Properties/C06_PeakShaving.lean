/-
C06 (reported powers and SoCs balance) for the charging strategy `peak_shaving`
(Model/StratPeakShaving.lean, tied to spice_ev/strategies/peak_shaving.py bit for bit by harness/s_peak_shaving.py).

What C06 says about a strategy step: whatever the step changes in a vehicle or stationary battery is the effect of a
battery call, and the average power of exactly that call is what the connector (and the station's command) reports.
The per-call energy identity `ΔSoC · capacity = avg_power · Δt · efficiency` is C01's theorem about the battery.
-/
import SpiceEv.Proofs.StratPeakShaving
set_option linter.unusedSectionVars false
set_option linter.unusedVariables false
namespace SpiceEv
open PeakShaving
variable {α B : Type} [Field α] [LinearOrder α] [IsStrictOrderedRing α]

/-- **`step_gc` is a sequence of booked battery operations and nothing else.**
For every input on which `PeakShaving.step_gc` returns: the world after it arises from the world before it by
(1) booked vehicle charges — each is ONE `battery.load(target_power = schedule or the surplus offer)` on a vehicle of the
world (a planned vehicle standing now with a positive schedule), whose average power is added to the connector's
loads under the station's key and returned as the station's command — followed by (2) booked stationary-battery
operations — each is ONE `load`/`unload` on a battery of this connector whose signed average power is added under
the battery's id.  All look-ahead simulations (copies of vehicles, trial runs on the stationary battery during the
two bisections) leave no trace: SoCs, station state, other connectors and the commands of other stations are
exactly as before. -/
theorem C06_peak_shaving_step_is_booked (ops : PeakShaving.Ops α B) (env : PeakShaving.Env α)
    (events : List (PeakShaving.Ev α)) (w w' : SWorld α B) (gc : GcS α) (cmds : List (String × α)) (fc : List α)
    (h : PeakShaving.stepGc ops env events w gc = .ok (w', cmds, fc)) :
    ∃ acc1 acc2,
      Relation.ReflTransGen (VehStep ops (fun _ => True)) ⟨w, gc, []⟩ acc1 ∧
      Relation.ReflTransGen (BatBooked ops w gc.id) acc1 acc2 ∧
      w' = acc2.world.setGc acc2.gc ∧ cmds = acc2.cmds := by
  obtain ⟨nAhead, arr, ts0, ts, vehicles, acc1, acc2, _, _, _, hap, hbat, hw, hc⟩ :=
    stepGc_shape ops env events w w' gc cmds fc h
  rcases applyPass_trace ops w gc ts vehicles acc1 hap with ⟨_, rfl⟩ | ⟨t0, _, htr⟩
  · exact ⟨_, acc2, Relation.ReflTransGen.refl, hbat, hw, hc⟩
  · exact ⟨acc1, acc2, vehTrace_weaken ops _ _ (fun _ _ => trivial) _ _ htr, hbat, hw, hc⟩

/-- **A booked vehicle charge balances:** the connector's load grows by exactly the average power the battery call
returned, that power is non-negative (a vehicle is never discharged by this strategy) and at most the requested
power; limit, stations, stationary batteries and connectors of the world are untouched. -/
theorem C06_peak_shaving_vehicle_booking (ops : PeakShaving.Ops α B) (law : BatLaw ops.bat) (a a' : Acc α B)
    (csId : String) (p avg : α) (h : VehBooked ops a a' csId p avg) :
    a'.gc.currentLoad = a.gc.currentLoad + avg ∧ 0 ≤ avg ∧ avg ≤ max p 0 ∧
      a'.gc.curMax = a.gc.curMax ∧ a'.gc.id = a.gc.id ∧ a'.world.stations = a.world.stations ∧
      a'.world.batteries = a.world.batteries ∧ a'.world.gcs = a.world.gcs := by
  obtain ⟨vid, v, bat', _, hl, rfl⟩ := h
  obtain ⟨h0, h1⟩ := law.load_target _ _ _ _ hl
  obtain ⟨hcl, hcm, hid, _⟩ := addLoad_currentLoad a.gc csId avg
  exact ⟨hcl, h0, h1, hcm, hid, rfl, rfl, rfl⟩

/-- **A booked stationary-battery operation balances:** it is one `load(target_power = cur)` (`cur ≥ 0`, booked
power = its average power) or one `unload(target_power = −cur)` (`cur < 0`, booked power = minus its average power);
the connector's load changes by exactly the booked power; vehicles, stations and commands are untouched. -/
theorem C06_peak_shaving_battery_booking (ops : PeakShaving.Ops α B) (w : SWorld α B) (gcId : String)
    (a a' : Acc α B) (h : BatBooked ops w gcId a a') :
    ∃ b bat' cur p, a.world.batteries.find? (·.id == b.id) = some b ∧
      ((0 ≤ cur ∧ ops.bat.load b.bat none none (some cur) = .ok (bat', p)) ∨
       (cur < 0 ∧ ∃ avg, ops.bat.unload b.bat none none (some (-cur)) = .ok (bat', avg) ∧ p = -avg)) ∧
      a'.gc.currentLoad = a.gc.currentLoad + p ∧
      a'.world.batteries = a.world.batteries.map (fun x => if x.id == b.id then { b with bat := bat' } else x) ∧
      a'.world.vehicles = a.world.vehicles ∧ a'.world.stations = a.world.stations ∧ a'.cmds = a.cmds := by
  obtain ⟨b0, b, bat', cur, p, _, _, hb, hap, rfl⟩ := h
  have hbid : b.id = b0.id := by
    have := List.find?_some hb
    simpa using this
  refine ⟨b, bat', cur, p, by rw [hbid]; exact hb, ?_, (addLoad_currentLoad a.gc b.id p).1, rfl, rfl, rfl, rfl⟩
  unfold applyBattery at hap
  split at hap
  · rename_i hneg
    right
    split at hap
    · cases hap
    · rename_i b1 avg hu
      simp only [Except.ok.injEq, Prod.mk.injEq] at hap
      obtain ⟨rfl, rfl⟩ := hap
      exact ⟨hneg, avg, hu, rfl⟩
  · rename_i hpos
    exact Or.inl ⟨not_lt.mp hpos, hap⟩

/-! Non-vacuity: a 20 kW connector drawing 3 kW now and 8 kW from the next step on, a vehicle at 50 % that wants
100 % within two steps, a half-full stationary battery.  `step` returns: the vehicle is charged with 11 kW (its
command), the battery discharges 1835003/524288 ≈ 3.5 kW, both are booked at the connector; the vehicle's SoC rises by
11 kW · ¼ h / 10 kWh. -/
example :
    (match PeakShaving.step toyOps ⟨1/100000, 4, 0, 900000000, 4 * 900000000, true, 60⟩
        [.load 900000000 "GC" "load" 8]
        ⟨[⟨"GC", 20, none, [("load", 3)]⟩], [⟨"CS", "GC", 11, 0, 0⟩],
         [⟨"v", some "CS", 1, some (2 * 900000000), 0, false, 0, 1/2⟩], [⟨"B", "GC", 0, 1/2⟩]⟩ with
      | .ok (w, c, _) => (c, w.gcs.map GcS.loads, w.vehicles.map VehicleS.bat)
      | .error _ => ([], [], [])) =
    ([("CS", 11)], [[("load", 3), ("CS", 11), ("B", -1835003/524288)]], [1/2 + 11/40]) := by
  decide +kernel

end SpiceEv
