"""helper of C16: run one case in a fresh interpreter (its own PYTHONHASHSEED) and print the canonical outputs"""
import json
import sys

import engine

engine.use_repo()
import scen   # noqa: E402
import c16    # noqa: E402

if __name__ == "__main__":
    full = json.load(open(sys.argv[1]))
    r = scen.run_real(full, timeout_s=60)
    sys.stdout.write("@@OUT@@" + json.dumps(c16.outputs(r), default=str))
