/-
Helper lemmas for C01 / C02 at the level of `Battery.load` / `Battery.unload`:
the clamped curve (C03) feeds `_adjust_soc` (Proofs/Battery.lean).
-/
import SpiceEv.Proofs.Battery
import SpiceEv.Properties.C03

set_option linter.unusedSectionVars false
set_option linter.unusedSimpArgs false
set_option linter.unusedVariables false
namespace SpiceEv

/-- admissible battery: positive capacity and EPS, efficiency in (0,1], well-formed curves,
SoC in [-1, 1] -/
structure BatOK (b : Battery ℝ) : Prop where
  cap : 0 < b.capacity
  eps : 0 < b.eps
  eff0 : 0 < b.efficiency
  eff1 : b.efficiency ≤ 1
  lc : WF b.loadingCurve.points
  ulc : WF b.unloadingCurve.points
  lcMax : 0 ≤ b.loadingCurve.maxPower
  ulcMax : 0 ≤ b.unloadingCurve.maxPower
  soc1 : b.soc ≤ 1
  socm1 : -1 ≤ b.soc

theorem WF.two_le_length {pts : List (ℝ × ℝ)} (hwf : WF pts) : 2 ≤ pts.length := by
  obtain ⟨f, hf1, hf2⟩ := hwf.first
  obtain ⟨l, hl1, hl2⟩ := hwf.last
  cases pts with
  | nil => simp at hf1
  | cons p rest =>
    cases rest with
    | nil =>
      simp at hf1 hl1
      subst hf1; subst hl1
      exact absurd (hf2.symm.trans hl2) zero_ne_one
    | cons q rest => simp

/-- the clamped curve handed to `_adjust_soc` -/
theorem clamped_curveOK (c : Curve ℝ) (hwf : WF c.points) (L post : ℝ) (hL : 0 ≤ L) (hpost : 0 < post) :
    ∃ cv, c.clamped L 1 post = .ok cv ∧ CurveOK cv (post * L) ∧ 2 ≤ cv.points.length ∧
      ∀ s, s ≤ 1 → interp cv.points s = post * min (interp c.points s) L := by
  obtain ⟨cv, h1, h2, _, h4⟩ := C03_clamped_pointwise c hwf L 1 post hL one_pos hpost
  have hval : ∀ s, s ≤ 1 → interp cv.points s = post * min (interp c.points s) L := by
    intro s hs
    have e1 := powerFromSoc_eq cv s h2.sorted h2.last hs
    have e2 := h4 s hs
    rw [e1, one_mul] at e2
    exact Except.ok.inj e2
  refine ⟨cv, h1, ⟨h2.sorted, h2.last, h2.nonneg, ?_⟩, h2.two_le_length, hval⟩
  intro s hs
  rw [hval s hs]
  exact mul_le_mul_of_nonneg_left (min_le_right _ _) hpost.le

theorem battery_eta (b : Battery ℝ) : { b with soc := b.soc } = b := by cases b; rfl

/-- the target SoC a `load` call asks for -/
noncomputable def loadTarget (b : Battery ℝ) (T : ℝ) (ts tp : Option ℝ) : ℝ :=
  match ts, tp with
  | some t, _ => t
  | none, some P => b.soc + P * b.efficiency * T / b.capacity
  | none, none => 1

/-- the target SoC an `unload` call asks for (before the "not below 0" rule) -/
noncomputable def unloadTarget (b : Battery ℝ) (T : ℝ) (ts tp : Option ℝ) : ℝ :=
  match ts, tp with
  | some t, _ => t
  | none, some P => b.soc - P / b.efficiency * T / b.capacity
  | none, none => 0

/-- the power limit in force: the given one or the curve's maximum -/
def limitOf (mp : Option ℝ) (cv : Curve ℝ) : ℝ := mp.getD cv.maxPower

theorem load_spec (b : Battery ℝ) (hb : BatOK b) (T : ℝ) (hT : 0 ≤ T) (mp ts tp : Option ℝ)
    (hmp : ∀ L, mp = some L → 0 ≤ L) (hex : ts = none ∨ tp = none) :
    ∃ s' avg, b.load T mp ts tp = .ok ({ b with soc := s' }, avg, s' - b.soc) ∧
      b.soc ≤ s' ∧ s' ≤ max b.soc (min 1 (loadTarget b T ts tp)) ∧
      avg * T = (s' - b.soc) * b.capacity / b.efficiency ∧ 0 ≤ avg ∧
      avg ≤ limitOf mp b.loadingCurve + b.eps / b.efficiency ∧
      (b.efficiency * min (interp b.loadingCurve.points b.soc) (limitOf mp b.loadingCurve) < b.eps →
        s' = b.soc ∧ avg = 0) := by
  have hη0 : b.efficiency ≠ 0 := ne_of_gt hb.eff0
  have hc0 : b.capacity ≠ 0 := ne_of_gt hb.cap
  -- target derivation
  have htgt : b.loadRequest T ts tp = .ok (loadTarget b T ts tp) := by
    unfold Battery.loadRequest
    cases ts with
    | none =>
      cases tp with
      | none => rfl
      | some P => simp [loadTarget, fdiv_ok _ hc0, bind, Except.bind]
    | some t =>
      rcases hex with h | h
      · cases h
      · subst h; simp [loadTarget, pyassert, bind, Except.bind]
  unfold Battery.load
  simp only [htgt, bind, Except.bind]
  set tgt := loadTarget b T ts tp with htg
  have hL : 0 ≤ limitOf mp b.loadingCurve := by
    cases mp with
    | none => exact hb.lcMax
    | some L => exact hmp L rfl
  by_cases hearly : b.eps < b.soc - tgt
  · -- target already reached
    rw [if_pos hearly]
    refine ⟨b.soc, 0, ?_, le_refl _, le_max_left _ _, by simp, le_refl _, ?_, fun _ => ⟨rfl, rfl⟩⟩
    · rw [battery_eta b, sub_self]
    · have := div_pos hb.eps hb.eff0; linarith
  · rw [if_neg hearly]
    obtain ⟨cv, hcl, hcv, hlen, hval⟩ :=
      clamped_curveOK b.loadingCurve hb.lc (limitOf mp b.loadingCurve) b.efficiency hL hb.eff0
    have hcl' : b.loadingCurve.clamped (mp.getD b.loadingCurve.maxPower) 1 b.efficiency = .ok cv := hcl
    simp only [hcl', pymin_eq]
    by_cases hdir : b.soc ≤ min 1 tgt
    · obtain ⟨s', avg, hadj, g1, g2, g3, g4, g5, g6⟩ :=
        adjustSoc_charge b T cv (min 1 tgt) (b.efficiency * limitOf mp b.loadingCurve) hcv hlen hb.cap
          hb.eps hT hdir (min_le_left _ _) hb.socm1
      simp only [hadj, fdiv_ok _ hη0]
      refine ⟨s', avg / b.efficiency, rfl, g1, le_trans g2 (le_max_right _ _), ?_, ?_, ?_, ?_⟩
      · rw [div_mul_eq_mul_div, g3]
      · exact div_nonneg g4 hb.eff0.le
      · rw [div_le_iff₀ hb.eff0]
        have : (limitOf mp b.loadingCurve + b.eps / b.efficiency) * b.efficiency
            = b.efficiency * limitOf mp b.loadingCurve + b.eps := by field_simp
        rw [this]; exact g5
      · intro hz
        rw [← hval b.soc hb.soc1] at hz
        obtain ⟨e1, e2⟩ := g6 hz
        exact ⟨e1, by rw [e2, zero_div]⟩
    · -- target (within EPS) below the SoC: the loop is not entered
      have hlt : min 1 tgt < b.soc := not_le.mp hdir
      have htl : min 1 tgt = tgt := by
        apply min_eq_right
        by_contra hcon
        rw [min_eq_left (le_of_lt (not_le.mp hcon))] at hlt
        exact absurd hb.soc1 (not_le.mpr hlt)
      obtain ⟨avg, hadj, _, g2⟩ := adjustSoc_noop b T cv (min 1 tgt) hlen (by
        rw [if_pos hlt, htl]
        intro h
        have := h.2
        apply hearly; linarith)
      simp only [hadj, fdiv_ok _ hη0]
      refine ⟨b.soc, avg / b.efficiency, rfl, le_refl _, le_max_left _ _, ?_, ?_, ?_, ?_⟩
      · rw [g2]; simp
      · rw [g2]; simp
      · rw [g2, zero_div]; have := div_pos hb.eps hb.eff0; linarith
      · intro _; exact ⟨rfl, by rw [g2, zero_div]⟩

theorem unload_spec (b : Battery ℝ) (hb : BatOK b) (T : ℝ) (hT : 0 ≤ T) (mp ts tp : Option ℝ)
    (hmp : ∀ L, mp = some L → 0 ≤ L) (hex : ts = none ∨ tp = none) :
    ∃ s' avg, b.unload T mp ts tp = .ok ({ b with soc := s' }, avg, b.soc - s') ∧
      s' ≤ b.soc ∧ min b.soc (max (min b.soc 0) (unloadTarget b T ts tp)) ≤ s' ∧
      avg * T = (b.soc - s') * b.capacity * b.efficiency ∧ 0 ≤ avg ∧
      avg ≤ limitOf mp b.unloadingCurve + b.eps * b.efficiency ∧
      (1 / b.efficiency * min (interp b.unloadingCurve.points b.soc) (limitOf mp b.unloadingCurve) < b.eps →
        s' = b.soc ∧ avg = 0) := by
  have hη0 : b.efficiency ≠ 0 := ne_of_gt hb.eff0
  have hc0 : b.capacity ≠ 0 := ne_of_gt hb.cap
  have htgt : b.unloadRequest T ts tp = .ok (unloadTarget b T ts tp) := by
    unfold Battery.unloadRequest
    cases ts with
    | none =>
      cases tp with
      | none => rfl
      | some P => simp [unloadTarget, fdiv_ok _ hc0, fdiv_ok _ hη0, bind, Except.bind]
    | some t =>
      rcases hex with h | h
      · cases h
      · subst h; simp [unloadTarget, pyassert, bind, Except.bind]
  unfold Battery.unload
  simp only [htgt, bind, Except.bind, pymax_eq, pymin_eq]
  set tgt := max (min b.soc 0) (unloadTarget b T ts tp) with htg
  have hL : 0 ≤ limitOf mp b.unloadingCurve := by
    cases mp with
    | none => exact hb.ulcMax
    | some L => exact hmp L rfl
  have hpost : 0 < 1 / b.efficiency := div_pos one_pos hb.eff0
  have hepsη : 0 ≤ b.eps * b.efficiency := (mul_pos hb.eps hb.eff0).le
  have htm1 : -1 ≤ tgt := by
    have h1 : min b.soc 0 ≤ tgt := le_max_left _ _
    have h2 : -1 ≤ min b.soc 0 := le_min hb.socm1 (by norm_num)
    linarith
  by_cases hearly : b.eps < tgt - b.soc
  · rw [if_pos hearly]
    refine ⟨b.soc, 0, ?_, le_refl _, min_le_left _ _, by simp, le_refl _, ?_, fun _ => ⟨rfl, rfl⟩⟩
    · rw [battery_eta b, sub_self]
    · linarith
  · rw [if_neg hearly]
    obtain ⟨cv, hcl, hcv, hlen, hval⟩ :=
      clamped_curveOK b.unloadingCurve hb.ulc (limitOf mp b.unloadingCurve) (1 / b.efficiency) hL hpost
    have hcl' : b.unloadingCurve.clamped (mp.getD b.unloadingCurve.maxPower) 1 (1 / b.efficiency)
        = .ok cv := hcl
    simp only [fdiv_ok _ hη0, hcl']
    by_cases hdir : tgt < b.soc
    · obtain ⟨s', avg, hadj, g1, g2, g3, g4, g5, g6⟩ :=
        adjustSoc_discharge b T cv tgt (1 / b.efficiency * limitOf mp b.unloadingCurve) hcv hlen hb.cap
          hb.eps hT hdir htm1 hb.soc1
      simp only [hadj]
      refine ⟨s', avg * b.efficiency, rfl, g1, le_trans (min_le_right _ _) g2, ?_, ?_, ?_, ?_⟩
      · rw [mul_right_comm, g3]
      · exact mul_nonneg g4 hb.eff0.le
      · have h1 : avg * b.efficiency
            ≤ (1 / b.efficiency * limitOf mp b.unloadingCurve + b.eps) * b.efficiency :=
          mul_le_mul_of_nonneg_right g5 hb.eff0.le
        have h2 : (1 / b.efficiency * limitOf mp b.unloadingCurve + b.eps) * b.efficiency
            = limitOf mp b.unloadingCurve + b.eps * b.efficiency := by field_simp
        linarith
      · intro hz
        rw [← hval b.soc hb.soc1] at hz
        obtain ⟨e1, e2⟩ := g6 hz
        exact ⟨e1, by rw [e2, zero_mul]⟩
    · obtain ⟨avg, hadj, _, g2⟩ := adjustSoc_noop b T cv tgt hlen (by
        rw [if_neg hdir]
        intro h
        have := h.2
        apply hearly; linarith)
      simp only [hadj]
      refine ⟨b.soc, avg * b.efficiency, rfl, le_refl _, min_le_left _ _, ?_, ?_, ?_, ?_⟩
      · rw [g2]; simp
      · rw [g2]; simp
      · rw [g2, zero_mul]; linarith
      · intro _; exact ⟨rfl, by rw [g2, zero_mul]⟩

theorem available_spec (b : Battery ℝ) (hb : BatOK b) (T : ℝ) (hT : 0 ≤ T) :
    ∃ p, b.getAvailablePower T = .ok (b, p) ∧ 0 ≤ p ∧
      ∃ s', b.unload T none none none = .ok ({ b with soc := s' }, p, b.soc - s') := by
  obtain ⟨s', avg, h, _, _, _, h0, _⟩ :=
    unload_spec b hb T hT none none none (by intro L h; cases h) (Or.inl rfl)
  refine ⟨avg, ?_, h0, s', h⟩
  unfold Battery.getAvailablePower
  simp only [h, bind, Except.bind]

end SpiceEv
