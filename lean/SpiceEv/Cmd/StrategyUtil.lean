/- driver commands for Model/StrategyUtil.lean -/
import SpiceEv.Wire
import SpiceEv.Model.StrategyUtil
namespace SpiceEv.Cmd.StrategyUtil
open SpiceEv

instance : NatCast Float := ⟨Float.ofNat⟩

section
variable {α : Type} [Add α] [Sub α] [Mul α] [Div α] [LT α] [LE α]
  [DecidableLT α] [DecidableLE α] [OfNat α 0] [OfNat α 1] [NatCast α] [Wire α]

/-- `clamp T power csCurrent csMax csMin vehMin` -/
def cmdClamp : P String := do
  let p ← P.num α; let c ← P.num α; let mx ← P.num α; let mn ← P.num α; let vm ← P.num α
  pure (Wire.render (clampPower p c mx mn vm))

/-- `losses T soc capacity rel fixedRel fixedAbs` -/
def cmdLosses : P String := do
  let s ← P.num α; let c ← P.num α; let r ← P.num α; let fr ← P.num α; let fa ← P.num α
  pure (Wire.render (applyLosses s c ⟨r, fr, fa⟩))

/-- `getcost T x fixed v` | `getcost T x poly <n> coeffs…` -/
def cmdCost : P String := do
  let x ← P.num α
  let k ← P.tok
  if k == "fixed" then
    let v ← P.num α; pure (Wire.render (getCost x (.fixed v)))
  else
    let cs ← P.list (P.num α); pure (Wire.render (getCost x (.polynomial cs)))
end

def handlers : List (String × Handler) :=
  [("clamp", byNumType (cmdClamp (α := Rat)) (cmdClamp (α := Float))),
   ("losses", byNumType (cmdLosses (α := Rat)) (cmdLosses (α := Float))),
   ("getcost", byNumType (cmdCost (α := Rat)) (cmdCost (α := Float)))]

end SpiceEv.Cmd.StrategyUtil
