"""which pass of FlexWindow.step breaks the connector limit / a station maximum (real code)"""
import sys, os, collections, json
os.environ.setdefault("VERIF_REPO", "/repo")
sys.path.insert(0, os.path.join(os.path.dirname(os.path.abspath(__file__)), "..", "..", "harness"))
import warnings; warnings.simplefilter("ignore")
import engine, scen, s_flex_window as S
from spice_ev import strategy as st_mod
cls = st_mod.class_from_str("flex_window")
PASSES = ["distribute_balanced_vehicles", "distribute_surplus_to_vehicles", "distribute_balanced_v2g",
          "load_surplus_to_batteries", "distribute_balanced_batteries", "distribute_peak_shaving_vehicles",
          "distribute_surplus_power", "distribute_peak_shaving_v2g", "distribute_peak_shaving_batteries"]
hits = collections.Counter(); examples = {}
cur = {}
EPS = 1e-5
def mk(name, fn):
    def w(self, *a, **k):
        gc = list(self.world_state.grid_connectors.values())[0]
        l0 = gc.get_current_load()
        r = fn(self, *a, **k)
        l1 = gc.get_current_load()
        M = gc.cur_max_power
        ok0 = cur.get("ok0", False)
        if ok0 and l1 > M + EPS and l0 <= M + EPS:
            key = ("draw", self.LOAD_STRAT, name, "window=%s" % gc.window); hits[key] += 1; examples.setdefault(key, (cur["case"], str(self.current_time), l0, l1, M))
        if ok0 and l1 < -M - EPS and l0 >= -M - EPS:
            key = ("feedin", self.LOAD_STRAT, name, "window=%s" % gc.window); hits[key] += 1; examples.setdefault(key, (cur["case"], str(self.current_time), l0, l1, M))
        for cid, cs in self.world_state.charging_stations.items():
            p = gc.current_loads.get(cid, 0)
            if abs(p) > cs.max_power + EPS and cid not in cur["cs_bad"]:
                cur["cs_bad"].add(cid)
                key = ("station", "charge" if p > 0 else "discharge", self.LOAD_STRAT, name, "window=%s" % gc.window); hits[key] += 1
                examples.setdefault(key, (cur["case"], str(self.current_time), cid, p, cs.max_power, cs.current_power))
        return r
    return w
for n in PASSES:
    setattr(cls, n, mk(n, getattr(cls, n)))
orig = cls.step
def step(self):
    gc = list(self.world_state.grid_connectors.values())[0]
    l = gc.get_current_load()
    cur["ok0"] = -gc.cur_max_power - EPS <= l <= gc.cur_max_power + EPS
    cur["cs_bad"] = set()
    return orig(self)
cls.step = step
seeds = [int(x) for x in sys.argv[1].split(",")]; n = int(sys.argv[2])
for seed in seeds:
    for i in range(n):
        cur["case"] = (seed, i)
        full = S.gen_full({"seed": seed, "i": i})
        scen.run_real(full, timeout_s=300, collect_ops=False)
for k, v in sorted(hits.items()):
    print(v, k, examples[k])
