/- driver commands for Model/StratPeakLoadWindow.lean (Float battery model, bit-level stream)

`step_peak_load_window eps <now dt> interval start stop bisectFuel
    <#operators> {name <#seasons> season…}
    <#timesteps> {<#events> {G gc name value | L gc name value | S gc <N | S max_power>}}
    <#gcs> {gc operator <level: N | S tok> <window: N | S bool> peak}
    <#stations> station…  <#vehicles> {vehicle <#powers> powers… <schedule: N | S num>}  <#batteries> battery…`
  → `commands | id loads window peak ; … | soc schedule … | battery socs`   or `!Error`

`init_peak_load_window <start dt> interval <operators> <timesteps> <#gcs> {gc operator level window peak}`
  → `<#gcs> {id peak}` (the `self.peak_power` of `__init__`; the `peak` fields of the request are ignored)
-/
import SpiceEv.Wire
import SpiceEv.Model.StratPeakLoadWindow
import SpiceEv.Model.Battery
import SpiceEv.Cmd.Battery
import SpiceEv.Cmd.Strategies
import SpiceEv.Cmd.Util
namespace SpiceEv.Cmd.StratPeakLoadWindow
open SpiceEv SpiceEv.PeakLoadWindow SpiceEv.Cmd.Strategies

def pEv : P (Ev Float) := do
  let t ← P.tok
  if t == "G" then do
    let g ← P.tok; let n ← P.tok; let v ← P.num Float; pure (.gen g n v)
  else if t == "L" then do
    let g ← P.tok; let n ← P.tok; let v ← P.num Float; pure (.load g n v)
  else if t == "S" then do
    let g ← P.tok; let m ← P.opt (P.num Float); pure (.signal g m)
  else failure

def pPGc : P (PGc Float) := do
  let gc ← pGc; let op ← P.tok; let lvl ← P.opt P.tok; let win ← P.opt P.bool; let peak ← P.num Float
  pure ⟨gc, op, lvl, win, peak⟩

def pPVeh : P (PVeh Float (Battery Float)) := do
  let v ← pVeh; let ps ← P.list (P.num Float); let s ← P.opt (P.num Float)
  pure ⟨v, ps, s⟩

def pOperators : P (List (String × List Season)) :=
  P.list (do let name ← P.tok; let ss ← P.list Cmd.Util.pSeason; pure (name, ss))

def rGc (g : PGc Float) : String :=
  g.gc.id ++ " " ++ renderList rKV g.gc.loads ++ " " ++ renderOpt renderBool g.window ++ " " ++ rNum g.peak

def rVeh (v : PVeh Float (Battery Float)) : String :=
  rNum v.v.bat.soc ++ " " ++ renderOpt rNum v.schedule

/-- `timedelta(hours=1) / self.interval`: an int/int true division in CPython (correctly rounded);
both operands are exact doubles, so the double division is the same value -/
def tsPerHour (interval : Int) : Float := Float.ofInt 3600000000 / Float.ofInt interval

def cmdStep : P String := do
  let eps ← P.num Float
  let now ← Cmd.Util.pDateTime
  let interval ← P.int; let start ← P.int; let stop ← P.int; let fuel ← P.nat
  let ops ← pOperators
  let table ← P.list (P.list pEv)
  let gcs ← P.list pPGc; let css ← P.list pCs; let vs ← P.list pPVeh; let bs ← P.list pBat
  let env : PEnv Float := ⟨eps, tsPerHour interval, now, interval, start, stop, ops, table, floatSum, fuel⟩
  let bops := floatOps (Cmd.Battery.hoursOfMicros interval)
  match step bops env ⟨gcs, css, vs, bs⟩ with
  | .error e => pure (renderErr e)
  | .ok (w, cmds) =>
    pure (renderList rKV cmds ++ " | " ++
      " ; ".intercalate (w.gcs.map rGc) ++ " | " ++
      " ".intercalate (w.vehicles.map rVeh) ++ " | " ++
      " ".intercalate (w.batteries.map (fun b => rNum b.bat.soc)))

def cmdInit : P String := do
  let start ← Cmd.Util.pDateTime
  let interval ← P.int
  let ops ← pOperators
  let table ← P.list (P.list pEv)
  let gcs ← P.list pPGc
  let env : PEnv Float := ⟨0, tsPerHour interval, start, interval, 0, 0, ops, table, floatSum, 0⟩
  let loads := gcs.map (fun g => (g.gc.id, g.gc.loads))
  let peaks0 := gcs.map (fun g => (g.gc.id, (0 : Float)))
  pure (renderPy (fun r => renderList rKV r) (initPeaks env gcs table start loads peaks0))

def handlers : List (String × Handler) :=
  [("step_peak_load_window", runP cmdStep), ("init_peak_load_window", runP cmdInit)]

end SpiceEv.Cmd.StratPeakLoadWindow
