/-
Bookkeeping of one `step_gc`: station powers, their entries in `current_loads`, and the commands.
-/
import SpiceEv.Proofs.StratBalancedMarketBook
import SpiceEv.Proofs.StratBalancedMarketV2gStep
set_option linter.unusedSectionVars false
set_option linter.unusedSimpArgs false
set_option linter.unusedVariables false
namespace SpiceEv.BalancedMarket
open SpiceEv
variable {α B : Type} [Field α] [LinearOrder α] [IsStrictOrderedRing α]

/-- `charging_stations[k].current_power` (0 for an unknown id) -/
def stPow (w : SWorld α B) (k : String) : α := ((w.station? k).map (·.currentPower)).getD 0

theorem station?_setStation (w : SWorld α B) (s' : StationS α) (k : String) :
    (w.setStation s').station? k = (w.station? k).map (fun x => if x.id == s'.id then s' else x) := by
  unfold SWorld.setStation SWorld.station?
  simp only
  rw [List.find?_map]
  congr 1
  congr 1
  funext x
  simp only [Function.comp]
  by_cases h : (x.id == s'.id) = true
  · have : x.id = s'.id := by simpa using h
    simp [h, this]
  · simp [h]

/-- booking `a` on station `cs` (found under its id): its power rises by `a`, all others stay -/
theorem stPow_update (w : SWorld α B) (v' : VehicleS α B) (cs : StationS α) (a : α)
    (hcs : w.station? cs.id = some cs) (k : String) :
    stPow ((w.setVehicle v').setStation { cs with currentPower := cs.currentPower + a }) k =
      stPow w k + (if k = cs.id then a else 0) ∧
    (((w.setVehicle v').setStation { cs with currentPower := cs.currentPower + a }).station? k).isSome =
      (w.station? k).isSome := by
  unfold stPow
  rw [station?_setStation]
  have hsv : (w.setVehicle v').station? k = w.station? k := rfl
  rw [hsv]
  cases hk : w.station? k with
  | none =>
    have hkc : k ≠ cs.id := by
      intro h; subst h; rw [hcs] at hk; cases hk
    simp [hkc]
  | some x =>
    obtain ⟨_, hxid⟩ := station?_some w k x hk
    by_cases hkc : k = cs.id
    · subst hkc
      rw [hcs] at hk
      simp only [Option.some.injEq] at hk
      subst hk
      simp
    · have hne : ¬ x.id = cs.id := by rw [hxid]; exact hkc
      simp [hne, hkc]

/-- commands are the entries of their stations, and only stations (`S`) have commands -/
def CmdInv (S : String → Prop) (gc : GcS α) (cmds : List (String × α)) : Prop :=
  ∀ k val, sdGet cmds k = some val → val = loadAt gc k ∧ S k

theorem Booked.cmdInv (S : String → Prop) (st st' : VSt α B) (a : α) (hb : Booked st st' a)
    (hS : S st.cs.id) (h : CmdInv S st.gc st.cmds) : CmdInv S st'.gc st'.cmds := by
  intro k val hk
  rcases hb.cmds with ⟨hc, hg⟩ | hc
  · rw [hc] at hk; rw [hg]; exact h k val hk
  · rw [hc] at hk
    by_cases hkc : k = st.cs.id
    · subst hkc
      rw [sdGet_sdSet_self'] at hk
      simp only [Option.some.injEq] at hk
      exact ⟨hk.symm, hS⟩
    · rw [sdGet_sdSet_ne' _ _ _ _ hkc] at hk
      obtain ⟨h1, h2⟩ := h k val hk
      exact ⟨by rw [hb.others k hkc]; exact h1, h2⟩

theorem vehicleBody_cmdInv (ops : Ops α B) (env : Env α) (S : String → Prop) (g g' : GSt α B) (vid : String)
    (hS : ∀ k, (g.w.station? k).isSome = true → S k) (hc : CmdInv S g.gc g.cmds)
    (h : vehicleBody ops env g vid = .ok g') : CmdInv S g'.gc g'.cmds := by
  unfold vehicleBody at h
  split at h
  · cases h
  · rename_i v hv
    split at h
    · cases h
    · rename_i csId hcs
      split at h
      · cases h
      · rename_i cs hst
        obtain ⟨_, hcsid⟩ := station?_some _ _ cs hst
        have hScs : S cs.id := hS cs.id (by rw [hcsid, hst]; rfl)
        split at h
        · cases h
        · simp only [bind, Except.bind] at h
          split at h
          · cases h
          · rename_i sorted hsorted
            split at h
            · cases h
            · rename_i st1 hch
              obtain ⟨a1, _, hb1, _⟩ := chargeLoop_book ops env v g.ts sorted _ _ st1 hch
              have hc1 : CmdInv S st1.gc st1.cmds := Booked.cmdInv S _ st1 a1 hb1 hScs hc
              split at h
              · cases h
              · rename_i st2 hv2g
                have hc2 : CmdInv S st2.gc st2.cmds := by
                  split at hv2g
                  · obtain ⟨a2, _, hb2, _⟩ := v2gLoop_book ops env v g.ts sorted _ st1 st2 hv2g
                    exact Booked.cmdInv S st1 st2 a2 hb2 (by rw [hb1.cs]; exact hScs) hc1
                  · simp only [pure, Except.pure, Except.ok.injEq] at hv2g
                    subst hv2g; exact hc1
                split at h
                · cases h
                · simp only [Except.ok.injEq] at h
                  subst h
                  exact hc2

/-- invariant of `step_gc` relative to its start (`w0`, `gc0`): for every station the change of its entry in
`current_loads` equals the change of its power; the stations stay the same; commands are entries -/
structure EInv (w0 : SWorld α B) (gc0 : GcS α) (g : GSt α B) : Prop where
  ent : ∀ k, (w0.station? k).isSome = true → loadAt g.gc k - loadAt gc0 k = stPow g.w k - stPow w0 k
  same : ∀ k, (g.w.station? k).isSome = (w0.station? k).isSome
  cmd : CmdInv (fun k => (w0.station? k).isSome = true) g.gc g.cmds
  bats : g.w.batteries.map (·.id) = w0.batteries.map (·.id)

theorem vehicleBody_EInv (ops : Ops α B) (env : Env α) (w0 : SWorld α B) (gc0 : GcS α)
    (g g' : GSt α B) (vid : String) (hinv : EInv w0 gc0 g)
    (h : vehicleBody ops env g vid = .ok g') : EInv w0 gc0 g' := by
  have hcm := vehicleBody_cmdInv ops env (fun k => (w0.station? k).isSome = true) g g' vid
    (fun k hk => by rw [← hinv.same k]; exact hk) hinv.cmd h
  obtain ⟨v, cs, bat1, bat2, a1, a2, _, _, hst, _, _, hw, _, hent, hoth, _, _⟩ :=
    vehicleBody_book ops env g g' vid h
  have hupd := fun k => stPow_update g.w { v with bat := bat2 } cs (a1 + a2) hst k
  have hw' : g'.w = (g.w.setVehicle { v with bat := bat2 }).setStation
      { cs with currentPower := cs.currentPower + (a1 + a2) } := by rw [hw, add_assoc]
  refine ⟨?_, ?_, hcm, ?_⟩
  · intro k hk
    rw [hw', (hupd k).1]
    by_cases hkc : k = cs.id
    · subst hkc
      rw [hent, if_pos rfl]
      have := hinv.ent cs.id hk
      linarith
    · rw [hoth k hkc, if_neg hkc, add_zero]
      exact hinv.ent k hk
  · intro k
    rw [hw', (hupd k).2]; exact hinv.same k
  · rw [hw']; exact hinv.bats

theorem surplusBody_EInv (ops : Ops α B) (env : Env α) (w0 : SWorld α B) (gc0 : GcS α)
    (g g' : GSt α B) (vid : String) (hinv : EInv w0 gc0 g)
    (h : surplusBody ops env g vid = .ok g') : EInv w0 gc0 g' := by
  rcases surplusBody_book ops env g g' vid h with rfl | ⟨v, cs, bat', a, _, _, hst, _, hw, _, hent, hoth, _, hcm, _, _⟩
  · exact hinv
  · have hupd := fun k => stPow_update g.w { v with bat := bat' } cs a hst k
    obtain ⟨_, hcsid⟩ := station?_some _ _ cs hst
    refine ⟨?_, ?_, ?_, ?_⟩
    · intro k hk
      rw [hw, (hupd k).1]
      by_cases hkc : k = cs.id
      · subst hkc
        rw [hent, if_pos rfl]
        have := hinv.ent cs.id hk
        linarith
      · rw [hoth k hkc, if_neg hkc, add_zero]
        exact hinv.ent k hk
    · intro k
      rw [hw, (hupd k).2]; exact hinv.same k
    · intro k val hk
      rw [hcm] at hk
      by_cases hkc : k = cs.id
      · subst hkc
        rw [sdGet_sdSet_self'] at hk
        simp only [Option.some.injEq] at hk
        exact ⟨hk.symm, by show (w0.station? cs.id).isSome = true; rw [← hinv.same cs.id, hst]; rfl⟩
      · rw [sdGet_sdSet_ne' _ _ _ _ hkc] at hk
        obtain ⟨h1, h2⟩ := hinv.cmd k val hk
        exact ⟨by rw [hoth k hkc]; exact h1, h2⟩
    · rw [hw]; exact hinv.bats

theorem surplusBody_gcid (ops : Ops α B) (env : Env α) (g g' : GSt α B) (vid : String)
    (h : surplusBody ops env g vid = .ok g') : g'.gc.id = g.gc.id := by
  unfold surplusBody at h
  split at h
  · cases h
  · split at h
    · cases h
    · rename_i csId hcs
      split at h
      · cases h
      · simp only at h
        split at h
        · simp only [bind, Except.bind] at h
          split at h
          · cases h
          · rename_i r hr
            simp only [Except.ok.injEq] at h
            subst h
            exact (addLoad_currentLoad g.gc csId r.2).2.2.1
        · simp only [Except.ok.injEq] at h
          subst h; rfl

/-- the battery block touches only the battery's own entry and no station, no command -/
theorem batteryBody_others (ops : Ops α B) (env : Env α) (nCheap : Option Nat) (g g' : GSt α B)
    (bid : String) (h : batteryBody ops env nCheap g bid = .ok g') :
    (∀ k, k ≠ bid → loadAt g'.gc k = loadAt g.gc k) ∧ g'.cmds = g.cmds ∧
      g'.w.batteries.map (·.id) = g.w.batteries.map (·.id) := by
  unfold batteryBody at h
  split at h
  · cases h
  · rename_i b hb
    have hbid : b.id = bid := by simpa using List.find?_some hb
    have hset : ∀ bt : B, (g.w.setBattery { b with bat := bt }).batteries.map (·.id) =
        g.w.batteries.map (·.id) := by
      intro bt
      unfold SWorld.setBattery
      simp only [List.map_map]
      apply List.map_congr_left
      intro x _
      simp only [Function.comp]
      split
      · rename_i hx; simpa using (by simpa using hx : x.id = b.id).symm
      · rfl
    split at h
    · simp only [Except.ok.injEq] at h; subst h; exact ⟨fun _ _ => rfl, rfl, rfl⟩
    · split at h
      · cases h
      · simp only [bind, Except.bind] at h
        split at h
        · cases h
        · split at h
          · cases h
          · split at h
            · cases h
            · rename_i r3 hr3
              split at h
              · split at h
                · cases h
                · rename_i r4 hr4
                  simp only [Except.ok.injEq] at h; subst h
                  refine ⟨fun k hk => ?_, rfl, hset _⟩
                  show loadAt ((g.gc.addLoad bid r3.2).1.addLoad bid (-r4.2)).1 k = _
                  rw [addLoad_loadAt_ne _ bid k _ hk, addLoad_loadAt_ne _ bid k _ hk]
              · simp only [Except.ok.injEq] at h; subst h
                exact ⟨fun k hk => addLoad_loadAt_ne _ bid k _ hk, rfl, hset _⟩

/-- **bookkeeping of one `step_gc`**: if no station shares its id with a stationary battery, then for the
connector record `gc'` the call leaves behind: for every station the change of its entry in
`current_loads` equals the change of its `current_power`; every command is the entry of a station; the
stations are the same -/
theorem stepGc_bookkeeping (ops : Ops α B) (env : Env α) (w w' : SWorld α B) (gcId : String)
    (cmds : List (String × α)) (gc : GcS α) (hgc : w.gc? gcId = some gc)
    (hsb : ∀ b ∈ w.batteries, w.station? b.id = none)
    (h : stepGc ops env w gcId = .ok (w', cmds)) :
    ∃ gc', gc' ∈ w'.gcs ∧ gc'.id = gcId ∧
      (∀ k, (w.station? k).isSome = true → loadAt gc' k - loadAt gc k = stPow w' k - stPow w k) ∧
      (∀ k, (w'.station? k).isSome = (w.station? k).isSome) ∧
      (∀ k val, sdGet cmds k = some val → val = loadAt gc' k ∧ (w.station? k).isSome = true) ∧
      w'.gcs = w.gcs.map (fun x => if x.id == gcId then gc' else x) ∧
      w'.batteries.map (·.id) = w.batteries.map (·.id) := by
  obtain ⟨hgm, hgid⟩ := gc?_some w gcId gc hgc
  unfold stepGc at h
  rw [hgc] at h
  simp only [bind, Except.bind] at h
  split at h
  · cases h
  · split at h
    · cases h
    · rename_i vids hvids
      split at h
      · cases h
      · rename_i ts hts
        split at h
        · cases h
        · rename_i g1 hg1
          split at h
          · cases h
          · rename_i g2 hg2
            split at h
            · cases h
            · rename_i nCheap hn
              split at h
              · cases h
              · rename_i g3 hg3
                simp only [Except.ok.injEq, Prod.mk.injEq] at h
                obtain ⟨rfl, rfl⟩ := h
                have h0 : EInv w gc (⟨w, gc, ts, [], []⟩ : GSt α B) ∧
                    (⟨w, gc, ts, [], []⟩ : GSt α B).gc.id = gcId :=
                  ⟨⟨fun k _ => by simp, fun k => rfl, fun k val hk => by simp [sdGet] at hk, rfl⟩, hgid⟩
                have h1 := foldlM_inv _ (fun g => EInv w gc g ∧ g.gc.id = gcId)
                  (fun g vid g' hg hstep =>
                    ⟨vehicleBody_EInv ops env w gc g g' vid hg.1 hstep, by
                      obtain ⟨_, _, _, _, _, _, _, _, _, _, _, _, _, _, _, _, hid⟩ :=
                        vehicleBody_book ops env g g' vid hstep
                      rw [hid]; exact hg.2⟩)
                  vids _ g1 h0 hg1
                have h2 := foldlM_inv _ (fun g => EInv w gc g ∧ g.gc.id = gcId)
                  (fun g vid g' hg hstep =>
                    ⟨surplusBody_EInv ops env w gc g g' vid hg.1 hstep,
                     by rw [surplusBody_gcid ops env g g' vid hstep]; exact hg.2⟩)
                  vids _ g2 h1 hg2
                have h3 := foldlM_inv_mem _ (fun g => EInv w gc g ∧ g.gc.id = gcId) _ g2 g3
                  (fun g bid g' hmem hg hstep => by
                    obtain ⟨o1, o2, o3⟩ := batteryBody_others ops env nCheap g g' bid hstep
                    obtain ⟨f1, f2, _, _⟩ := batteryBody_frame ops env nCheap g g' bid hstep
                    have hst := batteryBody_stations ops env nCheap g g' bid hstep
                    have hstq : ∀ k, g'.w.station? k = g.w.station? k := by
                      intro k; unfold SWorld.station?; rw [hst]
                    have hnost : w.station? bid = none := by
                      simp only [List.mem_map] at hmem
                      obtain ⟨b, hb, rfl⟩ := hmem
                      exact hsb b hb
                    refine ⟨⟨?_, ?_, ?_, by rw [o3]; exact hg.1.bats⟩, by rw [f2]; exact hg.2⟩
                    · intro k hk
                      have hkb : k ≠ bid := by
                        intro hkb; subst hkb; rw [hnost] at hk; cases hk
                      have : stPow g'.w k = stPow g.w k := by unfold stPow; rw [hstq]
                      rw [o1 k hkb, this]; exact hg.1.ent k hk
                    · intro k; rw [hstq]; exact hg.1.same k
                    · intro k val hk
                      rw [o2] at hk
                      obtain ⟨c1, c2⟩ := hg.1.cmd k val hk
                      have hkb : k ≠ bid := by
                        intro hkb; subst hkb
                        have c2' : (w.station? k).isSome = true := c2
                        rw [hnost] at c2'; cases c2'
                      exact ⟨by rw [o1 k hkb]; exact c1, c2⟩)
                  h2 hg3
                have hgcs : g3.w.gcs = w.gcs := by
                    have a1 := foldlM_inv _ (fun (g : GSt α B) => g.w.gcs = w.gcs)
                      (fun g vid g' hg hstep => by rw [vehicleBody_gcs ops env g g' vid hstep]; exact hg)
                      vids _ g1 rfl hg1
                    have a2 := foldlM_inv _ (fun (g : GSt α B) => g.w.gcs = w.gcs)
                      (fun g vid g' hg hstep => by rw [surplusBody_gcs ops env g g' vid hstep]; exact hg)
                      vids _ g2 a1 hg2
                    exact foldlM_inv _ (fun (g : GSt α B) => g.w.gcs = w.gcs)
                      (fun g bid g' hg hstep => by
                        rw [(batteryBody_frame ops env nCheap g g' bid hstep).1]; exact hg)
                      _ _ g3 a2 hg3
                refine ⟨g3.gc, ?_, h3.2, ?_, ?_, h3.1.cmd, ?_, h3.1.bats⟩
                · unfold SWorld.setGc
                  simp only [List.mem_map]
                  have hgcs' : g3.w.gcs = w.gcs := by
                    have a1 := foldlM_inv _ (fun (g : GSt α B) => g.w.gcs = w.gcs)
                      (fun g vid g' hg hstep => by rw [vehicleBody_gcs ops env g g' vid hstep]; exact hg)
                      vids _ g1 rfl hg1
                    have a2 := foldlM_inv _ (fun (g : GSt α B) => g.w.gcs = w.gcs)
                      (fun g vid g' hg hstep => by rw [surplusBody_gcs ops env g g' vid hstep]; exact hg)
                      vids _ g2 a1 hg2
                    exact foldlM_inv _ (fun (g : GSt α B) => g.w.gcs = w.gcs)
                      (fun g bid g' hg hstep => by
                        rw [(batteryBody_frame ops env nCheap g g' bid hstep).1]; exact hg)
                      _ _ g3 a2 hg3
                  refine ⟨gc, by rw [hgcs]; exact hgm, ?_⟩
                  have : (gc.id == g3.gc.id) = true := by rw [hgid, h3.2]; simp
                  simp [this]
                · intro k hk
                  have : stPow (g3.w.setGc g3.gc) k = stPow g3.w k := rfl
                  rw [this]; exact h3.1.ent k hk
                · intro k
                  have : (g3.w.setGc g3.gc).station? k = g3.w.station? k := rfl
                  rw [this]; exact h3.1.same k
                · show (g3.w.setGc g3.gc).gcs = _
                  unfold SWorld.setGc
                  simp only
                  rw [hgcs, h3.2]

end SpiceEv.BalancedMarket
