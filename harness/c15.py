"""C15 — time-window and core-standing-time membership.

Correspondence (exact): the real `util.datetime_within_time_window`,
`util.dt_within_core_standing_time`, `util.get_time_windows_from_json` (called on a generated JSON
file in a temp dir with a tiny fake scenario object) and `Schedule.dt_to_end_of_time_window`
(called on a fake `self`) against the Lean model of `lean/SpiceEv/Model/Util.lean`.

Oracle (Python, independent of both, written from the PROPERTY text): half-open membership
`(t - start) mod 24h < (end - start) mod 24h` on integer microseconds taken from the case
description (not from the objects handed to the code), first season whose inclusive date range
contains the date decides, ISO weekday / listed holiday / no configuration for the core standing
time, `ceil((stop - start) / interval)` entries for the series.

Known defect F1: the non-wrapping branch of `dt_within_core_standing_time` is closed at its end
(`start <= t <= end`); reported with key `C15:core_nonwrapping_end_inclusive` exactly when the
implementation says "inside", the half-open reading says "outside", and `t` equals the end of a
non-wrapping configured window.  Every other deviation has another key.
"""
import datetime as dtm
import itertools
import json
import os
import random
import tempfile
import types

import engine

PID = "C15"
RULE = ("quick+thorough, deterministic part: (A) every single window (w0, w1) on the 15-minute grid "
        "(96x96 incl. empty w0==w1, midnight-crossing, end 00:00) evaluated at all 96 grid instants, "
        "00:00, 23:59:59.999999 and +-1us/+-1s/+-1min around both ends, and at every minute of the day "
        "for the 24x24 layouts on the hourly grid (thorough: every minute for all 96x96); "
        "(B) all two-window layouts with ends on a 3-hour grid (adjacent, nested, overlapping, "
        "crossing); (C) 9 season tables (disjoint, gap, overlapping = first wins, single-day, "
        "inverted, leap day, no 'windows' key, level missing) x every voltage level x every minute of "
        "every day next to a season bound; (D) core standing time: all 128 weekday subsets x holiday "
        "yes/no x the 7 days of a week, every single core window on the 15-minute grid, two-window "
        "layouts, None/{}/missing keys; (E) get_time_windows_from_json on generated files: aligned and "
        "off-grid starts, stop not a multiple, stop<=start, aware/naive/mixed offsets, missing "
        "operator/'windows'/level; (F) dt_to_end_of_time_window incl. non-terminating configurations "
        "(call budget = the model's fuel); (G) datetime adapter self-check; (H) Scenario.gcWindowSchedule of "
        "real peak_load_window runs (tests' scenario_A, generated window files, 3 levels).  Seeded part: random "
        "3-window layouts, random season tables, random core configurations, random series and a "
        "malformed stream (bad time tuples, missing start/end; only error kinds compared). "
        "Correspondence is equality, except at F1 sites (t == end of a non-wrapping core window) where the "
        "property's answer is also accepted, and for scans that give up after >= 7 days (C17's subject). "
        "non-trivial = the evaluated instants contain both inside and outside answers; "
        "distinct = distinct case descriptions")
EXHAUSTIVE = {"quick": True, "thorough": True}
CHUNK = 150
ASSUMPTIONS = [
    "datetimes are naive or carry a fixed UTC offset (what datetime.fromisoformat produces); years stay "
    "inside 1..9999 (no OverflowError)",
    "window times are naive datetime.time objects; core standing time tuples are ints",
    "holiday entries are strings; the adapter sends the ordinal of a canonical ISO date and 0 otherwise "
    "(the code compares dt.date().isoformat() with the strings)",
    "series: interval > 0 (for interval <= 0 and start < stop the loop does not terminate; theorem "
    "C15_series_nonterminating, not executed on the real code)",
]
UNPROVED = []
TRUSTED = ["harness adapter date -> toordinal(), time -> microseconds since midnight, tzinfo -> utcoffset "
           "(checked against the model's date/time/weekday by the `dtparts` stream)"]

engine.use_repo()

D = 86_400_000_000
MIN = 60_000_000
H = 3_600_000_000
Q15 = 15 * MIN
LEVELS = ["HV", "HV/MV", "MV", "MV/LV", "LV"]


# ------------------------------------------------------------------------------------------
# adapters (field copies)

def tod(us):
    """microseconds since midnight -> datetime.time"""
    s, u = divmod(us, 1_000_000)
    m, s = divmod(s, 60)
    h, m = divmod(m, 60)
    return dtm.time(h, m, s, u)


def us_of(t):
    return ((t.hour * 60 + t.minute) * 60 + t.second) * 1_000_000 + t.microsecond


def mkdt(day, us, off):
    """day: ISO date string, us: microseconds since midnight, off: None or utc offset in minutes"""
    tz = None if off is None else dtm.timezone(dtm.timedelta(minutes=off))
    return dtm.datetime.combine(dtm.date.fromisoformat(day), tod(us), tzinfo=tz)


def w_dt(d):
    """wire form of a datetime"""
    off = d.utcoffset()
    o = "N" if off is None else "S %d" % ((off.days * 86400 + off.seconds) * 1_000_000 + off.microseconds)
    return "%d %d %s" % (d.toordinal(), us_of(d), o)


def w_list(xs, f=str):
    return " ".join([str(len(xs))] + [f(x) for x in xs])


def w_opt(x, f):
    return "N" if x is None else "S " + f(x)


def w_season(s, times_us):
    """s: {"s": iso, "e": iso, "w": None | {level: [[a, b], ...]}}; times_us converts an end point"""
    def lv(item):
        name, ws = item
        return "%s %s" % (name, w_list(ws, lambda w: "%d %d" % (times_us(w[0]), times_us(w[1]))))
    return "%d %d %s" % (dtm.date.fromisoformat(s["s"]).toordinal(), dtm.date.fromisoformat(s["e"]).toordinal(),
                         w_opt(s.get("w"), lambda w: w_list(list(w.items()), lv)))


def hol_ord(s):
    try:
        d = dtm.date.fromisoformat(s)
    except Exception:
        return 0
    return d.toordinal() if d.isoformat() == s else 0


def w_core(c):
    if c is None:
        return "N"

    def win(w):
        return "%s %s" % (w_opt(w.get("start"), w_list), w_opt(w.get("end"), w_list))
    return "S %s %s %s" % (w_opt(c.get("no_drive_days"), w_list),
                           w_opt(c.get("holidays"), lambda hs: w_list(hs, lambda h: str(hol_ord(h)))),
                           w_opt(c.get("times"), lambda ts: w_list(ts, win)))


ERR = {"ValueError": "V", "KeyError": "K", "TypeError": "T", "AssertionError": "A", "IndexError": "I",
       "ZeroDivisionError": "Z", "OverflowError": "O", "RuntimeError": "R"}


def errc(e):
    return ERR.get(type(e).__name__, "?" + type(e).__name__)


# ------------------------------------------------------------------------------------------
# the oracle: an independent statement of the property (half-open reading)

def in_halfopen(t, a, b):
    """t in [a, b) on the 24 h circle; empty for a == b"""
    return (t - a) % D < (b - a) % D


def tuple_us(tp):
    h, m, s, u = (list(tp) + [0, 0, 0, 0])[:4]
    return h * H + m * MIN + s * 1_000_000 + u


def oracle_window(d, seasons, level):
    day = (d.year, d.month, d.day)
    for s in seasons:
        lo = tuple(int(x) for x in s["s"].split("-"))
        hi = tuple(int(x) for x in s["e"].split("-"))
        if lo <= day <= hi:
            t = us_of(d)
            return any(in_halfopen(t, w[0], w[1]) for w in (s.get("w") or {}).get(level, []))
    return False


def oracle_core(d, c):
    if c is None:
        return True
    if (d.isoweekday() - 1) in set(c.get("no_drive_days") or []):
        return True
    if d.strftime("%Y-%m-%d") in (c.get("holidays") or []):
        return True
    t = us_of(d)
    return any(in_halfopen(t, tuple_us(w["start"]), tuple_us(w["end"])) for w in (c.get("times") or []))


def at_inclusive_end(d, c):
    """t == end of a non-wrapping configured window (the trigger predicate of finding F1)"""
    t = us_of(d)
    return any(tuple_us(w["start"]) <= tuple_us(w["end"]) == t for w in (c.get("times") or []))


# ------------------------------------------------------------------------------------------
# instants

def boundary_instants(ends):
    out = {0, D - 1}
    for b in ends:
        for k in (-MIN, -1_000_000, -1, 0, 1, 1_000_000, MIN):
            out.add((b + k) % D)
    return out


def sweep(kind):
    if kind == "minute":
        return range(0, D, MIN)
    if kind == "grid15":
        return range(0, D, Q15)
    if kind == "grid30":
        return range(0, D, 2 * Q15)
    if kind == "hour":
        return range(0, D, H)
    return []


def instants(case, ends):
    ts = sorted(set(sweep(case.get("sweep", "grid15"))) | boundary_instants(ends) | set(case.get("extra", [])))
    return [mkdt(day["d"], t, day.get("off")) for day in case["days"] for t in ts]


# ------------------------------------------------------------------------------------------
# case generation

def _day(d, off=None):
    return {"d": d, "off": off}


def _iso(d):
    return d.isoformat()


SEASON_TABLES = None


def season_tables():
    """(name, seasons) — windows differ per season so that a wrong season shows"""
    A = {"HV": [[8 * H, 12 * H]], "MV": [[11 * H, 11 * H + 45 * MIN], [22 * H, 2 * H]], "LV": [[0, 6 * H]]}
    B = {"HV": [[16 * H, 19 * H + 30 * MIN]], "MV": [[17 * H, 20 * H]], "MV/LV": [[23 * H, 0]]}
    C = {"HV": [[0, D - MIN]], "MV": [[6 * H, 6 * H]], "LV": [[12 * H, 11 * H]]}
    return [
        ("disjoint", [{"s": "2020-01-02", "e": "2020-02-29", "w": A}, {"s": "2020-03-01", "e": "2020-05-31", "w": B},
                      {"s": "2020-12-01", "e": "2020-12-31", "w": C}]),
        ("overlap_first_wins", [{"s": "2020-01-01", "e": "2020-03-15", "w": A},
                                {"s": "2020-03-01", "e": "2020-04-30", "w": B},
                                {"s": "2020-01-01", "e": "2020-12-31", "w": C}]),
        ("overlap_reversed", [{"s": "2020-01-01", "e": "2020-12-31", "w": C},
                              {"s": "2020-03-01", "e": "2020-04-30", "w": B}]),
        ("single_day", [{"s": "2021-06-15", "e": "2021-06-15", "w": A}, {"s": "2021-06-16", "e": "2021-06-16", "w": B}]),
        ("inverted", [{"s": "2021-03-10", "e": "2021-03-01", "w": A}, {"s": "2021-03-01", "e": "2021-03-10", "w": B}]),
        ("across_years", [{"s": "2019-11-01", "e": "2020-02-29", "w": B}, {"s": "2020-03-01", "e": "2021-01-01", "w": A}]),
        ("no_windows_key", [{"s": "2020-01-01", "e": "2020-01-31", "w": None},
                            {"s": "2020-01-15", "e": "2020-02-15", "w": A}]),
        ("empty_levels", [{"s": "2020-01-01", "e": "2020-01-31", "w": {}},
                          {"s": "2020-01-01", "e": "2020-02-15", "w": {"MV": []}},
                          {"s": "2020-01-01", "e": "2020-03-15", "w": A}]),
        ("empty_table", []),
    ]


def days_around(seasons):
    out = set()
    for s in seasons:
        for k in ("s", "e"):
            d0 = dtm.date.fromisoformat(s[k])
            for dd in (-1, 0, 1):
                out.add(_iso(d0 + dtm.timedelta(days=dd)))
    if not out:
        out = {"2020-02-29"}
    return sorted(out)


def gen_cases(tier, seed):
    thorough = tier == "thorough"
    rnd = random.Random(seed * 1000003 + 15)
    day = "2020-01-15"     # a Wednesday inside the season of the single-season table
    one = lambda ws, lvl="MV": [{"s": "2020-01-02", "e": "2020-01-31", "w": {lvl: ws}}]  # noqa: E731

    # (G) adapter self-check
    for iso, td in [("2020-01-01T00:00:00", 0), ("2020-02-28T23:59:59.999999", 1), ("2020-03-01T00:00:00", -1),
                    ("0001-01-01T00:00:00", 86399999999), ("2023-12-31T12:34:56.789012+02:00", 13 * H),
                    ("2024-02-29T06:00:00-05:30", -7 * D), ("1999-12-31T23:59:00", MIN)]:
        yield {"k": "parts", "dt": iso, "td": td}
    for _ in range(60 if not thorough else 2000):
        d0 = dtm.datetime(1, 1, 2) + dtm.timedelta(days=rnd.randint(0, 3_600_000), microseconds=rnd.randint(0, D - 1))
        yield {"k": "parts", "dt": d0.isoformat(), "td": rnd.choice([1, -1, MIN, -MIN, D, -D, rnd.randint(-9 * D, 9 * D)])}

    # (A) every single window on the 15-minute grid
    for a in range(0, D, Q15):
        for b in range(0, D, Q15):
            yield {"k": "win", "level": "MV", "seasons": one([[a, b]]), "days": [_day(day)],
                   "sweep": "minute" if thorough else "grid15"}
    if not thorough:      # every minute of the day for the layouts on the hourly grid
        for a in range(0, D, H):
            for b in range(0, D, H):
                yield {"k": "win", "level": "MV", "seasons": one([[a, b]]), "days": [_day(day)], "sweep": "minute"}
                yield {"k": "core", "cst": {"times": [{"start": [a // H, 0], "end": [b // H, 0]}]},
                       "days": [_day("2020-01-08")], "sweep": "minute"}
    # (B) two windows, ends on a 3-hour grid, second window also shifted by 15 minutes
    g3 = list(range(0, D, 3 * H))
    for a, b, c, d_ in itertools.product(g3, repeat=4):
        yield {"k": "win", "level": "MV", "seasons": one([[a, b], [(c + Q15) % D, d_]]), "days": [_day(day)],
               "sweep": "grid15" if thorough else "hour"}
    # off-grid and sub-minute window ends, every minute
    for ws in ([[11 * H + 11 * MIN + 11_000_000, 11 * H + 45 * MIN + 1]], [[D - 1, 1]], [[1, D - 1]], [[0, 0]],
               [[0, D - 1]], [[D - MIN, 0]], [[12 * H, 12 * H + 1]], [[12 * H + 1, 12 * H]],
               [[11 * H, 11 * H + 45 * MIN], [22 * H, 2 * H]], [[22 * H, 2 * H], [2 * H, 22 * H]],
               [[6 * H, 8 * H], [8 * H, 10 * H], [10 * H, 6 * H]], []):
        yield {"k": "win", "level": "MV", "seasons": one(ws), "days": [_day(day), _day("2020-01-31", 120)],
               "sweep": "minute"}
    # (C) season tables x levels x every minute of the days next to each bound
    for name, seasons in season_tables():
        days = days_around(seasons)
        for lvl in LEVELS + ["none"]:
            for i in range(0, len(days), 2):
                yield {"k": "win", "level": lvl, "seasons": seasons, "table": name,
                       "days": [_day(x) for x in days[i:i + 2]], "sweep": "minute"}
        # aware datetimes: the local date decides, not the UTC date
        yield {"k": "win", "level": "MV", "seasons": seasons, "table": name,
               "days": [_day(days[0], 840), _day(days[-1], -720), _day(days[len(days) // 2], 60)], "sweep": "grid15"}

    # (D) core standing time
    week = ["2020-01-%02d" % x for x in range(6, 13)]          # Monday .. Sunday
    for mask in range(128):
        nd = [i for i in range(7) if mask >> i & 1]
        for hol in (None, [], ["2020-01-08"], ["2021-01-08", "2020-01-09", "2020-01-12"]):
            c = {"no_drive_days": nd, "times": [{"start": [22, 0], "end": [5, 30]}]}
            if hol is not None:
                c["holidays"] = hol
            yield {"k": "core", "cst": c, "days": [_day(x) for x in week], "sweep": "hour"}
    for c in (None, {}, {"no_drive_days": []}, {"holidays": []}, {"times": []}, {"no_drive_days": [7, -1, 9]},
              {"holidays": ["2020-01-08"]}, {"no_drive_days": [2, 2, 5]}):
        yield {"k": "core", "cst": c, "days": [_day(x) for x in week], "sweep": "grid15"}
    for a in range(0, D, Q15):
        for b in range(0, D, Q15):
            c = {"times": [{"start": [a // H, a % H // MIN], "end": [b // H, b % H // MIN]}]}
            yield {"k": "core", "cst": c, "days": [_day("2020-01-08")], "sweep": "minute" if thorough else "grid15"}
    for a, b, c_, d_ in itertools.product(g3, repeat=4):
        c2 = (c_ + Q15) % D
        c = {"times": [{"start": [a // H, 0], "end": [b // H, 0]}, {"start": [c2 // H, 15], "end": [d_ // H, 0]}]}
        yield {"k": "core", "cst": c, "days": [_day("2020-01-09")], "sweep": "grid15" if thorough else "hour"}
    for times in ([{"start": [10, 0], "end": [12, 30]}], [{"start": [22, 0], "end": [5, 30]}],
                  [{"start": [22, 30], "end": [5, 30]}, {"start": [10, 0], "end": [13, 0]}],
                  [{"start": [0], "end": [23, 59]}], [{"start": [0, 0], "end": [23, 59, 59, 999999]}],
                  [{"start": [0, 0], "end": [12, 0]}, {"start": [12, 0], "end": [0, 0]}],
                  [{"start": [11, 11, 11], "end": [11, 45, 0, 1]}], [{"start": [12], "end": [12]}],
                  [{"start": [], "end": []}], [{"start": [23, 59, 59, 999999], "end": [0, 0, 0, 1]}]):
        yield {"k": "core", "cst": {"times": times, "no_drive_days": [5, 6], "holidays": ["2020-01-01"]},
               "days": [_day("2020-01-01"), _day("2020-01-02", 60), _day("2020-01-04")], "sweep": "minute"}

    # (E) series through the real get_time_windows_from_json
    fileA = {"operator": {"season": {"start": "2020-01-02", "end": "2020-01-31",
                                     "windows": {"level": [["11:00", "11:45"], ["22:00", "02:00"]]}}}}
    fileB = {"opA": {"winter": {"start": "2020-01-01", "end": "2020-02-29",
                                "windows": {"HV": [["08:00", "12:00"]], "MV": [["17:00:30", "19:30"], ["23:45", "00:15"]]}},
                     "all": {"start": "2020-01-01", "end": "2020-12-31", "windows": {"MV": [["00:00", "23:59"]]}},
                     "spring": {"start": "2020-03-01", "end": "2020-05-31", "windows": {"MV": [["06:00", "07:00"]]}}},
             "opB": {"s": {"start": "2020-02-29", "end": "2020-02-29", "windows": {"MV": [["12:00", "12:00:00.000001"]]}}},
             "opC": {"bad": {"start": "2020-01-01", "end": "2020-12-31"}}}
    ser = []
    for start, stop, iv in [
            ("2020-01-01T00:00:00+02:00", "2020-01-01T00:00:00+02:00", 15), ("2020-03-14T00:00:00", "2020-03-15T00:00:00", 15),
            ("2020-01-11T11:11:11", "2020-01-11T11:41:11", 15), ("2020-01-11T11:11:11", "2020-01-11T13:56:11", 15),
            ("2020-01-11T11:11:11", "2020-01-12T11:11:11", 15), ("2020-01-31T20:00:00", "2020-02-01T04:00:00", 1),
            ("2020-01-01T21:00:00", "2020-01-02T03:00:00", 7), ("2020-01-11T11:00:00", "2020-01-11T11:44:59.999999", 15),
            ("2020-01-11T11:00:00", "2020-01-11T11:45:00.000001", 15), ("2020-01-11T11:00:00", "2020-01-11T11:45:00", 15),
            ("2020-01-11T12:00:00", "2020-01-11T11:00:00", 15), ("2020-01-11T11:00:00", "2020-01-11T11:00:00.000001", 60),
            ("2020-01-11T11:00:00+01:00", "2020-01-11T12:00:00+02:00", 15),
            ("2020-01-11T11:00:00+02:00", "2020-01-11T12:00:00+01:00", 15),
            ("2020-01-11T11:00:00+01:00", "2020-01-11T12:00:00", 15), ("2020-01-11T11:00:00", "2020-01-11T10:00:00+01:00", 15)]:
        ser.append((fileA, "operator", "level", start, stop, iv * MIN))
    ser += [(fileA, "nobody", "level", "2020-01-11T11:00:00", "2020-01-11T12:00:00", Q15),
            (fileA, "operator", "other", "2020-01-11T11:00:00", "2020-01-11T12:00:00", Q15),
            (fileB, "opC", "MV", "2020-01-11T11:00:00", "2020-01-11T12:00:00", Q15),
            (fileB, "opC", "MV", "2020-01-11T11:00:00", "2020-01-11T10:00:00", Q15),
            (fileB, "opB", "MV", "2020-02-28T23:00:00", "2020-03-01T01:00:00", H),
            (fileB, "opB", "MV", "2020-02-29T11:59:59.999999", "2020-02-29T12:00:00.000003", 1)]
    for lvl in ("HV", "MV", "LV"):
        for start, stop, iv in [("2020-02-28T00:00:00", "2020-03-02T00:00:00", Q15),
                                ("2019-12-31T12:00:00+01:00", "2020-01-01T12:00:00+01:00", 5 * MIN),
                                ("2020-05-31T22:00:30", "2020-06-01T02:00:00", MIN),
                                ("2020-12-31T00:00:00", "2021-01-01T06:00:00", 20 * MIN + 1)]:
            ser.append((fileB, "opA", lvl, start, stop, iv))
    for f, op, lvl, a, b, iv in ser:
        yield {"k": "series", "file": f, "op": op, "level": lvl, "start": a, "stop": b, "interval_us": iv}

    # (F) end-of-window scan
    base = {"times": [{"start": [22, 0], "end": [5, 30]}], "no_drive_days": [5, 6]}
    never = [None, {"no_drive_days": [0, 1, 2, 3, 4, 5, 6]}, {"no_drive_days": [6, 5, 4, 3, 2, 1, 0, 0], "times": []},
             {"times": [{"start": [0, 0], "end": [23, 59]}]},
             {"times": [{"start": [0, 0], "end": [12, 0]}, {"start": [12, 0], "end": [0, 0]}]},
             {"no_drive_days": [0, 2, 4, 6], "times": [{"start": [0, 0], "end": [23, 59, 59, 999999]}]},
             {"no_drive_days": [0, 1, 2, 3, 4, 5], "holidays": ["2020-01-12", "2020-01-19"],
              "times": [{"start": [0, 0], "end": [23, 59]}]}]
    ends = [base, {"times": [{"start": [10, 0], "end": [13, 0]}]}, {"no_drive_days": [0, 1, 2, 3, 4, 5]},
            {"no_drive_days": [0, 1, 2, 3, 4, 5], "holidays": ["2020-01-12", "2020-01-19"]},
            {"holidays": ["2020-01-10", "2020-01-11"], "no_drive_days": [3], "times": [{"start": [22, 0], "end": [0, 0]}]},
            {"times": [{"start": [0, 0], "end": [23, 58]}]}, {}, {"times": [{"start": [13, 0], "end": [13, 0]}]},
            {"times": []}]
    for cur in ("2020-01-09T13:00:00", "2020-01-09T22:00:30", "2020-01-10T23:59:00+01:00", "2020-01-11T00:00:00",
                "2020-01-08T12:59:59.999999", "2020-01-09T00:00:30"):
        for c in never + ends:
            yield {"k": "toend", "cur": cur, "cst": c}

    # (H) users: Scenario.gcWindowSchedule of a real peak_load_window run (tests' scenario_A, 2018-01-01+02:00)
    plwA = {"winter": {"start": "2018-01-01", "end": "2018-01-01",
                       "windows": {"MV": [["08:15", "09:30"], ["11:00", "12:30"], ["22:00", "02:00"]], "HV": [["00:00", "06:00"]]}},
            "rest": {"start": "2018-01-02", "end": "2018-12-31", "windows": {"MV": [["00:15", "00:45"], ["23:45", "00:00"]]}}}
    plwB = {"first": {"start": "2017-12-01", "end": "2018-01-01", "windows": {"LV": [["00:00", "23:59"]]}},
            "shadowed": {"start": "2018-01-01", "end": "2018-01-02", "windows": {"MV": [["06:00", "18:00"]]}},
            "nokey": {"start": "2018-01-03", "end": "2018-01-03"}}
    # listed out of chronological order: a short override season first, the long regular season (which starts
    # earlier) second - "first listed" is about the order of the file, not about the dates
    plwC = {"override": {"start": "2018-01-01", "end": "2018-01-02",
                         "windows": {"MV": [["06:00", "18:00"]], "HV": [["01:00", "02:30"]], "LV": [["23:00", "01:00"]]}},
            "regular": {"start": "2017-06-01", "end": "2018-12-31",
                        "windows": {"MV": [["00:15", "00:45"], ["20:00", "21:00"]], "HV": [["12:00", "13:00"]],
                                    "LV": [["09:00", "09:15"]]}},
            "earliest": {"start": "2017-01-01", "end": "2018-01-01", "windows": {"MV": [["00:00", "23:59"]]}}}
    for f in ({"opX": plwA}, {"opX": plwB}, {"opY": plwB, "opX": plwA}, {"opX": plwC}, {"opY": plwA, "opX": plwC}):
        for lvl in ("MV", "HV", "LV"):
            for n in (96, 200):
                yield {"k": "plw", "scenario": "scenario_A.json", "n": n, "level": lvl, "op": "opX", "file": f}
    # several connectors: same / different voltage levels, served by the same / different grid operators
    two_ops = {"opY": plwB, "opX": plwA, "opZ": {"all": {"start": "2018-01-01", "end": "2018-12-31", "windows": {
        "MV": [["03:00", "04:00"]], "HV": [["03:30", "05:00"]], "LV": [["10:00", "10:30"]]}}}}
    for gcs in ([("MV", "opX"), ("MV", "opZ")], [("MV", "opZ"), ("MV", "opX"), ("MV", "opY")],
                [("HV", "opX"), ("MV", "opX"), ("HV", "opZ")], [("LV", "opY"), ("LV", "opZ"), ("MV", "opZ"), ("MV", "opX")]):
        for n in (96, 200):
            yield {"k": "plw", "scenario": "scenario_A.json", "n": n, "level": gcs[0][0], "op": gcs[0][1],
                   "file": two_ops, "gcs": gcs}

    # ---- seeded part
    def rtime(grid=True):
        if grid and rnd.random() < 0.7:
            return rnd.randrange(0, D, Q15)
        return rnd.choice([rnd.randrange(0, D, MIN), rnd.randrange(0, D, 1_000_000), rnd.randrange(0, D)])

    n = 150 if not thorough else 6000
    for _ in range(n):              # three-window layouts, adjacent ends made likely
        ws = []
        for _j in range(3):
            a = rtime() if not ws or rnd.random() < 0.5 else ws[-1][1]
            b = rnd.choice([rtime(), a, (a + Q15) % D, (a - Q15) % D])
            ws.append([a, b])
        yield {"k": "win", "level": "MV", "seasons": one(ws), "days": [_day(day)], "sweep": "grid15"}
    for _ in range(60 if not thorough else 1500):      # random season tables
        d0 = dtm.date(2020, 1, 1)
        seasons = []
        for _j in range(rnd.randint(1, 4)):
            s = d0 + dtm.timedelta(days=rnd.randint(0, 20))
            e = s + dtm.timedelta(days=rnd.choice([-1, 0, 0, 1, 3, 9]))
            w = rnd.choice([None, {}, {lv: [[rtime(), rtime()] for _x in range(rnd.randint(0, 2))]
                                       for lv in rnd.sample(LEVELS, rnd.randint(1, 3))}])
            seasons.append({"s": _iso(s), "e": _iso(e), "w": w})
        days = rnd.sample(days_around(seasons), 2)
        yield {"k": "win", "level": rnd.choice(LEVELS), "seasons": seasons, "days": [_day(x, rnd.choice([None, None, 60, -480])) for x in days],
               "sweep": "grid30"}
    for _ in range(150 if not thorough else 6000):     # random core configurations
        c = {}
        if rnd.random() < 0.6:
            c["no_drive_days"] = rnd.sample(range(7), rnd.randint(0, 3))
        if rnd.random() < 0.5:
            c["holidays"] = ["2020-01-%02d" % rnd.randint(6, 12) for _x in range(rnd.randint(0, 2))]
        ts = []
        for _j in range(rnd.randint(0, 3)):
            a, b = rtime(), rtime()
            if rnd.random() < 0.3:
                b = a
            mk = lambda t: [t // H, t % H // MIN] + ([t % MIN // 1_000_000, t % 1_000_000] if t % MIN else [])  # noqa: E731
            ts.append({"start": mk(a), "end": mk(b)})
        if ts or rnd.random() < 0.5:
            c["times"] = ts
        yield {"k": "core", "cst": c, "days": [_day(x, rnd.choice([None, 120])) for x in rnd.sample(week, 2)],
               "sweep": "grid30"}
    for _ in range(40 if not thorough else 1500):      # random series
        a = dtm.datetime(2020, rnd.choice([1, 2, 3, 5, 12]), rnd.randint(1, 28), rnd.randint(0, 23), rnd.choice([0, 0, 15, 11]),
                         rnd.choice([0, 0, 11]))
        iv = rnd.choice([Q15, Q15, MIN, 5 * MIN, H, 7 * MIN + 1])
        nsteps = rnd.randint(0, 200)
        b = a + dtm.timedelta(microseconds=iv * nsteps + rnd.choice([0, 0, 1, -1, iv // 2]))
        off = rnd.choice(["", "", "+01:00"])
        yield {"k": "series", "file": fileB, "op": rnd.choice(["opA", "opA", "opB"]), "level": rnd.choice(["HV", "MV", "LV"]),
               "start": a.isoformat() + off, "stop": b.isoformat() + off, "interval_us": iv}
    for _ in range(30 if not thorough else 600):       # random end-of-window scans
        c = {"no_drive_days": rnd.sample(range(7), rnd.randint(0, 7)),
             "times": [{"start": [rnd.randint(0, 23), rnd.choice([0, 30])], "end": [rnd.randint(0, 23), rnd.choice([0, 30, 59])]}
                       for _x in range(rnd.randint(0, 2))]}
        if rnd.random() < 0.4:
            c["holidays"] = ["2020-01-%02d" % rnd.randint(8, 14)]
        cur = dtm.datetime(2020, 1, rnd.randint(6, 12), rnd.randint(0, 23), rnd.choice([0, 30, 59]), rnd.choice([0, 0, 30]))
        yield {"k": "toend", "cur": cur.isoformat(), "cst": c}
    # (I) the window table as PeakLoadWindow.__init__ derives it from the file's text (conversion, year replacement,
    # connector defaults) and the other strategy constructors: harness/s_init.py, Model/StratInit.lean
    import s_init
    yield from s_init.init_cases(tier, seed)
    # malformed stream: only error kinds are compared
    bad_t = [[24, 0], [23, 60], [-1, 0], [1, 2, 60], [1, 2, 3, 1000000], [1, 2, 3, 4, 5], [25, 0, 0, 0, 5], [1, 2, 3, 4, 5, 6]]
    for _ in range(80 if not thorough else 1500):
        ts = []
        for _j in range(rnd.randint(1, 3)):
            w = {"start": rnd.choice([[10, 0], [22, 0], rnd.choice(bad_t)]), "end": rnd.choice([[12, 0], [5, 0], rnd.choice(bad_t)])}
            if rnd.random() < 0.25:
                del w[rnd.choice(["start", "end"])]
            ts.append(w)
        c = {"times": ts, "no_drive_days": rnd.choice([[], [2]]),
             "holidays": rnd.choice([[], ["2020-1-8"], ["20200108"], ["2020-01-08 "], ["junk", "2020-01-09"]])}
        yield {"k": "core", "cst": c, "days": [_day("2020-01-08"), _day("2020-01-09")], "sweep": "hour", "bad": 1}


# ------------------------------------------------------------------------------------------
# evaluation

def core_instants(case):
    ends = []
    for w in ((case["cst"] or {}).get("times") or []):
        for key in ("start", "end"):
            try:
                ends.append(tuple_us(w[key]) % D)
            except Exception:
                pass
    return instants(case, ends)


def _f1_site(d, c):
    """instant at which finding F1 applies and the property's answer is 'outside' """
    return c is not None and at_inclusive_end(d, c) and not oracle_core(d, c)


def _valid_tuple(tp):
    lim = (24, 60, 60, 1_000_000)
    return isinstance(tp, list) and len(tp) <= 4 and all(0 <= x < m for x, m in zip(tp, lim))


def compare(case, impl, model):
    """Equality, except: the model transliterates the pinned code including defect F1.  At an F1 site
    (t == end of a non-wrapping core window, property says outside) an implementation that gives the
    property's answer is not a broken correspondence — so that a future repair of F1 is not an alarm."""
    if impl == model:
        return None
    k = case["k"]
    if k == "init":
        import s_init
        return s_init.compare(case, impl, model)
    if k == "core" and len(impl) == len(model):
        c = case["cst"]
        if case.get("bad"):
            # malformed stream: what follows the closed end may be another window or an error
            good = [w for w in c.get("times", []) if _valid_tuple(w.get("start")) and _valid_tuple(w.get("end"))]
            site = lambda d, a: at_inclusive_end(d, {"times": good})  # noqa: E731
        else:
            site = lambda d, a: a == "0" and _f1_site(d, c)  # noqa: E731
        for d, a, b in zip(core_instants(case), impl[1:], model[1:]):
            if a != b and not (b == "1" and site(d, a)):
                return "differs at %s: impl %s model %s" % (d.isoformat(), a, b)
        return None
    if k == "toend" and impl.isdigit() and (model == "!FUEL" or (model.isdigit() and int(model) > int(impl))):
        d = _parse_dt(case["cur"]) + dtm.timedelta(microseconds=int(impl))
        if _f1_site(d, case["cst"]):
            return None
        if int(impl) >= 7 * D:
            # a scan that gives up after a week or more (the bounded-scan repair O3 planned under C17):
            # how long a never/late-ending scan runs is C17's subject, not a C15 correspondence
            return None
    if k == "toend" and model == "!FUEL" and impl.startswith("!"):
        return None          # the real scan raised instead of running forever: C17's subject
    return "differs"


class _Budget(BaseException):
    """not an Exception: nothing in the code under test may swallow it"""


def _parse_dt(s):
    return dtm.datetime.fromisoformat(s)


def eval_case(case):
    from spice_ev import util
    k = case["k"]
    if k == "init":
        import s_init
        return s_init.eval_any(case)
    viol, stats = [], [k]
    if k == "parts":
        d = _parse_dt(case["dt"])
        td = case["td"]
        line = "dtparts %s %d" % (w_dt(d), td)
        e = d + dtm.timedelta(microseconds=td)
        f = lambda x: "%d %d %d" % (x.date().toordinal(), us_of(x.time()), x.weekday())  # noqa: E731
        return {"lines": [line], "impl": [f(d) + " | " + f(e)], "violations": [], "nontrivial": True, "stats": stats}

    if k == "win":
        seasons, level = case["seasons"], case["level"]
        ends = [t for s in seasons for ws in (s.get("w") or {}).values() for w in ws for t in w]
        dts = instants(case, ends)
        tw = {}
        for i, s in enumerate(seasons):
            info = {"start": dtm.date.fromisoformat(s["s"]), "end": dtm.date.fromisoformat(s["e"])}
            if s.get("w") is not None:
                info["windows"] = {lv: [(tod(w[0]), tod(w[1])) for w in ws] for lv, ws in s["w"].items()}
            tw["season%d" % i] = info
        line = "window %s %s %s" % (level, w_list(seasons, lambda s: w_season(s, int)), w_list(dts, w_dt))
        out = []
        for d in dts:
            try:
                r = util.datetime_within_time_window(d, tw, level)
                out.append("1" if r is True else "0" if r is False else "?")
            except Exception as e:
                out.append(errc(e))
        bad = [(d, o) for d, o in zip(dts, out) if o != ("1" if oracle_window(d, seasons, level) else "0")]
        if bad:
            d, o = bad[0]
            viol.append(("window_iff", "C15:window_membership",
                         "%d of %d instants differ from the half-open first-season predicate; first: %s level=%s got=%s"
                         % (len(bad), len(dts), d.isoformat(), level, o)))
        if any(w[1] < w[0] for s in seasons for ws in (s.get("w") or {}).values() for w in ws):
            stats.append("win:wrapping")
        if len(seasons) > 1:
            stats.append("win:multi_season")
        return {"lines": [line], "impl": ["w" + "".join(out)], "violations": viol,
                "nontrivial": "0" in out and "1" in out, "stats": stats}

    if k == "core":
        c = case["cst"]
        dts = core_instants(case)
        line = "core %s %s" % (w_core(c), w_list(dts, w_dt))
        out = []
        for d in dts:
            try:
                r = util.dt_within_core_standing_time(d, c)
                out.append("1" if r is True else "0" if r is False else "?")
            except Exception as e:
                out.append(errc(e))
        if not case.get("bad"):
            f1, other = [], []
            for d, o in zip(dts, out):
                want = oracle_core(d, c)
                if o == ("1" if want else "0"):
                    continue
                if o == "1" and not want and at_inclusive_end(d, c):
                    f1.append(d)
                else:
                    other.append((d, o))
            if f1:
                viol.append(("core_halfopen", "C15:core_nonwrapping_end_inclusive",
                             "%d instants equal to the end of a non-wrapping window are inside; first: %s times=%s"
                             % (len(f1), f1[0].isoformat(), json.dumps(c.get("times")))))
                stats.append("core:F1_trigger")
            if other:
                d, o = other[0]
                viol.append(("core_iff", "C15:core_membership",
                             "%d of %d instants differ from the property's predicate; first: %s got=%s cst=%s"
                             % (len(other), len(dts), d.isoformat(), o, json.dumps(c))))
        else:
            stats.append("malformed")
        if c is None:
            stats.append("core:none")
        elif any(tuple_us(w["end"]) < tuple_us(w["start"]) for w in (c.get("times") or [])
                 if "start" in w and "end" in w and len(w["start"]) <= 4 and len(w["end"]) <= 4):
            stats.append("core:wrapping")
        if any(o not in "01" for o in out):
            stats.append("core:error")
        return {"lines": [line], "impl": ["c" + "".join(out)], "violations": viol,
                "nontrivial": "0" in out and "1" in out, "stats": stats}

    if k == "series":
        f, op, level = case["file"], case["op"], case["level"]
        start, stop, iv = _parse_dt(case["start"]), _parse_dt(case["stop"]), case["interval_us"]
        scen = types.SimpleNamespace(start_time=start, stop_time=stop, interval=dtm.timedelta(microseconds=iv))
        with tempfile.TemporaryDirectory(prefix="c15_") as tmp:
            path = os.path.join(tmp, "time_windows.json")
            with open(path, "w", encoding="utf-8") as fh:
                json.dump(f, fh)
            try:
                res = util.get_time_windows_from_json(path, op, level, scen)
                impl = "%d s%s" % (len(res), "".join("1" if r is True else "0" if r is False else "?" for r in res))
            except Exception as e:
                res, impl = None, "!" + type(e).__name__

        def tus(s):
            return us_of(dtm.time.fromisoformat(s))

        def wfile(item):
            name, seasons = item
            return "%s %s" % (name, w_list(list(seasons.values()), lambda s: w_season(
                {"s": s["start"], "e": s["end"], "w": s.get("windows")}, tus)))
        line = "series %s %s %s %s %s %d" % (w_list(list(f.items()), wfile), op, level, w_dt(start), w_dt(stop), iv)
        # oracle: inside the quantifier = operator present, every season has windows, comparable times
        ok_in = op in f and all("windows" in s for s in f[op].values()) and \
            (start.tzinfo is None) == (stop.tzinfo is None)
        nontrivial = False
        if ok_in:
            seasons = [{"s": s["start"], "e": s["end"],
                        "w": {lv: [[tus(a), tus(b)] for a, b in ws] for lv, ws in s["windows"].items()}}
                       for s in f[op].values()]
            span = stop - start
            span_us = (span.days * 86400 + span.seconds) * 1_000_000 + span.microseconds
            n = max(0, -(-span_us // iv))
            if res is None:
                viol.append(("series", "C15:series_raises", impl))
            elif len(res) != n:
                viol.append(("series", "C15:series_length", "len=%d want ceil(%d/%d)=%d" % (len(res), span_us, iv, n)))
            else:
                for i, r in enumerate(res):
                    t = start + dtm.timedelta(microseconds=i * iv)
                    if r is not oracle_window(t, seasons, level):
                        viol.append(("series", "C15:series_entry", "entry %d (%s) is %s" % (i, t.isoformat(), r)))
                        break
                nontrivial = True in res and False in res
            stats.append("series:n=0" if n == 0 else "series:aligned" if span_us % iv == 0 else "series:ragged")
        else:
            stats.append("series:error_input")
        return {"lines": [line], "impl": [impl], "violations": viol, "nontrivial": nontrivial, "stats": stats}

    if k == "plw":
        import contextlib
        import io
        import warnings
        from spice_ev import scenario as scn
        inp = engine.REPO / "tests" / "test_data" / "input_test_strategies" / case["scenario"]
        j = json.loads(inp.read_text())
        j["scenario"]["n_intervals"] = case["n"]
        j["scenario"].pop("stop_time", None)
        for gc in j["components"]["grid_connectors"].values():
            gc["voltage_level"] = case["level"]
            gc["grid_operator"] = case["op"]
        cfg = {gid: (case["level"], case["op"]) for gid in j["components"]["grid_connectors"]}
        for i, (lv, op) in enumerate(case.get("gcs", [])[1:]):
            gid = "GCX%d" % i
            j["components"]["grid_connectors"][gid] = {"max_power": 100, "voltage_level": lv, "grid_operator": op,
                                                       "cost": {"type": "fixed", "value": 0.3}}
            cfg[gid] = (lv, op)
        with tempfile.TemporaryDirectory(prefix="c15_") as tmp:
            path = os.path.join(tmp, "time_windows.json")
            with open(path, "w", encoding="utf-8") as fh:
                json.dump(case["file"], fh)
            sc = scn.Scenario(j, inp.parent)
            with warnings.catch_warnings(), contextlib.redirect_stdout(io.StringIO()):
                warnings.simplefilter("ignore")
                sc.run("peak_load_window", {"time_windows": path})
        def seasons_of(op):
            return [{"s": x["start"], "e": x["end"],
                     "w": None if "windows" not in x else
                     {lv: [[us_of(dtm.time.fromisoformat(a)), us_of(dtm.time.fromisoformat(b))] for a, b in ws]
                      for lv, ws in x["windows"].items()}} for x in case["file"][op].values()]
        lines, impls = [], []
        nontrivial = False
        for gcid, sched_w in sc.gcWindowSchedule.items():
            level, op = cfg[gcid]
            seasons = seasons_of(op)
            dts = [sc.start_time + i * sc.interval for i in range(len(sched_w))]
            lines.append("window %s %s %s" % (level, w_list(seasons, lambda x: w_season(x, int)), w_list(dts, w_dt)))
            impls.append("w" + "".join("1" if r is True else "0" if r is False else "?" for r in sched_w))
            if sc.step_i != case["n"] or len(sched_w) != case["n"]:
                viol.append(("series", "C15:window_schedule_length", "%s: %d entries, step_i=%d, n_intervals=%d"
                             % (gcid, len(sched_w), sc.step_i, case["n"])))
            bad = [(d, r) for d, r in zip(dts, sched_w) if r is not oracle_window(d, seasons, level)]
            if bad:
                viol.append(("series", "C15:window_schedule_entry", "%s: %d of %d steps differ; first %s is %s"
                             % (gcid, len(bad), len(dts), bad[0][0].isoformat(), bad[0][1])))
            nontrivial = nontrivial or (True in sched_w and False in sched_w)
        return {"lines": lines, "impl": impls, "violations": viol, "nontrivial": nontrivial, "stats": stats}

    if k == "toend":
        from spice_ev.strategies import schedule as sched
        cur, c = _parse_dt(case["cur"]), case["cst"]
        if c is None:
            fuel = 0
        else:
            last = max([cur.toordinal()] + [hol_ord(h) for h in (c.get("holidays") or [])])
            fuel = (last - cur.toordinal() + 2) * 10080
        calls = [0]
        orig = util.dt_within_core_standing_time

        def counted(d, cst):
            calls[0] += 1
            r = orig(d, cst)
            if r and calls[0] > fuel:
                raise _Budget()
            return r
        me = types.SimpleNamespace(current_time=cur, core_standing_time=c)
        saved = sched.dt_within_core_standing_time
        sched.dt_within_core_standing_time = counted
        try:
            r = sched.Schedule.dt_to_end_of_time_window(me)
            impl = "%d" % ((r.days * 86400 + r.seconds) * 1_000_000 + r.microseconds)
        except _Budget:
            r, impl = None, "!FUEL"
        except Exception as e:
            r, impl = None, "!" + type(e).__name__
        finally:
            sched.dt_within_core_standing_time = saved
        line = "toend %s %s" % (w_dt(cur), w_core(c))
        # consistency of the scan with the implementation's own predicate (the property does not speak
        # about this function; termination is C17's)
        if r is not None:
            kmin = (r.days * 86400 + r.seconds) // 60
            gave_up = r >= dtm.timedelta(days=7)      # bounded scan (repair O3), see compare()
            if r != dtm.timedelta(minutes=kmin) or (orig(cur + r, c) and not gave_up) or \
                    not all(orig(cur + dtm.timedelta(minutes=j), c) for j in range(min(kmin, 30000))):
                viol.append(("end_of_window", "C15:end_of_window_scan", "returned %s from %s" % (r, cur)))
        stats.append("toend:never" if impl == "!FUEL" else "toend:ends")
        return {"lines": [line], "impl": [impl], "violations": viol, "nontrivial": r is not None and r > dtm.timedelta(0),
                "stats": stats}
    raise ValueError("unknown case kind %r" % k)
