#!/usr/bin/env python3
"""tools/gen_anchors.py — record the source fingerprints the models were written against.

anchors.json = {"repo_head": <hash>, "files": {<path>: sha256 of ast.dump(file)}, "properties": {<pid>: [paths]}}.
The fingerprint ignores comments and layout.  A property's file list is the closure of its `anchors.files`
(properties.jsonl) under static imports inside the repository (a file that uses importlib.import_module depends on every
strategy module).  harness/engine.py compares the current tree with this table on every run: a changed file never is a
violation by itself, it makes the check explore more inputs (see engine.source_drift).  Regenerate after every `fix:`
commit in /repo:  python3 tools/gen_anchors.py"""
import ast
import hashlib
import json
import os
import subprocess
import sys

VERIF = os.path.dirname(os.path.dirname(os.path.abspath(__file__)))
REPO = os.environ.get("VERIF_REPO", "/repo")


def fingerprint(path):
    try:
        return hashlib.sha256(ast.dump(ast.parse(open(path, encoding="utf-8").read())).encode()).hexdigest()
    except (SyntaxError, OSError, UnicodeDecodeError) as e:
        return "unparsable:" + type(e).__name__


def py_files(repo):
    out = []
    for base, dirs, files in os.walk(repo):
        dirs[:] = [d for d in dirs if d not in (".git", "tests", "doc", "examples", "__pycache__", "build")
                   and not d.endswith(".egg-info")]
        for f in files:
            if f.endswith(".py") and f != "setup.py":
                out.append(os.path.relpath(os.path.join(base, f), repo))
    return sorted(out)


def imports_of(repo, rel, files):
    try:
        tree = ast.parse(open(os.path.join(repo, rel), encoding="utf-8").read())
    except (SyntaxError, OSError):
        return set(files)
    mods, dyn = set(), False
    for n in ast.walk(tree):
        if isinstance(n, ast.Import):
            mods |= {a.name for a in n.names}
        elif isinstance(n, ast.ImportFrom) and n.module:
            mods.add(n.module)
            mods |= {n.module + "." + a.name for a in n.names}
        elif isinstance(n, ast.Attribute) and n.attr == "import_module":
            dyn = True
        elif isinstance(n, ast.Name) and n.id == "import_module":
            dyn = True
    out = set()
    for m in mods:
        p = m.replace(".", "/") + ".py"
        if p in files:
            out.add(p)
    if dyn:
        out |= {f for f in files if f.startswith("spice_ev/strategies/")}
    return out


def closure(repo, start, files):
    seen, todo = set(), [f for f in start if f in files]
    while todo:
        f = todo.pop()
        if f in seen:
            continue
        seen.add(f)
        todo += list(imports_of(repo, f, files) - seen)
    return sorted(seen)


def table(repo):
    files = py_files(repo)
    fset = set(files)
    props = {}
    for ln in open(os.path.join(VERIF, "properties.jsonl")):
        d = json.loads(ln)
        props[d["id"]] = closure(repo, d.get("anchors", {}).get("files", []), fset)
    return {"files": {f: fingerprint(os.path.join(repo, f)) for f in files}, "properties": props}


if __name__ == "__main__":
    t = table(REPO)
    t["python"] = "%d.%d" % sys.version_info[:2]
    t["repo_head"] = subprocess.run(["git", "-C", REPO, "rev-parse", "HEAD"], capture_output=True, text=True).stdout.strip()
    json.dump(t, open(os.path.join(VERIF, "anchors.json"), "w"), indent=1, sort_keys=True)
    print("anchors.json: %d files, head %s" % (len(t["files"]), t["repo_head"][:7]))
    for p, fs in sorted(t["properties"].items()):
        print(" ", p, len(fs), "files")
