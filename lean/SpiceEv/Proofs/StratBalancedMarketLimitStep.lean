/-
The connector limit for the whole `BalancedMarket.step` (all connectors), without stationary
batteries and V2G vehicles: `stepGc_limit` per connector plus the frame of the other connectors.
-/
import SpiceEv.Proofs.StratBalancedMarketLimit
import SpiceEv.Proofs.StratBalancedMarketStation
import SpiceEv.Proofs.StrategiesBat
set_option linter.unusedSectionVars false
set_option linter.unusedSimpArgs false
set_option linter.unusedVariables false
namespace SpiceEv.BalancedMarket
open SpiceEv
variable {α B : Type} [Field α] [LinearOrder α] [IsStrictOrderedRing α]

theorem vehicleBody_gcs (ops : Ops α B) (env : Env α) (g g' : GSt α B) (vid : String)
    (h : vehicleBody ops env g vid = .ok g') : g'.w.gcs = g.w.gcs := by
  unfold vehicleBody at h
  split at h
  · cases h
  · split at h
    · cases h
    · split at h
      · cases h
      · split at h
        · cases h
        · simp only [bind, Except.bind] at h
          split at h
          · cases h
          · split at h
            · cases h
            · split at h
              · cases h
              · split at h
                · cases h
                · simp only [Except.ok.injEq] at h
                  subst h; rfl

theorem surplusBody_gcs (ops : Ops α B) (env : Env α) (g g' : GSt α B) (vid : String)
    (h : surplusBody ops env g vid = .ok g') : g'.w.gcs = g.w.gcs := by
  unfold surplusBody at h
  split at h
  · cases h
  · split at h
    · cases h
    · split at h
      · cases h
      · simp only at h
        split at h
        · simp only [bind, Except.bind] at h
          split at h
          · cases h
          · simp only [Except.ok.injEq] at h
            subst h; rfl
        · simp only [Except.ok.injEq] at h
          subst h; rfl

/-- `step_gc` in a world without stationary batteries: the other connectors are untouched, the
connector ids stay, there is still no battery -/
theorem stepGc_frame (ops : Ops α B) (law : BatLaw ops.toBatOps) (R : B → B → Prop)
    (sl : SimLaw ops R) (env : Env α) (w w' : SWorld α B) (gcId : String)
    (cmds : List (String × α)) (gc : GcS α) (hgc : w.gc? gcId = some gc)
    (heps : 0 ≤ env.eps) (hM : 0 ≤ gc.curMax) (hbase : gc.currentLoad ≤ gc.curMax)
    (hfut : ∀ e ∈ env.events, env.now < e.start) (hW : WInv w)
    (hnov2g : ∀ v ∈ w.vehicles, v.v2g = false) (hnobat : w.batteries = [])
    (h : stepGc ops env w gcId = .ok (w', cmds)) :
    (∀ x ∈ w'.gcs, x.id ≠ gcId → x ∈ w.gcs) ∧ w'.gcs.map (·.id) = w.gcs.map (·.id) ∧
      w'.batteries = [] := by
  obtain ⟨_, hgid⟩ := gc?_some w gcId gc hgc
  unfold stepGc at h
  rw [hgc] at h
  simp only [bind, Except.bind] at h
  split at h
  · cases h
  · rename_i vs hvs
    split at h
    · cases h
    · rename_i vids hvids
      split at h
      · cases h
      · rename_i ts hts
        split at h
        · cases h
        · rename_i g1 hg1
          split at h
          · cases h
          · rename_i g2 hg2
            split at h
            · cases h
            · rename_i nCheap hn
              rw [hnobat] at h
              simp only [List.map_nil, List.foldlM_nil, pure, Except.pure, Except.ok.injEq, Prod.mk.injEq] at h
              obtain ⟨rfl, _⟩ := h
              have hhead := timestepsOf_head ops env gc ts hfut hts
              have h0 : GInv gc.curMax gc.currentLoad gcId (⟨w, gc, ts, [], []⟩ : GSt α B) ∧
                  (⟨w, gc, ts, [], []⟩ : GSt α B).w.batteries = w.batteries ∧
                  (⟨w, gc, ts, [], []⟩ : GSt α B).w.gcs = w.gcs :=
                ⟨⟨rfl, hgid, le_refl _, hbase, fun t0 ht0 => by rw [hhead t0 ht0], rfl, hW, hnov2g⟩, rfl, rfl⟩
              have h1 := foldlM_inv _
                (fun g => GInv gc.curMax gc.currentLoad gcId g ∧ g.w.batteries = w.batteries ∧ g.w.gcs = w.gcs)
                (fun g vid g' hg hstep =>
                  ⟨vehicleBody_GInv ops law R sl env _ _ gcId g g' vid hg.1 hstep,
                   by rw [vehicleBody_batteries ops env g g' vid hstep]; exact hg.2.1,
                   by rw [vehicleBody_gcs ops env g g' vid hstep]; exact hg.2.2⟩)
                vids _ g1 h0 hg1
              have h2 := foldlM_inv _
                (fun g => GInv2 gc.curMax gc.currentLoad gcId g ∧ g.w.batteries = w.batteries ∧ g.w.gcs = w.gcs)
                (fun g vid g' hg hstep =>
                  ⟨surplusBody_GInv2 ops law env _ _ gcId heps hM g g' vid hg.1 hstep,
                   by rw [surplusBody_batteries ops env g g' vid hstep]; exact hg.2.1,
                   by rw [surplusBody_gcs ops env g g' vid hstep]; exact hg.2.2⟩)
                vids _ g2 ⟨h1.1.toGInv2, h1.2⟩ hg2
              refine ⟨?_, ?_, ?_⟩
              · intro x hx hid
                rcases mem_setGc _ _ x hx with rfl | ⟨hm, _⟩
                · exact absurd h2.1.gcid hid
                · rw [h2.2.2] at hm; exact hm
              · rw [setGc_ids, h2.2.2]
              · show g2.w.batteries = []
                rw [h2.2.1, hnobat]

/-- fold over the connector ids: processed connectors are within their limit, the others untouched -/
theorem stepFold_limit (ops : Ops α B) (law : BatLaw ops.toBatOps) (R : B → B → Prop)
    (sl : SimLaw ops R) (env : Env α) (w0 : SWorld α B) (heps : 0 ≤ env.eps)
    (hfut : ∀ e ∈ env.events, env.now < e.start)
    (hbase : ∀ g ∈ w0.gcs, 0 ≤ g.curMax ∧ g.currentLoad ≤ g.curMax) :
    ∀ (rest done : List String) (st st' : SWorld α B × List (String × α)),
      (∀ id ∈ rest, id ∉ done) → rest.Nodup →
      st.1.gcs.map (·.id) = w0.gcs.map (·.id) → WInv st.1 → NoV2g st.1 → NNInv st.1 →
      st.1.batteries = [] →
      (∀ g' ∈ st.1.gcs, (g'.id ∈ done → ∃ g ∈ w0.gcs, g.id = g'.id ∧ g.currentLoad ≤ g'.currentLoad ∧
          g'.currentLoad ≤ g.curMax ∧ g'.curMax = g.curMax) ∧ (g'.id ∉ done → g' ∈ w0.gcs)) →
      rest.foldlM (fun (st : SWorld α B × List (String × α)) gid => do
        let (w', c) ← stepGc ops env st.1 gid
        pure (w', sdUpdate st.2 c)) st = .ok st' →
      st'.1.gcs.map (·.id) = w0.gcs.map (·.id) ∧
      ∀ g' ∈ st'.1.gcs, (g'.id ∈ done ++ rest → ∃ g ∈ w0.gcs, g.id = g'.id ∧
          g.currentLoad ≤ g'.currentLoad ∧ g'.currentLoad ≤ g.curMax ∧ g'.curMax = g.curMax) ∧
        (g'.id ∉ done ++ rest → g' ∈ w0.gcs) := by
  intro rest
  induction rest with
  | nil =>
    intro done st st' _ _ hids _ _ _ _ hI h
    simp only [List.foldlM_nil, pure, Except.pure, Except.ok.injEq] at h
    subst h
    exact ⟨hids, by simpa using hI⟩
  | cons gid rest ih =>
    intro done st st' hnew hnd hids hW hnv hnn hnb hI h
    simp only [List.foldlM_cons, bind, Except.bind] at h
    split at h
    · cases h
    · rename_i st1 hst1
      split at hst1
      · cases hst1
      · rename_i r hr
        obtain ⟨w1, c1⟩ := r
        simp only [pure, Except.pure, Except.ok.injEq] at hst1
        subst hst1
        have hgidnew : gid ∉ done := hnew gid (List.mem_cons_self ..)
        -- the connector being processed is still the original one
        cases hgc : st.1.gc? gid with
        | none => unfold stepGc at hr; rw [hgc] at hr; cases hr
        | some gc =>
          obtain ⟨hgm, hgid⟩ := gc?_some st.1 gid gc hgc
          have hg0 : gc ∈ w0.gcs := (hI gc hgm).2 (by rw [hgid]; exact hgidnew)
          obtain ⟨hM, hb⟩ := hbase gc hg0
          have hlim := stepGc_limit ops law R sl env st.1 w1 gid c1 gc hgc heps hM hb hfut hW hnv
            (by intro b hb'; rw [hnb] at hb'; simp at hb') hr
          obtain ⟨hfr, hids1, hnb1⟩ := stepGc_frame ops law R sl env st.1 w1 gid c1 gc hgc heps hM hb hfut
            hW hnv hnb hr
          have hW1 := stepGc_WInv ops law env st.1 w1 gid c1 hW hr
          have hsv := stepGc_sv ops env (fun w => NoV2g w ∧ NNInv w)
            (fun w1 w2 hs hv hp => by
              unfold NoV2g NNInv at *
              rw [hs, hv]; exact hp)
            (fun g g' vid hp hstep => vehicleBody_nn ops law env g g' vid hp.1 hp.2 hstep)
            (fun g g' vid hp hstep => surplusBody_nn ops law env g g' vid hp.1 hp.2 hstep)
            st.1 w1 gid c1 ⟨hnv, hnn⟩ hr
          have hres := ih (done ++ [gid]) (w1, sdUpdate st.2 c1) st'
            (by
              intro id hid hmem
              rcases List.mem_append.mp hmem with hm | hm
              · exact hnew id (List.mem_cons_of_mem _ hid) hm
              · simp only [List.mem_singleton] at hm
                subst hm
                exact (List.nodup_cons.mp hnd).1 hid)
            (List.nodup_cons.mp hnd).2 (by rw [hids1]; exact hids) hW1 hsv.1 hsv.2 hnb1
            (by
              intro g' hg'
              by_cases hid : g'.id = gid
              · constructor
                · intro _
                  obtain ⟨l1, l2, l3⟩ := hlim g' hg' hid
                  exact ⟨gc, hg0, by rw [hgid, hid], l1, l2, l3⟩
                · intro hnot
                  exfalso; apply hnot
                  rw [hid]; simp
              · have hold := hfr g' hg' hid
                constructor
                · intro hmem
                  rcases List.mem_append.mp hmem with hm | hm
                  · exact (hI g' hold).1 hm
                  · simp only [List.mem_singleton] at hm
                    exact absurd hm hid
                · intro hnot
                  apply (hI g' hold).2
                  intro hm
                  exact hnot (List.mem_append_left _ hm))
            h
          simpa [List.append_assoc] using hres

/-- **the whole step, all connectors** -/
theorem step_limit (ops : Ops α B) (law : BatLaw ops.toBatOps) (R : B → B → Prop)
    (sl : SimLaw ops R) (env : Env α) (w w' : SWorld α B) (cmds : List (String × α))
    (heps : 0 ≤ env.eps) (hfut : ∀ e ∈ env.events, env.now < e.start)
    (hmax : ∀ s ∈ w.stations, 0 ≤ s.maxPower) (hnov2g : ∀ v ∈ w.vehicles, v.v2g = false)
    (hnobat : w.batteries = []) (hnd : (w.gcs.map (·.id)).Nodup)
    (hbase : ∀ g ∈ w.gcs, 0 ≤ g.curMax ∧ g.currentLoad ≤ g.curMax)
    (h : step ops env w = .ok (w', cmds)) :
    ∀ g' ∈ w'.gcs, ∃ g ∈ w.gcs, g.id = g'.id ∧ g.currentLoad ≤ g'.currentLoad ∧
      g'.currentLoad ≤ g.curMax ∧ g'.curMax = g.curMax := by
  unfold step at h
  have h0 : WInv (resetStations w) := by
    intro s hs
    unfold resetStations at hs
    simp only [List.mem_map] at hs
    obtain ⟨x, hx, rfl⟩ := hs
    have := hmax x hx
    exact ⟨by show -x.maxPower ≤ 0; linarith, this⟩
  have hnn0 : NNInv (resetStations w) := by
    intro s hs
    unfold resetStations at hs
    simp only [List.mem_map] at hs
    obtain ⟨x, _, rfl⟩ := hs
    exact le_refl _
  have hres := stepFold_limit ops law R sl env w heps hfut hbase (w.gcs.map (·.id)) []
    (resetStations w, []) (w', cmds)
    (by intro id _ hm; simp at hm) hnd rfl h0 (by intro v hv; exact hnov2g v hv) hnn0 hnobat
    (by intro g' hg'; exact ⟨by intro hm; simp at hm, fun _ => hg'⟩) h
  intro g' hg'
  apply (hres.2 g' hg').1
  simp only [List.nil_append]
  rw [← hres.1]
  exact List.mem_map_of_mem hg'

end SpiceEv.BalancedMarket
