/-
Helper lemmas for Properties/C17_Ctor.lean: inversion of the time block of `Scenario.__init__`
(Model/ScenarioCtor.lean), floor-division bracket, dict lemmas.
-/
import SpiceEv.Model.ScenarioCtor
import Mathlib.Tactic.Linarith
namespace SpiceEv.ScenarioCtor
open SpiceEv

theorem tdCheck_ok {us r : Int} (h : tdCheck us = .ok r) : r = us := by
  unfold tdCheck at h
  simp only at h
  split at h
  · injection h with h; exact h.symm
  · cases h

theorem dtAdd_ok {d r : DateTime} {td : Int} (h : dtAdd d td = .ok r) :
    r = d.add td ∧ 1 ≤ r.date ∧ r.date ≤ maxOrdinal := by
  unfold dtAdd at h
  simp only at h
  split at h
  · rename_i hc
    injection h with h; subst h; exact ⟨rfl, hc⟩
  · cases h

theorem dtSub_ok {a b : DateTime} {td : Int} (h : dtSub a b = .ok td) : a.sub? b = some td := by
  unfold dtSub at h
  split at h
  · rename_i x hx; injection h with h; subst h; exact hx
  · cases h

theorem tdFloorDiv_ok {a b n : Int} (h : tdFloorDiv a b = .ok n) : b ≠ 0 ∧ n = floorDiv a b := by
  unfold tdFloorDiv at h
  split at h
  · cases h
  · rename_i hb; injection h with h; exact ⟨hb, h.symm⟩

theorem tdMul_int_ok {iv n : Int} {r : Int × Int} (h : tdMul iv (.int n) = .ok r) :
    r = (n, iv * n) := by
  simp only [tdMul] at h
  cases hc : tdCheck (iv * n) with
  | error e => rw [hc] at h; cases h
  | ok td =>
    rw [hc] at h
    have := tdCheck_ok hc
    subst this
    injection h with h
    exact h.symm

/-- floor division brackets the dividend (positive divisor) -/
theorem floorDiv_bracket (a b : Int) (hb : 0 < b) :
    b * floorDiv a b ≤ a ∧ a < b * (floorDiv a b + 1) := by
  unfold floorDiv
  rw [Int.fdiv_eq_ediv_of_nonneg a (le_of_lt hb)]
  constructor
  · exact Int.mul_ediv_self_le (ne_of_gt hb)
  · have := Int.lt_mul_ediv_self_add (x := a) hb
    linarith

/-- … and is the only integer that does -/
theorem floorDiv_unique (a b n : Int) (hb : 0 < b) (h1 : b * n ≤ a) (h2 : a < b * (n + 1)) :
    floorDiv a b = n := by
  have ⟨l, u⟩ := floorDiv_bracket a b hb
  have : b * floorDiv a b < b * (n + 1) := lt_of_le_of_lt l h2
  have h3 : floorDiv a b < n + 1 := lt_of_mul_lt_mul_left this (le_of_lt hb)
  have : b * n < b * (floorDiv a b + 1) := lt_of_le_of_lt h1 u
  have h4 : n < floorDiv a b + 1 := lt_of_mul_lt_mul_left this (le_of_lt hb)
  omega

set_option linter.unusedSimpArgs false

theorem timeInit_n_given {t : TimeIn} {o : TimeOut} {nj : J} (h : timeInit t = .ok o)
    (hn : t.nIntervals = some nj) :
    ∃ sj ij n td, t.hasScenario = true ∧ t.startTime = some sj ∧
      isoOf t.startParsed sj = .ok (some o.start) ∧
      t.interval = some ij ∧ intervalOf ij = .ok o.interval ∧
      Bool.xor t.stopTime.isNone' t.nIntervals.isNone' = true ∧
      tdMul o.interval nj = .ok (n, td) ∧ dtAdd o.start td = .ok o.stop ∧ o.n = n := by
  unfold timeInit at h
  cases hs : t.hasScenario <;> simp only [hs, Bool.not_true, Bool.not_false, Bool.false_eq_true, if_true, if_false, ↓reduceIte] at h
  · cases h
  cases hst : t.startTime with
  | none => simp [hst, bind, Except.bind] at h
  | some sj =>
    cases hiso : isoOf t.startParsed sj with
    | error e => simp [hst, hiso, bind, Except.bind, pure, Except.pure] at h
    | ok start =>
      cases hiv : t.interval with
      | none => simp [hst, hiso, hiv, bind, Except.bind, pure, Except.pure] at h
      | some ij =>
        cases hint : intervalOf ij with
        | error e => simp [hst, hiso, hiv, hint, bind, Except.bind, pure, Except.pure] at h
        | ok iv =>
          cases hx : Bool.xor t.stopTime.isNone' t.nIntervals.isNone' with
          | false => simp [hst, hiso, hiv, hint, hx, bind, Except.bind, pure, Except.pure] at h
          | true =>
            simp only [hst, hiso, hiv, hint, hx, bind, Except.bind, pure, Except.pure, Bool.not_true,
              Bool.false_eq_true, ↓reduceIte] at h
            simp only [hn] at h
            cases hm : tdMul iv nj with
            | error e => simp [hm] at h
            | ok r =>
              obtain ⟨n, td⟩ := r
              cases start with
              | none => simp [hm] at h
              | some s =>
                simp only [hm] at h
                cases hadd : dtAdd s td with
                | error e => simp [hadd] at h
                | ok stop =>
                  simp only [hadd, Bool.not_true, Bool.false_eq_true, ↓reduceIte] at h
                  injection h with h
                  subst h
                  exact ⟨sj, ij, n, td, rfl, rfl, hiso, rfl, hint, rfl, hm, hadd, rfl⟩


theorem timeInit_stop_given {t : TimeIn} {o : TimeOut} (h : timeInit t = .ok o)
    (hn : t.nIntervals = none) :
    ∃ sj ij stj delta, t.hasScenario = true ∧ t.startTime = some sj ∧
      isoOf t.startParsed sj = .ok (some o.start) ∧
      t.interval = some ij ∧ intervalOf ij = .ok o.interval ∧
      Bool.xor t.stopTime.isNone' t.nIntervals.isNone' = true ∧
      t.stopTime = some stj ∧ isoOf t.stopParsed stj = .ok (some o.stop) ∧
      dtSub o.stop o.start = .ok delta ∧ tdFloorDiv delta o.interval = .ok o.n := by
  unfold timeInit at h
  cases hs : t.hasScenario <;> simp only [hs, Bool.not_true, Bool.not_false, Bool.false_eq_true, if_true, if_false, ↓reduceIte] at h
  · cases h
  cases hst : t.startTime with
  | none => simp [hst, bind, Except.bind] at h
  | some sj =>
    cases hiso : isoOf t.startParsed sj with
    | error e => simp [hst, hiso, bind, Except.bind, pure, Except.pure] at h
    | ok start =>
      cases hiv : t.interval with
      | none => simp [hst, hiso, hiv, bind, Except.bind, pure, Except.pure] at h
      | some ij =>
        cases hint : intervalOf ij with
        | error e => simp [hst, hiso, hiv, hint, bind, Except.bind, pure, Except.pure] at h
        | ok iv =>
          cases hx : Bool.xor t.stopTime.isNone' t.nIntervals.isNone' with
          | false => simp [hst, hiso, hiv, hint, hx, bind, Except.bind, pure, Except.pure] at h
          | true =>
            simp only [hst, hiso, hiv, hint, hx, bind, Except.bind, pure, Except.pure, Bool.not_true,
              Bool.false_eq_true, ↓reduceIte] at h
            simp only [hn] at h
            cases hsp : t.stopTime with
            | none => simp [hsp] at h
            | some stj =>
              simp only [hsp] at h
              cases hiso2 : isoOf t.stopParsed stj with
              | error e => simp [hiso2] at h
              | ok stop =>
                simp only [hiso2] at h
                cases stop with
                | none => simp at h
                | some e =>
                  cases start with
                  | none => simp at h
                  | some s =>
                    simp only at h
                    cases hd : dtSub e s with
                    | error er => simp [hd] at h
                    | ok delta =>
                      simp only [hd] at h
                      cases hf : tdFloorDiv delta iv with
                      | error er => simp [hf] at h
                      | ok n =>
                        simp only [hf] at h
                        injection h with h
                        subst h
                        exact ⟨sj, ij, stj, delta, rfl, rfl, hiso, rfl, hint, rfl, rfl, hiso2, hd, hf⟩

/-! dict lemmas -/

theorem lookup_cons_ne {β : Type} (k : String) (kv : String × β) (rest : List (String × β))
    (h : (k == kv.1) = false) : List.lookup k (kv :: rest) = List.lookup k rest := by
  obtain ⟨a, b⟩ := kv
  rw [List.lookup_cons, h]

theorem lookup_cons_eq {β : Type} (k : String) (kv : String × β) (rest : List (String × β))
    (h : (k == kv.1) = true) : List.lookup k (kv :: rest) = some kv.2 := by
  obtain ⟨a, b⟩ := kv
  rw [List.lookup_cons, h]

theorem lookup_map_set {β : Type} (d : List (String × β)) (k : String) (v : β)
    (h : d.any (fun kv => kv.1 == k) = true) :
    (d.map (fun kv => if kv.1 == k then (k, v) else kv)).lookup k = some v := by
  induction d with
  | nil => simp at h
  | cons kv rest ih =>
    by_cases hk : kv.1 = k
    · simp only [List.map_cons, hk, beq_self_eq_true, ↓reduceIte]
      rw [lookup_cons_eq _ _ _ (by simp)]
    · have hk' : (k == kv.1) = false := by
        rw [beq_eq_false_iff_ne]; exact fun e => hk e.symm
      have hk2 : (kv.1 == k) = false := by rw [beq_eq_false_iff_ne]; exact hk
      simp only [List.map_cons, hk2, Bool.false_eq_true, ↓reduceIte]
      rw [lookup_cons_ne _ _ _ hk']
      apply ih
      simpa [hk2] using h

theorem lookup_append_new {β : Type} (d : List (String × β)) (k : String) (v : β)
    (h : d.any (fun kv => kv.1 == k) = false) :
    (d ++ [(k, v)]).lookup k = some v := by
  induction d with
  | nil => simp [List.lookup]
  | cons kv rest ih =>
    simp only [List.any_cons, Bool.or_eq_false_iff] at h
    have hk' : (k == kv.1) = false := by
      rw [beq_eq_false_iff_ne]; intro e; have := h.1; rw [beq_eq_false_iff_ne] at this; exact this e.symm
    simp only [List.cons_append]
    rw [lookup_cons_ne _ _ _ hk']
    exact ih h.2

theorem dictSet_lookup_self {β : Type} (d : List (String × β)) (k : String) (v : β) :
    (dictSet d k v).lookup k = some v := by
  unfold dictSet
  split
  · rename_i h; exact lookup_map_set d k v h
  · rename_i h; exact lookup_append_new d k v (by simpa only [Bool.not_eq_true] using h)

theorem lookup_map_ne {β : Type} (d : List (String × β)) (k k' : String) (v : β) (hne : k' ≠ k) :
    (d.map (fun kv => if kv.1 == k then (k, v) else kv)).lookup k' = d.lookup k' := by
  induction d with
  | nil => rfl
  | cons kv rest ih =>
    by_cases hk : kv.1 = k
    · have : (k' == kv.1) = false := by rw [beq_eq_false_iff_ne, hk]; exact hne
      have h2 : (k' == k) = false := by rw [beq_eq_false_iff_ne]; exact hne
      simp only [List.map_cons, hk, beq_self_eq_true, ↓reduceIte]
      rw [lookup_cons_ne _ _ _ (by simpa using h2), lookup_cons_ne _ _ _ this]
      exact ih
    · have hk2 : (kv.1 == k) = false := by rw [beq_eq_false_iff_ne]; exact hk
      simp only [List.map_cons, hk2, Bool.false_eq_true, ↓reduceIte]
      cases hc : (k' == kv.1)
      · rw [lookup_cons_ne _ _ _ hc, lookup_cons_ne _ _ _ hc]; exact ih
      · rw [lookup_cons_eq _ _ _ hc, lookup_cons_eq _ _ _ hc]

theorem lookup_append_ne {β : Type} (d : List (String × β)) (k k' : String) (v : β) (hne : k' ≠ k) :
    (d ++ [(k, v)]).lookup k' = d.lookup k' := by
  induction d with
  | nil =>
    have h2 : (k' == k) = false := by rw [beq_eq_false_iff_ne]; exact hne
    simp [List.lookup, h2]
  | cons kv rest ih =>
    simp only [List.cons_append]
    cases hc : (k' == kv.1)
    · rw [lookup_cons_ne _ _ _ hc, lookup_cons_ne _ _ _ hc]; exact ih
    · rw [lookup_cons_eq _ _ _ hc, lookup_cons_eq _ _ _ hc]

theorem dictSet_lookup_ne {β : Type} (d : List (String × β)) (k k' : String) (v : β) (hne : k' ≠ k) :
    (dictSet d k v).lookup k' = d.lookup k' := by
  unfold dictSet
  split
  · exact lookup_map_ne d k k' v hne
  · exact lookup_append_ne d k k' v hne


/-! option loop of `Strategy.__init__` -/

theorem optFold_lookup_notin (iv : Int) (opts : List (String × String)) (a : List (String × AVal))
    (k : String) (h : ∀ kv ∈ opts, kv.1 ≠ k) :
    (opts.foldl (optStep iv) a).lookup k = a.lookup k := by
  induction opts generalizing a with
  | nil => rfl
  | cons kv rest ih =>
    simp only [List.foldl_cons]
    rw [ih _ (fun x hx => h x (List.mem_cons_of_mem _ hx))]
    have hne : k ≠ kv.1 := fun e => h kv (List.mem_cons_self) e.symm
    unfold optStep
    split <;> exact dictSet_lookup_ne _ _ _ _ hne

theorem optFold_lookup_mem (iv : Int) (opts : List (String × String)) (a : List (String × AVal))
    (k v : String) (hmem : (k, v) ∈ opts) (hnd : (opts.map (·.1)).Nodup) (hk : k ≠ "interval") :
    (opts.foldl (optStep iv) a).lookup k = some (.tok v) := by
  induction opts generalizing a with
  | nil => cases hmem
  | cons kv rest ih =>
    simp only [List.map_cons, List.nodup_cons] at hnd
    simp only [List.foldl_cons]
    rcases List.mem_cons.mp hmem with e | hin
    · subst e
      rw [optFold_lookup_notin]
      · unfold optStep
        have : ((k, v).1 == "interval") = false := by
          simp only [beq_eq_false_iff_ne, ne_eq]; exact hk
        simp only [this, Bool.false_eq_true, ↓reduceIte]
        exact dictSet_lookup_self _ _ _
      · intro x hx e
        have hm := List.mem_map_of_mem (f := fun p : String × String => p.1) hx
        rw [e] at hm
        exact hnd.1 hm
    · exact ih _ hin hnd.2


/-! component constructors -/

/-- the loop over the required keys: success means every key was present -/
theorem requiredFold_ok (kvs : List (String × J)) (keys : List (String × Conv)) (t o : Attrs)
    (h : keys.foldlM (fun t (nc : String × Conv) =>
      match kvs.lookup nc.1 with
      | Option.none => (.error .key : R Attrs)
      | some v => do let x ← convert nc.2 v; .ok (setAttr t nc.1 x)) t = .ok o) :
    ∀ nc ∈ keys, kvs.lookup nc.1 ≠ none := by
  induction keys generalizing t with
  | nil => intro nc h; cases h
  | cons k rest ih =>
    intro nc hnc
    simp only [List.foldlM_cons, bind, Except.bind] at h
    cases hl : kvs.lookup k.1 with
    | none => rw [hl] at h; simp at h
    | some v =>
      rw [hl] at h
      simp only at h
      cases hc : convert k.2 v with
      | error e => rw [hc] at h; simp at h
      | ok x =>
        rw [hc] at h
        simp only at h
        rcases List.mem_cons.mp hnc with e | hin
        · subst e; rw [hl]; simp
        · exact ih _ h nc hin

theorem setAttrFromDict_ok (source : J) (t : Attrs) (keys : List (String × Conv))
    (optional : List (String × Conv × Val)) (o : Attrs)
    (h : setAttrFromDict source t keys optional = .ok o) :
    ∃ kvs, source = .obj kvs ∧ ∀ nc ∈ keys, kvs.lookup nc.1 ≠ none := by
  unfold setAttrFromDict at h
  split at h
  · rename_i kvs
    refine ⟨kvs, rfl, ?_⟩
    simp only [bind, Except.bind] at h
    split at h
    · cases h
    · rename_i t1 ht1
      exact requiredFold_ok kvs keys t t1 ht1
  · simp [pure, Except.pure] at h



theorem getAttr_setAttr_self (o : Attrs) (n : String) (v : Val) : getAttr (setAttr o n v) n = v := by
  unfold getAttr setAttr; rw [dictSet_lookup_self]; rfl

theorem getAttr_setAttr_ne (o : Attrs) (n n' : String) (v : Val) (h : n' ≠ n) :
    getAttr (setAttr o n v) n' = getAttr o n' := by
  unfold getAttr setAttr; rw [dictSet_lookup_ne _ _ _ _ h]

/-- required keys of the six component classes -/
theorem gridConnector_ok (obj : J) (o : Attrs) (h : gridConnector obj = .ok o) :
    (∃ kvs, obj = .obj kvs ∧ kvs.lookup "max_power" ≠ none) ∧
    getAttr o "cur_max_power" = getAttr o "max_power" ∧ getAttr o "avg_fixed_load" = .none := by
  unfold gridConnector at h
  simp only [bind, Except.bind] at h
  split at h
  · cases h
  · rename_i o1 h1
    injection h with h
    subst h
    obtain ⟨kvs, e, hk⟩ := setAttrFromDict_ok _ _ _ _ _ h1
    refine ⟨⟨kvs, e, hk ("max_power", .float) (by simp)⟩, ?_, ?_⟩
    · simp only [getAttr_setAttr_self,
        getAttr_setAttr_ne _ _ _ _ (show "max_power" ≠ "cur_max_power" by decide),
        getAttr_setAttr_ne _ _ _ _ (show "max_power" ≠ "avg_fixed_load" by decide)]
    · rw [getAttr_setAttr_ne _ _ _ _ (by decide), getAttr_setAttr_self]

theorem chargingStation_ok (obj : J) (o : Attrs) (h : chargingStation obj = .ok o) :
    ∃ kvs, obj = .obj kvs ∧ kvs.lookup "max_power" ≠ none ∧ kvs.lookup "parent" ≠ none := by
  obtain ⟨kvs, e, hk⟩ := setAttrFromDict_ok _ _ _ _ _ h
  exact ⟨kvs, e, hk ("max_power", .float) (by simp), hk ("parent", .str) (by simp)⟩

theorem photovoltaics_ok (obj : J) (o : Attrs) (h : photovoltaics obj = .ok o) :
    ∃ kvs, obj = .obj kvs ∧ kvs.lookup "nominal_power" ≠ none ∧ kvs.lookup "parent" ≠ none := by
  obtain ⟨kvs, e, hk⟩ := setAttrFromDict_ok _ _ _ _ _ h
  exact ⟨kvs, e, hk ("nominal_power", .float) (by simp), hk ("parent", .str) (by simp)⟩

theorem vehicleType_ok (obj : J) (o : Attrs) (h : vehicleType obj = .ok o) :
    (∃ kvs, obj = .obj kvs ∧ kvs.lookup "name" ≠ none ∧ kvs.lookup "capacity" ≠ none ∧
      kvs.lookup "charging_curve" ≠ none) ∧
    ∃ cc, getAttr o "charging_curve" = .curve cc ∧
      valNum (getAttr o "min_charging_power") ≤ cc.maxPower := by
  unfold vehicleType at h
  simp only [bind, Except.bind] at h
  split at h
  · cases h
  · rename_i o1 h1
    obtain ⟨kvs, e, hk⟩ := setAttrFromDict_ok _ _ _ _ _ h1
    refine ⟨⟨kvs, e, hk ("name", .str) (by simp), hk ("capacity", .float) (by simp),
      hk ("charging_curve", .curve) (by simp)⟩, ?_⟩
    split at h
    · cases h
    · rename_i cc hcc
      have hcurve : getAttr o1 "charging_curve" = .curve cc := by
        unfold valCurve at hcc
        split at hcc
        · rename_i c hc; injection hcc with e2; subst e2; exact hc
        · cases hcc
      split at h
      · cases h
      · rename_i hass
        have hle : valNum (getAttr o1 "min_charging_power") ≤ cc.maxPower := by
          simpa using hass
        split at h
        · split at h
          · cases h
          · rename_i dc hdc
            injection h with h
            subst h
            refine ⟨cc, ?_, ?_⟩
            · rw [getAttr_setAttr_ne _ _ _ _ (by decide)]; exact hcurve
            · rw [getAttr_setAttr_ne _ _ _ _ (by decide)]; exact hle
        · injection h with h
          subst h
          exact ⟨cc, hcurve, hle⟩

theorem batteryInit_ok (capacity soc eff : Rat) (loss : Val) (lc : Curve Rat) (uc : Option (Curve Rat))
    (b : Val) (h : batteryInit capacity soc eff loss lc uc = .ok b) :
    capacity ≠ 0 ∧ b = .battery capacity soc eff loss lc (uc.getD lc) := by
  unfold batteryInit at h
  split at h
  · cases h
  · rename_i hc; injection h with h; exact ⟨hc, h.symm⟩



theorem lookup_filter_removed {β : Type} (d : List (String × β)) (k : String) :
    (d.filter (fun kv => kv.1 != k)).lookup k = none := by
  induction d with
  | nil => rfl
  | cons kv rest ih =>
    simp only [List.filter_cons]
    split
    · rename_i hne
      have : (k == kv.1) = false := by
        rw [beq_eq_false_iff_ne]; intro e; simp [e] at hne
      rw [lookup_cons_ne _ _ _ this]; exact ih
    · exact ih

theorem stationaryBattery_ok (obj : J) (o : Attrs) (h : stationaryBattery obj = .ok o) :
    (∃ kvs, obj = .obj kvs ∧ kvs.lookup "charging_curve" ≠ none ∧ kvs.lookup "parent" ≠ none) ∧
    valNum (getAttr o "capacity") ≠ 0 := by
  unfold stationaryBattery at h
  simp only [bind, Except.bind] at h
  split at h
  · cases h
  · rename_i o1 h1
    obtain ⟨kvs, e, hk⟩ := setAttrFromDict_ok _ _ _ _ _ h1
    refine ⟨⟨kvs, e, hk ("charging_curve", .curve) (by simp), hk ("parent", .str) (by simp)⟩, ?_⟩
    split at h
    · cases h
    · rename_i cc hcc
      split at h
      · cases h
      · split at h
        · cases h
        · rename_i b hb
          obtain ⟨hne, hbe⟩ := batteryInit_ok _ _ _ _ _ _ _ hb
          subst hbe
          injection h with h
          subst h
          simp only [getAttr_setAttr_self,
            getAttr_setAttr_ne _ _ _ _ (show "capacity" ≠ "unloading_curve" by decide),
            getAttr_setAttr_ne _ _ _ _ (show "capacity" ≠ "loss_rate" by decide),
            getAttr_setAttr_ne _ _ _ _ (show "capacity" ≠ "efficiency" by decide),
            getAttr_setAttr_ne _ _ _ _ (show "capacity" ≠ "soc" by decide),
            getAttr_setAttr_ne _ _ _ _ (show "capacity" ≠ "loading_curve" by decide)]
          split
          · rename_i hpos
            rw [if_pos hpos] at hne
            simpa [valNum] using hne
          · simp [valNum]

theorem vehicle_ok (types : List (String × Attrs)) (obj : J) (o : Attrs)
    (h : vehicle types obj = .ok o) :
    (∃ kvs, obj = .obj kvs ∧ kvs.lookup "vehicle_type" ≠ none) ∧ o.lookup "soc" = none := by
  unfold vehicle at h
  simp only [bind, Except.bind] at h
  split at h
  · cases h
  · rename_i o1 h1
    obtain ⟨kvs, e, hk⟩ := setAttrFromDict_ok _ _ _ _ _ h1
    refine ⟨⟨kvs, e, hk ("vehicle_type", .vtype (types.map (·.1))) (by simp)⟩, ?_⟩
    split at h
    · split at h
      · cases h
      · split at h
        · cases h
        · injection h with h
          subst h
          exact lookup_filter_removed _ _
    · cases h


end SpiceEv.ScenarioCtor
