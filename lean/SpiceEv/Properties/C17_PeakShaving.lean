/-
C17 (termination) for the three data-dependent loops of the charging strategy `peak_shaving`
(Model/StratPeakShaving.lean): the `while` loop of `fast_charge` and the two bisections per stationary battery.
The model runs them on fuel; these theorems show the fuel suffices, i.e. the model's `FUEL` error is never the
answer and the loops of the code terminate (on exact numbers; the bit-level tie covers the doubles).
-/
import SpiceEv.Proofs.StratPeakShaving
set_option linter.unusedSectionVars false
set_option linter.unusedVariables false
namespace SpiceEv
open PeakShaving
variable {α B : Type} [Field α] [LinearOrder α] [IsStrictOrderedRing α]

/-- **The `while` loop of `fast_charge` terminates** for every input as soon as `EPS > 0`: within `2·n + 2` passes
for `n` timesteps of standing time (per level at most one "fill up" pass — which sets `prev_power` to the level —
followed by one `idx += 1` pass).  With `EPS ≤ 0` the code would loop forever on the first level
(`power_levels[0][0] − prev_power < EPS` is false for `0 < 0`). -/
theorem C17_peak_shaving_fast_charge_loop_terminates (eps energyNeeded tsph eff lcMax csMax : α) (heps : 0 < eps)
    (pls : List (α × Int)) (window : List (TS α)) (first : α × Int) (hfirst : pls[0]? = some first) :
    fcLoop eps energyNeeded tsph eff lcMax csMax pls window (2 * pls.length + 2) ⟨0, first.1, 0, 0⟩
      ≠ .error .fuel :=
  fcLoop_terminates eps energyNeeded tsph eff lcMax csMax heps pls window first hfirst

/-- **Both bisections of the battery pass terminate**: each pass halves the bracket exactly, so `fuel` passes suffice
whenever every predicted level is at most `EPS · 2^fuel` (the battery's own loops terminate: `NoFuelErr`, C01). -/
theorem C17_peak_shaving_battery_bisections_terminate (ops : PeakShaving.Ops α B) (law : BatLaw ops.bat)
    (hn : NoFuelErr ops) (env : PeakShaving.Env α) (heps : 0 ≤ env.eps) (nAhead : Int) (ts : List (TS α))
    (b : StatBatS α B) (hlev : ∀ pl ∈ powerLevels nAhead ts, pl ≤ env.eps * 2 ^ env.fuel) :
    batteryPlan ops env nAhead ts b ≠ .error .fuel :=
  batteryPlan_noFuel ops law hn env heps nAhead ts b hlev

/-- the bracket statement behind it, for one bisection: `fuel` passes suffice for a bracket of at most
`EPS · 2^fuel` -/
theorem C17_peak_shaving_bisection_fuel (ops : PeakShaving.Ops α B) (hn : NoFuelErr ops) (eps minCh : α)
    (heps : 0 ≤ eps) (levels : List α) (b : B) (fuel : Nat) (s : Bis1 α)
    (hw : s.maxP - s.minP ≤ eps * 2 ^ fuel) :
    bisect1 ops eps minCh levels b fuel s ≠ .error .fuel :=
  bisect1_fuel ops hn eps minCh heps levels b fuel s hw

/-! Non-vacuity: the battery plan of the C06 example (bracket [3, 8] kW, `EPS = 1e-5`) ends within the 60 passes it
is given — the result is a number, not `FUEL`. -/
example :
    (match batteryPlan toyOps ⟨1/100000, 4, 0, 900000000, 4 * 900000000, true, 60⟩ 4
        [⟨20, 3, 3⟩, ⟨20, 8, 8⟩, ⟨20, 8, 8⟩, ⟨20, 8, 8⟩] ⟨"B", "GC", 0, 1/2⟩ with
      | .ok p => decide (0 ≤ p)
      | .error _ => false) = true := by
  decide +kernel

end SpiceEv
