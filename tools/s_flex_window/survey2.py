"""which passes charge the same vehicle battery twice in one step (real code)"""
import sys, os, collections
os.environ.setdefault("VERIF_REPO", "/repo")
sys.path.insert(0, os.path.join(os.path.dirname(os.path.abspath(__file__)), "..", "..", "harness"))
import warnings; warnings.simplefilter("ignore")
import engine, scen, s_flex_window as S
from spice_ev import strategy as st_mod, battery as bat_mod
cls = st_mod.class_from_str("flex_window")
PASSES = ["distribute_balanced_vehicles", "distribute_surplus_to_vehicles", "distribute_balanced_v2g",
          "distribute_peak_shaving_vehicles", "distribute_surplus_power", "distribute_peak_shaving_v2g"]
cur = {"pass": None, "real": {}, "calls": None}
hits = collections.Counter(); ex = {}
def mk(name, fn):
    def w(self, *a, **k):
        old = cur["pass"]; cur["pass"] = name
        try: return fn(self, *a, **k)
        finally: cur["pass"] = old
    return w
for n in PASSES: setattr(cls, n, mk(n, getattr(cls, n)))
oload = bat_mod.Battery.load
def load(self, *a, **k):
    r = oload(self, *a, **k)
    if cur["calls"] is not None and id(self) in cur["real"] and r["avg_power"] > 1e-5:
        cur["calls"].setdefault(id(self), []).append(cur["pass"])
    return r
bat_mod.Battery.load = load
orig = cls.step
def step(self):
    cur["real"] = {id(v.battery): vid for vid, v in self.world_state.vehicles.items()}
    cur["calls"] = {}
    try: return orig(self)
    finally:
        gc = list(self.world_state.grid_connectors.values())[0]
        for b, ps in cur["calls"].items():
            if len(ps) >= 2:
                key = (self.LOAD_STRAT, "window=%s" % gc.window, tuple(ps)); hits[key] += 1; ex.setdefault(key, (cur["case"], str(self.current_time), cur["real"][b]))
        cur["calls"] = None
cls.step = step
for seed in (0, 1, 2, 3):
    for i in range(120):
        cur["case"] = (seed, i)
        scen.run_real(S.gen_full({"seed": seed, "i": i}), timeout_s=300, collect_ops=False)
for k, v in sorted(hits.items()): print(v, k, ex[k])
