"""Shared by c01.py / c02.py: build real Battery objects through spice_ev.components, run
operations on them, render results in the driver's format, generate batteries from a shape grammar,
and independent reference functions for the oracles (piecewise-linear lookup, RK4 integrator).
"""
import math
import random
import struct
from datetime import timedelta

from wire import encf, err

UNLIMITED = float(2 ** 64)
DAY_US = 86400 * 10 ** 6


def ulp_up(x):
    return math.nextafter(x, math.inf)


def ulp_dn(x):
    return math.nextafter(x, -math.inf)


# ------------------------------------------------------------------------------------------
# real objects

def build(case):
    """real Battery through components.Vehicle / components.StationaryBattery"""
    from spice_ev import components
    pts = [tuple(p) for p in case["pts"]]
    dis = case.get("dis")
    if case["kind"] == "V":
        vt = {"name": "t", "capacity": case["cap"], "charging_curve": pts}
        if case.get("eff") is not None:
            vt["battery_efficiency"] = case["eff"]
        if dis and "F" in dis:
            vt["v2g_power_factor"] = dis["F"]
        if dis and "C" in dis:
            vt["discharge_curve"] = [tuple(p) for p in dis["C"]]
        vtype = components.VehicleType(vt)
        v = components.Vehicle({"vehicle_type": "t", "soc": case["soc"]}, {"t": vtype})
        return v.battery
    obj = {"charging_curve": pts, "parent": "GC1", "capacity": case["cap"], "soc": case["soc"]}
    if case.get("eff") is not None:
        obj["efficiency"] = case["eff"]
    if dis and "C" in dis:
        obj["discharge_curve"] = [tuple(p) for p in dis["C"]]
    return components.StationaryBattery(obj)


def opt(x):
    return "N" if x is None else "S " + encf(x)


def pts_tok(pts):
    return "%d %s" % (len(pts), " ".join("%s %s" % (encf(a), encf(b)) for a, b in pts)) if pts else "0"


def proto_line(case, ops):
    dis = case.get("dis")
    if dis and "C" in dis:
        d = "C " + pts_tok(dis["C"])
    elif dis and "F" in dis and case["kind"] == "V":
        d = "F " + encf(dis["F"])
    else:
        d = "N"
    o = " ".join("%s %d %s %s %s" % (k, us, opt(mp), opt(ts), opt(tp)) for (k, us, mp, ts, tp) in ops)
    return "bat f %s %s %s %s %s %s %d %s" % (case["kind"], encf(case["cap"]), opt(case.get("eff")),
                                              encf(case["soc"]), pts_tok(case["pts"]), d, len(ops), o)


def run_ops(case, ops):
    """returns (rendered implementation output, list of per-op records).
    record = dict(op, before, after, avg, delta) or dict(op, before, error)"""
    recs = []
    try:
        bat = build(case)
    except Exception as e:
        return err(e), recs, None
    out = ["eps " + encf(bat.EPS)]
    for op in ops:
        k, us, mp, ts, tp = op
        td = timedelta(microseconds=us)
        before = float(bat.soc)
        try:
            if k == "A":
                avg, delta = bat.get_available_power(td), 0.0
            else:
                fn = bat.load if k == "L" else bat.unload
                r = fn(td, max_power=mp, target_soc=ts, target_power=tp)
                avg, delta = r["avg_power"], r["soc_delta"]
        except Exception as e:
            out.append(err(e))
            recs.append({"op": op, "before": before, "error": type(e).__name__,
                         "soc_at_error": float(bat.soc)})
            break
        out.append("%s %s %s" % (encf(avg), encf(delta), encf(bat.soc)))
        recs.append({"op": op, "before": before, "after": float(bat.soc), "avg": float(avg),
                     "delta": float(delta)})
    return " | ".join(out), recs, bat


def _bits(tok):
    return struct.unpack("<d", struct.pack("<Q", int(tok[1:], 16)))[0]


def op_resolution(case, op, before, after):
    """float resolution (in SoC) of the closed-form integration for one call (see `formula_scale`)"""
    k, us, mp, ts, tp = op
    if k == "A":
        k, mp, ts, tp = "U", None, None, None
    c, eta = capacity_of(case), eff_of(case)
    if not (c > 0 and 0 < eta):
        return 0.0
    try:
        cfn, dfn, cbrk, dbrk = curves_of(case)
        fn, brk = (cfn, cbrk) if k == "L" else (dfn, dbrk)
        limit = default_limit(case, k) if mp is None else mp
        eps, kb, T = 1e-5 / c, (eta if k == "L" else 1 / eta), us / 3.6e9
        if ts is not None:
            tgt = ts
        elif tp is not None:
            tgt = before + tp * eta * T / c if k == "L" else before - tp / eta * T / c
        else:
            tgt = 1.0 if k == "L" else 0.0
        tgt = min(1.0, tgt) if k == "L" else max(min(before, 0.0), tgt)
        sign = 1.0 if k == "L" else -1.0
        lo, hi = min(before, after), max(before, after)
        xs = sorted(set([lo, hi] + [x for x in brk if lo < x < hi]
                        + [max([x for x in brk if x < lo] or [0.0]), min([x for x in brk if x > hi] or [1.0])]))
        worst = chord_scale(fn, brk, limit, kb, eps, before, tgt, sign, after)
        for x0, x1 in zip(xs, xs[1:]):
            worst = max(worst, formula_scale(kb * min(fn(x0), limit), kb * min(fn(x1), limit), x1 - x0, eps, x0))
        return worst
    except Exception:
        return 0.0


def compare_ops(case, ops_list, impl, model):
    """Bit-level comparison of one driver line.  Identical text is the norm.  A numeric deviation is
    tolerated (DESIGN §8: harmless re-association of a float expression) only up to the resolution R
    of the SoC arithmetic: R = 64 ulp of max(1, SoC) (SoCs are O(1) and come out of formulas whose
    terms are O(1)), or 8x the closed form's resolution where that is
    worse than 1e-13 (finding D13: results are not stable to the last bits there); soc_delta and
    avg_power are differences of SoCs, so they are compared with the tolerance R implies for them.
    Error kinds, the number of results and EPS must agree exactly."""
    if impl == model:
        return None
    a, b = impl.split(" | "), model.split(" | ")
    if len(a) != len(b) or a[0] != b[0]:
        return "differs (shape/eps)"
    c, eta = capacity_of(case), eff_of(case)
    worst = None
    for ops in ops_list:
        if len(ops) < len(a) - 1:
            continue
        before = float(case["soc"])
        bad = None
        for op, x, y in zip(ops, a[1:], b[1:]):
            if x == y:
                if not x.startswith("!"):
                    before = _bits(x.split()[2])
                continue
            if x.startswith("!") or y.startswith("!"):
                bad = "differs: impl %s model %s" % (x, y)
                break
            (ai, di, si), (am, dm, sm) = [_bits(t) for t in x.split()], [_bits(t) for t in y.split()]
            res = op_resolution(case, op, before, si)
            R = max(64 * math.ulp(max(abs(before), abs(si), abs(sm), 1.0)), 8 * res if res > 1e-13 else 0.0)
            T = op[1] / 3.6e9
            kk = (eta if op[0] == "L" else 1 / eta)
            tol_avg = (2 * R * c / (T * kk) if T > 0 else 0.0) + 1e-12 * max(abs(ai), abs(am))
            if not (abs(si - sm) <= R and abs(di - dm) <= 2 * R and abs(ai - am) <= tol_avg):
                bad = "differs: impl (%r, %r, %r) model (%r, %r, %r), tolerance R=%.3g" % (ai, di, si, am, dm, sm, R)
                break
            before = si
        if bad is None:
            return None
        worst = bad
    return worst or "differs"


def compare_bits(case, impl, model):
    return compare_ops(case, [[tuple(o) for o in case["ops"]]], impl, model)


# ------------------------------------------------------------------------------------------
# independent reference functions (oracle side; deliberately not shared with the code under test)

def lerp(pts, s):
    """piecewise-linear lookup, pts sorted by SoC from 0 to 1; left of 0 the first power"""
    if s <= pts[0][0]:
        return pts[0][1]
    for a, b in zip(pts, pts[1:]):
        if s <= b[0]:
            return a[1] + (b[1] - a[1]) * (s - a[0]) / (b[0] - a[0])
    return pts[-1][1]


def wf_curve(pts):
    xs = [p[0] for p in pts]
    return (len(pts) >= 2 and xs[0] == 0 and xs[-1] == 1 and all(a < b for a, b in zip(xs, xs[1:]))
            and all(p[1] >= 0 and math.isfinite(p[1]) for p in pts))


def curves_of(case):
    """(charge power fn, discharge power fn, charge breakpoints, discharge breakpoints) at the
    terminals, before the limit"""
    cc = sorted(tuple(p) for p in case["pts"])
    dis = case.get("dis")
    maxp = max(p[1] for p in cc)
    if dis and "C" in dis:
        dc = sorted(tuple(p) for p in dis["C"])
        dfn = lambda s: lerp(dc, s)
        brk = [p[0] for p in dc]
    elif case["kind"] == "V":
        f = dis["F"] if dis and "F" in dis else 0.5
        dfn = lambda s: min(f * lerp(cc, s), maxp)
        brk = [p[0] for p in cc]
        for a, b in zip(cc, cc[1:]):       # crossings of f*curve with maxp
            ya, yb = f * a[1], f * b[1]
            if (ya - maxp) * (yb - maxp) < 0:
                brk.append(a[0] + (b[0] - a[0]) * (maxp - ya) / (yb - ya))
    else:
        dfn = lambda s: lerp(cc, s)
        brk = [p[0] for p in cc]
    return (lambda s: lerp(cc, s)), dfn, sorted(set(p[0] for p in cc)), sorted(set(brk))


def default_limit(case, k):
    cc = [tuple(p) for p in case["pts"]]
    dis = case.get("dis")
    if k == "L":
        return max(p[1] for p in cc)
    if dis and "C" in dis:
        return max(p[1] for p in dis["C"])
    if case["kind"] == "V":
        f = dis["F"] if dis and "F" in dis else 0.5
        return min(f * max(p[1] for p in cc), max(p[1] for p in cc))
    return max(p[1] for p in cc)


def capacity_of(case):
    return case["cap"] if (case["kind"] == "V" or case["cap"] >= 0) else UNLIMITED


def eff_of(case):
    return 0.95 if case.get("eff") is None else case["eff"]


def sup_power(fn, brk, a, b, limit):
    lo, hi = min(a, b), max(a, b)
    xs = [lo, hi] + [x for x in brk if lo < x < hi]
    return min(max(fn(x) for x in xs), limit)


def inf_power(fn, brk, a, b, limit):
    lo, hi = min(a, b), max(a, b)
    xs = [lo, hi] + [x for x in brk if lo < x < hi]
    return min(min(fn(x) for x in xs), limit)


def clamped_breaks(fn, brk, limit):
    """SoCs of the points of the clamped curve: the breakpoints plus the crossings with the limit"""
    out = set(brk)
    for a, b in zip(brk, brk[1:]):
        ya, yb = fn(a), fn(b)
        if (ya - limit) * (yb - limit) < 0:
            out.add(a + (b - a) * (limit - ya) / (yb - ya))
    return sorted(out)


def formula_scale(y1, y2, dx, eps, x):
    """resolution of the exponential closed form on a chord with end powers y1, y2 over dx: the code
    takes the exponential branch iff |m| >= EPS; the lookups carry a rounding noise of ~2 ulp, so for a
    short chord the computed slope can exceed EPS although the true slope is (almost) zero; worst case
    n/|m| <= y/max(|m| - noise, EPS/2)"""
    if dx <= 0:
        return 0.0
    ymax = max(abs(y1), abs(y2))
    noise = 2 * math.ulp(ymax) if ymax > 0 else 0.0
    m_hi = (abs(y2 - y1) + noise) / dx
    if m_hi < eps * 0.5:
        return 0.0
    m_lo = max(abs(y2 - y1) - noise, 0.0) / dx
    return (ymax / max(m_lo, eps * 0.5) + abs(x) + 1.0) * 2.0 ** -49


def chord_scale(fn, brk, limit, kb, eps, soc, target, sign, upto):
    """Float resolution (in SoC) of the closed form `-n/m + (n/m + soc)*exp(m/c*t)` along the chords
    `_adjust_soc` uses from `soc` towards `target` (boundaries within EPS of the SoC are skipped,
    below SoC 0 the chord runs to the first boundary above 0): the terms are of size max(|soc|, n/|m|),
    so the result carries an absolute error of a few ulp of that.  Only used to label / tolerate
    float-resolution effects, never to decide pass/fail of a clause by itself."""
    pts = clamped_breaks(fn, brk, limit)
    if sign > 0:
        bl = [x for x in pts[1:] if x > soc] or [pts[-1]]
    else:
        bl = [x for x in reversed(pts) if x <= soc] + [None]
    x, worst = soc, 0.0
    for b in bl:
        if b is None:
            x2 = target
        else:
            if sign * (b - x) < eps:
                continue
            x2 = min(target, b) if sign > 0 else max(target, b)
        if sign * (x2 - x) < eps * 0.5:
            break
        y1 = kb * min(fn(min(x, 1.0)), limit)
        y2 = kb * min(fn(min(x2, 1.0)), limit)
        worst = max(worst, formula_scale(y1, y2, abs(x2 - x), eps, x))
        x = x2
        if sign * (x - upto) >= 0:
            break
    return worst


def rk4(fn, limit, k, c, soc, T, target, sign, max_steps=40000):
    """dSoC/dt = sign*k*min(fn(SoC), limit)/c for T hours, stopped at target (and at 1 / 0).
    Fixed step chosen from the steepest slope (stability); returns None when too expensive."""
    rate = lambda s: sign * k * min(fn(min(max(s, 0.0), 1.0)), limit) / c
    # crude Lipschitz estimate
    L = 0.0
    N = 200
    prev = rate(0.0)
    for i in range(1, N + 1):
        cur = rate(i / N)
        L = max(L, abs(cur - prev) * N)
        prev = cur
    steps = int(max(1000, min(T * L * 60 + 1000, 10 ** 9)))
    if steps > max_steps:
        return None
    h = T / steps
    s = soc
    for _ in range(steps):
        k1 = rate(s)
        k2 = rate(s + 0.5 * h * k1)
        k3 = rate(s + 0.5 * h * k2)
        k4 = rate(s + h * k3)
        s2 = s + h * (k1 + 2 * k2 + 2 * k3 + k4) / 6
        if sign * (target - s2) <= 0:
            return target
        s = s2
    return s


# ------------------------------------------------------------------------------------------
# generators

def gen_curve(rnd, cap_real, n_sec=None, positive=False):
    """curve from the shape grammar; returns list of [soc, power] (floats; some ints on purpose)"""
    n = n_sec or rnd.choice([1, 1, 2, 2, 3, 3, 4, 5, 6])
    shape = rnd.choice(["const", "taper", "taper", "rise", "plateau", "zero_hi", "zero_lo", "nearflat",
                        "any", "zero_mid"])
    if rnd.random() < 0.25:
        den = rnd.choice([4, 5, 10, 20])
        if n - 1 > den - 1:
            n = den
        xs = sorted(rnd.sample(range(1, den), n - 1))
        xs = [0.0] + [x / den for x in xs] + [1.0]
    else:
        xs = sorted(rnd.random() for _ in range(n - 1))
        if n >= 3 and rnd.random() < 0.15:       # one very narrow section
            i = rnd.randrange(1, n - 1)
            xs[i] = min(xs[i - 1] + 10 ** rnd.uniform(-6, -3), 1 - 1e-9)
            xs = sorted(set(xs))
        xs = [0.0] + [x for x in xs if 0 < x < 1] + [1.0]
    xs = sorted(set(xs))
    m = len(xs)
    pmax = rnd.choice([3.7, 11.0, 22.0, 50.0, 150.0, 350.0, rnd.uniform(0.5, 400)])
    if shape == "const":
        ps = [pmax] * m
    elif shape == "taper":
        k = rnd.randrange(0, m - 1)
        lo = rnd.choice([0.0, pmax * rnd.uniform(0.02, 0.6)])
        ps = [pmax] * (k + 1) + sorted((rnd.uniform(lo, pmax) for _ in range(m - k - 2)), reverse=True) + [lo]
    elif shape == "rise":
        lo = rnd.choice([0.0, pmax * rnd.uniform(0.01, 0.5)])
        ps = [lo] + sorted(rnd.uniform(lo, pmax) for _ in range(m - 2)) + [pmax]
    elif shape == "plateau":
        ps = [pmax * rnd.uniform(0.05, 1) for _ in range(m)]
        if m >= 3:
            i = rnd.randrange(0, m - 1)
            ps[i] = ps[i + 1] = pmax
    elif shape == "zero_hi":
        ps = [pmax * rnd.uniform(0.2, 1) for _ in range(m)]
        ps[-1] = 0.0
    elif shape == "zero_lo":
        ps = [pmax * rnd.uniform(0.2, 1) for _ in range(m)]
        ps[0] = 0.0
    elif shape == "zero_mid":
        ps = [pmax * rnd.uniform(0.2, 1) for _ in range(m)]
        ps[rnd.randrange(0, m)] = 0.0
        if m >= 3 and rnd.random() < 0.5:
            i = rnd.randrange(0, m - 1)
            ps[i] = ps[i + 1] = 0.0
    elif shape == "nearflat":
        eps = 1e-5 / cap_real
        ps = [pmax]
        for i in range(1, m):
            kk = rnd.choice([0.0, 0.5, 0.99, 1.0, 1.01, 2.0, -0.5, -0.99, -1.01, -2.0, 1e3, -1e3])
            ps.append(max(0.0, ps[-1] + kk * eps * (xs[i] - xs[i - 1])))
    else:
        ps = [rnd.choice([0.0, pmax, pmax * rnd.random(), pmax * rnd.random()]) for _ in range(m)]
    if positive:
        floor = pmax * 0.02
        ps = [max(p, floor) for p in ps]
    pts = [[x, float(p)] for x, p in zip(xs, ps)]
    if rnd.random() < 0.1:      # JSON ints stay ints in LoadingCurve points
        pts = [[x if x not in (0.0, 1.0) else int(x), (int(p) if float(p).is_integer() else p)] for x, p in pts]
    return pts


def gen_battery(rnd, positive=False, allow_unlimited=True):
    """battery part of a case (kind, cap, eff, soc, pts, dis)"""
    r = rnd.random()
    if allow_unlimited and r < 0.06:
        pmax = rnd.choice([11.0, 50.0, 350.0, rnd.uniform(1, 500)])
        case = {"kind": "S", "cap": -1.0, "pts": [[0.0, pmax], [1.0, pmax]], "dis": None}
        cap_real = UNLIMITED
    else:
        cap = rnd.choice([0.5, 1.0, 10.0, 50.0, 100.0, 315.0, 1000.0] + [0.5 * 2000 ** rnd.random()] * 7)
        kind = rnd.choice(["V", "V", "S"])
        cap_real = cap
        case = {"kind": kind, "cap": cap, "pts": gen_curve(rnd, cap_real, positive=positive), "dis": None}
        d = rnd.random()
        if d < 0.3:
            case["dis"] = {"C": gen_curve(rnd, cap_real, positive=positive)}
        elif d < 0.6 and kind == "V":
            case["dis"] = {"F": rnd.choice([0.5, 1.0, 0.25, rnd.uniform(0.05, 1.0), 1.5])}
    e = rnd.random()
    case["eff"] = None if e < 0.15 else 1.0 if e < 0.3 else 0.95 if e < 0.4 else rnd.uniform(0.05, 1.0)
    case["soc"] = gen_soc(rnd, case)
    return case


def breakpoints(case):
    xs = [p[0] for p in case["pts"]]
    if case.get("dis") and "C" in case["dis"]:
        xs += [p[0] for p in case["dis"]["C"]]
    return sorted(set(float(x) for x in xs))


def gen_soc(rnd, case):
    r = rnd.random()
    if r < 0.12:
        return 0.0
    if r < 0.22:
        return 1.0
    if r < 0.42:
        x = rnd.choice(breakpoints(case))
        j = rnd.choice([0, 0, 1, -1])
        x = ulp_up(x) if j == 1 else ulp_dn(x) if j == -1 else x
        return min(x, 1.0)
    if r < 0.5:
        return rnd.uniform(-0.5, 0.0)
    if r < 0.55:
        return rnd.choice([0.5, 0.8, 0.2])
    return rnd.random()


def gen_us(rnd):
    r = rnd.random()
    if r < 0.25:
        return rnd.choice([1, 60, 300, 900, 3600, 86400]) * 10 ** 6
    if r < 0.3:
        return rnd.choice([1, 10, 10 ** 3, 10 ** 6 - 1])          # sub-second
    if r < 0.33:
        return 0
    return int(10 ** 6 * math.exp(rnd.uniform(0, math.log(5 * 86400))))


def gen_op(rnd, case, soc_hint=None, kinds="LLLUUUA"):
    """one admissible operation"""
    k = rnd.choice(kinds)
    us = gen_us(rnd)
    if k == "A":
        return [k, us, None, None, None]
    cc = case["pts"]
    maxp = max(p[1] for p in cc)
    r = rnd.random()
    if r < 0.35:
        mp = None
    elif r < 0.45:
        mp = 0.0
    elif r < 0.6:
        mp = float(rnd.choice(cc)[1])
    elif r < 0.65:
        mp = maxp * rnd.choice([1.0, 1.5, 10.0])
    else:
        mp = maxp * rnd.random()
    soc = case["soc"] if soc_hint is None else soc_hint
    eps = 1e-5 / capacity_of(case)
    ts = tp = None
    r = rnd.random()
    if r < 0.35:
        pass
    elif r < 0.7:
        q = rnd.random()
        if q < 0.15:
            ts = soc
        elif q < 0.25:
            ts = soc + rnd.choice([0.5, -0.5, 1.5, -1.5, 0.999, -0.999, 1.001, -1.001]) * eps
        elif q < 0.35:
            ts = rnd.choice([1.0, 0.0])
        elif q < 0.45:
            ts = rnd.choice([1.2, 1.0 + eps, 2.0]) if k == "L" else rnd.choice([-0.2, -eps, -1.0])
        elif q < 0.55:
            ts = float(rnd.choice(breakpoints(case)))
        else:
            ts = rnd.random()
    else:
        q = rnd.random()
        tp = 0.0 if q < 0.1 else maxp * rnd.choice([1.0, 0.5, 2.0]) if q < 0.3 else maxp * rnd.random() * 1.2
        if rnd.random() < 0.1:
            tp = rnd.uniform(0, 1e-3)
    return [k, us, mp, ts, tp]
