/-
Bridge for C09: over a standing period (no vehicle event, constant options of the sub-strategy, the clock advancing by one
interval per step) the stand-alone run `runSub` is the plain iteration of `ruleStep` over the per-step connectors —
`standSteps`, word for word the definition `StratRun.runSteps` of the greedy / balanced run model (Model/StratRun.lean of
the builder of Properties/C09_Run.lean; not imported here, the two definitions are to be identified when both are merged).
-/
import SpiceEv.Proofs.StratDistributedRun
set_option linter.unusedSectionVars false
set_option linter.unusedVariables false
namespace SpiceEv.DistRun
open SpiceEv SpiceEv.Distrib SpiceEv.Frame
variable {α B : Type} [Field α] [LinearOrder α] [IsStrictOrderedRing α]

/-- `self.current_time += self.interval` -/
def tickEnv (env : StratEnv α) : StratEnv α := { env with now := env.now + env.interval }

/-- the greedy / balanced step iterated over the connectors of consecutive steps, everything else carried over:
worlds after step 1, 2, … (same definition as `StratRun.runSteps`) -/
def standSteps (rule : Rule) (ops : BatOps α B) :
    StratEnv α → SWorld α B → List (List (GcS α)) → Py (List (SWorld α B))
  | _, _, [] => .ok []
  | env, w, d :: ds => do
    let (w', _) ← ruleStep rule ops env ({ w with gcs := d } : SWorld α B)
    let rest ← standSteps rule ops (tickEnv env) w' ds
    .ok (w' :: rest)

/-- the steps `ins` form a standing period for the sub-strategy of station type `kind`: no vehicle event, the
sub-strategy is a `rule` object whose options and clock at the first step are `env`, the clock advances by one interval
per step -/
def Standing (kind : Kind) (rule : Rule) : StratEnv α → List (StepIn α B) → Prop
  | _, [] => True
  | env, i :: rest =>
    (∀ v, i.upd v = v) ∧ (i.de.sub kind).rule = rule ∧ (i.de.sub kind).env i.de.env.now = env ∧
      Standing kind rule (tickEnv env) rest

theorem runSub_standing (kind : Kind) (rule : Rule) (ops : BatOps α B) :
    ∀ (ins : List (StepIn α B)) (env : StratEnv α) (w : SWorld α B) (tr : List (SWorld α B × List (String × α))),
      Standing kind rule env ins → runSub kind ops w ins = .ok tr →
      standSteps rule ops env w (ins.map (·.gcs)) = .ok (tr.map (·.1)) := by
  intro ins
  induction ins with
  | nil =>
    intro env w tr _ h
    simp only [runSub, Except.ok.injEq] at h
    subst h; rfl
  | cons i ins ih =>
    intro env w tr hst h
    obtain ⟨hu, hr, he, hrest⟩ := hst
    simp only [runSub, bind, Except.bind] at h
    have hw : enterWorld i w = ({ w with gcs := i.gcs } : SWorld α B) := by
      unfold enterWorld
      have : w.vehicles.map i.upd = w.vehicles := by
        conv_rhs => rw [← List.map_id w.vehicles]
        exact List.map_congr_left (fun v _ => hu v)
      rw [this]
    rw [hw, hr, he] at h
    simp only [List.map_cons, standSteps, bind, Except.bind]
    cases h1 : ruleStep rule ops env ({ w with gcs := i.gcs } : SWorld α B) with
    | error e => simp [h1] at h
    | ok r =>
      simp only [h1] at h
      cases h2 : runSub kind ops r.1 ins with
      | error e => simp [h2] at h
      | ok tl =>
        simp only [h2, Except.ok.injEq] at h
        subst h
        simp only [ih (tickEnv env) r.1 tl hrest h2, List.map_cons]

end SpiceEv.DistRun
