import sys, collections, random
import os
sys.path.insert(0, os.path.join(os.path.dirname(os.path.abspath(__file__)), "..", "harness"))
import s_peak_load_window as m, scen
from spice_ev.strategies import peak_load_window as plw
C = collections.Counter()
CUR = [None]
examples = {}
orig = plw.PeakLoadWindow.step
def step(self):
    ws = self.world_state
    pre = {}
    for gid, gc in ws.grid_connectors.items():
        pre[gid] = dict(base=sum(gc.current_loads.values()), peak=self.peak_power[gid], cur=gc.cur_max_power,
                        nveh=sum(1 for v in ws.vehicles.values() if v.connected_charging_station and ws.charging_stations[v.connected_charging_station].parent == gid),
                        nbat=sum(1 for b in ws.batteries.values() if b.parent == gid))
    res = orig(self)
    for gid, gc in ws.grid_connectors.items():
        p = pre[gid]
        load = gc.get_current_load()
        EPS = self.EPS
        C["gc_steps"] += 1
        if abs(p["base"]) > p["cur"] + EPS:
            C["base_violates"] += 1
            continue
        if load > p["cur"] + EPS or load < -p["cur"] - EPS:
            cs_cmds = [k for k in gc.current_loads if k in ws.charging_stations and gc.current_loads[k] > EPS]
            bat_loads = {k: gc.current_loads[k] for k in gc.current_loads if k in ws.batteries}
            veh_sum = sum(gc.current_loads[k] for k in gc.current_loads if k in ws.charging_stations)
            after_veh = p["base"] + veh_sum
            kinds = []
            if after_veh > p["cur"] + EPS:
                if p["base"] < -EPS and len(cs_cmds) >= 2:
                    kinds.append("veh:surplus_to_each_vehicle")
                else:
                    kinds.append("veh:OTHER")
            if load > max(after_veh, p["cur"]) + EPS or (after_veh <= p["cur"] + EPS):
                # batteries made it worse / caused it
                if any(v > EPS for v in bat_loads.values()):
                    if gc.window and p["peak"] > p["cur"] + EPS:
                        kinds.append("bat:in_window_peak_above_limit")
                    elif gc.window:
                        kinds.append("bat:in_window_OTHER")
                    else:
                        kinds.append("bat:outside_OTHER")
                elif load < -p["cur"] - EPS:
                    kinds.append("feedin")
                elif not kinds:
                    kinds.append("OTHER")
            k = "+".join(kinds) or "none?"
            C[k] += 1
            if "OTHER" in k:
                print("OTHERCASE", CUR[0], self.current_time.isoformat(), gid, p, load, dict(gc.current_loads), gc.window, file=sys.__stderr__, flush=True)
            if k not in examples:
                examples[k] = (self.current_time.isoformat(), gid, p, load, dict(gc.current_loads), gc.window)
    return res
plw.PeakLoadWindow.step = step
for seed in range(int(sys.argv[1]), int(sys.argv[2])):
    for i in range(60):
        for v in ["feasible", "infeasible", "battery", "two_batt_v2g", "limit_gen", "overstay", "wide_windows"]:
            full = m.make_case(seed, i, v)
            CUR[0] = (seed, i, v)
            scen.run_real(full, timeout_s=60, collect_ops=False)
print(C)
for k, e in examples.items():
    print(k, e)
