/-
Lower side of the connector limit for the greedy/balanced model: no pass of `ruleStep` pushes a
connector's load below `min(load before, 0)` — charging only adds load, V2G support and stationary
batteries discharge at most down to zero grid draw.
-/
import SpiceEv.Proofs.Strategies
import SpiceEv.Proofs.StrategiesFrame
set_option linter.unusedSectionVars false
set_option linter.unusedSimpArgs false
set_option linter.unusedVariables false
namespace SpiceEv
variable {α B : Type} [Field α] [LinearOrder α] [IsStrictOrderedRing α]
open Frame

/-- every connector's load is at least `−F id` -/
def AboveF (F : String → α) (w : SWorld α B) : Prop := ∀ g ∈ w.gcs, -F g.id ≤ g.currentLoad

/-- a step that replaces connector `gc` by `gc.addLoad k d` with `d ≥ 0` or `load + d ≥ 0` -/
theorem aboveF_addLoad (F : String → α) (hF : ∀ k, 0 ≤ F k) (w : SWorld α B) (gc : GcS α) (k : String) (d : α)
    (hg : gc ∈ w.gcs) (hd : 0 ≤ d ∨ 0 ≤ gc.currentLoad + d) (hinv : AboveF F w) :
    AboveF F (w.setGc (gc.addLoad k d).1) := by
  intro g hgm
  obtain ⟨hL, _, hI, _⟩ := addLoad_currentLoad gc k d
  rcases mem_setGc _ _ g hgm with rfl | ⟨hm, _⟩
  · rw [hL, hI]
    have h1 := hinv gc hg
    have h2 := hF gc.id
    rcases hd with h | h <;> linarith
  · exact hinv g hm

theorem aboveF_gcs (F : String → α) (w w' : SWorld α B) (h : w'.gcs = w.gcs) (hinv : AboveF F w) :
    AboveF F w' := by
  intro g hg; rw [h] at hg; exact hinv g hg

theorem allocVehicle_above (rule : Rule) (ops : BatOps α B) (law : BatLaw ops) (env : StratEnv α)
    (F : String → α) (hF : ∀ k, 0 ≤ F k)
    (st st' : SWorld α B × List (String × α) × List (String × α)) (vid : String)
    (hinv : AboveF F st.1) (h : allocVehicle rule ops env st vid = .ok st') : AboveF F st'.1 := by
  obtain ⟨v, hv, hc⟩ := allocVehicle_cases rule ops env st st' vid h
  rcases hc with ⟨_, rfl⟩ | ⟨csId, cs, gc, cheap, power, used, bat', avg, hcs, hst, hgc, hch, hpl, hcc, rfl⟩
  · exact hinv
  · obtain ⟨hp0, _⟩ := planPower_bound rule ops env cheap _ _ cs v power used hpl
    obtain ⟨ha0, _⟩ := chargeCall_bound rule ops law env cheap v power hp0 bat' avg hcc
    apply aboveF_gcs F _ _ (setStation_gcs _ _)
    apply aboveF_addLoad F hF _ gc csId avg _ (Or.inl ha0)
    · exact aboveF_gcs F _ _ (setVehicle_gcs _ _) hinv
    · simp only [setVehicle_gcs]; exact (gc?_some' _ _ _ hgc).1

theorem allocFold_above (rule : Rule) (ops : BatOps α B) (law : BatLaw ops) (env : StratEnv α)
    (F : String → α) (hF : ∀ k, 0 ≤ F k) (ids : List String)
    (st st' : SWorld α B × List (String × α) × List (String × α))
    (hinv : AboveF F st.1) (h : ids.foldlM (allocVehicle rule ops env) st = .ok st') : AboveF F st'.1 := by
  induction ids generalizing st with
  | nil =>
    simp only [List.foldlM_nil, pure, Except.pure, Except.ok.injEq] at h
    subst h; exact hinv
  | cons id rest ih =>
    simp only [List.foldlM_cons, bind, Except.bind] at h
    cases hs : allocVehicle rule ops env st id with
    | error e => simp [hs] at h
    | ok st1 =>
      simp only [hs] at h
      exact ih st1 (allocVehicle_above rule ops law env F hF st st1 id hinv hs) h

/-- the local decision of the surplus pass adds load or discharges at most down to zero draw -/
theorem surplusLocal_sign (ops : BatOps α B) (law : BatLaw ops) (env : StratEnv α) (heps : 0 ≤ env.eps)
    (isCheap : Bool) (v : VehicleS α B) (csId : String) (cs : StationS α) (gc : GcS α)
    (bat' : B) (d cur' : α)
    (h : surplusLocal ops env isCheap v csId cs gc = .ok (some (bat', d, cur'))) :
    0 ≤ d ∨ 0 ≤ gc.currentLoad + d := by
  unfold surplusLocal at h
  simp only at h
  split at h
  · cases hl : ops.load v.bat
      (some (clampPower (-gc.currentLoad) cs.currentPower cs.maxPower cs.minPower v.minChargingPower))
      none none with
    | error e => simp [hl] at h
    | ok r =>
      obtain ⟨b1, avg⟩ := r
      simp only [hl, Except.ok.injEq, Option.some.injEq, Prod.mk.injEq] at h
      obtain ⟨_, rfl, _⟩ := h
      exact Or.inl (law.load_max _ _ _ _ hl).1
  · split at h
    · rename_i hns hc
      simp only [pymin_eq, pymax_eq, neg_neg] at h
      cases hu : ops.unload v.bat
          (some (min (min gc.currentLoad (ops.unloadMaxPower v.bat)) cs.maxPower))
          (some (max v.desiredSoc v.dischargeLimit)) none with
      | error e => simp [hu] at h
      | ok r =>
        obtain ⟨b1, avg⟩ := r
        simp only [hu, Except.ok.injEq, Option.some.injEq, Prod.mk.injEq] at h
        obtain ⟨_, rfl, _⟩ := h
        right
        obtain ⟨ha0, hap⟩ := law.unload_max _ _ _ _ _ hu
        have hpos : 0 ≤ gc.currentLoad := by
          have := hc.1
          linarith
        have hp : min (min gc.currentLoad (ops.unloadMaxPower v.bat)) cs.maxPower ≤ gc.currentLoad :=
          le_trans (min_le_left _ _) (min_le_left _ _)
        have : avg ≤ gc.currentLoad := le_trans hap (max_le hp hpos)
        linarith
    · simp at h

theorem surplusBody_above (ops : BatOps α B) (law : BatLaw ops) (env : StratEnv α) (heps : 0 ≤ env.eps)
    (F : String → α) (hF : ∀ k, 0 ≤ F k) (cheap : List (String × Bool))
    (st st' : SWorld α B × List (String × α)) (v0 : VehicleS α B) (hinv : AboveF F st.1)
    (h : surplusBody ops env cheap st v0 = .ok st') : AboveF F st'.1 := by
  rcases surplusBody_cases ops env cheap st st' v0 h with ⟨_, he⟩ | ⟨v, hv, hc⟩
  · rw [he]; exact hinv
  · rcases hc with ⟨_, he⟩ | ⟨csId, cs, gc, r, hcs, hst, hgc, hloc, he⟩
    · rw [he]; exact hinv
    · rw [he]
      cases r with
      | none => exact hinv
      | some t =>
        obtain ⟨bat', d, cur'⟩ := t
        unfold surplusWrite
        apply aboveF_gcs F _ _ (setStation_gcs _ _)
        apply aboveF_addLoad F hF _ gc csId d _
          (surplusLocal_sign ops law env heps _ v csId cs gc bat' d cur' hloc)
        · exact aboveF_gcs F _ _ (setVehicle_gcs _ _) hinv
        · simp only [setVehicle_gcs]; exact (gc?_some' _ _ _ hgc).1

theorem batLocal_sign (ops : BatOps α B) (law : BatLaw ops) (isCheap : Bool) (b : StatBatS α B) (gc : GcS α)
    (r : B × α) (h : batLocal ops isCheap b gc = .ok r) : 0 ≤ r.2 ∨ 0 ≤ gc.currentLoad + r.2 := by
  unfold batLocal at h
  simp only at h
  split at h
  · cases hl : ops.load b.bat
        (some (if gc.curMax - gc.currentLoad < b.minChargingPower then 0 else gc.curMax - gc.currentLoad))
        none none with
    | error e => simp [hl] at h
    | ok x =>
      obtain ⟨b1, avg⟩ := x
      simp only [hl, Except.ok.injEq] at h
      subst h
      exact Or.inl (law.load_max _ _ _ _ hl).1
  · split at h
    · cases hl : ops.load b.bat none none
          (some (if -gc.currentLoad < b.minChargingPower then 0 else -gc.currentLoad)) with
      | error e => simp [hl] at h
      | ok x =>
        obtain ⟨b1, avg⟩ := x
        simp only [hl, Except.ok.injEq] at h
        subst h
        exact Or.inl (law.load_target _ _ _ _ hl).1
    · rename_i _ hn
      cases hu : ops.unload b.bat none none (some gc.currentLoad) with
      | error e => simp [hu] at h
      | ok x =>
        obtain ⟨b1, avg⟩ := x
        simp only [hu, Except.ok.injEq] at h
        subst h
        right
        obtain ⟨_, hap⟩ := law.unload_target _ _ _ _ hu
        have hpos : 0 ≤ gc.currentLoad := not_lt.mp hn
        rw [max_eq_left hpos] at hap
        simp only
        linarith

theorem batBody_above (ops : BatOps α B) (law : BatLaw ops) (env : StratEnv α)
    (F : String → α) (hF : ∀ k, 0 ≤ F k) (cheap : List (String × Bool))
    (w w' : SWorld α B) (b0 : StatBatS α B) (hinv : AboveF F w)
    (h : batBody ops env cheap w b0 = .ok w') : AboveF F w' := by
  rcases batBody_cases ops env cheap w w' b0 h with ⟨_, he⟩ | ⟨b, hb, hc⟩
  · rw [he]; exact hinv
  · rcases hc with ⟨_, he⟩ | ⟨gc, isCheap, r, hgc, hch, hloc, he⟩
    · rw [he]; exact hinv
    · rw [he]
      apply aboveF_addLoad F hF _ gc b.id r.2 _ (batLocal_sign ops law isCheap b gc r hloc)
      · exact aboveF_gcs F _ _ (setBattery_gcs _ _) hinv
      · simp only [setBattery_gcs]; exact (gc?_some' _ _ _ hgc).1

theorem foldlM_inv {σ ι ε : Type} (f : σ → ι → Except ε σ) (I : σ → Prop)
    (hI : ∀ s x s', I s → f s x = .ok s' → I s') :
    ∀ (l : List ι) (s s' : σ), I s → l.foldlM f s = .ok s' → I s' := by
  intro l
  induction l with
  | nil =>
    intro s s' hi h
    simp only [List.foldlM_nil, pure, Except.pure, Except.ok.injEq] at h
    subst h; exact hi
  | cons x xs ih =>
    intro s s' hi h
    simp only [List.foldlM_cons, bind, Except.bind] at h
    cases hs : f s x with
    | error e => simp [hs] at h
    | ok s1 =>
      simp only [hs] at h
      exact ih s1 s' (hI s x s1 hi hs) h

/-- **the whole step keeps every connector above `−F`** -/
theorem ruleStep_above (rule : Rule) (ops : BatOps α B) (law : BatLaw ops) (env : StratEnv α)
    (heps : 0 ≤ env.eps) (F : String → α) (hF : ∀ k, 0 ≤ F k) (w w' : SWorld α B)
    (cmds : List (String × α)) (hinv : AboveF F w) (h : ruleStep rule ops env w = .ok (w', cmds)) :
    AboveF F w' := by
  unfold ruleStep at h
  cases ha : availBatPower ops w with
  | error e => simp [ha, bind, Except.bind] at h
  | ok avail =>
    simp only [ha, bind, Except.bind] at h
    cases hf : (sortedVehicleIds (resetStations w)).foldlM (allocVehicle rule ops env)
        (resetStations w, [], avail) with
    | error e => simp [hf] at h
    | ok st1 =>
      obtain ⟨w1, c1, a1⟩ := st1
      simp only [hf] at h
      have h1 : AboveF F w1 :=
        allocFold_above rule ops law env F hF _ _ _ (aboveF_gcs F w (resetStations w) rfl hinv) hf
      cases hd : distributeSurplus ops env w1 with
      | error e => simp [hd] at h
      | ok r2 =>
        obtain ⟨w2, c2⟩ := r2
        simp only [hd] at h
        have h2 : AboveF F w2 := by
          rw [distributeSurplus_unfold] at hd
          cases hc : w1.gcs.mapM (cheapEntry env) with
          | error e => simp [hc, bind, Except.bind] at hd
          | ok cheap =>
            simp only [hc, bind, Except.bind] at hd
            exact foldlM_inv (surplusBody ops env cheap) (fun s => AboveF F s.1)
              (fun s x s' hi hs => surplusBody_above ops law env heps F hF cheap s s' x hi hs)
              w1.vehicles (w1, []) (w2, c2) h1 hd
        cases hu : updateBatteries ops env w2 with
        | error e => simp [hu] at h
        | ok w3 =>
          simp only [hu, Except.ok.injEq, Prod.mk.injEq] at h
          obtain ⟨rfl, _⟩ := h
          rw [updateBatteries_unfold] at hu
          cases hc : w2.gcs.mapM (cheapEntry env) with
          | error e => simp [hc, bind, Except.bind] at hu
          | ok cheap =>
            simp only [hc, bind, Except.bind] at hu
            exact foldlM_inv (batBody ops env cheap) (fun s => AboveF F s)
              (fun s x s' hi hs => batBody_above ops law env F hF cheap s s' x hi hs)
              w2.batteries w2 w3 h2 hu

end SpiceEv
