/-
Key structure of the results JSON written by `report.generate_reports` (`json.dump(results_file_content,
…, indent=2)` of the dict built by `aggregate_local_results`): which entries exist and in which order
(Python dicts keep insertion order, `json.dump` writes them in that order), with the keys of every
entry.  The NUMBERS of the entries are `LocalResults` (Model/Report.lean); number formatting is
CPython's `float.__repr__` and is not modelled.
-/
import SpiceEv.Model.Report
namespace SpiceEv.ReportJson
open SpiceEv SpiceEv.Report

def windowKeys : List String := ["04-10", "10-16", "16-22", "22-04"]

/-- `bat_dict = {batName: max(values) …}; bat_dict.update({"unit": …, "info": …})`: a battery called
`unit` or `info` keeps its position, only its value is overwritten -/
def batKeys (names : List String) : List String :=
  names ++ (["unit", "info"].filter (fun k => !names.contains k))

/-- entries of the results dict in insertion order with their keys in insertion order.
`hasCst` = `bool(scenario.core_standing_time)` -/
def jsonKeys {α : Type} (hasCst : Bool) (res : LocalResults α) : List (String × List String) :=
  [("temporal_parameters", ["interval", "unit", "info"])]
  ++ (if hasCst then [("core_standing_time", ["times", "no_drive_days", "unit", "info"])] else [])
  ++ [("grid_connector", ["gcID", "grid operator", "voltage level"]),
      ("photovoltaics", ["nominal power", "unit", "info"]),
      ("charging_strategy", ["strategy", "info"])]
  ++ (if res.avgFlexPerWindow.isSome then [("avg flex per window", windowKeys ++ ["unit", "info"])] else [])
  ++ [("sum of energy", ["value", "unit", "info"]),
      ("sum of energy per window", windowKeys ++ ["unit", "info"]),
      ("avg standing time", ["single", "total", "unit", "info"]),
      ("standing per window", windowKeys ++ ["unit", "info"])]
  ++ (if res.avgNeededEnergy.isSome then [("avg needed energy", ["value", "unit", "info"])] else [])
  ++ (if res.plwThreshold.isSome then [("peak load time windows",
        ["peak power in time windows", "unit", "significance threshold",
         "significance threshold from price sheet", "info"])] else [])
  ++ (if res.powerPeaks.isSome then [("power peaks", ["fixed", "variable", "total", "unit", "info"])] else [])
  ++ [("avg drawn power", ["value", "unit", "info"]),
      ("local energy generation", ["value", "unit", "info"])]
  ++ (if res.feedIn.isSome then [("feed-in energy", ["generation", "v2g", "battery", "unit", "info"])] else [])
  ++ (match res.maxStored with
      | some l => [("max. stored energy in batteries", batKeys (l.map (·.1)))]
      | none => [])
  ++ (if res.batCycles.isSome then [("stationary battery cycles", ["value", "unit", "info"])] else [])
  ++ [("all vehicle battery cycles", ["value", "unit", "info"]),
      ("times below desired soc", ["without margin", "with margin", "margin", "info"])]

/-- every entry name that can occur, in the one order in which they can occur -/
def allEntryNames : List String :=
  ["temporal_parameters", "core_standing_time", "grid_connector", "photovoltaics", "charging_strategy",
   "avg flex per window", "sum of energy", "sum of energy per window", "avg standing time",
   "standing per window", "avg needed energy", "peak load time windows", "power peaks", "avg drawn power",
   "local energy generation", "feed-in energy", "max. stored energy in batteries",
   "stationary battery cycles", "all vehicle battery cycles", "times below desired soc"]

end SpiceEv.ReportJson
