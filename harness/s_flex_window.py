"""S_FLEX_WINDOW — step-level correspondence of the Lean model of spice_ev/strategies/flex_window.py.

Real `Scenario.run('flex_window')` on generated scenarios (harness/scen.py, all LOAD_STRATs of the
class: balanced / greedy / needy, plus HORIZON variants and connectors without a window attribute);
`FlexWindow.step` is wrapped at run time: the complete world state before the step (connector incl.
window and the weekly average fixed-load table, stations, vehicles, batteries, and the future events
the strategy can see) is rendered as one protocol line (`step_flex_window`), the real step runs, and
commands / connector loads / station power / all SoCs / gc.window after the step are compared with
the model's line by value (floats bit for bit, +0.0 == -0.0).  In addition the list `timesteps`
(forecast of window and available power per future step) is captured at the entry of the first
distribution method and compared with the model's `fw_forecast` line.

Used by other checks through `tie(full)`.
"""
import contextlib
import copy
import datetime
import random

import engine
import scen
from wire import enc, dec
from c10 import us, f, r_battery, r_cost

engine.use_repo()

PID = "S_FLEX_WINDOW"
THEOREM_MODULES = ["C04_FlexWindow", "C05_FlexWindow", "C06_FlexWindow", "C09_FlexWindow", "C11_FlexWindow"]
CHUNK = 2
FUEL = 200
RULE = ("scenarios from the grammar in harness/scen.py for strategy flex_window (fixed load, generation, limit / price / "
        "window signals on and off the step grid, stationary batteries incl. unlimited and two per connector, V2G, "
        "CONCURRENCY, station/vehicle minimum power), LOAD_STRAT balanced / greedy / needy, HORIZON 24 / 6 / 2 h, "
        "connectors with and without an initial window; every strategy step of every run is one model evaluation "
        "(plus one evaluation of the forecast); non-trivial = a step in which a station or battery carries power")
ASSUMPTIONS = ["model vs implementation: floats compared by value (+0.0 == -0.0), no tolerance",
               "gc.avg_fixed_load is passed as a sparse table (entries equal to 0 omitted, dimensions kept)",
               "sorted() with keys containing None (connected vehicle without estimated_time_of_departure, more than "
               "one connected vehicle) is outside the model (model answers UNSUPPORTED); the generator never produces it"]
UNPROVED = []


def r_opt_bool(b):
    return "N" if b is None else ("S 1" if b else "S 0")


def r_avg(gc):
    t = gc.avg_fixed_load
    if t is None:
        return ["N"]
    slots = len(t[0])
    ent = []
    for wd, row in enumerate(t):
        assert len(row) == slots
        for sl, v in enumerate(row):
            if not (v == 0):
                ent += [str(wd), str(sl), f(v)]
    return ["S", str(slots), str(len(ent) // 3)] + ent


def r_events(strat):
    from spice_ev import events
    evs = strat.world_state.future_events
    parts = [str(len(evs))]
    for e in evs:
        parts.append(str(us(e.start_time)))
        if type(e) is events.GridOperatorSignal:
            parts += ["G", "N" if e.max_power is None else "S " + f(e.max_power), r_opt_bool(e.window)]
        elif type(e) is events.LocalEnergyGeneration:
            parts += ["L", e.name, f(e.value)]
        else:
            parts.append("O")
    return parts


STRAT_TOK = {"greedy": "g", "needy": "n", "balanced": "b"}


def render_world(strat, cmd="step_flex_window"):
    ws = strat.world_state
    interval_us = int(strat.interval.total_seconds() * 1000000)
    off = strat.current_time.utcoffset()
    off_us = 0 if off is None else int(off / datetime.timedelta(microseconds=1))
    horizon_us = datetime.timedelta(hours=strat.HORIZON) // datetime.timedelta(microseconds=1)
    gc0 = list(ws.grid_connectors.values())[0]
    parts = [cmd, STRAT_TOK.get(strat.LOAD_STRAT, "o"), f(strat.EPS), f(strat.PRICE_THRESHOLD), f(strat.ts_per_hour),
             str(us(strat.current_time)), str(interval_us), str(horizon_us), str(off_us), str(FUEL)]
    parts += r_avg(gc0)
    parts.append(r_opt_bool(gc0.window))
    parts.append(str(len(ws.grid_connectors)))
    for gid, gc in ws.grid_connectors.items():
        parts += [gid, f(gc.cur_max_power), r_cost(gc.cost), str(len(gc.current_loads))]
        for k, v in gc.current_loads.items():
            parts += [k, f(v)]
    parts.append(str(len(ws.charging_stations)))
    for cid, cs in ws.charging_stations.items():
        parts += [cid, cs.parent, f(cs.max_power), f(cs.min_power), f(cs.current_power)]
    parts.append(str(len(ws.vehicles)))
    for vid, v in ws.vehicles.items():
        etd = v.estimated_time_of_departure
        parts += [vid, "N" if v.connected_charging_station is None else "S " + v.connected_charging_station,
                  f(v.desired_soc), "N" if etd is None else "S %d" % us(etd),
                  f(v.vehicle_type.min_charging_power), "1" if v.vehicle_type.v2g else "0",
                  f(v.vehicle_type.discharge_limit), r_battery(v.battery)]
    parts.append(str(len(ws.batteries)))
    for bid, b in ws.batteries.items():
        parts += [bid, b.parent, f(b.min_charging_power), r_battery(b)]
    parts += r_events(strat)
    return " ".join(parts)


def kv(d):
    return " ".join([str(len(d))] + ["%s %s" % (k, f(v)) for k, v in d.items()])


def render_result(strat, res):
    ws = strat.world_state
    cmds = res["commands"]
    gc0 = list(ws.grid_connectors.values())[0]
    return (kv(cmds) + " | " + " ; ".join("%s %s" % (gid, kv(gc.current_loads)) for gid, gc in ws.grid_connectors.items())
            + " | " + " ".join(f(cs.current_power) for cs in ws.charging_stations.values())
            + " | " + " ".join(f(v.battery.soc) for v in ws.vehicles.values())
            + " | " + " ".join(f(b.soc) for b in ws.batteries.values())
            + " | " + r_opt_bool(gc0.window))


def render_timesteps(ts):
    parts = [str(len(ts))]
    for t in ts:
        parts += [str(t["timestep_idx"]), f(t["power"]), f(t["fixed_load"]), r_opt_bool(t["window"]),
                  f(t["v_load"]), f(t["total_load"])]
    return " ".join(parts)


def err_name(e):
    return "!" + type(e).__name__


@contextlib.contextmanager
def tie(full, forecast=True):
    """wrap FlexWindow.step for the duration of a scen.run_real(full); yields a dict with `lines`, `impl`,
    `active` (number of steps with a non-zero command or battery power) filled per step"""
    from spice_ev import strategy as st_mod
    cls = st_mod.class_from_str("flex_window")
    orig = cls.step
    orig_bal, orig_ps = cls.distribute_balanced_vehicles, cls.distribute_peak_shaving_vehicles
    box = {"lines": [], "impl": [], "active": 0, "stats": set()}
    cur = {}

    def cap(fn):
        def w(self, timesteps):
            if "ts" not in cur:
                cur["ts"] = render_timesteps(timesteps)
            return fn(self, timesteps)
        return w

    def wrapped(self):
        line = render_world(self)
        cur.clear()
        bat0 = [b.soc for b in self.world_state.batteries.values()]
        try:
            res = orig(self)
        except Exception as e:
            box["lines"].append(line)
            box["impl"].append(err_name(e))
            box["stats"].add("raises:" + type(e).__name__)
            if forecast and "ts" in cur:
                box["lines"].append("fw_forecast" + line[len("step_flex_window"):])
                box["impl"].append(cur["ts"])
            raise
        box["lines"].append(line)
        box["impl"].append(render_result(self, res))
        if forecast and "ts" in cur:
            box["lines"].append("fw_forecast" + line[len("step_flex_window"):])
            box["impl"].append(cur["ts"])
        bat1 = [b.soc for b in self.world_state.batteries.values()]
        if any(abs(x) > 1e-5 for x in res["commands"].values()) or bat0 != bat1:
            box["active"] += 1
        if any(x < -1e-5 for x in res["commands"].values()):
            box["stats"].add("v2g_discharge")
        if bat0 != bat1:
            box["stats"].add("battery_moves")
        gc0 = list(self.world_state.grid_connectors.values())[0]
        box["stats"].add("window:%s" % gc0.window)
        return res
    cls.step = wrapped
    cls.distribute_balanced_vehicles = cap(orig_bal)
    cls.distribute_peak_shaving_vehicles = cap(orig_ps)
    try:
        yield box
    finally:
        cls.step = orig
        cls.distribute_balanced_vehicles, cls.distribute_peak_shaving_vehicles = orig_bal, orig_ps


def gen_tight(rng):
    """targeted family: few vehicles on one (often binding) connector, everything on the step grid, window signals
    alternating every few steps, initial SoC an exact number of full-power steps below the desired SoC and departure
    a small number of steps ahead - so that `cur_time == departure`, `window steps == needed steps` and
    `forecast power binds for the second vehicle` occur often"""
    interval = rng.choice([15, 30, 60])
    n_steps = rng.randint(10, 22)
    dt = datetime.timedelta(minutes=interval)
    start = scen.T0 + datetime.timedelta(days=rng.choice([0, 2, 5]), hours=rng.choice([0, 7, 22]))
    n_veh = rng.choice([1, 2, 2, 3])
    pmax = rng.choice([11, 22])
    curve = rng.choice([[[0, pmax], [1, pmax]], [[0, pmax], [0.8, pmax], [1, pmax / 4]]])
    cap = rng.choice([20, 40, 60])
    eff = rng.choice([0.95, 1.0])
    vt = {"name": "vt0", "capacity": cap, "mileage": 20, "charging_curve": curve,
          "min_charging_power": rng.choice([0, 0, 1]), "battery_efficiency": eff,
          "v2g": rng.random() < 0.3, "v2g_power_factor": rng.choice([0.5, 1.0]),
          "discharge_limit": rng.choice([0.5, 0.2])}
    rating = rng.choice([0.5 * n_veh * pmax, 0.8 * pmax, pmax, 1.5 * pmax, n_veh * pmax + 5])
    comp = {"vehicle_types": {"vt0": vt}, "vehicles": {}, "charging_stations": {}, "batteries": {},
            "grid_connectors": {"GC1": {"max_power": rating, "voltage_level": "MV", "window": rng.random() < 0.5,
                                        "cost": {"type": "fixed", "value": 0.3}}}}
    ev = {"fixed_load": {}, "local_generation": {}, "grid_operator_signals": [], "vehicle_events": []}
    step_soc = pmax * eff * (interval / 60) / cap
    for k in range(n_veh):
        vid = "v%d" % k
        csid = "CS_%s" % vid
        comp["charging_stations"][csid] = {"max_power": rng.choice([pmax, pmax, 2 * pmax, pmax / 2]),
                                           "min_power": rng.choice([0, 0, 1.0]), "parent": "GC1"}
        desired = rng.choice([0.8, 0.6, 1.0])
        j = rng.randint(0, 6)
        soc = min(1.0, max(0.0, desired - j * step_soc - rng.choice([0, 0, 0, 1e-6, -1e-6, 0.5 * step_soc])))
        m = rng.randint(1, n_steps)
        dep = start + m * dt
        comp["vehicles"][vid] = {"vehicle_type": "vt0", "soc": soc, "desired_soc": desired,
                                 "connected_charging_station": csid, "estimated_time_of_departure": scen.iso(dep)}
        cur = dep
        while cur < start + (n_steps + 4) * dt:
            arr = cur + rng.randint(1, 3) * dt
            ev["vehicle_events"].append({"signal_time": scen.iso(cur - rng.choice([0, 2]) * dt), "start_time": scen.iso(cur),
                                         "vehicle_id": vid, "event_type": "departure",
                                         "update": {"estimated_time_of_arrival": scen.iso(arr)}})
            dep = arr + rng.randint(1, 8) * dt
            j = rng.randint(0, 6)
            ev["vehicle_events"].append({"signal_time": scen.iso(arr), "start_time": scen.iso(arr), "vehicle_id": vid,
                                         "event_type": "arrival",
                                         "update": {"connected_charging_station": csid,
                                                    "estimated_time_of_departure": scen.iso(dep),
                                                    "desired_soc": desired,
                                                    "soc_delta": -min(j * step_soc, 0.5)}})
            cur = dep
    if rng.random() < 0.4:
        ev["fixed_load"]["load_GC1"] = {"start_time": scen.iso(start), "step_duration_s": interval * 60,
                                        "grid_connector_id": "GC1",
                                        "values": [round(rating * rng.choice([0.1, 0.3, 0.5]), 3) for _ in range(n_steps)]}
    if rng.random() < 0.25:
        comp["batteries"]["BAT_GC1"] = {"parent": "GC1", "charging_curve": [[0, 10], [1, 10]], "capacity": rng.choice([10, 50]),
                                        "soc": rng.choice([0, 0.5, 1.0]), "min_charging_power": rng.choice([0, 1]),
                                        "efficiency": 0.95}
    w = rng.random() < 0.5
    i = 0
    while i < n_steps + 30:
        w = not w
        st = start + i * dt
        ev["grid_operator_signals"].append({"signal_time": scen.iso(st - datetime.timedelta(hours=rng.choice([0, 24]))),
                                            "start_time": scen.iso(st), "grid_connector_id": "GC1", "window": w})
        i += rng.randint(1, 5)
    scn = {"scenario": {"start_time": scen.iso(start), "interval": interval, "n_intervals": n_steps},
           "components": comp, "events": ev}
    return {"scenario": scn, "strategy": "flex_window",
            "options": {"LOAD_STRAT": rng.choice(["balanced", "balanced", "balanced", "greedy", "needy"])},
            "meta": {"interval": interval, "n_steps": n_steps, "family": "tight"}}


def gen_full(case):
    rng = random.Random("S_FLEX_WINDOW:%s:%s" % (case["seed"], case["i"]))
    if case["i"] % 3 == 2:
        full = gen_tight(rng)
        r = rng.random()
        if r < 0.04:
            full["options"]["LOAD_STRAT"] = "fair"       # unknown: no sort_key -> AttributeError
        elif r < 0.10 and len(full["scenario"]["components"]["vehicles"]) == 1:
            # connected vehicle without estimated time of departure: TypeError in the first comparison
            for v in full["scenario"]["components"]["vehicles"].values():
                v.pop("estimated_time_of_departure", None)
        full["pid"] = PID
        return full
    full = scen.gen_scenario(rng, strategy="flex_window", feasible=rng.random() < 0.8, max_steps=36)
    # variants this class has and scen.py does not draw
    r = rng.random()
    if r < 0.15:
        full["options"]["HORIZON"] = rng.choice([2, 6])
    r = rng.random()
    if r < 0.08:
        # connector without window attribute and without window signals: window stays None
        for gc in full["scenario"]["components"]["grid_connectors"].values():
            gc.pop("window", None)
        sig = full["scenario"]["events"]["grid_operator_signals"]
        full["scenario"]["events"]["grid_operator_signals"] = [s for s in sig if "window" not in s]
    elif r < 0.16:
        # window attribute missing, signals present (None until the first signal takes effect)
        for gc in full["scenario"]["components"]["grid_connectors"].values():
            gc.pop("window", None)
        for s in full["scenario"]["events"]["grid_operator_signals"]:
            if "window" in s and rng.random() < 0.5:
                t = datetime.datetime.fromisoformat(s["start_time"]) + datetime.timedelta(
                    minutes=rng.choice([0, 7, 20, 45]))
                s["start_time"] = t.isoformat()
    full["pid"] = PID
    return full


def gen_cases(tier, seed):
    n = 450 if tier == "quick" else 6000
    for i in range(n):
        yield {"seed": seed, "i": i, "pid": PID}


def eval_case(case):
    full = case if "scenario" in case else gen_full(case)
    with tie(full) as box:
        res = scen.run_real(full, timeout_s=300, collect_ops=False)
    stats = ["LOAD_STRAT:" + str(full["options"].get("LOAD_STRAT"))] + sorted(box["stats"])
    if res.get("timeout"):
        stats.append("timeout")
    return {"lines": box["lines"], "impl": box["impl"], "violations": [], "nontrivial": box["active"] > 0,
            "stats": stats, "replay_case": full, "num": {"steps_compared": len(box["lines"])}}


def compare(case, impl, model, tol=0.0):
    a, b = impl.split(), model.split()
    if len(a) != len(b):
        return "different shape (%d vs %d tokens): %s  //  %s" % (len(a), len(b), impl[:300], model[:300])
    for i, (x, y) in enumerate(zip(a, b)):
        if x == y:
            continue
        if x.startswith("x") and y.startswith("x"):
            fx, fy = dec(x), dec(y)
            if fx == fy or abs(fx - fy) <= tol * max(1.0, abs(fx), abs(fy)):
                continue
            return "token %d: impl %r model %r" % (i, fx, fy)
        return "token %d: impl %s model %s" % (i, x, y)
    return None
