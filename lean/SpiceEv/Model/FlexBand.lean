/-
Model of the two flexibility-band functions of spice_ev/generate/generate_schedule.py

  generate_flex_band(scenario, gcID, core_standing_time)      (`generateFlexBand`)
  generate_individual_flex_band(scenario, gcID)               (`generateIndividualFlexBand`)

transliterated statement by statement (property C13: the CONTENT of the band that
Model/ScheduleGen.lean takes as an input).  Core Lean only, generic in the number type `α` and in
the battery type `B`.

What is reused
* `Strategy.__init__` / `Strategy.step` (the event loop the collective function drives):
  `Strat.init`, `Strat.stepPy` of Model/StrategyBase.lean; `Events.allEvents`, `getEventSteps`,
  `bucketIndex` of Model/Events.lean; `dtWithinCoreStandingTime` of Model/Util.lean;
  `clampToGc` / `flexRow` of Model/ScheduleGen.lean (the last three statements of a step).
* the battery: everything the two functions need from `spice_ev/battery.py` is the record `Ops`
  (`get_available_power(interval)`, capacity, efficiency, `loading_curve.max_power`, reading and
  writing `soc`).  The driver instantiates it with Model/Battery.lean on `Float`; the theorems hold
  for every battery whose available power is non-negative.  `Ops.sum` is Python's builtin `sum`
  (CPython 3.12 compensates float sums; a `+=` loop does not — both occur below and are kept
  apart), `Ops.ofInt` is the int → float conversion of a mixed int/float operation.

Representation
* times are `Int` microseconds on the scale of `DateTime.instant` (UTC instant for aware, wall
  clock for naive datetimes; all datetimes of one scenario are either all aware or all naive — a
  mixed subtraction raises `TypeError` in Python and is outside this model, as in Model/Events.lean).
  `scenario.start_time` is a `DateTime` because `dt_within_core_standing_time` reads wall-clock
  fields of `start_time + interval * step_i`.
* a vehicle is the `Vehicle α` of Model/StrategyBase.lean (`soc` = `vehicle.battery.soc`) plus the
  static `VehType` (battery object without its SoC, `vehicle_type.v2g`, `v2g_power_factor`,
  `min_charging_power`) found under the vehicle id.
* collective mode: Python keeps two dicts with the same keys in the same order
  (`s.world_state.vehicles` and the local `vehicles = {vid: [power, energy, v2g]}`); the model walks
  both in lock step (`updateVehicles`).  A `VRec` is the three-element list.
* `ts_per_hour = timedelta(hours=1) / interval` is a parameter (`tsph`); it is never zero for a
  representable `timedelta`, so `x / ts_per_hour` cannot raise.
* every iteration of the collective loop also records a `StepRec` (ghost data: the world's
  vehicles, the `vehicles` dict and the five summands of the band) so that the theorems can speak
  about "the vehicles present at step i".  The returned dict is `Flex`.
* `warnings.warn` calls have no effect on the result and are dropped.  `AttributeError`
  (`vehicle.last_arrival_idx` never set) is rendered as `PyErr.exception`; it is unreachable (a
  vehicle connected to a station of this connector has always been registered).
-/
import SpiceEv.Py
import SpiceEv.Time
import SpiceEv.Model.Util
import SpiceEv.Model.Events
import SpiceEv.Model.StrategyBase
import SpiceEv.Model.ScheduleGen
namespace SpiceEv.FlexBand
open SpiceEv

/-- what the two functions use of a `Battery` object -/
structure Ops (α B : Type) where
  capacity : B → α
  efficiency : B → α
  soc : B → α
  setSoc : B → α → B
  /-- `battery.loading_curve.max_power` -/
  loadMax : B → α
  /-- `battery.get_available_power(interval)` (the SoC is restored by the method itself) -/
  available : B → Py α
  /-- builtin `sum(list)` -/
  sum : List α → α
  /-- builtin `sum(list)` over items that may be Python ints (flag `true`): CPython adds ints
  exactly, the first float and every later int without compensation, later floats compensated.
  Only the charging-power column `v[0]` can hold a non-zero int (`loading_curve.max_power` of a
  curve given with integer powers); the int `0` behaves like `0.0` in `sum`. -/
  sumTagged : List (α × Bool) → α
  /-- int → number (`float(i)` in a mixed operation) -/
  ofInt : Int → α

/-- static data of a vehicle: `vehicle.battery` (without the SoC, which lives in `Vehicle.soc`),
`vehicle.vehicle_type.{v2g, v2g_power_factor, min_charging_power}` -/
structure VehType (α B : Type) where
  battery : B
  v2g : Bool
  v2gFactor : α
  minChargingPower : α
  /-- `type(battery.loading_curve.max_power) is int` (see `Ops.sumTagged`) -/
  loadMaxInt : Bool := false

/-- the `Scenario` object as far as the two functions read it -/
structure Scen (α B : Type) where
  connectors : List (String × Connector α)
  stations : List (String × Station α)
  /-- `charging_station.min_power` (individual mode only) -/
  stationMin : List (String × α)
  vehicles : List (String × Vehicle α)
  vtypes : List (String × VehType α B)           -- keyed by vehicle id
  /-- `components.batteries`: name ↦ (parent, battery) -/
  batteries : List (String × String × B)
  start : DateTime
  /-- `scenario.stop_time` -/
  stop : Int
  interval : Int
  n : Nat
  events : Events α

/-- `vehicles[vid] = [charging power, energy needed, V2G power]` -/
structure VRec (α : Type) where
  power : α
  energy : α
  v2g : α
  /-- `type(v[0]) is int` (see `Ops.sumTagged`; no influence on any value over a field) -/
  powerInt : Bool := true
  deriving Repr

/-- one entry of `flex["intervals"]` -/
structure Interval (α : Type) where
  needed : α
  time : List Nat
  numPresent : Nat
  deriving Repr

/-- `flex["vehicles"]` without the two per-step lists -/
structure FleetInfo (α : Type) where
  capacity : α
  desiredEnergy : α
  v2g : Bool
  efficiency : α
  deriving Repr

/-- `flex["batteries"]`; `initDischarge` / `fullDischarge` are dict entries in individual mode and
the locals `bat_init_discharge_power` / `bat_full_discharge_power` in collective mode -/
structure BatInfo (α : Type) where
  stored : α
  power : α
  free : α
  efficiency : α
  initDischarge : α
  fullDischarge : α
  deriving Repr

/-- one iteration of the collective loop: the five appended values and ghost data -/
structure StepRec (α : Type) where
  base : α                                   -- flex["base"][i]
  min : α                                    -- flex["min"][i]
  max : α                                    -- flex["max"][i]
  vmin : α                                   -- flex["vehicles"]["min"][i]
  vmax : α                                   -- flex["vehicles"]["max"][i]
  inCst : Bool                               -- currently_in_core_standing_time
  present : Bool                             -- vehicles_present
  prev : Bool                                -- prev_vehicles_present at the start of the iteration
  recsIn : List (String × VRec α)            -- `vehicles` dict at the start of the iteration
  vehicles : List (String × Vehicle α)       -- world vehicles after the vehicle loop
  recs : List (String × VRec α)              -- `vehicles` dict after vehicle loop + support loop
  recsOut : List (String × VRec α)           -- `vehicles` dict at the end of the iteration
  baseFlex : α                               -- base_flex at the end of the iteration
  batDis : α                                 -- bat_flex_discharge
  v2gFlex : α
  vehFlex : α
  batCharge : α                              -- bat_flex_charge at the end of the iteration

/-- the dict returned by `generate_flex_band` (+ the ghost trace) -/
structure Flex (α : Type) where
  min : List α
  base : List α
  max : List α
  fleet : FleetInfo α
  vmin : List α
  vmax : List α
  batteries : BatInfo α
  intervals : List (Interval α)
  trace : List (StepRec α)

section
variable {α B : Type} [Add α] [Sub α] [Mul α] [Div α] [Neg α] [LT α] [LE α]
  [DecidableLT α] [DecidableLE α] [OfNat α 0] [OfNat α 1]

/-- `d[k]` on a dict: `KeyError` for a missing key -/
def lookupPy {β : Type} (k : String) (l : List (String × β)) : Py β :=
  match alGet? k l with
  | some c => pure c
  | none => .error .keyError

/-- `for … : acc += x` starting from the int `0` -/
def plusLoop (l : List α) : α := l.foldl (fun acc x => acc + x) 0

/-- `GridConnector.get_current_load()` (no exclusions) -/
def currentLoad (c : Connector α) : α := plusLoop (c.loads.map (·.2))

/-- the battery block shared by both functions:
```
batteries = [b for b in … if b.parent == gcID]
init = sum([b.get_available_power(interval) for b in batteries])
for b in batteries: stored += b.soc * b.capacity; power += b.loading_curve.max_power
                    free += (1 - b.soc) * b.capacity; efficiency += b.efficiency; b.soc = 1
full = sum([b.get_available_power(interval) for b in batteries])
efficiency = efficiency / len(batteries) if len(batteries) else 1
``` -/
def batteryInfo (ops : Ops α B) (gcId : String) (bats : List (String × String × B)) : Py (BatInfo α) := do
  let mine := (bats.filter (fun b => b.2.1 == gcId)).map (·.2.2)
  let initP ← mine.mapM ops.available
  let stored := plusLoop (mine.map (fun b => ops.soc b * ops.capacity b))
  let power := plusLoop (mine.map ops.loadMax)
  let free := plusLoop (mine.map (fun b => (1 - ops.soc b) * ops.capacity b))
  let eff := plusLoop (mine.map ops.efficiency)
  let fullP ← (mine.map (fun b => ops.setSoc b 1)).mapM ops.available
  .ok { stored, power, free
        efficiency := if mine.length ≠ 0 then eff / ops.ofInt mine.length else 1
        initDischarge := ops.sum initP
        fullDischarge := ops.sum fullP }

/-! ### generate_flex_band -/

/-- the constant context of the collective loop -/
structure Env (α B : Type) where
  ops : Ops α B
  /-- `EPS` of generate_schedule.py -/
  eps : α
  tsph : α
  gcId : String
  /-- `gc.max_power` -/
  gcMax : α
  cst : Option CoreStandingTime
  cfg : Cfg α
  start : DateTime
  interval : Int
  n : Nat
  vtypes : List (String × VehType α B)
  bat : BatInfo α

/-- `get_v2g_energy(vehicle)` of the individual function; the collective function has the same
expression inline: `battery.get_available_power(interval) * v2g_power_factor if v2g else 0` -/
def v2gEnergy (ops : Ops α B) (vt : VehType α B) (soc : α) : Py α :=
  if vt.v2g then do
    let p ← ops.available (ops.setSoc vt.battery soc)
    pure (p * vt.v2gFactor)
  else pure 0

/-- "scale with remaining steps": `delta_soc = max(v.get_delta_soc(), 0)`, and if the vehicle has an
estimated time of departure
```
dep = -((scenario.start_time - dep) // s.interval)
factor = min((scenario.n_intervals - step_i) / (dep - step_i), 1)      # int / int
delta_soc *= factor
``` -/
def scaledDeltaSoc (env : Env α B) (stepI : Nat) (v : Vehicle α) : Py α :=
  let deltaSoc0 := pymax (v.desired - v.soc) 0
  match v.etd with
  | none => pure deltaSoc0
  | some dep =>
    let depIdx := bucketIndex env.start.instant dep env.interval
    if depIdx - (stepI : Int) = 0 then .error .zeroDivision
    else
      let q := env.ops.ofInt ((env.n : Int) - (stepI : Int)) / env.ops.ofInt (depIdx - (stepI : Int))
      pure (deltaSoc0 * pymin q 1)

/-- the "just arrived" block: `[charging_power, vehicle_energy_needed, v2g]` and the vehicle with
`battery.soc = max(battery.soc, desired_soc)` -/
def register (env : Env α B) (stepI : Nat) (v : Vehicle α) (vt : VehType α B) (cs : Station α)
    (old : VRec α) : Py (Vehicle α × VRec α) := do
  let deltaSoc ← scaledDeltaSoc env stepI v
  let e ← pydiv (deltaSoc * env.ops.capacity vt.battery) (env.ops.efficiency vt.battery)
  let v2g ← v2gEnergy env.ops vt (pymax v.soc v.desired)       -- after v.battery.soc = max(soc, desired)
  pure ({ v with soc := pymax v.soc v.desired },
    { power := pymin (env.ops.loadMax vt.battery) cs.maxPower   -- charging_power
      energy := old.energy + e                                   -- vehicle_energy_needed
      v2g := v2g
      -- `min(a, b)` returns `a` (the curve's value, possibly an int) unless `b < a`
      powerInt := vt.loadMaxInt && !(decide (cs.maxPower < env.ops.loadMax vt.battery)) })

/-- body of `for vid, v in s.world_state.vehicles.items():` -/
def updateVehicle (env : Env α B) (stepI : Nat) (stations : List (String × Station α))
    (vid : String) (v : Vehicle α) (old : VRec α) : Py (Vehicle α × VRec α) :=
  match v.station with
  | none => pure (v, ⟨0, old.energy, 0, true⟩)       -- keep vehicle energy until interval is complete
  | some csId =>
    match alGet? csId stations with
    | none => .error .keyError                         -- s.world_state.charging_stations[cs_id]
    | some cs =>
      if cs.parent = env.gcId then
        if isZero old.power then                       -- just arrived
          match alGet? vid env.vtypes with
          | none => .error .keyError
          | some vt => register env stepI v vt cs old
        else pure (v, old)
      else pure (v, old)

/-- the vehicle loop (both dicts in lock step) -/
def updateVehicles (env : Env α B) (stepI : Nat) (stations : List (String × Station α)) :
    List (String × Vehicle α) → List (String × VRec α) →
    Py (List (String × Vehicle α) × List (String × VRec α))
  | (vid, v) :: vs, (_, r) :: rs => do
    let x ← updateVehicle env stepI stations vid v r
    let rest ← updateVehicles env stepI stations vs rs
    pure ((vid, x.1) :: rest.1, (vid, x.2) :: rest.2)
  | _, _ => pure ([], [])

/-- "local generation surplus can support vehicle charging":
```
for v in vehicles.values():
    if local_generation_support <= EPS: break
    power = min(v[0], v[1] * ts_per_hour, local_generation_support)
    v[1] -= power / ts_per_hour; local_generation_support -= power; base_flex += power
```
returns the dict, `local_generation_support`, `base_flex` -/
def supportLoop (eps tsph : α) :
    List (String × VRec α) → α → α → List (String × VRec α) × α × α
  | [], lgs, base => ([], lgs, base)
  | (vid, r) :: rest, lgs, base =>
    if lgs ≤ eps then ((vid, r) :: rest, lgs, base)
    else
      let power := pymin (pymin r.power (r.energy * tsph)) lgs
      let out := supportLoop eps tsph rest (lgs - power) (base + power)
      ((vid, { r with energy := r.energy - power / tsph }) :: out.1, out.2.1, out.2.2)

/-- `{vid: [0, 0, 0] for vid in vehicles}` -/
def zeroRecs (recs : List (String × VRec α)) : List (String × VRec α) :=
  recs.map (fun r => (r.1, (⟨0, 0, 0, true⟩ : VRec α)))

/-- loop state: the strategy object, the `vehicles` dict, `prev_vehicles_present`,
`flex["intervals"]` (most recent first) and what has been appended so far -/
structure LoopState (α : Type) where
  strat : Strat α
  recs : List (String × VRec α)
  prev : Bool
  intervalsRev : List (Interval α)
  trace : List (StepRec α)

/-- one iteration after the vehicle loop: `num_vehicles_present` … the five `append`s.
`strat` = the strategy object after `s.step` and the vehicle loop, `base0` = `gc.get_current_load()`,
`recs0` = the `vehicles` dict after the vehicle loop -/
def finishBand (env : Env α B) (stepI : Nat) (st : LoopState α) (strat : Strat α) (inCst : Bool)
    (base0 : α) (recs0 : List (String × VRec α)) : Py (LoopState α) :=
  -- num_vehicles_present = sum(bool(v[0]) for v in vehicles.values())
  let numPresent := (recs0.filter (fun r => !(isZero r.2.power))).length
  let lgs0 := pymax (-base0) 0
  let present := inCst && decide (0 < numPresent)
  let batDis := if stepI = 0 then env.bat.initDischarge else env.bat.fullDischarge
  if present then
    let sup := supportLoop env.eps env.tsph recs0 lgs0 base0
    let recs := sup.1
    let lgs := sup.2.1
    let baseFlex := sup.2.2
    -- vehicle_flex, needed, v2g_flex = map(sum, zip(*vehicles.values()))
    let vehFlex := env.ops.sumTagged (recs.map (fun r => (r.2.power, r.2.powerInt)))
    let needed := env.ops.sum (recs.map (·.2.energy))
    let v2gFlex := env.ops.sum (recs.map (·.2.v2g))
    let ivs := if st.prev then st.intervalsRev else ⟨0, [], 0⟩ :: st.intervalsRev
    match ivs with
    | [] => .error .indexError                                   -- flex["intervals"][-1]
    | info :: older =>
      let info : Interval α :=
        { needed := needed, numPresent := numPresent
          time := if inCst then info.time ++ [stepI] else info.time }
      let l2b := pymin env.bat.power lgs                         -- local_gen_to_battery
      let batCharge := env.bat.power - l2b
      let row := ScheduleGen.flexRow env.gcMax baseFlex batDis v2gFlex vehFlex batCharge
      pure { strat, recs, prev := present, intervalsRev := info :: older
             trace := st.trace ++ [{
               base := row.1, min := row.2.1, max := row.2.2, vmin := -v2gFlex, vmax := vehFlex
               inCst, present, prev := st.prev, recsIn := st.recs, vehicles := strat.world.vehicles, recs, recsOut := recs
               baseFlex, batDis, v2gFlex, vehFlex, batCharge }] }
  else
    -- no vehicles present or not within core standing time: no vehicle flex
    let recs := if st.prev then zeroRecs recs0 else recs0
    let l2b := pymin env.bat.power lgs0
    let batCharge := env.bat.power - l2b
    let row := ScheduleGen.flexRow env.gcMax base0 batDis 0 0 batCharge
    pure { strat, recs, prev := present, intervalsRev := st.intervalsRev
           trace := st.trace ++ [{
             base := row.1, min := row.2.1, max := row.2.2, vmin := -0, vmax := 0
             inCst, present, prev := st.prev, recsIn := st.recs, vehicles := strat.world.vehicles, recs := recs0, recsOut := recs
             baseFlex := base0, batDis, v2gFlex := 0, vehFlex := 0, batCharge }] }

/-- one iteration of `for step_i in range(scenario.n_intervals):` -/
def stepBand (env : Env α B) (stepI : Nat) (bucket : List (Event α)) (st : LoopState α) :
    Py (LoopState α) := do
  let strat ← st.strat.stepPy env.cfg bucket                     -- s.step(event_steps[step_i])
  let inCst ← dtWithinCoreStandingTime (env.start.add (env.interval * (stepI : Int))) env.cst
  let gc ← lookupPy env.gcId strat.world.connectors
  let base0 := currentLoad gc                                    -- basic value
  let upd ← updateVehicles env stepI strat.world.stations strat.world.vehicles st.recs
  finishBand env stepI st { strat with world := { strat.world with vehicles := upd.1 } } inCst base0 upd.2

/-- the loop over `event_steps` (`get_event_steps` returns exactly `n_intervals` buckets) -/
def runSteps (env : Env α B) : Nat → List (List (Event α)) → LoopState α → Py (LoopState α)
  | _, [], st => pure st
  | i, bucket :: rest, st => do
    let st' ← stepBand env i bucket st
    runSteps env (i + 1) rest st'

/-- the fleet block: capacity, desired energy, average efficiency (`+=` loops), `v2g_enabled` -/
def fleetInfo (ops : Ops α B) (vehicles : List (String × Vehicle α))
    (vtypes : List (String × VehType α B)) : Py (FleetInfo α) := do
  let vs ← vehicles.mapM (fun (p : String × Vehicle α) =>
    match alGet? p.1 vtypes with
    | some vt => (pure (p.2, vt) : Py (Vehicle α × VehType α B))
    | none => .error .keyError)
  let capacity := plusLoop (vs.map (fun x => ops.capacity x.2.battery))
  let desired := plusLoop (vs.map (fun x => x.1.desired * ops.capacity x.2.battery))
  let eff := plusLoop (vs.map (fun x => ops.efficiency x.2.battery * ops.capacity x.2.battery))
  let avg ← pydiv eff capacity                                   -- average_efficiency /= total
  .ok { capacity, desiredEnergy := desired, v2g := vs.any (fun x => x.2.v2g), efficiency := avg }

/-- `generate_flex_band(scenario, gcID, core_standing_time)`; `eps` = `EPS` of
generate_schedule.py, `stratEps` = `Strategy.EPS`, `tsph` = `timedelta(hours=1) / interval` -/
def generateFlexBand (ops : Ops α B) (eps stratEps tsph : α) (sc : Scen α B) (gcId : String)
    (cst : Option CoreStandingTime) : Py (Flex α) := do
  -- s = strategy.Strategy(components, start_time, interval=…, margin=1, ALLOW_NEGATIVE_SOC=True)
  let s ← Strat.init
    { connectors := sc.connectors, stations := sc.stations, vehicles := sc.vehicles
      batteries := sc.batteries.map (·.1), queue := [] } sc.start.instant sc.interval 1
  let cfg : Cfg α := { interval := sc.interval, eps := stratEps, margin := 1, allowNeg := true, resetNeg := false }
  let gc ← lookupPy gcId s.world.connectors                     -- s.world_state.grid_connectors[gcID]
  let steps ← getEventSteps sc.start.instant sc.n sc.interval sc.events.allEvents
  let fleet ← fleetInfo ops s.world.vehicles sc.vtypes
  let bat ← batteryInfo ops gcId sc.batteries
  let env : Env α B :=
    { ops, eps, tsph, gcId, gcMax := gc.maxPower, cst, cfg, start := sc.start
      interval := sc.interval, n := sc.n, vtypes := sc.vtypes, bat }
  let st ← runSteps env 0 steps.steps
    { strat := s, recs := s.world.vehicles.map (fun p => (p.1, (⟨0, 0, 0, true⟩ : VRec α)))
      prev := false, intervalsRev := [], trace := [] }
  .ok { min := st.trace.map (·.min), base := st.trace.map (·.base), max := st.trace.map (·.max)
        fleet, vmin := st.trace.map (·.vmin), vmax := st.trace.map (·.vmax)
        batteries := bat, intervals := st.intervalsRev.reverse, trace := st.trace }

/-! ### generate_individual_flex_band -/

/-- one record of `flex["vehicles"][idx]` -/
structure ArrRec (α : Type) where
  vid : String
  v2g : α
  tStart : Int
  tEnd : Int
  idxStart : Int
  idxEnd : Int
  initSoc : α
  energy : α
  desiredSoc : α
  efficiency : α
  pMin : α
  pMax : α
  deriving Repr

/-- the deep-copied vehicle: the attributes the function reads or writes -/
structure IVeh (α : Type) where
  station : Option String
  soc : α
  /-- `vehicle.last_arrival_idx` (`none` = attribute not set) -/
  lastArrival : Option (Nat × Nat)

structure IndState (α : Type) where
  loads : List (String × α)                  -- gc.current_loads
  curMax : Option α                          -- gc.cur_max_power
  vehs : List (String × IVeh α)
  records : List (List (ArrRec α))           -- flex["vehicles"]
  base : List α
  min : List α
  max : List α

/-- the dict returned by `generate_individual_flex_band` -/
structure IndFlex (α : Type) where
  vehicles : List (List (ArrRec α))
  batteries : BatInfo α
  base : List α
  min : List α
  max : List α

/-- "change ordering and corresponding interval from signal_time to start_time" -/
def startBuckets (start interval : Int) (n : Nat) (signalSteps : List (List (Event α))) :
    List (List (Event α)) :=
  signalSteps.foldl (fun acc cur =>
    cur.foldl (fun acc ev =>
      -- start_interval = -((scenario.start_time - event.start_time) // interval)
      let si := bucketIndex start ev.start interval
      if 0 ≤ si ∧ si < (n : Int) then acc.modify si.toNat (· ++ [ev]) else acc) acc)
    (List.replicate n [])

/-- `max(cs.min_power, vehicle_type.min_charging_power)`, `min(cs.max_power, curve.max_power)` -/
def pBounds (ops : Ops α B) (sc : Scen α B) (csId : String) (cs : Station α) (vt : VehType α B) :
    Py (α × α) :=
  match alGet? csId sc.stationMin with
  | none => .error .keyError
  | some mn => pure (pymax mn vt.minChargingPower, pymin cs.maxPower (ops.loadMax vt.battery))

def setVeh (st : IndState α) (vid : String) (v : IVeh α) : IndState α :=
  { st with vehs := alSet vid v st.vehs }

/-- "get initially connected vehicles" — loop body -/
def initialVehicle (ops : Ops α B) (sc : Scen α B) (gcId : String) (st : IndState α)
    (p : String × Vehicle α) : Py (IndState α) :=
  match p.2.station with
  | none => pure st
  | some csId =>
    match alGet? csId sc.stations with
    | none => pure st
    | some cs =>
      if cs.parent ≠ gcId then pure st
      else
        match alGet? p.1 sc.vtypes, st.records with
        | some vt, first :: others => do
          let v := p.2
          let deltaSoc := pymax (v.desired - v.soc) 0
          let energy ← pydiv (deltaSoc * ops.capacity vt.battery) (ops.efficiency vt.battery)
          let v2g ← v2gEnergy ops vt v.soc
          let pb ← pBounds ops sc csId cs vt
          let rec_ : ArrRec α :=
            { vid := p.1, v2g, tStart := sc.start.instant, tEnd := sc.stop, idxStart := 0
              idxEnd := (sc.n : Int) - 1, initSoc := v.soc, energy, desiredSoc := v.desired
              efficiency := ops.efficiency vt.battery, pMin := pb.1, pMax := pb.2 }
          pure (setVeh { st with records := (first ++ [rec_]) :: others } p.1
            { station := v.station, soc := v.soc, lastArrival := some (0, first.length) })
        | _, _ => .error .keyError

/-- append to the last list of `flex["vehicles"]` -/
def appendLast {β : Type} (x : β) : List (List β) → List (List β)
  | [] => []
  | [l] => [l ++ [x]]
  | l :: ls => l :: appendLast x ls

/-- `flex["vehicles"][i][j]["t_end"] = t; …["idx_end"] = idx` -/
def setEnd (recs : List (List (ArrRec α))) (ij : Nat × Nat) (t : Int) (idx : Nat) :
    Py (List (List (ArrRec α))) :=
  match recs[ij.1]? with
  | none => .error .indexError
  | some row =>
    match row[ij.2]? with
    | none => .error .indexError
    | some _ => pure (recs.modify ij.1 (fun row => row.modify ij.2
        (fun r => { r with tEnd := t, idxEnd := (idx : Int) })))

/-- `event.update["estimated_time_of_departure"]` as used in `est_tod - scenario.start_time` -/
def etdOf (upd : VehUpdate α) : Py Int :=
  match upd.etd with
  | none => .error .keyError                           -- key missing
  | some none => .error .typeError                     -- None - datetime
  | some (some t) => pure t

/-- `len(flex["vehicles"][-1])` -/
def lastLength {β : Type} (l : List (List β)) : Nat :=
  match l.getLast? with
  | some x => x.length
  | none => 0

/-- the dict appended for a vehicle that arrives at this connector (`soc` = SoC after `soc_delta`) -/
def arrivalRecord (ops : Ops α B) (sc : Scen α B) (idx : Nat) (ev : Event α) (vid : String)
    (vt : VehType α B) (csId : String) (cs : Station α) (soc desired : α) (upd : VehUpdate α) :
    Py (ArrRec α) := do
  let deltaSoc := pymax (desired - soc) 0
  let energy ← pydiv (deltaSoc * ops.capacity vt.battery) (ops.efficiency vt.battery)
  let estTod ← etdOf upd
  let todIdx := Int.fdiv (estTod - sc.start.instant) sc.interval   -- (est_tod - start_time) // interval
  let v2g ← v2gEnergy ops vt soc
  let pb ← pBounds ops sc csId cs vt
  pure { vid, v2g, tStart := ev.start
         tEnd := if sc.stop < estTod then sc.stop else estTod        -- min(est_tod, stop_time)
         idxStart := (idx : Int)
         idxEnd := if (sc.n : Int) - 1 < todIdx then (sc.n : Int) - 1 else todIdx
         initSoc := soc, energy, desiredSoc := desired
         efficiency := ops.efficiency vt.battery, pMin := pb.1, pMax := pb.2 }

/-- the `VehicleEvent` branch -/
def indVehicleEvent (ops : Ops α B) (sc : Scen α B) (gcId : String) (idx : Nat) (st : IndState α)
    (ev : Event α) (vid : String) (kind : VehKind) (upd : VehUpdate α) : Py (IndState α) :=
  match alGet? vid st.vehs, alGet? vid sc.vtypes with
  | some veh, some vt =>
    match kind with
    | .arrival =>
      match upd.station with
      | none => .error .keyError                       -- event.update["connected_charging_station"]
      | some csId? =>
        match upd.socDelta with
        | none => .error .keyError                     -- event.update["soc_delta"]
        | some d =>
          let veh : IVeh α := { veh with station := csId?, soc := veh.soc + d }
          match csId? with
          | none => pure (setVeh st vid veh)
          | some csId =>
            match alGet? csId sc.stations with
            | none => pure (setVeh st vid veh)          -- CS not found? Can't charge
            | some cs =>
              match upd.desired with
              | none => .error .keyError               -- event.update["desired_soc"]
              | some desired =>
                if cs.parent ≠ gcId then
                  -- fake perfect charging
                  pure (setVeh st vid { veh with soc := pymax veh.soc desired })
                else do
                  -- vehicle.last_arrival_idx = (len(flex["vehicles"])-1, len(flex["vehicles"][-1]))
                  let veh := { veh with lastArrival := some (st.records.length - 1, lastLength st.records) }
                  let rec_ ← arrivalRecord ops sc idx ev vid vt csId cs veh.soc desired upd
                  pure (setVeh { st with records := appendLast rec_ st.records } vid
                    { veh with soc := pymax veh.soc desired })
    | _ =>
      -- `else:` departure (every event type other than 'arrival')
      match veh.station with
      | none => pure st
      | some csId =>
        let st := setVeh st vid { veh with station := none }
        match alGet? csId sc.stations with
        | none => pure st
        | some cs =>
          if cs.parent ≠ gcId then pure st
          else
            match veh.lastArrival with
            | none => .error .exception                -- AttributeError (unreachable)
            | some ij => do
              let recs ← setEnd st.records ij ev.start idx
              pure { st with records := recs }
  | _, _ => .error .keyError                           -- vehicles[vid]

/-- body of `for event in timestep:` -/
def indEvent (ops : Ops α B) (sc : Scen α B) (gcId : String) (gcMax : α) (idx : Nat)
    (st : IndState α) (ev : Event α) : Py (IndState α) :=
  match ev.kind with
  | .fixedLoad name gc value =>
    if gc = gcId then pure { st with loads := alSet name value st.loads } else pure st
  | .localGen name gc value =>
    if gc = gcId then pure { st with loads := alSet name (-value) st.loads } else pure st
  | .gridSignal gc maxPower _ _ _ =>
    if gc = gcId then
      if !(isZero gcMax) then                           -- `if gc.max_power:`
        match maxPower with
        | none => pure { st with curMax := some gcMax } -- reset to connector power
        | some m => pure { st with curMax := some (pymin gcMax m) }
      else pure { st with curMax := maxPower }          -- connector max power not set
    else pure st
  | .vehicle vid kind upd => indVehicleEvent ops sc gcId idx st ev vid kind upd

/-- one pass of `for idx, timestep in enumerate(event_steps):` -/
def indStep (ops : Ops α B) (sc : Scen α B) (gcId : String) (gcMax : α) (idx : Nat)
    (st : IndState α) (timestep : List (Event α)) : Py (IndState α) := do
  let st := if idx ≠ 0 then { st with records := st.records ++ [[]] } else st
  let st ← timestep.foldlM (indEvent ops sc gcId gcMax idx) st
  match st.curMax with
  | none => .error .typeError                           -- `-gc.cur_max_power` with None
  | some cur =>
    pure { st with base := st.base ++ [plusLoop (st.loads.map (·.2))]
                   min := st.min ++ [-cur], max := st.max ++ [cur] }

def indSteps (ops : Ops α B) (sc : Scen α B) (gcId : String) (gcMax : α) :
    Nat → List (List (Event α)) → IndState α → Py (IndState α)
  | _, [], st => pure st
  | idx, ts :: rest, st => do
    let st' ← indStep ops sc gcId gcMax idx st ts
    indSteps ops sc gcId gcMax (idx + 1) rest st'

/-- `generate_individual_flex_band(scenario, gcID)` -/
def generateIndividualFlexBand (ops : Ops α B) (sc : Scen α B) (gcId : String) : Py (IndFlex α) := do
  let gc ← lookupPy gcId sc.connectors                           -- deepcopy(…grid_connectors[gcID])
  let signalSteps ← getEventSteps sc.start.instant sc.n sc.interval sc.events.allEvents
  let eventSteps := startBuckets sc.start.instant sc.interval sc.n signalSteps.steps
  let bat ← batteryInfo ops gcId sc.batteries
  let st0 : IndState α :=
    { loads := gc.loads, curMax := gc.curMaxPower
      vehs := sc.vehicles.map (fun p => (p.1, { station := p.2.station, soc := p.2.soc, lastArrival := none }))
      records := [[]], base := [], min := [], max := [] }
  let st1 ← sc.vehicles.foldlM (initialVehicle ops sc gcId) st0
  let st ← indSteps ops sc gcId gc.maxPower 0 eventSteps st1
  .ok { vehicles := st.records, batteries := bat, base := st.base, min := st.min, max := st.max }

end
end SpiceEv.FlexBand
